(* C12 — the BAM record stream reader and the BGZF frame reader are compositions of the
   schedule-independent primitives, hence schedule independent: closed forms on the data. *)
From Coq Require Import List NArith Arith Bool Lia.
From NV Require Import Io.Source Io.ReadExact Io.ReadExactProofs Io.BufReader Io.BufReaderProofs
  Io.FastaIndex Io.FastaIndexProofs Io.FastqRead Io.FastqReadProofs Io.HeaderRead Io.HeaderReadProofs Io.BgzfRead Io.BgzfReadProofs Io.BedRead Io.BedReadProofs Io.TabRead Io.TabReadProofs Io.Run.
From NV Require Fasta.Layout Fasta.Indexer Fasta.Fastq Text.TextBase Text.BedRec.
Import ListNotations.

Lemma rep_src_fuel : forall s d m n, rep_src s d m -> m + n < src_fuel s n.
Proof. intros s d m n [_ Hm]. unfold src_fuel. lia. Qed.

(* ---- BAM *)
Definition bam_record_closed (d : list N) : rec_res * list N :=
  match eof_class 4 d with
  | ENothing => (RecOk 0, skipn 4 d)
  | EFull =>
      let n := le_val (firstn 4 d) in
      if (n =? 0)%N then (RecOk 0, skipn 4 d)
      else
        let d1 := skipn 4 d in
        let k := N.to_nat n in
        (if k <=? length d1 then (if bam_validate (firstn k d1) then RecOk n else RecUnexpectedEof)
         else RecUnexpectedEof, skipn k d1)
  | _ => (RecUnexpectedEof, skipn 4 d)
  end.

Lemma bam_read_record_spec : forall s d m, rep_src s d m ->
  exists s' m', bam_read_record s = (fst (bam_record_closed d), s')
                /\ rep_src s' (snd (bam_record_closed d)) m' /\ m' <= m.
Proof.
  intros s d m HR. unfold bam_read_record, bam_record_closed.
  destruct (read_exact_or_eof_spec src_read rep_src src_simulates (src_fuel s 4) s d m 4 HR
              (rep_src_fuel s d m 4 HR)) as [s1 [m1 [E1 [HR1 Hm1]]]].
  rewrite E1. unfold eof_class.
  destruct (4 <=? length d) eqn:H4.
  - destruct (le_val (firstn 4 d) =? 0)%N eqn:Hz.
    + exists s1, m1. auto.
    + set (k := N.to_nat (le_val (firstn 4 d))).
      destruct (read_exact_spec src_read rep_src src_simulates (src_fuel s1 k) s1 (skipn 4 d) m1 k HR1
                  (rep_src_fuel s1 _ m1 k HR1)) as [s2 [m2 [E2 [HR2 Hm2]]]].
      rewrite E2. destruct (k <=? length (skipn 4 d)); exists s2, m2; cbn [fst snd]; split; auto; split; auto; lia.
  - destruct d as [|x d']; exists s1, m1; auto.
Qed.

Fixpoint bam_records_closed (k : nat) (d : list N) : list rec_res * list N :=
  match k with
  | 0 => ([], d)
  | Datatypes.S k' =>
    match bam_record_closed d with
    | (RecOk n, d') =>
        if (n =? 0)%N then ([RecOk n], d')
        else let '(l, d'') := bam_records_closed k' d' in (RecOk n :: l, d'')
    | (r, d') => ([r], d')
    end
  end.

Theorem bam_read_records_spec : forall k s d m, rep_src s d m ->
  exists s' m', bam_read_records k s = (fst (bam_records_closed k d), s')
                /\ rep_src s' (snd (bam_records_closed k d)) m'.
Proof.
  induction k as [|k IH]; intros s d m HR.
  - exists s, m. auto.
  - cbn [bam_read_records bam_records_closed].
    destruct (bam_read_record_spec s d m HR) as [s1 [m1 [E1 [HR1 _]]]]. rewrite E1.
    destruct (bam_record_closed d) as [r d1]. cbn [fst snd] in *.
    destruct r as [n| |].
    + destruct (n =? 0)%N.
      * exists s1, m1. auto.
      * destruct (IH s1 d1 m1 HR1) as [s2 [m2 [E2 HR2]]]. rewrite E2.
        destruct (bam_records_closed k d1) as [l d2]. cbn [fst snd] in *. exists s2, m2. auto.
    + exists s1, m1. auto.
    + exists s1, m1. auto.
Qed.

(* ---- BGZF frames *)
Fixpoint bgzf_closed (k : nat) (d : list N) : frame_res * list N :=
  match k with
  | 0 => (FrNoFuel, d)
  | Datatypes.S k' =>
    if 18 <=? length d then
      let hdr := firstn 18 d in
      let d1 := skipn 18 d in
      let bsize := (le_val (skipn 16 hdr) + 1)%N in
      if (bsize <? 26)%N then (FrInvalidData, d1)
      else
        let n := N.to_nat bsize - 18 in
        if n <=? length d1 then
          if negb (bgzf_valid_header hdr) then (FrInvalidData, skipn n d1)
          else if list_eqb (hdr ++ firstn n d1) bgzf_eof_block then bgzf_closed k' (skipn n d1)
          else (FrUnmodelled, skipn n d1)
        else (FrUnexpectedEof, skipn n d1)
    else (FrEof, skipn 18 d)
  end.

Theorem bgzf_read_spec : forall k s d m, rep_src s d m ->
  exists s' m', bgzf_read k s = (fst (bgzf_closed k d), s') /\ rep_src s' (snd (bgzf_closed k d)) m'.
Proof.
  induction k as [|k IH]; intros s d m HR.
  - exists s, m. auto.
  - cbn [bgzf_read bgzf_closed].
    destruct (read_exact_spec src_read rep_src src_simulates (src_fuel s 18) s d m 18 HR
                (rep_src_fuel s d m 18 HR)) as [s1 [m1 [E1 [HR1 Hm1]]]].
    rewrite E1. destruct (18 <=? length d).
    + destruct (le_val (skipn 16 (firstn 18 d)) + 1 <? 26)%N.
      * exists s1, m1. auto.
      * set (n := N.to_nat (le_val (skipn 16 (firstn 18 d)) + 1) - 18).
        destruct (read_exact_spec src_read rep_src src_simulates (src_fuel s1 n) s1 (skipn 18 d) m1 n HR1
                    (rep_src_fuel s1 _ m1 n HR1)) as [s2 [m2 [E2 [HR2 Hm2]]]].
        rewrite E2. destruct (n <=? length (skipn 18 d)).
        -- destruct (negb (bgzf_valid_header (firstn 18 d))); [exists s2, m2; auto|].
           destruct (list_eqb (firstn 18 d ++ firstn n (skipn 18 d)) bgzf_eof_block).
           ++ exact (IH s2 _ m2 HR2).
           ++ exists s2, m2. auto.
        -- exists s2, m2. auto.
    + exists s1, m1. auto.
Qed.

(* ---- the whole FASTA indexer on a scripted source behind a BufReader: C11's index_file *)
Theorem run_index_file_spec : forall data sc cap, 1 <= cap ->
  exists st', run_index_file cap (mkSource data sc) = (Indexer.index_file data, st').
Proof.
  intros data sc cap Hcap. unfold run_index_file, Indexer.index_file. cbn [s_data].
  apply (d_index_loop_spec src_read rep_src src_simulates cap Hcap _ _ _ ([], mkSource data sc) data
           (n_interrupted sc) 0%N).
  - exists data. cbn [fst snd app]. split; [reflexivity|]. split; reflexivity.
  - lia.
  - unfold b_fuel, src_fuel. cbn [fst snd s_data s_script length]. lia.
Qed.

(* ---- the FASTQ record reader on a scripted source behind a BufReader: C11's read_qfile *)
Theorem run_fastq_spec : forall data sc cap, 1 <= cap ->
  exists st', run_fastq cap (mkSource data sc) = (Fastq.read_qfile data, st').
Proof.
  intros data sc cap Hcap. unfold run_fastq, Fastq.read_qfile. cbn [s_data].
  apply (d_read_qrecs_spec src_read rep_src src_simulates cap Hcap _ _ ([], mkSource data sc) data
           (n_interrupted sc)).
  - exists data. cbn [fst snd app]. split; [reflexivity|]. split; reflexivity.
  - unfold b_fuel, src_fuel. cbn [fst snd s_data s_script length]. lia.
Qed.

Theorem run_fastq_index_spec : forall data sc cap, 1 <= cap ->
  exists st', run_fastq_index cap (mkSource data sc) = (Fastq.index_qfile data, st').
Proof.
  intros data sc cap Hcap. unfold run_fastq_index, Fastq.index_qfile. cbn [s_data].
  apply (d_index_qrecs_spec src_read rep_src src_simulates cap Hcap _ _ ([], mkSource data sc) data
           (n_interrupted sc) 0%N).
  - exists data. cbn [fst snd app]. split; [reflexivity|]. split; reflexivity.
  - unfold b_fuel, src_fuel. cbn [fst snd s_data s_script length]. lia.
Qed.

(* ---- SAM / VCF header reader on a scripted source behind a BufReader *)
Theorem run_header_lines_spec : forall prefix data sc cap, 1 <= cap ->
  exists st' m' e,
    h_raw_lines src_read cap prefix (Datatypes.S (length data)) (b_fuel ([], mkSource data sc) 0) true
      ([], mkSource data sc)
    = (fst (hdr_closed (Datatypes.S (length data)) prefix data), UOk, e, st')
    /\ rep_buf rep_src st' (snd (hdr_closed (Datatypes.S (length data)) prefix data)) m'.
Proof.
  intros prefix data sc cap Hcap.
  destruct (h_raw_lines_spec src_read rep_src src_simulates cap Hcap prefix (Datatypes.S (length data))
              (b_fuel ([], mkSource data sc) 0) true ([], mkSource data sc) data (n_interrupted sc))
    as [st' [m' [e [E [HR _]]]]].
  - exists data. cbn [fst snd app]. split; [reflexivity|]. split; reflexivity.
  - lia.
  - unfold b_fuel, src_fuel. cbn [fst snd s_data s_script length]. lia.
  - left. reflexivity.
  - exists st', m', e. split; [exact E|exact HR].
Qed.

(* ---- bgzf Reader: the blocks, their offsets, the final position and the final result are those
   of the whole-buffer reader on the data — for the raw source and behind any BufReader *)
Theorem run_bgzf_spec : forall inflate data sc cap,
  run_bgzf inflate cap (mkSource data sc) = whole_bgzf inflate data.
Proof.
  intros inflate data sc cap. unfold run_bgzf, whole_bgzf. cbn [s_data].
  destruct cap as [|c].
  - destruct (d_read_frames_spec src_read rep_src src_simulates inflate (Datatypes.S (length data))
                (src_fuel (mkSource data sc) 18) (mkSource data sc) data (n_interrupted sc))
      as [s' E].
    + split; reflexivity.
    + unfold src_fuel. cbn [s_data s_script]. lia.
    + rewrite E. reflexivity.
  - destruct (d_read_frames_spec (br_read src_read (Datatypes.S c)) (rep_buf rep_src)
                (br_simulates src_read rep_src src_simulates (Datatypes.S c) ltac:(lia))
                inflate (Datatypes.S (length data))
                (b_fuel ([], mkSource data sc) 18) ([], mkSource data sc) data (n_interrupted sc))
      as [s' E].
    + exists data. cbn [fst snd app]. split; [reflexivity|]. split; reflexivity.
    + unfold b_fuel, src_fuel. cbn [fst snd s_data s_script length]. lia.
    + rewrite E. reflexivity.
Qed.

(* ---- the BED record reader on a scripted source behind a BufReader: the whole-buffer closed form *)
Theorem run_bed_spec : forall n j data sc cap, 1 <= cap ->
  exists st', run_bed n j cap (mkSource data sc)
              = (w_bed_read_raw j n data (BedRec.bed_default n), st').
Proof.
  intros n j data sc cap Hcap. unfold run_bed.
  apply (d_bed_read_raw_spec src_read rep_src src_simulates cap Hcap j n _ _ ([], mkSource data sc) data
           (n_interrupted sc)).
  - exists data. cbn [fst snd app]. split; [reflexivity|]. split; reflexivity.
  - unfold src_fuel. cbn [s_data s_script]. lia.
  - unfold b_fuel, src_fuel. cbn [fst snd s_data s_script length]. lia.
Qed.

(* ---- the lazy SAM record reader, all records: the closed form iterated on the data *)
Theorem run_sam_records_spec : forall data sc cap, 1 <= cap ->
  exists st', run_sam_records cap (mkSource data sc)
              = (fst (tab_loop w_sam_read_record (Datatypes.S (length data)) data), st').
Proof.
  intros data sc cap Hcap. unfold run_sam_records. cbn [s_data].
  set (fuel := b_fuel ([], mkSource data sc) 1).
  assert (Hgen : forall j st d m, rep_buf rep_src st d m -> m + length d + 2 < fuel ->
            exists st', tab_loop (d_sam_read_record src_read cap fuel) j st
                        = (fst (tab_loop w_sam_read_record j d), st')).
  { induction j as [|j IH]; intros st d m HR Hf.
    - exists st. reflexivity.
    - cbn [tab_loop].
      destruct (d_sam_read_record_spec src_read rep_src src_simulates cap Hcap fuel st d m HR Hf)
        as [st1 [m1 [E [HR1 [Hm1 Hl1]]]]].
      rewrite E. destruct (w_sam_read_record d) as [[[r b] e] rest]. cbn [fst snd] in *.
      destruct r as [[|q]|err|]; try (exists st1; reflexivity).
      destruct (IH st1 rest m1 HR1 ltac:(lia)) as [st2 E2]. rewrite E2.
      destruct (tab_loop w_sam_read_record j rest) as [l r']. exists st2. reflexivity. }
  apply (Hgen _ ([], mkSource data sc) data (n_interrupted sc)).
  - exists data. cbn [fst snd app]. split; [reflexivity|]. split; reflexivity.
  - unfold fuel, b_fuel, src_fuel. cbn [fst snd s_data s_script length]. lia.
Qed.

(* ---- read_line to the end = the raw lines of the data, each with its length and stripped of
   LF / CRLF *)
Theorem run_read_lines_spec : forall data sc cap, 1 <= cap ->
  exists st', run_read_lines cap (mkSource data sc)
              = (map (fun l => (length l, strip_eol l)) (Layout.lines data), st').
Proof.
  intros data sc cap Hcap. unfold run_read_lines. cbn [s_data].
  set (fuel := b_fuel ([], mkSource data sc) 0).
  assert (Hgen : forall k st d m, rep_buf rep_src st d m -> length d < k -> m + length d + 1 < fuel ->
            exists st', read_lines_all cap k fuel st
                        = (map (fun l => (length l, strip_eol l)) (Layout.lines d), st')).
  { induction k as [|k IH]; intros st d m HR Hk Hf; [lia|].
    cbn [read_lines_all].
    destruct (read_line_spec src_read rep_src src_simulates cap Hcap fuel st d m HR Hf)
      as [st1 [m1 [E [HR1 Hm1]]]].
    rewrite E. destruct d as [|x r].
    - exists st1. reflexivity.
    - rewrite (lines_cons (x :: r)) by discriminate. cbn [map].
      pose proof (take_line_nonempty (x :: r) ltac:(discriminate)) as Hl1.
      pose proof (take_line_length_le cap Hcap LF (x :: r)) as Hle.
      set (l := take_line LF (x :: r)) in *.
      destruct (IH st1 (skipn (length l) (x :: r)) m1 HR1) as [st2 E2].
      { rewrite skipn_length. lia. }
      { rewrite skipn_length. lia. }
      rewrite E2. destruct (length l) as [|n0] eqn:En; [lia|]. exists st2. reflexivity. }
  apply (Hgen _ ([], mkSource data sc) data (n_interrupted sc)).
  - exists data. cbn [fst snd app]. split; [reflexivity|]. split; reflexivity.
  - lia.
  - unfold fuel, b_fuel, src_fuel. cbn [fst snd s_data s_script length]. lia.
Qed.
