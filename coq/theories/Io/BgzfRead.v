(* C12 — bgzf::io::Reader over a delivered source: noodles-bgzf/src/io/reader/frame.rs
   read_frame_into (two read_exact calls on the inner `R: Read`) followed by parse_block, as driven
   by reader.rs read_nonempty_block_with until the end of input (the read_to_end view of C01).

     read_frame_into: buf.resize(18); read_exact(buf): UnexpectedEof -> Ok(None) (also when some
                      but fewer than 18 bytes were left); other errors are returned
                      block_size = u16::from_le_bytes(buf[16..18]) + 1;  < 26 -> InvalidData
                      buf.resize(block_size); read_exact(&mut buf[18..])?   (UnexpectedEof is an error)
     parse_block:     pure (header check, trailer, inflate, CRC): C01's [Bgzf.Reader.parse_block]

   read_exact is the loop of NV.Io.ReadExact over an arbitrary reader (the raw scripted source or a
   BufReader over it).  The closed forms are C01's whole-buffer [Bgzf.Reader.read_frame] /
   [Reader.read_blocks] (NV.Bgzf.Reader, imported read-only); the parsed frames are handed to C02's
   position state machine as a [Bgzf.ReaderOps.file]. *)
From Coq Require Import List NArith Arith Bool.
From NV Require Import Io.Source Io.ReadExact.
From NV Require Base.LE Bgzf.Frame Bgzf.Reader Bgzf.ReaderOps.
Import ListNotations.

Inductive dframe := DFrame (f : list N) | DEof | DErr (e : Bgzf.Frame.error) | DNoFuel.

Section DeliveredBgzf.
  Context {S : Type}.
  Variable rd : reader S.

  Definition d_read_frame (fuel : nat) (s : S) : dframe * S :=
    match read_exact rd fuel s 18 with
    | (_, XNoFuel, s1) => (DNoFuel, s1)
    | (_, XUnexpectedEof, s1) => (DEof, s1)
    | (hdr, XOk, s1) =>
      let block_size := (LE.le_dec (skipn 16 hdr) + 1)%N in
      if (block_size <? Bgzf.Frame.MIN_FRAME_SIZE)%N then (DErr Bgzf.Frame.InvalidData, s1)
      else
        match read_exact rd (fuel + (N.to_nat block_size - 18)) s1 (N.to_nat block_size - 18) with
        | (_, XNoFuel, s2) => (DNoFuel, s2)
        | (_, XUnexpectedEof, s2) => (DErr Bgzf.Frame.UnexpectedEof, s2)
        | (body, XOk, s2) => (DFrame (hdr ++ body), s2)
        end
    end.

  Variable inflate : list N -> N -> option (list N).

  (* every frame up to the end of input or the first error, parsed: (compressed size, data) *)
  Fixpoint d_read_frames (k fuel : nat) (s : S) : list Bgzf.ReaderOps.frame * Bgzf.Frame.res unit * S :=
    match k with
    | 0 => ([], Bgzf.Frame.Panic, s)
    | Datatypes.S k' =>
      match d_read_frame fuel s with
      | (DNoFuel, s1) => ([], Bgzf.Frame.Panic, s1)
      | (DErr e, s1) => ([], Bgzf.Frame.Err e, s1)
      | (DEof, s1) => ([], Bgzf.Frame.Ok tt, s1)
      | (DFrame f, s1) =>
        match Bgzf.Reader.parse_block inflate f with
        | Bgzf.Frame.Err e => ([], Bgzf.Frame.Err e, s1)
        | Bgzf.Frame.Panic => ([], Bgzf.Frame.Panic, s1)
        | Bgzf.Frame.Ok (bs, d) =>
          let '(fs, r, s2) := d_read_frames k' fuel s1 in (Bgzf.ReaderOps.mkFrame bs d :: fs, r, s2)
        end
      end
    end.
End DeliveredBgzf.

(* the same on the whole data, with C01's whole-buffer frame reader *)
Section WholeBgzf.
  Variable inflate : list N -> N -> option (list N).

  Fixpoint whole_frames (k : nat) (src : list N) : list Bgzf.ReaderOps.frame * Bgzf.Frame.res unit :=
    match k with
    | 0 => ([], Bgzf.Frame.Panic)
    | Datatypes.S k' =>
      match Bgzf.Reader.read_frame src with
      | Bgzf.Frame.Err e => ([], Bgzf.Frame.Err e)
      | Bgzf.Frame.Panic => ([], Bgzf.Frame.Panic)
      | Bgzf.Frame.Ok None => ([], Bgzf.Frame.Ok tt)
      | Bgzf.Frame.Ok (Some (f, rest)) =>
        match Bgzf.Reader.parse_block inflate f with
        | Bgzf.Frame.Err e => ([], Bgzf.Frame.Err e)
        | Bgzf.Frame.Panic => ([], Bgzf.Frame.Panic)
        | Bgzf.Frame.Ok (bs, d) =>
          let '(fs, r) := whole_frames k' rest in (Bgzf.ReaderOps.mkFrame bs d :: fs, r)
        end
      end
    end.
End WholeBgzf.
