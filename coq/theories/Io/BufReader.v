(* C12 — std::io::BufReader<R> with capacity cap over an arbitrary reader, and the BufRead loops
   built on it.

   State = (unconsumed part of the internal buffer, inner reader state).
     fill_buf : if the buffer is empty, ONE inner read of cap bytes (an Interrupted result is
                returned to the caller as is — std does not retry here); returns the buffer
     consume n: drops n bytes of the buffer
     read     : buffer empty and request >= cap  -> bypass: one inner read straight into the
                caller's buffer;  otherwise fill_buf, copy min(n, available), consume
   (library/std/src/io/buffered/bufreader.rs).

   BufRead::read_until (library/std/src/io/mod.rs):
     loop { available = match fill_buf() { Ok(b) => b, Err(Interrupted) => continue, Err(e) => return Err(e) };
            match memchr(delim, available) { Some(i) => extend(..=i), done, used = i+1
                                             None    => extend(all), used = len }
            consume(used); read += used; if done || used == 0 { return Ok(read) } }

   noodles read_line (sam/vcf/fasta/gff/gtf/fastq/bam-header readers): read_until(LF) then
   pop a trailing LF and, if one was popped, a trailing CR.  gff::io::Reader::read_line repeats
   that until the line is not blank (all ASCII whitespace) or end of input. *)
From Coq Require Import List NArith Arith Bool.
From NV Require Import Io.Source.
Import ListNotations.

Definition bstate (S : Type) : Type := (list N * S)%type.

Section BufReader.
  Context {S : Type}.
  Variable rd : reader S.
  Variable cap : nat.

  Definition br_fill_buf (st : bstate S) : rres * bstate S :=
    match st with
    | ([], s) =>
        match rd s cap with
        | (ROk bs, s') => (ROk bs, (bs, s'))
        | (RInt, s') => (RInt, ([], s'))
        end
    | (buf, s) => (ROk buf, st)
    end.

  Definition br_consume (n : nat) (st : bstate S) : bstate S :=
    (skipn n (fst st), snd st).

  Definition br_read : reader (bstate S) := fun st n =>
    match st with
    | ([], s) =>
        if cap <=? n then
          match rd s n with (r, s') => (r, ([], s')) end
        else
          match br_fill_buf st with
          | (ROk w, st') => (ROk (firstn n w), br_consume n st')
          | (RInt, st') => (RInt, st')
          end
    | (buf, s) => (ROk (firstn n buf), (skipn n buf, s))
    end.

  (* ---- read_until *)
  Fixpoint take_line (delim : N) (d : list N) : list N :=
    match d with
    | [] => []
    | x :: r => if N.eqb x delim then [x] else x :: take_line delim r
    end.

  Definition has_byte (b : N) (w : list N) : bool := existsb (N.eqb b) w.

  Inductive ures := UOk | UNoFuel.

  Fixpoint read_until_loop (delim : N) (fuel : nat) (st : bstate S) (acc : list N)
    : list N * ures * bstate S :=
    match fuel with
    | 0 => (acc, UNoFuel, st)
    | Datatypes.S fuel' =>
      match br_fill_buf st with
      | (RInt, st') => read_until_loop delim fuel' st' acc
      | (ROk w, st') =>
          if has_byte delim w then
            let pre := take_line delim w in
            (acc ++ pre, UOk, br_consume (length pre) st')
          else
            match w with
            | [] => (acc, UOk, st')
            | _ => read_until_loop delim fuel' (br_consume (length w) st') (acc ++ w)
            end
      end
    end.

  Definition read_until (delim : N) (fuel : nat) (st : bstate S) : list N * ures * bstate S :=
    read_until_loop delim fuel st [].
End BufReader.

(* ---- noodles line readers (pure post-processing of the read_until result) *)
Definition LF : N := 10%N.
Definition CR : N := 13%N.

Definition ends_with (b : N) (l : list N) : bool :=
  match rev l with x :: _ => N.eqb x b | [] => false end.

Definition strip_eol (l : list N) : list N :=
  if ends_with LF l then
    let l1 := removelast l in
    if ends_with CR l1 then removelast l1 else l1
  else l.

(* u8::is_ascii_whitespace: space, \t, \n, \x0C, \r *)
Definition is_ascii_ws (b : N) : bool :=
  N.eqb b 32 || N.eqb b 9 || N.eqb b 10 || N.eqb b 12 || N.eqb b 13.

Section Lines.
  Context {S : Type}.
  Variable rd : reader S.
  Variable cap : nat.

  (* read_line: (bytes consumed n, stripped line, state) *)
  Definition read_line (fuel : nat) (st : bstate S) : nat * list N * ures * bstate S :=
    match read_until rd cap LF fuel st with
    | (l, r, st') => (length l, strip_eol l, r, st')
    end.

  (* gff::io::reader::line::read_line — skips blank lines; [lines] bounds the number of lines *)
  Fixpoint gff_read_line (lines fuel : nat) (st : bstate S) : nat * list N * ures * bstate S :=
    match lines with
    | 0 => (0, [], UNoFuel, st)
    | Datatypes.S lines' =>
      match read_line fuel st with
      | (n, l, UOk, st') =>
          if (n =? 0) || negb (forallb is_ascii_ws l) then (n, l, UOk, st')
          else gff_read_line lines' fuel st'
      | other => other
      end
    end.
End Lines.
