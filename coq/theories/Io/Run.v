(* C12 — entry points run by the extracted driver: the modelled primitives and the two noodles
   framing readers built from them, on a scripted source (optionally behind a BufReader), with
   the fuel the theorems ask for computed from the source. *)
From Coq Require Import List NArith Arith Bool.
From NV Require Import Io.Source Io.ReadExact Io.BufReader Io.FastaScan Io.FastaIndex.
From NV Require Fasta.Layout Fasta.Indexer.
Import ListNotations.

Definition src_fuel (s : source) (n : nat) : nat :=
  n_interrupted (s_script s) + length (s_script s) + length (s_data s) + n + 2.

Definition bsrc := bstate source.
Definition b_fuel (st : bsrc) (n : nat) : nat := src_fuel (snd st) n + length (fst st).

(* bytes not yet handed to the caller *)
Definition src_left (s : source) : nat := length (s_data s).
Definition b_left (st : bsrc) : nat := length (fst st) + length (s_data (snd st)).

Section Seq.
  Context {S : Type}.
  Variable rd : reader S.
  Variable fuelf : S -> nat -> nat.

  Fixpoint read_exact_seq (s : S) (sizes : list nat) : list (list N * xres) * S :=
    match sizes with
    | [] => ([], s)
    | n :: r =>
      match read_exact rd (fuelf s n) s n with
      | (bs, x, s') => let '(l, s'') := read_exact_seq s' r in ((bs, x) :: l, s'')
      end
    end.
End Seq.

Definition run_rx (s : source) (sizes : list nat) := read_exact_seq src_read src_fuel s sizes.
Definition run_rxb (cap : nat) (s : source) (sizes : list nat) :=
  read_exact_seq (br_read src_read cap) b_fuel ([], s) sizes.

(* ---- little-endian integers *)
Fixpoint le_val (bs : list N) : N :=
  match bs with [] => 0%N | b :: r => (b + 256 * le_val r)%N end.

(* ---- noodles-bam io/reader/record.rs::read_record on an uncompressed BAM record stream *)
Inductive rec_res := RecOk (n : N) | RecUnexpectedEof | RecNoFuel.

Definition bam_validate (src : list N) : bool :=
  let len := N.of_nat (length src) in
  if (len <? 32)%N then false
  else
    let name_len := nth 8 src 0%N in
    let cigar := le_val (firstn 2 (skipn 12 src)) in
    let bases := le_val (firstn 4 (skipn 16 src)) in
    let e := (32 + name_len + cigar * 4 + (bases + 1) / 2 + bases)%N in
    negb (len <? e)%N.

Definition bam_read_record (s : source) : rec_res * source :=
  match read_exact_or_eof src_read (src_fuel s 4) s 4 with
  | (_, ENoFuel, s1) => (RecNoFuel, s1)
  | (_, EPartial, s1) => (RecUnexpectedEof, s1)
  | (_, ENothing, s1) => (RecOk 0, s1)          (* the zeroed length buffer reads as 0 = EOF *)
  | (b4, EFull, s1) =>
      let n := le_val b4 in
      if (n =? 0)%N then (RecOk 0, s1)
      else
        match read_exact src_read (src_fuel s1 (N.to_nat n)) s1 (N.to_nat n) with
        | (body, XOk, s2) => (if bam_validate body then RecOk n else RecUnexpectedEof, s2)
        | (_, XUnexpectedEof, s2) => (RecUnexpectedEof, s2)
        | (_, XNoFuel, s2) => (RecNoFuel, s2)
        end
  end.

(* up to [k] records: stop at Ok(0) or at an error *)
Fixpoint bam_read_records (k : nat) (s : source) : list rec_res * source :=
  match k with
  | 0 => ([], s)
  | Datatypes.S k' =>
    match bam_read_record s with
    | (RecOk n, s') =>
        if (n =? 0)%N then ([RecOk n], s')
        else let '(l, s'') := bam_read_records k' s' in (RecOk n :: l, s'')
    | (r, s') => ([r], s')
    end
  end.

(* ---- noodles-bgzf io/reader/frame.rs::read_frame_into + the header check of parse_frame, as
   driven by Reader::read (read_nonempty_block_with): EOF-marker blocks are skipped. *)
Inductive frame_res := FrEof | FrInvalidData | FrUnexpectedEof | FrUnmodelled | FrNoFuel.

Definition bgzf_eof_block : list N :=
  [31; 139; 8; 4; 0; 0; 0; 0; 0; 255; 6; 0; 66; 67; 2; 0; 27; 0; 3; 0; 0; 0; 0; 0; 0; 0; 0; 0]%N.

Definition list_eqb (a b : list N) : bool :=
  (length a =? length b) && forallb (fun p => N.eqb (fst p) (snd p)) (combine a b).

Definition bgzf_valid_header (h : list N) : bool :=
  list_eqb (firstn 4 h) [31; 139; 8; 4]%N && list_eqb (firstn 6 (skipn 10 h)) [6; 0; 66; 67; 2; 0]%N.

Fixpoint bgzf_read (k : nat) (s : source) : frame_res * source :=
  match k with
  | 0 => (FrNoFuel, s)
  | Datatypes.S k' =>
    match read_exact src_read (src_fuel s 18) s 18 with
    | (_, XNoFuel, s1) => (FrNoFuel, s1)
    | (_, XUnexpectedEof, s1) => (FrEof, s1)       (* a partial header is end of input *)
    | (hdr, XOk, s1) =>
        let bsize := (le_val (skipn 16 hdr) + 1)%N in
        if (bsize <? 26)%N then (FrInvalidData, s1)
        else
          let n := N.to_nat bsize - 18 in
          match read_exact src_read (src_fuel s1 n) s1 n with
          | (_, XNoFuel, s2) => (FrNoFuel, s2)
          | (_, XUnexpectedEof, s2) => (FrUnexpectedEof, s2)
          | (body, XOk, s2) =>
              if negb (bgzf_valid_header hdr) then (FrInvalidData, s2)
              else if list_eqb (hdr ++ body) bgzf_eof_block then bgzf_read k' s2
              else (FrUnmodelled, s2)
          end
    end
  end.

(* ---- lines *)
Fixpoint read_until_all (cap : nat) (k : nat) (st : bsrc) : list (list N) * bsrc :=
  match k with
  | 0 => ([], st)
  | Datatypes.S k' =>
    match read_until src_read cap LF (b_fuel st 0) st with
    | ([], _, st') => ([], st')
    | (l, _, st') => let '(ls, st'') := read_until_all cap k' st' in (l :: ls, st'')
    end
  end.

Fixpoint gff_lines (cap : nat) (k : nat) (st : bsrc) : list (nat * list N) * bsrc :=
  match k with
  | 0 => ([], st)
  | Datatypes.S k' =>
    match gff_read_line src_read cap (Datatypes.S (b_left st)) (b_fuel st 0) st with
    | (0, _, _, st') => ([], st')
    | (n, l, _, st') => let '(ls, st'') := gff_lines cap k' st' in ((n, l) :: ls, st'')
    end
  end.

(* ---- fasta scanners at their BufRead interface *)
Definition s_fuel (st : bsrc) : nat := 2 * b_fuel st 0 + 2.

Fixpoint seq_pieces (cap : nat) (k : nat) (s : sstate source) : list (list N) * sres * sstate source :=
  match k with
  | 0 => ([], SNoFuel, s)
  | Datatypes.S k' =>
    let '(ib, p, st) := s in
    match seq_fill_buf src_read cap (s_fuel st) ib p st with
    | (SOk, [], s') => ([], SOk, s')
    | (SOk, piece, s') =>
        let '(ps, r, s'') := seq_pieces cap k' (seq_consume (length piece) s') in (piece :: ps, r, s'')
    | (e, _, s') => ([], e, s')
    end
  end.

Definition run_read_sequence (cap : nat) (s : source) : sres * list N * sstate source :=
  read_sequence src_read cap (s_fuel ([], s)) (true, false, ([], s)) [].

(* Indexer::index_record on "definition line + one sequence line": the first
   consume_sequence_line after the definition line has been read with read_line *)
Definition fidx_first_line (cap : nat) (s : source) : sres * nat * nat * bsrc :=
  match read_line src_read cap (b_fuel ([], s) 0) ([], s) with
  | (_, _, _, st1) => consume_sequence_line src_read cap (s_fuel st1) st1 false false 0 0
  end.

(* fasta::fs::index (Indexer::index_record until Ok(None) or an error) on a scripted source behind
   a BufReader of capacity cap; the three fuels are computed from the source *)
Definition run_index_file (cap : nat) (s : source)
  : (list Indexer.fai * option Indexer.ierr) * bsrc :=
  d_index_loop src_read cap (Datatypes.S (length (Layout.lines (s_data s))))
    (Datatypes.S (length (s_data s))) (b_fuel ([], s) 0) ([], s) 0%N.
