(* C12 — entry points run by the extracted driver: the modelled primitives and the two noodles
   framing readers built from them, on a scripted source (optionally behind a BufReader), with
   the fuel the theorems ask for computed from the source. *)
From Coq Require Import List NArith Arith Bool.
From NV Require Import Io.Source Io.ReadExact Io.BufReader Io.FastaScan Io.FastaIndex Io.FastqRead Io.HeaderRead Io.BgzfRead Io.BedRead Io.TabRead.
From NV Require Fasta.Layout Fasta.Indexer Fasta.Fastq Bgzf.Vpos Bgzf.Frame Bgzf.Reader Bgzf.ReaderOps
  Text.TextBase Text.BedRec.
Import ListNotations.

Definition src_fuel (s : source) (n : nat) : nat :=
  n_interrupted (s_script s) + length (s_script s) + length (s_data s) + n + 2.

Definition bsrc := bstate source.
Definition b_fuel (st : bsrc) (n : nat) : nat := src_fuel (snd st) n + length (fst st).

(* bytes not yet handed to the caller *)
Definition src_left (s : source) : nat := length (s_data s).
Definition b_left (st : bsrc) : nat := length (fst st) + length (s_data (snd st)).

Section Seq.
  Context {S : Type}.
  Variable rd : reader S.
  Variable fuelf : S -> nat -> nat.

  Fixpoint read_exact_seq (s : S) (sizes : list nat) : list (list N * xres) * S :=
    match sizes with
    | [] => ([], s)
    | n :: r =>
      match read_exact rd (fuelf s n) s n with
      | (bs, x, s') => let '(l, s'') := read_exact_seq s' r in ((bs, x) :: l, s'')
      end
    end.
End Seq.

Definition run_rx (s : source) (sizes : list nat) := read_exact_seq src_read src_fuel s sizes.
Definition run_rxb (cap : nat) (s : source) (sizes : list nat) :=
  read_exact_seq (br_read src_read cap) b_fuel ([], s) sizes.

(* ---- little-endian integers *)
Fixpoint le_val (bs : list N) : N :=
  match bs with [] => 0%N | b :: r => (b + 256 * le_val r)%N end.

(* ---- noodles-bam io/reader/record.rs::read_record on an uncompressed BAM record stream *)
Inductive rec_res := RecOk (n : N) | RecUnexpectedEof | RecNoFuel.

Definition bam_validate (src : list N) : bool :=
  let len := N.of_nat (length src) in
  if (len <? 32)%N then false
  else
    let name_len := nth 8 src 0%N in
    let cigar := le_val (firstn 2 (skipn 12 src)) in
    let bases := le_val (firstn 4 (skipn 16 src)) in
    let e := (32 + name_len + cigar * 4 + (bases + 1) / 2 + bases)%N in
    negb (len <? e)%N.

Definition bam_read_record (s : source) : rec_res * source :=
  match read_exact_or_eof src_read (src_fuel s 4) s 4 with
  | (_, ENoFuel, s1) => (RecNoFuel, s1)
  | (_, EPartial, s1) => (RecUnexpectedEof, s1)
  | (_, ENothing, s1) => (RecOk 0, s1)          (* the zeroed length buffer reads as 0 = EOF *)
  | (b4, EFull, s1) =>
      let n := le_val b4 in
      if (n =? 0)%N then (RecOk 0, s1)
      else
        match read_exact src_read (src_fuel s1 (N.to_nat n)) s1 (N.to_nat n) with
        | (body, XOk, s2) => (if bam_validate body then RecOk n else RecUnexpectedEof, s2)
        | (_, XUnexpectedEof, s2) => (RecUnexpectedEof, s2)
        | (_, XNoFuel, s2) => (RecNoFuel, s2)
        end
  end.

(* up to [k] records: stop at Ok(0) or at an error *)
Fixpoint bam_read_records (k : nat) (s : source) : list rec_res * source :=
  match k with
  | 0 => ([], s)
  | Datatypes.S k' =>
    match bam_read_record s with
    | (RecOk n, s') =>
        if (n =? 0)%N then ([RecOk n], s')
        else let '(l, s'') := bam_read_records k' s' in (RecOk n :: l, s'')
    | (r, s') => ([r], s')
    end
  end.

(* ---- noodles-bgzf io/reader/frame.rs::read_frame_into + the header check of parse_frame, as
   driven by Reader::read (read_nonempty_block_with): EOF-marker blocks are skipped. *)
Inductive frame_res := FrEof | FrInvalidData | FrUnexpectedEof | FrUnmodelled | FrNoFuel.

Definition bgzf_eof_block : list N :=
  [31; 139; 8; 4; 0; 0; 0; 0; 0; 255; 6; 0; 66; 67; 2; 0; 27; 0; 3; 0; 0; 0; 0; 0; 0; 0; 0; 0]%N.

Definition list_eqb (a b : list N) : bool :=
  (length a =? length b) && forallb (fun p => N.eqb (fst p) (snd p)) (combine a b).

Definition bgzf_valid_header (h : list N) : bool :=
  list_eqb (firstn 4 h) [31; 139; 8; 4]%N && list_eqb (firstn 6 (skipn 10 h)) [6; 0; 66; 67; 2; 0]%N.

Fixpoint bgzf_read (k : nat) (s : source) : frame_res * source :=
  match k with
  | 0 => (FrNoFuel, s)
  | Datatypes.S k' =>
    match read_exact src_read (src_fuel s 18) s 18 with
    | (_, XNoFuel, s1) => (FrNoFuel, s1)
    | (_, XUnexpectedEof, s1) => (FrEof, s1)       (* a partial header is end of input *)
    | (hdr, XOk, s1) =>
        let bsize := (le_val (skipn 16 hdr) + 1)%N in
        if (bsize <? 26)%N then (FrInvalidData, s1)
        else
          let n := N.to_nat bsize - 18 in
          match read_exact src_read (src_fuel s1 n) s1 n with
          | (_, XNoFuel, s2) => (FrNoFuel, s2)
          | (_, XUnexpectedEof, s2) => (FrUnexpectedEof, s2)
          | (body, XOk, s2) =>
              if negb (bgzf_valid_header hdr) then (FrInvalidData, s2)
              else if list_eqb (hdr ++ body) bgzf_eof_block then bgzf_read k' s2
              else (FrUnmodelled, s2)
          end
    end
  end.

(* ---- lines *)
Fixpoint read_until_all (cap : nat) (k : nat) (st : bsrc) : list (list N) * bsrc :=
  match k with
  | 0 => ([], st)
  | Datatypes.S k' =>
    match read_until src_read cap LF (b_fuel st 0) st with
    | ([], _, st') => ([], st')
    | (l, _, st') => let '(ls, st'') := read_until_all cap k' st' in (l :: ls, st'')
    end
  end.

Fixpoint gff_lines (cap : nat) (k : nat) (st : bsrc) : list (nat * list N) * bsrc :=
  match k with
  | 0 => ([], st)
  | Datatypes.S k' =>
    match gff_read_line src_read cap (Datatypes.S (b_left st)) (b_fuel st 0) st with
    | (0, _, _, st') => ([], st')
    | (n, l, _, st') => let '(ls, st'') := gff_lines cap k' st' in ((n, l) :: ls, st'')
    end
  end.

(* ---- fasta scanners at their BufRead interface *)
Definition s_fuel (st : bsrc) : nat := 2 * b_fuel st 0 + 2.

Fixpoint seq_pieces (cap : nat) (k : nat) (s : sstate source) : list (list N) * sres * sstate source :=
  match k with
  | 0 => ([], SNoFuel, s)
  | Datatypes.S k' =>
    let '(ib, p, st) := s in
    match seq_fill_buf src_read cap (s_fuel st) ib p st with
    | (SOk, [], s') => ([], SOk, s')
    | (SOk, piece, s') =>
        let '(ps, r, s'') := seq_pieces cap k' (seq_consume (length piece) s') in (piece :: ps, r, s'')
    | (e, _, s') => ([], e, s')
    end
  end.

Definition run_read_sequence (cap : nat) (s : source) : sres * list N * sstate source :=
  read_sequence src_read cap (s_fuel ([], s)) (true, false, ([], s)) [].

(* Indexer::index_record on "definition line + one sequence line": the first
   consume_sequence_line after the definition line has been read with read_line *)
Definition fidx_first_line (cap : nat) (s : source) : sres * nat * nat * bsrc :=
  match read_line src_read cap (b_fuel ([], s) 0) ([], s) with
  | (_, _, _, st1) => consume_sequence_line src_read cap (s_fuel st1) st1 false false 0 0
  end.

(* fasta::fs::index (Indexer::index_record until Ok(None) or an error) on a scripted source behind
   a BufReader of capacity cap; the three fuels are computed from the source *)
Definition run_index_file (cap : nat) (s : source)
  : (list Indexer.fai * option Indexer.ierr) * bsrc :=
  d_index_loop src_read cap (Datatypes.S (length (Layout.lines (s_data s))))
    (Datatypes.S (length (s_data s))) (b_fuel ([], s) 0) ([], s) 0%N.

(* fastq::io::Reader::read_record until Ok(0) or an error, on a scripted source behind a BufReader *)
Definition run_fastq (cap : nat) (s : source) : (list Fastq.qrec * option Fastq.qerr) * bsrc :=
  d_read_qrecs src_read cap (Datatypes.S (length (s_data s))) (b_fuel ([], s) 0) ([], s).

(* fastq::io::Indexer::index_record until Ok(None) or an error (fastq::fs::index) *)
Definition run_fastq_index (cap : nat) (s : source) : (list Fastq.qfai * option Fastq.qerr) * bsrc :=
  d_index_qrecs src_read cap (Datatypes.S (length (s_data s))) (b_fuel ([], s) 0) ([], s) 0%N.

(* sam / vcf Reader::header_reader() driven by read_until(LF) until it returns 0, then the rest of
   the underlying reader line by line (the records): header lines, status, record lines *)
Definition run_header (prefix : N) (cap : nat) (s : source)
  : list (list N) * ures * nat * list (list N) * bsrc :=
  match h_raw_lines src_read cap prefix (Datatypes.S (length (s_data s))) (b_fuel ([], s) 0) true ([], s) with
  | (hl, r, _, st1) =>
    let '(ls, st2) := read_until_all cap (Datatypes.S (length (s_data s))) st1 in
    (hl, r, length (s_data s) - b_left st1, ls, st2)
  end.

(* results of the imported models in one C12-owned shape (the extracted constructor names of three
   different [res] types would otherwise depend on extraction order):
   code 0 InvalidInput, 1 InvalidData, 2 UnexpectedEof, 3 OutOfFuel, 4 WriteZero *)
Inductive cres (A : Type) := COk (a : A) | CErr (code : nat) | CPanic.
Arguments COk {A} a.
Arguments CErr {A} code.
Arguments CPanic {A}.

Definition of_frame_res {A} (r : Bgzf.Frame.res A) : cres A :=
  match r with
  | Bgzf.Frame.Ok a => COk a
  | Bgzf.Frame.Err Bgzf.Frame.InvalidInput => CErr 0
  | Bgzf.Frame.Err Bgzf.Frame.InvalidData => CErr 1
  | Bgzf.Frame.Err Bgzf.Frame.UnexpectedEof => CErr 2
  | Bgzf.Frame.Err Bgzf.Frame.WriteZero => CErr 4
  | Bgzf.Frame.Panic => CPanic
  end.

Definition of_text_res {A} (r : TextBase.res A) : cres A :=
  match r with
  | TextBase.Ok a => COk a
  | TextBase.Err TextBase.InvalidInput => CErr 0
  | TextBase.Err TextBase.InvalidData => CErr 1
  | TextBase.Err TextBase.UnexpectedEof => CErr 2
  | TextBase.Err TextBase.OutOfFuel => CErr 3
  | TextBase.Panic => CPanic
  end.

(* ---- bgzf::io::Reader over a delivered source, composed with C02's position state machine:
   the frames fetched (raw source when cap = 0, else behind a BufReader of capacity cap) are parsed
   and handed to ReaderOps; the caller loop is fill_buf / consume(whole slice) until an empty slice.
   Observed: (compressed offset of the block, its data) per non-empty block, Reader::position(). *)
Fixpoint ops_blocks (k : nat) (st : Bgzf.ReaderOps.state) : list (N * list N) * Bgzf.ReaderOps.state :=
  match k with
  | 0 => ([], st)
  | Datatypes.S k' =>
    match Bgzf.ReaderOps.fill_buf st with
    | (st1, Bgzf.Vpos.Ok (x :: src)) =>
        let '(bl, st2) := ops_blocks k' (Bgzf.ReaderOps.consume st1 (Bgzf.ReaderOps.len (x :: src))) in
        ((Bgzf.ReaderOps.bpos st1, x :: src) :: bl, st2)
    | (st1, _) => ([], st1)
    end
  end.

Definition run_bgzf (inflate : list N -> N -> option (list N)) (cap : nat) (s : source)
  : list (N * list N) * N * cres unit :=
  let k := Datatypes.S (length (s_data s)) in
  let '(fs, r) :=
    match cap with
    | 0 => fst (d_read_frames src_read inflate k (src_fuel s 18) s)
    | _ => fst (d_read_frames (br_read src_read cap) inflate k (b_fuel ([], s) 18) ([], s))
    end in
  let '(bl, st) := ops_blocks k (Bgzf.ReaderOps.init fs) in
  (bl, Bgzf.ReaderOps.position st, of_frame_res r).

Definition whole_bgzf (inflate : list N -> N -> option (list N)) (data : list N)
  : list (N * list N) * N * cres unit :=
  let k := Datatypes.S (length data) in
  let '(fs, r) := whole_frames inflate k data in
  let '(bl, st) := ops_blocks k (Bgzf.ReaderOps.init fs) in
  (bl, Bgzf.ReaderOps.position st, of_frame_res r).

(* bed::io::Reader::<N>::read_record into ONE reused record until Ok(0) (going on after errors), at
   most j calls, on a scripted source behind a BufReader *)
Definition run_bed (n j cap : nat) (s : source)
  : list (TextBase.res nat * BedRec.bed_view) * bsrc :=
  d_bed_read_raw src_read cap j n (src_fuel s 0) (b_fuel ([], s) 1) ([], s) (BedRec.bed_default n).

(* the same observations in C12's own result shape, for printing *)
Record bedv := mkbedv {
  v_name : cres (list N); v_start : cres N; v_end : cres (option N);
  v_nm : option (cres (option (list N))); v_others : cres (list (list N)) }.

Definition bedv_of (v : BedRec.bed_view) : bedv :=
  mkbedv (of_text_res (BedRec.bv_name v)) (of_text_res (BedRec.bv_start v)) (of_text_res (BedRec.bv_end v))
         (match BedRec.bv_nm v with Some r => Some (of_text_res r) | None => None end)
         (of_text_res (BedRec.bv_others v)).

Definition run_bed_obs (n j cap : nat) (s : source) : list (cres nat * bedv) :=
  map (fun e => (of_text_res (fst e), bedv_of (snd e))) (fst (run_bed n j cap s)).

(* ---- lazy SAM / VCF record readers: read_record until Ok(0) or the first error *)
Section TabLoop.
  Context {St : Type}.
  Variable step : St -> TextBase.res nat * list N * list nat * St.
  Fixpoint tab_loop (j : nat) (st : St) : list (TextBase.res nat * list N * list nat) * St :=
    match j with
    | 0 => ([], st)
    | Datatypes.S j' =>
      let '(r, b, e, st1) := step st in
      match r with
      | TextBase.Ok (Datatypes.S _) => let '(l, st2) := tab_loop j' st1 in ((r, b, e) :: l, st2)
      | _ => ([(r, b, e)], st1)
      end
    end.
End TabLoop.

Definition run_sam_records (cap : nat) (s : source) :=
  tab_loop (d_sam_read_record src_read cap (b_fuel ([], s) 1)) (Datatypes.S (length (s_data s))) ([], s).
Definition run_vcf_records (cap : nat) (s : source) :=
  tab_loop (d_vcf_read_record src_read cap (b_fuel ([], s) 1)) (Datatypes.S (length (s_data s))) ([], s).

(* printing shape: (result, buffer, field ends) per call, bytes consumed at the end *)
Definition tab_obs (total : nat) (x : list (TextBase.res nat * list N * list nat) * bsrc)
  : list (cres nat * list N * list nat) * nat :=
  (map (fun e => (of_text_res (fst (fst e)), snd (fst e), snd e)) (fst x), total - b_left (snd x)).
Definition run_sam_obs (cap : nat) (s : source) := tab_obs (length (s_data s)) (run_sam_records cap s).
Definition run_vcf_obs (cap : nat) (s : source) := tab_obs (length (s_data s)) (run_vcf_records cap s).

(* the raw slices the lazy vcf::Record accessors return for a record that was read Ok:
   reference_sequence_name, ids, reference_bases, alternate_bases, filters, info ("." reads as "") *)
Definition vslice (buf : list N) (a b : nat) : list N := firstn (b - a) (skipn a buf).
Definition vmiss (s : list N) : list N := match s with [46%N] => [] | _ => s end.
Definition vcf_view (buf : list N) (ends : list nat) : list (list N) :=
  let e i := nth i ends 0 in
  [ vslice buf 0 (e 0); vmiss (vslice buf (e 1) (e 2)); vslice buf (e 2) (e 3);
    vmiss (vslice buf (e 3) (e 4)); vmiss (vslice buf (e 5) (e 6)); vmiss (vslice buf (e 6) (e 7)) ].
Definition run_vcf_view_obs (cap : nat) (s : source) :=
  let '(l, pos) := run_vcf_obs cap s in
  (map (fun x => (fst (fst x), vcf_view (snd (fst x)) (snd x))) l, pos).

(* the raw slices the lazy sam::Record accessors return: name ("*" = none, printed as empty), cigar,
   sequence, quality scores ("*" reads as ""), data (everything after the quality scores) *)
Definition smiss (s : list N) : list N := match s with [42%N] => [] | _ => s end.
Definition sam_view (buf : list N) (ends : list nat) : list (list N) :=
  let e i := nth i ends 0 in
  [ smiss (vslice buf 0 (e 0)); smiss (vslice buf (e 4) (e 5)); smiss (vslice buf (e 8) (e 9));
    smiss (vslice buf (e 9) (e 10)); skipn (e 10) buf ].
Definition run_sam_view_obs (cap : nat) (s : source) :=
  let '(l, pos) := run_sam_obs cap s in
  (map (fun x => (fst (fst x), sam_view (snd (fst x)) (snd x))) l, pos).

(* ---- read_line to the end of the input (gtf::io::Reader::read_line; the line step of every
   read_line-based record reader): (bytes consumed, stripped line) per call until Ok(0) *)
Fixpoint read_lines_all (cap k fuel : nat) (st : bsrc) : list (nat * list N) * bsrc :=
  match k with
  | 0 => ([], st)
  | Datatypes.S k' =>
    match read_line src_read cap fuel st with
    | (0, _, _, st') => ([], st')
    | (n, l, _, st') => let '(ls, st'') := read_lines_all cap k' fuel st' in ((n, l) :: ls, st'')
    end
  end.

Definition run_read_lines (cap : nat) (s : source) : list (nat * list N) * bsrc :=
  read_lines_all cap (Datatypes.S (length (s_data s))) (b_fuel ([], s) 0) ([], s).
