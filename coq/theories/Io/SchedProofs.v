(* Proofs about the generic ticket pipeline NV.Io.Sched. *)
From Coq Require Import List Arith Lia Bool.
From NV Require Import Io.Sched.
Import ListNotations.

Section PipelineProofs.
  Variables (item res cst : Type).
  Variable f : item -> res.
  Variable ready : item -> bool.
  Variable cstep : cst -> res -> cst.
  Variable stopped : cst -> bool.
  Variable can_submit : nat -> bool -> bool.
  Variable pool : nat.

  Notation state := (st item cst).
  Notation enabled := (enabled stopped can_submit pool).
  Notation step := (step f ready cstep stopped can_submit pool).
  Notation run := (run f ready cstep stopped can_submit pool).
  Notation final := (final stopped).
  Notation st_consume := (st_consume cstep stopped).
  Notation auto_act := (auto_act stopped can_submit pool).
  Notation drive := (drive f ready cstep stopped can_submit pool).
  Notation iter := (iter f ready cstep stopped can_submit pool).
  Notation default_pick := (default_pick stopped can_submit pool).

  (* ---------------------------------------------------------------- sequential spec lemmas *)
  Lemma st_consume_stopped c rs : stopped c = true -> st_consume c rs = c.
  Proof. intros H. destruct rs as [|r rs]; cbn [Sched.st_consume]; [reflexivity|]. rewrite H. reflexivity. Qed.

  Lemma st_consume_app c a b : st_consume c (a ++ b) = st_consume (st_consume c a) b.
  Proof.
    revert c. induction a as [|r a IH]; intros c; cbn [app Sched.st_consume]; [reflexivity|].
    destruct (stopped c) eqn:E; [|apply IH].
    symmetry. apply st_consume_stopped. exact E.
  Qed.

  Lemma st_consume_snoc c a r :
    stopped (st_consume c a) = false -> st_consume c (a ++ [r]) = cstep (st_consume c a) r.
  Proof. intros H. rewrite st_consume_app. cbn [Sched.st_consume]. rewrite H. reflexivity. Qed.

  (* ---------------------------------------------------------------- the refinement invariant *)
  Definition view (s : state) : list item :=
    cons s ++ map snd (olist (hold s)) ++ map snd (chan s) ++ todo s.

  Lemma step_view s a : view (step s a) = view s.
  Proof.
    unfold Sched.step. destruct (enabled s a) eqn:E; [|reflexivity].
    destruct s as [td n ch h p r d co c]. unfold view.
    destruct a as [| |t| |]; cbn [todo chan hold cons].
    - destruct td as [|x xs]; [reflexivity|]. destruct (ready x); cbn [todo chan hold cons];
        rewrite map_app; cbn [map snd]; rewrite <- !app_assoc; reflexivity.
    - destruct p as [|t p]; reflexivity.
    - reflexivity.
    - destruct ch as [|q ch]; [reflexivity|]. cbn [todo chan hold cons].
      cbn [Sched.enabled hold chan] in E. destruct h as [[t x]|]; [discriminate|].
      cbn [olist map app]. reflexivity.
    - destruct h as [[t x]|]; [|reflexivity]. cbn [todo chan hold cons olist map snd app].
      rewrite <- !app_assoc. reflexivity.
  Qed.

  Lemma run_view c0 xs sched : view (run c0 xs sched) = xs.
  Proof.
    unfold Sched.run. set (s0 := init c0 xs).
    assert (H0 : view s0 = xs) by reflexivity.
    revert H0. generalize s0. induction sched as [|a sched IH]; intros s H; cbn [fold_left]; [exact H|].
    apply IH. rewrite step_view. exact H.
  Qed.

  Definition cs_inv (c0 : cst) (s : state) : Prop := cs s = st_consume c0 (map f (cons s)).

  Lemma step_cs_inv c0 s a : cs_inv c0 s -> cs_inv c0 (step s a).
  Proof.
    unfold cs_inv, Sched.step. intros H. destruct (enabled s a) eqn:E; [|exact H].
    destruct s as [td n ch h p r d co c]. cbn [cs cons] in H.
    destruct a as [| |t| |]; cbn [todo chan hold cons cs pending].
    - destruct td as [|x xs]; [exact H|]. destruct (ready x); exact H.
    - destruct p; exact H.
    - exact H.
    - destruct ch; exact H.
    - destruct h as [[t x]|]; [|exact H]. cbn [cs cons].
      cbn [Sched.enabled hold done cs] in E. apply andb_prop in E. destruct E as [_ E].
      apply negb_true_iff in E.
      rewrite map_app. cbn [map]. rewrite st_consume_snoc; rewrite <- H; [reflexivity|exact E].
  Qed.

  Lemma run_cs_inv c0 xs sched : cs_inv c0 (run c0 xs sched).
  Proof.
    unfold Sched.run. set (s0 := init c0 xs).
    assert (H0 : cs_inv c0 s0) by reflexivity.
    revert H0. generalize s0. induction sched as [|a sched IH]; intros s H; cbn [fold_left]; [exact H|].
    apply IH. apply step_cs_inv. exact H.
  Qed.

  (* In every reachable state the consumer has processed exactly a prefix of the items, in
     submission order, and is in the state the sequential consumer is in after that prefix. *)
  Theorem prefix_invariant c0 xs sched :
    let s := run c0 xs sched in
    exists rest, xs = cons s ++ rest /\ cs s = st_consume c0 (map f (cons s)).
  Proof.
    cbn zeta. pose proof (run_view c0 xs sched) as V. pose proof (run_cs_inv c0 xs sched) as C.
    unfold view in V. eexists. split; [symmetry; exact V|exact C].
  Qed.

  (* MAIN: whatever the schedule, a final state (drained, or consumer stopped) has the consumer in
     exactly the state of the sequential run over all items in submission order. *)
  Theorem pipeline_output_is_submission_order c0 xs sched :
    final (run c0 xs sched) = true ->
    cs (run c0 xs sched) = st_consume c0 (map f xs).
  Proof.
    intros F. destruct (prefix_invariant c0 xs sched) as [rest [Hx Hc]].
    set (s := run c0 xs sched) in *.
    unfold Sched.final in F. apply orb_true_iff in F. destruct F as [F|F].
    - rewrite Hx at 1. rewrite map_app, st_consume_app, <- Hc. symmetry. apply st_consume_stopped. exact F.
    - pose proof (run_view c0 xs sched) as V. fold s in V. unfold view in V.
      unfold drained in F. destruct (todo s); [|discriminate]. destruct (chan s); [|discriminate].
      destruct (hold s); [discriminate|]. cbn [olist map app] in V. rewrite app_nil_r in V.
      rewrite <- V. exact Hc.
  Qed.

  (* and when drained every item has been consumed, in order *)
  Corollary drained_consumed_all c0 xs sched :
    drained (run c0 xs sched) = true -> cons (run c0 xs sched) = xs.
  Proof.
    intros F. pose proof (run_view c0 xs sched) as V. unfold view in V.
    unfold drained in F. destruct (todo _); [|discriminate]. destruct (chan _); [|discriminate].
    destruct (hold _); [discriminate|]. cbn [olist map app] in V. rewrite app_nil_r in V. exact V.
  Qed.

  (* ---------------------------------------------------------------- the harness scheduler is a schedule *)
  Lemma drive_is_run fuel s rel : fst (drive fuel s rel) = fold_left step (snd (drive fuel s rel)) s.
  Proof.
    revert s rel. induction fuel as [|k IH]; intros s rel; cbn [Sched.drive]; [reflexivity|].
    destruct (final s); [reflexivity|].
    destruct (auto_act s) as [a|].
    - specialize (IH (step s a) rel). destruct (drive k (step s a) rel) as [s' l]. cbn [fst snd fold_left] in *. exact IH.
    - destruct rel as [|t rel']; [reflexivity|].
      destruct (enabled s (Complete t)); [|reflexivity].
      specialize (IH (step s (Complete t)) rel'). destruct (drive k (step s (Complete t)) rel') as [s' l].
      cbn [fst snd fold_left] in *. exact IH.
  Qed.

  (* ---------------------------------------------------------------- well-formedness, progress *)
  Definition wf (s : state) : Prop :=
    forall t, In t (tickets s) -> In t (pending s) \/ In t (running s) \/ In t (done s).

  Lemma mem_In t l : mem t l = true <-> In t l.
  Proof.
    unfold mem. rewrite existsb_exists. split.
    - intros [u [Hu E]]. apply Nat.eqb_eq in E. subst u. exact Hu.
    - intros H. exists t. split; [exact H|apply Nat.eqb_refl].
  Qed.

  Lemma In_filter_neq t u l : In u l -> u <> t -> In u (filter (fun v => negb (Nat.eqb t v)) l).
  Proof.
    intros H N. apply filter_In. split; [exact H|]. apply negb_true_iff. apply Nat.eqb_neq. congruence.
  Qed.

  Lemma step_wf s a : wf s -> wf (step s a).
  Proof.
    unfold Sched.step. intros W. destruct (enabled s a) eqn:E; [|exact W].
    destruct s as [td n ch h p r d co c]. unfold wf, tickets in *. cbn [hold chan pending running done] in *.
    destruct a as [| |t| |]; cbn [todo chan hold cons cs pending running done].
    - destruct td as [|x xs]; [exact W|]. destruct (ready x); cbn [hold chan pending running done];
        intros t Ht; rewrite app_assoc, map_app in Ht; apply in_app_or in Ht; destruct Ht as [Ht|Ht].
      + destruct (W t Ht) as [H|[H|H]]; [left; exact H|right; left; exact H|right; right; right; exact H].
      + cbn [map fst In] in Ht. destruct Ht as [Ht|[]]. subst t. right. right. left. reflexivity.
      + destruct (W t Ht) as [H|[H|H]]; [left; apply in_or_app; left; exact H|right; left; exact H|right; right; exact H].
      + cbn [map fst In] in Ht. destruct Ht as [Ht|[]]. subst t. left. apply in_or_app. right. left. reflexivity.
    - destruct p as [|t p]; [exact W|]. cbn [hold chan pending running done].
      intros u Hu. destruct (W u Hu) as [H|[H|H]].
      + destruct H as [H|H]; [subst u; right; left; apply in_or_app; right; left; reflexivity|left; exact H].
      + right. left. apply in_or_app. left. exact H.
      + right. right. exact H.
    - intros u Hu. destruct (W u Hu) as [H|[H|H]].
      + left. exact H.
      + destruct (Nat.eq_dec u t) as [Eq|Ne].
        * subst u. right. right. left. reflexivity.
        * right. left. apply In_filter_neq; assumption.
      + right. right. right. exact H.
    - destruct ch as [|q ch]; [exact W|]. cbn [hold chan pending running done].
      cbn [Sched.enabled hold chan] in E. destruct h as [[t0 x0]|]; [discriminate|].
      intros u Hu. apply W. cbn [olist app] in *. exact Hu.
    - destruct h as [[t0 x0]|]; [|exact W]. cbn [hold chan pending running done].
      intros u Hu. apply W. cbn [olist app map]. right. exact Hu.
  Qed.

  Lemma init_wf c0 xs : wf (init c0 xs).
  Proof. intros t H. destruct H. Qed.

  Lemma run_wf c0 xs sched : wf (run c0 xs sched).
  Proof.
    unfold Sched.run. pose proof (init_wf c0 xs) as H0. revert H0. generalize (init c0 xs).
    induction sched as [|a sched IH]; intros s H; cbn [fold_left]; [exact H|]. apply IH. apply step_wf. exact H.
  Qed.

  Hypothesis pool_pos : 0 < pool.
  Hypothesis can_submit_empty : can_submit 0 false = true.

  Lemma auto_none_running s : wf s -> final s = false -> auto_act s = None -> running s <> [].
  Proof.
    intros W F A. unfold Sched.auto_act in A.
    destruct (enabled s Emit) eqn:EE; [discriminate|].
    destruct (enabled s Take) eqn:ET; [discriminate|].
    destruct (enabled s Submit) eqn:ES; [discriminate|].
    destruct (enabled s Start) eqn:ESt; [discriminate|]. clear A.
    unfold Sched.final in F. apply orb_false_iff in F. destruct F as [Fs Fd].
    destruct s as [td n ch h p r d co c]. unfold wf, tickets in W.
    cbn [Sched.enabled todo chan hold pending running done cs] in *.
    rewrite Fs in *. cbn [negb] in *. rewrite ?andb_true_r in *.
    unfold drained in Fd. cbn [todo chan hold] in Fd.
    destruct h as [[t x]|].
    - assert (Ht : In t (map fst (olist (Some (t, x)) ++ ch))) by (cbn [olist app map fst In]; left; reflexivity).
      destruct (W t Ht) as [H|[H|H]].
      + destruct p as [|u p]; [destruct H|].
        apply Nat.ltb_ge in ESt. destruct r as [|v r]; [cbn [length] in ESt; lia|discriminate].
      + destruct r as [|v r]; [destruct H|discriminate].
      + apply mem_In in H. rewrite H in EE. discriminate.
    - destruct ch as [|q ch].
      + destruct td as [|y ys]; [discriminate|].
        cbn [length is_some] in ES. rewrite can_submit_empty in ES. discriminate.
      + discriminate.
  Qed.

  (* PROGRESS: in every reachable non-final state some action is enabled (no deadlock) *)
  Lemma default_pick_enabled s : wf s -> final s = false -> enabled s (default_pick s) = true.
  Proof.
    intros W F. unfold Sched.default_pick. destruct (auto_act s) as [a|] eqn:A.
    - unfold Sched.auto_act in A.
      destruct (enabled s Emit) eqn:EE; [injection A as A; subst a; exact EE|].
      destruct (enabled s Take) eqn:ET; [injection A as A; subst a; exact ET|].
      destruct (enabled s Submit) eqn:ES; [injection A as A; subst a; exact ES|].
      destruct (enabled s Start) eqn:ESt; [injection A as A; subst a; exact ESt|discriminate].
    - pose proof (auto_none_running s W F A) as R. destruct (running s) as [|t r] eqn:Er; [congruence|].
      cbn [Sched.enabled]. rewrite Er. unfold mem. cbn [existsb]. rewrite Nat.eqb_refl. reflexivity.
  Qed.

  Theorem pipeline_progress c0 xs sched :
    final (run c0 xs sched) = false -> exists a, enabled (run c0 xs sched) a = true.
  Proof.
    intros F. exists (default_pick (run c0 xs sched)). apply default_pick_enabled; [apply run_wf|exact F].
  Qed.

  (* ---------------------------------------------------------------- the measure *)
  Lemma filter_len_le {A} (g : A -> bool) (l : list A) : length (filter g l) <= length l.
  Proof. induction l as [|v l IH]; cbn [filter length]; [lia|]. destruct (g v); cbn [length]; lia. Qed.

  Lemma filter_neq_length_lt t l :
    In t l -> length (filter (fun u => negb (Nat.eqb t u)) l) < length l.
  Proof.
    induction l as [|v l IH]; intros H; [destruct H|]. cbn [filter length].
    destruct (Nat.eqb t v) eqn:E; cbn [negb].
    - pose proof (filter_len_le (fun u => negb (Nat.eqb t u)) l). lia.
    - cbn [length]. destruct H as [H|H]; [subst v; rewrite Nat.eqb_refl in E; discriminate|].
      specialize (IH H). lia.
  Qed.

  Lemma step_measure s a : enabled s a = true -> measure (step s a) < measure s.
  Proof.
    intros E. unfold Sched.step. rewrite E.
    destruct s as [td n ch h p r d co c]. unfold measure.
    destruct a as [| |t| |]; cbn [Sched.enabled todo chan hold pending running done cs] in *.
    - destruct td as [|x xs]; [discriminate|]. destruct (ready x); cbn [todo chan hold pending running]; rewrite ?app_length; cbn [length]; lia.
    - destruct p as [|t p]; [discriminate|]. cbn [todo chan hold pending running]. rewrite !app_length. cbn [length]. lia.
    - apply mem_In in E. pose proof (filter_neq_length_lt t r E). lia.
    - destruct h; [discriminate|]. destruct ch as [|q ch]; [discriminate|]. cbn [todo chan hold pending running olist length]. lia.
    - destruct h as [[t x]|]; [|discriminate]. cbn [todo chan hold pending running olist length]. lia.
  Qed.

  Lemma measure_zero_final (s : state) : measure s = 0 -> final s = true.
  Proof.
    destruct s as [td n ch h p r d co c]. unfold measure, Sched.final, drained. cbn [todo chan hold pending running cs].
    intros H. destruct td; [|cbn [length] in H; lia]. destruct ch; [|cbn [length] in H; lia].
    destruct h; [cbn [olist length] in H; lia|]. apply orb_true_r.
  Qed.

  Lemma final_iter pick n s : final s = true -> iter pick n s = s.
  Proof. intros F. destruct n; cbn [Sched.iter]; [reflexivity|]. rewrite F. reflexivity. Qed.

  Lemma iter_reaches_final pick :
    (forall s, wf s -> final s = false -> enabled s (pick s) = true) ->
    forall n s, wf s -> measure s <= n -> final (iter pick n s) = true.
  Proof.
    intros P. induction n as [|n IH]; intros s W M.
    - cbn [Sched.iter]. apply measure_zero_final. lia.
    - cbn [Sched.iter]. destruct (final s) eqn:F; [exact F|].
      apply IH; [apply step_wf; exact W|]. pose proof (step_measure s (pick s) (P s W F)). lia.
  Qed.

  (* TERMINATION: any strategy that always picks an enabled action (one exists: default_pick)
     reaches a final state within 5 * |items| steps: finish()/join returns. *)
  Theorem pipeline_terminates pick c0 xs :
    (forall s, wf s -> final s = false -> enabled s (pick s) = true) ->
    final (iter pick (5 * length xs) (init c0 xs)) = true.
  Proof.
    intros P. apply iter_reaches_final; [exact P|apply init_wf|].
    unfold measure, init. cbn [todo chan hold pending running olist length]. lia.
  Qed.

  Corollary pipeline_terminates_default c0 xs :
    final (iter default_pick (5 * length xs) (init c0 xs)) = true.
  Proof. apply pipeline_terminates. exact default_pick_enabled. Qed.

  (* every run of enabled actions is short: no schedule can keep the pipeline busy forever *)
  Theorem enabled_run_bounded sched : forall s,
    (forall k, k < length sched -> enabled (fold_left step (firstn k sched) s) (nth k sched Submit) = true) ->
    length sched + measure (fold_left step sched s) <= measure s.
  Proof.
    induction sched as [|a sched IH]; intros s H; cbn [fold_left length]; [lia|].
    assert (E : enabled s a = true) by (apply (H 0); cbn [length]; lia).
    pose proof (step_measure s a E) as M.
    assert (H' : forall k, k < length sched ->
               enabled (fold_left step (firstn k sched) (step s a)) (nth k sched Submit) = true).
    { intros k Hk. apply (H (S k)). cbn [length]. lia. }
    specialize (IH (step s a) H'). lia.
  Qed.

  (* ---------------------------------------------------------------- window bounds *)
  Variable W : nat.
  Hypothesis can_submit_window : forall n h, can_submit n h = true -> n + length (olist (if h then Some tt else None)) < W.

  Definition bounded (s : state) : Prop :=
    length (chan s) + length (olist (hold s)) <= W /\ length (running s) <= pool.

  Lemma step_bounded s a : bounded s -> bounded (step s a).
  Proof.
    unfold Sched.step, bounded. intros [B1 B2]. destruct (enabled s a) eqn:E; [|split; assumption].
    destruct s as [td n ch h p r d co c].
    destruct a as [| |t| |]; cbn [Sched.enabled todo chan hold pending running done cs] in *.
    - destruct td as [|x xs]; [discriminate|]. apply andb_prop in E. destruct E as [E _].
      apply can_submit_window in E.
      destruct (ready x); cbn [chan hold running]; rewrite app_length; cbn [length];
        (split; [|exact B2]); destruct h; cbn [is_some olist length] in *; lia.
    - destruct p as [|t p]; [discriminate|]. cbn [chan hold running]. apply Nat.ltb_lt in E.
      rewrite app_length. cbn [length]. split; lia.
    - split; [exact B1|]. pose proof (filter_len_le (fun u => negb (Nat.eqb t u)) r). lia.
    - destruct h; [discriminate|]. destruct ch as [|q ch]; [discriminate|]. cbn [chan hold running olist length] in *. split; lia.
    - destruct h as [[t x]|]; [|discriminate]. cbn [chan hold running olist length] in *. split; lia.
  Qed.

  (* WINDOW BOUND: never more than W tickets outstanding, never more than [pool] tasks running *)
  Theorem pipeline_window_bound c0 xs sched : bounded (run c0 xs sched).
  Proof.
    unfold Sched.run. assert (H0 : bounded (init c0 xs)) by (unfold bounded, init; cbn; lia).
    revert H0. generalize (init c0 xs). induction sched as [|a sched IH]; intros s H; cbn [fold_left]; [exact H|].
    apply IH. apply step_bounded. exact H.
  Qed.
End PipelineProofs.
