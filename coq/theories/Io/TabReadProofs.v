(* C12 — the lazy SAM record reader is delivery independent (closed form [w_sam_read_record]); the
   lazy VCF record reader is delivery independent on ASCII input (closed form [w_vcf_read_record])
   and is NOT on input with multi-byte characters (witness in props/C12.v). *)
From Coq Require Import List NArith Arith Bool Lia.
From NV Require Import Io.Source Io.ReadExact Io.ReadExactProofs Io.BufReader Io.BufReaderProofs
  Io.FastaScan Io.FastaScanProofs Io.BedRead Io.BedReadProofs Io.TabRead.
From NV Require Text.TextBase Text.BedRec Fasta.Fastq.
Import ListNotations.

Lemma utf8_valid_ascii : forall l, ascii l = true -> Fastq.utf8_valid l = true.
Proof.
  induction l as [|b t IH]; intros H; [reflexivity|].
  cbn [ascii forallb] in H. apply andb_true_iff in H. destruct H as [Hb Ht].
  cbn [Fastq.utf8_valid]. change (b <? 128)%N with (N.ltb b 128). rewrite Hb. apply IH. exact Ht.
Qed.

Lemma ascii_app : forall u v, ascii (u ++ v) = ascii u && ascii v.
Proof. intros u v. unfold ascii. apply forallb_app. Qed.

Lemma ascii_skipn : forall k d, ascii d = true -> ascii (skipn k d) = true.
Proof.
  intros k d H. rewrite <- (firstn_skipn k d) in H. rewrite ascii_app in H.
  apply andb_true_iff in H. tauto.
Qed.

Lemma ascii_take_line : forall d, ascii d = true -> ascii (take_line LF d) = true.
Proof.
  induction d as [|x t IH]; intros H; [reflexivity|].
  cbn [ascii forallb] in H. apply andb_true_iff in H. destruct H as [Hb Ht].
  cbn [take_line]. destruct (N.eqb x LF); cbn [ascii forallb]; rewrite Hb; [reflexivity|].
  cbn [andb]. apply IH. exact Ht.
Qed.

Section TabProofs.
  Context {S : Type}.
  Variable rd : reader S.
  Variable Rep : S -> list N -> nat -> Prop.
  Hypothesis Hsim : simulates rd Rep.
  Variable cap : nat.
  Hypothesis Hcap : 1 <= cap.

  Notation repb st d m := (rep_buf Rep st d m).

  (* ---- SAM *)
  Theorem d_sam_read_record_spec : forall fuel st d m,
    repb st d m -> m + length d + 2 < fuel ->
    exists st' m',
      d_sam_read_record rd cap fuel st
        = (fst (fst (fst (w_sam_read_record d))), snd (fst (fst (w_sam_read_record d))),
           snd (fst (w_sam_read_record d)), st')
      /\ repb st' (snd (w_sam_read_record d)) m' /\ m' <= m
      /\ length (snd (w_sam_read_record d)) <= length d.
  Proof.
    intros fuel st d m HR Hf. unfold d_sam_read_record, w_sam_read_record.
    pose proof (d_read_required_spec rd Rep Hsim cap Hcap 10 fuel st d m [] [] 0 HR Hf) as H1.
    destruct (w_read_required 10 d [] [] 0) as [[[[ok src1] dst1] ends] len].
    destruct H1 as [st1 [m1 [E1 [HR1 [Hm1 Hl1]]]]]. rewrite E1.
    destruct ok; cbn [negb].
    2:{ exists st1, m1. cbn [fst snd]. split; [reflexivity|]. split; [exact HR1|]. split; lia. }
    destruct (d_read_field_spec rd Rep Hsim cap Hcap fuel st1 src1 m1 dst1 HR1 ltac:(lia))
      as [st2 [m2 [E2 [HR2 [Hm2 Hl2]]]]].
    rewrite E2. destruct (w_read_field src1 dst1) as [[[dst2 n2] eol] src2]. cbn [fst snd] in *.
    destruct eol.
    - exists st2, m2. cbn [fst snd]. split; [reflexivity|]. split; [exact HR2|]. split; lia.
    - destruct (read_until_spec rd Rep Hsim cap Hcap LF fuel st2 src2 m2 HR2 ltac:(lia))
        as [st3 [m3 [E3 [HR3 Hm3]]]].
      rewrite E3. exists st3, m3. cbn [fst snd].
      split; [reflexivity|]. split; [exact HR3|]. split; [lia|].
      rewrite skipn_length. lia.
  Qed.

  (* ---- VCF on ASCII input *)
  Lemma d_vcf_field_done : forall fuel st d m dst c len, repb st d m -> m < fuel ->
    exists st' m', d_vcf_field_loop rd cap fuel st dst (Some c) len = (TOk, dst, Some c, len, st')
                   /\ repb st' d m' /\ m' <= m.
  Proof.
    induction fuel as [|fuel IH]; intros st d m dst c len HR Hf; [lia|].
    cbn [d_vcf_field_loop].
    pose proof (br_fill_buf_spec rd Rep Hsim cap Hcap st d m HR) as Hfb.
    destruct (br_fill_buf rd cap st) as [[src|] st1].
    - destruct Hfb as [_ [_ [_ [m1 [Hm1 HR1]]]]].
      exists st1, m1. split; [reflexivity|]. split; [exact HR1|exact Hm1].
    - destruct Hfb as [m1 [Hm1 HR1]].
      destruct (IH st1 d m1 dst c len HR1 ltac:(lia)) as [st' [m' [E [HR' Hm']]]].
      exists st', m'. split; [exact E|]. split; [exact HR'|lia].
  Qed.

  Lemma d_vcf_field_loop_spec : forall fuel st d m dst len,
    repb st d m -> m + length d + 2 < fuel -> ascii d = true ->
    exists st' m',
      d_vcf_field_loop rd cap fuel st dst None len
        = (TOk, dst ++ fst (fst (BedRec.scan_field d)), snd (fst (BedRec.scan_field d)),
           len + fld_n (fst (fst (BedRec.scan_field d))) (snd (fst (BedRec.scan_field d))), st')
      /\ repb st' (snd (BedRec.scan_field d)) m' /\ m' <= m.
  Proof.
    induction fuel as [|fuel IH]; intros st d m dst len HR Hf Ha; [lia|].
    cbn [d_vcf_field_loop].
    pose proof (br_fill_buf_spec rd Rep Hsim cap Hcap st d m HR) as Hfb.
    destruct (br_fill_buf rd cap st) as [[src|] st1].
    2:{ destruct Hfb as [m1 [Hm1 HR1]].
        destruct (IH st1 d m1 dst len HR1 ltac:(lia) Ha) as [st' [m' [E [HR' Hm']]]].
        exists st', m'. split; [exact E|]. split; [exact HR'|lia]. }
    destruct Hfb as [Hp [Hn [Hfst [m1 [Hm1 HR1]]]]].
    destruct src as [|x w'].
    - assert (d = []) by (destruct d; [reflexivity|exfalso; apply Hn; [discriminate|reflexivity]]).
      subst d. exists st1, m1. cbn [BedRec.scan_field fst snd fld_n length]. rewrite app_nil_r, Nat.add_0_r.
      split; [reflexivity|]. split; [exact HR1|exact Hm1].
    - set (src := x :: w') in *.
      pose proof (wsplit src d Hp) as Hd.
      set (rest := skipn (length src) d) in *.
      assert (Hlr : length d = length src + length rest) by (rewrite Hd at 1; apply app_length).
      assert (Hasrc : ascii src = true /\ ascii rest = true).
      { rewrite Hd in Ha. rewrite ascii_app in Ha. apply andb_true_iff in Ha. exact Ha. }
      destruct Hasrc as [Hasrc Harest].
      destruct (BedRec.scan_field src) as [[f dl] rw] eqn:Esc.
      unfold src at 1. fold src.
      destruct dl as [b|].
      + destruct (bscan_some src f b rw Esc) as [Hw Hall].
        assert (Hsc : BedRec.scan_field d = (f, Some b, rw ++ rest)) by (rewrite Hd at 1; apply Hall).
        rewrite Hsc. cbn [fst snd fld_n].
        assert (Haf : Fastq.utf8_valid f = true).
        { apply utf8_valid_ascii. rewrite Hw in Hasrc. rewrite ascii_app in Hasrc.
          apply andb_true_iff in Hasrc. tauto. }
        rewrite Haf.
        pose proof (f_equal (@length N) Hw) as Hx. rewrite app_length in Hx. cbn [length] in Hx.
        assert (HR2 : repb (br_consume (Datatypes.S (length f)) st1) (rw ++ rest) m1).
        { replace (rw ++ rest) with (skipn (Datatypes.S (length f)) d).
          { apply (consume_k Rep st1 src); auto. lia. }
          assert (Hdd : d = f ++ [b] ++ (rw ++ rest)).
          { rewrite Hd. rewrite Hw. rewrite <- !app_assoc. reflexivity. }
          rewrite Hdd at 1.
          replace (Datatypes.S (length f)) with (length f + 1) by lia.
          rewrite <- skipn_skipn_add. rewrite skipn_app_le by lia.
          rewrite skipn_all. reflexivity. }
        destruct (d_vcf_field_done fuel _ _ m1 (dst ++ f) b (len + Datatypes.S (length f)) HR2 ltac:(lia))
          as [st' [m' [E [HR' Hm']]]].
        exists st', m'. rewrite E. split; [reflexivity|]. split; [exact HR'|lia].
      + destruct (bscan_none src f rw Esc) as [Hn' [Hrw Hall]]. subst f rw.
        rewrite (utf8_valid_ascii src Hasrc).
        assert (HR2 : repb (br_consume (length src) st1) rest m1)
          by (apply (consume_k Rep st1 src); auto).
        destruct (IH _ rest m1 (dst ++ src) (len + length src) HR2) as [st' [m' [E [HR' Hm']]]].
        { unfold src in *. cbn [length] in *. lia. }
        { exact Harest. }
        assert (Hsc : BedRec.scan_field d = (src ++ fst (fst (BedRec.scan_field rest)),
                  snd (fst (BedRec.scan_field rest)), snd (BedRec.scan_field rest)))
          by (rewrite Hd at 1; apply Hall).
        exists st', m'. rewrite E. rewrite Hsc. cbn [fst snd].
        rewrite <- app_assoc. split; [|split; [exact HR'|lia]].
        unfold fld_n. destruct (snd (fst (BedRec.scan_field rest)));
          rewrite app_length; repeat (f_equal; try lia).
  Qed.

  Lemma scan_rest_ascii : forall d, ascii d = true -> ascii (snd (BedRec.scan_field d)) = true.
  Proof.
    induction d as [|b t IH]; intros H; [reflexivity|].
    cbn [ascii forallb] in H. apply andb_true_iff in H. destruct H as [Hb Ht].
    cbn [BedRec.scan_field]. destruct ((b =? 9)%N || (b =? 10)%N); [exact Ht|].
    specialize (IH Ht). destruct (BedRec.scan_field t) as [[f d'] r]. exact IH.
  Qed.

  Lemma d_vcf_read_field_spec : forall fuel st d m dst,
    repb st d m -> m + length d + 2 < fuel -> ascii d = true ->
    exists st' m',
      d_vcf_read_field rd cap fuel st dst
        = (TOk, fst (fst (fst (w_vcf_read_field d dst))), snd (fst (fst (w_vcf_read_field d dst))),
           snd (fst (w_vcf_read_field d dst)), st')
      /\ repb st' (snd (w_vcf_read_field d dst)) m' /\ m' <= m
      /\ length (snd (w_vcf_read_field d dst)) <= length d
      /\ ascii (snd (w_vcf_read_field d dst)) = true.
  Proof.
    intros fuel st d m dst HR Hf Ha. unfold d_vcf_read_field, w_vcf_read_field.
    destruct (d_vcf_field_loop_spec fuel st d m dst 0 HR Hf Ha) as [st' [m' [E [HR' Hm']]]].
    rewrite E. pose proof (scan_rest_ascii d Ha) as Har.
    destruct (BedRec.scan_field d) as [[f dl] r] eqn:Esc. cbn [fst snd] in *.
    pose proof (bscan_len _ _ _ _ Esc) as Hl.
    exists st', m'. destruct dl as [c|]; cbn [fst snd fld_n Nat.add].
    - split; [reflexivity|]. split; [exact HR'|]. split; [exact Hm'|]. split; [lia|exact Har].
    - destruct Hl as [Hr Hlen]. subst r. split; [reflexivity|]. split; [exact HR'|].
      split; [exact Hm'|]. split; [cbn [length]; lia|reflexivity].
  Qed.

  Lemma d_vcf_read_required_spec : forall k fuel st d m dst ends len,
    repb st d m -> m + length d + 2 < fuel -> ascii d = true ->
    match w_vcf_read_required k d dst ends len with
    | (ok, src1, dst1, ends1, len1) =>
        exists st' m', d_vcf_read_required rd cap k fuel st dst ends len = (TOk, ok, dst1, ends1, len1, st')
                       /\ repb st' src1 m' /\ m' <= m /\ length src1 <= length d /\ ascii src1 = true
    end.
  Proof.
    induction k as [|k IH]; intros fuel st d m dst ends len HR Hf Ha.
    - cbn [w_vcf_read_required d_vcf_read_required]. exists st, m. auto.
    - cbn [w_vcf_read_required d_vcf_read_required].
      destruct (d_vcf_read_field_spec fuel st d m dst HR Hf Ha) as [st1 [m1 [E1 [HR1 [Hm1 [Hl1 Ha1]]]]]].
      rewrite E1. destruct (w_vcf_read_field d dst) as [[[dst1 n1] eol] src1]. cbn [fst snd] in *.
      destruct eol.
      + exists st1, m1. split; [reflexivity|]. split; [exact HR1|]. split; [lia|]. split; [lia|exact Ha1].
      + pose proof (IH fuel st1 src1 m1 dst1 (ends ++ [length dst1]) (len + n1) HR1 ltac:(lia) Ha1) as HI.
        destruct (w_vcf_read_required k src1 dst1 (ends ++ [length dst1]) (len + n1))
          as [[[[ok src2] dst2] ends2] len2].
        destruct HI as [st' [m' [E [HR' [Hm' [Hl' Ha']]]]]].
        exists st', m'. split; [exact E|]. split; [exact HR'|]. split; [lia|]. split; [lia|exact Ha'].
  Qed.

  Theorem d_vcf_read_record_ascii_spec : forall fuel st d m,
    repb st d m -> m + length d + 2 < fuel -> ascii d = true ->
    exists st' m',
      d_vcf_read_record rd cap fuel st
        = (fst (fst (fst (w_vcf_read_record d))), snd (fst (fst (w_vcf_read_record d))),
           snd (fst (w_vcf_read_record d)), st')
      /\ repb st' (snd (w_vcf_read_record d)) m' /\ m' <= m
      /\ length (snd (w_vcf_read_record d)) <= length d.
  Proof.
    intros fuel st d m HR Hf Ha. unfold d_vcf_read_record, w_vcf_read_record.
    pose proof (d_vcf_read_required_spec 7 fuel st d m [] [] 0 HR Hf Ha) as H1.
    destruct (w_vcf_read_required 7 d [] [] 0) as [[[[ok src1] dst1] ends] len].
    destruct H1 as [st1 [m1 [E1 [HR1 [Hm1 [Hl1 Ha1]]]]]]. rewrite E1.
    destruct ok; cbn [negb].
    2:{ exists st1, m1. cbn [fst snd]. split; [reflexivity|]. split; [exact HR1|]. split; lia. }
    destruct (d_vcf_read_field_spec fuel st1 src1 m1 dst1 HR1 ltac:(lia) Ha1)
      as [st2 [m2 [E2 [HR2 [Hm2 [Hl2 Ha2]]]]]].
    rewrite E2. destruct (w_vcf_read_field src1 dst1) as [[[dst2 n2] eol] src2]. cbn [fst snd] in *.
    destruct eol.
    - exists st2, m2. cbn [fst snd]. split; [reflexivity|]. split; [exact HR2|]. split; lia.
    - destruct (read_until_spec rd Rep Hsim cap Hcap LF fuel st2 src2 m2 HR2 ltac:(lia))
        as [st3 [m3 [E3 [HR3 Hm3]]]].
      rewrite E3. rewrite (utf8_valid_ascii _ (ascii_take_line src2 Ha2)).
      exists st3, m3. cbn [fst snd]. unfold w_tab_tail.
      split; [reflexivity|]. split; [exact HR3|]. split; [lia|].
      rewrite skipn_length. lia.
  Qed.
End TabProofs.
