(* C12 — the lazy SAM record reader is delivery independent (closed form [w_sam_read_record]); the
   lazy VCF record reader is delivery independent on ASCII input (closed form [w_vcf_read_record])
   and is NOT on input with multi-byte characters (witness in props/C12.v). *)
From Coq Require Import List NArith Arith Bool Lia.
From NV Require Import Io.Source Io.ReadExact Io.ReadExactProofs Io.BufReader Io.BufReaderProofs
  Io.FastaScan Io.FastaScanProofs Io.BedRead Io.BedReadProofs Io.TabRead.
From NV Require Text.TextBase Text.BedRec Fasta.Fastq.
Import ListNotations.

Lemma utf8_valid_ascii : forall l, ascii l = true -> Fastq.utf8_valid l = true.
Proof.
  induction l as [|b t IH]; intros H; [reflexivity|].
  cbn [ascii forallb] in H. apply andb_true_iff in H. destruct H as [Hb Ht].
  cbn [Fastq.utf8_valid]. change (b <? 128)%N with (N.ltb b 128). rewrite Hb. apply IH. exact Ht.
Qed.

Lemma ascii_app : forall u v, ascii (u ++ v) = ascii u && ascii v.
Proof. intros u v. unfold ascii. apply forallb_app. Qed.

Lemma ascii_skipn : forall k d, ascii d = true -> ascii (skipn k d) = true.
Proof.
  intros k d H. rewrite <- (firstn_skipn k d) in H. rewrite ascii_app in H.
  apply andb_true_iff in H. tauto.
Qed.

Lemma ascii_take_line : forall d, ascii d = true -> ascii (take_line LF d) = true.
Proof.
  induction d as [|x t IH]; intros H; [reflexivity|].
  cbn [ascii forallb] in H. apply andb_true_iff in H. destruct H as [Hb Ht].
  cbn [take_line]. destruct (N.eqb x LF); cbn [ascii forallb]; rewrite Hb; [reflexivity|].
  cbn [andb]. apply IH. exact Ht.
Qed.

Section TabProofs.
  Context {S : Type}.
  Variable rd : reader S.
  Variable Rep : S -> list N -> nat -> Prop.
  Hypothesis Hsim : simulates rd Rep.
  Variable cap : nat.
  Hypothesis Hcap : 1 <= cap.

  Notation repb st d m := (rep_buf Rep st d m).

  (* ---- SAM *)
  Theorem d_sam_read_record_spec : forall fuel st d m,
    repb st d m -> m + length d + 2 < fuel ->
    exists st' m',
      d_sam_read_record rd cap fuel st
        = (fst (fst (fst (w_sam_read_record d))), snd (fst (fst (w_sam_read_record d))),
           snd (fst (w_sam_read_record d)), st')
      /\ repb st' (snd (w_sam_read_record d)) m' /\ m' <= m
      /\ length (snd (w_sam_read_record d)) <= length d.
  Proof.
    intros fuel st d m HR Hf. unfold d_sam_read_record, w_sam_read_record.
    pose proof (d_read_required_spec rd Rep Hsim cap Hcap 10 fuel st d m [] [] 0 HR Hf) as H1.
    destruct (w_read_required 10 d [] [] 0) as [[[[ok src1] dst1] ends] len].
    destruct H1 as [st1 [m1 [E1 [HR1 [Hm1 Hl1]]]]]. rewrite E1.
    destruct ok; cbn [negb].
    2:{ exists st1, m1. cbn [fst snd]. split; [reflexivity|]. split; [exact HR1|]. split; lia. }
    destruct (d_read_field_spec rd Rep Hsim cap Hcap fuel st1 src1 m1 dst1 HR1 ltac:(lia))
      as [st2 [m2 [E2 [HR2 [Hm2 Hl2]]]]].
    rewrite E2. destruct (w_read_field src1 dst1) as [[[dst2 n2] eol] src2]. cbn [fst snd] in *.
    destruct eol.
    - exists st2, m2. cbn [fst snd]. split; [reflexivity|]. split; [exact HR2|]. split; lia.
    - destruct (read_until_spec rd Rep Hsim cap Hcap LF fuel st2 src2 m2 HR2 ltac:(lia))
        as [st3 [m3 [E3 [HR3 Hm3]]]].
      rewrite E3. exists st3, m3. cbn [fst snd].
      split; [reflexivity|]. split; [exact HR3|]. split; [lia|].
      rewrite skipn_length. lia.
  Qed.

  (* ---- VCF *)
  Lemma d_vcf_field_done : forall fx fuel st d m dst pend err c len, repb st d m -> m < fuel ->
    exists st' m', d_vcf_field_loop rd cap fx fuel st dst pend err (Some c) len
                   = (TOk, dst, pend, err, Some c, len, st')
                   /\ repb st' d m' /\ m' <= m.
  Proof.
    intros fx. induction fuel as [|fuel IH]; intros st d m dst pend err c len HR Hf; [lia|].
    cbn [d_vcf_field_loop].
    pose proof (br_fill_buf_spec rd Rep Hsim cap Hcap st d m HR) as Hfb.
    destruct (br_fill_buf rd cap st) as [[src|] st1].
    - destruct Hfb as [_ [_ [_ [m1 [Hm1 HR1]]]]].
      exists st1, m1. split; [reflexivity|]. split; [exact HR1|exact Hm1].
    - destruct Hfb as [m1 [Hm1 HR1]].
      destruct (IH st1 d m1 dst pend err c len HR1 ltac:(lia)) as [st' [m' [E [HR' Hm']]]].
      exists st', m'. split; [exact E|]. split; [exact HR'|lia].
  Qed.

  (* the pinned loop on ASCII data: nothing is ever pending, no validation fails *)
  Lemma d_vcf_field_loop_ascii : forall fuel st d m dst len,
    repb st d m -> m + length d + 2 < fuel -> ascii d = true ->
    exists st' m',
      d_vcf_field_loop rd cap false fuel st dst [] false None len
        = (TOk, dst ++ fst (fst (BedRec.scan_field d)), [], false, snd (fst (BedRec.scan_field d)),
           len + fld_n (fst (fst (BedRec.scan_field d))) (snd (fst (BedRec.scan_field d))), st')
      /\ repb st' (snd (BedRec.scan_field d)) m' /\ m' <= m.
  Proof.
    induction fuel as [|fuel IH]; intros st d m dst len HR Hf Ha; [lia|].
    cbn [d_vcf_field_loop].
    pose proof (br_fill_buf_spec rd Rep Hsim cap Hcap st d m HR) as Hfb.
    destruct (br_fill_buf rd cap st) as [[src|] st1].
    2:{ destruct Hfb as [m1 [Hm1 HR1]].
        destruct (IH st1 d m1 dst len HR1 ltac:(lia) Ha) as [st' [m' [E [HR' Hm']]]].
        exists st', m'. split; [exact E|]. split; [exact HR'|lia]. }
    destruct Hfb as [Hp [Hn [Hfst [m1 [Hm1 HR1]]]]].
    destruct src as [|x w'].
    - assert (d = []) by (destruct d; [reflexivity|exfalso; apply Hn; [discriminate|reflexivity]]).
      subst d. exists st1, m1. cbn [BedRec.scan_field fst snd fld_n length]. rewrite app_nil_r, Nat.add_0_r.
      split; [reflexivity|]. split; [exact HR1|exact Hm1].
    - set (src := x :: w') in *.
      pose proof (wsplit src d Hp) as Hd.
      set (rest := skipn (length src) d) in *.
      assert (Hlr : length d = length src + length rest) by (rewrite Hd at 1; apply app_length).
      assert (Hasrc : ascii src = true /\ ascii rest = true).
      { rewrite Hd in Ha. rewrite ascii_app in Ha. apply andb_true_iff in Ha. exact Ha. }
      destruct Hasrc as [Hasrc Harest].
      destruct (BedRec.scan_field src) as [[f dl] rw] eqn:Esc.
      unfold src at 1. fold src. cbv zeta.
      destruct dl as [b|].
      + destruct (bscan_some src f b rw Esc) as [Hw Hall].
        assert (Hsc : BedRec.scan_field d = (f, Some b, rw ++ rest)) by (rewrite Hd at 1; apply Hall).
        rewrite Hsc. cbn [fst snd fld_n].
        assert (Haf : Fastq.utf8_valid f = true).
        { apply utf8_valid_ascii. rewrite Hw in Hasrc. rewrite ascii_app in Hasrc.
          apply andb_true_iff in Hasrc. tauto. }
        rewrite Haf.
        pose proof (f_equal (@length N) Hw) as Hx. rewrite app_length in Hx. cbn [length] in Hx.
        assert (HR2 : repb (br_consume (Datatypes.S (length f)) st1) (rw ++ rest) m1).
        { replace (rw ++ rest) with (skipn (Datatypes.S (length f)) d).
          { apply (consume_k Rep st1 src); auto. lia. }
          assert (Hdd : d = f ++ [b] ++ (rw ++ rest)).
          { rewrite Hd. rewrite Hw. rewrite <- !app_assoc. reflexivity. }
          rewrite Hdd at 1.
          replace (Datatypes.S (length f)) with (length f + 1) by lia.
          rewrite <- skipn_skipn_add. rewrite skipn_app_le by lia.
          rewrite skipn_all. reflexivity. }
        destruct (d_vcf_field_done false fuel _ _ m1 (dst ++ f) [] false b (len + Datatypes.S (length f))
                    HR2 ltac:(lia)) as [st' [m' [E [HR' Hm']]]].
        exists st', m'. rewrite E. split; [reflexivity|]. split; [exact HR'|lia].
      + destruct (bscan_none src f rw Esc) as [Hn' [Hrw Hall]]. subst f rw.
        rewrite (utf8_valid_ascii src Hasrc).
        assert (HR2 : repb (br_consume (length src) st1) rest m1)
          by (apply (consume_k Rep st1 src); auto).
        destruct (IH _ rest m1 (dst ++ src) (len + length src) HR2) as [st' [m' [E [HR' Hm']]]].
        { unfold src in *. cbn [length] in *. lia. }
        { exact Harest. }
        assert (Hsc : BedRec.scan_field d = (src ++ fst (fst (BedRec.scan_field rest)),
                  snd (fst (BedRec.scan_field rest)), snd (BedRec.scan_field rest)))
          by (rewrite Hd at 1; apply Hall).
        exists st', m'. rewrite E. rewrite Hsc. cbn [fst snd].
        rewrite <- app_assoc. split; [|split; [exact HR'|lia]].
        unfold fld_n. destruct (snd (fst (BedRec.scan_field rest)));
          rewrite app_length; repeat (f_equal; try lia).
  Qed.

  (* the repaired loop on ANY data: what the end of read_field makes of the final state is the
     validation of the whole field *)
  Lemma d_vcf_field_loop_fx : forall fuel st d m dst pend len,
    repb st d m -> m + length d + 2 < fuel ->
    exists st' m' dst' pend' err',
      d_vcf_field_loop rd cap true fuel st dst pend false None len
        = (TOk, dst', pend', err', snd (fst (BedRec.scan_field d)),
           len + fld_n (fst (fst (BedRec.scan_field d))) (snd (fst (BedRec.scan_field d))), st')
      /\ vfin dst' pend' err'
         = (if Fastq.utf8_valid (pend ++ fst (fst (BedRec.scan_field d)))
            then Some (dst ++ pend ++ fst (fst (BedRec.scan_field d))) else None)
      /\ repb st' (snd (BedRec.scan_field d)) m' /\ m' <= m.
  Proof.
    induction fuel as [|fuel IH]; intros st d m dst pend len HR Hf; [lia|].
    cbn [d_vcf_field_loop].
    pose proof (br_fill_buf_spec rd Rep Hsim cap Hcap st d m HR) as Hfb.
    destruct (br_fill_buf rd cap st) as [[src|] st1].
    2:{ destruct Hfb as [m1 [Hm1 HR1]].
        destruct (IH st1 d m1 dst pend len HR1 ltac:(lia)) as [st' [m' [d' [p' [e' [E [Hv [HR' Hm']]]]]]]].
        exists st', m', d', p', e'. split; [exact E|]. split; [exact Hv|]. split; [exact HR'|lia]. }
    destruct Hfb as [Hp [Hn [Hfst [m1 [Hm1 HR1]]]]].
    destruct src as [|x w'].
    - assert (d = []) by (destruct d; [reflexivity|exfalso; apply Hn; [discriminate|reflexivity]]).
      subst d. exists st1, m1, dst, pend, false.
      cbn [BedRec.scan_field fst snd fld_n length]. rewrite !app_nil_r, Nat.add_0_r.
      split; [reflexivity|]. split; [reflexivity|]. split; [exact HR1|exact Hm1].
    - set (src := x :: w') in *.
      pose proof (wsplit src d Hp) as Hd.
      set (rest := skipn (length src) d) in *.
      assert (Hlr : length d = length src + length rest) by (rewrite Hd at 1; apply app_length).
      destruct (BedRec.scan_field src) as [[f dl] rw] eqn:Esc.
      unfold src at 1. fold src. cbv zeta.
      destruct dl as [b|].
      + destruct (bscan_some src f b rw Esc) as [Hw Hall].
        assert (Hsc : BedRec.scan_field d = (f, Some b, rw ++ rest)) by (rewrite Hd at 1; apply Hall).
        rewrite Hsc. cbn [fst snd fld_n].
        pose proof (f_equal (@length N) Hw) as Hx. rewrite app_length in Hx. cbn [length] in Hx.
        assert (HR2 : repb (br_consume (Datatypes.S (length f)) st1) (rw ++ rest) m1).
        { replace (rw ++ rest) with (skipn (Datatypes.S (length f)) d).
          { apply (consume_k Rep st1 src); auto. lia. }
          assert (Hdd : d = f ++ [b] ++ (rw ++ rest)).
          { rewrite Hd. rewrite Hw. rewrite <- !app_assoc. reflexivity. }
          rewrite Hdd at 1.
          replace (Datatypes.S (length f)) with (length f + 1) by lia.
          rewrite <- skipn_skipn_add. rewrite skipn_app_le by lia.
          rewrite skipn_all. reflexivity. }
        destruct pend as [|p0 pt].
        * destruct (Fastq.utf8_valid f) eqn:Hv.
          -- destruct (d_vcf_field_done true fuel _ _ m1 (dst ++ f) [] false b
                         (len + Datatypes.S (length f)) HR2 ltac:(lia)) as [st' [m' [E [HR' Hm']]]].
             exists st', m', (dst ++ f), [], false. rewrite E. cbn [app]. rewrite Hv.
             split; [reflexivity|]. split; [unfold vfin; cbn [Fastq.utf8_valid]; rewrite app_nil_r; reflexivity|].
             split; [exact HR'|lia].
          -- destruct (d_vcf_field_done true fuel _ _ m1 dst [] true b
                         (len + Datatypes.S (length f)) HR2 ltac:(lia)) as [st' [m' [E [HR' Hm']]]].
             exists st', m', dst, [], true. rewrite E. cbn [app]. rewrite Hv.
             split; [reflexivity|]. split; [reflexivity|]. split; [exact HR'|lia].
        * destruct (d_vcf_field_done true fuel _ _ m1 dst ((p0 :: pt) ++ f) false b
                      (len + Datatypes.S (length f)) HR2 ltac:(lia)) as [st' [m' [E [HR' Hm']]]].
          exists st', m', dst, ((p0 :: pt) ++ f), false. rewrite E.
          split; [reflexivity|]. split; [reflexivity|]. split; [exact HR'|lia].
      + destruct (bscan_none src f rw Esc) as [Hn' [Hrw Hall]]. subst f rw.
        assert (HR2 : repb (br_consume (length src) st1) rest m1)
          by (apply (consume_k Rep st1 src); auto).
        destruct (IH _ rest m1 dst (pend ++ src) (len + length src) HR2)
          as [st' [m' [d' [p' [e' [E [Hv [HR' Hm']]]]]]]].
        { unfold src in *. cbn [length] in *. lia. }
        assert (Hsc : BedRec.scan_field d = (src ++ fst (fst (BedRec.scan_field rest)),
                  snd (fst (BedRec.scan_field rest)), snd (BedRec.scan_field rest)))
          by (rewrite Hd at 1; apply Hall).
        exists st', m', d', p', e'. rewrite E. rewrite Hsc. cbn [fst snd].
        split; [|split; [|split; [exact HR'|lia]]].
        * unfold fld_n. destruct (snd (fst (BedRec.scan_field rest)));
            rewrite app_length; repeat (f_equal; try lia).
        * rewrite Hv. rewrite <- !app_assoc. reflexivity.
  Qed.

  Lemma scan_rest_ascii : forall d, ascii d = true -> ascii (snd (BedRec.scan_field d)) = true.
  Proof.
    induction d as [|b t IH]; intros H; [reflexivity|].
    cbn [ascii forallb] in H. apply andb_true_iff in H. destruct H as [Hb Ht].
    cbn [BedRec.scan_field]. destruct ((b =? 9)%N || (b =? 10)%N); [exact Ht|].
    specialize (IH Ht). destruct (BedRec.scan_field t) as [[f d'] r]. exact IH.
  Qed.

  Lemma scan_field_ascii : forall d, ascii d = true -> ascii (fst (fst (BedRec.scan_field d))) = true.
  Proof.
    induction d as [|b t IH]; intros H; [reflexivity|].
    cbn [ascii forallb] in H. apply andb_true_iff in H. destruct H as [Hb Ht].
    cbn [BedRec.scan_field]. destruct ((b =? 9)%N || (b =? 10)%N); [reflexivity|].
    specialize (IH Ht). destruct (BedRec.scan_field t) as [[f d'] r]. cbn [fst] in *.
    cbn [ascii forallb]. rewrite Hb. exact IH.
  Qed.

  (* read_field, either tree: valid field -> the closed form; invalid field -> InvalidData after
     the field has been consumed.  Premise: the repaired tree, or ASCII data. *)
  Lemma d_vcf_read_field_fx_spec : forall fx fuel st d m dst,
    repb st d m -> m + length d + 2 < fuel -> (fx = true \/ ascii d = true) ->
    exists st' m',
      d_vcf_read_field_fx rd cap fx fuel st dst
        = (if field_valid d
           then (TOk, fst (fst (fst (w_vcf_read_field d dst))), snd (fst (fst (w_vcf_read_field d dst))),
                 snd (fst (w_vcf_read_field d dst)), st')
           else (TInvalid, [], snd (fst (fst (w_vcf_read_field d dst))), false, st'))
      /\ repb st' (snd (w_vcf_read_field d dst)) m' /\ m' <= m
      /\ length (snd (w_vcf_read_field d dst)) <= length d
      /\ (ascii d = true -> ascii (snd (w_vcf_read_field d dst)) = true).
  Proof.
    intros fx fuel st d m dst HR Hf Hsw. unfold d_vcf_read_field_fx, w_vcf_read_field, field_valid.
    assert (Hloop : exists st' m' dst' pend' err',
              d_vcf_field_loop rd cap fx fuel st dst [] false None 0
              = (TOk, dst', pend', err', snd (fst (BedRec.scan_field d)),
                 0 + fld_n (fst (fst (BedRec.scan_field d))) (snd (fst (BedRec.scan_field d))), st')
              /\ vfin dst' pend' err'
                 = (if Fastq.utf8_valid (fst (fst (BedRec.scan_field d)))
                    then Some (dst ++ fst (fst (BedRec.scan_field d))) else None)
              /\ repb st' (snd (BedRec.scan_field d)) m' /\ m' <= m).
    { destruct fx.
      - destruct (d_vcf_field_loop_fx fuel st d m dst [] 0 HR Hf)
          as [st' [m' [d' [p' [e' [E [Hv [HR' Hm']]]]]]]].
        exists st', m', d', p', e'. cbn [app] in Hv. auto.
      - destruct Hsw as [Hsw|Ha]; [discriminate|].
        destruct (d_vcf_field_loop_ascii fuel st d m dst 0 HR Hf Ha) as [st' [m' [E [HR' Hm']]]].
        exists st', m', (dst ++ fst (fst (BedRec.scan_field d))), [], false.
        split; [exact E|]. split; [|auto].
        rewrite (utf8_valid_ascii _ (scan_field_ascii d Ha)). unfold vfin. cbn [Fastq.utf8_valid].
        rewrite app_nil_r. reflexivity. }
    destruct Hloop as [st' [m' [dst' [pend' [err' [E [Hv [HR' Hm']]]]]]]].
    rewrite E, Hv. pose proof (scan_rest_ascii d) as Har.
    destruct (BedRec.scan_field d) as [[f dl] r] eqn:Esc. cbn [fst snd] in *.
    pose proof (bscan_len _ _ _ _ Esc) as Hl.
    exists st', m'.
    destruct (Fastq.utf8_valid f); destruct dl as [c|]; cbn [fst snd fld_n Nat.add].
    - split; [reflexivity|]. split; [exact HR'|]. split; [exact Hm'|]. split; [lia|exact Har].
    - destruct Hl as [Hr Hlen]. subst r. split; [reflexivity|]. split; [exact HR'|].
      split; [exact Hm'|]. split; [cbn [length]; lia|reflexivity].
    - split; [reflexivity|]. split; [exact HR'|]. split; [exact Hm'|]. split; [lia|exact Har].
    - destruct Hl as [Hr Hlen]. subst r. split; [reflexivity|]. split; [exact HR'|].
      split; [exact Hm'|]. split; [cbn [length]; lia|reflexivity].
  Qed.

  Lemma d_vcf_read_required_fx_spec : forall fx k fuel st d m dst ends len,
    repb st d m -> m + length d + 2 < fuel -> (fx = true \/ ascii d = true) ->
    match wx_vcf_read_required k d dst ends len with
    | (valid, ok, src1, dst1, ends1, len1) =>
        exists st' m',
          d_vcf_read_required_fx rd cap fx k fuel st dst ends len
            = (if valid then TOk else TInvalid, ok, dst1, ends1, len1, st')
          /\ repb st' src1 m' /\ m' <= m /\ length src1 <= length d
          /\ (ascii d = true -> ascii src1 = true)
    end.
  Proof.
    intros fx. induction k as [|k IH]; intros fuel st d m dst ends len HR Hf Hsw.
    - cbn [wx_vcf_read_required d_vcf_read_required_fx]. exists st, m. auto.
    - cbn [wx_vcf_read_required d_vcf_read_required_fx].
      destruct (d_vcf_read_field_fx_spec fx fuel st d m dst HR Hf Hsw)
        as [st1 [m1 [E1 [HR1 [Hm1 [Hl1 Ha1]]]]]].
      rewrite E1. destruct (w_vcf_read_field d dst) as [[[dst1 n1] eol] src1]. cbn [fst snd] in *.
      destruct (field_valid d); cbn [negb].
      2:{ exists st1, m1. split; [reflexivity|]. split; [exact HR1|]. split; [lia|]. split; [lia|exact Ha1]. }
      destruct eol.
      + exists st1, m1. split; [reflexivity|]. split; [exact HR1|]. split; [lia|]. split; [lia|exact Ha1].
      + assert (Hsw1 : fx = true \/ ascii src1 = true) by (destruct Hsw; [left; assumption|right; auto]).
        pose proof (IH fuel st1 src1 m1 dst1 (ends ++ [length dst1]) (len + n1) HR1 ltac:(lia) Hsw1) as HI.
        destruct (wx_vcf_read_required k src1 dst1 (ends ++ [length dst1]) (len + n1))
          as [[[[[valid ok] src2] dst2] ends2] len2].
        destruct HI as [st' [m' [E [HR' [Hm' [Hl' Ha']]]]]].
        exists st', m'. split; [exact E|]. split; [exact HR'|]. split; [lia|]. split; [lia|auto].
  Qed.

  (* read_record, either tree (fx = the switch): the closed form with whole-field validation *)
  Theorem d_vcf_read_record_fx_spec : forall fx fuel st d m,
    repb st d m -> m + length d + 2 < fuel -> (fx = true \/ ascii d = true) ->
    exists st' m',
      d_vcf_read_record_fx rd cap fx fuel st
        = (fst (fst (fst (wx_vcf_read_record d))), snd (fst (fst (wx_vcf_read_record d))),
           snd (fst (wx_vcf_read_record d)), st')
      /\ repb st' (snd (wx_vcf_read_record d)) m' /\ m' <= m
      /\ length (snd (wx_vcf_read_record d)) <= length d.
  Proof.
    intros fx fuel st d m HR Hf Hsw. unfold d_vcf_read_record_fx, wx_vcf_read_record.
    pose proof (d_vcf_read_required_fx_spec fx 7 fuel st d m [] [] 0 HR Hf Hsw) as H1.
    destruct (wx_vcf_read_required 7 d [] [] 0) as [[[[[valid ok] src1] dst1] ends] len].
    destruct H1 as [st1 [m1 [E1 [HR1 [Hm1 [Hl1 Ha1]]]]]]. rewrite E1.
    destruct valid; cbn [negb].
    2:{ exists st1, m1. cbn [fst snd]. split; [reflexivity|]. split; [exact HR1|]. split; lia. }
    destruct ok; cbn [negb].
    2:{ exists st1, m1. cbn [fst snd]. split; [reflexivity|]. split; [exact HR1|]. split; lia. }
    assert (Hsw1 : fx = true \/ ascii src1 = true) by (destruct Hsw; [left; assumption|right; auto]).
    destruct (d_vcf_read_field_fx_spec fx fuel st1 src1 m1 dst1 HR1 ltac:(lia) Hsw1)
      as [st2 [m2 [E2 [HR2 [Hm2 [Hl2 Ha2]]]]]].
    rewrite E2. destruct (w_vcf_read_field src1 dst1) as [[[dst2 n2] eol] src2]. cbn [fst snd] in *.
    destruct (field_valid src1); cbn [negb].
    2:{ exists st2, m2. cbn [fst snd]. split; [reflexivity|]. split; [exact HR2|]. split; lia. }
    destruct eol.
    - exists st2, m2. cbn [fst snd]. split; [reflexivity|]. split; [exact HR2|]. split; lia.
    - destruct (read_until_spec rd Rep Hsim cap Hcap LF fuel st2 src2 m2 HR2 ltac:(lia))
        as [st3 [m3 [E3 [HR3 Hm3]]]].
      rewrite E3. exists st3, m3. unfold w_tab_tail.
      destruct (Fastq.utf8_valid (take_line LF src2)); cbn [fst snd];
        (split; [reflexivity|]; split; [exact HR3|]; split; [lia|]; rewrite skipn_length; lia).
  Qed.

  (* on ASCII input the validating closed form is the plain one *)
  Lemma wx_required_ascii : forall k d dst ends len, ascii d = true ->
    wx_vcf_read_required k d dst ends len
    = (true, fst (fst (fst (fst (w_vcf_read_required k d dst ends len)))),
       snd (fst (fst (fst (w_vcf_read_required k d dst ends len)))),
       snd (fst (fst (w_vcf_read_required k d dst ends len))),
       snd (fst (w_vcf_read_required k d dst ends len)), snd (w_vcf_read_required k d dst ends len))
    /\ ascii (snd (fst (fst (fst (w_vcf_read_required k d dst ends len))))) = true.
  Proof.
    induction k as [|k IH]; intros d dst ends len Ha.
    - cbn [wx_vcf_read_required w_vcf_read_required fst snd]. auto.
    - cbn [wx_vcf_read_required w_vcf_read_required].
      assert (Hv : field_valid d = true) by (apply utf8_valid_ascii, scan_field_ascii, Ha).
      rewrite Hv. cbn [negb].
      assert (Har : ascii (snd (w_vcf_read_field d dst)) = true).
      { unfold w_vcf_read_field. pose proof (scan_rest_ascii d Ha) as Hr.
        destruct (BedRec.scan_field d) as [[f dl] r]. destruct dl; exact Hr. }
      destruct (w_vcf_read_field d dst) as [[[dst1 n1] eol] src1]. cbn [fst snd] in *.
      destruct eol; [cbn [fst snd]; auto|].
      apply IH. exact Har.
  Qed.

  Lemma wx_ascii : forall d, ascii d = true -> wx_vcf_read_record d = w_vcf_read_record d.
  Proof.
    intros d Ha. unfold wx_vcf_read_record, w_vcf_read_record.
    destruct (wx_required_ascii 7 d [] [] 0 Ha) as [E Har]. rewrite E.
    destruct (w_vcf_read_required 7 d [] [] 0) as [[[[ok src1] dst1] ends] len]. cbn [fst snd negb] in *.
    destruct ok; cbn [negb]; [|reflexivity].
    assert (Hv : field_valid src1 = true) by (apply utf8_valid_ascii, scan_field_ascii, Har).
    assert (Har2 : ascii (snd (w_vcf_read_field src1 dst1)) = true).
    { unfold w_vcf_read_field. pose proof (scan_rest_ascii src1 Har) as Hr.
      destruct (BedRec.scan_field src1) as [[f dl] r]. destruct dl; exact Hr. }
    destruct (w_vcf_read_field src1 dst1) as [[[dst2 n2] eol] src2]. cbn [fst snd] in *.
    rewrite Hv. cbn [negb]. destruct eol; [reflexivity|].
    rewrite (utf8_valid_ascii _ (ascii_take_line src2 Har2)). reflexivity.
  Qed.

  (* the reader of the tree on ASCII input (statement kept from the first version; C16 imports it) *)
  Theorem d_vcf_read_record_ascii_spec : forall fuel st d m,
    repb st d m -> m + length d + 2 < fuel -> ascii d = true ->
    exists st' m',
      d_vcf_read_record rd cap fuel st
        = (fst (fst (fst (w_vcf_read_record d))), snd (fst (fst (w_vcf_read_record d))),
           snd (fst (w_vcf_read_record d)), st')
      /\ repb st' (snd (w_vcf_read_record d)) m' /\ m' <= m
      /\ length (snd (w_vcf_read_record d)) <= length d.
  Proof.
    intros fuel st d m HR Hf Ha. unfold d_vcf_read_record.
    rewrite <- (wx_ascii d Ha).
    exact (d_vcf_read_record_fx_spec vcf_utf8_repaired fuel st d m HR Hf (or_intror Ha)).
  Qed.

  (* the reader of the tree, through the switch: unconditional once the switch is true *)
  Theorem d_vcf_read_record_spec : forall fuel st d m,
    repb st d m -> m + length d + 2 < fuel -> (vcf_utf8_repaired = true \/ ascii d = true) ->
    exists st' m',
      d_vcf_read_record rd cap fuel st
        = (fst (fst (fst (wx_vcf_read_record d))), snd (fst (fst (wx_vcf_read_record d))),
           snd (fst (wx_vcf_read_record d)), st')
      /\ repb st' (snd (wx_vcf_read_record d)) m' /\ m' <= m
      /\ length (snd (wx_vcf_read_record d)) <= length d.
  Proof.
    intros fuel st d m HR Hf Hsw. unfold d_vcf_read_record.
    exact (d_vcf_read_record_fx_spec vcf_utf8_repaired fuel st d m HR Hf Hsw).
  Qed.
End TabProofs.
