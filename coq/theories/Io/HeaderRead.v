(* C12 — the SAM and VCF header readers over a delivered source (BufReader model):
   noodles-sam/src/io/reader/header.rs and noodles-vcf/src/io/reader/header.rs (the same adapter
   with prefix '@' resp. '#'), as driven by read_header's `while read_line(..)? != 0` loop.

     header::Reader { inner, is_eol = true }
       fill_buf: src = inner.fill_buf()?                    // Interrupted is passed up, state unchanged
                 if is_eol && src.first().map(|b| b != PREFIX).unwrap_or(true) { [] }      // the peek
                 else if let Some(i) = memchr(LF, src) { is_eol = true; src[..=i] }
                 else { is_eol = false; src }
       consume(amt) = inner.consume(amt)
     read_line = BufRead::read_until(LF) over that adapter (Interrupted retried there), then LF / CRLF
     stripped; read_header stops at the first read_line that returns 0.

   The header text therefore ends at the first LINE that does not start with the prefix, wherever
   the windows end; the closed form on the data is [hdr_closed]. *)
From Coq Require Import List NArith Arith Bool.
From NV Require Import Io.Source Io.BufReader.
Import ListNotations.

Section HeaderReader.
  Context {S : Type}.
  Variable rd : reader S.
  Variable cap : nat.
  Variable prefix : N.

  (* (result, is_eol afterwards, inner state) *)
  Definition h_fill_buf (is_eol : bool) (st : bstate S) : rres * bool * bstate S :=
    match br_fill_buf rd cap st with
    | (RInt, st1) => (RInt, is_eol, st1)
    | (ROk src, st1) =>
      if is_eol && match src with x :: _ => negb (N.eqb x prefix) | [] => true end
      then (ROk [], is_eol, st1)
      else if has_byte LF src then (ROk (take_line LF src), true, st1)
      else (ROk src, false, st1)
    end.

  (* BufRead::read_until(LF) over the adapter *)
  Fixpoint h_read_until_loop (fuel : nat) (is_eol : bool) (st : bstate S) (acc : list N)
    : list N * ures * bool * bstate S :=
    match fuel with
    | 0 => (acc, UNoFuel, is_eol, st)
    | Datatypes.S fuel' =>
      match h_fill_buf is_eol st with
      | (RInt, e, st1) => h_read_until_loop fuel' e st1 acc
      | (ROk w, e, st1) =>
        if has_byte LF w then
          let pre := take_line LF w in
          (acc ++ pre, UOk, e, br_consume (length pre) st1)
        else
          match w with
          | [] => (acc, UOk, e, st1)
          | _ => h_read_until_loop fuel' e (br_consume (length w) st1) (acc ++ w)
          end
      end
    end.

  (* read_line over the adapter: (bytes consumed, stripped line, status, is_eol, state) *)
  Definition h_read_line (fuel : nat) (is_eol : bool) (st : bstate S)
    : nat * list N * ures * bool * bstate S :=
    match h_read_until_loop fuel is_eol st [] with
    | (l, r, e, st') => (length l, strip_eol l, r, e, st')
    end.

  (* read_header's loop: the lines handed to the header parser, until read_line returns 0;
     k bounds the number of lines *)
  Fixpoint h_read_lines (k fuel : nat) (is_eol : bool) (st : bstate S)
    : list (list N) * ures * bool * bstate S :=
    match k with
    | 0 => ([], UNoFuel, is_eol, st)
    | Datatypes.S k' =>
      match h_read_line fuel is_eol st with
      | (_, _, UNoFuel, e, st1) => ([], UNoFuel, e, st1)
      | (0, _, UOk, e, st1) => ([], UOk, e, st1)
      | (_, l, UOk, e, st1) =>
        let '(ls, r, e2, st2) := h_read_lines k' fuel e st1 in (l :: ls, r, e2, st2)
      end
    end.

  (* the same loop at the BufRead interface (header_reader() driven by read_until): raw lines *)
  Fixpoint h_raw_lines (k fuel : nat) (is_eol : bool) (st : bstate S)
    : list (list N) * ures * bool * bstate S :=
    match k with
    | 0 => ([], UNoFuel, is_eol, st)
    | Datatypes.S k' =>
      match h_read_until_loop fuel is_eol st [] with
      | (_, UNoFuel, e, st1) => ([], UNoFuel, e, st1)
      | ([], UOk, e, st1) => ([], UOk, e, st1)
      | (l, UOk, e, st1) =>
        let '(ls, r, e2, st2) := h_raw_lines k' fuel e st1 in (l :: ls, r, e2, st2)
      end
    end.
End HeaderReader.

(* closed form: the raw header lines (terminators kept) and the rest of the data *)
Fixpoint hdr_closed (k : nat) (prefix : N) (d : list N) : list (list N) * list N :=
  match k with
  | 0 => ([], d)
  | Datatypes.S k' =>
    match d with
    | [] => ([], [])
    | x :: _ =>
      if N.eqb x prefix then
        let l := take_line LF d in
        let '(ls, r) := hdr_closed k' prefix (skipn (length l) d) in (l :: ls, r)
      else ([], d)
    end
  end.
