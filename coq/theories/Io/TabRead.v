(* C12 — the lazy SAM and VCF record readers over a delivered source (BufReader model):
   noodles-sam/src/io/reader/record.rs and noodles-vcf/src/io/reader/record.rs.  Both are field
   scanners over fill_buf windows: k required TAB-terminated fields (SAM 10, VCF 7), one last
   required field that may end the line, and then — when it did not — the rest of the line with
   read_line, appended to the same buffer.

   SAM's read_field is, statement for statement, the one of noodles-bed (BedRead.d_read_field,
   including the `dst.len() > start` CR rule of /repo 3506cd5), so the SAM reader is built from the
   BED functions.  VCF's read_field differs in one way: each window slice is validated on its
   own:  str::from_utf8(buf)? ; dst.push_str(s)
       (before the slice is consumed) — a multi-byte character split across two windows is an
       InvalidData error (known class vcf-record-field-utf8-split-capacity-dependent);
   (the CR rule is the same `dst.len() > start` test since /repo fb10cd9).
   Its final read_line is std's BufRead::read_line into the String (the appended bytes are
   validated as a whole); like SAM's read_line it pops a CR only when it was read by that call
   (/repo 3506cd5, fb10cd9). *)
From Coq Require Import List NArith Arith Bool.
From NV Require Import Io.Source Io.BufReader Io.FastaScan Io.BedRead.
From NV Require Text.TextBase Text.BedRec Fasta.Fastq.
Import ListNotations.

Inductive tres := TOk | TInvalid | TNoFuel.

(* ---- whole-buffer closed forms *)
(* (io result, buf, field ends, rest) *)
(* read_line appending to a buffer that already holds the fixed fields: LF popped, then a CR only
   if this call appended it (sam: /repo 3506cd5, vcf: fb10cd9) *)
Definition w_tab_tail (dst2 : list N) (d : list N) : list N := dst2 ++ strip_eol (take_line LF d).

Definition w_sam_read_record (d : list N) : TextBase.res nat * list N * list nat * list N :=
  let '(ok, src1, dst1, ends, len) := w_read_required 10 d [] [] 0 in
  if negb ok then (TextBase.Err TextBase.InvalidData, dst1, ends, src1)
  else
    let '(dst2, n2, eol, src2) := w_read_field src1 dst1 in
    let ends2 := ends ++ [length dst2] in
    if eol then (TextBase.Ok (len + n2), dst2, ends2, src2)
    else (TextBase.Ok (len + n2 + length (take_line LF src2)), w_tab_tail dst2 src2, ends2,
          skipn (length (take_line LF src2)) src2).

(* VCF read_field on ASCII input (no validation failure possible): since /repo fb10cd9 the CR rule is
   the one of BED / SAM (`dst.len() > start`), so this is [w_read_field] *)
Definition w_vcf_read_field (src dst : list N) : list N * nat * bool * list N :=
  let '(f, d, r) := BedRec.scan_field src in
  match d with
  | Some c =>
      let eol := N.eqb c 10 in
      (if eol && (length dst <? length (dst ++ f)) then TextBase.strip_cr (dst ++ f) else dst ++ f,
       Datatypes.S (length f), eol, r)
  | None => (dst ++ f, length f, false, r)
  end.

Fixpoint w_vcf_read_required (k : nat) (src dst : list N) (ends : list nat) (len : nat)
  : bool * list N * list N * list nat * nat :=
  match k with
  | 0 => (true, src, dst, ends, len)
  | Datatypes.S k' =>
      let '(dst1, n1, eol, src1) := w_vcf_read_field src dst in
      if eol then (false, src1, dst1, ends, len)
      else w_vcf_read_required k' src1 dst1 (ends ++ [length dst1]) (len + n1)
  end.

Definition w_vcf_read_record (d : list N) : TextBase.res nat * list N * list nat * list N :=
  let '(ok, src1, dst1, ends, len) := w_vcf_read_required 7 d [] [] 0 in
  if negb ok then (TextBase.Err TextBase.InvalidData, dst1, ends, src1)
  else
    let '(dst2, n2, eol, src2) := w_vcf_read_field src1 dst1 in
    let ends2 := ends ++ [length dst2] in
    if eol then (TextBase.Ok (len + n2), dst2, ends2, src2)
    else (TextBase.Ok (len + n2 + length (take_line LF src2)), w_tab_tail dst2 src2, ends2,
          skipn (length (take_line LF src2)) src2).

(* ---- BEHAVIOUR SWITCH ---------------------------------------------------------------------
   [vcf_utf8_repaired] says which read_field the tree under /repo has:
     false : each fill_buf window slice is validated on its own, before it is consumed (pinned
             tree; known class vcf-record-field-utf8-split-capacity-dependent);
     true  : after /tmp/C12/fixes/05b: a field that is complete in one window is validated there,
             a field that spans several windows is collected and validated once; the bytes are
             consumed before the error is reported.
   It is the only line to change when 05b is committed. *)
Definition vcf_utf8_repaired : bool := true.

(* the closed form with the UTF-8 validation of the whole field / the whole rest of the line:
   an invalid field is an InvalidData error AFTER the field (and its delimiter) has been consumed.
   On input without multi-byte characters it is [w_vcf_read_record] (TabReadProofs.wx_ascii). *)
Definition field_valid (src : list N) : bool := Fastq.utf8_valid (fst (fst (BedRec.scan_field src))).

(* (all fields valid, ok, rest, dst, ends, len); after an invalid field: rest = what follows it *)
Fixpoint wx_vcf_read_required (k : nat) (src dst : list N) (ends : list nat) (len : nat)
  : bool * bool * list N * list N * list nat * nat :=
  match k with
  | 0 => (true, true, src, dst, ends, len)
  | Datatypes.S k' =>
      let '(dst1, n1, eol, src1) := w_vcf_read_field src dst in
      if negb (field_valid src) then (false, false, src1, [], [], len)
      else if eol then (true, false, src1, dst1, ends, len)
      else wx_vcf_read_required k' src1 dst1 (ends ++ [length dst1]) (len + n1)
  end.

Definition wx_vcf_read_record (d : list N) : TextBase.res nat * list N * list nat * list N :=
  let '(valid, ok, src1, dst1, ends, len) := wx_vcf_read_required 7 d [] [] 0 in
  if negb valid then (TextBase.Err TextBase.InvalidData, [], [], src1)
  else if negb ok then (TextBase.Err TextBase.InvalidData, dst1, ends, src1)
  else
    let '(dst2, n2, eol, src2) := w_vcf_read_field src1 dst1 in
    if negb (field_valid src1) then (TextBase.Err TextBase.InvalidData, [], [], src2)
    else
      let ends2 := ends ++ [length dst2] in
      if eol then (TextBase.Ok (len + n2), dst2, ends2, src2)
      else if Fastq.utf8_valid (take_line LF src2) then
        (TextBase.Ok (len + n2 + length (take_line LF src2)), w_tab_tail dst2 src2, ends2,
         skipn (length (take_line LF src2)) src2)
      else (TextBase.Err TextBase.InvalidData, [], [], skipn (length (take_line LF src2)) src2).

Definition ascii (d : list N) : bool := forallb (fun b => N.ltb b 128) d.

Section DeliveredTab.
  Context {S : Type}.
  Variable rd : reader S.
  Variable cap : nat.

  (* ---- SAM *)
  Definition d_sam_read_record (fuel : nat) (st : bstate S)
    : TextBase.res nat * list N * list nat * bstate S :=
    match d_read_required rd cap 10 fuel st [] [] 0 with
    | (None, st1) => (TextBase.Err TextBase.OutOfFuel, [], [], st1)
    | (Some (false, dst1, ends, _), st1) => (TextBase.Err TextBase.InvalidData, dst1, ends, st1)
    | (Some (true, dst1, ends, len), st1) =>
      match d_read_field rd cap fuel st1 dst1 with
      | (SNoFuel, _, _, _, st2) => (TextBase.Err TextBase.OutOfFuel, [], [], st2)
      | (SOk, dst2, n2, eol, st2) =>
        let ends2 := ends ++ [length dst2] in
        if eol then (TextBase.Ok (len + n2), dst2, ends2, st2)
        else
          match read_until rd cap LF fuel st2 with
          | (_, UNoFuel, st3) => (TextBase.Err TextBase.OutOfFuel, [], [], st3)
          | (raw, UOk, st3) =>
              (* sam read_line after /repo 3506cd5: LF popped, then a CR only if it was read here *)
              (TextBase.Ok (len + n2 + length raw), dst2 ++ strip_eol raw, ends2, st3)
          end
      end
    end.

  (* ---- VCF *)
  (* loop state: dst (validated text), pend (bytes of a field that spans windows, fx only),
     err (a complete-in-one-window field was invalid, fx only), mat, len *)
  Fixpoint d_vcf_field_loop (fx : bool) (fuel : nat) (st : bstate S) (dst pend : list N) (err : bool)
    (mat : option N) (len : nat)
    : tres * list N * list N * bool * option N * nat * bstate S :=
    match fuel with
    | 0 => (TNoFuel, dst, pend, err, mat, len, st)
    | Datatypes.S fuel' =>
      match br_fill_buf rd cap st with
      | (RInt, st1) => d_vcf_field_loop fx fuel' st1 dst pend err mat len
      | (ROk src, st1) =>
        match mat, src with
        | Some _, _ => (TOk, dst, pend, err, mat, len, st1)
        | None, [] => (TOk, dst, pend, err, mat, len, st1)
        | None, _ =>
          match BedRec.scan_field src with
          | (f, Some c, _) =>
              let st2 := br_consume (Datatypes.S (length f)) st1 in
              let len2 := len + Datatypes.S (length f) in
              if fx then
                match pend with
                | [] => if Fastq.utf8_valid f
                        then d_vcf_field_loop fx fuel' st2 (dst ++ f) [] err (Some c) len2
                        else d_vcf_field_loop fx fuel' st2 dst [] true (Some c) len2
                | _ => d_vcf_field_loop fx fuel' st2 dst (pend ++ f) err (Some c) len2
                end
              else if Fastq.utf8_valid f
                   then d_vcf_field_loop fx fuel' st2 (dst ++ f) pend err (Some c) len2
                   else (TInvalid, dst, pend, err, Some c, len, st1)
          | (_, None, _) =>
              let st2 := br_consume (length src) st1 in
              if fx then d_vcf_field_loop fx fuel' st2 dst (pend ++ src) err None (len + length src)
              else if Fastq.utf8_valid src
                   then d_vcf_field_loop fx fuel' st2 (dst ++ src) pend err None (len + length src)
                   else (TInvalid, dst, pend, err, None, len, st1)
          end
        end
      end
    end.

  (* what the end of read_field makes of the loop state: None = InvalidData *)
  Definition vfin (dst pend : list N) (err : bool) : option (list N) :=
    if err then None else if Fastq.utf8_valid pend then Some (dst ++ pend) else None.

  Definition d_vcf_read_field_fx (fx : bool) (fuel : nat) (st : bstate S) (dst : list N)
    : tres * list N * nat * bool * bstate S :=
    match d_vcf_field_loop fx fuel st dst [] false None 0 with
    | (TOk, dst1, pend, err, mat, len, st1) =>
      match vfin dst1 pend err with
      | None => (TInvalid, [], len, false, st1)
      | Some dst2 =>
        let eol := match mat with Some c => N.eqb c 10 | None => false end in
        (TOk, if eol && (length dst <? length dst2) then TextBase.strip_cr dst2 else dst2, len, eol, st1)
      end
    | (r, _, _, _, _, len, st1) => (r, [], len, false, st1)
    end.

  Fixpoint d_vcf_read_required_fx (fx : bool) (k fuel : nat) (st : bstate S) (dst : list N)
    (ends : list nat) (len : nat) : tres * bool * list N * list nat * nat * bstate S :=
    match k with
    | 0 => (TOk, true, dst, ends, len, st)
    | Datatypes.S k' =>
      match d_vcf_read_field_fx fx fuel st dst with
      | (TOk, dst1, n1, eol, st1) =>
        if eol then (TOk, false, dst1, ends, len, st1)
        else d_vcf_read_required_fx fx k' fuel st1 dst1 (ends ++ [length dst1]) (len + n1)
      | (r, _, _, _, st1) => (r, false, [], [], len, st1)
      end
    end.

  Definition d_vcf_read_record_fx (fx : bool) (fuel : nat) (st : bstate S)
    : TextBase.res nat * list N * list nat * bstate S :=
    match d_vcf_read_required_fx fx 7 fuel st [] [] 0 with
    | (TNoFuel, _, _, _, _, st1) => (TextBase.Err TextBase.OutOfFuel, [], [], st1)
    | (TInvalid, _, _, _, _, st1) => (TextBase.Err TextBase.InvalidData, [], [], st1)
    | (TOk, false, dst1, ends, _, st1) => (TextBase.Err TextBase.InvalidData, dst1, ends, st1)
    | (TOk, true, dst1, ends, len, st1) =>
      match d_vcf_read_field_fx fx fuel st1 dst1 with
      | (TNoFuel, _, _, _, st2) => (TextBase.Err TextBase.OutOfFuel, [], [], st2)
      | (TInvalid, _, _, _, st2) => (TextBase.Err TextBase.InvalidData, [], [], st2)
      | (TOk, dst2, n2, eol, st2) =>
        let ends2 := ends ++ [length dst2] in
        if eol then (TextBase.Ok (len + n2), dst2, ends2, st2)
        else
          match read_until rd cap LF fuel st2 with
          | (_, UNoFuel, st3) => (TextBase.Err TextBase.OutOfFuel, [], [], st3)
          | (raw, UOk, st3) =>
              if Fastq.utf8_valid raw then
                (TextBase.Ok (len + n2 + length raw), dst2 ++ strip_eol raw, ends2, st3)
              else (TextBase.Err TextBase.InvalidData, [], [], st3)
          end
      end
    end.

  (* the reader of the tree *)
  Definition d_vcf_read_record (fuel : nat) (st : bstate S)
    : TextBase.res nat * list N * list nat * bstate S :=
    d_vcf_read_record_fx vcf_utf8_repaired fuel st.
End DeliveredTab.
