(* C12 — the lazy SAM and VCF record readers over a delivered source (BufReader model):
   noodles-sam/src/io/reader/record.rs and noodles-vcf/src/io/reader/record.rs.  Both are field
   scanners over fill_buf windows: k required TAB-terminated fields (SAM 10, VCF 7), one last
   required field that may end the line, and then — when it did not — the rest of the line with
   read_line, appended to the same buffer.

   SAM's read_field is, statement for statement, the one of noodles-bed (BedRead.d_read_field,
   including the `dst.len() > start` CR rule of /repo 3506cd5), so the SAM reader is built from the
   BED functions.  VCF's read_field differs in two ways:
     * each window slice is validated on its own:  str::from_utf8(buf)? ; dst.push_str(s)
       (before the slice is consumed) — a multi-byte character split across two windows is an
       InvalidData error (known class vcf-record-field-utf8-split-capacity-dependent);
     * the CR rule has no `start` test: is_eol && dst.ends_with('\r') -> dst.pop().
   Its final read_line is std's BufRead::read_line into the String (the appended bytes are
   validated as a whole) and pops LF / CR off the whole buffer; SAM's read_line pops a CR only when
   it was read by that call (/repo 3506cd5). *)
From Coq Require Import List NArith Arith Bool.
From NV Require Import Io.Source Io.BufReader Io.FastaScan Io.BedRead.
From NV Require Text.TextBase Text.BedRec Fasta.Fastq.
Import ListNotations.

Inductive tres := TOk | TInvalid | TNoFuel.

(* ---- whole-buffer closed forms *)
(* (io result, buf, field ends, rest) *)
Definition w_tab_tail (dst2 : list N) (d : list N) : list N :=
  match take_line LF d with [] => dst2 | raw => strip_eol (dst2 ++ raw) end.

Definition w_sam_read_record (d : list N) : TextBase.res nat * list N * list nat * list N :=
  let '(ok, src1, dst1, ends, len) := w_read_required 10 d [] [] 0 in
  if negb ok then (TextBase.Err TextBase.InvalidData, dst1, ends, src1)
  else
    let '(dst2, n2, eol, src2) := w_read_field src1 dst1 in
    let ends2 := ends ++ [length dst2] in
    if eol then (TextBase.Ok (len + n2), dst2, ends2, src2)
    else (TextBase.Ok (len + n2 + length (take_line LF src2)), dst2 ++ strip_eol (take_line LF src2), ends2,
          skipn (length (take_line LF src2)) src2).

(* VCF read_field on ASCII input (no validation failure possible): the CR is popped off the whole
   buffer *)
Definition w_vcf_read_field (src dst : list N) : list N * nat * bool * list N :=
  let '(f, d, r) := BedRec.scan_field src in
  match d with
  | Some c =>
      let eol := N.eqb c 10 in
      (if eol then TextBase.strip_cr (dst ++ f) else dst ++ f, Datatypes.S (length f), eol, r)
  | None => (dst ++ f, length f, false, r)
  end.

Fixpoint w_vcf_read_required (k : nat) (src dst : list N) (ends : list nat) (len : nat)
  : bool * list N * list N * list nat * nat :=
  match k with
  | 0 => (true, src, dst, ends, len)
  | Datatypes.S k' =>
      let '(dst1, n1, eol, src1) := w_vcf_read_field src dst in
      if eol then (false, src1, dst1, ends, len)
      else w_vcf_read_required k' src1 dst1 (ends ++ [length dst1]) (len + n1)
  end.

Definition w_vcf_read_record (d : list N) : TextBase.res nat * list N * list nat * list N :=
  let '(ok, src1, dst1, ends, len) := w_vcf_read_required 7 d [] [] 0 in
  if negb ok then (TextBase.Err TextBase.InvalidData, dst1, ends, src1)
  else
    let '(dst2, n2, eol, src2) := w_vcf_read_field src1 dst1 in
    let ends2 := ends ++ [length dst2] in
    if eol then (TextBase.Ok (len + n2), dst2, ends2, src2)
    else (TextBase.Ok (len + n2 + length (take_line LF src2)), w_tab_tail dst2 src2, ends2,
          skipn (length (take_line LF src2)) src2).

Definition ascii (d : list N) : bool := forallb (fun b => N.ltb b 128) d.

Section DeliveredTab.
  Context {S : Type}.
  Variable rd : reader S.
  Variable cap : nat.

  (* ---- SAM *)
  Definition d_sam_read_record (fuel : nat) (st : bstate S)
    : TextBase.res nat * list N * list nat * bstate S :=
    match d_read_required rd cap 10 fuel st [] [] 0 with
    | (None, st1) => (TextBase.Err TextBase.OutOfFuel, [], [], st1)
    | (Some (false, dst1, ends, _), st1) => (TextBase.Err TextBase.InvalidData, dst1, ends, st1)
    | (Some (true, dst1, ends, len), st1) =>
      match d_read_field rd cap fuel st1 dst1 with
      | (SNoFuel, _, _, _, st2) => (TextBase.Err TextBase.OutOfFuel, [], [], st2)
      | (SOk, dst2, n2, eol, st2) =>
        let ends2 := ends ++ [length dst2] in
        if eol then (TextBase.Ok (len + n2), dst2, ends2, st2)
        else
          match read_until rd cap LF fuel st2 with
          | (_, UNoFuel, st3) => (TextBase.Err TextBase.OutOfFuel, [], [], st3)
          | (raw, UOk, st3) =>
              (* sam read_line after /repo 3506cd5: LF popped, then a CR only if it was read here *)
              (TextBase.Ok (len + n2 + length raw), dst2 ++ strip_eol raw, ends2, st3)
          end
      end
    end.

  (* ---- VCF *)
  Fixpoint d_vcf_field_loop (fuel : nat) (st : bstate S) (dst : list N) (mat : option N) (len : nat)
    : tres * list N * option N * nat * bstate S :=
    match fuel with
    | 0 => (TNoFuel, dst, mat, len, st)
    | Datatypes.S fuel' =>
      match br_fill_buf rd cap st with
      | (RInt, st1) => d_vcf_field_loop fuel' st1 dst mat len
      | (ROk src, st1) =>
        match mat, src with
        | Some _, _ => (TOk, dst, mat, len, st1)
        | None, [] => (TOk, dst, mat, len, st1)
        | None, _ =>
          match BedRec.scan_field src with
          | (f, Some c, _) =>
              if Fastq.utf8_valid f then
                d_vcf_field_loop fuel' (br_consume (Datatypes.S (length f)) st1) (dst ++ f) (Some c)
                  (len + Datatypes.S (length f))
              else (TInvalid, dst, Some c, len, st1)
          | (_, None, _) =>
              if Fastq.utf8_valid src then
                d_vcf_field_loop fuel' (br_consume (length src) st1) (dst ++ src) None (len + length src)
              else (TInvalid, dst, None, len, st1)
          end
        end
      end
    end.

  Definition d_vcf_read_field (fuel : nat) (st : bstate S) (dst : list N)
    : tres * list N * nat * bool * bstate S :=
    match d_vcf_field_loop fuel st dst None 0 with
    | (TOk, dst1, mat, len, st1) =>
      let eol := match mat with Some c => N.eqb c 10 | None => false end in
      (TOk, if eol then TextBase.strip_cr dst1 else dst1, len, eol, st1)
    | (r, dst1, _, len, st1) => (r, dst1, len, false, st1)
    end.

  Fixpoint d_vcf_read_required (k fuel : nat) (st : bstate S) (dst : list N) (ends : list nat) (len : nat)
    : tres * bool * list N * list nat * nat * bstate S :=
    match k with
    | 0 => (TOk, true, dst, ends, len, st)
    | Datatypes.S k' =>
      match d_vcf_read_field fuel st dst with
      | (TOk, dst1, n1, eol, st1) =>
        if eol then (TOk, false, dst1, ends, len, st1)
        else d_vcf_read_required k' fuel st1 dst1 (ends ++ [length dst1]) (len + n1)
      | (r, dst1, _, _, st1) => (r, false, dst1, ends, len, st1)
      end
    end.

  Definition d_vcf_read_record (fuel : nat) (st : bstate S)
    : TextBase.res nat * list N * list nat * bstate S :=
    match d_vcf_read_required 7 fuel st [] [] 0 with
    | (TNoFuel, _, _, _, _, st1) => (TextBase.Err TextBase.OutOfFuel, [], [], st1)
    | (TInvalid, _, dst1, ends, _, st1) => (TextBase.Err TextBase.InvalidData, dst1, ends, st1)
    | (TOk, false, dst1, ends, _, st1) => (TextBase.Err TextBase.InvalidData, dst1, ends, st1)
    | (TOk, true, dst1, ends, len, st1) =>
      match d_vcf_read_field fuel st1 dst1 with
      | (TNoFuel, _, _, _, st2) => (TextBase.Err TextBase.OutOfFuel, [], [], st2)
      | (TInvalid, dst2, _, _, st2) => (TextBase.Err TextBase.InvalidData, dst2, ends, st2)
      | (TOk, dst2, n2, eol, st2) =>
        let ends2 := ends ++ [length dst2] in
        if eol then (TextBase.Ok (len + n2), dst2, ends2, st2)
        else
          match read_until rd cap LF fuel st2 with
          | (_, UNoFuel, st3) => (TextBase.Err TextBase.OutOfFuel, [], [], st3)
          | (raw, UOk, st3) =>
              if Fastq.utf8_valid raw then
                (TextBase.Ok (len + n2 + length raw),
                 match raw with [] => dst2 | _ => strip_eol (dst2 ++ raw) end, ends2, st3)
              else (TextBase.Err TextBase.InvalidData, dst2, ends2, st3)
          end
      end
    end.
End DeliveredTab.
