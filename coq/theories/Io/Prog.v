(* C12 — read programs: the reads a reader performs, written once as a value, and run (a) over the
   bytes that are left ([run_pure]) and (b) over ANY reader with a delivery schedule ([run_rd]).

   The primitives are the three std loops every noodles reader that does not scan fill_buf
   windows itself is built from:
     Fill n k    the read_exact loop with an n-byte buffer (std default_read_exact, bgzf
                 default_read_exact, bam/bcf read_exact_or_eof): `while !buf.is_empty() { read(buf) }`
                 retrying Interrupted, stopping at Ok(0).  [k] receives the bytes stored: all n, or
                 fewer when the source ended -- read_exact then reports UnexpectedEof
                 ([p_exact]), read_exact_or_eof distinguishes nothing / partial / full
                 ([p_or_eof]), a caller that catches UnexpectedEof goes on ([p_exact_opt]: the
                 optional trailing count of BAI / CSI / tabix, the trailing-data probe of gzi).
     Take n k    `reader.take(n).read_to_end(buf)`: reads of ARBITRARY sizes (whatever
                 read_to_end's buffer growth asks for, capped by the limit) until n bytes or Ok(0)
                 (bcf read_buf_exact, cram read_container; NV.Async.ReadExact.drain_loop).
     Until b k   BufRead::read_until(b) (NV.Io.BufReader.read_until_loop): fill_buf windows
                 appended up to and including the first b.
   C19's NV.CramIdx.AsyncQuery.prog (PRead / PTake) embeds ([of_c19]).

   A read of n bytes made through a `Take` of limit L is `Fill (min n L)`: Take::read asks the
   inner reader for min(buf.len(), limit) and returns Ok(0) without calling it at limit 0, so
   the inner reader sees exactly the calls of the n' = min n L loop.

   Definitions only; proofs in ProgProofs.v. *)
From Coq Require Import List NArith Arith Bool.
From NV Require Import Base.LE Io.Source Io.ReadExact Io.BufReader Trunc.Stream.
From NV Require Async.ReadExact.
Import ListNotations.
Local Open Scope nat_scope.

Inductive prog (A : Type) : Type :=
| Ret (a : A)
| Fail (e : ekind)
| Fill (n : nat) (k : list N -> prog A)
| Take (n : nat) (k : list N -> prog A)
| Until (delim : N) (k : list N -> prog A).
Arguments Ret {A} a.
Arguments Fail {A} e.
Arguments Fill {A} n k.
Arguments Take {A} n k.
Arguments Until {A} delim k.

Fixpoint bind {A B : Type} (p : prog A) (f : A -> prog B) : prog B :=
  match p with
  | Ret a => f a
  | Fail e => Fail e
  | Fill n k => Fill n (fun bs => bind (k bs) f)
  | Take n k => Take n (fun bs => bind (k bs) f)
  | Until b k => Until b (fun bs => bind (k bs) f)
  end.

(* programs without read_until run over a plain Read *)
Fixpoint until_free {A : Type} (p : prog A) : Prop :=
  match p with
  | Ret _ => True
  | Fail _ => True
  | Fill _ k => forall bs, until_free (k bs)
  | Take _ k => forall bs, until_free (k bs)
  | Until _ _ => False
  end.

Inductive rr (A : Type) : Type := RVal (a : A) | RErr (e : ekind).
Arguments RVal {A} a.
Arguments RErr {A} e.

(* over the bytes that are left: the result AND the bytes left afterwards (also after an error:
   where the reader stands when the error is returned) *)
Fixpoint run_pure {A : Type} (p : prog A) (d : list N) : rr A * list N :=
  match p with
  | Ret a => (RVal a, d)
  | Fail e => (RErr e, d)
  | Fill n k => run_pure (k (firstn n d)) (skipn n d)
  | Take n k => run_pure (k (firstn n d)) (skipn n d)
  | Until b k => let l := take_line b d in run_pure (k l) (skipn (length l) d)
  end.

Section RunRd.
  Context {S : Type}.
  Variable rd : reader S.
  Variable ru : N -> S -> list N * ures * S.   (* read_until on this reader *)
  Variable req : nat -> nat.                    (* sizes read_to_end asks for *)
  Variable fuelf : S -> nat -> nat.

  Fixpoint run_rd {A : Type} (p : prog A) (s : S) : rr A * S :=
    match p with
    | Ret a => (RVal a, s)
    | Fail e => (RErr e, s)
    | Fill n k =>
        match fill_loop rd (fuelf s n) s n [] with
        | (_, NV.Io.ReadExact.OutOfFuel, s') => (RErr OutOfFuel, s')
        | (bs, _, s') => run_rd (k bs) s'
        end
    | Take n k =>
        match NV.Async.ReadExact.drain_loop rd req (fuelf s n) s n [] with
        | (_, NV.Io.ReadExact.OutOfFuel, s') => (RErr OutOfFuel, s')
        | (bs, _, s') => run_rd (k bs) s'
        end
    | Until b k =>
        match ru b s with
        | (l, UOk, s') => run_rd (k l) s'
        | (_, UNoFuel, s') => (RErr OutOfFuel, s')
        end
    end.
End RunRd.

(* over a plain Read (no read_until) *)
Definition no_until {S : Type} : N -> S -> list N * ures * S := fun _ s => ([], UNoFuel, s).
Definition run_raw {S : Type} (rd : reader S) (req : nat -> nat) (fuelf : S -> nat -> nat)
    {A : Type} (p : prog A) (s : S) : rr A * S :=
  run_rd rd no_until req fuelf p s.

(* over a std BufReader of capacity cap on top of a Read *)
Definition run_buf {S : Type} (rd : reader S) (cap : nat) (req : nat -> nat)
    (fuelf : bstate S -> nat -> nat) (fuelu : bstate S -> nat) {A : Type} (p : prog A) (st : bstate S)
    : rr A * bstate S :=
  run_rd (br_read rd cap) (fun b st => read_until rd cap b (fuelu st) st) req fuelf p st.

(* ---- the derived reads ------------------------------------------------------------------- *)

(* Read::read_exact *)
Definition p_exact (n : nat) : prog (list N) :=
  Fill n (fun bs => if length bs <? n then Fail UnexpectedEof else Ret bs).

(* read_exact whose UnexpectedEof the caller turns into None (what was read is dropped) *)
Definition p_exact_opt (n : nat) : prog (option (list N)) :=
  Fill n (fun bs => Ret (if length bs <? n then None else Some bs)).

(* bam / bcf read_exact_or_eof: nothing read = None (the caller sees a zeroed buffer), partial =
   UnexpectedEof *)
Definition p_or_eof (n : nat) : prog (option (list N)) :=
  Fill n (fun bs => match bs with
                    | [] => Ret None
                    | _ => if length bs <? n then Fail UnexpectedEof else Ret (Some bs)
                    end).

(* bcf read_buf_exact / the body of a cram container: take(n).read_to_end, then n bytes or
   UnexpectedEof *)
Definition p_take_exact (n : nat) : prog (list N) :=
  Take n (fun bs => if length bs <? n then Fail UnexpectedEof else Ret bs).

(* read_uN_le *)
Definition p_le (k : nat) : prog N := bind (p_exact k) (fun bs => Ret (le_dec bs)).

Fixpoint p_repeat {A : Type} (n : nat) (p : prog A) : prog (list A) :=
  match n with
  | O => Ret []
  | Datatypes.S n' => bind p (fun x => bind (p_repeat n' p) (fun xs => Ret (x :: xs)))
  end.

(* an error of a sub-reader re-wrapped by the caller (`.map_err(|e| io::Error::new(kind, e))`) *)
Fixpoint map_err {A : Type} (f : ekind -> ekind) (p : prog A) : prog A :=
  match p with
  | Ret a => Ret a
  | Fail e => Fail (f e)
  | Fill n k => Fill n (fun bs => map_err f (k bs))
  | Take n k => Take n (fun bs => map_err f (k bs))
  | Until b k => Until b (fun bs => map_err f (k bs))
  end.

(* ---- count-driven loops.  The count comes from the input (u32 / u64), so the loop is built by
   structural recursion on its BINARY representation: the program value is lazy under its
   continuations, a count of 2^64 costs 64 steps to build and fails at the first short read, as
   the `for _ in 0..n` of the code does.  [p_iter_nat] is the plain unary loop; they are proved
   to run alike. *)
Fixpoint p_iter_pos {St : Type} (x : positive) (step : St -> prog St) (s : St) : prog St :=
  match x with
  | xH => step s
  | xO x' => bind (p_iter_pos x' step s) (p_iter_pos x' step)
  | xI x' => bind (step s) (fun s1 => bind (p_iter_pos x' step s1) (p_iter_pos x' step))
  end.

Definition p_iter {St : Type} (n : N) (step : St -> prog St) (s : St) : prog St :=
  match n with N0 => Ret s | Npos x => p_iter_pos x step s end.

Fixpoint p_iter_nat {St : Type} (n : nat) (step : St -> prog St) (s : St) : prog St :=
  match n with
  | O => Ret s
  | Datatypes.S n' => bind (step s) (p_iter_nat n' step)
  end.

(* n items, in order *)
Definition p_rep {A : Type} (n : N) (p : prog A) : prog (list A) :=
  bind (p_iter n (fun acc => bind p (fun x => Ret (x :: acc))) []) (fun acc => Ret (rev acc)).

(* a line loop (fai / crai: read_line until it returns 0); fuel bounds the number of lines *)
Fixpoint p_loop {A : Type} (fuel : nat) (body : prog (option A)) : prog (list A) :=
  match fuel with
  | O => Fail OutOfFuel
  | Datatypes.S f =>
      bind body (fun o => match o with
                          | None => Ret []
                          | Some x => bind (p_loop f body) (fun xs => Ret (x :: xs))
                          end)
  end.
