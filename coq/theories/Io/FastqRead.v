(* C12 — the noodles-fastq record reader over a delivered source (BufReader model):
   noodles-fastq/src/io/reader/record.rs (read_record, read_line, consume_plus_line, consume_line,
   read_u8) and io/reader/record/definition.rs (read_definition).

     read_u8: BufRead is also Read; read_exact of one byte (std BufReader::read_exact = copy from the
              buffer or default_read_exact over BufReader::read; Interrupted retried)
     read_definition: read_u8: UnexpectedEof -> Ok(0); != '@' -> InvalidData
       loop { src = fill_buf (Interrupted => continue); if src.is_empty() {break}
              match memchr3(SP, HT, LF, src) { Some(i) => { is_eol = src[i] == LF; name.extend(src[..i]);
                                                             consume(i+1); break }
                                               None => { name.extend(src); consume(src.len()) } } }
       if is_eol && name.ends_with(CR) { name.pop() }
       if !is_eol { read_line(description) }
     read_line: read_until(LF) then pop LF and, if popped, one CR      (= BufReader.read_line)
     consume_plus_line: read_u8 (UnexpectedEof is an error here); != '+' -> InvalidData; consume_line
     consume_line: loop { src = fill_buf (Interrupted => continue); if src.is_empty() || is_eol {break}
                          n = memchr(LF, src) -> (is_eol = true; i+1) | src.len(); consume(n) }
     read_record: read_definition (Ok(0) -> Ok(0)); read_line(sequence); consume_plus_line;
                  read_line(quality scores)

   memchr3 on one window is C11's [Fastq.scan_name] applied to that window; record, error type and
   the closed form are those of C11's whole-buffer model NV.Fasta.Fastq (imported read-only). *)
From Coq Require Import List NArith Arith Bool.
From NV Require Import Io.Source Io.ReadExact Io.BufReader Io.FastaScan.
From NV Require Fasta.Layout Fasta.Fastq.
Import ListNotations.

Inductive u8res := U8 (b : N) | U8Eof | U8NoFuel.

Section DeliveredFastq.
  Context {S : Type}.
  Variable rd : reader S.
  Variable cap : nat.

  Definition d_read_u8 (fuel : nat) (st : bstate S) : u8res * bstate S :=
    match read_exact (br_read rd cap) fuel st 1 with
    | ([b], XOk, st') => (U8 b, st')
    | (_, XOk, st') => (U8NoFuel, st')          (* not reachable: XOk stores exactly one byte *)
    | (_, XUnexpectedEof, st') => (U8Eof, st')
    | (_, XNoFuel, st') => (U8NoFuel, st')
    end.

  (* the name loop: (status, name so far, delimiter met, len, state) *)
  Fixpoint d_name_loop (fuel : nat) (st : bstate S) (acc : list N) (len : nat)
    : sres * list N * option N * nat * bstate S :=
    match fuel with
    | 0 => (SNoFuel, acc, None, len, st)
    | Datatypes.S fuel' =>
      match br_fill_buf rd cap st with
      | (RInt, st1) => d_name_loop fuel' st1 acc len
      | (ROk [], st1) => (SOk, acc, None, len, st1)
      | (ROk src, st1) =>
        match Fastq.scan_name src with
        | (n, Some b, _) => (SOk, acc ++ n, Some b, len + Datatypes.S (length n),
                             br_consume (Datatypes.S (length n)) st1)
        | (_, None, _) => d_name_loop fuel' (br_consume (length src) st1) (acc ++ src) (len + length src)
        end
      end
    end.

  (* inr None = Ok(0); inr (Some (name, description, len)), len = the byte count returned *)
  Definition d_read_definition (fuel : nat) (st : bstate S)
    : (Fastq.qerr + option (list N * list N * nat)) * bstate S :=
    match d_read_u8 fuel st with
    | (U8NoFuel, st1) => (inl Fastq.QOutOfFuel, st1)
    | (U8Eof, st1) => (inr None, st1)
    | (U8 b, st1) =>
      if negb (N.eqb b Fastq.AT) then (inl Fastq.QInvalidData, st1)
      else
        match d_name_loop fuel st1 [] 1 with
        | (SNoFuel, _, _, _, st2) => (inl Fastq.QOutOfFuel, st2)
        | (SOk, n, dl, len, st2) =>
          if match dl with Some d => N.eqb d Layout.LF | None => false end
          then (inr (Some (Layout.strip_last Layout.CR n, [], len)), st2)
          else
            match read_line rd cap fuel st2 with
            | (k, desc, UOk, st3) => (inr (Some (n, desc, len + k)), st3)
            | (_, _, UNoFuel, st3) => (inl Fastq.QOutOfFuel, st3)
            end
        end
    end.

  Fixpoint d_consume_line (fuel : nat) (st : bstate S) (is_eol : bool) : sres * bstate S :=
    match fuel with
    | 0 => (SNoFuel, st)
    | Datatypes.S fuel' =>
      match br_fill_buf rd cap st with
      | (RInt, st1) => d_consume_line fuel' st1 is_eol
      | (ROk [], st1) => (SOk, st1)
      | (ROk src, st1) =>
        if is_eol then (SOk, st1)
        else if has_byte LF src
             then d_consume_line fuel' (br_consume (length (take_line LF src)) st1) true
             else d_consume_line fuel' (br_consume (length src) st1) false
      end
    end.

  Definition d_consume_plus_line (fuel : nat) (st : bstate S) : option Fastq.qerr * bstate S :=
    match d_read_u8 fuel st with
    | (U8NoFuel, st1) => (Some Fastq.QOutOfFuel, st1)
    | (U8Eof, st1) => (Some Fastq.QUnexpectedEof, st1)
    | (U8 b, st1) =>
      if N.eqb b Fastq.PLUS then
        match d_consume_line fuel st1 false with
        | (SOk, st2) => (None, st2)
        | (SNoFuel, st2) => (Some Fastq.QOutOfFuel, st2)
        end
      else (Some Fastq.QInvalidData, st1)
    end.

  (* read_record: inr None = Ok(0) *)
  Definition d_read_qrec (fuel : nat) (st : bstate S) : (Fastq.qerr + option Fastq.qrec) * bstate S :=
    match d_read_definition fuel st with
    | (inl e, st1) => (inl e, st1)
    | (inr None, st1) => (inr None, st1)
    | (inr (Some (n, d, _)), st1) =>
      match read_line rd cap fuel st1 with
      | (_, _, UNoFuel, st2) => (inl Fastq.QOutOfFuel, st2)
      | (_, sq, UOk, st2) =>
        match d_consume_plus_line fuel st2 with
        | (Some e, st3) => (inl e, st3)
        | (None, st3) =>
          match read_line rd cap fuel st3 with
          | (_, _, UNoFuel, st4) => (inl Fastq.QOutOfFuel, st4)
          | (_, ql, UOk, st4) => (inr (Some (Fastq.mkqrec n d sq ql)), st4)
          end
        end
      end
    end.

  (* Reader::records(): read_record until Ok(0) or the first error *)
  Fixpoint d_read_qrecs (j fuel : nat) (st : bstate S)
    : (list Fastq.qrec * option Fastq.qerr) * bstate S :=
    match j with
    | 0 => (([], Some Fastq.QOutOfFuel), st)
    | Datatypes.S j' =>
      match d_read_qrec fuel st with
      | (inl e, st1) => (([], Some e), st1)
      | (inr None, st1) => (([], None), st1)
      | (inr (Some r), st1) =>
        let '((rs, e), st2) := d_read_qrecs j' fuel st1 in ((r :: rs, e), st2)
      end
    end.

  (* noodles-fastq/src/io/indexer.rs Indexer::index_record: read_definition (offset += n), the name
     must be UTF-8, then three raw read_until(LF) lines (sequence, plus, quality scores);
     off = self.offset before the call *)
  Definition d_index_qrec (fuel : nat) (st : bstate S) (off : N)
    : (Fastq.qerr + option (Fastq.qfai * N)) * bstate S :=
    match d_read_definition fuel st with
    | (inl e, st1) => (inl e, st1)
    | (inr None, st1) => (inr None, st1)
    | (inr (Some (n, _, len)), st1) =>
      let off1 := (off + N.of_nat len)%N in
      if Fastq.utf8_valid n then
        match read_until rd cap LF fuel st1 with
        | (_, UNoFuel, st2) => (inl Fastq.QOutOfFuel, st2)
        | (l1, UOk, st2) =>
          match read_until rd cap LF fuel st2 with
          | (_, UNoFuel, st3) => (inl Fastq.QOutOfFuel, st3)
          | (l2, UOk, st3) =>
            match read_until rd cap LF fuel st3 with
            | (_, UNoFuel, st4) => (inl Fastq.QOutOfFuel, st4)
            | (l3, UOk, st4) =>
              let lb := Layout.len (Fastq.rtrim_ws l1) in
              (inr (Some (Fastq.mkqfai n lb off1 lb (Layout.len l1)
                            (off1 + Layout.len l1 + Layout.len l2)%N,
                          (off1 + Layout.len l1 + Layout.len l2 + Layout.len l3)%N)), st4)
            end
          end
        end
      else (inl Fastq.QInvalidData, st1)
    end.

  Fixpoint d_index_qrecs (j fuel : nat) (st : bstate S) (off : N)
    : (list Fastq.qfai * option Fastq.qerr) * bstate S :=
    match j with
    | 0 => (([], Some Fastq.QOutOfFuel), st)
    | Datatypes.S j' =>
      match d_index_qrec fuel st off with
      | (inl e, st1) => (([], Some e), st1)
      | (inr None, st1) => (([], None), st1)
      | (inr (Some (r, off')), st1) =>
        let '((rs, e), st2) := d_index_qrecs j' fuel st1 off' in ((r :: rs, e), st2)
      end
    end.
End DeliveredFastq.
