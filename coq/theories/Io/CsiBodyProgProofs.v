(* C12 — csi read_index as a read program: what is proved.
     run_pure_limit        [limit L p] on data d = p on the first L bytes of d, the bytes p leaves of
                           them followed by the bytes behind the first L (what Read::take gives)
     until_free_p_csi      p_csi runs over a plain Read
     run_csi_plain_spec    p_csi over ANY delivery of the decompressed bytes = on the whole bytes
     run_csi_spec          over the BGZF frames read from ANY delivery of the compressed file
     run_csi_clean         on a well-formed BGZF stream: the plain program on the block data
     p_csi_err_kind        the only error kind read_index reports is InvalidData *)
From Coq Require Import List NArith Arith Bool Lia.
From NV Require Import Base.LE Io.Source Io.ReadExact Io.ReadExactProofs Io.BufReader Io.BufReaderProofs
  Io.BgzfRead Io.BgzfReadProofs Io.Run Io.RunProofs Trunc.Stream Io.Prog Io.ProgProofs Io.IndexProg
  Io.IndexProgProofs Io.CsiProg Io.CsiProgProofs Io.ProgRun Io.ProgRunProofs Io.TabixProg
  Io.TabixProgProofs Io.CsiBodyProg.
From NV Require Index.Bins Index.Layout Index.CsiLayout Bgzf.Frame Bgzf.Reader Bgzf.ReaderOps.
Import ListNotations.
Local Open Scope nat_scope.

Lemma until_free_limit : forall (A : Type) (p : prog A) L, until_free (limit L p).
Proof.
  intros A p. induction p as [a|e|n k IH|n k IH|b k IH]; intros L; cbn [limit until_free]; auto.
Qed.

Lemma skipn_skipn' : forall (l : list N) a b, skipn a (skipn b l) = skipn (a + b) l.
Proof.
  intros l a b. revert l. induction b as [|b IH]; intros l.
  - rewrite Nat.add_0_r. reflexivity.
  - destruct l as [|x l]; [rewrite !skipn_nil; reflexivity|].
    rewrite Nat.add_succ_r. cbn [skipn]. apply IH.
Qed.

Lemma limit_lists : forall (d : list N) n L,
  let bs := firstn (Nat.min n L) d in
  firstn (L - length bs) (skipn (Nat.min n L) d) = skipn n (firstn L d)
  /\ skipn (L - length bs) (skipn (Nat.min n L) d) = skipn L d
  /\ bs = firstn n (firstn L d).
Proof.
  intros d n L bs. subst bs. rewrite firstn_length.
  split; [|split].
  - rewrite skipn_firstn_comm.
    destruct (Nat.le_gt_cases n L) as [H|H].
    + rewrite (Nat.min_l n L) by lia.
      destruct (Nat.le_gt_cases n (length d)) as [H1|H1].
      * rewrite (Nat.min_l n (length d)) by lia. reflexivity.
      * rewrite !skipn_all2 by lia. rewrite !firstn_nil. reflexivity.
    + rewrite (Nat.min_r n L) by lia. replace (L - n) with 0 by lia. cbn [firstn].
      destruct (Nat.le_gt_cases L (length d)) as [H1|H1].
      * rewrite (Nat.min_l L (length d)) by lia. replace (L - L) with 0 by lia. reflexivity.
      * rewrite skipn_all2 by lia. apply firstn_nil.
  - rewrite skipn_skipn'.
    destruct (Nat.le_gt_cases (L - Nat.min (Nat.min n L) (length d) + Nat.min n L) (length d)) as [H|H].
    + f_equal. lia.
    + rewrite !skipn_all2; [reflexivity| |]; lia.
  - rewrite firstn_firstn. reflexivity.
Qed.

(* what Read::take(L) gives: the program sees the first L bytes only; what it leaves of them stays
   in the stream in front of the bytes behind the limit *)
Theorem run_pure_limit : forall (A : Type) (p : prog A) L d,
  until_free p ->
  run_pure (limit L p) d
  = (fst (run_pure p (firstn L d)), snd (run_pure p (firstn L d)) ++ skipn L d).
Proof.
  intros A p. induction p as [a|e|n k IH|n k IH|b k IH]; intros L d Hu; cbn [limit run_pure fst snd until_free] in *.
  - rewrite firstn_skipn. reflexivity.
  - rewrite firstn_skipn. reflexivity.
  - destruct (limit_lists d n L) as (E1 & E2 & E3). cbn zeta in *.
    rewrite IH by apply Hu. rewrite E1, E2, E3. reflexivity.
  - destruct (limit_lists d n L) as (E1 & E2 & E3). cbn zeta in *.
    rewrite IH by apply Hu. rewrite E1, E2, E3. reflexivity.
  - contradiction.
Qed.

Lemma until_free_g_aux : until_free g_aux.
Proof.
  unfold g_aux. apply until_free_bind; [apply until_free_g_i32_nonneg|]. intros l.
  destruct (0 <? l)%N; [|exact I].
  apply until_free_bind; [apply until_free_limit|]. intros h. exact I.
Qed.

Lemma until_free_c_bin_step : forall mid st, until_free (c_bin_step mid st).
Proof.
  intros mid st. unfold c_bin_step. apply until_free_bind; [apply until_free_p_le|]. intros id.
  apply until_free_bind; [apply until_free_p_le|]. intros lo.
  destruct (id =? mid)%N.
  - apply until_free_bind; [apply until_free_g_metadata|]. intros md. destruct (snd st); exact I.
  - apply until_free_bind; [apply until_free_g_chunks|]. intros cs. destruct (existsb _ _); exact I.
Qed.

Lemma until_free_c_ref : forall d, until_free (c_ref d).
Proof.
  intros d. unfold c_ref. apply until_free_bind; [apply until_free_g_count|]. intros n.
  apply until_free_bind; [apply until_free_iter, until_free_c_bin_step|]. intros st. exact I.
Qed.

Lemma until_free_p_csi : until_free p_csi.
Proof.
  unfold p_csi. apply until_free_map_err. unfold p_csi_body.
  apply until_free_bind; [apply until_free_p_exact|]. intros mg.
  destruct (bytes_eqb mg CsiLayout.csi_magic); [|exact I].
  apply until_free_bind; [apply until_free_p_le|]. intros ms.
  destruct (256 <=? ms)%N; [exact I|].
  apply until_free_bind; [apply until_free_p_le|]. intros d.
  destruct (256 <=? d)%N; [exact I|].
  destruct (negb (CsiLayout.scheme_ok ms d)); [exact I|].
  apply until_free_bind; [apply until_free_g_aux|]. intros h.
  apply until_free_bind; [apply until_free_g_count|]. intros n.
  apply until_free_bind; [apply until_free_rep, until_free_c_ref|]. intros refs.
  apply until_free_bind; [apply until_free_p_exact_opt|]. intros o. exact I.
Qed.

Theorem run_csi_plain_spec : forall data sc cap chunk,
  run_csi_plain cap chunk (mkSource data sc)
  = (cres_of (fst (run_pure p_csi data)), length (snd (run_pure p_csi data))).
Proof. intros. apply run_prog_spec. intros _. apply until_free_p_csi. Qed.

Theorem run_csi_spec : forall inflate data sc cap,
  run_csi inflate cap (mkSource data sc) = whole_over_bgzf p_csi inflate data.
Proof. intros. apply run_over_bgzf_spec. Qed.

Corollary run_csi_clean : forall inflate data sc cap fs,
  whole_frames inflate (Datatypes.S (length data)) data = (fs, Bgzf.Frame.Ok tt) ->
  run_csi inflate cap (mkSource data sc)
  = let d := concat (map Bgzf.ReaderOps.fdata fs) in
    (cres_of (fst (run_pure p_csi d)), length (snd (run_pure p_csi d))).
Proof.
  intros inflate data sc cap fs H. unfold run_csi. rewrite run_over_bgzf_spec.
  unfold whole_over_bgzf, prog_over_frames.
  rewrite H. cbn [fst snd term_of]. rewrite run_term_none.
  destruct (run_pure p_csi _) as [r rest]. reflexivity.
Qed.

(* the aux block: read_aux on data = the header program on the first l_aux bytes behind the length
   field; the bytes of the take that read_header leaves are still in the stream *)
Theorem run_pure_g_aux_positive : forall l d,
  (0 < l)%N -> (l < 2147483648)%N -> 4 <= length (firstn 4 d) ->
  le_dec (firstn 4 d) = l ->
  let r := skipn 4 d in
  let L := N.to_nat l in
  run_pure g_aux d
  = match fst (run_pure g_header (firstn L r)) with
    | RVal h => (RVal (Some h), snd (run_pure g_header (firstn L r)) ++ skipn L r)
    | RErr e => (RErr e, snd (run_pure g_header (firstn L r)) ++ skipn L r)
    end.
Proof.
  intros l d Hl Hl2 Hlen Hdec r L. unfold g_aux, g_i32_nonneg, p_le, p_exact.
  cbn [bind run_pure].
  destruct (Nat.ltb_spec (length (firstn 4 d)) 4) as [H|H]; [lia|]. cbn [bind run_pure].
  rewrite Hdec.
  destruct (N.ltb_spec l 2147483648) as [H2|H2]; [|lia]. cbn [bind run_pure].
  destruct (N.ltb_spec 0 l) as [H3|H3]; [|lia].
  rewrite run_pure_bind. fold r. rewrite run_pure_limit by apply until_free_g_header.
  fold L. cbn [fst snd]. destruct (fst (run_pure g_header (firstn L r))); reflexivity.
Qed.
