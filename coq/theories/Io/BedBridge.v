(* C12 — bridge: the whole-buffer closed form of BedRead (written after the tree's read_field) is
   C18's NV.Text.BedRec model, function by function; hence the delivered BED reader returns what
   C18's bed_read_record / bed_read_raw return on the data.  Kept apart from BedReadProofs so that a
   change of C18's model only touches this file. *)
From Coq Require Import List NArith Arith Bool Lia.
From NV Require Import Io.BedRead.
From NV Require Text.TextBase Text.BedRec.
Import ListNotations.

Lemma strip_cr_app_ne : forall dst f, f <> [] ->
  TextBase.strip_cr (dst ++ f) = dst ++ TextBase.strip_cr f.
Proof.
  induction dst as [|x dst IH]; intros f Hf; [reflexivity|].
  cbn [app TextBase.strip_cr]. destruct (dst ++ f) eqn:E.
  - destruct dst; [cbn [app] in E; congruence|discriminate].
  - rewrite <- E. rewrite IH by exact Hf. reflexivity.
Qed.

Lemma w_read_field_eq : forall src dst, w_read_field src dst = BedRec.read_field src dst.
Proof.
  intros src dst. unfold w_read_field, BedRec.read_field.
  destruct (BedRec.scan_field src) as [[f d] r]. destruct d as [c|]; [|reflexivity].
  change (c =? 10)%N with (N.eqb c 10). destruct (N.eqb c 10); cbn [andb]; [|reflexivity].
  destruct f as [|y f'].
  - rewrite app_nil_r. rewrite Nat.ltb_irrefl. cbn [TextBase.strip_cr]. rewrite app_nil_r. reflexivity.
  - replace (length dst <? length (dst ++ y :: f')) with true
      by (symmetry; apply Nat.ltb_lt; rewrite app_length; cbn [length]; lia).
    rewrite strip_cr_app_ne by discriminate. reflexivity.
Qed.

Lemma w_read_required_eq : forall k src dst ends len,
  w_read_required k src dst ends len = BedRec.read_required k src dst ends len.
Proof.
  induction k as [|k IH]; intros src dst ends len; [reflexivity|].
  cbn [w_read_required BedRec.read_required]. rewrite w_read_field_eq.
  destruct (BedRec.read_field src dst) as [[[dst1 n1] eol] src1]. destruct eol; [reflexivity|apply IH].
Qed.

Lemma w_read_others_eq : forall fuel src dst oth len,
  w_read_others fuel src dst oth len = BedRec.read_others fuel src dst oth len.
Proof.
  induction fuel as [|fuel IH]; intros src dst oth len; [reflexivity|].
  cbn [w_read_others BedRec.read_others]. rewrite w_read_field_eq.
  destruct (BedRec.read_field src dst) as [[[dst1 n1] eol] src1].
  destruct (Nat.eqb n1 0); [reflexivity|]. destruct eol; [reflexivity|apply IH].
Qed.

Theorem w_bed_read_record_eq : forall n src old,
  w_bed_read_record n src old
  = (BedRec.ro_res (BedRec.bed_read_record n src old), BedRec.ro_src (BedRec.bed_read_record n src old),
     BedRec.ro_rec (BedRec.bed_read_record n src old)).
Proof.
  intros n src old. unfold w_bed_read_record, BedRec.bed_read_record.
  rewrite w_read_required_eq.
  destruct (BedRec.read_required (n - 1) (BedRec.skip_comments src) [] [] 0) as [[[[ok src1] dst1] ends] len].
  destruct ok; cbn [negb]; [|reflexivity].
  rewrite w_read_field_eq. destruct (BedRec.read_field src1 dst1) as [[[dst2 n2] eol] src2].
  destruct eol; [reflexivity|]. rewrite w_read_others_eq.
  destruct (BedRec.read_others (Datatypes.S (length src2)) src2 dst2 [] (len + n2))
    as [[[[src3 dst3] oth] len3]|]; reflexivity.
Qed.

Theorem w_bed_read_raw_eq : forall fuel n src rec,
  w_bed_read_raw fuel n src rec = BedRec.bed_read_raw fuel n src rec.
Proof.
  induction fuel as [|fuel IH]; intros n src rec; [reflexivity|].
  cbn [w_bed_read_raw BedRec.bed_read_raw]. rewrite w_bed_read_record_eq.
  set (o := BedRec.bed_read_record n src rec). cbn zeta.
  destruct (BedRec.ro_res o) as [[|q]|e|]; rewrite ?IH; reflexivity.
Qed.
