(* C12 — tabix::io::Reader::read_index as a read program (NV.Io.Prog) stacked on the BGZF block
   reader, after noodles-tabix/src/io/reader/index.rs read_index (+ index/magic_number.rs,
   index/reference_sequences.rs, reference_sequences/{bins,intervals}.rs, reader/num.rs):

     read_magic_number      read_exact(4); != "TBI\1" -> InvalidData
     n_ref                  read_i32_le + usize::try_from (negative -> InvalidData)
     csi read_header        [g_header] (NV.Io.CsiProg); every error re-wrapped as InvalidData
     n_ref x reference      read_bins: n_bin i32 >= 0, then per bin: id u32; id = 37450 -> csi
                            read_metadata else csi read_chunks, both `.map_err(InvalidData)`; a repeated
                            id / second metadata -> InvalidData.  read_intervals: n_intv i32 >= 0, u64 each
     n_no_coor              read_u64_le whose UnexpectedEof is caught (-> None); other errors returned

   The reader underneath is `bgzf::io::Reader<R>` (tabix::io::Reader::new wraps the inner reader):
   what the program sees is the concatenated data of the BGZF blocks, read LAZILY block by block.
   When the block reader fails (bad header / CRC / inflate: InvalidData; a frame cut short:
   UnexpectedEof -- read_frame_into's second read_exact) the `read` that needed the next block
   returns that error.  [run_term t p d] is the program on decompressed data d that ends with the
   terminal outcome t (None = clean end of input: read returns Ok(0)):
     - a read loop that is satisfied by d never touches the failing block (the error of a LATER
       block is not seen by a program that has finished);
     - a loop that needs more than d has: with t = Some UnexpectedEof the caller sees an error of
       kind UnexpectedEof with the buffer partly filled -- by kind that is read_exact's own
       UnexpectedEof, so the continuation runs as on a clean end (this is how a tabix index whose
       LAST BGZF frame is cut short right after the reference sequences is accepted with
       n_no_coor = None); with any other t = Some e the program fails with e at once.
   An error raised inside a `.map_err(|e| io::Error::new(kind, e))` scope is re-wrapped by the code;
   [run_term] does not know the scopes, so it is the reader's behaviour only when every scope maps
   the terminal error to itself -- true here: the BGZF reader's non-EOF error is InvalidData and
   every scope of read_index maps to InvalidData ([as_invalid InvalidData = InvalidData]).

   Definitions only; proofs in TabixProgProofs.v. *)
From Coq Require Import List NArith Arith Bool.
From NV Require Import Base.LE Io.Source Io.ReadExact Io.BufReader Io.BgzfRead Io.Run Trunc.Stream
  Io.Prog Io.IndexProg Io.CsiProg Io.ProgRun.
From NV Require Index.Layout Index.CsiLayout Bgzf.Frame Bgzf.Reader Bgzf.ReaderOps.
Import ListNotations.

Local Open Scope N_scope.

Definition tbi_magic : list N := [84; 66; 73; 1].

(* i32 counts converted with usize::try_from *)
Definition g_count : prog N := bind (p_le 4) (fun n => if n <? 2147483648 then Ret n else Fail InvalidData).

(* one turn of the loop of tabix read_bins; bins kept in reverse order *)
Definition t_bin_step (st : bins_st) : prog bins_st :=
  bind (p_le 4) (fun id =>
    if id =? Layout.bai_metadata_id then
      bind (map_err as_invalid g_metadata) (fun md =>
        match snd st with Some _ => Fail InvalidData | None => Ret (fst st, Some md) end)
    else
      bind (map_err as_invalid g_chunks) (fun cs =>
        if existsb (fun b => fst b =? id) (fst st) then Fail InvalidData
        else Ret ((id, cs) :: fst st, snd st))).

Definition t_bins : prog (list Layout.binp * option Layout.metadata) :=
  bind g_count (fun n =>
  bind (p_iter n t_bin_step ([], None)) (fun st => Ret (rev (fst st), snd st))).

Definition t_intervals : prog (list N) := bind g_count (fun n => p_rep n (p_le 8)).

Definition t_ref : prog Layout.bai_ref :=
  bind t_bins (fun bm => bind t_intervals (fun iv => Ret (Layout.mkbref (fst bm) (snd bm) iv))).

Definition p_tabix : prog CsiLayout.tbi_index :=
  bind (p_exact 4) (fun mg =>
    if bytes_eqb mg tbi_magic then
      bind g_count (fun n =>
      bind (map_err as_invalid g_header) (fun h =>
      bind (p_rep n t_ref) (fun refs =>
      bind (p_exact_opt 8) (fun o => Ret (CsiLayout.mktbi (Some h) refs (option_map le_dec o))))))
    else Fail InvalidData).

Local Open Scope nat_scope.

(* the program on data that ends with a terminal outcome *)
Fixpoint run_term {A : Type} (t : option ekind) (p : prog A) (d : list N) : rr A * list N :=
  match p with
  | Ret a => (RVal a, d)
  | Fail e => (RErr e, d)
  | Fill n k | Take n k =>
      if n <=? length d then run_term t (k (firstn n d)) (skipn n d)
      else match t with
           | None | Some UnexpectedEof => run_pure (k d) []
           | Some e => (RErr e, [])
           end
  | Until b k => let l := take_line b d in run_term t (k l) (skipn (length l) d)
  end.

(* the terminal outcome of a BGZF frame sequence *)
Definition term_of (r : Bgzf.Frame.res unit) : option ekind :=
  match r with
  | Bgzf.Frame.Ok _ => None
  | Bgzf.Frame.Err Bgzf.Frame.UnexpectedEof => Some UnexpectedEof
  | Bgzf.Frame.Err _ => Some InvalidData
  | Bgzf.Frame.Panic => Some OutOfFuel
  end.

Definition prog_over_frames {A : Type} (p : prog A) (x : list Bgzf.ReaderOps.frame * Bgzf.Frame.res unit)
  : cres A * nat :=
  let d := concat (map Bgzf.ReaderOps.fdata (fst x)) in
  let '(r, rest) := run_term (term_of (snd x)) p d in (cres_of r, length rest).

(* a program over the BGZF block reader over the scripted source (raw, cap = 0, or behind a
   BufReader): result + decompressed bytes of the good blocks not consumed *)
Definition run_over_bgzf {A : Type} (p : prog A) (inflate : list N -> N -> option (list N)) (cap : nat)
    (s : source) : cres A * nat :=
  let k := Datatypes.S (length (s_data s)) in
  prog_over_frames p
    match cap with
    | 0 => fst (d_read_frames src_read inflate k (src_fuel s 18) s)
    | _ => fst (d_read_frames (br_read src_read cap) inflate k (b_fuel ([], s) 18) ([], s))
    end.

Definition whole_over_bgzf {A : Type} (p : prog A) (inflate : list N -> N -> option (list N)) (data : list N)
  : cres A * nat :=
  prog_over_frames p (whole_frames inflate (Datatypes.S (length data)) data).

Definition run_tabix := run_over_bgzf p_tabix.

(* the program over ANY delivery of the decompressed bytes (the layer above the block reader) *)
Definition run_tabix_plain (cap chunk : nat) (s : source) := run_prog cap chunk p_tabix s.
