(* C12 — the Read side of the SAM / VCF header adapter over ANY simulating reader behind a
   BufReader of any capacity >= 1 is itself a simulating reader, of the header bytes [hdr_text] of
   the data.  Hence everything proved for simulating readers -- read_exact, every read program,
   take(n).read_to_end and read_to_end with whatever buffer sizes -- holds for a caller that reads
   the header through `header_reader()` as a plain Read. *)
From Coq Require Import List NArith Arith Bool Lia.
From NV Require Import Io.Source Io.ReadExact Io.ReadExactProofs Io.BufReader Io.BufReaderProofs
  Io.FastaScanProofs Io.HeaderRead Io.HeaderReadProofs Io.HeaderAdapter.
Import ListNotations.

(* ---- lists *)
Lemma take_line_skipn : forall b d amt, amt < length (take_line b d) ->
  take_line b (skipn amt d) = skipn amt (take_line b d)
  /\ has_byte b (skipn amt d) = has_byte b d
  /\ skipn (length (take_line b (skipn amt d))) (skipn amt d) = skipn (length (take_line b d)) d.
Proof.
  intros b d. induction d as [|x t IH]; intros amt H.
  - cbn [take_line length] in H. lia.
  - destruct amt as [|amt].
    + cbn [skipn]. auto.
    + cbn [take_line] in H |- *. destruct (N.eqb x b) eqn:E.
      * cbn [length] in H. lia.
      * cbn [length] in H. cbn [skipn length].
        destruct (IH amt ltac:(lia)) as [H1 [H2 H3]].
        split; [exact H1|]. split; [|exact H3].
        rewrite H2. cbn [has_byte existsb]. rewrite N.eqb_sym, E. reflexivity.
Qed.

Lemma take_line_nonempty : forall b x t, 0 < length (take_line b (x :: t)).
Proof. intros b x t. cbn [take_line]. destruct (N.eqb x b); cbn [length]; lia. Qed.

Lemma take_line_le : forall b d, length (take_line b d) <= length d.
Proof.
  intros b d. induction d as [|x t IH]; [cbn; lia|]. cbn [take_line].
  destruct (N.eqb x b); cbn [length]; lia.
Qed.

Lemma take_line_prefix : forall b d, take_line b d = firstn (length (take_line b d)) d.
Proof.
  intros b d. induction d as [|x t IH]; [reflexivity|]. cbn [take_line].
  destruct (N.eqb x b); cbn [length firstn]; [reflexivity|]. f_equal. exact IH.
Qed.

(* the line bound is immaterial once it exceeds the length *)
Lemma hdr_text_fuel : forall p k1 k2 e d, length d < k1 -> length d < k2 ->
  hdr_text k1 p e d = hdr_text k2 p e d.
Proof.
  intros p k1. induction k1 as [|k1 IH]; intros k2 e d H1 H2; [lia|].
  destruct k2 as [|k2]; [lia|]. cbn [hdr_text].
  destruct d as [|x t]; [reflexivity|].
  destruct (e && negb (N.eqb x p)); [reflexivity|].
  destruct (has_byte LF (x :: t)); [|reflexivity]. f_equal.
  pose proof (take_line_nonempty LF x t) as Hn.
  apply IH; rewrite skipn_length; cbn [length] in *; lia.
Qed.

Lemma hdr_text_unfold : forall p e x t,
  (e && negb (N.eqb x p)) = false ->
  hdr_text (Datatypes.S (length (x :: t))) p e (x :: t)
  = take_line LF (x :: t) ++ (if has_byte LF (x :: t)
                        then hdr_text (length (x :: t)) p true (skipn (length (take_line LF (x :: t))) (x :: t)) else []).
Proof.
  intros p e x t Hg. cbn [hdr_text]. rewrite Hg.
  destruct (has_byte LF (x :: t)); [reflexivity|]. rewrite app_nil_r. reflexivity.
Qed.

(* amt bytes inside the current line are taken *)
Lemma hdr_text_advance : forall p e x t amt,
  (e && negb (N.eqb x p)) = false ->
  amt < length (take_line LF (x :: t)) ->
  skipn amt (hdr_text (Datatypes.S (length (x :: t))) p e (x :: t))
  = hdr_text (Datatypes.S (length (skipn amt (x :: t)))) p false (skipn amt (x :: t)).
Proof.
  intros p e x t amt Hg Hamt.
  rewrite (hdr_text_unfold p e x t Hg). set (d := x :: t) in *.
  destruct (take_line_skipn LF d amt Hamt) as [H1 [H2 H3]].
  pose proof (take_line_le LF d) as Hle.
  assert (Hd' : skipn amt d <> []).
  { intros E. apply (f_equal (@length N)) in E. rewrite skipn_length in E. cbn [length] in E. lia. }
  destruct (skipn amt d) as [|y t'] eqn:Ed; [congruence|].
  assert (Hl' : length (y :: t') = length d - amt) by (rewrite <- Ed; apply skipn_length).
  rewrite (hdr_text_unfold p false y t' eq_refl).
  rewrite H3, H2, H1. rewrite skipn_app_le by lia. f_equal.
  destruct (has_byte LF d); [|reflexivity].
  apply hdr_text_fuel; rewrite ?skipn_length; lia.
Qed.

(* the current line is taken up to and including its LF *)
Lemma hdr_text_line : forall p e x t,
  (e && negb (N.eqb x p)) = false ->
  has_byte LF (x :: t) = true ->
  skipn (length (take_line LF (x :: t))) (hdr_text (Datatypes.S (length (x :: t))) p e (x :: t))
  = hdr_text (Datatypes.S (length (skipn (length (take_line LF (x :: t))) (x :: t)))) p true
      (skipn (length (take_line LF (x :: t))) (x :: t)).
Proof.
  intros p e x t Hg Hb.
  rewrite (hdr_text_unfold p e x t Hg). rewrite Hb.
  pose proof (take_line_nonempty LF x t) as Hn. set (d := x :: t) in *.
  rewrite skipn_app_le by lia. rewrite skipn_all, app_nil_l.
  pose proof (take_line_le LF d) as Hle.
  assert (Hd1 : length d = Datatypes.S (length t)) by reflexivity.
  apply hdr_text_fuel; rewrite ?skipn_length; lia.
Qed.

Lemma hdr_text_whole : forall p e x t,
  (e && negb (N.eqb x p)) = false ->
  has_byte LF (x :: t) = false -> hdr_text (Datatypes.S (length (x :: t))) p e (x :: t) = x :: t.
Proof.
  intros p e x t Hg Hb. rewrite (hdr_text_unfold p e x t Hg). rewrite Hb, app_nil_r.
  apply take_line_no_lf. exact Hb.
Qed.

(* the header bytes are the concatenation of C12's raw header lines [hdr_closed] *)
Lemma hdr_text_is_hdr_closed : forall p k d, length d < k ->
  hdr_text k p true d = concat (fst (hdr_closed k p d)).
Proof.
  intros p k. induction k as [|k IH]; intros d Hk; [lia|].
  cbn [hdr_text hdr_closed]. destruct d as [|x t]; [reflexivity|].
  cbn [andb]. destruct (N.eqb x p); cbn [negb]; [|reflexivity].
  set (d := x :: t) in *.
  pose proof (take_line_nonempty LF x t) as Hn. fold d in Hn.
  destruct (hdr_closed k p (skipn (length (take_line LF d)) d)) as [ls r] eqn:Ec.
  cbn [fst concat].
  destruct (has_byte LF d) eqn:Hb.
  - assert (Hd1 : length d = Datatypes.S (length t)) by reflexivity.
    rewrite IH by (rewrite skipn_length; lia). rewrite Ec. reflexivity.
  - assert (Hall : skipn (length (take_line LF d)) d = []).
    { rewrite (take_line_no_lf d Hb). apply skipn_all. }
    rewrite Hall in Ec. destruct k as [|k']; cbn [hdr_closed] in Ec; injection Ec as Hls _; subst ls;
      cbn [concat]; rewrite app_nil_r; reflexivity.
Qed.

Section AdapterProofs.
  Context {S : Type}.
  Variable rd : reader S.
  Variable Rep : S -> list N -> nat -> Prop.
  Hypothesis Hsim : simulates rd Rep.
  Variable cap : nat.
  Hypothesis Hcap : 1 <= cap.
  Variable prefix : N.

  Notation repb st d m := (rep_buf Rep st d m).

  (* the adapter state represents the header bytes of the data its BufReader represents *)
  Definition rep_hdr (hs : hstate) (dH : list N) (m : nat) : Prop :=
    exists d, repb (snd hs) d m /\ dH = hdr_text (Datatypes.S (length d)) prefix (fst hs) d.

  Theorem h_read_simulates : simulates (h_read rd cap prefix) rep_hdr.
  Proof.
    intros [e st] dH m n [d [HR HdH]]. cbn [fst snd] in HR, HdH.
    unfold h_read, h_fill_buf. cbn [fst snd].
    pose proof (br_fill_buf_spec rd Rep Hsim cap Hcap st d m HR) as Hfb.
    destruct (br_fill_buf rd cap st) as [[src|] st1].
    2:{ destruct Hfb as [m1 [Hm1 HR1]]. exists m1. split; [exact Hm1|]. exists d. cbn [fst snd]. auto. }
    destruct Hfb as [Hp [Hn [Hfst [m1 [Hm1 HR1]]]]].
    destruct (e && match src with x :: _ => negb (N.eqb x prefix) | [] => true end) eqn:Hc.
    - (* the peek says: not a header line (or the end) *)
      assert (HdH0 : dH = []).
      { subst dH. destruct src as [|x w].
        - assert (d = []) by (destruct d; [reflexivity|exfalso; apply Hn; [discriminate|reflexivity]]).
          subst d. reflexivity.
        - destruct (prefix_cons x w d Hp) as [r Hd]. subst d. cbn [hdr_text]. rewrite Hc. reflexivity. }
      cbn [length Nat.min firstn]. rewrite Nat.min_0_r. cbn [firstn Nat.ltb Nat.leb].
      split.
      + subst dH. split; [reflexivity|]. split; [cbn; lia|]. intros _ H. congruence.
      + exists m1. split; [exact Hm1|]. exists d. cbn [fst snd length skipn]. split; [|exact HdH].
        unfold br_consume. cbn [skipn]. destruct st1; exact HR1.
    - destruct src as [|x w].
      + (* the data is exhausted *)
        assert (d = []) by (destruct d; [reflexivity|exfalso; apply Hn; [discriminate|reflexivity]]).
        subst d. cbn [has_byte existsb length]. rewrite Nat.min_0_r. cbn [firstn Nat.ltb Nat.leb].
        cbn [hdr_text] in HdH. subst dH. split.
        * split; [reflexivity|]. split; [cbn; lia|]. intros _ H. congruence.
        * exists m1. split; [exact Hm1|]. exists []. cbn [fst snd length skipn hdr_text]. split; [|reflexivity].
          unfold br_consume. cbn [skipn]. destruct st1; exact HR1.
      + set (src := x :: w) in *.
        destruct (prefix_cons x w d Hp) as [t Hd].
        assert (Hg : (e && negb (N.eqb x prefix)) = false) by exact Hc.
        pose proof (window_split' src d Hp) as Hsplit.
        set (rest := skipn (length src) d) in *.
        assert (Hlen : length d = length src + length rest) by (rewrite Hsplit at 1; apply app_length).
        destruct (has_byte LF src) eqn:Hb.
        * (* the window holds the end of the line *)
          set (l := take_line LF src).
          assert (Htl : take_line LF d = l).
          { rewrite Hsplit. apply has_byte_true_take_line. exact Hb. }
          assert (Hbd : has_byte LF d = true) by (rewrite Hsplit, has_byte_app, Hb; reflexivity).
          assert (Hl1 : 0 < length l) by (apply take_line_nonempty).
          assert (Hls : length l <= length src) by (apply take_line_le).
          set (amt := Nat.min n (length l)).
          assert (Hpre : firstn amt l = firstn amt dH).
          { subst dH. rewrite Hd. rewrite (hdr_text_unfold prefix e x t Hg). rewrite <- Hd, Htl.
            rewrite firstn_app_le by (unfold amt; lia). reflexivity. }
          split.
          -- split; [|split].
             ++ rewrite firstn_length. fold amt. replace (Nat.min amt (length l)) with amt by (unfold amt; lia).
                exact Hpre.
             ++ rewrite firstn_length. unfold amt. lia.
             ++ intros Hn0 _. rewrite firstn_length. unfold amt. lia.
          -- exists m1. split; [exact Hm1|]. rewrite firstn_length. fold amt.
             replace (Nat.min amt (length l)) with amt by (unfold amt; lia).
             exists (skipn amt d). cbn [fst snd]. split.
             ++ apply (consume_k Rep st1 src); auto. unfold amt. lia.
             ++ subst dH. destruct (Nat.ltb_spec amt (length l)) as [Hlt|Hge].
                ** rewrite Hd. rewrite <- Htl in Hlt. rewrite Hd in Hlt.
                   exact (hdr_text_advance prefix e x t amt Hg Hlt).
                ** assert (Ea : amt = length l) by (unfold amt in *; lia). rewrite Ea, <- Htl. rewrite Hd.
                   rewrite Hd in Hbd. exact (hdr_text_line prefix e x t Hg Hbd).
        * (* no LF in the window: all of it is header text, the line goes on *)
          set (amt := Nat.min n (length src)).
          assert (Hs1 : 0 < length src) by (unfold src; cbn [length]; lia).
          assert (Htl : take_line LF d = src ++ take_line LF rest).
          { rewrite Hsplit at 1. apply has_byte_false_take_line. exact Hb. }
          assert (Hpre : firstn amt src = firstn amt dH).
          { subst dH. rewrite Hd. rewrite (hdr_text_unfold prefix e x t Hg). rewrite <- Hd, Htl.
            rewrite <- app_assoc. rewrite firstn_app_le by (unfold amt; lia). reflexivity. }
          split.
          -- split; [|split].
             ++ rewrite firstn_length. fold amt. replace (Nat.min amt (length src)) with amt by (unfold amt; lia).
                exact Hpre.
             ++ rewrite firstn_length. unfold amt. lia.
             ++ intros Hn0 _. rewrite firstn_length. unfold amt. lia.
          -- exists m1. split; [exact Hm1|]. rewrite firstn_length. fold amt.
             replace (Nat.min amt (length src)) with amt by (unfold amt; lia).
             exists (skipn amt d). cbn [fst snd]. split.
             ++ apply (consume_k Rep st1 src); auto. unfold amt. lia.
             ++ assert (He' : (if amt <? length src then false else false) = false)
                  by (destruct (amt <? length src); reflexivity).
                rewrite He'. subst dH.
                destruct (Nat.ltb_spec amt (length (take_line LF d))) as [Hlt|Hge].
                ** rewrite Hd. rewrite Hd in Hlt. exact (hdr_text_advance prefix e x t amt Hg Hlt).
                ** (* the window was the whole remaining data *)
                   assert (Hr0 : rest = []).
                   { rewrite Htl, app_length in Hge. destruct rest as [|y r']; [reflexivity|].
                     pose proof (take_line_nonempty LF y r'). unfold amt in Hge. lia. }
                   assert (Hds : d = src) by (rewrite Hsplit, Hr0, app_nil_r; reflexivity).
                   assert (Ea : amt = length d).
                   { rewrite Htl, Hr0 in Hge. cbn [take_line] in Hge. rewrite app_nil_r in Hge.
                     unfold amt in *. rewrite Hds. lia. }
                   assert (Hbd : has_byte LF d = false) by (rewrite Hds; exact Hb).
                   rewrite Ea. assert (Hs0 : skipn (length d) d = []) by apply skipn_all.
                   rewrite Hs0. change (hdr_text (Datatypes.S (length (@nil N))) prefix false []) with (@nil N).
                   rewrite Hd. rewrite Hd in Hbd. rewrite (hdr_text_whole prefix e x t Hg Hbd).
                   apply skipn_all.
  Qed.
End AdapterProofs.
