(* C12 — a read program run over ANY reader that simulates a delivery of the data returns what it
   returns on the data, and leaves the reader exactly at the bytes the program leaves -- also
   when it ends with an error.  Generic in the reader; instantiated for a plain Read (programs
   without read_until) and for a std BufReader of any capacity >= 1. *)
From Coq Require Import List NArith Arith Bool Lia.
From NV Require Import Base.LE Io.Source Io.ReadExact Io.ReadExactProofs Io.BufReader Io.BufReaderProofs
  Trunc.Stream Io.Prog.
From NV Require Async.ReadExact Async.ReadExactProofs.
Import ListNotations.
Local Open Scope nat_scope.

Lemma run_pure_bind : forall (A B : Type) (p : prog A) (f : A -> prog B) d,
  run_pure (bind p f) d
  = match run_pure p d with
    | (RVal a, r) => run_pure (f a) r
    | (RErr e, r) => (RErr e, r)
    end.
Proof.
  intros A B p f. induction p as [a|e|n k IH|n k IH|b k IH]; intros d; cbn [bind run_pure]; auto.
Qed.

Lemma run_pure_map_err : forall (A : Type) (f : ekind -> ekind) (p : prog A) d,
  run_pure (map_err f p) d
  = match run_pure p d with
    | (RVal a, r) => (RVal a, r)
    | (RErr e, r) => (RErr (f e), r)
    end.
Proof.
  intros A f p. induction p as [a|e|n k IH|n k IH|b k IH]; intros d; cbn [map_err run_pure]; auto.
Qed.

Lemma until_free_bind : forall (A B : Type) (p : prog A) (f : A -> prog B),
  until_free p -> (forall a, until_free (f a)) -> until_free (bind p f).
Proof.
  intros A B p f. induction p as [a|e|n k IH|n k IH|b k IH]; cbn [bind until_free]; intros Hp Hf; auto; try contradiction.
Qed.

Lemma until_free_map_err : forall (A : Type) (f : ekind -> ekind) (p : prog A),
  until_free p -> until_free (map_err f p).
Proof.
  intros A f p. induction p as [a|e|n k IH|n k IH|b k IH]; cbn [map_err until_free]; intros Hp; auto.
Qed.

Lemma until_free_repeat : forall (A : Type) n (p : prog A), until_free p -> until_free (p_repeat n p).
Proof.
  intros A n p Hp. induction n as [|n IH]; cbn [p_repeat until_free]; [exact I|].
  apply until_free_bind; [exact Hp|]. intros x. apply until_free_bind; [exact IH|]. intros xs. exact I.
Qed.

Lemma firstn_short_length : forall (n : nat) (d : list N), (length (firstn n d) <? n) = negb (n <=? length d).
Proof.
  intros n d. rewrite firstn_length.
  destruct (Nat.leb_spec n (length d)); destruct (Nat.ltb_spec (Nat.min n (length d)) n); cbn [negb]; try reflexivity; lia.
Qed.

(* the derived reads on the bytes *)
Lemma p_exact_pure : forall n d,
  run_pure (p_exact n) d
  = (if n <=? length d then RVal (firstn n d) else RErr UnexpectedEof, skipn n d).
Proof.
  intros n d. unfold p_exact. cbn [run_pure]. rewrite firstn_short_length.
  destruct (n <=? length d); reflexivity.
Qed.

Lemma p_exact_opt_pure : forall n d,
  run_pure (p_exact_opt n) d = (RVal (if n <=? length d then Some (firstn n d) else None), skipn n d).
Proof.
  intros n d. unfold p_exact_opt. cbn [run_pure]. rewrite firstn_short_length.
  destruct (n <=? length d); reflexivity.
Qed.

Lemma p_take_exact_pure : forall n d,
  run_pure (p_take_exact n) d
  = (if n <=? length d then RVal (firstn n d) else RErr UnexpectedEof, skipn n d).
Proof.
  intros n d. unfold p_take_exact. cbn [run_pure]. rewrite firstn_short_length.
  destruct (n <=? length d); reflexivity.
Qed.

Lemma p_le_pure : forall k d,
  run_pure (p_le k) d
  = (if k <=? length d then RVal (le_dec (firstn k d)) else RErr UnexpectedEof, skipn k d).
Proof.
  intros k d. unfold p_le. rewrite run_pure_bind, p_exact_pure.
  destruct (k <=? length d); reflexivity.
Qed.

Lemma until_free_p_exact : forall n, until_free (p_exact n).
Proof. intros n bs. destruct (length bs <? n); exact I. Qed.
Lemma until_free_p_exact_opt : forall n, until_free (p_exact_opt n).
Proof. intros n bs. exact I. Qed.
Lemma until_free_p_or_eof : forall n, until_free (p_or_eof n).
Proof. intros n bs. destruct bs; [exact I|]. destruct (length (n0 :: bs) <? n); exact I. Qed.
Lemma until_free_p_take_exact : forall n, until_free (p_take_exact n).
Proof. intros n bs. destruct (length bs <? n); exact I. Qed.
Lemma until_free_p_le : forall k, until_free (p_le k).
Proof. intros k. apply until_free_bind; [apply until_free_p_exact|]. intros a. exact I. Qed.

Section Spec.
  Context {S : Type}.
  Variable rd : reader S.
  Variable Rep : S -> list N -> nat -> Prop.
  Hypothesis Hsim : simulates rd Rep.
  Variable ru : N -> S -> list N * ures * S.
  Variable req : nat -> nat.
  Variable fuelf : S -> nat -> nat.
  Hypothesis Hfuel : forall s d m n, Rep s d m -> m + n < fuelf s n.

  (* what read_until has to do on this reader *)
  Definition ru_ok : Prop :=
    forall b s d m, Rep s d m ->
      exists s' m', ru b s = (take_line b d, UOk, s')
                    /\ Rep s' (skipn (length (take_line b d)) d) m' /\ m' <= m.

  Theorem run_rd_spec : forall (A : Type) (p : prog A), (until_free p \/ ru_ok) ->
    forall s d m, Rep s d m ->
    exists s' m', run_rd rd ru req fuelf p s = (fst (run_pure p d), s')
                  /\ Rep s' (snd (run_pure p d)) m' /\ m' <= m.
  Proof.
    intros A p. induction p as [a|e|n k IH|n k IH|b k IH]; intros Hu s d m HR; cbn [run_rd run_pure fst snd].
    - exists s, m. auto.
    - exists s, m. auto.
    - destruct (fill_loop_spec rd Rep Hsim (fuelf s n) s d m n [] HR (Hfuel s d m n HR))
        as [s1 [m1 [E [HR1 Hm1]]]].
      rewrite E. cbn [app].
      assert (Hu' : until_free (k (firstn n d)) \/ ru_ok).
      { destruct Hu as [Hu|Hu]; [left; apply Hu|right; exact Hu]. }
      destruct (IH (firstn n d) Hu' s1 (skipn n d) m1 HR1) as [s2 [m2 [E2 [HR2 Hm2]]]].
      exists s2, m2. split; [|split; [exact HR2|lia]].
      destruct (n <=? length d); exact E2.
    - destruct (NV.Async.ReadExactProofs.drain_loop_spec rd Rep Hsim req (fuelf s n) s d m n [] HR
                  (Hfuel s d m n HR)) as [s1 [m1 [E [HR1 Hm1]]]].
      rewrite E. cbn [app].
      assert (Hu' : until_free (k (firstn n d)) \/ ru_ok).
      { destruct Hu as [Hu|Hu]; [left; apply Hu|right; exact Hu]. }
      destruct (IH (firstn n d) Hu' s1 (skipn n d) m1 HR1) as [s2 [m2 [E2 [HR2 Hm2]]]].
      exists s2, m2. split; [|split; [exact HR2|lia]].
      destruct (n <=? length d); exact E2.
    - destruct Hu as [Hu|Hu]; [cbn [until_free] in Hu; contradiction|].
      destruct (Hu b s d m HR) as [s1 [m1 [E [HR1 Hm1]]]].
      rewrite E.
      destruct (IH (take_line b d) (or_intror Hu) s1 _ m1 HR1) as [s2 [m2 [E2 [HR2 Hm2]]]].
      exists s2, m2. split; [exact E2|]. split; [exact HR2|lia].
  Qed.
End Spec.

(* ---- over a plain Read ------------------------------------------------------------------------ *)
Theorem run_raw_spec :
  forall (S : Type) (rd : reader S) (Rep : S -> list N -> nat -> Prop), simulates rd Rep ->
  forall (req : nat -> nat) (fuelf : S -> nat -> nat),
    (forall s d m n, Rep s d m -> m + n < fuelf s n) ->
  forall (A : Type) (p : prog A), until_free p ->
  forall s d m, Rep s d m ->
    exists s' m', run_raw rd req fuelf p s = (fst (run_pure p d), s')
                  /\ Rep s' (snd (run_pure p d)) m' /\ m' <= m.
Proof.
  intros S rd Rep Hsim req fuelf Hfuel A p Hp s d m HR. unfold run_raw.
  exact (run_rd_spec rd Rep Hsim no_until req fuelf Hfuel A p (or_introl Hp) s d m HR).
Qed.

(* ---- over a std BufReader of capacity cap >= 1 ------------------------------------------------ *)
Theorem run_buf_spec :
  forall (S : Type) (rd : reader S) (Rep : S -> list N -> nat -> Prop), simulates rd Rep ->
  forall cap, 1 <= cap ->
  forall (req : nat -> nat) (fuelf : bstate S -> nat -> nat) (fuelu : bstate S -> nat),
    (forall st d m n, rep_buf Rep st d m -> m + n < fuelf st n) ->
    (forall st d m, rep_buf Rep st d m -> m + length d + 1 < fuelu st) ->
  forall (A : Type) (p : prog A) st d m, rep_buf Rep st d m ->
    exists st' m', run_buf rd cap req fuelf fuelu p st = (fst (run_pure p d), st')
                   /\ rep_buf Rep st' (snd (run_pure p d)) m' /\ m' <= m.
Proof.
  intros S rd Rep Hsim cap Hcap req fuelf fuelu Hfuel Hfuelu A p st d m HR. unfold run_buf.
  apply (run_rd_spec (br_read rd cap) (rep_buf Rep) (br_simulates rd Rep Hsim cap Hcap)
           (fun b st => read_until rd cap b (fuelu st) st) req fuelf Hfuel A p); [|exact HR].
  right. intros b st0 d0 m0 HR0.
  exact (read_until_spec rd Rep Hsim cap Hcap b (fuelu st0) st0 d0 m0 HR0 (Hfuelu st0 d0 m0 HR0)).
Qed.

(* two deliveries of the same data: same result *)
Corollary run_raw_two_deliveries :
  forall (S1 S2 : Type) (rd1 : reader S1) (rd2 : reader S2) Rep1 Rep2,
    simulates rd1 Rep1 -> simulates rd2 Rep2 ->
  forall req1 req2 fuelf1 fuelf2,
    (forall s d m n, Rep1 s d m -> m + n < fuelf1 s n) ->
    (forall s d m n, Rep2 s d m -> m + n < fuelf2 s n) ->
  forall (A : Type) (p : prog A), until_free p ->
  forall s1 s2 d m1 m2, Rep1 s1 d m1 -> Rep2 s2 d m2 ->
    fst (run_raw rd1 req1 fuelf1 p s1) = fst (run_raw rd2 req2 fuelf2 p s2).
Proof.
  intros S1 S2 rd1 rd2 Rep1 Rep2 H1 H2 req1 req2 f1 f2 Hf1 Hf2 A p Hp s1 s2 d m1 m2 HR1 HR2.
  destruct (run_raw_spec S1 rd1 Rep1 H1 req1 f1 Hf1 A p Hp s1 d m1 HR1) as [s1' [m1' [E1 _]]].
  destruct (run_raw_spec S2 rd2 Rep2 H2 req2 f2 Hf2 A p Hp s2 d m2 HR2) as [s2' [m2' [E2 _]]].
  rewrite E1, E2. reflexivity.
Qed.

(* ---- count-driven loops: the binary-built loop runs like the unary one -------------------------- *)
Definition peq {A : Type} (p q : prog A) : Prop := forall d, run_pure p d = run_pure q d.

Lemma peq_refl : forall (A : Type) (p : prog A), peq p p.
Proof. intros A p d. reflexivity. Qed.

Lemma peq_trans : forall (A : Type) (p q r : prog A), peq p q -> peq q r -> peq p r.
Proof. intros A p q r H1 H2 d. rewrite (H1 d). apply H2. Qed.

Lemma peq_sym : forall (A : Type) (p q : prog A), peq p q -> peq q p.
Proof. intros A p q H d. symmetry. apply H. Qed.

Lemma peq_bind : forall (A B : Type) (p q : prog A) (f g : A -> prog B),
  peq p q -> (forall a, peq (f a) (g a)) -> peq (bind p f) (bind q g).
Proof.
  intros A B p q f g Hp Hf d. rewrite !run_pure_bind, (Hp d).
  destruct (run_pure q d) as [[a|e] r]; [apply Hf|reflexivity].
Qed.

Lemma bind_assoc : forall (A B C : Type) (p : prog A) (f : A -> prog B) (g : B -> prog C),
  peq (bind (bind p f) g) (bind p (fun x => bind (f x) g)).
Proof.
  intros A B C p f g d. rewrite !run_pure_bind.
  destruct (run_pure p d) as [[a|e] r]; [rewrite run_pure_bind; reflexivity|reflexivity].
Qed.

Lemma p_iter_nat_add : forall (St : Type) (step : St -> prog St) a b s,
  peq (p_iter_nat (a + b) step s) (bind (p_iter_nat a step s) (p_iter_nat b step)).
Proof.
  intros St step a b. induction a as [|a IH]; intros s.
  - cbn [Nat.add p_iter_nat bind]. apply peq_refl.
  - cbn [Nat.add p_iter_nat]. apply peq_sym. eapply peq_trans; [apply bind_assoc|].
    apply peq_bind; [apply peq_refl|]. intros s1. apply peq_sym. apply IH.
Qed.

Lemma p_iter_pos_nat : forall (St : Type) (step : St -> prog St) x s,
  peq (p_iter_pos x step s) (p_iter_nat (Pos.to_nat x) step s).
Proof.
  intros St step x. induction x as [x IH|x IH|]; intros s.
  - replace (Pos.to_nat x~1) with (Datatypes.S (Pos.to_nat x + Pos.to_nat x)) by lia.
    cbn [p_iter_pos p_iter_nat]. apply peq_bind; [apply peq_refl|]. intros s1.
    eapply peq_trans; [|apply peq_sym; apply p_iter_nat_add].
    apply peq_bind; [apply IH|]. intros s2. apply IH.
  - replace (Pos.to_nat x~0) with (Pos.to_nat x + Pos.to_nat x) by lia.
    cbn [p_iter_pos]. eapply peq_trans; [|apply peq_sym; apply p_iter_nat_add].
    apply peq_bind; [apply IH|]. intros s2. apply IH.
  - cbn [p_iter_pos]. change (Pos.to_nat 1) with 1. cbn [p_iter_nat].
    intros d. rewrite run_pure_bind. destruct (run_pure (step s) d) as [[a|e] r]; reflexivity.
Qed.

Lemma p_iter_nat_eq : forall (St : Type) (step : St -> prog St) n s,
  peq (p_iter n step s) (p_iter_nat (N.to_nat n) step s).
Proof.
  intros St step n s. destruct n as [|x]; [apply peq_refl|].
  cbn [p_iter N.to_nat]. apply p_iter_pos_nat.
Qed.

Lemma p_rep_nat_acc : forall (A : Type) (p : prog A) n acc d,
  run_pure (bind (p_iter_nat n (fun acc => bind p (fun x => Ret (x :: acc))) acc) (fun a => Ret (rev a))) d
  = match run_pure (p_repeat n p) d with
    | (RVal xs, r) => (RVal (rev acc ++ xs), r)
    | (RErr e, r) => (RErr e, r)
    end.
Proof.
  intros A p n. induction n as [|n IH]; intros acc d.
  - cbn [p_iter_nat bind run_pure p_repeat]. rewrite app_nil_r. reflexivity.
  - cbn [p_iter_nat p_repeat].
    rewrite (bind_assoc _ _ _ (bind p (fun x => Ret (x :: acc))) _ _ d).
    rewrite (bind_assoc _ _ _ p _ _ d).
    rewrite run_pure_bind. rewrite (run_pure_bind _ _ p).
    destruct (run_pure p d) as [[x|e] r]; [|reflexivity].
    cbn [bind]. rewrite IH. rewrite run_pure_bind.
    destruct (run_pure (p_repeat n p) r) as [[xs|e] r']; [|reflexivity].
    cbn [run_pure rev]. rewrite <- app_assoc. reflexivity.
Qed.

(* [p_rep n p] runs like the unary [p_repeat (N.to_nat n) p] *)
Lemma p_rep_pure : forall (A : Type) (p : prog A) n, peq (p_rep n p) (p_repeat (N.to_nat n) p).
Proof.
  intros A p n d. unfold p_rep.
  rewrite (peq_bind _ _ _ _ _ _ (p_iter_nat_eq _ _ n []) (fun a => peq_refl _ (Ret (rev a))) d).
  rewrite p_rep_nat_acc. cbn [rev app].
  destruct (run_pure (p_repeat (N.to_nat n) p) d) as [[xs|e] r]; reflexivity.
Qed.

Lemma until_free_iter_pos : forall (St : Type) (step : St -> prog St) x,
  (forall s, until_free (step s)) -> forall s, until_free (p_iter_pos x step s).
Proof.
  intros St step x Hs. induction x as [x IH|x IH|]; intros s; cbn [p_iter_pos].
  - apply until_free_bind; [apply Hs|]. intros s1. apply until_free_bind; [apply IH|apply IH].
  - apply until_free_bind; [apply IH|apply IH].
  - apply Hs.
Qed.

Lemma until_free_iter : forall (St : Type) (step : St -> prog St) n,
  (forall s, until_free (step s)) -> forall s, until_free (p_iter n step s).
Proof.
  intros St step n Hs s. destruct n as [|x]; [exact I|]. apply until_free_iter_pos. exact Hs.
Qed.

Lemma until_free_rep : forall (A : Type) (p : prog A) n, until_free p -> until_free (p_rep n p).
Proof.
  intros A p n Hp. unfold p_rep. apply until_free_bind; [|intros a; exact I].
  apply until_free_iter. intros acc. apply until_free_bind; [exact Hp|]. intros x. exact I.
Qed.
