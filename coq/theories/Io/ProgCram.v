(* C12 — C19's read programs (NV.CramIdx.AsyncQuery.prog: PRead = read_exact, PTake =
   take(n).read_to_end) are read programs in the sense of NV.Io.Prog; the sync CRAM container
   reader (noodles-cram/src/io/reader/container.rs read_container + container/header.rs
   read_header, num/{itf8,ltf8}.rs) is C19's [p_read_container crc false]. *)
From Coq Require Import List NArith ZArith Arith Bool Lia.
From NV Require Import Base.LE Io.Source Trunc.Stream Trunc.Cram Bgzf.Crc32 Io.Prog Io.ProgProofs.
From NV Require CramIdx.AsyncQuery.
Import ListNotations.
Local Open Scope nat_scope.

Fixpoint of_c19 {A : Type} (p : AsyncQuery.prog A) : prog A :=
  match p with
  | AsyncQuery.PRet a => Ret a
  | AsyncQuery.PFail e => Fail e
  | AsyncQuery.PRead n k => Fill n (fun bs => if length bs <? n then Fail UnexpectedEof else of_c19 (k bs))
  | AsyncQuery.PTake n k => Take n (fun bs => of_c19 (k bs))
  end.

Lemma of_c19_pure : forall (A : Type) (p : AsyncQuery.prog A) d,
  match AsyncQuery.run_pure p d with
  | POk a r => run_pure (of_c19 p) d = (RVal a, r)
  | PErr e => fst (run_pure (of_c19 p) d) = RErr e
  end.
Proof.
  intros A p. induction p as [a|e|n k IH|n k IH]; intros d; cbn [of_c19 AsyncQuery.run_pure run_pure].
  - reflexivity.
  - reflexivity.
  - rewrite firstn_short_length. destruct (n <=? length d); cbn [negb]; [apply IH|reflexivity].
  - apply IH.
Qed.

Lemma until_free_of_c19 : forall (A : Type) (p : AsyncQuery.prog A), until_free (of_c19 p).
Proof.
  intros A p. induction p as [a|e|n k IH|n k IH]; cbn [of_c19 until_free]; auto.
  intros bs. destruct (length bs <? n); [exact I|apply IH].
Qed.

(* one read_container: (header, header length, body, true = the EOF container) *)
Definition p_cram_container (crc : list N -> N) : prog (chdr * N * list N * bool) :=
  of_c19 (AsyncQuery.p_read_container crc false).

(* `while reader.read_container(&mut c)? != 0`: the containers up to the EOF container *)
Definition p_cram_containers (crc : list N -> N) (fuel : nat) : prog (list (chdr * N * nat)) :=
  p_loop fuel (bind (p_cram_container crc) (fun x =>
    match x with
    | (h, hl, body, eof) => if eof then Ret None else Ret (Some (h, hl, length body))
    end)).
