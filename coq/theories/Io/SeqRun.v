(* C12 — entry points of the correspondence driver for the Read side of the FASTA sequence reader
   (kinds seqr / seqe): `fasta::io::Reader::new(BufReader::with_capacity(cap, scripted source))`,
   `sequence_reader()` used as a plain Read.  The fuel of the reader's own fill_buf loop is a
   constant of the run: the Interrupted events of the whole script + twice the data + 2. *)
From Coq Require Import List NArith Arith Bool.
From NV Require Import Io.Source Io.ReadExact Io.BufReader Io.FastaScan Io.Run Io.Prog Io.ProgRun Io.SeqRead.
Import ListNotations.
Local Open Scope nat_scope.

Definition seq_fuel (s : source) : nat := n_interrupted (s_script s) + 2 * length (s_data s) + 2.

(* a sequence of read calls with buffers of the given sizes: what each returns, bytes of the
   source not yet handed to the sequence reader *)
Definition run_seq_reads (cap : nat) (sizes : list nat) (s : source) : list rres * nat :=
  let '(l, s') := sq_reads src_read cap (seq_fuel s) sizes (true, false, ([], s)) in
  (l, b_left (snd s')).

(* read_sequence = read_to_end on the sequence reader, asking for [chunk] bytes at a time *)
Definition run_seq_read_to_end (cap chunk : nat) (s : source) : cres (list N) * nat :=
  let '(r, s') := run_raw (sq_read src_read cap (seq_fuel s)) (fun _ => chunk) (fun _ n => n + 1)
                    (Take (Datatypes.S (length (s_data s))) (fun bs => Ret bs)) (true, false, ([], s)) in
  (cres_of r, b_left (snd s')).
