(* C12 — schedule independence of the read_exact family.

   [simulates rd Rep]: the reader behaves like *some* delivery of the bytes it represents:
   [Rep s d m] = "state s still has exactly the bytes d to deliver and at most m Interrupted
   results pending".  One read either reports Interrupted (and m decreases) or returns a
   non-empty prefix of d no longer than the buffer (empty only when d is exhausted or the
   buffer is empty).  Every schedule of [Source] and every BufReader over one satisfy it; the
   results below therefore do not mention the script at all. *)
From Coq Require Import List NArith Arith Lia.
From NV Require Import Io.Source Io.ReadExact.
Import ListNotations.

Definition ok_step (d : list N) (n : nat) (bs : list N) : Prop :=
  bs = firstn (length bs) d /\ length bs <= n /\ (0 < n -> d <> [] -> 0 < length bs).

Definition simulates {S : Type} (rd : reader S) (Rep : S -> list N -> nat -> Prop) : Prop :=
  forall s d m n, Rep s d m ->
    match rd s n with
    | (RInt, s') => exists m', m' < m /\ Rep s' d m'
    | (ROk bs, s') => ok_step d n bs /\ exists m', m' <= m /\ Rep s' (skipn (length bs) d) m'
    end.

(* ---- the scripted source is such a reader, for every script *)
Definition rep_src (s : source) (d : list N) (m : nat) : Prop :=
  s_data s = d /\ n_interrupted (s_script s) = m.

Lemma firstn_length_le_id : forall (A : Type) (k : nat) (l : list A),
  firstn k l = firstn (length (firstn k l)) l.
Proof.
  intros A k l. rewrite firstn_length.
  destruct (Nat.le_ge_cases k (length l)) as [H|H].
  - rewrite Nat.min_l by exact H. reflexivity.
  - rewrite Nat.min_r by exact H. rewrite !firstn_all2; auto.
Qed.

Lemma src_simulates : simulates src_read rep_src.
Proof.
  intros s d m n [Hd Hm]. unfold src_read.
  destruct s as [dat sc]; cbn [s_data s_script] in *. subst dat.
  destruct sc as [|e sc].
  - split.
    + repeat split.
      * apply firstn_length_le_id.
      * rewrite firstn_length. lia.
      * intros Hn Hne. rewrite firstn_length. destruct d; [congruence|cbn [length]; lia].
    + exists m. split; [lia|]. split; cbn [s_data s_script]; [|exact Hm].
      rewrite firstn_length.
      destruct (Nat.le_ge_cases n (length d)) as [H|H].
      * rewrite Nat.min_l by exact H. reflexivity.
      * rewrite Nat.min_r by exact H. rewrite !skipn_all2; auto.
  - destruct e as [k|].
    + cbn [n_interrupted] in Hm. split.
      * repeat split.
        -- apply firstn_length_le_id.
        -- rewrite firstn_length. lia.
        -- intros Hn Hne. rewrite firstn_length. destruct d; [congruence|cbn [length]; lia].
      * exists m. split; [lia|]. split; cbn [s_data s_script]; [|exact Hm].
        rewrite firstn_length.
        set (q := Nat.min (Nat.max k 1) n).
        destruct (Nat.le_ge_cases q (length d)) as [H|H].
        -- rewrite Nat.min_l by exact H. reflexivity.
        -- rewrite Nat.min_r by exact H. rewrite !skipn_all2; auto.
    + cbn [n_interrupted] in Hm. exists (n_interrupted sc). split; [lia|].
      split; reflexivity.
Qed.

(* ---- the fill loop *)
Lemma firstn_split_at : forall (A : Type) (k n : nat) (l : list A), k <= n ->
  firstn n l = firstn k l ++ firstn (n - k) (skipn k l).
Proof.
  intros A k. induction k as [|k IH]; intros n l Hk.
  - cbn [firstn skipn app]. rewrite Nat.sub_0_r. reflexivity.
  - destruct n as [|n]; [lia|]. destruct l as [|x l].
    + cbn [skipn firstn app]. rewrite firstn_nil. reflexivity.
    + cbn [firstn skipn app Nat.sub]. f_equal. apply IH. lia.
Qed.

Lemma skipn_skipn_add : forall (A : Type) (k j : nat) (l : list A),
  skipn j (skipn k l) = skipn (k + j) l.
Proof.
  intros A k. induction k as [|k IH]; intros j l.
  - reflexivity.
  - destruct l as [|x l].
    + cbn [skipn Nat.add]. rewrite skipn_nil. reflexivity.
    + cbn [skipn Nat.add]. apply IH.
Qed.

Section Generic.
  Context {S : Type}.
  Variable rd : reader S.
  Variable Rep : S -> list N -> nat -> Prop.
  Hypothesis Hsim : simulates rd Rep.

  Lemma fill_loop_spec : forall fuel s d m n acc,
    Rep s d m -> m + n < fuel ->
    exists s' m',
      fill_loop rd fuel s n acc
        = (acc ++ firstn n d, if n <=? length d then Filled else HitEof, s')
      /\ Rep s' (skipn n d) m' /\ m' <= m.
  Proof.
    induction fuel as [|fuel IH]; intros s d m n acc HR Hf; [lia|].
    destruct n as [|n].
    - cbn [fill_loop firstn skipn]. rewrite app_nil_r. exists s, m.
      cbn [Nat.leb]. auto.
    - cbn [fill_loop]. pose proof (Hsim s d m (Datatypes.S n) HR) as Hs.
      destruct (rd s (Datatypes.S n)) as [[bs|] s'].
      + destruct Hs as [[Hpre [Hle Hpos]] [m' [Hm' HR']]].
        destruct bs as [|b bs].
        * (* Ok(0): data exhausted *)
          assert (Hd : d = []).
          { destruct d as [|x d]; [reflexivity|]. exfalso.
            assert (0 < @length N []) by (apply Hpos; [lia|congruence]). cbn [length] in *; lia. }
          subst d. cbn [length skipn] in HR'. exists s', m'.
          rewrite firstn_nil, app_nil_r, skipn_nil. cbn [length Nat.leb]. auto.
        * set (k := length (b :: bs)) in *.
          assert (Hk1 : 0 < k) by (unfold k; cbn [length]; lia).
          assert (Hkd : k <= length d).
          { unfold k at 1. rewrite Hpre. rewrite firstn_length. lia. }
          destruct (IH s' (skipn k d) m' (Datatypes.S n - k) (acc ++ b :: bs) HR' ltac:(lia))
            as [s'' [m'' [E [HR'' Hm'']]]].
          exists s'', m''. rewrite E. split; [|split; [|lia]].
          -- assert (E1 : (acc ++ b :: bs) ++ firstn (Datatypes.S n - k) (skipn k d)
                          = acc ++ firstn (Datatypes.S n) d).
             { rewrite <- app_assoc. f_equal.
               rewrite (firstn_split_at N k (Datatypes.S n) d Hle). f_equal. exact Hpre. }
             assert (E2 : (Datatypes.S n - k <=? length (skipn k d)) = (Datatypes.S n <=? length d)).
             { rewrite skipn_length.
               destruct (Nat.leb_spec (Datatypes.S n - k) (length d - k));
               destruct (Nat.leb_spec (Datatypes.S n) (length d)); try reflexivity; lia. }
             rewrite E1, E2. reflexivity.
          -- rewrite skipn_skipn_add in HR''.
             replace (k + (Datatypes.S n - k)) with (Datatypes.S n) in HR'' by lia. exact HR''.
      + destruct Hs as [m' [Hm' HR']].
        destruct (IH s' d m' (Datatypes.S n) acc HR' ltac:(lia)) as [s'' [m'' [E [HR'' Hm'']]]].
        exists s'', m''. rewrite E. split; [reflexivity|]. split; [exact HR''|lia].
  Qed.

  (* read_exact: the outcome depends only on the represented data *)
  Theorem read_exact_spec : forall fuel s d m n,
    Rep s d m -> m + n < fuel ->
    exists s' m',
      read_exact rd fuel s n
        = (firstn n d, if n <=? length d then XOk else XUnexpectedEof, s')
      /\ Rep s' (skipn n d) m' /\ m' <= m.
  Proof.
    intros fuel s d m n HR Hf.
    destruct (fill_loop_spec fuel s d m n [] HR Hf) as [s' [m' [E [HR' Hm']]]].
    exists s', m'. unfold read_exact. rewrite E. cbn [app].
    destruct (n <=? length d); auto.
  Qed.

  Definition eof_class (n : nat) (d : list N) : eres :=
    if n <=? length d then EFull else match d with [] => ENothing | _ => EPartial end.

  Theorem read_exact_or_eof_spec : forall fuel s d m n,
    Rep s d m -> m + n < fuel ->
    exists s' m',
      read_exact_or_eof rd fuel s n = (firstn n d, eof_class n d, s')
      /\ Rep s' (skipn n d) m' /\ m' <= m.
  Proof.
    intros fuel s d m n HR Hf.
    destruct (fill_loop_spec fuel s d m n [] HR Hf) as [s' [m' [E [HR' Hm']]]].
    exists s', m'. unfold read_exact_or_eof, eof_class. rewrite E. cbn [app].
    destruct (Nat.leb_spec n (length d)) as [H|H]; [auto|].
    split; [|auto]. f_equal. f_equal.
    rewrite firstn_all2 by lia. destruct d; reflexivity.
  Qed.
End Generic.
