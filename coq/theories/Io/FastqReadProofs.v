(* C12 — the delivered FASTQ record reader (FastqRead) returns, for every delivery of the data
   through a BufReader of any capacity >= 1, exactly what C11's whole-buffer model
   [Fastq.read_qrec] / [Fastq.read_qrecs] returns on the data, and leaves the reader at the rest. *)
From Coq Require Import List NArith Arith Bool Lia.
From NV Require Import Io.Source Io.ReadExact Io.ReadExactProofs Io.BufReader Io.BufReaderProofs
  Io.FastaScan Io.FastaScanProofs Io.FastaIndexProofs Io.FastqRead.
From NV Require Fasta.Layout Fasta.Fastq.
Import ListNotations.

(* ---- vocabulary *)
Lemma qtake_line : forall s,
  Fastq.take_line s = (take_line LF s, skipn (length (take_line LF s)) s).
Proof.
  induction s as [|b t IH]; [reflexivity|].
  cbn [Fastq.take_line take_line]. change Layout.LF with LF.
  destruct (N.eqb b LF); [reflexivity|]. rewrite IH. reflexivity.
Qed.

Lemma qread_line : forall s,
  Fastq.read_line s = (strip_eol (take_line LF s), skipn (length (take_line LF s)) s).
Proof.
  intros s. unfold Fastq.read_line. rewrite qtake_line, strip_eol_def_content. reflexivity.
Qed.

Lemma scan_none : forall w n r0, Fastq.scan_name w = (n, None, r0) ->
  n = w /\ r0 = [] /\
  forall r, Fastq.scan_name (w ++ r)
            = (w ++ fst (fst (Fastq.scan_name r)), snd (fst (Fastq.scan_name r)), snd (Fastq.scan_name r)).
Proof.
  induction w as [|b t IH]; intros n r0 H.
  - cbn [Fastq.scan_name] in H. injection H as <- <-. repeat split.
    intros r. cbn [app]. destruct (Fastq.scan_name r) as [[a c] e]. reflexivity.
  - cbn [Fastq.scan_name] in H.
    destruct ((b =? Layout.SP)%N || (b =? Fastq.HT)%N || (b =? Layout.LF)%N) eqn:Hd; [discriminate|].
    destruct (Fastq.scan_name t) as [[n1 dl1] r1] eqn:E.
    injection H as <- Hdl <-. subst dl1.
    destruct (IH n1 r1 eq_refl) as [Hn [Hr Hall]]. subst n1 r1. repeat split.
    intros r. cbn [app Fastq.scan_name]. rewrite Hd. rewrite Hall. reflexivity.
Qed.

Lemma scan_some : forall w n b rw, Fastq.scan_name w = (n, Some b, rw) ->
  w = n ++ b :: rw /\ forall r, Fastq.scan_name (w ++ r) = (n, Some b, rw ++ r).
Proof.
  induction w as [|c t IH]; intros n b rw H.
  - cbn [Fastq.scan_name] in H. discriminate.
  - cbn [Fastq.scan_name] in H.
    destruct ((c =? Layout.SP)%N || (c =? Fastq.HT)%N || (c =? Layout.LF)%N) eqn:Hd.
    + injection H as <- <- <-. split; [reflexivity|]. intros r. cbn [app Fastq.scan_name].
      rewrite Hd. reflexivity.
    + destruct (Fastq.scan_name t) as [[n1 dl1] r1] eqn:E.
      injection H as <- Hdl <-. subst dl1.
      destruct (IH n1 b r1 eq_refl) as [Hw Hall]. split; [cbn [app]; f_equal; exact Hw|].
      intros r. cbn [app Fastq.scan_name]. rewrite Hd. rewrite Hall. reflexivity.
Qed.

Section FastqProofs.
  Context {S : Type}.
  Variable rd : reader S.
  Variable Rep : S -> list N -> nat -> Prop.
  Hypothesis Hsim : simulates rd Rep.
  Variable cap : nat.
  Hypothesis Hcap : 1 <= cap.

  Notation repb st d m := (rep_buf Rep st d m).

  Lemma d_read_u8_spec : forall fuel st d m, repb st d m -> m + 1 < fuel ->
    exists st' m',
      d_read_u8 rd cap fuel st = (match d with [] => U8Eof | b :: _ => U8 b end, st')
      /\ repb st' (skipn 1 d) m' /\ m' <= m.
  Proof.
    intros fuel st d m HR Hf. unfold d_read_u8.
    destruct (read_exact_spec (br_read rd cap) (rep_buf Rep) (br_simulates rd Rep Hsim cap Hcap)
                fuel st d m 1 HR Hf) as [st' [m' [E [HR' Hm']]]].
    rewrite E. exists st', m'. split; [|split; [exact HR'|exact Hm']].
    destruct d as [|b t]; reflexivity.
  Qed.

  Lemma window_split : forall (src d : list N), src = firstn (length src) d ->
    d = src ++ skipn (length src) d.
  Proof.
    intros src d Hp. pose proof (firstn_skipn (length src) d) as Hx. rewrite <- Hp in Hx.
    apply eq_sym. exact Hx.
  Qed.

  (* the name loop = C11's scan_name on the data *)
  Lemma d_name_loop_spec : forall fuel st d m acc len,
    repb st d m -> m + length d + 1 < fuel ->
    exists st' m',
      d_name_loop rd cap fuel st acc len
        = (SOk, acc ++ fst (fst (Fastq.scan_name d)), snd (fst (Fastq.scan_name d)),
           len + (length d - length (snd (Fastq.scan_name d))), st')
      /\ repb st' (snd (Fastq.scan_name d)) m' /\ m' <= m
      /\ length (snd (Fastq.scan_name d)) <= length d.
  Proof.
    induction fuel as [|fuel IH]; intros st d m acc len HR Hf; [lia|].
    cbn [d_name_loop].
    pose proof (br_fill_buf_spec rd Rep Hsim cap Hcap st d m HR) as Hfb.
    destruct (br_fill_buf rd cap st) as [[src|] st1].
    2:{ destruct Hfb as [m1 [Hm1 HR1]].
        destruct (IH st1 d m1 acc len HR1 ltac:(lia)) as [st' [m' [E [HR' [Hm' Hl]]]]].
        exists st', m'. split; [exact E|]. split; [exact HR'|]. split; [lia|exact Hl]. }
    destruct Hfb as [Hp [Hn [Hfst [m1 [Hm1 HR1]]]]].
    destruct src as [|x w'].
    - assert (d = []) by (destruct d; [reflexivity|exfalso; apply Hn; [discriminate|reflexivity]]).
      subst d. exists st1, m1. cbn [Fastq.scan_name fst snd length]. rewrite app_nil_r.
      rewrite Nat.add_0_r.
      split; [reflexivity|]. split; [exact HR1|]. split; [exact Hm1|lia].
    - set (src := x :: w') in *.
      pose proof (window_split src d Hp) as Hd.
      set (rest := skipn (length src) d) in *.
      assert (Hlr : length d = length src + length rest) by (rewrite Hd at 1; apply app_length).
      destruct (Fastq.scan_name src) as [[n dl] rw] eqn:Esc.
      destruct dl as [b|].
      + destruct (scan_some src n b rw Esc) as [Hw Hall].
        assert (Hsc : Fastq.scan_name d = (n, Some b, rw ++ rest)) by (rewrite Hd at 1; apply Hall).
        rewrite Hsc. cbn [fst snd].
        pose proof (f_equal (@length N) Hw) as Hx. rewrite app_length in Hx. cbn [length] in Hx.
        exists (br_consume (Datatypes.S (length n)) st1), m1.
        split; [|split; [|split; [exact Hm1|]]].
        * rewrite app_length. repeat (f_equal; try lia).
        * replace (rw ++ rest) with (skipn (Datatypes.S (length n)) d).
          { apply (consume_k Rep st1 src); auto. lia. }
          assert (Hdd : d = n ++ [b] ++ (rw ++ rest)).
          { rewrite Hd. rewrite Hw. rewrite <- !app_assoc. reflexivity. }
          rewrite Hdd at 1.
          replace (Datatypes.S (length n)) with (length n + 1) by lia.
          rewrite <- skipn_skipn_add. rewrite skipn_app_le by lia.
          rewrite skipn_all. reflexivity.
        * rewrite app_length. lia.
      + destruct (scan_none src n rw Esc) as [Hn' [Hrw Hall]]. subst n rw.
        assert (HR2 : repb (br_consume (length src) st1) rest m1)
          by (apply (consume_k Rep st1 src); auto).
        destruct (IH _ rest m1 (acc ++ src) (len + length src) HR2) as [st' [m' [E [HR' [Hm' Hl]]]]].
        { unfold src in *. cbn [length] in *. lia. }
        assert (Hsc : Fastq.scan_name d = (src ++ fst (fst (Fastq.scan_name rest)),
                  snd (fst (Fastq.scan_name rest)), snd (Fastq.scan_name rest)))
          by (rewrite Hd at 1; apply Hall).
        exists st', m'. rewrite E. rewrite Hsc. cbn [fst snd].
        rewrite <- app_assoc. split; [repeat (f_equal; try lia)|]. split; [exact HR'|]. split; lia.
  Qed.

  Lemma d_consume_line_eol : forall fuel st d m, repb st d m -> m < fuel ->
    exists st' m', d_consume_line rd cap fuel st true = (SOk, st') /\ repb st' d m' /\ m' <= m.
  Proof.
    induction fuel as [|fuel IH]; intros st d m HR Hf; [lia|].
    cbn [d_consume_line].
    pose proof (br_fill_buf_spec rd Rep Hsim cap Hcap st d m HR) as Hfb.
    destruct (br_fill_buf rd cap st) as [[src|] st1].
    - destruct Hfb as [_ [_ [_ [m1 [Hm1 HR1]]]]].
      destruct src; exists st1, m1; (split; [reflexivity|split; [exact HR1|exact Hm1]]).
    - destruct Hfb as [m1 [Hm1 HR1]].
      destruct (IH st1 d m1 HR1 ltac:(lia)) as [st' [m' [E [HR' Hm']]]].
      exists st', m'. split; [exact E|]. split; [exact HR'|lia].
  Qed.

  Lemma d_consume_line_spec : forall fuel st d m, repb st d m -> m + length d + 1 < fuel ->
    exists st' m', d_consume_line rd cap fuel st false = (SOk, st')
                   /\ repb st' (skipn (length (take_line LF d)) d) m' /\ m' <= m.
  Proof.
    induction fuel as [|fuel IH]; intros st d m HR Hf; [lia|].
    cbn [d_consume_line].
    pose proof (br_fill_buf_spec rd Rep Hsim cap Hcap st d m HR) as Hfb.
    destruct (br_fill_buf rd cap st) as [[src|] st1].
    2:{ destruct Hfb as [m1 [Hm1 HR1]].
        destruct (IH st1 d m1 HR1 ltac:(lia)) as [st' [m' [E [HR' Hm']]]].
        exists st', m'. split; [exact E|]. split; [exact HR'|lia]. }
    destruct Hfb as [Hp [Hn [Hfst [m1 [Hm1 HR1]]]]].
    destruct src as [|x w'].
    - assert (d = []) by (destruct d; [reflexivity|exfalso; apply Hn; [discriminate|reflexivity]]).
      subst d. exists st1, m1. cbn [take_line length skipn].
      split; [reflexivity|]. split; [exact HR1|exact Hm1].
    - set (src := x :: w') in *.
      pose proof (window_split src d Hp) as Hd.
      set (rest := skipn (length src) d) in *.
      destruct (has_byte LF src) eqn:Hb.
      + assert (Htl : take_line LF d = take_line LF src).
        { rewrite Hd. apply has_byte_true_take_line. exact Hb. }
        pose proof (take_line_length_le cap Hcap LF src) as Hle.
        assert (HR2 : repb (br_consume (length (take_line LF src)) st1)
                        (skipn (length (take_line LF src)) d) m1)
          by (apply (consume_k Rep st1 src); auto).
        destruct (d_consume_line_eol fuel _ _ m1 HR2 ltac:(lia)) as [st' [m' [E [HR' Hm']]]].
        exists st', m'. rewrite E, Htl. split; [reflexivity|]. split; [exact HR'|lia].
      + assert (HR2 : repb (br_consume (length src) st1) rest m1)
          by (apply (consume_k Rep st1 src); auto).
        assert (Hlr : length d = length src + length rest) by (rewrite Hd at 1; apply app_length).
        destruct (IH _ rest m1 HR2) as [st' [m' [E [HR' Hm']]]].
        { unfold src in *. cbn [length] in *. lia. }
        exists st', m'. rewrite E. split; [reflexivity|]. split; [|lia].
        assert (Htl : take_line LF d = src ++ take_line LF rest).
        { rewrite Hd at 1. apply has_byte_false_take_line. exact Hb. }
        rewrite Htl, app_length.
        replace (skipn (length src + length (take_line LF rest)) d)
          with (skipn (length (take_line LF rest)) rest); [exact HR'|].
        unfold rest. rewrite skipn_skipn_add. reflexivity.
  Qed.
  Lemma skipn_len_le : forall (k : nat) (l : list N), length (skipn k l) <= length l.
  Proof. intros k l. rewrite skipn_length. lia. Qed.

  Lemma d_read_definition_spec : forall fuel st d m, repb st d m -> m + length d + 1 < fuel ->
    match Fastq.read_definition d with
    | inl e => exists st', d_read_definition rd cap fuel st = (inl e, st')
    | inr None => exists st', d_read_definition rd cap fuel st = (inr None, st')
    | inr (Some (n, desc, rest)) =>
        exists st' m', d_read_definition rd cap fuel st
                         = (inr (Some (n, desc, length d - length rest)), st')
                       /\ repb st' rest m' /\ m' <= m /\ length rest < length d
    end.
  Proof.
    intros fuel st d m HR Hf. unfold d_read_definition, Fastq.read_definition.
    destruct (d_read_u8_spec fuel st d m HR ltac:(lia)) as [st1 [m1 [E1 [HR1 Hm1]]]].
    rewrite E1. destruct d as [|b t].
    - exists st1. reflexivity.
    - cbn [skipn] in HR1. change (b =? Fastq.AT)%N with (N.eqb b Fastq.AT).
      destruct (negb (N.eqb b Fastq.AT)); [exists st1; reflexivity|].
      cbn [length] in Hf.
      destruct (d_name_loop_spec fuel st1 t m1 [] 1 HR1 ltac:(lia)) as [st2 [m2 [E2 [HR2 [Hm2 Hl2]]]]].
      rewrite E2. cbn [app].
      destruct (Fastq.scan_name t) as [[n dl] r] eqn:Esc. cbn [fst snd] in *.
      destruct dl as [dd|].
      + change (dd =? Layout.LF)%N with (N.eqb dd Layout.LF).
        destruct (N.eqb dd Layout.LF).
        * exists st2, m2. split; [cbn [length]; repeat (f_equal; try lia)|]. split; [exact HR2|].
          cbn [length]. split; lia.
        * destruct (read_line_spec rd Rep Hsim cap Hcap fuel st2 r m2 HR2 ltac:(lia))
            as [st3 [m3 [E3 [HR3 Hm3]]]].
          rewrite E3. rewrite qread_line. exists st3, m3.
          pose proof (take_line_length_le cap Hcap LF r) as Htl.
          split; [rewrite skipn_length; cbn [length]; repeat (f_equal; try lia)|].
          split; [exact HR3|]. pose proof (skipn_len_le (length (take_line LF r)) r).
          cbn [length]. split; lia.
      + destruct (scan_none t n r Esc) as [_ [Hr _]]. subst r.
        destruct (read_line_spec rd Rep Hsim cap Hcap fuel st2 [] m2 HR2 ltac:(cbn [length]; lia))
          as [st3 [m3 [E3 [HR3 Hm3]]]].
        rewrite E3. exists st3, m3. split; [cbn [length take_line]; repeat (f_equal; try lia)|].
        split; [exact HR3|]. cbn [length]. split; lia.
  Qed.

  Lemma d_consume_plus_line_spec : forall fuel st d m, repb st d m -> m + length d + 1 < fuel ->
    match Fastq.consume_plus_line d with
    | inl e => exists st', d_consume_plus_line rd cap fuel st = (Some e, st')
    | inr rest => exists st' m', d_consume_plus_line rd cap fuel st = (None, st')
                                 /\ repb st' rest m' /\ m' <= m /\ length rest <= length d
    end.
  Proof.
    intros fuel st d m HR Hf. unfold d_consume_plus_line, Fastq.consume_plus_line.
    destruct (d_read_u8_spec fuel st d m HR ltac:(lia)) as [st1 [m1 [E1 [HR1 Hm1]]]].
    rewrite E1. destruct d as [|b t].
    - exists st1. reflexivity.
    - cbn [skipn] in HR1. change (b =? Fastq.PLUS)%N with (N.eqb b Fastq.PLUS).
      destruct (N.eqb b Fastq.PLUS); [|exists st1; reflexivity].
      cbn [length] in Hf.
      destruct (d_consume_line_spec fuel st1 t m1 HR1 ltac:(lia)) as [st2 [m2 [E2 [HR2 Hm2]]]].
      rewrite E2. rewrite qtake_line. cbn [snd]. exists st2, m2. split; [reflexivity|].
      split; [exact HR2|]. pose proof (skipn_len_le (length (take_line LF t)) t).
      cbn [length]. split; lia.
  Qed.

  (* read_record = C11's read_qrec on the data; the reader is left at the rest *)
  Lemma d_read_qrec_spec : forall fuel st d m, repb st d m -> m + length d + 1 < fuel ->
    match Fastq.read_qrec d with
    | inl e => exists st', d_read_qrec rd cap fuel st = (inl e, st')
    | inr None => exists st', d_read_qrec rd cap fuel st = (inr None, st')
    | inr (Some (r, rest)) =>
        exists st' m', d_read_qrec rd cap fuel st = (inr (Some r), st')
                       /\ repb st' rest m' /\ m' <= m /\ length rest < length d
    end.
  Proof.
    intros fuel st d m HR Hf. unfold d_read_qrec, Fastq.read_qrec.
    pose proof (d_read_definition_spec fuel st d m HR Hf) as HD.
    destruct (Fastq.read_definition d) as [e|[[[n desc] r1]|]].
    - destruct HD as [st1 E]. rewrite E. exists st1. reflexivity.
    - destruct HD as [st1 [m1 [E1 [HR1 [Hm1 Hl1]]]]]. rewrite E1.
      destruct (read_line_spec rd Rep Hsim cap Hcap fuel st1 r1 m1 HR1 ltac:(lia))
        as [st2 [m2 [E2 [HR2 Hm2]]]].
      rewrite E2. rewrite qread_line.
      set (r2 := skipn (length (take_line LF r1)) r1) in *.
      assert (Hl2 : length r2 <= length r1) by apply skipn_len_le.
      pose proof (d_consume_plus_line_spec fuel st2 r2 m2 HR2 ltac:(lia)) as HP.
      destruct (Fastq.consume_plus_line r2) as [e|r3].
      + destruct HP as [st3 E3]. rewrite E3. exists st3. reflexivity.
      + destruct HP as [st3 [m3 [E3 [HR3 [Hm3 Hl3]]]]]. rewrite E3.
        destruct (read_line_spec rd Rep Hsim cap Hcap fuel st3 r3 m3 HR3 ltac:(lia))
          as [st4 [m4 [E4 [HR4 Hm4]]]].
        rewrite E4. rewrite qread_line. exists st4, m4. split; [reflexivity|].
        split; [exact HR4|]. pose proof (skipn_len_le (length (take_line LF r3)) r3). split; lia.
    - destruct HD as [st1 E]. rewrite E. exists st1. reflexivity.
  Qed.

  (* Reader::records() = C11's read_qrecs on the data, for the same record fuel j *)
  Theorem d_read_qrecs_spec : forall j fuel st d m, repb st d m -> m + length d + 1 < fuel ->
    exists st', d_read_qrecs rd cap j fuel st = (Fastq.read_qrecs j d, st').
  Proof.
    induction j as [|j IH]; intros fuel st d m HR Hf.
    - exists st. reflexivity.
    - cbn [d_read_qrecs Fastq.read_qrecs].
      pose proof (d_read_qrec_spec fuel st d m HR Hf) as HS.
      destruct (Fastq.read_qrec d) as [e|[[r rest]|]].
      + destruct HS as [st1 E]. rewrite E. exists st1. reflexivity.
      + destruct HS as [st1 [m1 [E [HR1 [Hm1 Hl1]]]]]. rewrite E.
        destruct (IH fuel st1 rest m1 HR1 ltac:(lia)) as [st2 E2]. rewrite E2.
        destruct (Fastq.read_qrecs j rest) as [rs e]. exists st2. reflexivity.
      + destruct HS as [st1 E]. rewrite E. exists st1. reflexivity.
  Qed.
  (* fastq Indexer::index_record = C11's index_qrec on the data *)
  Lemma d_index_qrec_spec : forall fuel st d m off, repb st d m -> m + length d + 1 < fuel ->
    match Fastq.index_qrec d off with
    | inl e => exists st', d_index_qrec rd cap fuel st off = (inl e, st')
    | inr None => exists st', d_index_qrec rd cap fuel st off = (inr None, st')
    | inr (Some (r, off', rest)) =>
        exists st' m', d_index_qrec rd cap fuel st off = (inr (Some (r, off')), st')
                       /\ repb st' rest m' /\ m' <= m /\ length rest < length d
    end.
  Proof.
    intros fuel st d m off HR Hf. unfold d_index_qrec, Fastq.index_qrec.
    pose proof (d_read_definition_spec fuel st d m HR Hf) as HD.
    destruct (Fastq.read_definition d) as [e|[[[n desc] r1]|]].
    - destruct HD as [st1 E]. rewrite E. exists st1. reflexivity.
    - destruct HD as [st1 [m1 [E1 [HR1 [Hm1 Hl1]]]]]. rewrite E1.
      replace (N.of_nat (length d - length r1)) with (Layout.len d - Layout.len r1)%N
        by (unfold Layout.len; rewrite Nat2N.inj_sub; reflexivity).
      destruct (Fastq.utf8_valid n); [|exists st1; reflexivity].
      destruct (read_until_spec rd Rep Hsim cap Hcap LF fuel st1 r1 m1 HR1 ltac:(lia))
        as [st2 [m2 [E2 [HR2 Hm2]]]].
      rewrite E2. rewrite (qtake_line r1).
      set (r2 := skipn (length (take_line LF r1)) r1) in *.
      assert (Hl2 : length r2 <= length r1) by apply skipn_len_le.
      destruct (read_until_spec rd Rep Hsim cap Hcap LF fuel st2 r2 m2 HR2 ltac:(lia))
        as [st3 [m3 [E3 [HR3 Hm3]]]].
      rewrite E3. rewrite (qtake_line r2).
      set (r3 := skipn (length (take_line LF r2)) r2) in *.
      assert (Hl3 : length r3 <= length r2) by apply skipn_len_le.
      destruct (read_until_spec rd Rep Hsim cap Hcap LF fuel st3 r3 m3 HR3 ltac:(lia))
        as [st4 [m4 [E4 [HR4 Hm4]]]].
      rewrite E4. rewrite (qtake_line r3).
      exists st4, m4. split; [reflexivity|]. split; [exact HR4|].
      pose proof (skipn_len_le (length (take_line LF r3)) r3). split; lia.
    - destruct HD as [st1 E]. rewrite E. exists st1. reflexivity.
  Qed.

  Theorem d_index_qrecs_spec : forall j fuel st d m off, repb st d m -> m + length d + 1 < fuel ->
    exists st', d_index_qrecs rd cap j fuel st off = (Fastq.index_qrecs j d off, st').
  Proof.
    induction j as [|j IH]; intros fuel st d m off HR Hf.
    - exists st. reflexivity.
    - cbn [d_index_qrecs Fastq.index_qrecs].
      pose proof (d_index_qrec_spec fuel st d m off HR Hf) as HS.
      destruct (Fastq.index_qrec d off) as [e|[[[r off'] rest]|]].
      + destruct HS as [st1 E]. rewrite E. exists st1. reflexivity.
      + destruct HS as [st1 [m1 [E [HR1 [Hm1 Hl1]]]]]. rewrite E.
        destruct (IH fuel st1 rest m1 off' HR1 ltac:(lia)) as [st2 E2]. rewrite E2.
        destruct (Fastq.index_qrecs j rest off') as [rs e]. exists st2. reflexivity.
      + destruct HS as [st1 E]. rewrite E. exists st1. reflexivity.
  Qed.
End FastqProofs.
