(* C12 — entry points of the correspondence driver for the read programs: a program run over the
   scripted source (raw, cap = 0) or over a BufReader of capacity cap on top of it; read_to_end
   asks for [chunk] bytes at a time.  Result + number of bytes not yet handed to the caller. *)
From Coq Require Import List NArith Arith Bool.
From NV Require Import Io.Source Io.ReadExact Io.BufReader Io.Run Trunc.Stream Trunc.Cram Bgzf.Crc32
  Io.Prog Io.IndexProg Io.ProgCram Io.CsiProg Io.HeaderRead Io.HeaderAdapter.
From NV Require Index.Layout Index.TextIndex.
Import ListNotations.
Local Open Scope nat_scope.

Definition err_code (e : ekind) : nat :=
  match e with InvalidData => 1 | UnexpectedEof => 2 | OutOfFuel => 3 end.
Definition cres_of {A : Type} (r : rr A) : cres A :=
  match r with RVal a => COk a | RErr e => CErr (err_code e) end.

(* fuel of one read_exact / read_to_end loop: the Interrupted events of the whole script (they
   only get fewer) + the bytes wanted + 1 -- independent of the state, so that it costs nothing
   to compute at every read *)
Definition run_prog {A : Type} (cap chunk : nat) (p : prog A) (s : source) : cres A * nat :=
  let f0 := n_interrupted (s_script s) in
  if cap =? 0 then
    let '(r, s') := run_raw src_read (fun _ => chunk) (fun _ n => f0 + n + 1) p s in (cres_of r, src_left s')
  else
    let '(r, st') := run_buf src_read cap (fun _ => chunk) (fun _ n => f0 + n + 1)
                       (fun st => f0 + b_left st + 2) p ([], s) in
    (cres_of r, b_left st').

Definition run_gzi (cap : nat) (s : source) := run_prog cap 32 p_gzi s.
Definition run_bai (cap : nat) (s : source) := run_prog cap 32 p_bai s.
Definition run_fai (cap : nat) (s : source) := run_prog cap 32 (p_fai (Datatypes.S (length (s_data s)))) s.
Definition run_crai_text (cap : nat) (s : source) :=
  run_prog cap 32 (p_crai_text (Datatypes.S (length (s_data s)))) s.

(* the site indexer (bcf Fields::index, not a reader) as a table: site bytes -> 0 accepted /
   1 InvalidData / 2 UnexpectedEof; a site that is not in the table shows as OutOfFuel *)
Fixpoint site_table (tab : list (list N * nat)) (site : list N) : option ekind :=
  match tab with
  | [] => Some OutOfFuel
  | (g, c) :: t =>
      if bytes_eqb g site then
        match c with 0 => None | 1 => Some InvalidData | _ => Some UnexpectedEof end
      else site_table t site
  end.

Definition run_bcf (tab : list (list N * nat)) (cap chunk : nat) (s : source) :=
  run_prog cap chunk (p_bcf_records (site_table tab) (Datatypes.S (length (s_data s)))) s.

Definition run_cram (cap chunk : nat) (s : source) :=
  run_prog cap chunk (p_cram_containers crc32 (Datatypes.S (length (s_data s)))) s.

(* csi::io::reader::index::read_header (the header of a tabix index; the aux block of a CSI index) *)
Definition run_csi_header (cap chunk : nat) (s : source) := run_prog cap chunk g_header s.

(* ---- the SAM / VCF header adapter used as a plain Read (header_reader().read(..)) *)
(* a sequence of read calls with buffers of the given sizes: what each returns, bytes left *)
Fixpoint h_reads (cap : nat) (prefix : N) (sizes : list nat) (hs : hstate (S := source))
  : list rres * hstate (S := source) :=
  match sizes with
  | [] => ([], hs)
  | n :: t =>
      let '(r, hs1) := h_read src_read cap prefix hs n in
      let '(l, hs2) := h_reads cap prefix t hs1 in (r :: l, hs2)
  end.

Definition run_hdr_reads (prefix : N) (cap : nat) (sizes : list nat) (s : source) : list rres * nat :=
  let '(l, hs) := h_reads cap prefix sizes (true, ([], s)) in (l, b_left (snd hs)).

(* read_to_end on the adapter, asking for [chunk] bytes at a time: the bytes, bytes left *)
Definition run_hdr_read_to_end (prefix : N) (cap chunk : nat) (s : source) : cres (list N) * nat :=
  let f0 := n_interrupted (s_script s) in
  let '(r, hs) := run_raw (h_read src_read cap prefix) (fun _ => chunk) (fun _ n => f0 + n + 1)
                    (Take (Datatypes.S (length (s_data s))) (fun bs => Ret bs)) (true, ([], s)) in
  (cres_of r, b_left (snd hs)).
