(* C12 — the SAM / VCF header reader hands the parser exactly the lines of the longest run of
   lines that start with the prefix, and leaves the reader at the first other line — for every
   delivery, every BufReader capacity >= 1 and every placement of Interrupted. *)
From Coq Require Import List NArith Arith Bool Lia.
From NV Require Import Io.Source Io.ReadExact Io.ReadExactProofs Io.BufReader Io.BufReaderProofs
  Io.FastaScanProofs Io.HeaderRead.
Import ListNotations.

Lemma has_byte_app : forall b (u v : list N), has_byte b (u ++ v) = has_byte b u || has_byte b v.
Proof. intros b u v. unfold has_byte. apply existsb_app. Qed.

Lemma take_line_has_lf : forall w, has_byte LF w = true -> has_byte LF (take_line LF w) = true.
Proof.
  induction w as [|x w IH]; intros H; [discriminate|].
  cbn [take_line]. destruct (N.eqb x LF) eqn:Hx.
  - cbn [has_byte existsb]. rewrite N.eqb_sym, Hx. reflexivity.
  - cbn [has_byte existsb] in *. rewrite N.eqb_sym in H. rewrite Hx in H. cbn [orb] in H.
    rewrite N.eqb_sym, Hx. cbn [orb]. apply IH. exact H.
Qed.

Lemma take_line_idem : forall w, take_line LF (take_line LF w) = take_line LF w.
Proof.
  induction w as [|x w IH]; [reflexivity|].
  cbn [take_line]. destruct (N.eqb x LF) eqn:Hx; cbn [take_line]; rewrite Hx; [reflexivity|].
  f_equal. exact IH.
Qed.

Lemma take_line_no_lf : forall w, has_byte LF w = false -> take_line LF w = w.
Proof.
  induction w as [|x w IH]; intros H; [reflexivity|].
  cbn [has_byte existsb] in H. apply orb_false_iff in H. destruct H as [Hx Hw].
  cbn [take_line]. rewrite N.eqb_sym in Hx. rewrite Hx. f_equal. apply IH. exact Hw.
Qed.

Section HeaderProofs.
  Context {S : Type}.
  Variable rd : reader S.
  Variable Rep : S -> list N -> nat -> Prop.
  Hypothesis Hsim : simulates rd Rep.
  Variable cap : nat.
  Hypothesis Hcap : 1 <= cap.
  Variable prefix : N.

  Notation repb st d m := (rep_buf Rep st d m).

  Lemma window_split' : forall (src d : list N), src = firstn (length src) d ->
    d = src ++ skipn (length src) d.
  Proof.
    intros src d Hp. pose proof (firstn_skipn (length src) d) as Hx. rewrite <- Hp in Hx.
    apply eq_sym. exact Hx.
  Qed.

  (* at a line start whose first byte is not the prefix (or at the end): nothing is read *)
  Lemma h_until_stop : forall fuel st d m acc, repb st d m -> m < fuel ->
    match d with [] => True | x :: _ => N.eqb x prefix = false end ->
    exists st' m', h_read_until_loop rd cap prefix fuel true st acc = (acc, UOk, true, st')
                   /\ repb st' d m' /\ m' <= m.
  Proof.
    induction fuel as [|fuel IH]; intros st d m acc HR Hf Hd; [lia|].
    cbn [h_read_until_loop]. unfold h_fill_buf.
    pose proof (br_fill_buf_spec rd Rep Hsim cap Hcap st d m HR) as Hfb.
    destruct (br_fill_buf rd cap st) as [[src|] st1].
    - destruct Hfb as [Hp [Hn [_ [m1 [Hm1 HR1]]]]].
      assert (Hc : (true && match src with x :: _ => negb (N.eqb x prefix) | [] => true end) = true).
      { destruct src as [|x w]; [reflexivity|].
        destruct (prefix_cons x w d Hp) as [r Hdx]. subst d. rewrite Hd. reflexivity. }
      rewrite Hc. cbn [has_byte existsb].
      exists st1, m1. split; [reflexivity|]. split; [exact HR1|exact Hm1].
    - destruct Hfb as [m1 [Hm1 HR1]].
      destruct (IH st1 d m1 acc HR1 ltac:(lia) Hd) as [st' [m' [E [HR' Hm']]]].
      exists st', m'. split; [exact E|]. split; [exact HR'|lia].
  Qed.

  (* inside a line, or at a line start with the prefix: the rest of the line is read *)
  Lemma h_until_go : forall fuel is_eol st d m acc,
    repb st d m -> m + length d + 1 < fuel ->
    (is_eol = false \/ exists r, d = prefix :: r) ->
    exists st' m',
      h_read_until_loop rd cap prefix fuel is_eol st acc
        = (acc ++ take_line LF d, UOk, has_byte LF d, st')
      /\ repb st' (skipn (length (take_line LF d)) d) m' /\ m' <= m.
  Proof.
    induction fuel as [|fuel IH]; intros is_eol st d m acc HR Hf Hgo; [lia|].
    cbn [h_read_until_loop]. unfold h_fill_buf.
    pose proof (br_fill_buf_spec rd Rep Hsim cap Hcap st d m HR) as Hfb.
    destruct (br_fill_buf rd cap st) as [[src|] st1].
    2:{ destruct Hfb as [m1 [Hm1 HR1]].
        destruct (IH is_eol st1 d m1 acc HR1 ltac:(lia) Hgo) as [st' [m' [E [HR' Hm']]]].
        exists st', m'. split; [exact E|]. split; [exact HR'|lia]. }
    destruct Hfb as [Hp [Hn [Hfst [m1 [Hm1 HR1]]]]].
    assert (Hc : (is_eol && match src with x :: _ => negb (N.eqb x prefix) | [] => true end) = false).
    { destruct Hgo as [He|[r Hd]]; [subst is_eol; reflexivity|].
      destruct src as [|x w].
      - exfalso. apply Hn; [subst d; discriminate|reflexivity].
      - destruct (prefix_cons x w d Hp) as [r' Hdx]. rewrite Hd in Hdx. injection Hdx as Hx _.
        subst x. rewrite N.eqb_refl. cbn [negb]. apply andb_false_r. }
    rewrite Hc.
    destruct src as [|x w'].
    - assert (d = []) by (destruct d; [reflexivity|exfalso; apply Hn; [discriminate|reflexivity]]).
      subst d. cbn [has_byte existsb take_line length skipn]. rewrite app_nil_r.
      exists st1, m1. split; [reflexivity|]. split; [exact HR1|exact Hm1].
    - set (src := x :: w') in *.
      pose proof (window_split' src d Hp) as Hd.
      set (rest := skipn (length src) d) in *.
      destruct (has_byte LF src) eqn:Hb.
      + rewrite (take_line_has_lf src Hb). rewrite take_line_idem.
        assert (Htl : take_line LF d = take_line LF src).
        { rewrite Hd. apply has_byte_true_take_line. exact Hb. }
        assert (Hbd : has_byte LF d = true) by (rewrite Hd, has_byte_app, Hb; reflexivity).
        pose proof (take_line_length_le cap Hcap LF src) as Hle.
        exists (br_consume (length (take_line LF src)) st1), m1.
        rewrite Htl, Hbd. split; [reflexivity|]. split; [|exact Hm1].
        apply (consume_k Rep st1 src); auto.
      + assert (HR2 : repb (br_consume (length src) st1) rest m1)
          by (apply (consume_k Rep st1 src); auto).
        assert (Hlr : length d = length src + length rest) by (rewrite Hd at 1; apply app_length).
        destruct (IH false _ rest m1 (acc ++ src) HR2) as [st' [m' [E [HR' Hm']]]].
        { unfold src in *. cbn [length] in *. lia. }
        { left. reflexivity. }
        rewrite Hb. unfold src at 1. fold src.
        exists st', m'. rewrite E.
        assert (Htl : take_line LF d = src ++ take_line LF rest).
        { rewrite Hd at 1. apply has_byte_false_take_line. exact Hb. }
        assert (Hbd : has_byte LF d = has_byte LF rest) by (rewrite Hd, has_byte_app, Hb; reflexivity).
        rewrite Htl, Hbd, <- app_assoc, app_length. split; [reflexivity|]. split; [|lia].
        replace (skipn (length src + length (take_line LF rest)) d)
          with (skipn (length (take_line LF rest)) rest); [exact HR'|].
        unfold rest. rewrite skipn_skipn_add. reflexivity.
  Qed.

  Lemma take_line_nonempty' : forall x r, exists n, length (take_line LF (x :: r)) = Datatypes.S n.
  Proof. intros x r. cbn [take_line]. destruct (N.eqb x LF); cbn [length]; eauto. Qed.

  (* read_header's line loop = the closed form on the data *)
  Theorem h_read_lines_spec : forall k fuel is_eol st d m,
    repb st d m -> length d < k -> m + length d + 1 < fuel -> (is_eol = true \/ d = []) ->
    exists st' m' e,
      h_read_lines rd cap prefix k fuel is_eol st
        = (map strip_eol (fst (hdr_closed k prefix d)), UOk, e, st')
      /\ repb st' (snd (hdr_closed k prefix d)) m' /\ m' <= m.
  Proof.
    induction k as [|k IH]; intros fuel is_eol st d m HR Hk Hf Hinv; [lia|].
    cbn [h_read_lines hdr_closed]. unfold h_read_line.
    destruct d as [|x r].
    - destruct is_eol.
      + destruct (h_until_stop fuel st [] m [] HR ltac:(lia) I) as [st' [m' [E [HR' Hm']]]].
        rewrite E. cbn [length map fst snd]. exists st', m', true. auto.
      + destruct (h_until_go fuel false st [] m [] HR Hf (or_introl eq_refl)) as [st' [m' [E [HR' Hm']]]].
        rewrite E. cbn [take_line app length map fst snd skipn] in *. exists st', m', false. auto.
    - destruct Hinv as [He|Hd]; [subst is_eol|discriminate].
      destruct (N.eqb x prefix) eqn:Hx.
      + apply N.eqb_eq in Hx. subst x.
        destruct (h_until_go fuel true st (prefix :: r) m [] HR Hf (or_intror (ex_intro _ r eq_refl)))
          as [st1 [m1 [E [HR1 Hm1]]]].
        rewrite E. cbn [app].
        set (l := take_line LF (prefix :: r)) in *.
        set (d2 := skipn (length l) (prefix :: r)) in *.
        destruct (take_line_nonempty' prefix r) as [n0 Hn0]. fold l in Hn0. rewrite Hn0.
        assert (Hd2 : length d2 + length l = length (prefix :: r)).
        { unfold d2. rewrite skipn_length.
          pose proof (take_line_length_le cap Hcap LF (prefix :: r)) as Hle. fold l in Hle. lia. }
        assert (Hinv2 : has_byte LF (prefix :: r) = true \/ d2 = []).
        { destruct (has_byte LF (prefix :: r)) eqn:Hb; [left; reflexivity|right].
          unfold d2, l. rewrite (take_line_no_lf _ Hb). apply skipn_all. }
        destruct (IH fuel _ st1 d2 m1 HR1 ltac:(lia) ltac:(lia) Hinv2) as [st2 [m2 [e [E2 [HR2 Hm2]]]]].
        rewrite E2. destruct (hdr_closed k prefix d2) as [ls rest]. cbn [fst snd map] in *.
        exists st2, m2, e. split; [reflexivity|]. split; [exact HR2|lia].
      + destruct (h_until_stop fuel st (x :: r) m [] HR ltac:(lia) Hx) as [st' [m' [E [HR' Hm']]]].
        rewrite E. cbn [length map fst snd]. exists st', m', true. auto.
  Qed.

  (* header_reader() + read_until: the raw header lines *)
  Theorem h_raw_lines_spec : forall k fuel is_eol st d m,
    repb st d m -> length d < k -> m + length d + 1 < fuel -> (is_eol = true \/ d = []) ->
    exists st' m' e,
      h_raw_lines rd cap prefix k fuel is_eol st
        = (fst (hdr_closed k prefix d), UOk, e, st')
      /\ repb st' (snd (hdr_closed k prefix d)) m' /\ m' <= m.
  Proof.
    induction k as [|k IH]; intros fuel is_eol st d m HR Hk Hf Hinv; [lia|].
    cbn [h_raw_lines hdr_closed].
    destruct d as [|x r].
    - destruct is_eol.
      + destruct (h_until_stop fuel st [] m [] HR ltac:(lia) I) as [st' [m' [E [HR' Hm']]]].
        rewrite E. cbn [length map fst snd]. exists st', m', true. auto.
      + destruct (h_until_go fuel false st [] m [] HR Hf (or_introl eq_refl)) as [st' [m' [E [HR' Hm']]]].
        rewrite E. cbn [take_line app length map fst snd skipn] in *. exists st', m', false. auto.
    - destruct Hinv as [He|Hd]; [subst is_eol|discriminate].
      destruct (N.eqb x prefix) eqn:Hx.
      + apply N.eqb_eq in Hx. subst x.
        destruct (h_until_go fuel true st (prefix :: r) m [] HR Hf (or_intror (ex_intro _ r eq_refl)))
          as [st1 [m1 [E [HR1 Hm1]]]].
        rewrite E. cbn [app].
        remember (take_line LF (prefix :: r)) as l0 eqn:El.
        destruct l0 as [|y0 y1];
          [destruct (take_line_nonempty' prefix r) as [n0 Hn0]; rewrite <- El in Hn0; discriminate|].
        rewrite El in *. clear El y0 y1.
        assert (Hl1 : 1 <= length (take_line LF (prefix :: r)))
          by (destruct (take_line_nonempty' prefix r) as [n0 Hn0]; rewrite Hn0; lia).
        set (l := take_line LF (prefix :: r)) in *.
        set (d2 := skipn (length l) (prefix :: r)) in *.
        assert (Hd2 : length d2 + length l = length (prefix :: r)).
        { unfold d2. rewrite skipn_length.
          pose proof (take_line_length_le cap Hcap LF (prefix :: r)) as Hle. fold l in Hle. lia. }
        assert (Hinv2 : has_byte LF (prefix :: r) = true \/ d2 = []).
        { destruct (has_byte LF (prefix :: r)) eqn:Hb; [left; reflexivity|right].
          unfold d2, l. rewrite (take_line_no_lf _ Hb). apply skipn_all. }
        destruct (IH fuel _ st1 d2 m1 HR1 ltac:(lia) ltac:(lia) Hinv2) as [st2 [m2 [e [E2 [HR2 Hm2]]]]].
        rewrite E2. destruct (hdr_closed k prefix d2) as [ls rest]. cbn [fst snd map] in *.
        exists st2, m2, e. split; [reflexivity|]. split; [exact HR2|lia].
      + destruct (h_until_stop fuel st (x :: r) m [] HR ltac:(lia) Hx) as [st' [m' [E [HR' Hm']]]].
        rewrite E. cbn [length map fst snd]. exists st', m', true. auto.
  Qed.
End HeaderProofs.
