(* C12 — over the scripted source, raw or behind a BufReader of any capacity, with any script and
   whatever sizes read_to_end asks for, a read program returns its result on the data and leaves
   exactly the bytes it leaves on the data. *)
From Coq Require Import List NArith Arith Bool Lia.
From NV Require Import Io.Source Io.ReadExact Io.ReadExactProofs Io.BufReader Io.BufReaderProofs Io.Run
  Trunc.Stream Io.Prog Io.ProgProofs Io.IndexProg Io.IndexProgProofs Io.ProgCram Io.ProgRun Io.CsiProg Io.CsiProgProofs Io.HeaderRead Io.HeaderAdapter Io.HeaderAdapterProofs.
Import ListNotations.
Local Open Scope nat_scope.

(* a bound on the pending Interrupted results is kept by every read *)
Definition bounded {S : Type} (Rep : S -> list N -> nat -> Prop) (b : nat) : S -> list N -> nat -> Prop :=
  fun s d m => Rep s d m /\ m <= b.

Lemma simulates_bounded : forall (S : Type) (rd : reader S) (Rep : S -> list N -> nat -> Prop) b,
  simulates rd Rep -> simulates rd (bounded Rep b).
Proof.
  intros S rd Rep b Hsim s d m n [HR Hb]. pose proof (Hsim s d m n HR) as H.
  destruct (rd s n) as [[bs|] s'].
  - destruct H as [Hok [m' [Hm' HR']]]. split; [exact Hok|]. exists m'. split; [exact Hm'|]. split; [exact HR'|lia].
  - destruct H as [m' [Hm' HR']]. exists m'. split; [exact Hm'|]. split; [exact HR'|lia].
Qed.

Theorem run_prog_spec : forall (A : Type) (p : prog A) data sc cap chunk,
  (cap = 0 -> until_free p) ->
  run_prog cap chunk p (mkSource data sc)
  = (cres_of (fst (run_pure p data)), length (snd (run_pure p data))).
Proof.
  intros A p data sc cap chunk Hu. unfold run_prog. cbn [s_script].
  set (f0 := n_interrupted sc).
  pose proof (simulates_bounded source src_read rep_src f0 src_simulates) as Hsim.
  assert (HR0 : bounded rep_src f0 (mkSource data sc) data f0).
  { split; [split; reflexivity|lia]. }
  destruct (Nat.eqb_spec cap 0) as [Hc|Hc].
  - destruct (run_raw_spec source src_read (bounded rep_src f0) Hsim (fun _ => chunk) (fun _ n => f0 + n + 1)
                ltac:(intros s d m n [_ Hb]; lia) A p (Hu Hc) (mkSource data sc) data f0 HR0)
      as [s' [m' [E [[[Hs _] _] _]]]].
    rewrite E. unfold src_left. rewrite Hs. reflexivity.
  - destruct (run_buf_spec source src_read (bounded rep_src f0) Hsim cap ltac:(lia) (fun _ => chunk)
                (fun _ n => f0 + n + 1) (fun st => f0 + b_left st + 2)
                ltac:(intros st d m n [d' [_ [_ Hb]]]; lia)
                ltac:(intros st d m [d' [Hd [[Hs _] Hb]]]; unfold b_left; rewrite Hd, app_length, Hs; lia)
                A p ([], mkSource data sc) data f0)
      as [st' [m' [E [[d' [Hd [[Hs _] _]]] _]]]].
    + exists data. cbn [fst snd app]. split; [reflexivity|exact HR0].
    + rewrite E. unfold b_left. rewrite Hd, app_length, Hs. reflexivity.
Qed.

(* the entry points *)
Theorem run_gzi_spec : forall data sc cap,
  run_gzi cap (mkSource data sc) = (cres_of (fst (run_pure p_gzi data)), length (snd (run_pure p_gzi data))).
Proof. intros. apply run_prog_spec. intros _. apply until_free_p_gzi. Qed.

Theorem run_bai_spec : forall data sc cap,
  run_bai cap (mkSource data sc) = (cres_of (fst (run_pure p_bai data)), length (snd (run_pure p_bai data))).
Proof. intros. apply run_prog_spec. intros _. apply until_free_p_bai. Qed.

Theorem run_fai_spec : forall data sc cap, 1 <= cap ->
  let p := p_fai (Datatypes.S (length data)) in
  run_fai cap (mkSource data sc) = (cres_of (fst (run_pure p data)), length (snd (run_pure p data))).
Proof. intros data sc cap Hcap p. apply run_prog_spec. intros Hc. lia. Qed.

Theorem run_bcf_spec : forall tab data sc cap chunk,
  let p := p_bcf_records (site_table tab) (Datatypes.S (length data)) in
  run_bcf tab cap chunk (mkSource data sc)
  = (cres_of (fst (run_pure p data)), length (snd (run_pure p data))).
Proof.
  intros. apply run_prog_spec. intros _. apply until_free_loop. apply until_free_p_bcf_record.
Qed.

Theorem run_cram_spec : forall data sc cap chunk,
  let p := p_cram_containers Bgzf.Crc32.crc32 (Datatypes.S (length data)) in
  run_cram cap chunk (mkSource data sc)
  = (cres_of (fst (run_pure p data)), length (snd (run_pure p data))).
Proof.
  intros. apply run_prog_spec. intros _. apply until_free_loop.
  apply until_free_bind; [apply until_free_of_c19|]. intros [[[h hl] body] eof]. destruct eof; exact I.
Qed.

Theorem run_csi_header_spec : forall data sc cap chunk,
  run_csi_header cap chunk (mkSource data sc)
  = (cres_of (fst (run_pure g_header data)), length (snd (run_pure g_header data))).
Proof. intros. apply run_prog_spec. intros _. apply until_free_g_header. Qed.

Lemma hdr_text_length_le : forall p k e d, length (hdr_text k p e d) <= length d.
Proof.
  intros p k. induction k as [|k IH]; intros e d; [cbn; lia|].
  cbn [hdr_text]. destruct d as [|x t]; [cbn; lia|].
  destruct (e && negb (N.eqb x p)); [cbn; lia|].
  set (d := x :: t). pose proof (take_line_le LF d) as Hle.
  destruct (has_byte LF d); [|exact Hle].
  rewrite app_length. specialize (IH true (skipn (length (take_line LF d)) d)).
  rewrite skipn_length in IH. lia.
Qed.

(* read_to_end through the adapter's Read impl: every script, every BufReader capacity >= 1, every
   request size: exactly the header bytes of the data *)
Theorem run_hdr_read_to_end_spec : forall prefix data sc cap chunk, 1 <= cap ->
  fst (run_hdr_read_to_end prefix cap chunk (mkSource data sc))
  = COk (hdr_text (Datatypes.S (length data)) prefix true data).
Proof.
  intros prefix data sc cap chunk Hcap. unfold run_hdr_read_to_end. cbn [s_script s_data].
  set (f0 := n_interrupted sc).
  pose proof (simulates_bounded source src_read rep_src f0 src_simulates) as Hsim.
  pose proof (h_read_simulates src_read (bounded rep_src f0) Hsim cap Hcap prefix) as HsimH.
  set (H := hdr_text (Datatypes.S (length data)) prefix true data).
  destruct (run_raw_spec _ (h_read src_read cap prefix) (rep_hdr (bounded rep_src f0) prefix) HsimH
              (fun _ => chunk) (fun _ n => f0 + n + 1)
              ltac:(intros s d m n [d0 [[d' [_ [_ Hb]]] _]]; lia)
              _ (Take (Datatypes.S (length data)) (fun bs => Ret bs)) ltac:(intros bs; exact I)
              (true, ([], mkSource data sc)) H f0)
    as [hs' [m' [E _]]].
  - exists data. cbn [fst snd]. split; [|reflexivity].
    exists data. cbn [fst snd app]. split; [reflexivity|]. split; [split; reflexivity|lia].
  - rewrite E. cbn [run_pure fst cres_of].
    rewrite firstn_all2; [reflexivity|].
    pose proof (hdr_text_length_le prefix (Datatypes.S (length data)) true data). fold H in H0. lia.
Qed.
