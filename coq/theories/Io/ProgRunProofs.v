(* C12 — over the scripted source, raw or behind a BufReader of any capacity, with any script and
   whatever sizes read_to_end asks for, a read program returns its result on the data and leaves
   exactly the bytes it leaves on the data. *)
From Coq Require Import List NArith Arith Bool Lia.
From NV Require Import Io.Source Io.ReadExact Io.ReadExactProofs Io.BufReader Io.BufReaderProofs Io.Run
  Trunc.Stream Io.Prog Io.ProgProofs Io.IndexProg Io.IndexProgProofs Io.ProgCram Io.ProgRun.
Import ListNotations.
Local Open Scope nat_scope.

Lemma rep_src_fuel' : forall s d m n, rep_src s d m -> m + n < src_fuel s n.
Proof. intros s d m n [_ Hm]. unfold src_fuel. lia. Qed.

Lemma rep_buf_fuel : forall st d m n, rep_buf rep_src st d m -> m + n < b_fuel st n.
Proof. intros st d m n [d' [_ [_ Hm]]]. unfold b_fuel, src_fuel. lia. Qed.

Lemma rep_buf_fuelu : forall st d m, rep_buf rep_src st d m -> m + length d + 1 < b_fuel st 0.
Proof.
  intros st d m [d' [Hd [Hs Hm]]]. unfold b_fuel, src_fuel. rewrite Hd, app_length, Hs. lia.
Qed.

Lemma rep_src_left : forall s d m, rep_src s d m -> src_left s = length d.
Proof. intros s d m [Hs _]. unfold src_left. rewrite Hs. reflexivity. Qed.

Lemma rep_buf_left : forall st d m, rep_buf rep_src st d m -> b_left st = length d.
Proof.
  intros st d m [d' [Hd [Hs _]]]. unfold b_left. rewrite Hd, app_length, Hs. reflexivity.
Qed.

Theorem run_prog_spec : forall (A : Type) (p : prog A) data sc cap chunk,
  (cap = 0 -> until_free p) ->
  run_prog cap chunk p (mkSource data sc)
  = (cres_of (fst (run_pure p data)), length (snd (run_pure p data))).
Proof.
  intros A p data sc cap chunk Hu. unfold run_prog.
  destruct (Nat.eqb_spec cap 0) as [Hc|Hc].
  - destruct (run_raw_spec source src_read rep_src src_simulates (fun _ => chunk) src_fuel rep_src_fuel'
                A p (Hu Hc) (mkSource data sc) data (n_interrupted sc) (conj eq_refl eq_refl))
      as [s' [m' [E [HR _]]]].
    rewrite E. rewrite (rep_src_left _ _ _ HR). reflexivity.
  - destruct (run_buf_spec source src_read rep_src src_simulates cap ltac:(lia) (fun _ => chunk)
                b_fuel (fun st => b_fuel st 0) rep_buf_fuel rep_buf_fuelu
                A p ([], mkSource data sc) data (n_interrupted sc))
      as [st' [m' [E [HR _]]]].
    + exists data. cbn [fst snd app]. split; [reflexivity|]. split; reflexivity.
    + rewrite E. rewrite (rep_buf_left _ _ _ HR). reflexivity.
Qed.

(* the entry points *)
Theorem run_gzi_spec : forall data sc cap,
  run_gzi cap (mkSource data sc) = (cres_of (fst (run_pure p_gzi data)), length (snd (run_pure p_gzi data))).
Proof. intros. apply run_prog_spec. intros _. apply until_free_p_gzi. Qed.

Theorem run_bai_spec : forall data sc cap,
  run_bai cap (mkSource data sc) = (cres_of (fst (run_pure p_bai data)), length (snd (run_pure p_bai data))).
Proof. intros. apply run_prog_spec. intros _. apply until_free_p_bai. Qed.

Theorem run_fai_spec : forall data sc cap, 1 <= cap ->
  let p := p_fai (Datatypes.S (length data)) in
  run_fai cap (mkSource data sc) = (cres_of (fst (run_pure p data)), length (snd (run_pure p data))).
Proof. intros data sc cap Hcap p. apply run_prog_spec. intros Hc. lia. Qed.

Theorem run_bcf_spec : forall tab data sc cap chunk,
  let p := p_bcf_records (site_table tab) (Datatypes.S (length data)) in
  run_bcf tab cap chunk (mkSource data sc)
  = (cres_of (fst (run_pure p data)), length (snd (run_pure p data))).
Proof.
  intros. apply run_prog_spec. intros _. apply until_free_loop. apply until_free_p_bcf_record.
Qed.

Theorem run_cram_spec : forall data sc cap chunk,
  let p := p_cram_containers Bgzf.Crc32.crc32 (Datatypes.S (length data)) in
  run_cram cap chunk (mkSource data sc)
  = (cres_of (fst (run_pure p data)), length (snd (run_pure p data))).
Proof.
  intros. apply run_prog_spec. intros _. apply until_free_loop.
  apply until_free_bind; [apply until_free_of_c19|]. intros [[[h hl] body] eof]. destruct eof; exact I.
Qed.
