(* Round 8: what noodles' own writers guarantee about their output, so that the theorems about
   accepted TEXT (lazy = eager, file round trip) apply to WRITTEN text without a premise on it:
   - every optional field the record writer emits satisfies arr_canon (each element of an integer
     array is rendered by fmt_dec, which always has a digit and never a comma), hence
     RecordBuf::try_from_alignment_record of the lazy sam::Record read from a written line is the
     record that was written (lazy_convert_written, lazy_data_written);
   - the reference dictionary of a header the header writer accepts satisfies wf_refs: the name
     check is_valid_name (rname_valid) gives refname_ok, the IndexMap keys (wf_header) give NoDup
     (wf_refs_written), hence the file theorems without the wf_refs premise. *)
From Coq Require Import List NArith ZArith Bool Lia.
From Coq Require Import ZifyBool ZifyNat ZifyN.
From NV Require Import Base.Decimal Base.DecimalProofs Sam.Fields Sam.FieldsProofs Sam.Record Sam.RecordProofs.
From NV Require Import Sam.Header Sam.HeaderProofs Sam.HeaderWfProofs.
From NV Require Import Sam.Lazy Sam.LazyProofs Sam.LazyWritten Sam.LazyData Sam.LazyDataProofs.
From NV Require Import Sam.BamAgree Sam.File Sam.FileProofs Sam.FileAgree.
From NV Require Bam.File Bam.FileProofs Bam.Record Bam.CodecProofs.
Import ListNotations.
Open Scope N_scope.

(* ---- decimal text has a digit and no comma *)
Lemma fmt_N_has_digit n : has_digit (fmt_N n) = true.
Proof.
  destruct (fmt_N_head n) as (c & t & E & D). rewrite E. unfold has_digit. cbn [existsb].
  rewrite D. reflexivity.
Qed.

Lemma fmt_dec_has_digit z : has_digit (fmt_dec z) = true.
Proof.
  unfold fmt_dec. destruct z as [|p|p]; [apply fmt_N_has_digit|apply fmt_N_has_digit|].
  change (is_digit 45 || has_digit (fmt_N (Npos p)) = true).
  rewrite fmt_N_has_digit. apply orb_true_r.
Qed.

Lemma fmt_dec_nocomma z : NoComma (fmt_dec z).
Proof.
  eapply Forall_impl; [|exact (fmt_dec_chars z)].
  intros c [Hc|Hc]; [apply is_digit_iff in Hc; lia|lia].
Qed.

(* the elements the array writer emits, cut at the commas again, all have a digit *)
Lemma written_elems_canon : forall vs v,
  forallb has_digit (split_comma (fmt_dec v ++ concat (map (fun v => 44 :: fmt_dec v) vs))) = true.
Proof.
  induction vs as [|w vs IH]; intro v; cbn [map concat].
  - rewrite app_nil_r. rewrite split_comma_one by apply fmt_dec_nocomma.
    cbn [forallb]. rewrite fmt_dec_has_digit. reflexivity.
  - cbn [app]. rewrite split_comma_app by apply fmt_dec_nocomma.
    cbn [forallb]. rewrite fmt_dec_has_digit, IH. reflexivity.
Qed.

Section Written.
  Variable fmt32 : N -> bytes.
  Variable fmtd32 : N -> bytes.

  Lemma write_field_arr_canon f x : write_field fmt32 fmtd32 f = Some x -> arr_canon x = true.
  Proof.
    destruct f as [t a]. unfold write_field.
    destruct (tag_valid t); [|discriminate].
    destruct (write_value fmt32 fmtd32 a) as [v|] eqn:E; [|discriminate].
    intro H. apply Some_inj in H. subst x.
    destruct a as [c|ty z|b|s|s|ty vs|bs]; cbn [type_char]; try reflexivity.
    - cbn [write_value] in E. apply Some_inj in E. subst v.
      destruct vs as [|v0 vs]; [reflexivity|].
      cbn [map concat app]. cbn [arr_canon arr_val_canon].
      rewrite written_elems_canon. apply orb_true_r.
    - cbn [write_value] in E. apply Some_inj in E. subst v.
      destruct bs as [|b0 bs]; reflexivity.
  Qed.

  Lemma write_data_arr_canon d : forall fs, write_data fmt32 fmtd32 d = Some fs -> forallb arr_canon fs = true.
  Proof.
    induction d as [|f d IH]; intros fs H; cbn [write_data] in H.
    - apply Some_inj in H. subst fs. reflexivity.
    - destruct (write_field fmt32 fmtd32 f) as [x|] eqn:E; [|discriminate].
      destruct (write_data fmt32 fmtd32 d) as [xs|] eqn:E2; [|discriminate].
      apply Some_inj in H. subst fs. cbn [forallb].
      rewrite (write_field_arr_canon _ _ E), (IH xs eq_refl). reflexivity.
  Qed.
End Written.

Section FloatOracle.
  Variable fmt32 : N -> bytes.
  Variable fmtd32 : N -> bytes.
  Variable parse32 : bytes -> option N.
  Variable parse32p : bytes -> option (N * bytes).
  Hypothesis H_f : forall b, finite32 b = true -> parse32 (fmt32 b) = Some b.
  Hypothesis H_fc : forall b, PR (fmt32 b).
  Hypothesis H_d : forall b rest, finite32 b = true -> (rest = [] \/ exists r, rest = 44 :: r) ->
                                  parse32p (fmtd32 b ++ rest) = Some (b, rest).
  Hypothesis H_dc : forall b, PR (fmtd32 b).

  (* the fields of a written line: POS and PNEXT are fmt_N text, the optional fields are
     exactly what write_data produced *)
  Lemma written_line_fields refs r t : wf_refs refs -> wf_rec r ->
    write_record fmt32 fmtd32 refs r = Some t ->
    exists f3 f7 fd, write_pos (r_pos r) = Some f3 /\ write_pos (r_mpos r) = Some f7 /\
                     write_data fmt32 fmtd32 (r_data r) = Some fd /\
                     fld (split_tab (line_of t)) 3 = f3 /\ fld (split_tab (line_of t)) 7 = f7 /\
                     skipn 11 (split_tab (line_of t)) = fd.
  Proof.
    intros [ND OK] (Wf & Wq & Wc & Wt & Wd & Wn). unfold write_record.
    destruct (write_name (r_name r)) as [f_name|] eqn:E0; [|discriminate].
    destruct (ref_name refs (r_rid r)) as [nm|] eqn:E2; [|discriminate].
    destruct (write_pos (r_pos r)) as [f_pos|] eqn:E3; [|discriminate].
    destruct (ref_name refs (r_mrid r)) as [mnm|] eqn:E6; [|discriminate].
    destruct (write_pos (r_mpos r)) as [f_mpos|] eqn:E7; [|discriminate].
    destruct (write_seq (read_length (r_cigar r)) (r_seq r)) as [f_seq|] eqn:E9; [|discriminate].
    destruct (write_qual (len (r_seq r)) (r_qual r)) as [f_qual|] eqn:E10; [|discriminate].
    destruct (write_data fmt32 fmtd32 (r_data r)) as [f_data|] eqn:E11; [|discriminate].
    intro H. apply Some_inj in H. subst t.
    destruct (name_rt _ _ E0) as [P0 Q0].
    destruct (rname_rt refs _ _ ND OK E2) as [P2 Q2].
    destruct (pos_rt _ _ E3) as [P3 Q3].
    destruct (cigar_rt _ Wc) as [P5 Q5].
    destruct (rnext_rt refs _ _ _ _ ND OK E2 E6) as [P6 Q6].
    destruct (pos_rt _ _ E7) as [P7 Q7].
    destruct (seq_rt _ _ _ E9) as [P9 Q9].
    destruct (qual_rt _ _ _ E10) as [P10 Q10].
    destruct (write_data_fields fmt32 fmtd32 parse32 parse32p H_f H_fc H_d H_dc _ _ E11 Wd) as (Q11 & _ & _).
    set (L := [f_name; write_flags (r_flags r); write_rname nm; f_pos; write_mapq (r_mapq r);
               write_cigar (r_cigar r); write_rnext nm mnm; f_mpos; write_tlen (r_tlen r); f_seq; f_qual]).
    assert (QL : Forall PR (L ++ f_data)).
    { apply Forall_app. split; [|exact Q11]. unfold L.
      repeat constructor; auto; try apply fmt_N_PR; try apply fmt_dec_PR. }
    assert (LNL : RecordProofs.LN (join_tab (L ++ f_data))) by (apply join_LN; exact QL).
    exists f_pos, f_mpos, f_data. split; [reflexivity|]. split; [reflexivity|]. split; [reflexivity|].
    rewrite (line_of_written _ LNL).
    rewrite (split_join _ QL) by (unfold L; discriminate).
    unfold L, fld. cbn [app nth skipn]. repeat split; reflexivity.
  Qed.

  (* the digit premise of lazy_convert_eq_eager holds for every written line *)
  Lemma written_arr_canon refs r t : wf_refs refs -> wf_rec r ->
    write_record fmt32 fmtd32 refs r = Some t ->
    forallb arr_canon (skipn 11 (split_tab (line_of t))) = true.
  Proof.
    intros WR W H. destruct (written_line_fields refs r t WR W H) as (f3 & f7 & fd & _ & _ & ED & _ & _ & ->).
    exact (write_data_arr_canon fmt32 fmtd32 _ _ ED).
  Qed.

  (* parse vs parse_partial (the premises of the lazy optional-field theorems) *)
  Hypothesis H_a : forall f b rest, parse32 f = Some b -> NoTab f -> tail_ok rest ->
                                    parse32p (f ++ rest) = Some (b, rest).
  Hypothesis H_b : forall s v rest, parse32p s = Some (v, rest) ->
                                    exists f, s = f ++ rest /\ parse32 f = Some v /\ NoComma f.
  Hypothesis H_e : parse32 [] = None.

  (* the lazy record of a written line, converted, is the written record: no premise on the text *)
  Theorem lazy_convert_written refs r t :
    wf_refs refs -> wf_rec r ->
    write_record fmt32 fmtd32 refs r = Some t ->
    exists d', lazy_convert parse32 parse32p refs t = COk (set_data (strip_data (norm_rec r)) d')
               /\ map normf d' = r_data (norm_rec r).
  Proof.
    intros WR W H.
    pose proof (record_roundtrip fmt32 fmtd32 parse32 parse32p H_f H_fc H_d H_dc refs r t WR W H) as P.
    destruct (written_line_fields refs r t WR W H) as (f3 & f7 & fd & E3 & E7 & ED & F3 & F7 & FD).
    apply (lazy_convert_eq_eager parse32 parse32p H_a H_b H_e refs t (norm_rec r) P).
    - rewrite F3. exact (canon_pos_written _ _ E3).
    - rewrite F7. exact (canon_pos_written _ _ E7).
    - rewrite FD. exact (write_data_arr_canon fmt32 fmtd32 _ _ ED).
  Qed.

  Theorem lazy_data_written refs r t :
    wf_refs refs -> wf_rec r ->
    write_record fmt32 fmtd32 refs r = Some t ->
    exists data l d', lazy_view refs t = LOk (strip_data (norm_rec r)) data
                      /\ lazy_data parse32p data = DOk l
                      /\ conv_list parse32 l [] = Some d' /\ map normf d' = r_data (norm_rec r).
  Proof.
    intros WR W H.
    pose proof (record_roundtrip fmt32 fmtd32 parse32 parse32p H_f H_fc H_d H_dc refs r t WR W H) as P.
    destruct (written_line_fields refs r t WR W H) as (f3 & f7 & fd & E3 & E7 & ED & F3 & F7 & FD).
    apply (lazy_data_eq_eager parse32 parse32p H_a H_b H_e refs t (norm_rec r) P).
    - rewrite F3. exact (canon_pos_written _ _ E3).
    - rewrite F7. exact (canon_pos_written _ _ E7).
    - rewrite FD. exact (write_data_arr_canon fmt32 fmtd32 _ _ ED).
  Qed.
End FloatOracle.

(* ---- the reference dictionary of a written header *)
Lemma graphic_printable c : graphic c = true -> printable c = true.
Proof. unfold graphic, printable. lia. Qed.

Lemma rname_char_graphic c : rname_char c = true -> graphic c = true.
Proof. unfold rname_char. intro H. apply andb_prop in H as [H _]. exact H. Qed.

Lemma rname_valid_ok n : rname_valid n = true -> refname_ok n.
Proof.
  destruct n as [|b t]; [discriminate|]. cbn [rname_valid]. intro H.
  apply andb_prop in H as [H H4]. apply andb_prop in H as [H H3]. apply andb_prop in H as [H1 H2].
  unfold refname_ok. split; [|split; [discriminate|split]].
  - constructor; [apply graphic_printable, rname_char_graphic, H3|].
    rewrite forallb_forall in H4. apply Forall_forall. intros x Hx.
    apply graphic_printable, rname_char_graphic, H4, Hx.
  - cbn [is_star]. destruct t; [lia|reflexivity].
  - cbn [is_eq]. destruct t; [lia|reflexivity].
Qed.

Lemma write_all_sq_names l : forall ls, write_all write_sq l = Some ls -> Forall refname_ok (map sq_name l).
Proof.
  induction l as [|m l IH]; intros ls H; cbn [map]; [constructor|].
  cbn [write_all] in H.
  destruct (write_sq m) as [a|] eqn:E; [|discriminate].
  destruct (write_all write_sq l) as [b|] eqn:E2; [|discriminate].
  constructor; [|exact (IH b eq_refl)].
  unfold write_sq in E. destruct (rname_valid (sq_name m)) eqn:V; [|discriminate].
  apply rname_valid_ok, V.
Qed.

(* is_valid_name of the header writer gives refname_ok for every @SQ name; the names are IndexMap
   keys (NoDup, part of wf_header) *)
Theorem wf_refs_written h t : wf_header h -> write_header h = Some t -> wf_refs (refs_of h).
Proof.
  intros (_ & _ & NS & _) H. split; [exact NS|].
  unfold write_header in H. destruct (write_header_lines h) as [ls|] eqn:EL; [|discriminate].
  unfold write_header_lines in EL.
  destruct (match h_hd h with None => Some [] | Some m => option_map (fun l => [l]) (write_hd m) end); [|discriminate].
  destruct (write_all write_sq (h_sq h)) as [lb|] eqn:EB; [|discriminate].
  exact (write_all_sq_names _ _ EB).
Qed.

Section FileOracle.
  Variable fmt32 : N -> bytes.
  Variable fmtd32 : N -> bytes.
  Variable parse32 : bytes -> option N.
  Variable parse32p : bytes -> option (N * bytes).
  Hypothesis H_f : forall b, finite32 b = true -> parse32 (fmt32 b) = Some b.
  Hypothesis H_fc : forall b, PR (fmt32 b).
  Hypothesis H_d : forall b rest, finite32 b = true -> (rest = [] \/ exists r, rest = 44 :: r) ->
                                  parse32p (fmtd32 b ++ rest) = Some (b, rest).
  Hypothesis H_dc : forall b, PR (fmtd32 b).

  Lemma write_file_header h rs t : Sam.File.write_file fmt32 fmtd32 h rs = Some t ->
    exists a, write_header h = Some a.
  Proof.
    unfold Sam.File.write_file. destruct (write_header h) as [a|]; [|discriminate]. intros _. now exists a.
  Qed.

  (* the file round trip with the reference dictionary premise discharged by the header writer *)
  Theorem file_roundtrip_written h rs t :
    wf_header h -> Forall wf_rec rs ->
    Sam.File.write_file fmt32 fmtd32 h rs = Some t ->
    Sam.File.read_file parse32 parse32p t = Some (h, (map norm_rec rs, FEof)).
  Proof.
    intros WH W H. destruct (write_file_header h rs t H) as (a & EA).
    exact (file_roundtrip fmt32 fmtd32 parse32 parse32p H_f H_fc H_d H_dc h rs t WH
             (wf_refs_written h a WH EA) W H).
  Qed.

  Theorem file_sam_bam_agree_written h rs t bs :
    wf_header h ->
    Forall wf_rec rs -> Forall wf_bits rs -> Forall (fun r => r_qual r <> [9]) rs ->
    Sam.File.write_file fmt32 fmtd32 h rs = Some t ->
    Bam.File.write_file h (map to_bam_d rs) = Bam.Record.Ok bs ->
    exists rs_s rs_b,
      Sam.File.read_file parse32 parse32p t = Some (h, (rs_s, FEof)) /\
      Bam.File.read_file bs = Bam.Record.Ok (h, (rs_b, Bam.File.EndEof)) /\
      map (fun r => Bam.CodecProofs.norm (to_bam_d r)) rs_s = map by_value rs_b.
  Proof.
    intros WH W WB NQ HS HB. destruct (write_file_header h rs t HS) as (a & EA).
    exact (file_sam_bam_agree fmt32 fmtd32 parse32 parse32p H_f H_fc H_d H_dc h rs t bs WH
             (wf_refs_written h a WH EA) W WB NQ HS HB).
  Qed.
End FileOracle.

(* ---- since /repo 9bfd7d2 (the header writer checks comments): the comment conjunct of wf_header
   follows from write_header succeeding, so the header / file theorems need only the TYPE-level
   part of wf_header (wf_header_ty: what IndexMap keys, NonZero and u32 give) *)
Definition wf_header_ty (h : header) : Prop :=
  match h_hd h with Some m => wf_hd m | None => True end
  /\ Forall wf_sq (h_sq h) /\ NoDup (map sq_name (h_sq h))
  /\ Forall wf_id (h_rg h) /\ NoDup (map im_id (h_rg h))
  /\ Forall wf_id (h_pg h) /\ NoDup (map im_id (h_pg h)).

Lemma wf_header_written h t : wf_header_ty h -> write_header h = Some t -> wf_header h.
Proof.
  intros (A & B & C & D & E & F & G) W. unfold wf_header. repeat split; try assumption.
  exact (write_header_co_ok h t W).
Qed.

Theorem header_roundtrip_ty h t : wf_header_ty h -> write_header h = Some t -> read_header t = Some h.
Proof. intros W H. exact (header_roundtrip h t (wf_header_written h t W H) H). Qed.

Theorem header_fixed_point_ty h t h' : wf_header_ty h -> write_header h = Some t ->
  read_header t = Some h' -> write_header h' = Some t.
Proof. intros W H R. exact (header_fixed_point h t h' (wf_header_written h t W H) H R). Qed.

Section FileOracleTy.
  Variable fmt32 : N -> bytes.
  Variable fmtd32 : N -> bytes.
  Variable parse32 : bytes -> option N.
  Variable parse32p : bytes -> option (N * bytes).
  Hypothesis H_f : forall b, finite32 b = true -> parse32 (fmt32 b) = Some b.
  Hypothesis H_fc : forall b, PR (fmt32 b).
  Hypothesis H_d : forall b rest, finite32 b = true -> (rest = [] \/ exists r, rest = 44 :: r) ->
                                  parse32p (fmtd32 b ++ rest) = Some (b, rest).
  Hypothesis H_dc : forall b, PR (fmtd32 b).

  Theorem file_roundtrip_ty h rs t :
    wf_header_ty h -> Forall wf_rec rs ->
    Sam.File.write_file fmt32 fmtd32 h rs = Some t ->
    Sam.File.read_file parse32 parse32p t = Some (h, (map norm_rec rs, FEof)).
  Proof.
    intros WH W H. destruct (write_file_header fmt32 fmtd32 h rs t H) as (a & EA).
    exact (file_roundtrip_written fmt32 fmtd32 parse32 parse32p H_f H_fc H_d H_dc h rs t
             (wf_header_written h a WH EA) W H).
  Qed.

  Theorem file_sam_bam_agree_ty h rs t bs :
    wf_header_ty h ->
    Forall wf_rec rs -> Forall wf_bits rs -> Forall (fun r => r_qual r <> [9]) rs ->
    Sam.File.write_file fmt32 fmtd32 h rs = Some t ->
    Bam.File.write_file h (map to_bam_d rs) = Bam.Record.Ok bs ->
    exists rs_s rs_b,
      Sam.File.read_file parse32 parse32p t = Some (h, (rs_s, FEof)) /\
      Bam.File.read_file bs = Bam.Record.Ok (h, (rs_b, Bam.File.EndEof)) /\
      map (fun r => Bam.CodecProofs.norm (to_bam_d r)) rs_s = map by_value rs_b.
  Proof.
    intros WH W WB NQ HS HB. destruct (write_file_header fmt32 fmtd32 h rs t HS) as (a & EA).
    exact (file_sam_bam_agree_written fmt32 fmtd32 parse32 parse32p H_f H_fc H_d H_dc h rs t bs
             (wf_header_written h a WH EA) W WB NQ HS HB).
  Qed.
End FileOracleTy.
