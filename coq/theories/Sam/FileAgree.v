(* SAM file vs BAM file of the same header and records: both read back the same header, and the
   records agree up to what the property allows (integer tags by value, the BAM base alphabet,
   the dropped user CG field).  Composition of Sam/FileProofs.v (this property) with the C05
   engineer's BAM file theorem Bam/FileProofs.v (read-only here) through the bridge to_bam_d. *)
From Coq Require Import List NArith ZArith Bool Lia.
From NV Require Import Base.Decimal Sam.Fields Sam.FieldsProofs Sam.Record Sam.RecordProofs.
From NV Require Import Sam.Header Sam.HeaderProofs Sam.BamAgree Sam.File Sam.FileProofs.
From NV Require Bam.Record Bam.Encode Bam.Decode Bam.CodecProofs Bam.AuxProofs Bam.File Bam.FileProofs.
Import ListNotations.
Open Scope N_scope.

Lemma to_bam_d_rec_ok r : wf_rec r -> wf_bits r -> Bam.FileProofs.rec_ok (to_bam_d r).
Proof.
  intros W WB. pose proof W as (Wf & Wq & Wc & Wt & Wd & Wn). split; [|split].
  - now apply to_bam_d_wf.
  - unfold to_bam_d. cbn [Bam.Record.r_data]. unfold Bam.AuxProofs.wf_data.
    apply Forall_forall. intros p Hp. apply in_map_iff in Hp as (f & <- & Hf).
    cbn [to_bam_field snd]. rewrite Forall_forall in Wd. unfold wf_bits in WB. rewrite Forall_forall in WB.
    apply to_bam_val_wf; [exact (Wd f Hf)|exact (WB f Hf)].
  - unfold to_bam_d. cbn [Bam.Record.r_data]. rewrite map_map. cbn [to_bam_field fst]. exact Wn.
Qed.

Section FloatOracle.
  Variable fmt32 : N -> bytes.
  Variable fmtd32 : N -> bytes.
  Variable parse32 : bytes -> option N.
  Variable parse32p : bytes -> option (N * bytes).
  Hypothesis H_f : forall b, finite32 b = true -> parse32 (fmt32 b) = Some b.
  Hypothesis H_fc : forall b, PR (fmt32 b).
  Hypothesis H_d : forall b rest, finite32 b = true -> (rest = [] \/ exists r, rest = 44 :: r) ->
                                  parse32p (fmtd32 b ++ rest) = Some (b, rest).
  Hypothesis H_dc : forall b, PR (fmtd32 b).

  Theorem file_sam_bam_agree h rs t bs :
    wf_header h -> wf_refs (refs_of h) ->
    Forall wf_rec rs -> Forall wf_bits rs -> Forall (fun r => r_qual r <> [9]) rs ->
    Sam.File.write_file fmt32 fmtd32 h rs = Some t ->
    Bam.File.write_file h (map to_bam_d rs) = Bam.Record.Ok bs ->
    exists rs_s rs_b,
      Sam.File.read_file parse32 parse32p t = Some (h, (rs_s, FEof)) /\
      Bam.File.read_file bs = Bam.Record.Ok (h, (rs_b, Bam.File.EndEof)) /\
      map (fun r => Bam.CodecProofs.norm (to_bam_d r)) rs_s = map by_value rs_b.
  Proof.
    intros WH WR W WB NQ HS HB.
    exists (map norm_rec rs), (map Bam.CodecProofs.norm (map to_bam_d rs)).
    split; [|split].
    - exact (file_roundtrip fmt32 fmtd32 parse32 parse32p H_f H_fc H_d H_dc h rs t WH WR W HS).
    - apply Bam.FileProofs.file_roundtrip; [exact WH| |exact HB].
      apply Forall_forall. intros x Hx. apply in_map_iff in Hx as (r & <- & Hr).
      rewrite Forall_forall in W, WB. apply to_bam_d_rec_ok; [exact (W r Hr)|exact (WB r Hr)].
    - rewrite !map_map. apply map_ext_in. intros r Hr.
      rewrite Forall_forall in W, NQ. pose proof (W r Hr) as (_ & _ & _ & _ & Wd & _).
      rewrite norm_rec_id by (apply norm_qual_not9; exact (NQ r Hr)).
      apply norm_by_value. exact Wd.
  Qed.
End FloatOracle.
