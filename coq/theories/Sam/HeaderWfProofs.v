(* Every header accepted by the reader of Sam/Header.v satisfies the type-level premises
   (wf_header) of the round trip in Sam/HeaderProofs.v, up to one byte-level condition on
   comments: a comment that ends in CR is read back one byte shorter (the line reader strips
   one CR before the LF), so "no comment ends in CR" stays a premise
   (co_no_cr); header_comment_cr_refuted below shows it cannot be dropped. *)
From Coq Require Import List NArith ZArith Bool Lia.
From Coq Require Import ZifyBool ZifyNat ZifyN.
From NV Require Import Base.Decimal Base.DecimalProofs Sam.Fields Sam.FieldsProofs Sam.Record Sam.RecordProofs Sam.Header Sam.HeaderProofs.
Import ListNotations.
Open Scope N_scope.

(* ---- list helpers *)
Lemma NoDup_snoc {A} (l : list A) x : NoDup l -> ~ In x l -> NoDup (l ++ [x]).
Proof.
  induction 1 as [|y l Hy ND IH]; intro NI; cbn [app].
  - constructor; [intros []|constructor].
  - constructor.
    + intro HI. apply in_app_or in HI as [HI|[E|[]]]; [contradiction|]. subst y. apply NI. now left.
    + apply IH. intro HI. apply NI. now right.
Qed.

Lemma existsb_names_inv {A} (key : A -> bytes) (k : bytes) (l : list A) :
  existsb (fun x => bytes_eqb (key x) k) l = false -> ~ In k (map key l).
Proof.
  induction l as [|x l IH]; intro H; cbn [existsb map In] in *; [tauto|].
  apply orb_false_elim in H as [H1 H2]. intros [E|HI].
  - assert (T : bytes_eqb (key x) k = true) by now apply bytes_eqb_eq.
    rewrite T in H1. discriminate.
  - now apply IH.
Qed.

(* ---- the field loop: the "other" fields keep distinct, non-standard tags *)
Lemma assoc_mem_false_notin t l : assoc_mem t l = false -> ~ In t (map fst l).
Proof.
  induction l as [|[u w] l IH]; intro H; cbn [assoc_mem map fst In] in *; [tauto|].
  apply orb_false_elim in H as [H1 H2]. intros [E|HI].
  - subst u. rewrite tag_eqb_refl in H1. discriminate.
  - now apply IH.
Qed.

Lemma assoc_replace_tags t v l : map fst (assoc_replace t v l) = map fst l.
Proof.
  induction l as [|[u w] l IH]; cbn [assoc_replace map]; [reflexivity|].
  destruct (tag_eqb t u); cbn [map fst]; [reflexivity|now rewrite IH].
Qed.

Definition tags_ok (stds : list tag) (l : list tagv) : Prop :=
  NoDup (map fst l) /\ Forall (fun t => find_idx t stds 0 = None) (map fst l).

Lemma tags_ok_others stds l : tags_ok stds l -> others_ok stds l.
Proof. intros [ND FA]. split; [exact ND|]. now apply Forall_map in FA. Qed.

Lemma mstep_ok c stds vstd st f st' :
  tags_ok stds (snd st) -> mstep c stds vstd st f = Some st' -> tags_ok stds (snd st').
Proof.
  destruct st as [sv others], f as [t v]. cbn [snd]. intros [ND FA] H. unfold mstep in H.
  destruct (find_idx t stds 0) as [i|] eqn:FI.
  - destruct (vstd i v); [|discriminate].
    destruct (is_some (nth i sv None) && negb c); [discriminate|].
    apply Some_inj in H. subst st'. split; assumption.
  - destruct (assoc_mem t others) eqn:AM.
    + destruct c; [|discriminate]. apply Some_inj in H. subst st'. cbn [snd]. unfold tags_ok.
      rewrite assoc_replace_tags. split; assumption.
    + apply Some_inj in H. subst st'. cbn [snd]. unfold tags_ok. rewrite map_app. cbn [map fst]. split.
      * apply NoDup_snoc; [assumption|now apply assoc_mem_false_notin].
      * apply Forall_app. split; [assumption|]. constructor; [exact FI|constructor].
Qed.

Lemma mfold_ok c stds vstd fs : forall st st',
  tags_ok stds (snd st) -> mfold c stds vstd fs st = Some st' -> tags_ok stds (snd st').
Proof.
  induction fs as [|f fs IH]; intros st st' T H; cbn [mfold] in H.
  - apply Some_inj in H. now subst st'.
  - destruct (mstep c stds vstd st f) as [st1|] eqn:E; [|discriminate].
    apply (IH st1 st'); [|exact H]. eapply mstep_ok; eassumption.
Qed.

Lemma parse_map_ok c stds vstd body st :
  parse_map c stds vstd body = Some st -> others_ok stds (snd st).
Proof.
  unfold parse_map. destruct (raw_fields (length body) body) as [fs|]; [|discriminate].
  intro H. apply tags_ok_others. eapply mfold_ok; [|exact H]. cbn [snd map]. split; constructor.
Qed.

(* ---- typed standard fields *)
Lemma parse_int_range s lo hi b x : parse_int s lo hi b = Some x -> (lo <= x <= hi)%Z.
Proof.
  unfold parse_int. destruct (parse_dec s b) as [v|]; [|discriminate].
  destruct ((lo <=? v) && (v <=? hi))%Z eqn:E; [|discriminate].
  intro H. apply Some_inj in H. subst x. lia.
Qed.

Lemma parse_partial_int_range signed lo hi s n r :
  parse_partial_int signed lo hi s = Some (n, r) -> (lo <= n <= hi)%Z.
Proof.
  unfold parse_partial_int. destruct s as [|c t]; [discriminate|].
  assert (G : forall (neg : bool) (body : bytes),
    match body with
    | [] => None
    | _ :: _ =>
        let '(v, _, rest) := take_digits body 0 0 in
        let z := if neg then (- Z.of_N v)%Z else Z.of_N v in
        if ((lo <=? z) && (z <=? hi))%Z then Some (z, rest) else None
    end = Some (n, r) -> (lo <= n <= hi)%Z).
  { intros neg body. destruct body as [|d body]; [discriminate|].
    destruct (take_digits (d :: body) 0 0) as [[v k] rest]. cbv zeta.
    destruct ((lo <=? (if neg then (- Z.of_N v)%Z else Z.of_N v))
              && ((if neg then (- Z.of_N v)%Z else Z.of_N v) <=? hi))%Z eqn:E; [|discriminate].
    intro H. inversion H; subst. lia. }
  destruct (c =? 43); [exact (G false t)|].
  destruct ((c =? 45) && signed); [exact (G true t)|exact (G false (c :: t))].
Qed.

Lemma parse_version_range v a b : parse_version v = Some (a, b) ->
  (Z.of_N a <= U32_MAX)%Z /\ (Z.of_N b <= U32_MAX)%Z.
Proof.
  unfold parse_version. destruct (split_once 46 v) as [[x y]|]; [|discriminate].
  destruct (parse_int false 0 U32_MAX x) as [p|] eqn:EP; [|discriminate].
  destruct (parse_int false 0 U32_MAX y) as [q|] eqn:EQ; [|discriminate].
  apply parse_int_range in EP. apply parse_int_range in EQ.
  intro H. inversion H; subst. rewrite !Z2N.id by lia. lia.
Qed.

Lemma parse_length_pos v n : parse_length v = Some n -> 1 <= n.
Proof.
  unfold parse_length. destruct (parse_partial_int false 0 USIZE_MAX v) as [[z r]|] eqn:E; [|discriminate].
  apply parse_partial_int_range in E. destruct r; [|discriminate].
  destruct (z =? 0)%Z eqn:EZ; [discriminate|]. intro H. apply Some_inj in H. subst n. lia.
Qed.

(* ---- the four map kinds *)
Lemma parse_hd_wf c body m : parse_hd c body = Some m -> wf_hd m.
Proof.
  unfold parse_hd. destruct (parse_map c [VN] _ body) as [[sv others]|] eqn:E; [|discriminate].
  apply parse_map_ok in E. cbn [snd] in E.
  destruct sv as [|[v|] [|? ?]]; try discriminate.
  destruct (parse_version v) as [[a b]|] eqn:PV; [|discriminate].
  intro H. apply Some_inj in H. subst m. apply parse_version_range in PV as [Ha Hb].
  unfold wf_hd. cbn [hd_major hd_minor hd_other]. auto.
Qed.

Lemma parse_sq_wf c body m : parse_sq c body = Some m -> wf_sq m.
Proof.
  unfold parse_sq. destruct (parse_map c [SN; LN] _ body) as [[sv others]|] eqn:E; [|discriminate].
  apply parse_map_ok in E. cbn [snd] in E.
  destruct sv as [|[n|] [|[l|] [|? ?]]]; try discriminate.
  destruct (parse_length l) as [len|] eqn:PL; [|discriminate].
  intro H. apply Some_inj in H. subst m. apply parse_length_pos in PL.
  unfold wf_sq. cbn [sq_len sq_other]. auto.
Qed.

Lemma parse_idmap_wf c body m : parse_idmap c body = Some m -> wf_id m.
Proof.
  unfold parse_idmap. destruct (parse_map c [ID] _ body) as [[sv others]|] eqn:E; [|discriminate].
  apply parse_map_ok in E. cbn [snd] in E.
  destruct sv as [|[i|] [|? ?]]; try discriminate.
  intro H. apply Some_inj in H. subst m. exact E.
Qed.

(* ---- one header line *)
Definition no_lf (l : bytes) : Prop := Forall (fun x => x <> 10) l.

(* wf_header minus the "comment does not end in CR" half of co_ok *)
Definition wf_pre (h : header) : Prop :=
  match h_hd h with Some m => wf_hd m | None => True end
  /\ Forall wf_sq (h_sq h) /\ NoDup (map sq_name (h_sq h))
  /\ Forall wf_id (h_rg h) /\ NoDup (map im_id (h_rg h))
  /\ Forall wf_id (h_pg h) /\ NoDup (map im_id (h_pg h))
  /\ Forall no_lf (h_co h).

(* parse_partial with the literal '@' pattern turned into a test *)
Definition pp_body (c0 : bool) (h : header) (line : bytes) (k0 k1 : N) (body : bytes) : option pstate :=
  let c := if header_is_empty h
           then match extract_version line with Some v => version_allows_dup v | None => c0 end
           else c0 in
  if (k0 =? 72) && (k1 =? 68) then
    match parse_hd c body with
    | Some m => if header_is_empty h
                then Some (c, mkHeader (Some m) (h_sq h) (h_rg h) (h_pg h) (h_co h)) else None
    | None => None
    end
  else if (k0 =? 83) && (k1 =? 81) then
    match parse_sq c body with
    | Some m => if existsb (fun x => bytes_eqb (sq_name x) (sq_name m)) (h_sq h) then None
                else Some (c, mkHeader (h_hd h) (h_sq h ++ [m]) (h_rg h) (h_pg h) (h_co h))
    | None => None
    end
  else if (k0 =? 82) && (k1 =? 71) then
    match parse_idmap c body with
    | Some m => if existsb (fun x => bytes_eqb (im_id x) (im_id m)) (h_rg h) then None
                else Some (c, mkHeader (h_hd h) (h_sq h) (h_rg h ++ [m]) (h_pg h) (h_co h))
    | None => None
    end
  else if (k0 =? 80) && (k1 =? 71) then
    match parse_idmap c body with
    | Some m => if existsb (fun x => bytes_eqb (im_id x) (im_id m)) (h_pg h) then None
                else Some (c, mkHeader (h_hd h) (h_sq h) (h_rg h) (h_pg h ++ [m]) (h_co h))
    | None => None
    end
  else if (k0 =? 67) && (k1 =? 79) then
    match body with
    | 9 :: cm => Some (c, mkHeader (h_hd h) (h_sq h) (h_rg h) (h_pg h) (h_co h ++ [cm]))
    | _ => None
    end
  else None.

Lemma parse_partial_eq line c0 h :
  parse_partial line (c0, h) =
    match line with
    | a :: k0 :: k1 :: body => if a =? 64 then pp_body c0 h line k0 k1 body else None
    | _ => None
    end.
Proof.
  destruct line as [|a [|k0 [|k1 body]]]; try reflexivity;
    (destruct a as [|p]; [reflexivity|]; do 7 (destruct p as [p|p|]; try reflexivity)).
Qed.

Lemma pp_body_wf c0 h line k0 k1 body c' h' :
  wf_pre h -> no_lf body -> pp_body c0 h line k0 k1 body = Some (c', h') -> wf_pre h'.
Proof.
  intros (WH & WS & NS & WR & NR & WP & NP & WC) NB. unfold pp_body.
  set (c := if header_is_empty h then _ else c0). clearbody c.
  destruct ((k0 =? 72) && (k1 =? 68)).
  { destruct (parse_hd c body) as [m|] eqn:E; [|discriminate]. destruct (header_is_empty h); [|discriminate].
    intro H. inversion H; subst c' h'. apply parse_hd_wf in E.
    unfold wf_pre. cbn [h_hd h_sq h_rg h_pg h_co]. split; [exact E|]. repeat split; assumption. }
  destruct ((k0 =? 83) && (k1 =? 81)).
  { destruct (parse_sq c body) as [m|] eqn:E; [|discriminate].
    destruct (existsb _ (h_sq h)) eqn:EX; [discriminate|].
    intro H. inversion H; subst c' h'. apply parse_sq_wf in E. apply existsb_names_inv in EX.
    unfold wf_pre. cbn [h_hd h_sq h_rg h_pg h_co]. repeat split; try assumption.
    - apply Forall_app. split; [assumption|]. constructor; [exact E|constructor].
    - rewrite map_app. cbn [map]. now apply NoDup_snoc. }
  destruct ((k0 =? 82) && (k1 =? 71)).
  { destruct (parse_idmap c body) as [m|] eqn:E; [|discriminate].
    destruct (existsb _ (h_rg h)) eqn:EX; [discriminate|].
    intro H. inversion H; subst c' h'. apply parse_idmap_wf in E. apply existsb_names_inv in EX.
    unfold wf_pre. cbn [h_hd h_sq h_rg h_pg h_co]. repeat split; try assumption.
    - apply Forall_app. split; [assumption|]. constructor; [exact E|constructor].
    - rewrite map_app. cbn [map]. now apply NoDup_snoc. }
  destruct ((k0 =? 80) && (k1 =? 71)).
  { destruct (parse_idmap c body) as [m|] eqn:E; [|discriminate].
    destruct (existsb _ (h_pg h)) eqn:EX; [discriminate|].
    intro H. inversion H; subst c' h'. apply parse_idmap_wf in E. apply existsb_names_inv in EX.
    unfold wf_pre. cbn [h_hd h_sq h_rg h_pg h_co]. repeat split; try assumption.
    - apply Forall_app. split; [assumption|]. constructor; [exact E|constructor].
    - rewrite map_app. cbn [map]. now apply NoDup_snoc. }
  destruct ((k0 =? 67) && (k1 =? 79)); [|discriminate].
  destruct body as [|t cm]; [discriminate|].
  destruct (N.eq_dec t 9) as [T|T].
  - subst t. intro H. inversion H; subst c' h'.
    unfold wf_pre. cbn [h_hd h_sq h_rg h_pg h_co]. repeat split; try assumption.
    apply Forall_app. split; [assumption|]. constructor; [|constructor]. now inversion NB.
  - intro H. exfalso. destruct t as [|p]; [discriminate|].
    do 4 (destruct p as [p|p|]; try discriminate). now apply T.
Qed.

Lemma parse_partial_wf line st st' :
  no_lf line -> wf_pre (snd st) -> parse_partial line st = Some st' -> wf_pre (snd st').
Proof.
  destruct st as [c0 h], st' as [c' h']. cbn [snd]. intros NL W. rewrite parse_partial_eq.
  destruct line as [|a [|k0 [|k1 body]]]; try discriminate.
  destruct (a =? 64); [|discriminate].
  apply pp_body_wf; [exact W|]. inversion NL as [|? ? _ N1]; subst. inversion N1 as [|? ? _ N2]; subst.
  now inversion N2.
Qed.

(* ---- line splitting *)
Lemma split_lf_no_lf s : Forall (fun p => no_lf (fst p)) (split_lf s).
Proof.
  induction s as [|c t IH]; cbn [split_lf]; [constructor|].
  destruct (c =? 10) eqn:E.
  - constructor; [constructor|exact IH].
  - destruct (split_lf t) as [|[l b] r].
    + constructor; [|constructor]. cbn [fst]. constructor; [lia|constructor].
    + inversion IH as [|? ? H1 H2]; subst. constructor; [|assumption]. cbn [fst] in *. constructor; [lia|assumption].
Qed.

Lemma strip_last_no_lf c l : no_lf l -> no_lf (strip_last c l).
Proof.
  intro H. unfold strip_last. destruct (rev l) as [|x t] eqn:E; [exact H|].
  destruct (x =? c); [|exact H].
  assert (L : l = rev t ++ [x]) by (rewrite <- (rev_involutive l), E; reflexivity).
  rewrite L in H. apply Forall_app in H as [H _]. exact H.
Qed.

Lemma run_lines_cons l lf r st :
  run_lines ((l, lf) :: r) st =
    if match l with a :: _ => a =? 64 | [] => false end
    then match parse_partial (if lf : bool then strip_last 13 l else l) st with
         | Some st' => run_lines r st'
         | None => None
         end
    else Some st.
Proof.
  destruct l as [|a l]; [reflexivity|].
  destruct a as [|p]; [reflexivity|]. do 7 (destruct p as [p|p|]; try reflexivity).
Qed.

Lemma run_lines_wf ls : Forall (fun p => no_lf (fst p)) ls -> forall st st',
  wf_pre (snd st) -> run_lines ls st = Some st' -> wf_pre (snd st').
Proof.
  induction 1 as [|[l lf] ls Hl _ IH]; intros st st' W H.
  - cbn [run_lines] in H. apply Some_inj in H. now subst st'.
  - rewrite run_lines_cons in H. cbn [fst] in Hl.
    destruct (match l with a :: _ => a =? 64 | [] => false end).
    + destruct (parse_partial (if lf then strip_last 13 l else l) st) as [st1|] eqn:P; [|discriminate].
      apply (IH st1 st'); [|exact H]. eapply parse_partial_wf; [|exact W|exact P].
      destruct lf; [now apply strip_last_no_lf|exact Hl].
    + apply Some_inj in H. now subst st'.
Qed.

Lemma read_header_wf_pre t h : read_header t = Some h -> wf_pre h.
Proof.
  unfold read_header. destruct (run_lines (split_lf t) init_pstate) as [st|] eqn:E; [|discriminate].
  cbn [option_map]. intro H. apply Some_inj in H. subst h.
  apply (run_lines_wf (split_lf t) (split_lf_no_lf t) init_pstate st); [|exact E].
  unfold wf_pre, init_pstate, empty_header. cbn [snd h_hd h_sq h_rg h_pg h_co map]. repeat split; constructor.
Qed.

(* ---- the theorems *)
Definition co_no_cr (h : header) : Prop := Forall (fun c => last c 0 <> 13) (h_co h).

Theorem read_header_wf : forall t h, read_header t = Some h -> co_no_cr h -> wf_header h.
Proof.
  intros t h R CR. destruct (read_header_wf_pre t h R) as (WH & WS & NS & WR & NR & WP & NP & WC).
  unfold wf_header. repeat split; try assumption.
  unfold co_no_cr in CR. rewrite Forall_forall in *. intros c Hc. split; [now apply WC|now apply CR].
Qed.

Theorem header_parse_write_parse : forall t h t',
  read_header t = Some h -> co_no_cr h -> write_header h = Some t' -> read_header t' = Some h.
Proof.
  intros t h t' R CR W. apply header_roundtrip; [|exact W]. exact (read_header_wf t h R CR).
Qed.

Theorem header_parse_write_fixed : forall t h t' h',
  read_header t = Some h -> co_no_cr h -> write_header h = Some t' ->
  read_header t' = Some h' -> write_header h' = Some t'.
Proof.
  intros t h t' h' R CR W R'. exact (header_fixed_point h t' h' (read_header_wf t h R CR) W R').
Qed.

(* ---- since /repo 9bfd7d2 the header writer checks comments (co_valid): co_ok follows from
   write_header succeeding, so the co_no_cr premise above is implied whenever the writer accepts *)
Theorem write_header_co_ok h t : write_header h = Some t -> Forall co_ok (h_co h).
Proof.
  unfold write_header. destruct (write_header_lines h) as [ls|] eqn:EL; [|discriminate]. intros _.
  unfold write_header_lines in EL.
  destruct (match h_hd h with None => Some [] | Some m => option_map (fun l => [l]) (write_hd m) end); [|discriminate].
  destruct (write_all write_sq (h_sq h)); [|discriminate].
  destruct (write_all (write_idmap 82 71) (h_rg h)); [|discriminate].
  destruct (write_all (write_idmap 80 71) (h_pg h)); [|discriminate].
  destruct (write_all write_co_chk (h_co h)) as [le|] eqn:EE; [|discriminate].
  exact (proj2 (write_co_chk_all _ _ EE)).
Qed.

Lemma written_co_no_cr h t : write_header h = Some t -> co_no_cr h.
Proof.
  intro W. unfold co_no_cr. eapply Forall_impl; [|exact (write_header_co_ok h t W)].
  intros c [_ H]. exact H.
Qed.

Theorem header_parse_write_parse_w : forall t h t',
  read_header t = Some h -> write_header h = Some t' -> read_header t' = Some h.
Proof. intros t h t' R W. exact (header_parse_write_parse t h t' R (written_co_no_cr h t' W) W). Qed.

Theorem header_parse_write_fixed_w : forall t h t' h',
  read_header t = Some h -> write_header h = Some t' ->
  read_header t' = Some h' -> write_header h' = Some t'.
Proof. intros t h t' h' R W R'. exact (header_parse_write_fixed t h t' h' R (written_co_no_cr h t' W) W R'). Qed.

(* a header with a comment that is not one line is REJECTED by the writer *)
Theorem header_comment_rejected h : ~ Forall co_ok (h_co h) -> write_header h = None.
Proof.
  intro N. destruct (write_header h) as [t|] eqn:W; [|reflexivity].
  exfalso. exact (N (write_header_co_ok h t W)).
Qed.

(* witness: "@CO\tx\r\r\n" is accepted by the reader as the comment "x\r"; before 9bfd7d2 it was
   written as "@CO\tx\r\n" and read back as "x", now the writer refuses it *)
Example header_comment_cr_rejected : exists t h,
  read_header t = Some h /\ h_co h = [[120; 13]] /\ write_header h = None.
Proof.
  exists [64; 67; 79; 9; 120; 13; 13; 10], (mkHeader None [] [] [] [[120; 13]]).
  split; [vm_compute; reflexivity|]. split; vm_compute; reflexivity.
Qed.
