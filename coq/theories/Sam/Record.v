(* One SAM alignment line: write_record (noodles-sam io/writer/record.rs) and
   read_line + parse_record_buf (io/reader.rs, io/reader/record_buf.rs).  Definitions only. *)
From Coq Require Import List NArith ZArith Bool.
From NV Require Import Base.Decimal Sam.Fields.
Import ListNotations.
Open Scope N_scope.

Record sam_rec := mkRec {
  r_name : option bytes;
  r_flags : N;
  r_rid : option N;
  r_pos : N;          (* 0 = missing (Option<Position>) *)
  r_mapq : N;         (* 255 = missing (Option<MappingQuality>) *)
  r_cigar : list op;
  r_mrid : option N;
  r_mpos : N;
  r_tlen : Z;
  r_seq : bytes;
  r_qual : bytes;
  r_data : list ((N * N) * aux)
}.

(* parse outcome: the record, or the column (0..11) whose parser failed *)
Inductive pres := POk (r : sam_rec) | PErr (col : N) | PEof.

(* fields are separated by single tabs; [split_tab s] has at least one element *)
Fixpoint split_tab (s : bytes) : list bytes :=
  match s with
  | [] => [[]]
  | c :: t =>
      if c =? 9 then [] :: split_tab t
      else match split_tab t with
           | f :: fs => (c :: f) :: fs
           | [] => [[c]]
           end
  end.

Fixpoint join_tab (fs : list bytes) : bytes :=
  match fs with
  | [] => []
  | [f] => f
  | f :: t => f ++ 9 :: join_tab t
  end.

(* read_line: read_until(LF), then strip the LF and one CR before it *)
Definition strip_last (c : N) (s : bytes) : bytes :=
  match rev s with
  | x :: t => if x =? c then rev t else s
  | [] => s
  end.
Fixpoint take_line (s : bytes) : bytes * bool :=
  match s with
  | [] => ([], false)
  | c :: t => if c =? 10 then ([], true) else let '(l, lf) := take_line t in (c :: l, lf)
  end.
Definition line_of (text : bytes) : bytes :=
  let '(l, lf) := take_line text in if lf : bool then strip_last 13 l else l.

Fixpoint mem_tag (t : N * N) (d : list ((N * N) * aux)) : bool :=
  match d with
  | [] => false
  | (u, _) :: r => ((fst t =? fst u) && (snd t =? snd u)) || mem_tag t r
  end.

Section FloatOracle.
  Variable fmt32 : N -> bytes.
  Variable fmtd32 : N -> bytes.
  Variable parse32 : bytes -> option N.
  Variable parse32p : bytes -> option (N * bytes).

  Fixpoint write_data (d : list ((N * N) * aux)) : option (list bytes) :=
    match d with
    | [] => Some []
    | f :: t =>
        match write_field fmt32 fmtd32 f, write_data t with
        | Some x, Some xs => Some (x :: xs)
        | _, _ => None
        end
    end.

  Definition write_record (refs : list bytes) (r : sam_rec) : option bytes :=
    match write_name (r_name r) with None => None | Some f_name =>
    match ref_name refs (r_rid r) with None => None | Some nm =>
    match write_pos (r_pos r) with None => None | Some f_pos =>
    match ref_name refs (r_mrid r) with None => None | Some mnm =>
    match write_pos (r_mpos r) with None => None | Some f_mpos =>
    match write_seq (read_length (r_cigar r)) (r_seq r) with None => None | Some f_seq =>
    match write_qual (len (r_seq r)) (r_qual r) with None => None | Some f_qual =>
    match write_data (r_data r) with None => None | Some f_data =>
      Some (join_tab ([f_name; write_flags (r_flags r); write_rname nm; f_pos;
                       write_mapq (r_mapq r); write_cigar (r_cigar r); write_rnext nm mnm;
                       f_mpos; write_tlen (r_tlen r); f_seq; f_qual] ++ f_data) ++ [10])
    end end end end end end end end.

  (* `while !src.is_empty() { next_field; parse_field; insert (duplicate -> error) }` over the
     fields that follow QUAL; the loop stops when what remains is empty, i.e. after a final
     empty field *)
  Fixpoint parse_data (fs : list bytes) (acc : list ((N * N) * aux)) : option (list ((N * N) * aux)) :=
    match fs with
    | [] => Some (rev acc)
    | f :: rest =>
        match parse_field parse32 parse32p f with
        | None => None
        | Some (t, a) =>
            if mem_tag t acc then None
            else match rest with
                 | [[]] => Some (rev ((t, a) :: acc))
                 | _ => parse_data rest ((t, a) :: acc)
                 end
        end
    end.

  Definition parse_data_top (fs : list bytes) : option (list ((N * N) * aux)) :=
    match fs with
    | [] | [[]] => Some []
    | _ => parse_data fs []
    end.

  Definition fld (fs : list bytes) (i : nat) : bytes := nth i fs [].

  Definition parse_fields (refs : list bytes) (fs : list bytes) : pres :=
    match parse_name (fld fs 0) with None => PErr 0 | Some name =>
    match parse_flags (fld fs 1) with None => PErr 1 | Some flags =>
    match parse_rname refs (fld fs 2) with None => PErr 2 | Some rid =>
    match parse_pos (fld fs 3) with None => PErr 3 | Some pos =>
    match parse_mapq (fld fs 4) with None => PErr 4 | Some mapq =>
    match parse_cigar (fld fs 5) with None => PErr 5 | Some cigar =>
    match parse_rnext refs rid (fld fs 6) with None => PErr 6 | Some mrid =>
    match parse_pos (fld fs 7) with None => PErr 7 | Some mpos =>
    match parse_tlen (fld fs 8) with None => PErr 8 | Some tlen =>
    match parse_seq (fld fs 9) with None => PErr 9 | Some seq =>
    match parse_qual (len seq) (fld fs 10) with None => PErr 10 | Some qual =>
    match parse_data_top (skipn 11 fs) with None => PErr 11 | Some data =>
      POk (mkRec name flags rid pos mapq cigar mrid mpos tlen seq qual data)
    end end end end end end end end end end end end.

  (* sam::io::Reader::read_record_buf on a buffer holding [text] *)
  Definition parse_line (refs : list bytes) (text : bytes) : pres :=
    match text with
    | [] => PEof
    | _ => parse_fields refs (split_tab (line_of text))
    end.

End FloatOracle.

(* what a written record reads back as: integer tags by value, and the one ambiguity of the
   text format: a single quality score 9 is the character '*', which means "missing" *)
Definition norm_qual (q : bytes) : bytes :=
  match q with [c] => if c =? 9 then [] else q | _ => q end.

Definition norm_i (r : sam_rec) : sam_rec :=
  mkRec (r_name r) (r_flags r) (r_rid r) (r_pos r) (r_mapq r) (r_cigar r) (r_mrid r) (r_mpos r)
        (r_tlen r) (r_seq r) (r_qual r) (map (fun f => (fst f, norm_aux (snd f))) (r_data r)).

Definition norm_rec (r : sam_rec) : sam_rec :=
  let n := norm_i r in
  mkRec (r_name n) (r_flags n) (r_rid n) (r_pos n) (r_mapq n) (r_cigar n) (r_mrid n) (r_mpos n)
        (r_tlen n) (r_seq n) (norm_qual (r_qual n)) (r_data n).
