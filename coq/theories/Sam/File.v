(* A whole SAM file: sam::io::Writer (write_header, then write_alignment_record per record) and
   sam::io::Reader (read_header through the header adapter of io/reader/header.rs, which consumes
   exactly the leading lines that start with '@'; then read_record_buf in a loop until it returns
   0, as Reader::record_bufs does) on a reader holding the whole text.  Definitions only; proofs in
   Sam/FileProofs.v.  The line reader below the adapter (windows of a BufReader) is C12's
   NV.Io.HeaderRead / NV.Io.TabRead; this file is its closed form on the data. *)
From Coq Require Import List NArith ZArith Bool.
From NV Require Import Base.Decimal Sam.Fields Sam.Record Sam.Header.
Import ListNotations.
Open Scope N_scope.

(* what follows the first LF (nothing when there is none): read_until(LF) consumes that much *)
Fixpoint drop_line (s : bytes) : bytes :=
  match s with
  | [] => []
  | c :: t => if c =? 10 then t else drop_line t
  end.

(* the header adapter: lines are consumed while they start with '@' *)
Fixpoint skip_header (fuel : nat) (t : bytes) : bytes :=
  match fuel with
  | O => t
  | S k => match t with
           | c :: _ => if c =? 64 then skip_header k (drop_line t) else t
           | [] => t
           end
  end.

(* the reference dictionary the record reader / writer resolve names against *)
Definition refs_of (h : header) : list bytes := map sq_name (h_sq h).

Inductive fend := FEof | FErr (col : N) | FFuel.

Section FloatOracle.
  Variable fmt32 : N -> bytes.
  Variable fmtd32 : N -> bytes.
  Variable parse32 : bytes -> option N.
  Variable parse32p : bytes -> option (N * bytes).

  Fixpoint write_records (refs : list bytes) (rs : list sam_rec) : option bytes :=
    match rs with
    | [] => Some []
    | r :: rest =>
        match write_record fmt32 fmtd32 refs r, write_records refs rest with
        | Some a, Some b => Some (a ++ b)
        | _, _ => None
        end
    end.

  Definition write_file (h : header) (rs : list sam_rec) : option bytes :=
    match write_header h, write_records (refs_of h) rs with
    | Some a, Some b => Some (a ++ b)
    | _, _ => None
    end.

  (* read_record_buf until Ok(0); the first error ends the iteration *)
  Fixpoint read_records (fuel : nat) (refs : list bytes) (t : bytes) : list sam_rec * fend :=
    match fuel with
    | O => ([], FFuel)
    | S k =>
        match parse_line parse32 parse32p refs t with
        | PEof => ([], FEof)
        | PErr c => ([], FErr c)
        | POk r => let '(l, e) := read_records k refs (drop_line t) in (r :: l, e)
        end
    end.

  Definition read_file (t : bytes) : option (header * (list sam_rec * fend)) :=
    match read_header t with
    | None => None
    | Some h => Some (h, read_records (S (length t)) (refs_of h) (skip_header (length t) t))
    end.
End FloatOracle.
