(* Column-level round trips for Sam/Fields.v: parse (write x) = x, and every written column is
   made of printable characters (so it contains no TAB, CR or LF). *)
From Coq Require Import List NArith ZArith Bool Lia.
From Coq Require Import ZifyBool ZifyNat ZifyN.
From NV Require Import Base.Decimal Base.DecimalProofs Sam.Fields.
Import ListNotations.
Open Scope N_scope.

Definition PR (l : bytes) : Prop := Forall (fun c => printable c = true) l.

Lemma PR_app a b : PR a -> PR b -> PR (a ++ b).
Proof. intros. apply Forall_app. now split. Qed.

Lemma digits_PR l : all_digits l -> PR l.
Proof. apply Forall_impl. intros c H. apply is_digit_iff in H. unfold printable. lia. Qed.

Lemma fmt_N_PR n : PR (fmt_N n).
Proof. apply digits_PR, fmt_N_digits. Qed.

Lemma fmt_dec_PR z : PR (fmt_dec z).
Proof.
  eapply Forall_impl; [|apply fmt_dec_chars]. intros c [H|H].
  - apply is_digit_iff in H. unfold printable. lia.
  - subst. reflexivity.
Qed.

Lemma fmt_dec_of_N n : fmt_dec (Z.of_N n) = fmt_N n.
Proof. destruct n; reflexivity. Qed.

Lemma bytes_eqb_eq a : forall b, bytes_eqb a b = true <-> a = b.
Proof.
  induction a as [|x a IH]; intros [|y b]; cbn; split; try discriminate; try reflexivity.
  - intro H. apply andb_prop in H as [H1 H2]. apply IH in H2. f_equal; [lia|exact H2].
  - intro H. inversion H; subst. apply andb_true_intro. split; [lia|now apply IH].
Qed.

Lemma len_length s : len s = N.of_nat (length s).
Proof. reflexivity. Qed.

(* ---- name *)
Lemma name_rt o f : write_name o = Some f -> parse_name f = Some o /\ PR f.
Proof.
  destruct o as [n|]; cbn [write_name].
  - destruct (name_valid n) eqn:V; [|discriminate]. intro H; inversion H; subst f.
    unfold name_valid in V. apply andb_prop in V as [V V4]. apply andb_prop in V as [V V3].
    apply andb_prop in V as [V1 V2].
    unfold parse_name. destruct (is_star n); [discriminate V3|].
    split.
    + destruct n; [cbn in V1; lia|reflexivity].
    + apply Forall_forall. intros c Hc. rewrite forallb_forall in V4. specialize (V4 c Hc).
      unfold graphic, printable in *. lia.
  - intro H; inversion H; subst. split; [reflexivity|]. repeat constructor.
Qed.

(* ---- flags *)
Lemma flags_rt fl : fl < 4096 -> parse_flags (write_flags fl) = Some fl.
Proof.
  intro H. unfold parse_flags, write_flags. rewrite <- fmt_dec_of_N, parse_int_fmt_unsigned by lia.
  cbn [option_map]. rewrite Znat.N2Z.id. f_equal. apply N.mod_small. exact H.
Qed.

(* ---- positions, mapq, tlen *)
Lemma pos_rt p f : write_pos p = Some f -> parse_pos f = Some p /\ PR f.
Proof.
  unfold write_pos. destruct (p <=? 2147483647) eqn:E; [|discriminate]. intro H; inversion H; subst.
  split; [|apply fmt_N_PR]. unfold parse_pos, USIZE_MAX. rewrite <- fmt_dec_of_N, parse_int_fmt_unsigned by lia.
  cbn. now rewrite Znat.N2Z.id.
Qed.

Lemma mapq_rt q : q <= 255 -> parse_mapq (write_mapq q) = Some q.
Proof.
  intro H. unfold parse_mapq, write_mapq. rewrite <- fmt_dec_of_N, parse_int_fmt_unsigned by lia.
  cbn. now rewrite Znat.N2Z.id.
Qed.

Lemma tlen_rt t : (-2147483648 <= t <= 2147483647)%Z -> parse_tlen (write_tlen t) = Some t.
Proof. intro H. unfold parse_tlen, write_tlen. now apply parse_int_fmt. Qed.

(* ---- reference names *)
Definition refname_ok (n : bytes) : Prop :=
  PR n /\ n <> [] /\ is_star n = false /\ is_eq n = false.

Lemma index_of_nth refs : NoDup refs -> forall i base n,
  nth_error refs i = Some n -> index_of n refs base = Some (base + N.of_nat i).
Proof.
  induction 1 as [|x l Hx Hnd IH]; intros [|i] base n Hn; cbn in Hn; try discriminate.
  - inversion Hn; subst. cbn. assert (E : bytes_eqb n n = true) by now apply bytes_eqb_eq.
    rewrite E. f_equal. lia.
  - cbn [index_of]. destruct (bytes_eqb n x) eqn:E.
    + apply bytes_eqb_eq in E. subst. exfalso. apply Hx. eapply nth_error_In; eauto.
    + rewrite (IH i (base + 1) n Hn). f_equal. lia.
Qed.

Lemma ref_name_some refs rid nm : ref_name refs rid = Some nm ->
  match rid, nm with
  | None, None => True
  | Some i, Some n => nth_error refs (N.to_nat i) = Some n
  | _, _ => False
  end.
Proof.
  destruct rid as [i|]; cbn.
  - destruct (nth_error refs (N.to_nat i)) as [b|]; [|discriminate]. intro H; inversion H; subst. reflexivity.
  - intro H; inversion H. exact I.
Qed.

Lemma rname_rt refs rid nm :
  NoDup refs -> Forall refname_ok refs -> ref_name refs rid = Some nm ->
  parse_rname refs (write_rname nm) = Some rid /\ PR (write_rname nm).
Proof.
  intros ND OK H. apply ref_name_some in H.
  destruct rid as [i|], nm as [n|]; try contradiction.
  - assert (Hn : refname_ok n) by (rewrite Forall_forall in OK; apply OK; eapply nth_error_In; eauto).
    destruct Hn as (P & NE & S & Q). cbn [write_rname]. split; [|exact P].
    unfold parse_rname. rewrite S, (index_of_nth refs ND _ 0 n H). f_equal. f_equal. lia.
  - cbn. split; [reflexivity|repeat constructor].
Qed.

Lemma rnext_rt refs rid mrid nm mnm :
  NoDup refs -> Forall refname_ok refs ->
  ref_name refs rid = Some nm -> ref_name refs mrid = Some mnm ->
  parse_rnext refs rid (write_rnext nm mnm) = Some mrid /\ PR (write_rnext nm mnm).
Proof.
  intros ND OK H1 H2.
  assert (G : parse_rnext refs rid (write_rname mnm) = Some mrid /\ PR (write_rname mnm)).
  { destruct (rname_rt refs mrid mnm ND OK H2) as [A B]. split; [|exact B].
    unfold parse_rname in A. unfold parse_rnext.
    destruct (is_star (write_rname mnm)) eqn:S; [exact A|].
    apply ref_name_some in H2. destruct mrid as [j|], mnm as [m|]; try contradiction.
    - assert (Hm : refname_ok m) by (rewrite Forall_forall in OK; apply OK; eapply nth_error_In; eauto).
      destruct Hm as (_ & _ & _ & Q). cbn [write_rname] in *. rewrite Q. exact A.
    - cbn in S. discriminate. }
  destruct nm as [n|]; [|exact G]. destruct mnm as [m|]; [|exact G].
  cbn [write_rnext]. destruct (bytes_eqb n m) eqn:E; [|exact G].
  apply bytes_eqb_eq in E. subst m.
  apply ref_name_some in H1. apply ref_name_some in H2.
  destruct rid as [i|]; [|contradiction]. destruct mrid as [j|]; [|contradiction].
  split; [|repeat constructor].
  cbn. f_equal. f_equal.
  assert (N.to_nat i = N.to_nat j).
  { apply (proj1 (NoDup_nth_error refs) ND).
    - apply nth_error_Some. rewrite H1. discriminate.
    - now rewrite H1, H2. }
  lia.
Qed.

(* ---- CIGAR *)
Definition wf_op (o : op) : Prop := fst o < 9 /\ (Z.of_N (snd o) <= USIZE_MAX)%Z.

Lemma kind_cases k : k < 9 -> k = 0 \/ k = 1 \/ k = 2 \/ k = 3 \/ k = 4 \/ k = 5 \/ k = 6 \/ k = 7 \/ k = 8.
Proof. lia. Qed.

Lemma char_kind_char k : k < 9 -> char_kind (kind_char k) = Some k /\ is_digit (kind_char k) = false
                                   /\ printable (kind_char k) = true.
Proof.
  intro H. destruct (kind_cases k H) as [E|[E|[E|[E|[E|[E|[E|[E|E]]]]]]]]; subst; repeat split.
Qed.

Lemma write_ops_PR ops : Forall wf_op ops -> PR (write_ops ops).
Proof.
  induction 1 as [|[k l] t [Hk _] _ IH]; cbn [write_ops]; [constructor|].
  apply PR_app; [apply fmt_N_PR|]. constructor; [|exact IH].
  now destruct (char_kind_char k Hk) as (_ & _ & P).
Qed.

Lemma parse_ops_step f s : s <> [] ->
  parse_ops (S f) s =
    match parse_partial_int false 0 USIZE_MAX s with
    | Some (l, c :: rest) =>
        match char_kind c with
        | Some k => option_map (cons (k, Z.to_N l)) (parse_ops f rest)
        | None => None
        end
    | _ => None
    end.
Proof. destruct s; [contradiction|reflexivity]. Qed.

Lemma parse_ops_write ops : Forall wf_op ops -> forall fuel, (length ops <= fuel)%nat ->
  parse_ops fuel (write_ops ops) = Some ops.
Proof.
  induction 1 as [|[k l] t [Hk Hl] _ IH]; intros fuel Hf.
  - destruct fuel; reflexivity.
  - cbn [fst snd] in *. destruct fuel as [|f]; [cbn in Hf; lia|].
    cbn [write_ops]. destruct (char_kind_char k Hk) as (CK & ND & _).
    rewrite parse_ops_step.
    2:{ destruct (fmt_N_head l) as (c & tl & E & _). rewrite E. discriminate. }
    rewrite (parse_partial_fmt_N false 0 USIZE_MAX l (kind_char k :: write_ops t)); [|exact ND|lia].
    rewrite CK. rewrite IH by (cbn in Hf; lia). cbn. now rewrite Znat.N2Z.id.
Qed.

Lemma write_ops_length ops : (length ops <= length (write_ops ops))%nat.
Proof.
  induction ops as [|[k l] t IH]; cbn [write_ops length]; [lia|].
  rewrite app_length. cbn [length]. lia.
Qed.

Lemma cigar_rt ops : Forall wf_op ops ->
  parse_cigar (write_cigar ops) = Some ops /\ PR (write_cigar ops).
Proof.
  intro W. destruct ops as [|[k l] t] eqn:EO.
  - split; [reflexivity|repeat constructor].
  - rewrite <- EO in *. assert (WC : write_cigar ops = write_ops ops) by now subst.
    rewrite WC. split; [|now apply write_ops_PR].
    unfold parse_cigar.
    assert (S : is_star (write_ops ops) = false /\ write_ops ops <> []).
    { subst ops. cbn [write_ops]. destruct (fmt_N_head l) as (c & tl & E & Hc). rewrite E. cbn [app].
      split; [|discriminate]. cbn. destruct tl; reflexivity. }
    destruct S as [S NE]. rewrite S.
    destruct (write_ops ops) eqn:EW; [contradiction|]. rewrite <- EW.
    apply parse_ops_write; [exact W|apply write_ops_length].
Qed.

(* ---- SEQ *)
Lemma valid_base_printable c : valid_base c = true -> printable c = true /\ c <> 42.
Proof. unfold valid_base, is_alpha, printable. lia. Qed.

Lemma seq_rt rl s f : write_seq rl s = Some f -> parse_seq f = Some s /\ PR f.
Proof.
  destruct s as [|c s]; cbn [write_seq].
  - intro H; inversion H; subst. split; [reflexivity|repeat constructor].
  - destruct ((0 <? rl) && negb (len (c :: s) =? rl)); [discriminate|].
    destruct (forallb valid_base (c :: s)) eqn:V; [|discriminate]. intro H; inversion H; subst f.
    rewrite forallb_forall in V. split.
    + unfold parse_seq. assert (S : is_star (c :: s) = false).
      { destruct s; [|reflexivity]. cbn. destruct (valid_base_printable c (V c (or_introl eq_refl))). lia. }
      now rewrite S.
    + apply Forall_forall. intros x Hx. now destruct (valid_base_printable x (V x Hx)).
Qed.

(* ---- QUAL *)
Definition norm_qual_f (q : bytes) : bytes :=
  match q with [c] => if c =? 9 then [] else q | _ => q end.

Lemma map_sub_add q : map (fun n => n - 33) (map (fun n => n + 33) q) = q.
Proof. induction q as [|c q IH]; cbn [map]; [reflexivity|]. f_equal; [lia|exact IH]. Qed.

Lemma qual_rt bc q f : write_qual bc q = Some f ->
  parse_qual bc f = Some (norm_qual_f q) /\ PR f.
Proof.
  destruct q as [|c q]; cbn [write_qual].
  - intro H; inversion H; subst. split; [reflexivity|repeat constructor].
  - destruct (len (c :: q) =? bc) eqn:L; [|discriminate].
    destruct (forallb (fun n => n <=? 93) (c :: q)) eqn:V; [|discriminate].
    intro H; injection H as <-. rewrite forallb_forall in V.
    assert (G : forallb graphic (map (fun n => n + 33) (c :: q)) = true).
    { apply forallb_forall. intros x Hx. apply in_map_iff in Hx as (y & <- & Hy).
      specialize (V y Hy). unfold graphic. lia. }
    split.
    + unfold parse_qual. destruct q as [|d q].
      * cbn [map is_star norm_qual_f]. destruct (c =? 9) eqn:E9.
        -- assert (E : (c + 33 =? 42) = true) by lia. now rewrite E.
        -- assert (E : (c + 33 =? 42) = false) by lia. rewrite E.
           cbn [map] in G. rewrite G.
           assert (L2 : negb (len [c + 33] =? bc) = false) by (unfold len in *; cbn [length] in *; lia).
           rewrite L2. cbn [map]. f_equal. f_equal. lia.
      * cbn [norm_qual_f]. cbn [map is_star].
        assert (L2 : negb (len (c + 33 :: d + 33 :: map (fun n => n + 33) q) =? bc) = false).
        { unfold len in *. cbn [length] in *. rewrite map_length. lia. }
        rewrite L2. change (c + 33 :: d + 33 :: map (fun n => n + 33) q) with (map (fun n => n + 33) (c :: d :: q)).
        rewrite G. cbn [map]. rewrite ?map_sub_add. repeat (f_equal; try lia).
    + rewrite forallb_forall in G. apply Forall_forall. intros x Hx. specialize (G x Hx).
      unfold graphic, printable in *. lia.
Qed.

(* ---- optional fields *)
Definition wf_aux (a : aux) : Prop :=
  match a with
  | AInt t v => (ity_lo t <= v <= ity_hi t)%Z
  | AArrI t vs => Forall (fun v => (ity_lo t <= v <= ity_hi t)%Z) vs
  | AArrF bs => Forall (fun b => finite32 b = true) bs
  | _ => True
  end.

Lemma smallest_in_range t v : (ity_lo t <= v <= ity_hi t)%Z -> exists t', smallest v = Some t'.
Proof.
  intro H. unfold smallest.
  assert (-2147483648 <= v <= 4294967295)%Z by (destruct t; cbn in H; lia).
  destruct (4294967295 <? v)%Z eqn:E1; [lia|].
  destruct (0 <=? v)%Z; [eauto|].
  destruct (-128 <=? v)%Z; [eauto|]. destruct (-32768 <=? v)%Z; [eauto|].
  destruct (-2147483648 <=? v)%Z eqn:E2; [eauto|lia].
Qed.

Lemma stops_comma r : stops (44 :: r).
Proof. reflexivity. Qed.

Lemma arr_i_rt t vs : Forall (fun v => (ity_lo t <= v <= ity_hi t)%Z) vs ->
  forall fuel, (length vs <= fuel)%nat ->
  parse_arr_i fuel t (concat (map (fun v => 44 :: fmt_dec v) vs)) = Some vs.
Proof.
  induction 1 as [|v vs Hv _ IH]; intros fuel Hf.
  - destruct fuel; reflexivity.
  - destruct fuel as [|f]; [cbn in Hf; lia|].
    cbn [map concat app parse_arr_i N.eqb Pos.eqb].
    set (rest := concat (map (fun v0 => 44 :: fmt_dec v0) vs)).
    assert (Hs : stops rest) by (unfold rest; destruct vs; [exact I|reflexivity]).
    assert (E : parse_partial_int (ity_signed t) (ity_lo t) (ity_hi t) (fmt_dec v ++ rest) = Some (v, rest)).
    { destruct (ity_signed t) eqn:S.
      - now apply parse_partial_fmt.
      - assert (0 <= v)%Z by (destruct t; cbn in *; try discriminate; lia).
        rewrite <- (Z2N.id v) by lia. rewrite fmt_dec_of_N.
        apply parse_partial_fmt_N; [exact Hs|rewrite Z2N.id; lia]. }
    rewrite E. unfold rest. rewrite IH by (cbn in Hf; lia). reflexivity.
Qed.

Lemma arr_len {A} (g : A -> bytes) (vs : list A) : (length vs <= length (concat (map (fun v => 44%N :: g v) vs)))%nat.
Proof.
  induction vs as [|v vs IH]; cbn [map concat length app]; [lia|]. rewrite app_length. lia.
Qed.

Lemma concat_PR {A} (g : A -> bytes) vs : (forall v, PR (g v)) -> PR (concat (map (fun v => 44 :: g v) vs)).
Proof.
  intro H. induction vs as [|v vs IH]; cbn [map concat]; [constructor|].
  cbn [app]. constructor; [reflexivity|]. apply PR_app; [apply H|exact IH].
Qed.

Section FloatOracle.
  Variable fmt32 : N -> bytes.
  Variable fmtd32 : N -> bytes.
  Variable parse32 : bytes -> option N.
  Variable parse32p : bytes -> option (N * bytes).
  Hypothesis H_f : forall b, finite32 b = true -> parse32 (fmt32 b) = Some b.
  Hypothesis H_fc : forall b, PR (fmt32 b).
  Hypothesis H_d : forall b rest, finite32 b = true -> (rest = [] \/ exists r, rest = 44 :: r) ->
                                  parse32p (fmtd32 b ++ rest) = Some (b, rest).
  Hypothesis H_dc : forall b, PR (fmtd32 b).

  Lemma arr_f_rt bs : Forall (fun b => finite32 b = true) bs ->
    forall fuel, (length bs <= fuel)%nat ->
    parse_arr_f parse32p fuel (concat (map (fun b => 44 :: fmtd32 b) bs)) = Some bs.
  Proof.
    induction 1 as [|b bs Hb _ IH]; intros fuel Hf.
    - destruct fuel; reflexivity.
    - destruct fuel as [|f]; [cbn in Hf; lia|].
      cbn [map concat app parse_arr_f N.eqb Pos.eqb].
      rewrite H_d; [|exact Hb|destruct bs; [now left|right; cbn; eauto]].
      rewrite IH by (cbn in Hf; lia). reflexivity.
  Qed.

  Lemma sub_char_rt t : char_sub (sub_char t) = Some t /\ (sub_char t =? 102) = false
                        /\ printable (sub_char t) = true.
  Proof. destruct t; repeat split. Qed.

  Lemma value_rt a v : wf_aux a -> write_value fmt32 fmtd32 a = Some v ->
    parse_value parse32 parse32p (type_char a) v = Some (norm_aux a) /\ PR v.
  Proof.
    intros W. destruct a as [c|t z|b|s|s|t vs|bs]; cbn [write_value type_char norm_aux].
    - destruct (graphic c) eqn:G; [|discriminate]. intro H; inversion H; subst.
      split; [reflexivity|]. constructor; [unfold graphic, printable in *; lia|constructor].
    - intro H; inversion H; subst. split; [|apply fmt_dec_PR].
      cbn in W. destruct (smallest_in_range t z W) as (t' & E).
      cbn [parse_value]. rewrite parse_int_fmt by (destruct t; cbn in W; lia). now rewrite E.
    - destruct (finite32 b) eqn:F; [|discriminate]. intro H; inversion H; subst.
      split; [|apply H_fc]. cbn [parse_value]. now rewrite H_f.
    - destruct (forallb printable s) eqn:P; [|discriminate]. intro H; inversion H; subst.
      split; [cbn [parse_value]; now rewrite P|]. apply Forall_forall. now apply forallb_forall.
    - destruct (hex_valid s) eqn:P; [|discriminate]. intro H; inversion H; subst.
      split; [cbn [parse_value]; now rewrite P|].
      unfold hex_valid in P. apply andb_prop in P as [_ P]. rewrite forallb_forall in P.
      apply Forall_forall. intros c Hc. specialize (P c Hc). unfold is_hex_upper, is_digit, printable in *. lia.
    - intro H; inversion H; subst. destruct (sub_char_rt t) as (CS & NF & PS). split.
      + cbn [parse_value]. rewrite NF, CS. cbn in W.
        rewrite arr_i_rt; [reflexivity|exact W|apply arr_len].
      + constructor; [exact PS|]. apply concat_PR. apply fmt_dec_PR.
    - intro H; inversion H; subst. split.
      + cbn [parse_value N.eqb Pos.eqb]. cbn in W. rewrite arr_f_rt; [reflexivity|exact W|apply arr_len].
      + constructor; [reflexivity|]. apply concat_PR. apply H_dc.
  Qed.

  Lemma type_char_PR a : printable (type_char a) = true.
  Proof. destruct a; reflexivity. Qed.

  Lemma field_rt t a f : wf_aux a -> write_field fmt32 fmtd32 (t, a) = Some f ->
    parse_field parse32 parse32p f = Some (t, norm_aux a) /\ PR f /\ (5 <= length f)%nat.
  Proof.
    intros W. cbn [write_field]. destruct (tag_valid t) eqn:T; [|discriminate].
    destruct (write_value fmt32 fmtd32 a) as [v|] eqn:V; [|discriminate].
    intro H; inversion H; subst f. destruct (value_rt a v W V) as [P1 P2].
    destruct t as [t0 t1]. cbn [fst snd] in *. repeat split.
    - cbn [parse_field N.eqb Pos.eqb andb]. rewrite P1. reflexivity.
    - unfold tag_valid, is_alpha, is_alnum, is_alpha, is_digit in T. cbn [fst snd] in T.
      repeat constructor; try exact P2; try (unfold printable; lia). apply type_char_PR.
    - cbn [length]. lia.
  Qed.

  Lemma write_value_norm a : write_value fmt32 fmtd32 (norm_aux a) = write_value fmt32 fmtd32 a
                             /\ type_char (norm_aux a) = type_char a.
  Proof. destruct a; cbn; try (split; reflexivity). destruct (smallest v); split; reflexivity. Qed.

End FloatOracle.
