(* The lazy optional fields (Sam/LazyData.v) against the eager parser (Sam/Fields.v, Sam/Record.v):
   on the optional-field text of every line the eager parser accepts, Data::iter yields the same
   fields, every lazily parsed array has the same elements, and the conversion loop of
   RecordBuf::try_from_alignment_record builds the eager record's data up to the storage width of
   integer tags (the lazy parser yields Int32 / UInt32, the eager one the smallest type) -- except
   for integer arrays with an element that has no digit (`B:c,,1`), which the eager parser reads
   as 0 and the lazy one rejects (refuted below).  Totality: the iteration always ends. *)
From Coq Require Import List NArith ZArith Bool Lia.
From Coq Require Import ZifyBool ZifyNat ZifyN.
From NV Require Import Base.Decimal Base.DecimalProofs Sam.Fields Sam.FieldsProofs Sam.Record Sam.RecordProofs.
From NV Require Import Sam.Lazy Sam.LazyProofs Sam.LazyData.
Import ListNotations.
Open Scope N_scope.

(* ---- decimal text: parse_partial against parse *)
Lemma take_digits_shape : forall s a k v k' rest,
  take_digits s a k = (v, k', rest) ->
  exists ds, s = ds ++ rest /\ all_digits ds /\ v = fold_left dstep ds a /\ k' = (k + length ds)%nat /\ stops rest.
Proof.
  induction s as [|c t IH]; intros a k v k' rest H; cbn [take_digits] in H.
  - injection H as H1 H2 H3. subst. exists []. repeat split; try constructor. cbn. lia.
  - destruct (is_digit c) eqn:E.
    + apply IH in H as (ds & E1 & D & E2 & E3 & S). exists (c :: ds). subst.
      repeat split; try assumption; [constructor; assumption | cbn [length]; lia].
    + injection H as H1 H2 H3. subst. exists []. repeat split; try constructor; [cbn; lia | exact E].
Qed.

Lemma parse_N_inv s v : parse_N s = Some v -> all_digits s /\ s <> [] /\ fold_left dstep s 0 = v.
Proof.
  unfold parse_N. intro H. destruct (take_digits s 0 0) as [[v' k] rest] eqn:E.
  apply take_digits_shape in E as (ds & E1 & D & E2 & E3 & _).
  destruct k as [|k]; [discriminate|]. destruct rest; [|discriminate]. injection H as H. subst.
  rewrite app_nil_r. repeat split; try assumption. intro Hn. subst ds. discriminate.
Qed.

Lemma parse_N_digits ds : all_digits ds -> ds <> [] -> parse_N ds = Some (fold_left dstep ds 0).
Proof.
  intros D NE. unfold parse_N. pose proof (take_digits_app ds D [] 0 0%nat I) as T.
  rewrite app_nil_r in T. rewrite T. destruct ds; [contradiction|reflexivity].
Qed.

Lemma parse_dec_nosign sg c t : c <> 43 -> c <> 45 ->
  parse_dec sg (c :: t) = option_map Z.of_N (parse_N (c :: t)).
Proof.
  intros H1 H2. unfold parse_dec. destruct c as [|p]; [reflexivity|].
  repeat (destruct p as [p|p|]; try reflexivity; try lia).
Qed.

Lemma partial_raw_body sg c t :
  partial_raw sg (c :: t) =
    let '(neg, body) := if c =? 43 then (false, t) else if (c =? 45) && sg then (true, t) else (false, c :: t) in
    match body with
    | [] => None
    | _ => let '(v, _, rest) := take_digits body 0 O in
           Some (if neg : bool then (- Z.of_N v)%Z else Z.of_N v, rest)
    end.
Proof. reflexivity. Qed.

Lemma ppi_raw sg lo hi s :
  parse_partial_int sg lo hi s =
    match partial_raw sg s with
    | Some (z, r) => if ((lo <=? z) && (z <=? hi))%Z then Some (z, r) else None
    | None => None
    end.
Proof.
  destruct s as [|c t]; [reflexivity|]. unfold parse_partial_int. rewrite partial_raw_body.
  destruct (c =? 43); [|destruct ((c =? 45) && sg)].
  - destruct t as [|d t']; [reflexivity|]. destruct (take_digits (d :: t') 0 0) as [[v k] r]. reflexivity.
  - destruct t as [|d t']; [reflexivity|]. destruct (take_digits (d :: t') 0 0) as [[v k] r]. reflexivity.
  - destruct (take_digits (c :: t) 0 0) as [[v k] r]. reflexivity.
Qed.

(* a complete number followed by a non-digit is read by parse_partial with that rest *)
Lemma partial_raw_complete sg s v rest : parse_dec sg s = Some v -> stops rest ->
  partial_raw sg (s ++ rest) = Some (v, rest).
Proof.
  intros H S. destruct s as [|c t]; [discriminate|]. cbn [app]. rewrite partial_raw_body.
  destruct (N.eq_dec c 43) as [E|N1].
  - subst c. cbn [N.eqb Pos.eqb]. cbn [parse_dec] in H.
    destruct (parse_N t) as [n|] eqn:P; [|discriminate]. injection H as H. subst v.
    apply parse_N_inv in P as (D & NE & F). destruct t as [|d t']; [contradiction|].
    change ((d :: t') ++ rest) with (d :: t' ++ rest). change (d :: t' ++ rest) with ((d :: t') ++ rest).
    rewrite take_digits_app by assumption. rewrite F.
    destruct ((d :: t') ++ rest) eqn:Z; [discriminate|]. reflexivity.
  - assert (E1 : (c =? 43) = false) by lia. rewrite E1.
    destruct (N.eq_dec c 45) as [E|N2].
    + subst c. cbn [N.eqb Pos.eqb andb]. cbn [parse_dec] in H. destruct sg; [|discriminate].
      destruct (parse_N t) as [n|] eqn:P; [|discriminate]. injection H as H. subst v.
      apply parse_N_inv in P as (D & NE & F). destruct t as [|d t']; [contradiction|].
      change ((d :: t') ++ rest) with (d :: t' ++ rest). change (d :: t' ++ rest) with ((d :: t') ++ rest).
      rewrite take_digits_app by assumption. rewrite F.
      destruct ((d :: t') ++ rest) eqn:Z; [discriminate|]. reflexivity.
    + assert (E2 : (c =? 45) = false) by lia. rewrite E2. cbn [andb].
      rewrite parse_dec_nosign in H by assumption.
      destruct (parse_N (c :: t)) as [n|] eqn:P; [|discriminate]. injection H as H. subst v.
      apply parse_N_inv in P as (D & NE & F).
      change (c :: t ++ rest) with ((c :: t) ++ rest).
      rewrite take_digits_app by assumption. rewrite F. reflexivity.
Qed.

Definition sign_or_digit (c : N) : Prop := is_digit c = true \/ c = 43 \/ c = 45.
Definition has_digit (e : bytes) : bool := existsb is_digit e.

(* what parse_partial consumed is a sign and digits; if it has a digit at all, parse reads it
   completely to the same value *)
Lemma partial_raw_shape sg s v rest : partial_raw sg s = Some (v, rest) ->
  exists pre, s = pre ++ rest /\ Forall sign_or_digit pre /\
              (has_digit pre = true -> parse_dec sg pre = Some v).
Proof.
  destruct s as [|c t]; [discriminate|]. rewrite partial_raw_body.
  destruct (N.eq_dec c 43) as [E|N1].
  - subst c. cbn [N.eqb Pos.eqb]. destruct t as [|d t']; [discriminate|].
    destruct (take_digits (d :: t') 0 0) as [[n k] r] eqn:T. intro H. injection H as H1 H2. subst.
    apply take_digits_shape in T as (ds & E1 & D & E2 & _ & _).
    exists (43 :: ds). rewrite E1. split; [reflexivity|]. split.
    + constructor; [right; left; reflexivity|]. eapply Forall_impl; [|exact D]. intros x Hx. left. exact Hx.
    + intro HD. cbn [has_digit existsb is_digit] in HD. cbn [parse_dec].
      destruct ds as [|x ds']; [cbn in HD; discriminate|].
      rewrite parse_N_digits by (auto; discriminate). subst n. reflexivity.
  - assert (E1 : (c =? 43) = false) by lia. rewrite E1.
    destruct ((c =? 45) && sg) eqn:E45.
    + assert (c = 45 /\ sg = true) as [Ec Es] by (destruct sg; lia). subst c sg.
      destruct t as [|d t']; [discriminate|].
      destruct (take_digits (d :: t') 0 0) as [[n k] r] eqn:T. intro H. injection H as H1 H2. subst.
      apply take_digits_shape in T as (ds & E2 & D & E3 & _ & _).
      exists (45 :: ds). rewrite E2. split; [reflexivity|]. split.
      * constructor; [right; right; reflexivity|]. eapply Forall_impl; [|exact D]. intros x Hx. left. exact Hx.
      * intro HD. cbn [has_digit existsb is_digit] in HD. cbn [parse_dec].
        destruct ds as [|x ds']; [cbn in HD; discriminate|].
        rewrite parse_N_digits by (auto; discriminate). subst n. reflexivity.
    + destruct (take_digits (c :: t) 0 0) as [[n k] r] eqn:T. intro H. injection H as H1 H2. subst.
      apply take_digits_shape in T as (ds & E2 & D & E3 & _ & _).
      exists ds. split; [exact E2|]. split.
      * eapply Forall_impl; [|exact D]. intros x Hx. left. exact Hx.
      * intro HD. destruct ds as [|x ds']; [cbn in HD; discriminate|].
        assert (Hx : 48 <= x <= 57) by (inversion D; now apply is_digit_iff).
        rewrite parse_dec_nosign by lia. rewrite parse_N_digits by (auto; discriminate).
        subst n. reflexivity.
Qed.

Lemma parse_dec_positive_unsigned s v : parse_dec true s = Some v -> (0 < v)%Z -> parse_dec false s = Some v.
Proof.
  intros H P. destruct s as [|c t]; [discriminate|].
  destruct (N.eq_dec c 43) as [E|N1]; [subst c; exact H|].
  destruct (N.eq_dec c 45) as [E|N2].
  - subst c. cbn [parse_dec] in H. destruct (parse_N t) as [n|]; [|discriminate].
    injection H as H. lia.
  - rewrite parse_dec_nosign in * by assumption. exact H.
Qed.

(* ---- text shapes *)
Definition NoTab (f : bytes) : Prop := Forall (fun c => c <> 9) f.
Definition NoComma (f : bytes) : Prop := Forall (fun c => c <> 44) f.
(* what follows a field inside Record::data(): nothing, or a TAB *)
Definition tail_ok (rest : bytes) : Prop := rest = [] \/ exists r, rest = 9 :: r.
Definition untab (rest : bytes) : bytes := match rest with [] => [] | _ :: r => r end.

Lemma tail_ok_stops rest : tail_ok rest -> stops rest.
Proof. intros [->|(r & ->)]; [exact I|reflexivity]. Qed.

Lemma split_tab_notab_all s : Forall NoTab (split_tab s).
Proof.
  induction s as [|c t IH]; cbn [split_tab]; [repeat constructor|].
  destruct (c =? 9) eqn:E; [constructor; [constructor|exact IH]|].
  destruct (split_tab t) as [|f fs]; [repeat constructor; lia|].
  inversion IH; subst. constructor; [constructor; [lia|assumption]|assumption].
Qed.

Lemma skipn_Forall {A} (P : A -> Prop) n l : Forall P l -> Forall P (skipn n l).
Proof. revert l. induction n as [|n IH]; intros l H; [exact H|]. destruct l; [constructor|]. inversion H; subst. now apply IH. Qed.

Lemma take_tab_app f rest : NoTab f -> tail_ok rest -> take_tab (f ++ rest) = (f, rest).
Proof.
  intros H T. induction H as [|c f Hc _ IH]; cbn [app].
  - destruct T as [->|(r & ->)]; reflexivity.
  - cbn [take_tab]. assert (E : (c =? 9) = false) by lia. rewrite E, IH. reflexivity.
Qed.

Lemma take_tab_split s f r : take_tab s = (f, r) -> s = f ++ r.
Proof.
  revert f r. induction s as [|c t IH]; intros f r H; cbn [take_tab] in H.
  - injection H as H1 H2. subst. reflexivity.
  - destruct (c =? 9); [injection H as H1 H2; subst; reflexivity|].
    destruct (take_tab t) as [f' r']. injection H as H1 H2. subst. cbn [app]. f_equal. now apply IH.
Qed.

Lemma split_comma_ne s : split_comma s <> [].
Proof. destruct s as [|c t]; cbn [split_comma]; [discriminate|]. destruct (c =? 44); [discriminate|]. destruct (split_comma t); discriminate. Qed.

Lemma split_comma_one f : NoComma f -> split_comma f = [f].
Proof.
  induction 1 as [|c f Hc _ IH]; [reflexivity|]. cbn [split_comma].
  assert (E : (c =? 44) = false) by lia. now rewrite E, IH.
Qed.

Lemma split_comma_app f rest : NoComma f -> split_comma (f ++ 44 :: rest) = f :: split_comma rest.
Proof.
  induction 1 as [|c f Hc _ IH]; cbn [app split_comma]; [reflexivity|].
  assert (E : (c =? 44) = false) by lia. now rewrite E, IH.
Qed.

Lemma sign_or_digit_nocomma pre : Forall sign_or_digit pre -> NoComma pre.
Proof.
  intro H. eapply Forall_impl; [|exact H]. intros c [Hc|[Hc|Hc]]; [apply is_digit_iff in Hc|..]; lia.
Qed.

(* ---- array elements *)
Lemma arr_i_agree : forall fuel t x vs,
  parse_arr_i fuel t (44 :: x) = Some vs ->
  forallb has_digit (split_comma x) = true ->
  mapM (lz_elem_i t) (lz_arr_elems x) = Some vs.
Proof.
  induction fuel as [|fuel IH]; intros t x vs H HD; [discriminate|].
  cbn [parse_arr_i N.eqb Pos.eqb] in H. rewrite ppi_raw in H.
  destruct (partial_raw (ity_signed t) x) as [[v rest]|] eqn:P; [|discriminate].
  destruct ((ity_lo t <=? v) && (v <=? ity_hi t))%Z eqn:R; [|discriminate].
  destruct (parse_arr_i fuel t rest) as [vs'|] eqn:A; [|discriminate]. injection H as H. subst vs.
  assert (NE : x <> []) by (intro E; subst x; discriminate).
  unfold lz_arr_elems. destruct x as [|x0 xt]; [contradiction|]. remember (x0 :: xt) as x eqn:Ex. clear Ex NE x0 xt.
  apply partial_raw_shape in P as (pre & E & SD & PD). subst x.
  pose proof (sign_or_digit_nocomma _ SD) as NC.
  destruct rest as [|c r].
  - rewrite app_nil_r in *. rewrite split_comma_one in * by exact NC.
    cbn [forallb] in HD. rewrite andb_true_r in HD.
    destruct fuel; cbn [parse_arr_i] in A; injection A as A; subst vs'.
    all: cbn [mapM]; unfold lz_elem_i, parse_int; rewrite (PD HD), R; reflexivity.
  - destruct fuel as [|fuel']; [discriminate|]. cbn [parse_arr_i] in A.
    destruct (c =? 44) eqn:Ec; [|discriminate]. assert (c = 44) by lia. subst c.
    rewrite split_comma_app in * by exact NC. cbn [forallb] in HD. apply andb_prop in HD as [HD1 HD2].
    cbn [mapM]. unfold lz_elem_i at 1. unfold parse_int. rewrite (PD HD1), R.
    assert (A' : parse_arr_i (S fuel') t (44 :: r) = Some vs').
    { cbn [parse_arr_i N.eqb Pos.eqb]. exact A. }
    pose proof (IH t r vs' A' HD2) as IH'. unfold lz_arr_elems in IH'.
    destruct r as [|r0 rt].
    + cbn [parse_arr_i N.eqb Pos.eqb] in A'. discriminate.
    + rewrite IH'. reflexivity.
Qed.

(* integer array text is canonical when every element has a digit; noodles' writer only emits such text *)
Definition arr_val_canon (v : bytes) : bool :=
  match v with
  | c :: 44 :: x => (c =? 102) || forallb has_digit (split_comma x)
  | _ => true
  end.
Definition arr_canon (f : bytes) : bool :=
  match f with
  | _ :: _ :: _ :: 66 :: _ :: v => arr_val_canon v
  | _ => true
  end.

Lemma smallest_range v t : smallest v = Some t -> (-2147483648 <= v <= 4294967295)%Z.
Proof.
  unfold smallest. intro H.
  destruct (4294967295 <? v)%Z eqn:E1; [discriminate|].
  destruct (0 <=? v)%Z eqn:E2; [lia|].
  destruct (-128 <=? v)%Z eqn:E3; [lia|]. destruct (-32768 <=? v)%Z eqn:E4; [lia|].
  destruct (-2147483648 <=? v)%Z eqn:E5; [lia|discriminate].
Qed.

Section Agree.
  Variable parse32 : bytes -> option N.
  Variable parse32p : bytes -> option (N * bytes).
  (* the float oracle, parse against parse_partial: a complete float followed by the end or a TAB
     is read by parse_partial with that rest; what parse_partial consumed has no comma and is a
     complete float of the same value *)
  Hypothesis H_a : forall f b rest, parse32 f = Some b -> NoTab f -> tail_ok rest ->
                                    parse32p (f ++ rest) = Some (b, rest).
  Hypothesis H_b : forall s v rest, parse32p s = Some (v, rest) ->
                                    exists f, s = f ++ rest /\ parse32 f = Some v /\ NoComma f.
  Hypothesis H_e : parse32 [] = None.

  Lemma arr_f_agree : forall fuel x bs,
    parse_arr_f parse32p fuel (44 :: x) = Some bs ->
    mapM parse32 (lz_arr_elems x) = Some bs.
  Proof.
    induction fuel as [|fuel IH]; intros x bs H; [discriminate|].
    cbn [parse_arr_f N.eqb Pos.eqb] in H.
    destruct (parse32p x) as [[v rest]|] eqn:P; [|discriminate].
    destruct (parse_arr_f parse32p fuel rest) as [bs'|] eqn:A; [|discriminate]. injection H as H. subst bs.
    apply H_b in P as (f & E & PF & NC). subst x.
    destruct f as [|f0 ft]; [rewrite H_e in PF; discriminate|].
    unfold lz_arr_elems. cbn [app]. change (f0 :: ft ++ rest) with ((f0 :: ft) ++ rest).
    destruct rest as [|c r].
    - rewrite app_nil_r. destruct fuel; cbn [parse_arr_f] in A; injection A as A; subst bs'.
      all: rewrite split_comma_one by exact NC; cbn [mapM]; rewrite PF; reflexivity.
    - destruct fuel as [|fuel']; [discriminate|]. cbn [parse_arr_f] in A.
      destruct (c =? 44) eqn:Ec; [|discriminate]. assert (c = 44) by lia. subst c.
      rewrite split_comma_app by exact NC. cbn [mapM]. rewrite PF.
      assert (A' : parse_arr_f parse32p (S fuel') (44 :: r) = Some bs').
      { cbn [parse_arr_f N.eqb Pos.eqb]. exact A. }
      pose proof (IH r bs' A') as IH'. unfold lz_arr_elems in IH'.
      destruct r as [|r0 rt].
      + cbn [parse_arr_f N.eqb Pos.eqb] in A'. rewrite <- (app_nil_l []) in A'.
        destruct (parse32p ([] ++ [])) as [[v2 rest2]|] eqn:P2; [|discriminate].
        apply H_b in P2 as (f2 & E2 & PF2 & _). destruct f2; [rewrite H_e in PF2|]; discriminate.
      + rewrite IH'. reflexivity.
  Qed.

  Lemma parse_value_cases ty s a : parse_value parse32 parse32p ty s = Some a ->
    ty = 65 \/ ty = 105 \/ ty = 102 \/ ty = 90 \/ ty = 72 \/ ty = 66.
  Proof.
    destruct ty as [|p]; [discriminate|].
    do 7 (try (destruct p as [p|p|]; try (intro H; discriminate H))); intros _; auto 10.
  Qed.

  Lemma value_agree ty s a rest :
    NoTab s -> tail_ok rest ->
    parse_value parse32 parse32p ty s = Some a ->
    (ty = 66 -> arr_val_canon s = true) ->
    exists lv a', lz_value parse32p ty (s ++ rest) = DOk (lv, rest) /\ is_type ty = true /\
                  lval_to_aux parse32 lv = Some a' /\ norm_aux a' = a.
  Proof.
    intros NT T H C. pose proof (tail_ok_stops _ T) as ST.
    destruct (parse_value_cases _ _ _ H) as [E|[E|[E|[E|[E|E]]]]]; subst ty.
    - (* A *)
      cbn [parse_value] in H. destruct s as [|c [|d s']]; try discriminate. injection H as H. subst a.
      exists (LChar c), (AChar c). repeat split.
    - (* i *)
      cbn [parse_value] in H.
      destruct (parse_int true (-9223372036854775808) 9223372036854775807 s) as [v|] eqn:P; [|discriminate].
      destruct (smallest v) as [t|] eqn:SM; [|discriminate]. injection H as H. subst a.
      unfold parse_int in P. destruct (parse_dec true s) as [v'|] eqn:PD; [|discriminate].
      destruct ((-9223372036854775808 <=? v') && (v' <=? 9223372036854775807))%Z; [|discriminate].
      injection P as P. subst v'. pose proof (smallest_range _ _ SM) as R.
      cbn [lz_value]. unfold lz_int. rewrite (partial_raw_complete true s v rest PD ST).
      assert (E1 : (v <? -2147483648)%Z = false) by lia. rewrite E1.
      destruct (v <=? 2147483647)%Z eqn:E2.
      + exists (LI32 v), (AInt I32 v). repeat split. cbn [norm_aux]. now rewrite SM.
      + rewrite ppi_raw.
        rewrite (partial_raw_complete false s v rest (parse_dec_positive_unsigned s v PD ltac:(lia)) ST).
        assert (E3 : ((0 <=? v) && (v <=? 4294967295))%Z = true) by lia. rewrite E3.
        exists (LU32 v), (AInt U32 v). repeat split. cbn [norm_aux]. now rewrite SM.
    - (* f *)
      cbn [parse_value] in H. destruct (parse32 s) as [b|] eqn:P; [|discriminate]. injection H as H. subst a.
      cbn [lz_value]. rewrite (H_a s b rest P NT T). exists (LFloat b), (AFloat b). repeat split.
    - (* Z *)
      cbn [parse_value] in H. destruct (forallb printable s); [|discriminate]. injection H as H. subst a.
      cbn [lz_value]. rewrite (take_tab_app s rest NT T). exists (LStr s), (AStr s). repeat split.
    - (* H *)
      cbn [parse_value] in H. destruct (hex_valid s); [|discriminate]. injection H as H. subst a.
      cbn [lz_value]. rewrite (take_tab_app s rest NT T). exists (LHex s), (AHex s). repeat split.
    - (* B *)
      specialize (C eq_refl). cbn [parse_value] in H. destruct s as [|c r]; [discriminate|].
      inversion NT as [|? ? Hc NTr]; subst.
      change (lz_value parse32p 66 ((c :: r) ++ rest)) with (lz_array ((c :: r) ++ rest)).
      cbn [app]. unfold lz_array.
      destruct (c =? 102) eqn:Ef.
      + destruct (parse_arr_f parse32p (length r) r) as [bs|] eqn:A; [|discriminate]. injection H as H. subst a.
        destruct r as [|d r'].
        * cbn [length parse_arr_f] in A. injection A as A. subst bs. cbn [app].
          exists (LArrF []), (AArrF []).
          destruct T as [->|(r0 & ->)]; repeat split.
        * inversion NTr as [|? ? Hd NTr']; subst. cbn [length parse_arr_f] in A.
          destruct (d =? 44) eqn:Ed; [|discriminate]. assert (d = 44) by lia. subst d.
          cbn [app N.eqb Pos.eqb]. rewrite (take_tab_app r' rest NTr' T).
          exists (LArrF r'), (AArrF bs). repeat split. cbn [lval_to_aux].
          rewrite (arr_f_agree (S (length r')) r' bs); [reflexivity|].
          cbn [parse_arr_f N.eqb Pos.eqb]. exact A.
      + destruct (char_sub c) as [t|] eqn:CS; [|discriminate].
        destruct (parse_arr_i (length r) t r) as [vs|] eqn:A; [|discriminate]. injection H as H. subst a.
        destruct r as [|d r'].
        * cbn [length parse_arr_i] in A. injection A as A. subst vs. cbn [app].
          exists (LArrI t []), (AArrI t []).
          destruct T as [->|(r0 & ->)]; repeat split.
        * inversion NTr as [|? ? Hd NTr']; subst. cbn [length parse_arr_i] in A.
          destruct (d =? 44) eqn:Ed; [|discriminate]. assert (d = 44) by lia. subst d.
          cbn [app N.eqb Pos.eqb]. rewrite (take_tab_app r' rest NTr' T).
          exists (LArrI t r'), (AArrI t vs). repeat split. cbn [lval_to_aux].
          cbn [arr_val_canon] in C. rewrite Ef in C. cbn [orb] in C.
          rewrite (arr_i_agree (S (length r')) t r' vs); [reflexivity| |exact C].
          cbn [parse_arr_i N.eqb Pos.eqb]. exact A.
  Qed.

  Lemma field_agree f t a rest :
    NoTab f -> tail_ok rest ->
    parse_field parse32 parse32p f = Some (t, a) -> arr_canon f = true ->
    exists lv a', lz_field parse32p (f ++ rest) = DOk (t, lv, untab rest) /\
                  lval_to_aux parse32 lv = Some a' /\ norm_aux a' = a.
  Proof.
    intros NT T H C. unfold parse_field in H.
    destruct f as [|t0 [|t1 [|c1 [|ty [|c2 v]]]]]; try discriminate.
    destruct ((c1 =? 58) && (c2 =? 58)) eqn:E; [|discriminate].
    assert (c1 = 58 /\ c2 = 58) as [E1 E2] by lia. subst c1 c2.
    destruct (parse_value parse32 parse32p ty v) as [a0|] eqn:PV; [|discriminate].
    injection H as H1 H2. subst t a0.
    assert (NTv : NoTab v) by (do 5 (inversion NT as [|? ? _ NT']; subst; clear NT; rename NT' into NT); exact NT).
    assert (Cv : ty = 66 -> arr_val_canon v = true) by (intros ->; exact C).
    destruct (value_agree ty v a rest NTv T PV Cv) as (lv & a' & LV & IT & LA & NA).
    exists lv, a'. split; [|split; assumption].
    cbn [app lz_field N.eqb Pos.eqb negb]. rewrite IT. cbn [negb]. rewrite LV.
    destruct T as [->|(r0 & ->)]; reflexivity.
  Qed.

  (* ---- the loop *)
  Lemma mem_tag_false_in t acc : mem_tag t acc = false ->
    forall x, In x acc -> tag_eqb t (fst x) = false.
  Proof.
    induction acc as [|[u b] acc IH]; intros H x Hx; [contradiction|].
    cbn [mem_tag] in H. apply orb_false_elim in H as [H1 H2].
    destruct Hx as [<-|Hx]; [exact H1|now apply IH].
  Qed.

  Lemma data_insert_fresh l t a : (forall x, In x l -> tag_eqb t (fst x) = false) ->
    data_insert l t a = l ++ [(t, a)].
  Proof.
    induction l as [|[u b] l IH]; intro H; [reflexivity|]. cbn [data_insert app].
    pose proof (H (u, b) (or_introl eq_refl)) as Hu. cbn [fst] in Hu. rewrite Hu. f_equal. apply IH. intros x Hx. apply H. now right.
  Qed.

  Lemma parse_field_len f t a : parse_field parse32 parse32p f = Some (t, a) -> (5 <= length f)%nat.
  Proof. unfold parse_field. destruct f as [|t0 [|t1 [|c1 [|ty [|c2 v]]]]]; try discriminate. cbn [length]. lia. Qed.

  Lemma lz_conv_step fuel src acc t v rest a : src <> [] ->
    lz_field parse32p src = DOk (t, v, rest) -> lval_to_aux parse32 v = Some a ->
    lz_conv parse32 parse32p (S fuel) src acc = lz_conv parse32 parse32p fuel rest (data_insert acc t a).
  Proof. destruct src; [contradiction|]. cbn [lz_conv]. intros _ H1 H2. rewrite H1, H2. reflexivity. Qed.

  Lemma conv_loop : forall fs acc d,
    parse_data parse32 parse32p fs acc = Some d ->
    Forall NoTab fs -> forallb arr_canon fs = true ->
    forall fuel lacc, (length (join_tab fs) <= fuel)%nat -> map normf lacc = rev acc ->
    exists d', lz_conv parse32 parse32p fuel (join_tab fs) lacc = DOk d' /\ map normf d' = d.
  Proof.
    induction fs as [|f rest IH]; intros acc d H NT C fuel lacc HF HL.
    - cbn [parse_data] in H. injection H as H. subst d. cbn [join_tab].
      destruct fuel; cbn [lz_conv]; exists lacc; split; auto.
    - cbn [parse_data] in H.
      destruct (parse_field parse32 parse32p f) as [[t a]|] eqn:PF; [|discriminate].
      destruct (mem_tag t acc) eqn:MT; [discriminate|].
      inversion NT as [|? ? NTf NTr]; subst. cbn [forallb] in C. apply andb_prop in C as [Cf Cr].
      pose proof (parse_field_len _ _ _ PF) as LF.
      assert (TO : tail_ok (match rest with [] => [] | _ => 9 :: join_tab rest end)).
      { destruct rest; [left; reflexivity|right; eexists; reflexivity]. }
      assert (EJ : join_tab (f :: rest) = f ++ match rest with [] => [] | _ => 9 :: join_tab rest end).
      { destruct rest; [cbn [join_tab]; now rewrite app_nil_r|reflexivity]. }
      rewrite EJ in *.
      destruct (field_agree f t a _ NTf TO PF Cf) as (lv & a' & LF' & LA & NA).
      destruct fuel as [|k]; [rewrite app_length in HF; lia|].
      assert (NEs : f ++ match rest with [] => [] | _ => 9 :: join_tab rest end <> [])
        by (destruct f; [cbn in LF; lia|discriminate]).
      rewrite (lz_conv_step k _ lacc t lv _ a' NEs LF' LA).
      assert (FR : data_insert lacc t a' = lacc ++ [(t, a')]).
      { apply data_insert_fresh. intros x Hx.
        assert (Hn : In (normf x) (rev acc)) by (rewrite <- HL; now apply in_map).
        apply in_rev in Hn. exact (mem_tag_false_in t acc MT _ Hn). }
      rewrite FR.
      assert (HL' : map normf (lacc ++ [(t, a')]) = rev ((t, a) :: acc)).
      { rewrite map_app, HL. cbn [map rev]. unfold normf. cbn [fst snd]. now rewrite NA. }
      destruct rest as [|g rest'].
      + cbn [untab]. cbn [parse_data] in H. injection H as H. subst d.
        destruct k; cbn [lz_conv]; eexists; split; try reflexivity; exact HL'.
      + cbn [untab].
        assert (HK : (length (join_tab (g :: rest')) <= k)%nat) by (rewrite app_length in HF; cbn [length] in HF; lia).
        destruct (list_eq_dec (list_eq_dec N.eq_dec) (g :: rest') [[]]) as [E|NE].
        * injection E as E1 E2. subst g rest'. injection H as H. subst d. cbn [join_tab].
          destruct k; cbn [lz_conv]; eexists; split; try reflexivity; exact HL'.
        * assert (H' : parse_data parse32 parse32p (g :: rest') ((t, a) :: acc) = Some d).
          { destruct g as [|g0 gt]; [destruct rest'; [contradiction NE; reflexivity|]|]; exact H. }
          exact (IH _ _ H' NTr Cr k _ HK HL').
  Qed.

  (* the conversion loop of try_from_alignment_record on the optional-field text of a line the
     eager parser accepts gives the eager data, integer tags by value *)
  Theorem lazy_data_conv_eq_eager fs d :
    parse_data_top parse32 parse32p fs = Some d ->
    Forall NoTab fs -> forallb arr_canon fs = true ->
    exists d', lazy_data_conv parse32 parse32p (join_tab fs) = DOk d' /\ map normf d' = d.
  Proof.
    intros H NT C. unfold lazy_data_conv.
    assert (G : parse_data parse32 parse32p fs [] = Some d \/ (d = [] /\ join_tab fs = [])).
    { unfold parse_data_top in H. destruct fs as [|f [|g r]].
      - right. injection H as H. now subst.
      - destruct f; [right; injection H as H; now subst|left; exact H].
      - left. destruct f; exact H. }
    destruct G as [G|[-> E]].
    - apply (conv_loop fs [] d G NT C); [lia|reflexivity].
    - rewrite E. cbn. exists []. split; reflexivity.
  Qed.

  (* ---- the iterator itself: when the conversion loop succeeds, Data::iter yielded exactly the
     fields it converted *)
  Fixpoint conv_list (l : list ((N * N) * lval)) (acc : list ((N * N) * aux)) : option (list ((N * N) * aux)) :=
    match l with
    | [] => Some acc
    | (t, v) :: r => match lval_to_aux parse32 v with
                     | Some a => conv_list r (data_insert acc t a)
                     | None => None
                     end
    end.

  Lemma conv_fields : forall fuel src acc d,
    lz_conv parse32 parse32p fuel src acc = DOk d ->
    exists l, lz_fields parse32p fuel src = DOk l /\ conv_list l acc = Some d.
  Proof.
    induction fuel as [|k IH]; intros src acc d H.
    - destruct src; cbn [lz_conv] in H; [|discriminate]. injection H as H. subst. exists []. split; reflexivity.
    - destruct src as [|c s]; cbn [lz_conv] in H.
      + injection H as H. subst. exists []. split; reflexivity.
      + cbn [lz_fields]. destruct (lz_field parse32p (c :: s)) as [[[t v] rest]|e]; [|discriminate].
        destruct (lval_to_aux parse32 v) as [a|] eqn:LA; [|discriminate].
        apply IH in H as (l & HF & HC). rewrite HF. exists ((t, v) :: l). split; [reflexivity|].
        cbn [conv_list]. now rewrite LA.
  Qed.
End Agree.

(* ---- totality: for ANY bytes the iteration ends (every parsed field consumes at least one
   byte), provided lexical's parse_partial returns an index within its input *)
Section Total.
  Variable parse32 : bytes -> option N.
  Variable parse32p : bytes -> option (N * bytes).
  Hypothesis H_len : forall s v rest, parse32p s = Some (v, rest) -> (length rest <= length s)%nat.

  Lemma partial_raw_len sg s v rest : partial_raw sg s = Some (v, rest) -> (length rest <= length s)%nat.
  Proof.
    intro H. apply partial_raw_shape in H as (pre & -> & _). rewrite app_length. lia.
  Qed.

  Lemma take_tab_len s f r : take_tab s = (f, r) -> (length r <= length s)%nat.
  Proof. intro H. apply take_tab_split in H. subst. rewrite app_length. lia. Qed.

  Lemma lz_value_len ty src v rest : lz_value parse32p ty src = DOk (v, rest) -> (length rest <= length src)%nat.
  Proof.
    intro H.
    assert (HA : lz_array src = DOk (v, rest) -> (length rest <= length src)%nat).
    { clear H. unfold lz_array. destruct src as [|c r]; [discriminate|].
      destruct (if c =? 102 then Some None else match char_sub c with Some t => Some (Some t) | None => None end) as [st|]; [|discriminate].
      destruct r as [|d r'].
      - cbn [take_tab]. intro H. injection H as _ H. subst. cbn. lia.
      - destruct (d =? 44).
        + destruct (take_tab r') as [b r0] eqn:T. apply take_tab_len in T. intro H. injection H as _ H. subst. cbn [length]. lia.
        + destruct (d =? 9); [|discriminate].
          destruct (take_tab (d :: r')) as [b r0] eqn:T. apply take_tab_len in T. intro H. injection H as _ H. subst. cbn [length] in *. lia. }
    destruct ty as [|p]; [exact (HA H)|].
    do 7 (try (destruct p as [p|p|]; try exact (HA H))).
    - (* 105 i *) cbn [lz_value] in H. unfold lz_int in H.
      destruct (partial_raw true src) as [[z r]|] eqn:P; [|discriminate].
      destruct (z <? -2147483648)%Z; [discriminate|]. destruct (z <=? 2147483647)%Z.
      + injection H as _ H. subst. eapply partial_raw_len; eauto.
      + rewrite ppi_raw in H. destruct (partial_raw false src) as [[u r']|] eqn:P2; [|discriminate].
        destruct ((0 <=? u) && (u <=? 4294967295))%Z; [|discriminate]. injection H as _ H. subst.
        eapply partial_raw_len; eauto.
    - (* 65 A *) cbn [lz_value] in H. destruct src; [discriminate|]. injection H as _ H. subst. cbn [length]. lia.
    - (* 102 f *) cbn [lz_value] in H. destruct (parse32p src) as [[b r]|] eqn:P; [|discriminate].
      injection H as _ H. subst. eapply H_len; eauto.
    - (* 90 Z *) cbn [lz_value] in H. destruct (take_tab src) as [b r] eqn:T. injection H as _ H. subst. eapply take_tab_len; eauto.
    - (* 72 H *) cbn [lz_value] in H. destruct (take_tab src) as [b r] eqn:T. injection H as _ H. subst. eapply take_tab_len; eauto.
  Qed.

  Lemma lz_field_len src t v rest : lz_field parse32p src = DOk (t, v, rest) -> (length rest < length src)%nat.
  Proof.
    unfold lz_field. destruct src as [|t0 [|t1 [|c1 [|ty [|c2 r4]]]]]; try discriminate.
    - destruct (negb (c1 =? 58)); discriminate.
    - destruct (negb (c1 =? 58)); [discriminate|]. destruct (negb (is_type ty)); discriminate.
    - destruct (negb (c1 =? 58)); [discriminate|]. destruct (negb (is_type ty)); [discriminate|].
      destruct (negb (c2 =? 58)); [discriminate|].
      destruct (lz_value parse32p ty r4) as [[v' r5]|e] eqn:LV; [|discriminate].
      apply lz_value_len in LV. destruct r5 as [|x r6].
      + intro H. injection H as _ _ H. subst. cbn [length]. lia.
      + destruct (x =? 9); [|discriminate]. intro H. injection H as _ _ H. subst. cbn [length] in *. lia.
  Qed.

  Lemma lz_value_nofuel ty src : lz_value parse32p ty src <> DErr DFuel.
  Proof.
    assert (HA : lz_array src <> DErr DFuel).
    { unfold lz_array. destruct src as [|c r]; [discriminate|].
      destruct (if c =? 102 then Some None else match char_sub c with Some t => Some (Some t) | None => None end) as [st|]; [|discriminate].
      destruct r as [|d r']; [cbn [take_tab]; discriminate|].
      destruct (d =? 44); [destruct (take_tab r'); discriminate|].
      destruct (d =? 9); [destruct (take_tab (d :: r')); discriminate|discriminate]. }
    destruct ty as [|p]; [exact HA|].
    do 7 (try (destruct p as [p|p|]; try exact HA)).
    - cbn [lz_value]. unfold lz_int. destruct (partial_raw true src) as [[z r]|]; [|discriminate].
      destruct (z <? -2147483648)%Z; [discriminate|]. destruct (z <=? 2147483647)%Z; [discriminate|].
      destruct (parse_partial_int false 0 4294967295 src) as [[u r']|]; discriminate.
    - cbn [lz_value]. destruct src; discriminate.
    - cbn [lz_value]. destruct (parse32p src) as [[b r]|]; discriminate.
    - cbn [lz_value]. destruct (take_tab src). discriminate.
    - cbn [lz_value]. destruct (take_tab src). discriminate.
  Qed.

  Lemma lz_field_nofuel src : lz_field parse32p src <> DErr DFuel.
  Proof.
    unfold lz_field. destruct src as [|t0 [|t1 [|c1 [|ty [|c2 r4]]]]]; try discriminate.
    - destruct (negb (c1 =? 58)); discriminate.
    - destruct (negb (c1 =? 58)); [discriminate|]. destruct (negb (is_type ty)); discriminate.
    - destruct (negb (c1 =? 58)); [discriminate|]. destruct (negb (is_type ty)); [discriminate|].
      destruct (negb (c2 =? 58)); [discriminate|].
      pose proof (lz_value_nofuel ty r4) as NV.
      destruct (lz_value parse32p ty r4) as [[v' r5]|e].
      + destruct r5 as [|x r6]; [discriminate|]. destruct (x =? 9); discriminate.
      + intro H. apply NV. injection H as H. now subst e.
  Qed.

  (* Data::iter().collect() ends on any bytes, with a list of fields or one of the two io::ErrorKinds *)
  Theorem lz_fields_total : forall fuel src, (length src <= fuel)%nat ->
    lz_fields parse32p fuel src <> DErr DFuel.
  Proof.
    induction fuel as [|k IH]; intros src HF.
    - destruct src; [discriminate|cbn in HF; lia].
    - destruct src as [|c s]; [discriminate|]. cbn [lz_fields].
      pose proof (lz_field_nofuel (c :: s)) as NF.
      destruct (lz_field parse32p (c :: s)) as [[[t v] rest]|e] eqn:LF.
      + apply lz_field_len in LF. specialize (IH rest ltac:(lia)).
        destruct (lz_fields parse32p k rest) as [l|e]; [discriminate|]. intro H. apply IH. exact H.
      + intro H. apply NF. injection H as H. now subst e.
  Qed.

  (* and so does the conversion loop of RecordBuf::try_from_alignment_record *)
  Theorem lz_conv_total : forall fuel src acc, (length src <= fuel)%nat ->
    lz_conv parse32 parse32p fuel src acc <> DErr DFuel.
  Proof.
    induction fuel as [|k IH]; intros src acc HF.
    - destruct src; [discriminate|cbn in HF; lia].
    - destruct src as [|c s]; [discriminate|]. cbn [lz_conv].
      pose proof (lz_field_nofuel (c :: s)) as NF.
      destruct (lz_field parse32p (c :: s)) as [[[t v] rest]|e] eqn:LF.
      + apply lz_field_len in LF. destruct (lval_to_aux parse32 v); [|discriminate]. apply IH. lia.
      + intro H. apply NF. injection H as H. now subst e.
  Qed.

  Theorem lazy_data_total data : lazy_data parse32p data <> DErr DFuel.
  Proof. apply lz_fields_total. lia. Qed.

  Theorem lazy_data_conv_total data : lazy_data_conv parse32 parse32p data <> DErr DFuel.
  Proof. apply lz_conv_total. lia. Qed.
End Total.

(* ---- the record: RecordBuf::try_from_alignment_record of the lazy record = the eager record *)
Section Convert.
  Variable parse32 : bytes -> option N.
  Variable parse32p : bytes -> option (N * bytes).
  Hypothesis H_a : forall f b rest, parse32 f = Some b -> NoTab f -> tail_ok rest ->
                                    parse32p (f ++ rest) = Some (b, rest).
  Hypothesis H_b : forall s v rest, parse32p s = Some (v, rest) ->
                                    exists f, s = f ++ rest /\ parse32 f = Some v /\ NoComma f.
  Hypothesis H_e : parse32 [] = None.

  Theorem lazy_convert_eq_eager refs text r :
    parse_line parse32 parse32p refs text = POk r ->
    let fs := split_tab (line_of text) in
    canon_pos (fld fs 3) -> canon_pos (fld fs 7) -> forallb arr_canon (skipn 11 fs) = true ->
    exists d', lazy_convert parse32 parse32p refs text = COk (set_data (strip_data r) d')
               /\ map normf d' = r_data r.
  Proof.
    intros H fs C3 C7 CA.
    destruct (lazy_eq_eager parse32 parse32p refs text r H C3 C7) as [LV PD]. fold fs in LV, PD.
    assert (NT : Forall NoTab (skipn 11 fs)) by (apply skipn_Forall, split_tab_notab_all).
    destruct (lazy_data_conv_eq_eager parse32 parse32p H_a H_b H_e _ _ PD NT CA) as (d' & LC & ND).
    exists d'. split; [|exact ND]. unfold lazy_convert. rewrite LV, LC. reflexivity.
  Qed.

  (* and Data::iter of the lazy record yields exactly the fields that conversion consumed *)
  Theorem lazy_data_eq_eager refs text r :
    parse_line parse32 parse32p refs text = POk r ->
    let fs := split_tab (line_of text) in
    canon_pos (fld fs 3) -> canon_pos (fld fs 7) -> forallb arr_canon (skipn 11 fs) = true ->
    exists data l d', lazy_view refs text = LOk (strip_data r) data
                      /\ lazy_data parse32p data = DOk l
                      /\ conv_list parse32 l [] = Some d' /\ map normf d' = r_data r.
  Proof.
    intros H fs C3 C7 CA.
    destruct (lazy_eq_eager parse32 parse32p refs text r H C3 C7) as [LV PD]. fold fs in LV, PD.
    assert (NT : Forall NoTab (skipn 11 fs)) by (apply skipn_Forall, split_tab_notab_all).
    destruct (lazy_data_conv_eq_eager parse32 parse32p H_a H_b H_e _ _ PD NT CA) as (d' & LC & ND).
    destruct (conv_fields parse32 parse32p _ _ _ _ LC) as (l & LF & CL).
    exists (join_tab (skipn 11 fs)), l, d'. repeat split; assumption.
  Qed.
End Convert.

(* the arr_canon premise is needed: `XB:B:c,,1` is the array [0; 1] for the eager parser (lexical's
   parse_partial accepts an empty digit run) and an error for the lazy array values *)
Theorem lazy_array_digitless_refuted : exists refs text r,
  parse_line (fun _ => None) (fun _ => None) refs text = POk r
  /\ r_data r = [((88, 66), AArrI I8 [0%Z; 1%Z])]
  /\ lazy_convert (fun _ => None) (fun _ => None) refs text = CErr 11.
Proof.
  exists [],
    [42; 9; 52; 9; 42; 9; 48; 9; 50; 53; 53; 9; 42; 9; 42; 9; 48; 9; 48; 9; 42; 9; 42; 9;
     88; 66; 58; 66; 58; 99; 44; 44; 49; 10],
    (mkRec None 4 None 0 255 [] None 0 0%Z [] [] [((88, 66), AArrI I8 [0%Z; 1%Z])]).
  split; [|split]; vm_compute; reflexivity.
Qed.
