(* Data::get of the lazy sam::Record against Data::iter (Sam/LazyGet.v against Sam/LazyData.v):
   get returns the first field of the iteration with that tag; an iteration error is returned
   unless a field with the tag comes before it; it ends on any bytes.  With lazy_data_written:
   on noodles' own lines Data::get finds exactly the fields whose conversion is the written data. *)
From Coq Require Import List NArith ZArith Bool Lia.
From Coq Require Import ZifyBool ZifyNat ZifyN.
From NV Require Import Base.Decimal Base.DecimalProofs Sam.Fields Sam.FieldsProofs Sam.Record Sam.RecordProofs.
From NV Require Import Sam.Lazy Sam.LazyProofs Sam.LazyData Sam.LazyDataProofs Sam.LazyGet Sam.WrittenProofs.
Import ListNotations.
Open Scope N_scope.

(* the first field of a list with the given tag *)
Fixpoint get_of_list (tag : N * N) (l : list ((N * N) * lval)) : gres :=
  match l with
  | [] => GNone
  | (t, v) :: r => if LazyData.tag_eqb t tag then GOk v else get_of_list tag r
  end.

Section Get.
  Variable parse32p : bytes -> option (N * bytes).

  Lemma lz_get_fields : forall fuel tag src l, lz_fields parse32p fuel src = DOk l ->
    lz_get parse32p fuel tag src = get_of_list tag l.
  Proof.
    induction fuel as [|k IH]; intros tag src l H.
    - destruct src; cbn [lz_fields] in H; [|discriminate]. injection H as H. subst l. reflexivity.
    - destruct src as [|c s]; cbn [lz_fields] in H.
      + injection H as H. subst l. reflexivity.
      + cbn [lz_get]. destruct (lz_field parse32p (c :: s)) as [[[t v] rest]|e]; [|discriminate].
        destruct (lz_fields parse32p k rest) as [l'|e] eqn:E; [|discriminate].
        injection H as H. subst l. cbn [get_of_list].
        destruct (LazyData.tag_eqb t tag); [reflexivity|]. exact (IH tag rest l' E).
  Qed.

  (* an error of the iteration is the result of get unless the tag was found before it *)
  Lemma lz_get_err : forall fuel tag src e, lz_fields parse32p fuel src = DErr e ->
    lz_get parse32p fuel tag src = GErr e \/ exists v, lz_get parse32p fuel tag src = GOk v.
  Proof.
    induction fuel as [|k IH]; intros tag src e H.
    - destruct src; cbn [lz_fields] in H; [discriminate|]. injection H as H. subst e. left. reflexivity.
    - destruct src as [|c s]; cbn [lz_fields] in H; [discriminate|].
      cbn [lz_get]. destruct (lz_field parse32p (c :: s)) as [[[t v] rest]|e'].
      + destruct (LazyData.tag_eqb t tag); [right; now exists v|].
        destruct (lz_fields parse32p k rest) as [l'|e''] eqn:E; [discriminate|].
        injection H as H. subst e''. exact (IH tag rest e E).
      + injection H as H. subst e'. left. reflexivity.
  Qed.

  Theorem lazy_get_iter tag data l : lazy_data parse32p data = DOk l ->
    lazy_get parse32p tag data = get_of_list tag l.
  Proof. apply lz_get_fields. Qed.

  Theorem lazy_get_iter_err tag data e : lazy_data parse32p data = DErr e ->
    lazy_get parse32p tag data = GErr e \/ exists v, lazy_get parse32p tag data = GOk v.
  Proof. apply lz_get_err. Qed.

  Hypothesis H_len : forall s v rest, parse32p s = Some (v, rest) -> (length rest <= length s)%nat.

  Lemma lz_get_total : forall fuel tag src, (length src <= fuel)%nat ->
    lz_get parse32p fuel tag src <> GErr DFuel.
  Proof.
    induction fuel as [|k IH]; intros tag src HF.
    - destruct src; [discriminate|cbn in HF; lia].
    - destruct src as [|c s]; [discriminate|]. cbn [lz_get].
      pose proof (lz_field_nofuel parse32p (c :: s)) as NF.
      destruct (lz_field parse32p (c :: s)) as [[[t v] rest]|e] eqn:LF.
      + apply (lz_field_len (fun _ => None) parse32p H_len) in LF.
        destruct (LazyData.tag_eqb t tag); [discriminate|]. apply IH. lia.
      + intro H. apply NF. injection H as H. now subst e.
  Qed.

  Theorem lazy_get_total tag data : lazy_get parse32p tag data <> GErr DFuel.
  Proof. apply lz_get_total. lia. Qed.
End Get.

Section FloatOracle.
  Variable fmt32 : N -> bytes.
  Variable fmtd32 : N -> bytes.
  Variable parse32 : bytes -> option N.
  Variable parse32p : bytes -> option (N * bytes).
  Hypothesis H_f : forall b, finite32 b = true -> parse32 (fmt32 b) = Some b.
  Hypothesis H_fc : forall b, PR (fmt32 b).
  Hypothesis H_d : forall b rest, finite32 b = true -> (rest = [] \/ exists r, rest = 44 :: r) ->
                                  parse32p (fmtd32 b ++ rest) = Some (b, rest).
  Hypothesis H_dc : forall b, PR (fmtd32 b).
  Hypothesis H_a : forall f b rest, parse32 f = Some b -> NoTab f -> tail_ok rest ->
                                    parse32p (f ++ rest) = Some (b, rest).
  Hypothesis H_b : forall s v rest, parse32p s = Some (v, rest) ->
                                    exists f, s = f ++ rest /\ parse32 f = Some v /\ NoComma f.
  Hypothesis H_e : parse32 [] = None.

  (* noodles' own line: data().get(tag) never errs and is the first field with that tag of the
     list l that Data::iter yields, and l converted field by field is the written data *)
  Theorem lazy_get_written refs r t :
    wf_refs refs -> wf_rec r ->
    write_record fmt32 fmtd32 refs r = Some t ->
    exists data l d', lazy_view refs t = LOk (strip_data (norm_rec r)) data
                      /\ lazy_data parse32p data = DOk l
                      /\ conv_list parse32 l [] = Some d' /\ map normf d' = r_data (norm_rec r)
                      /\ forall tag, lazy_get parse32p tag data = get_of_list tag l.
  Proof.
    intros WR W H.
    destruct (lazy_data_written fmt32 fmtd32 parse32 parse32p H_f H_fc H_d H_dc H_a H_b H_e refs r t WR W H)
      as (data & l & d' & LV & LD & CL & NM).
    exists data, l, d'. repeat split; try assumption.
    intro tag. exact (lazy_get_iter parse32p tag data l LD).
  Qed.
End FloatOracle.

(* ---- write a header, read the text back (header_write_read) *)
From NV Require Import Sam.Header Sam.HeaderProofs Sam.BamHeader.

Theorem header_write_read_wf h t : wf_header h -> write_header h = Some t ->
  header_write_read h = Some (t, Some h).
Proof.
  intros W H. unfold header_write_read. rewrite H. now rewrite (header_roundtrip h t W H).
Qed.

Theorem header_write_read_ty h t : wf_header_ty h -> write_header h = Some t ->
  header_write_read h = Some (t, Some h).
Proof. intros W H. exact (header_write_read_wf h t (wf_header_written h t W H) H). Qed.

(* before /repo 9bfd7d2 the writer accepted a comment with a line feed and the text read back as a
   DIFFERENT header (`a LF b`: the SAM reader stopped at `b`, the BAM reader refused the block;
   `a LF @SQ TAB SN:x TAB LN:5` injected a reference sequence).  Now such a header is REJECTED:
   there is no text, for SAM and for BAM alike. *)
From NV Require Import Sam.HeaderWfProofs.

Theorem header_comment_lf_rejected h c : In c (h_co h) -> In 10 c ->
  write_header h = None /\ header_write_read h = None /\ write_bam_header h = None.
Proof.
  intros Hc H10.
  assert (W : write_header h = None).
  { apply header_comment_rejected. intro F. rewrite Forall_forall in F. destruct (F c Hc) as [A _].
    rewrite Forall_forall in A. exact (A 10 H10 eq_refl). }
  split; [exact W|]. split; [unfold header_write_read; now rewrite W|].
  unfold write_bam_header. now rewrite W.
Qed.

Example header_comment_lf_witnesses :
  header_write_read (mkHeader None [] [] [] [[97; 10; 98]]) = None
  /\ header_write_read (mkHeader None [] [] [] [[97; 10; 64; 83; 81; 9; 83; 78; 58; 120; 9; 76; 78; 58; 53]]) = None
  /\ header_write_read (mkHeader None [] [] [] [[97; 13]]) = None
  /\ (* a carriage return elsewhere stays allowed and reads back *)
  header_write_read (mkHeader None [] [] [] [[97; 13; 98]])
  = Some ([64; 67; 79; 9; 97; 13; 98; 10], Some (mkHeader None [] [] [] [[97; 13; 98]])).
Proof. repeat split; vm_compute; reflexivity. Qed.
