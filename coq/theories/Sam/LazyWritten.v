(* The lazy record on noodles' own output: the line written for a valid record is read by the
   lazy sam::Record as that record (columns) -- lazy_eq_eager composed with record_roundtrip; the
   canon_pos premise holds because the writer renders positions with fmt_N. *)
From Coq Require Import List NArith ZArith Bool Lia.
From Coq Require Import ZifyBool ZifyNat ZifyN.
From NV Require Import Base.Decimal Base.DecimalProofs Sam.Fields Sam.FieldsProofs Sam.Record Sam.RecordProofs.
From NV Require Import Sam.Lazy Sam.LazyProofs.
Import ListNotations.
Open Scope N_scope.

Lemma canon_pos_written p f : write_pos p = Some f -> canon_pos f.
Proof.
  intros H HP. destruct (pos_rt p f H) as [P _]. rewrite P in HP. apply Some_inj in HP. subst p.
  unfold write_pos in H. cbn in H. apply Some_inj in H. subst f. reflexivity.
Qed.

Section FloatOracle.
  Variable fmt32 : N -> bytes.
  Variable fmtd32 : N -> bytes.
  Variable parse32 : bytes -> option N.
  Variable parse32p : bytes -> option (N * bytes).
  Hypothesis H_f : forall b, finite32 b = true -> parse32 (fmt32 b) = Some b.
  Hypothesis H_fc : forall b, PR (fmt32 b).
  Hypothesis H_d : forall b rest, finite32 b = true -> (rest = [] \/ exists r, rest = 44 :: r) ->
                                  parse32p (fmtd32 b ++ rest) = Some (b, rest).
  Hypothesis H_dc : forall b, PR (fmtd32 b).

  (* the fields of a written line *)
  Lemma written_fields refs r t : wf_refs refs -> wf_rec r ->
    write_record fmt32 fmtd32 refs r = Some t ->
    exists f3 f7, write_pos (r_pos r) = Some f3 /\ write_pos (r_mpos r) = Some f7 /\
                  fld (split_tab (line_of t)) 3 = f3 /\ fld (split_tab (line_of t)) 7 = f7.
  Proof.
    intros [ND OK] (Wf & Wq & Wc & Wt & Wd & Wn). unfold write_record.
    destruct (write_name (r_name r)) as [f_name|] eqn:E0; [|discriminate].
    destruct (ref_name refs (r_rid r)) as [nm|] eqn:E2; [|discriminate].
    destruct (write_pos (r_pos r)) as [f_pos|] eqn:E3; [|discriminate].
    destruct (ref_name refs (r_mrid r)) as [mnm|] eqn:E6; [|discriminate].
    destruct (write_pos (r_mpos r)) as [f_mpos|] eqn:E7; [|discriminate].
    destruct (write_seq (read_length (r_cigar r)) (r_seq r)) as [f_seq|] eqn:E9; [|discriminate].
    destruct (write_qual (len (r_seq r)) (r_qual r)) as [f_qual|] eqn:E10; [|discriminate].
    destruct (write_data fmt32 fmtd32 (r_data r)) as [f_data|] eqn:E11; [|discriminate].
    intro H. apply Some_inj in H. subst t.
    destruct (name_rt _ _ E0) as [P0 Q0].
    destruct (rname_rt refs _ _ ND OK E2) as [P2 Q2].
    destruct (pos_rt _ _ E3) as [P3 Q3].
    destruct (cigar_rt _ Wc) as [P5 Q5].
    destruct (rnext_rt refs _ _ _ _ ND OK E2 E6) as [P6 Q6].
    destruct (pos_rt _ _ E7) as [P7 Q7].
    destruct (seq_rt _ _ _ E9) as [P9 Q9].
    destruct (qual_rt _ _ _ E10) as [P10 Q10].
    destruct (write_data_fields fmt32 fmtd32 parse32 parse32p H_f H_fc H_d H_dc _ _ E11 Wd) as (Q11 & _ & _).
    set (L := [f_name; write_flags (r_flags r); write_rname nm; f_pos; write_mapq (r_mapq r);
               write_cigar (r_cigar r); write_rnext nm mnm; f_mpos; write_tlen (r_tlen r); f_seq; f_qual]).
    assert (QL : Forall PR (L ++ f_data)).
    { apply Forall_app. split; [|exact Q11]. unfold L.
      repeat constructor; auto; try apply fmt_N_PR; try apply fmt_dec_PR. }
    assert (LNL : LN (join_tab (L ++ f_data))) by (apply join_LN; exact QL).
    exists f_pos, f_mpos. split; [reflexivity|]. split; [reflexivity|].
    rewrite (line_of_written _ LNL).
    rewrite (split_join _ QL) by (unfold L; discriminate).
    unfold L, fld. cbn [app nth]. split; reflexivity.
  Qed.

  Theorem lazy_written refs r t :
    wf_refs refs -> wf_rec r ->
    write_record fmt32 fmtd32 refs r = Some t ->
    lazy_view refs t = LOk (strip_data (norm_rec r)) (join_tab (skipn 11 (split_tab (line_of t))))
    /\ parse_data_top parse32 parse32p (skipn 11 (split_tab (line_of t))) = Some (r_data (norm_rec r)).
  Proof.
    intros WR W H.
    pose proof (record_roundtrip fmt32 fmtd32 parse32 parse32p H_f H_fc H_d H_dc refs r t WR W H) as P.
    destruct (written_fields refs r t WR W H) as (f3 & f7 & E3 & E7 & F3 & F7).
    apply (lazy_eq_eager parse32 parse32p refs t (norm_rec r) P).
    - rewrite F3. exact (canon_pos_written _ _ E3).
    - rewrite F7. exact (canon_pos_written _ _ E7).
  Qed.
End FloatOracle.
