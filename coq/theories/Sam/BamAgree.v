(* SAM text path vs BAM binary path on the same record: composition of the C06 record theorem
   (Sam/RecordProofs.v) with the C05 engineer's BAM codec theorem (Bam/CodecProofs.v, read-only
   here).  The two record models are related by [to_bam]: 0 / 255 "missing" conventions of the
   SAM columns become options.  Scope = the scope of C05's decode_encode_nodata: no optional
   fields, at most 65535 CIGAR operations. *)
From Coq Require Import List NArith ZArith Bool Lia.
From Coq Require Import ZifyBool ZifyNat ZifyN.
From NV Require Import Base.Decimal Sam.Fields Sam.FieldsProofs Sam.Record Sam.RecordProofs.
From NV Require Bam.Record Bam.Encode Bam.Decode Bam.CodecProofs.
Import ListNotations.
Open Scope N_scope.

Definition opt_pos (p : N) : option N := if p =? 0 then None else Some p.
Definition opt_mapq (q : N) : option N := if q =? 255 then None else Some q.

Definition to_bam (r : sam_rec) : Bam.Record.record :=
  Bam.Record.mkRecord (r_name r) (r_flags r) (r_rid r) (opt_pos (r_pos r)) (opt_mapq (r_mapq r))
    (r_cigar r) (r_mrid r) (opt_pos (r_mpos r)) (r_tlen r) (r_seq r) (r_qual r) [].

Lemma to_bam_wf r : wf_rec r -> Bam.CodecProofs.wf (to_bam r).
Proof.
  intros (Wf & Wq & Wc & Wt & _ & _). unfold Bam.CodecProofs.wf, to_bam. cbn.
  repeat split; try lia.
  - intros q H. unfold opt_mapq in H. destruct (r_mapq r =? 255) eqn:E; [discriminate|].
    inversion H; subst. lia.
  - intros p H. unfold opt_pos in H. destruct (r_pos r =? 0) eqn:E; [discriminate|]. inversion H; subst. lia.
  - intros p H. unfold opt_pos in H. destruct (r_mpos r =? 0) eqn:E; [discriminate|]. inversion H; subst. lia.
  - eapply Forall_impl; [|exact Wc]. intros [k l] [Hk _]. unfold Bam.CodecProofs.op_ok. cbn in *. lia.
Qed.

Lemma norm_i_nodata r : r_data r = [] -> norm_i r = r.
Proof. intro H. destruct r. cbn in *. subst. reflexivity. Qed.

Section FloatOracle.
  Variable fmt32 : N -> bytes.
  Variable fmtd32 : N -> bytes.
  Variable parse32 : bytes -> option N.
  Variable parse32p : bytes -> option (N * bytes).
  Hypothesis H_f : forall b, finite32 b = true -> parse32 (fmt32 b) = Some b.
  Hypothesis H_fc : forall b, PR (fmt32 b).
  Hypothesis H_d : forall b rest, finite32 b = true -> (rest = [] \/ exists r, rest = 44 :: r) ->
                                  parse32p (fmtd32 b ++ rest) = Some (b, rest).
  Hypothesis H_dc : forall b, PR (fmtd32 b).

  Theorem sam_bam_agree refs nref r t block :
    wf_refs refs -> wf_rec r ->
    r_data r = [] -> r_qual r <> [9] ->
    Bam.Record.lenN (r_cigar r) <= 65535 ->
    write_record fmt32 fmtd32 refs r = Some t ->
    Bam.Encode.encode nref (to_bam r) = Bam.Record.Ok block ->
    exists rs, parse_line parse32 parse32p refs t = POk rs
               /\ Bam.Decode.decode block = Bam.Record.Ok (Bam.CodecProofs.norm (to_bam rs)).
  Proof.
    intros WR W ND NQ LC HW HE. exists r. split.
    - rewrite (record_roundtrip fmt32 fmtd32 parse32 parse32p H_f H_fc H_d H_dc refs r t WR W HW).
      f_equal. rewrite norm_rec_id by now apply norm_qual_not9. now apply norm_i_nodata.
    - apply (Bam.CodecProofs.decode_encode_nodata nref (to_bam r) block); auto.
      now apply to_bam_wf.
  Qed.
End FloatOracle.
