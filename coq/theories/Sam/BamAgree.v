(* SAM text path vs BAM binary path on the same record: composition of the C06 record theorem
   (Sam/RecordProofs.v) with the C05 engineer's BAM codec theorem (Bam/CodecProofs.v, read-only
   here).  The two record models are related by [to_bam]: 0 / 255 "missing" conventions of the
   SAM columns become options.  Scope = the scope of C05's decode_encode_nodata: no optional
   fields, at most 65535 CIGAR operations. *)
From Coq Require Import List NArith ZArith Bool Lia.
From Coq Require Import ZifyBool ZifyNat ZifyN.
From NV Require Import Base.Decimal Sam.Fields Sam.FieldsProofs Sam.Record Sam.RecordProofs.
From NV Require Bam.Record Bam.Encode Bam.Decode Bam.CodecProofs.
Import ListNotations.
Open Scope N_scope.

Definition opt_pos (p : N) : option N := if p =? 0 then None else Some p.
Definition opt_mapq (q : N) : option N := if q =? 255 then None else Some q.

Definition to_bam (r : sam_rec) : Bam.Record.record :=
  Bam.Record.mkRecord (r_name r) (r_flags r) (r_rid r) (opt_pos (r_pos r)) (opt_mapq (r_mapq r))
    (r_cigar r) (r_mrid r) (opt_pos (r_mpos r)) (r_tlen r) (r_seq r) (r_qual r) [].

Lemma to_bam_wf r : wf_rec r -> Bam.CodecProofs.wf (to_bam r).
Proof.
  intros (Wf & Wq & Wc & Wt & _ & _). unfold Bam.CodecProofs.wf, to_bam. cbn.
  repeat split; try lia.
  - intros q H. unfold opt_mapq in H. destruct (r_mapq r =? 255) eqn:E; [discriminate|].
    inversion H; subst. lia.
  - intros p H. unfold opt_pos in H. destruct (r_pos r =? 0) eqn:E; [discriminate|]. inversion H; subst. lia.
  - intros p H. unfold opt_pos in H. destruct (r_mpos r =? 0) eqn:E; [discriminate|]. inversion H; subst. lia.
  - eapply Forall_impl; [|exact Wc]. intros [k l] [Hk _]. unfold Bam.CodecProofs.op_ok. cbn in *. lia.
Qed.

Lemma norm_i_nodata r : r_data r = [] -> norm_i r = r.
Proof. intro H. destruct r. cbn in *. subst. reflexivity. Qed.

Section FloatOracle.
  Variable fmt32 : N -> bytes.
  Variable fmtd32 : N -> bytes.
  Variable parse32 : bytes -> option N.
  Variable parse32p : bytes -> option (N * bytes).
  Hypothesis H_f : forall b, finite32 b = true -> parse32 (fmt32 b) = Some b.
  Hypothesis H_fc : forall b, PR (fmt32 b).
  Hypothesis H_d : forall b rest, finite32 b = true -> (rest = [] \/ exists r, rest = 44 :: r) ->
                                  parse32p (fmtd32 b ++ rest) = Some (b, rest).
  Hypothesis H_dc : forall b, PR (fmtd32 b).

  Theorem sam_bam_agree refs nref r t block :
    wf_refs refs -> wf_rec r ->
    r_data r = [] -> r_qual r <> [9] ->
    Bam.Record.lenN (r_cigar r) <= 65535 ->
    write_record fmt32 fmtd32 refs r = Some t ->
    Bam.Encode.encode nref (to_bam r) = Bam.Record.Ok block ->
    exists rs, parse_line parse32 parse32p refs t = POk rs
               /\ Bam.Decode.decode block = Bam.Record.Ok (Bam.CodecProofs.norm (to_bam rs)).
  Proof.
    intros WR W ND NQ LC HW HE. exists r. split.
    - rewrite (record_roundtrip fmt32 fmtd32 parse32 parse32p H_f H_fc H_d H_dc refs r t WR W HW).
      f_equal. rewrite norm_rec_id by now apply norm_qual_not9. now apply norm_i_nodata.
    - apply (Bam.CodecProofs.decode_encode_nodata nref (to_bam r) block); auto.
      now apply to_bam_wf.
  Qed.
End FloatOracle.

(* ---- the same composition for EVERY record of the data model: any optional fields, any number
   of CIGAR operations (C05's full codec theorem Bam.AuxProofs.decode_encode).

   [to_bam_d] carries the optional fields over: A/c/C/s/S/i/I/f become VNum with the BAM type
   code, Z/H VStr, B arrays VArr.  The two paths differ in exactly the ways the property allows:
   the SAM text does not carry the storage width of integer tags (the reader picks the smallest
   type, [by_value] does the same on the BAM side), BAM stores bases in the 16-letter alphabet
   and drops a user CG field ([Bam.CodecProofs.norm], applied to the SAM side). *)
From NV Require Bam.AuxProofs.

Definition to_bam_val (a : aux) : Bam.Record.value :=
  match a with
  | AChar c => Bam.Record.VNum Bam.Record.tyA (Z.of_N c)
  | AInt t v => Bam.Record.VNum (sub_char t) v
  | AFloat b => Bam.Record.VNum Bam.Record.tyf (Z.of_N b)
  | AStr s => Bam.Record.VStr Bam.Record.tyZ s
  | AHex s => Bam.Record.VStr Bam.Record.tyH s
  | AArrI t vs => Bam.Record.VArr (sub_char t) vs
  | AArrF bs => Bam.Record.VArr Bam.Record.tyf (map Z.of_N bs)
  end.

Definition to_bam_field (f : (N * N) * aux) : Bam.Record.tag * Bam.Record.value := (fst f, to_bam_val (snd f)).

Definition to_bam_d (r : sam_rec) : Bam.Record.record :=
  Bam.Record.mkRecord (r_name r) (r_flags r) (r_rid r) (opt_pos (r_pos r)) (opt_mapq (r_mapq r))
    (r_cigar r) (r_mrid r) (opt_pos (r_mpos r)) (r_tlen r) (r_seq r) (r_qual r)
    (map to_bam_field (r_data r)).

Definition is_int_code (ty : N) : bool := existsb (N.eqb ty) [99; 67; 115; 83; 105; 73].

(* integer tags by value, on a BAM-side value *)
Definition val_by_value (v : Bam.Record.value) : Bam.Record.value :=
  match v with
  | Bam.Record.VNum ty z =>
      if is_int_code ty then
        match smallest z with Some t' => Bam.Record.VNum (sub_char t') z | None => v end
      else v
  | _ => v
  end.

Definition by_value (r : Bam.Record.record) : Bam.Record.record :=
  Bam.Record.mkRecord (Bam.Record.r_name r) (Bam.Record.r_flags r) (Bam.Record.r_rid r) (Bam.Record.r_pos r)
    (Bam.Record.r_mapq r) (Bam.Record.r_cigar r) (Bam.Record.r_mrid r) (Bam.Record.r_mpos r)
    (Bam.Record.r_tlen r) (Bam.Record.r_seq r) (Bam.Record.r_qual r)
    (map (fun p => (fst p, val_by_value (snd p))) (Bam.Record.r_data r)).

(* what the Rust types add to wf_rec on the BAM side: a character is a u8, a float 32 bits *)
Definition wf_bits_aux (a : aux) : Prop :=
  match a with
  | AChar c => c < 256
  | AFloat b => b < 4294967296
  | AArrF bs => Forall (fun b => b < 4294967296) bs
  | _ => True
  end.
Definition wf_bits (r : sam_rec) : Prop := Forall (fun f => wf_bits_aux (snd f)) (r_data r).

Lemma in_range_1s z : (-128 <= z < 128)%Z -> Bam.AuxProofs.in_range 1 true z.
Proof. intro H. unfold Bam.AuxProofs.in_range. rewrite Bam.CodecProofs.pow256_1. change (256 / 2) with 128. lia. Qed.
Lemma in_range_1u z : (0 <= z < 256)%Z -> Bam.AuxProofs.in_range 1 false z.
Proof. intro H. unfold Bam.AuxProofs.in_range. rewrite Bam.CodecProofs.pow256_1. lia. Qed.
Lemma in_range_2s z : (-32768 <= z < 32768)%Z -> Bam.AuxProofs.in_range 2 true z.
Proof. intro H. unfold Bam.AuxProofs.in_range. rewrite Bam.CodecProofs.pow256_2. change (65536 / 2) with 32768. lia. Qed.
Lemma in_range_2u z : (0 <= z < 65536)%Z -> Bam.AuxProofs.in_range 2 false z.
Proof. intro H. unfold Bam.AuxProofs.in_range. rewrite Bam.CodecProofs.pow256_2. lia. Qed.
Lemma in_range_4s z : (-2147483648 <= z < 2147483648)%Z -> Bam.AuxProofs.in_range 4 true z.
Proof.
  intro H. unfold Bam.AuxProofs.in_range. rewrite Bam.CodecProofs.pow256_4.
  replace (4294967296 / 2) with 2147483648 by (vm_compute; reflexivity). lia.
Qed.
Lemma in_range_4u z : (0 <= z < 4294967296)%Z -> Bam.AuxProofs.in_range 4 false z.
Proof. intro H. unfold Bam.AuxProofs.in_range. rewrite Bam.CodecProofs.pow256_4. lia. Qed.

Definition ity_width (t : ity) : nat * bool :=
  match t with I8 => (1%nat, true) | U8 => (1%nat, false) | I16 => (2%nat, true) | U16 => (2%nat, false)
             | I32 => (4%nat, true) | U32 => (4%nat, false) end.

Lemma num_width_sub t : Bam.Record.num_width (sub_char t) = Some (ity_width t).
Proof. destruct t; reflexivity. Qed.
Lemma sub_width_sub t : Bam.Record.sub_width (sub_char t) = Some (ity_width t).
Proof. destruct t; reflexivity. Qed.

Lemma ity_in_range t v : (ity_lo t <= v <= ity_hi t)%Z ->
  Bam.AuxProofs.in_range (fst (ity_width t)) (snd (ity_width t)) v.
Proof.
  destruct t; cbn [ity_lo ity_hi ity_width fst snd]; intro H.
  - apply in_range_1s. lia.
  - apply in_range_1u. lia.
  - apply in_range_2s. lia.
  - apply in_range_2u. lia.
  - apply in_range_4s. lia.
  - apply in_range_4u. lia.
Qed.

Lemma to_bam_val_wf a : wf_aux a -> wf_bits_aux a -> Bam.AuxProofs.wf_value (to_bam_val a).
Proof.
  destruct a as [c|t v|b|s|s|t vs|bs]; cbn [to_bam_val wf_aux wf_bits_aux Bam.AuxProofs.wf_value]; intros W B.
  - change (Bam.Record.num_width Bam.Record.tyA) with (Some (1%nat, false)). apply in_range_1u. lia.
  - rewrite num_width_sub. destruct (ity_width t) as [w sg] eqn:E.
    pose proof (ity_in_range t v W) as H. rewrite E in H. exact H.
  - change (Bam.Record.num_width Bam.Record.tyf) with (Some (4%nat, false)). apply in_range_4u. lia.
  - now left.
  - now right.
  - rewrite sub_width_sub. destruct (ity_width t) as [w sg] eqn:E.
    eapply Forall_impl; [|exact W]. cbv beta. intros z Hz.
    pose proof (ity_in_range t z Hz) as H. rewrite E in H. exact H.
  - change (Bam.Record.sub_width Bam.Record.tyf) with (Some (4%nat, false)).
    apply Forall_forall. intros z Hz.
    apply in_map_iff in Hz as (b & <- & Hb). rewrite Forall_forall in B. specialize (B b Hb).
    apply in_range_4u. lia.
Qed.

Lemma to_bam_d_wf r : wf_rec r -> Bam.CodecProofs.wf (to_bam_d r).
Proof. intro W. exact (to_bam_wf r W). Qed.

Lemma to_bam_val_norm a : wf_aux a -> to_bam_val (norm_aux a) = val_by_value (to_bam_val a).
Proof.
  destruct a as [c|t v|b|s|s|t vs|bs]; cbn [to_bam_val norm_aux val_by_value wf_aux]; intro W; try reflexivity.
  assert (IC : is_int_code (sub_char t) = true) by (destruct t; reflexivity). rewrite IC.
  destruct (smallest v) as [t'|]; reflexivity.
Qed.

Lemma data_by_value d : Forall (fun f => wf_aux (snd f)) d ->
  filter (fun p => negb (Bam.Record.tag_eqb (fst p) Bam.Record.CG))
         (map to_bam_field (map (fun f => (fst f, norm_aux (snd f))) d))
  = map (fun p => (fst p, val_by_value (snd p)))
        (filter (fun p => negb (Bam.Record.tag_eqb (fst p) Bam.Record.CG)) (map to_bam_field d)).
Proof.
  induction 1 as [|[tg a] d Wa _ IH]; [reflexivity|].
  cbn [map filter to_bam_field fst snd].
  destruct (negb (Bam.Record.tag_eqb tg Bam.Record.CG)); cbn [map fst snd]; rewrite IH; [|reflexivity].
  f_equal. unfold to_bam_field. cbn [fst snd]. f_equal. apply to_bam_val_norm. exact Wa.
Qed.

Lemma norm_by_value r : Forall (fun f => wf_aux (snd f)) (r_data r) ->
  Bam.CodecProofs.norm (to_bam_d (norm_i r)) = by_value (Bam.CodecProofs.norm (to_bam_d r)).
Proof.
  intro W. unfold Bam.CodecProofs.norm, by_value.
  unfold to_bam_d at 1 2 3 4 5 6 7 8 9 10 11. cbn [Bam.Record.r_name Bam.Record.r_flags Bam.Record.r_rid
    Bam.Record.r_pos Bam.Record.r_mapq Bam.Record.r_cigar Bam.Record.r_mrid Bam.Record.r_mpos
    Bam.Record.r_tlen Bam.Record.r_seq Bam.Record.r_qual Bam.Record.r_data].
  unfold norm_i at 1 2 3 4 5 6 7 8 9 10 11 12. cbn [r_name r_flags r_rid r_pos r_mapq r_cigar r_mrid r_mpos r_tlen r_seq r_qual r_data].
  unfold to_bam_d. cbn [Bam.Record.r_name Bam.Record.r_flags Bam.Record.r_rid
    Bam.Record.r_pos Bam.Record.r_mapq Bam.Record.r_cigar Bam.Record.r_mrid Bam.Record.r_mpos
    Bam.Record.r_tlen Bam.Record.r_seq Bam.Record.r_qual Bam.Record.r_data].
  f_equal. apply data_by_value. exact W.
Qed.

Section FloatOracleFull.
  Variable fmt32 : N -> bytes.
  Variable fmtd32 : N -> bytes.
  Variable parse32 : bytes -> option N.
  Variable parse32p : bytes -> option (N * bytes).
  Hypothesis H_f : forall b, finite32 b = true -> parse32 (fmt32 b) = Some b.
  Hypothesis H_fc : forall b, PR (fmt32 b).
  Hypothesis H_d : forall b rest, finite32 b = true -> (rest = [] \/ exists r, rest = 44 :: r) ->
                                  parse32p (fmtd32 b ++ rest) = Some (b, rest).
  Hypothesis H_dc : forall b, PR (fmtd32 b).

  Theorem sam_bam_agree_data refs nref r t block :
    wf_refs refs -> wf_rec r -> wf_bits r -> r_qual r <> [9] ->
    write_record fmt32 fmtd32 refs r = Some t ->
    Bam.Encode.encode nref (to_bam_d r) = Bam.Record.Ok block ->
    exists rs rb, parse_line parse32 parse32p refs t = POk rs
                  /\ Bam.Decode.decode block = Bam.Record.Ok rb
                  /\ Bam.CodecProofs.norm (to_bam_d rs) = by_value rb.
  Proof.
    intros WR W WB NQ HW HE. exists (norm_i r), (Bam.CodecProofs.norm (to_bam_d r)).
    destruct W as (Wf & Wq & Wc & Wt & Wd & Wn).
    split; [|split].
    - rewrite (record_roundtrip fmt32 fmtd32 parse32 parse32p H_f H_fc H_d H_dc refs r t WR
                 (conj Wf (conj Wq (conj Wc (conj Wt (conj Wd Wn))))) HW).
      f_equal. apply norm_rec_id. now apply norm_qual_not9.
    - apply (Bam.AuxProofs.decode_encode nref (to_bam_d r) block); auto.
      + apply to_bam_d_wf. exact (conj Wf (conj Wq (conj Wc (conj Wt (conj Wd Wn))))).
      + unfold to_bam_d. cbn [Bam.Record.r_data]. unfold Bam.AuxProofs.wf_data.
        apply Forall_forall. intros p Hp. apply in_map_iff in Hp as (f & <- & Hf).
        cbn [to_bam_field snd]. rewrite Forall_forall in Wd. unfold wf_bits in WB. rewrite Forall_forall in WB.
        apply to_bam_val_wf; [exact (Wd f Hf)|exact (WB f Hf)].
      + unfold to_bam_d. cbn [Bam.Record.r_data]. rewrite map_map. cbn [to_bam_field fst]. exact Wn.
    - apply norm_by_value. exact Wd.
  Qed.
End FloatOracleFull.
