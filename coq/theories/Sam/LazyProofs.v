(* The lazy sam::Record (Sam/Lazy.v) against the eager parser (Sam/Record.v): on every line the
   eager parser accepts, the splitter of read_record produces a buffer and bounds whose eleven
   column slices are exactly the eager parser's fields, no accessor errs or panics, every accessor
   returns the eager record's value, and Record::data() is the tab-joined text of the optional
   fields the eager parser parses -- except for POS / PNEXT text that denotes 0 without being the
   single character "0", where the lazy accessor errs (refuted below). *)
From Coq Require Import List NArith ZArith Bool Lia.
From Coq Require Import ZifyBool ZifyNat ZifyN.
From NV Require Import Base.Decimal Base.DecimalProofs Sam.Fields Sam.FieldsProofs Sam.Record Sam.RecordProofs Sam.Lazy.
Import ListNotations.
Open Scope N_scope.

(* the only place where the lazy accessors are stricter than the eager parser: POS / PNEXT text that
   denotes 0 without being the single character "0" ("00", "+0") *)
Definition canon_pos (f : bytes) : Prop := parse_pos f = Some 0 -> f = [48].

Definition strip_data (r : sam_rec) : sam_rec :=
  mkRec (r_name r) (r_flags r) (r_rid r) (r_pos r) (r_mapq r) (r_cigar r) (r_mrid r) (r_mpos r)
        (r_tlen r) (r_seq r) (r_qual r) [].

(* ---- lists *)
Lemma snoc_case {A} (s : list A) : s = [] \/ exists s' x, s = s' ++ [x].
Proof. induction s as [|x s' _] using rev_ind; [left; reflexivity | right; eauto]. Qed.

Lemma last_app_ne {A} (a b : list A) d : b <> [] -> last (a ++ b) d = last b d.
Proof.
  intros Hb. destruct (snoc_case b) as [E | (b' & x & E)]; [contradiction|].
  subst b. rewrite app_assoc, !last_last. reflexivity.
Qed.

Lemma skipn_len_app {A} (p x : list A) : skipn (length p) (p ++ x) = x.
Proof. induction p as [|a p IH]; cbn [length app skipn]; [reflexivity | exact IH]. Qed.

Lemma firstn_len_app {A} (p x : list A) : firstn (length p) (p ++ x) = p.
Proof. induction p as [|a p IH]; cbn [length app firstn]; [reflexivity | now rewrite IH]. Qed.

Lemma split_at {A} (d : A) : forall n l, (n < length l)%nat ->
  l = firstn n l ++ nth n l d :: skipn (S n) l /\ firstn (S n) l = firstn n l ++ [nth n l d].
Proof.
  induction n as [|n IH]; intros l Hn; destruct l as [|a l]; cbn [length] in Hn; try lia.
  - split; reflexivity.
  - destruct (IH l ltac:(lia)) as [E1 E2]. split.
    + cbn [firstn nth skipn app]. f_equal. exact E1.
    + change (firstn (S (S n)) (a :: l)) with (a :: firstn (S n) l). rewrite E2. reflexivity.
Qed.

(* ---- strip_last / take_line / line_of *)
Lemma strip_last_snoc c s x : strip_last c (s ++ [x]) = if x =? c then s else s ++ [x].
Proof.
  unfold strip_last. rewrite rev_app_distr. cbn [rev app].
  destruct (x =? c); [apply rev_involutive | reflexivity].
Qed.

Lemma strip_last_keep s : last s 0 <> 13 -> strip_last 13 s = s.
Proof.
  intros H. destruct (snoc_case s) as [E | (s' & x & E)]; subst s; [reflexivity|].
  rewrite last_last in H. rewrite strip_last_snoc.
  destruct (N.eqb_spec x 13) as [e|ne]; [contradiction | reflexivity].
Qed.

Definition NL (f : bytes) : Prop := Forall (fun c => c <> 10) f.
Definition NT (f : bytes) : Prop := Forall (fun c => c <> 9 /\ c <> 10) f.

Lemma NT_NL f : NT f -> NL f.
Proof. apply Forall_impl. intros c [_ H]. exact H. Qed.

Lemma take_line_spec text : forall l lf, take_line text = (l, lf) ->
  NL l /\ (if lf : bool then exists tail, text = l ++ 10 :: tail else text = l).
Proof.
  induction text as [|c t IH]; intros l lf H; cbn [take_line] in H.
  - injection H as El Elf. subst l lf. split; [constructor | reflexivity].
  - destruct (N.eqb_spec c 10) as [e|ne].
    + injection H as El Elf. subst l lf c. split; [constructor|]. exists t. reflexivity.
    + destruct (take_line t) as [l0 lf0] eqn:E. injection H as El Elf. subst l lf.
      destruct (IH _ _ eq_refl) as [HN HT]. split; [constructor; assumption|].
      destruct lf0.
      * destruct HT as [tail HT]. exists tail. cbn [app]. f_equal. exact HT.
      * f_equal. exact HT.
Qed.

Lemma take_line_nl l : NL l -> take_line l = (l, false).
Proof.
  induction 1 as [|c l Hc _ IH]; cbn [take_line]; [reflexivity|].
  destruct (N.eqb_spec c 10) as [e|ne]; [contradiction|]. rewrite IH. reflexivity.
Qed.

Lemma take_line_nl_lf l tail : NL l -> take_line (l ++ 10 :: tail) = (l, true).
Proof.
  induction 1 as [|c l Hc _ IH]; cbn [take_line app]; [reflexivity|].
  destruct (N.eqb_spec c 10) as [e|ne]; [contradiction|]. rewrite IH. reflexivity.
Qed.

(* the text is its line followed by nothing, by LF (and then the line does not end in CR), or by
   CR LF *)
Definition suffix_ok (line suffix : bytes) : Prop :=
  suffix = []
  \/ (exists tail, suffix = 10 :: tail /\ (line = [] \/ last line 0 <> 13))
  \/ (exists tail, suffix = 13 :: 10 :: tail).

Lemma line_of_cases text : exists suffix,
  text = line_of text ++ suffix /\ NL (line_of text) /\ suffix_ok (line_of text) suffix.
Proof.
  unfold line_of. destruct (take_line text) as [l lf] eqn:TL.
  apply take_line_spec in TL as [HN HT]. destruct lf.
  - destruct HT as [tail HT]. destruct (snoc_case l) as [E | (l' & x & E)]; subst l.
    + exists (10 :: tail). split; [exact HT|]. split; [constructor|].
      right; left. exists tail. split; [reflexivity | left; reflexivity].
    + rewrite strip_last_snoc. destruct (N.eqb_spec x 13) as [e|ne].
      * subst x. exists (13 :: 10 :: tail). split; [rewrite HT, <- app_assoc; reflexivity|].
        apply Forall_app in HN as [HN _]. split; [exact HN|].
        right; right. exists tail. reflexivity.
      * exists (10 :: tail). split; [exact HT|]. split; [exact HN|].
        right; left. exists tail. split; [reflexivity|]. right. rewrite last_last. exact ne.
  - exists []. split; [rewrite app_nil_r; exact HT|]. split; [exact HN | left; reflexivity].
Qed.

(* ---- split_tab / join_tab *)
Lemma join_tab_cons f g t : join_tab (f :: g :: t) = f ++ 9 :: join_tab (g :: t).
Proof. reflexivity. Qed.

Lemma join_tab_head f rest : exists y, join_tab (f :: rest) = f ++ y.
Proof.
  destruct rest as [|g t].
  - exists []. cbn [join_tab]. now rewrite app_nil_r.
  - eexists. apply join_tab_cons.
Qed.

Lemma split_tab_ne s : split_tab s <> [].
Proof.
  destruct s as [|c t]; cbn [split_tab]; [discriminate|].
  destruct (c =? 9); [discriminate|]. destruct (split_tab t); discriminate.
Qed.

Lemma join_split s : join_tab (split_tab s) = s.
Proof.
  induction s as [|c t IH]; cbn [split_tab]; [reflexivity|].
  pose proof (split_tab_ne t) as Hne.
  destruct (N.eqb_spec c 9) as [e|ne].
  - destruct (split_tab t) as [|f fs]; [contradiction|].
    rewrite join_tab_cons, IH. subst c. reflexivity.
  - destruct (split_tab t) as [|f fs]; [contradiction|].
    destruct fs as [|g fs].
    + cbn [join_tab] in IH |- *. now rewrite IH.
    + rewrite join_tab_cons in IH |- *. cbn [app]. now rewrite IH.
Qed.

Lemma split_tab_NT s : NL s -> Forall NT (split_tab s).
Proof.
  induction 1 as [|c t Hc _ IH]; cbn [split_tab].
  - repeat constructor.
  - destruct (N.eqb_spec c 9) as [e|ne].
    + constructor; [constructor | exact IH].
    + destruct (split_tab t) as [|f fs].
      * repeat constructor; assumption.
      * inversion IH as [|? ? Hf Hfs]; subst. constructor; [|exact Hfs].
        constructor; [split; assumption | exact Hf].
Qed.

Lemma join_NL fs : Forall NT fs -> NL (join_tab fs).
Proof.
  induction 1 as [|f t Hf Ht IH]; [constructor|].
  destruct t as [|g t].
  - cbn [join_tab]. now apply NT_NL.
  - rewrite join_tab_cons. apply Forall_app. split; [now apply NT_NL|].
    constructor; [discriminate | exact IH].
Qed.

Lemma join_pre pre x rest :
  join_tab (pre ++ x :: rest) = concat (map (fun f => f ++ [9]) pre) ++ join_tab (x :: rest).
Proof.
  induction pre as [|a pre IH]; [reflexivity|].
  assert (exists g t, pre ++ x :: rest = g :: t) as (g & t & E) by (destruct pre; cbn [app]; eauto).
  cbn [app map concat]. rewrite E, join_tab_cons, <- E, IH, <- !app_assoc. reflexivity.
Qed.

(* ---- the splitter *)
Lemma scan_sep f c rest : NT f -> c = 9 \/ c = 10 -> scan (f ++ c :: rest) = (f, Some c, rest).
Proof.
  intros Hf Hc. induction Hf as [|a f [Ha9 Ha10] _ IH]; cbn [app scan].
  - destruct Hc as [e|e]; subst c; reflexivity.
  - destruct (N.eqb_spec a 9) as [e|_]; [contradiction|].
    destruct (N.eqb_spec a 10) as [e|_]; [contradiction|].
    cbn [orb]. rewrite IH. reflexivity.
Qed.

Lemma scan_end f : NT f -> scan f = (f, None, []).
Proof.
  intros Hf. induction Hf as [|a f [Ha9 Ha10] _ IH]; cbn [scan]; [reflexivity|].
  destruct (N.eqb_spec a 9) as [e|_]; [contradiction|].
  destruct (N.eqb_spec a 10) as [e|_]; [contradiction|].
  cbn [orb]. rewrite IH. reflexivity.
Qed.

(* Bounds::*_end after reading the fields [fs] onto the buffer [buf] *)
Fixpoint cumul (buf : bytes) (fs : list bytes) : list N :=
  match fs with
  | [] => []
  | f :: t => len (buf ++ f) :: cumul (buf ++ f) t
  end.

Lemma cumul_app a : forall buf b, cumul buf (a ++ b) = cumul buf a ++ cumul (buf ++ concat a) b.
Proof.
  induction a as [|f a IH]; intros buf b; cbn [app cumul concat].
  - now rewrite app_nil_r.
  - rewrite IH, app_assoc. reflexivity.
Qed.

Lemma nth_cumul : forall F buf i, (i < length F)%nat ->
  nth i (cumul buf F) 0 = len (buf ++ concat (firstn (S i) F)).
Proof.
  induction F as [|f F IH]; intros buf i Hi; cbn [length] in Hi; [lia|].
  destruct i as [|j].
  - cbn [cumul nth firstn concat]. now rewrite app_nil_r.
  - change (firstn (S (S j)) (f :: F)) with (f :: firstn (S j) F).
    cbn [cumul nth concat]. rewrite IH by lia. now rewrite app_assoc.
Qed.

Lemma read_required_pre pre : Forall NT pre -> forall s buf ends,
  read_required (length pre) (concat (map (fun f => f ++ [9]) pre) ++ s) buf ends
  = Some (s, buf ++ concat pre, ends ++ cumul buf pre).
Proof.
  induction 1 as [|f pre Hf _ IH]; intros s buf ends.
  - cbn [length map concat app read_required cumul]. now rewrite !app_nil_r.
  - cbn [length map concat read_required cumul]. unfold read_field.
    rewrite <- !app_assoc. cbn [app]. rewrite scan_sep by (auto).
    change (9 =? 10) with false. cbv beta iota.
    rewrite IH, <- !app_assoc. reflexivity.
Qed.

(* what read_record does after the ten required fields *)
Definition lazy_opt (b : bytes) (ends' : list N) (r : bytes) : lread :=
  match r with
  | [] => LRec b ends'
  | _ => let '(l, lf) := take_line r in
         LRec (b ++ (if lf : bool then strip_last 13 l else l)) ends'
  end.

Definition lazy_tail (s buf : bytes) (ends : list N) : lread :=
  let '(b, eol, r) := read_field s buf in
  let ends' := ends ++ [len b] in
  if eol : bool then LRec b ends' else lazy_opt b ends' r.

Lemma lazy_read_unfold text : text <> [] -> lazy_read text =
  match read_required 10 text [] [] with
  | None => LBad
  | Some (s, buf, ends) => lazy_tail s buf ends
  end.
Proof. intros H. destruct text; [contradiction | reflexivity]. Qed.

Lemma lazy_opt_ne b ends' r l lf : r <> [] -> take_line r = (l, lf) ->
  lazy_opt b ends' r = LRec (b ++ (if lf : bool then strip_last 13 l else l)) ends'.
Proof. intros Hne H. destruct r; [contradiction|]. unfold lazy_opt. rewrite H. reflexivity. Qed.

Lemma lazy_tail_shape f10 rest suffix buf ends :
  NT f10 -> Forall NT rest -> f10 <> [] -> last f10 0 <> 13 ->
  (suffix = []
   \/ (exists tail, suffix = 10 :: tail /\ last (join_tab (f10 :: rest)) 0 <> 13)
   \/ (exists tail, suffix = 13 :: 10 :: tail)) ->
  lazy_tail (join_tab (f10 :: rest) ++ suffix) buf ends
  = LRec (buf ++ f10 ++ join_tab rest) (ends ++ [len (buf ++ f10)]).
Proof.
  intros Hf Hrest Hne Hlast Hsuf. unfold lazy_tail, read_field.
  destruct rest as [|g rest'].
  - cbn [join_tab]. rewrite !app_nil_r.
    destruct Hsuf as [E | [(tail & E & HL) | (tail & E)]]; subst suffix.
    + rewrite app_nil_r, (scan_end f10 Hf). reflexivity.
    + rewrite scan_sep by auto. change (10 =? 10) with true. cbv beta iota.
      rewrite strip_last_keep by assumption. reflexivity.
    + replace (f10 ++ 13 :: 10 :: tail) with ((f10 ++ [13]) ++ 10 :: tail)
        by (rewrite <- app_assoc; reflexivity).
      rewrite scan_sep; [| apply Forall_app; split; [exact Hf | repeat constructor; discriminate] | auto].
      change (10 =? 10) with true. cbv beta iota.
      rewrite strip_last_snoc. change (13 =? 13) with true. cbv beta iota. reflexivity.
  - rewrite join_tab_cons.
    pose proof (join_NL _ Hrest) as HJ.
    remember (join_tab (g :: rest')) as J eqn:EJ.
    rewrite <- app_assoc. cbn [app]. rewrite scan_sep by auto.
    change (9 =? 10) with false. cbv beta iota.
    destruct Hsuf as [E | [(tail & E & HL) | (tail & E)]]; subst suffix.
    + rewrite app_nil_r. destruct (snoc_case J) as [E | (J' & x & E)].
      * rewrite E. cbn [lazy_opt]. rewrite !app_nil_r. reflexivity.
      * rewrite (lazy_opt_ne _ _ J J false); [now rewrite app_assoc | | now apply take_line_nl].
        rewrite E. intro Hx. apply app_eq_nil in Hx as [_ Hx]. discriminate.
    + rewrite (lazy_opt_ne _ _ _ J true);
        [ | intro Hx; symmetry in Hx; exact (app_cons_not_nil _ _ _ Hx) | now apply take_line_nl_lf].
      assert (EJs : strip_last 13 J = J); [|now rewrite EJs, app_assoc].
      destruct (snoc_case J) as [E | (J' & x & E)].
      * rewrite E. reflexivity.
      * apply strip_last_keep. rewrite join_tab_cons, <- EJ in HL.
        replace (f10 ++ 9 :: J) with ((f10 ++ [9]) ++ J) in HL by (rewrite <- app_assoc; reflexivity).
        assert (HJne : J <> []).
        { rewrite E. intro Hx. apply app_eq_nil in Hx as [_ Hx]. discriminate. }
        rewrite last_app_ne in HL by exact HJne. exact HL.
    + replace (J ++ 13 :: 10 :: tail) with ((J ++ [13]) ++ 10 :: tail)
        by (rewrite <- app_assoc; reflexivity).
      rewrite (lazy_opt_ne _ _ _ (J ++ [13]) true);
        [ | intro Hx; symmetry in Hx; exact (app_cons_not_nil _ _ _ Hx) | ].
      * rewrite strip_last_snoc. change (13 =? 13) with true.
        cbv beta iota. now rewrite app_assoc.
      * apply take_line_nl_lf. apply Forall_app. split; [exact HJ | repeat constructor; discriminate].
Qed.

(* step 2: the buffer and bounds of read_record on an eagerly accepted line *)
Lemma lazy_read_shape pre f10 rest text :
  length pre = 10%nat -> text <> [] -> split_tab (line_of text) = pre ++ f10 :: rest ->
  f10 <> [] -> last f10 0 <> 13 ->
  lazy_read text = LRec (concat (pre ++ [f10]) ++ join_tab rest) (cumul [] (pre ++ [f10])).
Proof.
  intros Hlen Hne Hfs Hf10 Hlast.
  destruct (line_of_cases text) as (suffix & Htext & HNL & Hsuf).
  remember (line_of text) as line eqn:Eline. clear Eline.
  pose proof (split_tab_NT _ HNL) as HNT. rewrite Hfs in HNT.
  pose proof (join_split line) as Hjoin. rewrite Hfs, join_pre in Hjoin.
  apply Forall_app in HNT as [HNTpre HNT2].
  inversion HNT2 as [|? ? HNTf HNTrest]; subst.
  rewrite (lazy_read_unfold _ Hne), <- app_assoc, <- Hlen, read_required_pre by exact HNTpre.
  cbn [app]. rewrite lazy_tail_shape; try assumption.
  - rewrite cumul_app, concat_app. cbn [cumul concat app]. rewrite app_nil_r, <- app_assoc.
    reflexivity.
  - destruct (join_tab_head f10 rest) as [y Ey].
    assert (HJne : join_tab (f10 :: rest) <> []).
    { rewrite Ey. intro Hx. apply app_eq_nil in Hx as [Hx _]. contradiction. }
    destruct Hsuf as [E | [(tail & E & HL) | (tail & E)]]; [left; exact E | | right; right; eauto].
    right; left. exists tail. split; [exact E|].
    destruct HL as [HL | HL].
    + apply app_eq_nil in HL as [_ HL]. contradiction.
    + rewrite last_app_ne in HL by exact HJne. exact HL.
Qed.

(* ---- step 3: the column slices *)
Lemma len_app a b : len (a ++ b) = len a + len b.
Proof. unfold len. rewrite app_length. lia. Qed.

Lemma slice_mid P f R : slice (P ++ f ++ R) (len P) (len (P ++ f)) = AOk f.
Proof.
  unfold slice. rewrite !len_app.
  assert (E : (len P <=? len P + len f) && (len P + len f <=? len P + (len f + len R)) = true) by lia.
  rewrite E. f_equal.
  replace (N.to_nat (len P)) with (length P) by (unfold len; lia).
  replace (N.to_nat (len P + len f - len P)) with (length f) by (unfold len; lia).
  rewrite skipn_len_app. apply firstn_len_app.
Qed.

Lemma col_spec (F : list bytes) (J : bytes) i : (i < length F)%nat -> col (concat F ++ J) (cumul [] F) i = AOk (nth i F []).
Proof.
  intros Hi. destruct (split_at ([] : bytes) i F Hi) as [E1 E2].
  unfold col, bound. rewrite nth_cumul by exact Hi. cbn [app]. rewrite E2.
  assert (Es : match i with O => 0 | S j => nth j (cumul [] F) 0 end = len (concat (firstn i F))).
  { destruct i as [|j]; [reflexivity|]. rewrite nth_cumul by lia. reflexivity. }
  rewrite Es. rewrite E1 at 1. rewrite !concat_app. cbn [concat]. rewrite app_nil_r, <- !app_assoc.
  apply slice_mid.
Qed.

Lemma data_spec (F : list bytes) (J : bytes) : (0 < length F)%nat ->
  slice_from (concat F ++ J) (bound (cumul [] F) (length F - 1)) = AOk J.
Proof.
  intros HF. unfold slice_from, bound. rewrite nth_cumul by lia. cbn [app].
  replace (S (length F - 1)) with (length F) by lia. rewrite firstn_all.
  assert (E : len (concat F) <=? len (concat F ++ J) = true) by (rewrite len_app; lia).
  rewrite E. f_equal.
  replace (N.to_nat (len (concat F))) with (length (concat F)) by (unfold len; lia).
  apply skipn_len_app.
Qed.

(* ---- step 4: the accessors against the column parsers *)
Lemma lz_name_agree f o : parse_name f = Some o -> lz_name f = o.
Proof.
  unfold parse_name, lz_name. destruct (is_star f); [congruence|].
  destruct f; [discriminate | congruence].
Qed.

Lemma lz_pos_spec f : lz_pos f =
  if bytes_eqb f [48] then Some 0
  else match parse_pos f with Some n => if n =? 0 then None else Some n | None => None end.
Proof.
  unfold lz_pos. destruct f as [|c t]; [reflexivity|].
  generalize (parse_pos (c :: t)). intros X.
  destruct c as [|p]; [destruct t; reflexivity|].
  do 6 (try (destruct p as [p|p|]; try (destruct t; reflexivity))).
Qed.

Lemma lz_pos_agree f n : parse_pos f = Some n -> canon_pos f -> lz_pos f = Some n.
Proof.
  intros H Hc. rewrite lz_pos_spec. destruct (bytes_eqb f [48]) eqn:E.
  - apply bytes_eqb_eq in E. subst f. vm_compute in H. exact H.
  - rewrite H. destruct (N.eqb_spec n 0) as [e|ne]; [|reflexivity].
    subst n. rewrite (Hc H) in E. discriminate.
Qed.

Lemma lz_cigar_agree f o : parse_cigar f = Some o -> lz_cigar f = Some o.
Proof.
  unfold parse_cigar, lz_cigar. destruct (is_star f); [congruence|].
  destruct f; [discriminate | congruence].
Qed.

Lemma lz_seq_agree f s : parse_seq f = Some s -> lz_seq f = s.
Proof.
  unfold parse_seq, lz_seq. destruct (is_star f); [congruence|].
  destruct f; [discriminate | congruence].
Qed.

Lemma lz_scores_graphic f : forallb graphic f = true -> lz_scores f = Some (map (fun n => n - 33) f).
Proof.
  induction f as [|b t IH]; cbn [forallb lz_scores map]; [reflexivity|].
  intros H. apply andb_prop in H as [Hb Ht]. unfold graphic in Hb.
  assert (E : (b <? 33) = false) by lia. rewrite E, (IH Ht). reflexivity.
Qed.

Lemma lz_qual_agree n f q : parse_qual n f = Some q -> lz_qual f = Some q.
Proof.
  unfold parse_qual, lz_qual. destruct (is_star f); [congruence|].
  destruct f as [|c t]; [discriminate|]. destruct (negb _); [discriminate|].
  destruct (forallb graphic (c :: t)) eqn:E; [|discriminate].
  intros H. rewrite (lz_scores_graphic _ E). exact H.
Qed.

Lemma rnext_agree refs rid f mrid : parse_rnext refs rid f = Some mrid ->
  (if is_star f then AOk None
   else if is_eq f then AOk rid
   else of_opt (match index_of f refs 0 with Some i => Some (Some i) | None => None end))
  = AOk mrid.
Proof.
  unfold parse_rnext. destruct (is_star f); [congruence|]. destruct (is_eq f); [congruence|].
  intros H. rewrite H. reflexivity.
Qed.

(* QUAL accepted by the eager parser is not empty and does not end in CR *)
Lemma qual_shape n f q : parse_qual n f = Some q -> f <> [] /\ last f 0 <> 13.
Proof.
  unfold parse_qual. destruct (is_star f) eqn:Es.
  - intros _. destruct f as [|c [|d t]]; cbn [is_star] in Es; try discriminate.
    apply N.eqb_eq in Es. subst c. split; [discriminate | cbn [last]; lia].
  - destruct f as [|c t]; [discriminate|]. destruct (negb _); [discriminate|].
    destruct (forallb graphic (c :: t)) eqn:E; [|discriminate]. intros _. split; [discriminate|].
    destruct (snoc_case (c :: t)) as [Ex | (s' & x & Ex)]; [discriminate|].
    rewrite Ex in E |- *. rewrite last_last. rewrite forallb_app in E.
    apply andb_prop in E as [_ E]. cbn [forallb] in E. unfold graphic in E. lia.
Qed.

Lemma parse_fields_inv parse32 parse32p refs fs r :
  parse_fields parse32 parse32p refs fs = POk r ->
  exists name flags rid pos mapq cigar mrid mpos tlen seq qual data,
    parse_name (fld fs 0) = Some name /\ parse_flags (fld fs 1) = Some flags /\
    parse_rname refs (fld fs 2) = Some rid /\ parse_pos (fld fs 3) = Some pos /\
    parse_mapq (fld fs 4) = Some mapq /\ parse_cigar (fld fs 5) = Some cigar /\
    parse_rnext refs rid (fld fs 6) = Some mrid /\ parse_pos (fld fs 7) = Some mpos /\
    parse_tlen (fld fs 8) = Some tlen /\ parse_seq (fld fs 9) = Some seq /\
    parse_qual (len seq) (fld fs 10) = Some qual /\
    parse_data_top parse32 parse32p (skipn 11 fs) = Some data /\
    r = mkRec name flags rid pos mapq cigar mrid mpos tlen seq qual data.
Proof.
  unfold parse_fields. intros H.
  destruct (parse_name (fld fs 0)) as [name|] eqn:E0; [|discriminate].
  destruct (parse_flags (fld fs 1)) as [flags|] eqn:E1; [|discriminate].
  destruct (parse_rname refs (fld fs 2)) as [rid|] eqn:E2; [|discriminate].
  destruct (parse_pos (fld fs 3)) as [pos|] eqn:E3; [|discriminate].
  destruct (parse_mapq (fld fs 4)) as [mapq|] eqn:E4; [|discriminate].
  destruct (parse_cigar (fld fs 5)) as [cigar|] eqn:E5; [|discriminate].
  destruct (parse_rnext refs rid (fld fs 6)) as [mrid|] eqn:E6; [|discriminate].
  destruct (parse_pos (fld fs 7)) as [mpos|] eqn:E7; [|discriminate].
  destruct (parse_tlen (fld fs 8)) as [tlen|] eqn:E8; [|discriminate].
  destruct (parse_seq (fld fs 9)) as [seq|] eqn:E9; [|discriminate].
  destruct (parse_qual (len seq) (fld fs 10)) as [qual|] eqn:E10; [|discriminate].
  destruct (parse_data_top parse32 parse32p (skipn 11 fs)) as [data|] eqn:E11; [|discriminate].
  injection H as Hr.
  exists name, flags, rid, pos, mapq, cigar, mrid, mpos, tlen, seq, qual, data.
  repeat (split; [first [reflexivity | assumption]|]). symmetry. exact Hr.
Qed.

(* step 4: over any buffer and bounds whose column slices are the eager parser's fields, every
   accessor succeeds and returns the eager record's value *)
Theorem lazy_cols_eq_eager : forall parse32 parse32p refs fs r buf ends d,
  parse_fields parse32 parse32p refs fs = POk r ->
  canon_pos (fld fs 3) -> canon_pos (fld fs 7) ->
  (forall i, (i < 11)%nat -> col buf ends i = AOk (fld fs i)) ->
  slice_from buf (bound ends 10) = AOk d ->
  lazy_cols refs buf ends = LOk (strip_data r) d.
Proof.
  intros parse32 parse32p refs fs r buf ends d H Hc3 Hc7 Hcol Hd.
  destruct (parse_fields_inv _ _ _ _ _ H)
    as (name & flags & rid & pos & mapq & cigar & mrid & mpos & tlen & seq & qual & data
        & E0 & E1 & E2 & E3 & E4 & E5 & E6 & E7 & E8 & E9 & E10 & E11 & Hr).
  subst r. unfold strip_data.
  cbn [r_name r_flags r_rid r_pos r_mapq r_cigar r_mrid r_mpos r_tlen r_seq r_qual].
  unfold lazy_cols. cbv zeta.
  rewrite (Hcol 0%nat), (Hcol 1%nat), (Hcol 2%nat), (Hcol 3%nat), (Hcol 4%nat), (Hcol 5%nat),
    (Hcol 6%nat), (Hcol 7%nat), (Hcol 8%nat), (Hcol 9%nat), (Hcol 10%nat), Hd by lia.
  cbn [step abind].
  rewrite E1, E2, (lz_pos_agree _ _ E3 Hc3), E4, (lz_cigar_agree _ _ E5), (lz_pos_agree _ _ E7 Hc7),
    E8, (lz_qual_agree _ _ _ E10).
  cbn [step abind of_opt]. rewrite (rnext_agree _ _ _ _ E6). cbn [step].
  rewrite (lz_name_agree _ _ E0), (lz_seq_agree _ _ E9). reflexivity.
Qed.

(* the lazy record equals the eager record on every line the eager parser accepts *)
Theorem lazy_eq_eager : forall parse32 parse32p refs text r,
  parse_line parse32 parse32p refs text = POk r ->
  let fs := split_tab (line_of text) in
  canon_pos (fld fs 3) -> canon_pos (fld fs 7) ->
  lazy_view refs text = LOk (strip_data r) (join_tab (skipn 11 fs))
  /\ parse_data_top parse32 parse32p (skipn 11 fs) = Some (r_data r).
Proof.
  intros parse32 parse32p refs text r H.
  assert (Hne : text <> []) by (intro E; rewrite E in H; discriminate).
  assert (Hpf : parse_fields parse32 parse32p refs (split_tab (line_of text)) = POk r)
    by (unfold parse_line in H; destruct text; [contradiction | exact H]).
  clear H. intros fs Hc3 Hc7.
  assert (Efs : split_tab (line_of text) = fs) by reflexivity. clearbody fs. rewrite Efs in Hpf.
  destruct (parse_fields_inv _ _ _ _ _ Hpf)
    as (name & flags & rid & pos & mapq & cigar & mrid & mpos & tlen & seq & qual & data
        & E0 & E1 & E2 & E3 & E4 & E5 & E6 & E7 & E8 & E9 & E10 & E11 & Hr).
  destruct (qual_shape _ _ _ E10) as [Hq1 Hq2].
  assert (Hlen : (11 <= length fs)%nat).
  { destruct (le_lt_dec 11 (length fs)) as [Hl|Hl]; [exact Hl|].
    exfalso. apply Hq1. unfold fld. apply nth_overflow. lia. }
  pose proof (firstn_skipn 11 fs) as Hsplit.
  remember (firstn 11 fs) as F eqn:EF. remember (skipn 11 fs) as R eqn:ER.
  assert (HlenF : length F = 11%nat) by (subst F; apply firstn_length_le; lia).
  destruct (split_at ([] : bytes) 10 F ltac:(lia)) as [HF _].
  rewrite (skipn_all2 F) in HF by lia.
  remember (firstn 10 F) as pre eqn:Epre.
  assert (Hlenpre : length pre = 10%nat) by (subst pre; apply firstn_length_le; lia).
  assert (Hnth : forall i, (i < 11)%nat -> nth i F [] = fld fs i).
  { intros i Hi. unfold fld. rewrite <- Hsplit. symmetry. apply app_nth1. lia. }
  rewrite (Hnth 10%nat) in HF by lia.
  assert (Hshape : lazy_read text = LRec (concat F ++ join_tab R) (cumul [] F)).
  { rewrite HF. apply lazy_read_shape; try assumption.
    rewrite Efs. transitivity (F ++ R); [symmetry; exact Hsplit|].
    rewrite HF at 1. rewrite <- app_assoc. reflexivity. }
  split.
  - unfold lazy_view. rewrite Hshape.
    apply lazy_cols_eq_eager with (parse32 := parse32) (parse32p := parse32p) (fs := fs);
      try assumption.
    + intros i Hi. rewrite col_spec by lia. f_equal. apply Hnth. exact Hi.
    + replace 10%nat with (length F - 1)%nat by lia. apply data_spec. lia.
  - rewrite E11, Hr. reflexivity.
Qed.

(* the canon_pos premise is needed: POS "00" is position 0 (missing) for the eager parser and an
   error of Record::alignment_start *)
Theorem lazy_pos_noncanonical_refuted : exists refs text r,
  parse_line (fun _ => None) (fun _ => None) refs text = POk r /\ lazy_view refs text = LErr 3.
Proof.
  exists [],
    [114; 9; 48; 9; 42; 9; 48; 48; 9; 50; 53; 53; 9; 42; 9; 42; 9; 48; 9; 48; 9; 42; 9; 42; 10],
    (mkRec (Some [114]) 0 None 0 255 [] None 0 0%Z [] [] []).
  split; vm_compute; reflexivity.
Qed.
