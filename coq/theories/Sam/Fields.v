(* SAM text columns: writers (noodles-sam io/writer/record/*.rs) and parsers
   (io/reader/record_buf/*.rs).  Definitions only; proofs in Sam/FieldsProofs.v.
   A writer returns None where the Rust returns Err(InvalidInput/InvalidData); a column parser
   returns None where the Rust returns its ParseError. *)
From Coq Require Import List NArith ZArith Bool.
From NV Require Import Base.Decimal.
Import ListNotations.
Open Scope N_scope.

Definition printable (c : N) : bool := (32 <=? c) && (c <=? 126).
Definition graphic (c : N) : bool := (33 <=? c) && (c <=? 126).
Definition is_alpha (c : N) : bool := ((65 <=? c) && (c <=? 90)) || ((97 <=? c) && (c <=? 122)).
Definition is_alnum (c : N) : bool := is_alpha c || is_digit c.

Definition is_star (f : bytes) : bool := match f with [c] => c =? 42 | _ => false end.
Definition is_eq (f : bytes) : bool := match f with [c] => c =? 61 | _ => false end.

Fixpoint bytes_eqb (a b : bytes) : bool :=
  match a, b with
  | [], [] => true
  | x :: a', y :: b' => (x =? y) && bytes_eqb a' b'
  | _, _ => false
  end.

Definition len (s : bytes) : N := N.of_nat (length s).

(* ---- QNAME (writer/record/name.rs, reader/record_buf/name.rs) *)
Definition name_valid (n : bytes) : bool :=
  (1 <=? len n) && (len n <=? 254) && negb (is_star n)
  && forallb (fun b => graphic b && negb (b =? 64)) n.

Definition write_name (o : option bytes) : option bytes :=
  match o with
  | None => Some [42]
  | Some n => if name_valid n then Some n else None
  end.

Definition parse_name (f : bytes) : option (option bytes) :=
  if is_star f then Some None
  else match f with [] => None | _ => Some (Some f) end.

(* ---- FLAG: u16 text; Flags::from = from_bits_truncate keeps the 12 defined bits *)
Definition write_flags (fl : N) : bytes := fmt_N fl.
Definition parse_flags (f : bytes) : option N :=
  option_map (fun z => Z.to_N z mod 4096) (parse_int false 0 65535 f).

(* ---- RNAME / RNEXT (reference_sequence_name.rs, reference_sequence_id.rs) *)
Fixpoint index_of (x : bytes) (l : list bytes) (i : N) : option N :=
  match l with
  | [] => None
  | y :: t => if bytes_eqb x y then Some i else index_of x t (i + 1)
  end.

Definition ref_name (refs : list bytes) (rid : option N) : option (option bytes) :=
  match rid with
  | None => Some None
  | Some i => match nth_error refs (N.to_nat i) with Some n => Some (Some n) | None => None end
  end.

Definition write_rname (nm : option bytes) : bytes :=
  match nm with Some n => n | None => [42] end.

Definition write_rnext (nm mnm : option bytes) : bytes :=
  match nm, mnm with
  | Some n, Some m => if bytes_eqb n m then [61] else m
  | _, _ => write_rname mnm
  end.

Definition parse_rname (refs : list bytes) (f : bytes) : option (option N) :=
  if is_star f then Some None
  else match index_of f refs 0 with Some i => Some (Some i) | None => None end.

Definition parse_rnext (refs : list bytes) (rid : option N) (f : bytes) : option (option N) :=
  if is_star f then Some None
  else if is_eq f then Some rid
  else match index_of f refs 0 with Some i => Some (Some i) | None => None end.

(* ---- POS / PNEXT: 0 = missing; writer limit 2^31-1; parser target usize *)
Definition USIZE_MAX : Z := 18446744073709551615%Z.
Definition write_pos (p : N) : option bytes :=
  if p <=? 2147483647 then Some (fmt_N p) else None.
Definition parse_pos (f : bytes) : option N :=
  option_map Z.to_N (parse_int false 0 USIZE_MAX f).

(* ---- MAPQ: 255 = missing *)
Definition write_mapq (q : N) : bytes := fmt_N q.
Definition parse_mapq (f : bytes) : option N :=
  option_map Z.to_N (parse_int false 0 255 f).

(* ---- TLEN: i32 *)
Definition write_tlen (t : Z) : bytes := fmt_dec t.
Definition parse_tlen (f : bytes) : option Z := parse_int true (-2147483648) 2147483647 f.

(* ---- CIGAR: (kind index 0..8, length) *)
Definition kind_char (k : N) : N :=
  match k with
  | 0 => 77 | 1 => 73 | 2 => 68 | 3 => 78 | 4 => 83 | 5 => 72 | 6 => 80 | 7 => 61 | _ => 88
  end.
Definition char_kind (c : N) : option N :=
  match c with
  | 77 => Some 0 | 73 => Some 1 | 68 => Some 2 | 78 => Some 3 | 83 => Some 4
  | 72 => Some 5 | 80 => Some 6 | 61 => Some 7 | 88 => Some 8 | _ => None
  end.

Definition op := (N * N)%type.  (* kind, length *)

Fixpoint write_ops (ops : list op) : bytes :=
  match ops with
  | [] => []
  | (k, l) :: t => fmt_N l ++ kind_char k :: write_ops t
  end.

Definition write_cigar (ops : list op) : bytes :=
  match ops with [] => [42] | _ => write_ops ops end.

Fixpoint parse_ops (fuel : nat) (s : bytes) : option (list op) :=
  match s with
  | [] => Some []
  | _ =>
      match fuel with
      | O => None
      | S f =>
          match parse_partial_int false 0 USIZE_MAX s with
          | Some (l, c :: rest) =>
              match char_kind c with
              | Some k => option_map (cons (k, Z.to_N l)) (parse_ops f rest)
              | None => None
              end
          | _ => None
          end
      end
  end.

Definition parse_cigar (f : bytes) : option (list op) :=
  if is_star f then Some []
  else match f with [] => None | _ => parse_ops (length f) f end.

Definition consumes_read (k : N) : bool :=
  match k with 0 | 1 | 4 | 7 | 8 => true | _ => false end.

Fixpoint read_length (ops : list op) : N :=
  match ops with
  | [] => 0
  | (k, l) :: t => (if consumes_read k then l else 0) + read_length t
  end.

(* ---- SEQ *)
Definition valid_base (b : N) : bool := is_alpha b || (b =? 61) || (b =? 46).

Definition write_seq (rl : N) (s : bytes) : option bytes :=
  match s with
  | [] => Some [42]
  | _ =>
      if (0 <? rl) && negb (len s =? rl) then None
      else if forallb valid_base s then Some s else None
  end.

Definition parse_seq (f : bytes) : option bytes :=
  if is_star f then Some [] else match f with [] => None | _ => Some f end.

(* ---- QUAL: Phred+33 *)
Definition write_qual (base_count : N) (q : bytes) : option bytes :=
  match q with
  | [] => Some [42]
  | _ =>
      if len q =? base_count then
        if forallb (fun n => n <=? 93) q then Some (map (fun n => n + 33) q) else None
      else None
  end.

Definition parse_qual (seq_len : N) (f : bytes) : option bytes :=
  if is_star f then Some []
  else match f with
       | [] => None
       | _ => if negb (len f =? seq_len) then None
              else if forallb graphic f then Some (map (fun n => n - 33) f) else None
       end.

(* ---- optional fields *)
Inductive ity := I8 | U8 | I16 | U16 | I32 | U32.

Inductive aux :=
| AChar (c : N)
| AInt (t : ity) (v : Z)
| AFloat (b : N)            (* IEEE-754 binary32 bit pattern *)
| AStr (s : bytes)
| AHex (s : bytes)
| AArrI (t : ity) (vs : list Z)
| AArrF (bs : list N).

Definition ity_lo (t : ity) : Z :=
  match t with I8 => -128 | I16 => -32768 | I32 => -2147483648 | _ => 0 end.
Definition ity_hi (t : ity) : Z :=
  match t with I8 => 127 | U8 => 255 | I16 => 32767 | U16 => 65535 | I32 => 2147483647 | U32 => 4294967295 end.
Definition ity_signed (t : ity) : bool :=
  match t with I8 | I16 | I32 => true | _ => false end.

Definition sub_char (t : ity) : N :=
  match t with I8 => 99 | U8 => 67 | I16 => 115 | U16 => 83 | I32 => 105 | U32 => 73 end.

(* Value::try_from(i64): the smallest type that holds the value (unsigned for v >= 0) *)
Definition smallest (v : Z) : option ity :=
  if (4294967295 <? v)%Z then None
  else if (0 <=? v)%Z then Some (if (v <=? 255)%Z then U8 else if (v <=? 65535)%Z then U16 else U32)
  else if (-128 <=? v)%Z then Some I8
  else if (-32768 <=? v)%Z then Some I16
  else if (-2147483648 <=? v)%Z then Some I32
  else None.

Definition finite32 (b : N) : bool := negb ((b / 8388608) mod 256 =? 255).

Definition is_hex_upper (c : N) : bool := is_digit c || ((65 <=? c) && (c <=? 70)).
Definition hex_valid (s : bytes) : bool := N.even (len s) && forallb is_hex_upper s.

Definition tag_valid (t : N * N) : bool := is_alpha (fst t) && is_alnum (snd t).

Section FloatOracle.
  (* float text is an oracle: fmt32 = lexical_core::write_with_options(trim_floats) used for
     scalar `f`; fmtd32 = Rust's Display used for `B:f` elements; parse32 = lexical_core::parse,
     parse32p = lexical_core::parse_partial *)
  Variable fmt32 : N -> bytes.
  Variable fmtd32 : N -> bytes.
  Variable parse32 : bytes -> option N.
  Variable parse32p : bytes -> option (N * bytes).

  Definition write_value (a : aux) : option bytes :=
    match a with
    | AChar c => if graphic c then Some [c] else None
    | AInt _ v => Some (fmt_dec v)
    | AFloat b => if finite32 b then Some (fmt32 b) else None
    | AStr s => if forallb printable s then Some s else None
    | AHex s => if hex_valid s then Some s else None
    | AArrI t vs => Some (sub_char t :: concat (map (fun v => 44 :: fmt_dec v) vs))
    | AArrF bs => Some (102 :: concat (map (fun b => 44 :: fmtd32 b) bs))
    end.

  Definition type_char (a : aux) : N :=
    match a with
    | AChar _ => 65 | AInt _ _ => 105 | AFloat _ => 102 | AStr _ => 90 | AHex _ => 72
    | AArrI _ _ | AArrF _ => 66
    end.

  Definition write_field (f : (N * N) * aux) : option bytes :=
    let '(t, a) := f in
    if tag_valid t then
      match write_value a with
      | Some v => Some (fst t :: snd t :: 58 :: type_char a :: 58 :: v)
      | None => None
      end
    else None.

  (* array elements: `while !src.is_empty() { consume ','; parse_partial }` *)
  Fixpoint parse_arr_i (fuel : nat) (t : ity) (s : bytes) : option (list Z) :=
    match s with
    | [] => Some []
    | c :: r =>
        match fuel with
        | O => None
        | S f =>
            if c =? 44 then
              match parse_partial_int (ity_signed t) (ity_lo t) (ity_hi t) r with
              | Some (v, rest) => option_map (cons v) (parse_arr_i f t rest)
              | None => None
              end
            else None
        end
    end.

  Fixpoint parse_arr_f (fuel : nat) (s : bytes) : option (list N) :=
    match s with
    | [] => Some []
    | c :: r =>
        match fuel with
        | O => None
        | S f =>
            if c =? 44 then
              match parse32p r with
              | Some (v, rest) => option_map (cons v) (parse_arr_f f rest)
              | None => None
              end
            else None
        end
    end.

  Definition char_sub (c : N) : option ity :=
    match c with
    | 99 => Some I8 | 67 => Some U8 | 115 => Some I16 | 83 => Some U16 | 105 => Some I32 | 73 => Some U32
    | _ => None
    end.

  Definition parse_value (ty : N) (s : bytes) : option aux :=
    match ty with
    | 65 => match s with [c] => Some (AChar c) | _ => None end
    | 105 =>
        match parse_int true (-9223372036854775808) 9223372036854775807 s with
        | Some v => match smallest v with Some t => Some (AInt t v) | None => None end
        | None => None
        end
    | 102 => option_map AFloat (parse32 s)
    | 90 => if forallb printable s then Some (AStr s) else None
    | 72 => if hex_valid s then Some (AHex s) else None
    | 66 =>
        match s with
        | [] => None
        | c :: r =>
            if c =? 102 then option_map AArrF (parse_arr_f (length r) r)
            else match char_sub c with
                 | Some t => option_map (AArrI t) (parse_arr_i (length r) t r)
                 | None => None
                 end
        end
    | _ => None
    end.

  Definition parse_field (f : bytes) : option ((N * N) * aux) :=
    match f with
    | t0 :: t1 :: c1 :: ty :: c2 :: v =>
        if (c1 =? 58) && (c2 =? 58) then
          option_map (fun a => ((t0, t1), a)) (parse_value ty v)
        else None
    | _ => None
    end.

End FloatOracle.

(* integer tags are compared by value: the parser's choice of width *)
Definition norm_aux (a : aux) : aux :=
  match a with
  | AInt t v => match smallest v with Some t' => AInt t' v | None => AInt t v end
  | _ => a
  end.
