(* Round 8 model additions (definitions only).
   - sam::record::Data::get (noodles-sam record/data.rs): `for result in self.iter()`: the first
     field whose tag equals the key is returned, an error met before that is returned, None when
     the iteration ends.  Same field parser (lz_field) and the same fuel discipline as Data::iter
     (lz_fields); the out-of-fuel result is excluded by lazy_get_total.
   - header_write_read: sam::io::Writer::write_header followed by sam::io::Reader::read_header of
     the emitted text, as ONE observable (the property's "write, then parse back"), so that headers
     the writer accepts although they do not read back are compared with the implementation too. *)
From Coq Require Import List NArith ZArith Bool.
From NV Require Import Base.Decimal Sam.Fields Sam.Record Sam.Header Sam.Lazy Sam.LazyData.
Import ListNotations.
Open Scope N_scope.

Inductive gres := GNone | GOk (v : lval) | GErr (e : derr).

Section FloatOracle.
  Variable parse32p : bytes -> option (N * bytes).

  Fixpoint lz_get (fuel : nat) (tag : N * N) (src : bytes) : gres :=
    match src with
    | [] => GNone
    | _ =>
        match fuel with
        | O => GErr DFuel
        | S k =>
            match lz_field parse32p src with
            | DErr e => GErr e
            | DOk (t, v, rest) => if LazyData.tag_eqb t tag then GOk v else lz_get k tag rest
            end
        end
    end.

  Definition lazy_get (tag : N * N) (data : bytes) : gres := lz_get (length data) tag data.
End FloatOracle.

Definition header_write_read (h : header) : option (bytes * option header) :=
  match write_header h with
  | Some t => Some (t, read_header t)
  | None => None
  end.
