(* A whole SAM file (Sam/File.v): what sam::io::Writer emits for a header and records is read back
   by sam::io::Reader as the same header and the same records, then end of input. *)
From Coq Require Import List NArith ZArith Bool Lia.
From Coq Require Import ZifyBool ZifyNat ZifyN.
From NV Require Import Base.Decimal Base.DecimalProofs Sam.Fields Sam.FieldsProofs Sam.Record Sam.RecordProofs.
From NV Require Import Sam.Header Sam.HeaderProofs Sam.Lazy Sam.LazyProofs Sam.File.
Import ListNotations.
Open Scope N_scope.

(* the continuation of the header: nothing, or text that does not start with '@' *)
Definition body_ok (b : bytes) : Prop := b = [] \/ exists c t, b = c :: t /\ c <> 64.

Lemma not64 c : c <> 64 -> forall (A : Type) (x y : A) (l : bytes),
  match c :: l with 64 :: _ => x | _ => y end = y.
Proof.
  intros H A x y l. destruct c as [|p]; [reflexivity|].
  repeat (destruct p as [p|p|]; try reflexivity; try lia).
Qed.

Lemma run_lines_stop body st : body_ok body -> run_lines (split_lf body) st = Some st.
Proof.
  intros [->|(c & t & -> & Hc)]; [reflexivity|]. cbn [split_lf].
  destruct (c =? 10); [reflexivity|].
  destruct (split_lf t) as [|[l b] r]; cbn [run_lines].
  - destruct c as [|p]; [reflexivity|]. repeat (destruct p as [p|p|]; try reflexivity; try lia).
  - destruct c as [|p]; [reflexivity|]. repeat (destruct p as [p|p|]; try reflexivity; try lia).
Qed.

Lemma drop_line_app l rest : NL l -> drop_line (l ++ 10 :: rest) = rest.
Proof.
  induction 1 as [|c l Hc _ IH]; cbn [app drop_line]; [reflexivity|].
  assert (E : (c =? 10) = false) by lia. now rewrite E.
Qed.

Lemma skip_header_stop fuel body : body_ok body -> skip_header fuel body = body.
Proof.
  intros [->|(c & t & -> & Hc)]; destruct fuel; try reflexivity. cbn [skip_header].
  assert (E : (c =? 64) = false) by lia. now rewrite E.
Qed.

Lemma skip_header_lines ls body : Forall line_ok ls -> body_ok body ->
  forall fuel, (length ls <= fuel)%nat ->
  skip_header fuel (concat (map (fun l => l ++ [10]) ls) ++ body) = body.
Proof.
  induction 1 as [|l ls ((r & ->) & H10 & _) _ IH]; intros B fuel HF.
  - cbn [map concat app]. now apply skip_header_stop.
  - destruct fuel as [|k]; [cbn in HF; lia|]. cbn [map concat]. rewrite <- !app_assoc.
    change ([10] ++ ?x) with (10 :: x).
    assert (E : skip_header (S k) ((64 :: r) ++ 10 :: concat (map (fun l => l ++ [10]) ls) ++ body)
                = skip_header k (drop_line ((64 :: r) ++ 10 :: concat (map (fun l => l ++ [10]) ls) ++ body)))
      by reflexivity.
    rewrite E, drop_line_app by exact H10. apply IH; [exact B|cbn in HF; lia].
Qed.

Lemma lines_length (ls : list bytes) : (length ls <= length (concat (map (fun l : bytes => l ++ [10%N]) ls)))%nat.
Proof.
  induction ls as [|l ls IH]; [cbn; lia|]. cbn [map concat length]. rewrite !app_length. cbn [length]. lia.
Qed.

Section FloatOracle.
  Variable fmt32 : N -> bytes.
  Variable fmtd32 : N -> bytes.
  Variable parse32 : bytes -> option N.
  Variable parse32p : bytes -> option (N * bytes).
  Hypothesis H_f : forall b, finite32 b = true -> parse32 (fmt32 b) = Some b.
  Hypothesis H_fc : forall b, PR (fmt32 b).
  Hypothesis H_d : forall b rest, finite32 b = true -> (rest = [] \/ exists r, rest = 44 :: r) ->
                                  parse32p (fmtd32 b ++ rest) = Some (b, rest).
  Hypothesis H_dc : forall b, PR (fmtd32 b).

  (* a written record is one line: no LF or CR inside, LF at the end, and it does not start with '@' *)
  Lemma written_line refs r t : wf_refs refs -> wf_rec r ->
    write_record fmt32 fmtd32 refs r = Some t ->
    exists l, t = l ++ [10] /\ RecordProofs.LN l /\ exists c l', l = c :: l' /\ c <> 64.
  Proof.
    intros [ND OK] (Wf & Wq & Wc & Wt & Wd & Wn). unfold write_record.
    destruct (write_name (r_name r)) as [f_name|] eqn:E0; [|discriminate].
    destruct (ref_name refs (r_rid r)) as [nm|] eqn:E2; [|discriminate].
    destruct (write_pos (r_pos r)) as [f_pos|] eqn:E3; [|discriminate].
    destruct (ref_name refs (r_mrid r)) as [mnm|] eqn:E6; [|discriminate].
    destruct (write_pos (r_mpos r)) as [f_mpos|] eqn:E7; [|discriminate].
    destruct (write_seq (read_length (r_cigar r)) (r_seq r)) as [f_seq|] eqn:E9; [|discriminate].
    destruct (write_qual (len (r_seq r)) (r_qual r)) as [f_qual|] eqn:E10; [|discriminate].
    destruct (write_data fmt32 fmtd32 (r_data r)) as [f_data|] eqn:E11; [|discriminate].
    intro H. apply Some_inj in H. subst t.
    destruct (name_rt _ _ E0) as [P0 Q0].
    destruct (rname_rt refs _ _ ND OK E2) as [P2 Q2].
    destruct (pos_rt _ _ E3) as [P3 Q3].
    destruct (cigar_rt _ Wc) as [P5 Q5].
    destruct (rnext_rt refs _ _ _ _ ND OK E2 E6) as [P6 Q6].
    destruct (pos_rt _ _ E7) as [P7 Q7].
    destruct (seq_rt _ _ _ E9) as [P9 Q9].
    destruct (qual_rt _ _ _ E10) as [P10 Q10].
    destruct (write_data_fields fmt32 fmtd32 parse32 parse32p H_f H_fc H_d H_dc _ _ E11 Wd) as (Q11 & _ & _).
    set (L := [f_name; write_flags (r_flags r); write_rname nm; f_pos; write_mapq (r_mapq r);
               write_cigar (r_cigar r); write_rnext nm mnm; f_mpos; write_tlen (r_tlen r); f_seq; f_qual]).
    assert (QL : Forall PR (L ++ f_data)).
    { apply Forall_app. split; [|exact Q11]. unfold L.
      repeat constructor; auto; try apply fmt_N_PR; try apply fmt_dec_PR. }
    assert (LNL : RecordProofs.LN (join_tab (L ++ f_data))) by (apply join_LN; exact QL).
    exists (join_tab (L ++ f_data)). split; [reflexivity|]. split; [exact LNL|].
    (* the first character is the first character of the name column *)
    assert (HN : exists c n', f_name = c :: n' /\ c <> 64).
    { destruct (r_name r) as [n|]; cbn [write_name] in E0.
      - destruct (name_valid n) eqn:V; [|discriminate]. apply Some_inj in E0. subst f_name.
        unfold name_valid in V. apply andb_prop in V as [V V4]. apply andb_prop in V as [V V3].
        apply andb_prop in V as [V1 V2]. destruct n as [|c n']; [cbn in V1; discriminate|].
        exists c, n'. split; [reflexivity|]. cbn [forallb] in V4. apply andb_prop in V4 as [V4 _]. lia.
      - apply Some_inj in E0. subst f_name. exists 42, []. split; [reflexivity|lia]. }
    destruct HN as (c & n' & EN & Hc). unfold L. cbn [app]. rewrite join_tab_cons, EN. cbn [app].
    eexists _, _. split; [reflexivity|exact Hc].
  Qed.

  Lemma LN_NL l : RecordProofs.LN l -> NL l.
  Proof. apply Forall_impl. intros c [H _]. exact H. Qed.

  (* the first line decides what read_record_buf sees *)
  Lemma parse_line_first refs l rest : RecordProofs.LN l ->
    parse_line parse32 parse32p refs ((l ++ [10]) ++ rest) = parse_line parse32 parse32p refs (l ++ [10]).
  Proof.
    intro H. rewrite <- app_assoc. cbn [app].
    assert (E : forall tail, line_of (l ++ 10 :: tail) = l).
    { intro tail. unfold line_of. rewrite take_line_nl_lf by now apply LN_NL. now apply strip_last_id. }
    unfold parse_line. rewrite (E rest), (E []).
    destruct l; reflexivity.
  Qed.

  Lemma records_written refs : wf_refs refs -> forall rs body,
    Forall wf_rec rs -> write_records fmt32 fmtd32 refs rs = Some body ->
    body_ok body /\ (length rs <= length body)%nat /\
    forall fuel, (length rs < fuel)%nat ->
      read_records parse32 parse32p fuel refs body = (map norm_rec rs, FEof).
  Proof.
    intros WR. induction rs as [|r rs IH]; intros body W H; cbn [write_records] in H.
    - apply Some_inj in H. subst body. split; [left; reflexivity|]. split; [cbn; lia|].
      intros [|k] HF; [lia|]. reflexivity.
    - destruct (write_record fmt32 fmtd32 refs r) as [a|] eqn:EA; [|discriminate].
      destruct (write_records fmt32 fmtd32 refs rs) as [b|] eqn:EB; [|discriminate].
      apply Some_inj in H. subst body. inversion W as [|? ? Wr Wrs]; subst.
      destruct (written_line refs r a WR Wr EA) as (l & -> & LNl & c & l' & -> & Hc).
      destruct (IH b Wrs eq_refl) as (Bb & Lb & Rb).
      split; [right; cbn [app]; eexists _, _; split; [reflexivity|exact Hc]|].
      split; [rewrite !app_length; cbn [length]; lia|].
      intros [|k] HF; [lia|]. cbn [read_records].
      rewrite parse_line_first by exact LNl.
      rewrite (record_roundtrip fmt32 fmtd32 parse32 parse32p H_f H_fc H_d H_dc refs r _ WR Wr EA).
      rewrite <- app_assoc. cbn [app]. change (c :: l' ++ 10 :: b) with ((c :: l') ++ 10 :: b).
      rewrite drop_line_app by now apply LN_NL.
      rewrite Rb by (cbn [length] in HF; lia). reflexivity.
  Qed.

  (* write a header and records, read them back: the same header, the records as the text path
     returns them (norm_rec: integer tags by value, the single quality score 9), then end of input *)
  Theorem file_roundtrip h rs t :
    wf_header h -> wf_refs (refs_of h) -> Forall wf_rec rs ->
    write_file fmt32 fmtd32 h rs = Some t ->
    read_file parse32 parse32p t = Some (h, (map norm_rec rs, FEof)).
  Proof.
    intros WH WR W H. unfold write_file in H.
    destruct (write_header h) as [a|] eqn:EA; [|discriminate].
    destruct (write_records fmt32 fmtd32 (refs_of h) rs) as [b|] eqn:EB; [|discriminate].
    apply Some_inj in H. subst t.
    unfold write_header in EA. destruct (write_header_lines h) as [ls|] eqn:EL; [|discriminate].
    cbn [option_map] in EA. apply Some_inj in EA. subst a.
    destruct (header_lines_spec h ls WH EL) as (LO & RL).
    destruct (records_written (refs_of h) WR rs b W EB) as (Bb & Lb & Rb).
    unfold read_file, read_header. rewrite split_lf_lines_app by exact LO.
    destruct (RL (split_lf b)) as (c & ->). rewrite run_lines_stop by exact Bb. cbn [option_map snd].
    pose proof (lines_length ls) as LL.
    assert (F1 : (length ls <= length (concat (map (fun l : bytes => l ++ [10%N]) ls) ++ b))%nat)
      by (rewrite app_length; lia).
    match goal with
    | |- context [skip_header ?f ?x] =>
        assert (SK : skip_header f x = b) by (apply skip_header_lines; [exact LO|exact Bb|exact F1])
    end.
    rewrite SK.
    rewrite Rb by (rewrite app_length; lia). reflexivity.
  Qed.
End FloatOracle.
