(* BAM header block: what the writer emits is read back as the same header, leaving exactly the
   bytes that follow the block (Sam/BamHeader.v). *)
From Coq Require Import List NArith ZArith Bool Lia.
From Coq Require Import ZifyBool ZifyNat ZifyN.
From NV Require Import Base.Decimal Base.DecimalProofs Sam.Fields Sam.FieldsProofs Sam.Record Sam.RecordProofs.
From NV Require Import Sam.Header Sam.HeaderProofs Sam.BamHeader.
From NV Require Bam.Record Bam.Decode Bam.CodecProofs.
Import ListNotations.
Open Scope N_scope.

(* ---- the text part: on noodles' own header text the BAM line discipline and the SAM reader's
   coincide *)

Lemma write_header_lines_ok h ls : wf_header h -> write_header_lines h = Some ls -> Forall line_ok ls.
Proof.
  intros (WH & WS & NS & WR & NR & WP & NP & WC) H.
  unfold write_header_lines in H.
  destruct (match h_hd h with None => Some [] | Some m => option_map (fun l => [l]) (write_hd m) end) as [la|] eqn:EA; [|discriminate].
  destruct (write_all write_sq (h_sq h)) as [lb|] eqn:EB; [|discriminate].
  destruct (write_all (write_idmap 82 71) (h_rg h)) as [lc|] eqn:EC; [|discriminate].
  destruct (write_all (write_idmap 80 71) (h_pg h)) as [ld|] eqn:ED; [|discriminate].
  destruct (write_all write_co_chk (h_co h)) as [le|] eqn:EE; [|discriminate].
  destruct (write_co_chk_all _ _ EE) as [EE' _]. subst le.
  apply Some_inj in H. subst ls.
  assert (LA : Forall line_ok la).
  { destruct (h_hd h) as [m|].
    - destruct (write_hd m) as [l|] eqn:E; [|discriminate]. cbn in EA. apply Some_inj in EA. subst la.
      destruct (pp_hd false m l WH E) as (LO & _). now constructor.
    - apply Some_inj in EA. subst la. constructor. }
  set (h1 := mkHeader (h_hd h) [] [] [] []).
  assert (CS : chain_ok ok_sq upd_sq (h_sq h) h1).
  { apply (chain_keys sq_name wf_sq h_sq upd_sq); auto.
    intros h0 m. unfold upd_sq. cbn. now rewrite map_app. }
  set (h2 := fold_left upd_sq (h_sq h) h1).
  assert (E2 : h2 = mkHeader (h_hd h) (h_sq h) [] [] []) by (unfold h2; rewrite fold_sq; reflexivity).
  assert (CR : chain_ok ok_rg upd_rg (h_rg h) h2).
  { apply (chain_keys im_id wf_id h_rg upd_rg); auto.
    - intros h0 m. unfold upd_rg. cbn. now rewrite map_app.
    - rewrite E2. exact NR. }
  set (h3 := fold_left upd_rg (h_rg h) h2).
  assert (E3 : h3 = mkHeader (h_hd h) (h_sq h) (h_rg h) [] []) by (unfold h3; rewrite fold_rg, E2; reflexivity).
  assert (CP : chain_ok ok_pg upd_pg (h_pg h) h3).
  { apply (chain_keys im_id wf_id h_pg upd_pg); auto.
    - intros h0 m. unfold upd_pg. cbn. now rewrite map_app.
    - rewrite E3. exact NP. }
  pose proof (phase write_sq ok_sq upd_sq (fun c h m l => pp_sq c h m l) (h_sq h) lb EB) as PB.
  pose proof (phase (write_idmap 82 71) ok_rg upd_rg (fun c h m l => pp_rg c h m l) (h_rg h) lc EC) as PC.
  pose proof (phase (write_idmap 80 71) ok_pg upd_pg (fun c h m l => pp_pg c h m l) (h_pg h) ld ED) as PD.
  assert (LB : Forall line_ok lb) by (apply (PB false h1 [] CS)).
  assert (LC : Forall line_ok lc) by (apply (PC false h2 [] CR)).
  assert (LD : Forall line_ok ld) by (apply (PD false h3 [] CP)).
  assert (LE : Forall line_ok (map write_co (h_co h))).
  { apply Forall_forall. intros l Hl. apply in_map_iff in Hl as (x & <- & Hx).
    apply co_line_ok. rewrite Forall_forall in WC. now apply WC. }
  repeat (apply Forall_app; split); assumption.
Qed.

Lemma visible_false_app r rest : Forall (fun c => c <> 10) r ->
  visible false (r ++ 10 :: rest) = r ++ 10 :: visible true rest.
Proof.
  induction 1 as [|c r Hc _ IH]; cbn [app visible andb].
  - reflexivity.
  - assert (E : (c =? 10) = false) by lia. rewrite E, IH. reflexivity.
Qed.

Lemma visible_lines ls : Forall line_ok ls ->
  visible true (concat (map (fun l => l ++ [10]) ls)) = concat (map (fun l => l ++ [10]) ls).
Proof.
  induction 1 as [|l ls ((r & E) & H10 & _) _ IH]; [reflexivity|]. subst l.
  cbn [map concat]. rewrite <- app_assoc. cbn [app visible].
  change ((64 =? 0)) with false. rewrite andb_false_r. change (64 =? 10) with false.
  inversion H10 as [|c0 r0 _ Hr]; subst.
  rewrite visible_false_app by exact Hr. rewrite IH. reflexivity.
Qed.

Lemma run_lines_bam_eq ls : Forall line_ok ls -> forall st,
  run_lines_bam (map (fun l => (l, true)) ls) st = run_lines (map (fun l => (l, true)) ls) st.
Proof.
  induction 1 as [|l ls LO _ IH]; intro st; [reflexivity|].
  cbn [map]. rewrite run_lines_step by exact LO. cbn [run_lines_bam].
  destruct LO as (_ & _ & S). rewrite S.
  destruct (parse_partial l st) as [st'|]; [apply IH|reflexivity].
Qed.

Lemma read_bam_text_written h t : wf_header h -> write_header h = Some t -> read_bam_text t = Some h.
Proof.
  intros W H. pose proof (header_roundtrip h t W H) as R.
  unfold write_header in H. destruct (write_header_lines h) as [ls|] eqn:EL; [|discriminate].
  cbn [option_map] in H. apply Some_inj in H. subst t.
  pose proof (write_header_lines_ok h ls W EL) as LO.
  unfold read_bam_text. rewrite visible_lines by exact LO.
  unfold read_header in R. rewrite split_lf_lines in R |- * by exact LO.
  rewrite run_lines_bam_eq by exact LO. exact R.
Qed.

(* ---- the binary reference dictionary *)

Lemma rd4_le n r : n <= U32_MAXN -> rd4 (leW 4 n ++ r) = Ok (n, r).
Proof.
  intro H. unfold rd4. rewrite Bam.CodecProofs.rdW_leW; [reflexivity|].
  rewrite Bam.CodecProofs.pow256_4. unfold U32_MAXN in H. lia.
Qed.

Lemma cstr_snoc nm : has_nul nm = false -> cstr (nm ++ [0]) = Some nm.
Proof.
  intro H. unfold cstr. rewrite Bam.CodecProofs.split_last_snoc. rewrite H. reflexivity.
Qed.

Lemma ref_insert_fresh nm l acc : ~ In nm (map fst acc) -> ref_insert nm l acc = acc ++ [(nm, l)].
Proof.
  induction acc as [|[n' l'] acc IH]; intro NI; cbn [ref_insert app]; [reflexivity|].
  cbn [map fst] in NI.
  destruct (bytes_eqb n' nm) eqn:E.
  - apply bytes_eqb_eq in E. subst. exfalso. apply NI. now left.
  - rewrite IH; [reflexivity|]. intro HI. apply NI. now right.
Qed.

Definition ref_pair (m : sq_map) : bytes * N := (sq_name m, sq_len m).

Lemma read_bam_ref_written m b rest : 1 <= sq_len m -> write_bam_ref m = Some b ->
  read_bam_ref (b ++ rest) = Ok (ref_pair m, rest) /\ (1 <= length b)%nat.
Proof.
  intros L H. unfold write_bam_ref in H.
  destruct (has_nul (sq_name m)) eqn:EN; [discriminate|].
  destruct (Bam.Record.lenN (sq_name m) + 1 <=? U32_MAXN) eqn:E1; [|discriminate].
  destruct (sq_len m <=? I32_MAX) eqn:E2; [|discriminate].
  apply Some_inj in H. subst b. split.
  - unfold read_bam_ref. rewrite <- app_assoc. rewrite rd4_le by lia.
    replace (sq_name m ++ 0 :: leW 4 (sq_len m)) with ((sq_name m ++ [0]) ++ leW 4 (sq_len m))
      by (rewrite <- app_assoc; reflexivity).
    rewrite <- app_assoc.
    replace (Bam.Record.lenN (sq_name m) + 1) with (Bam.Record.lenN (sq_name m ++ [0]))
      by (rewrite Bam.CodecProofs.lenN_app; reflexivity).
    rewrite Bam.CodecProofs.takeN_app. rewrite cstr_snoc by exact EN.
    rewrite rd4_le by (unfold I32_MAX, U32_MAXN in *; lia).
    assert (E0 : (sq_len m =? 0) = false) by lia. rewrite E0. reflexivity.
  - rewrite app_length. cbn [leW length]. lia.
Qed.

Lemma read_bam_refs_written sq : forall rs, write_all write_bam_ref sq = Some rs ->
  Forall wf_sq sq -> forall fuel acc rest,
  (length sq <= fuel)%nat -> NoDup (map fst acc ++ map sq_name sq) ->
  read_bam_refs fuel (Bam.Record.lenN sq) (concat rs ++ rest) acc = Ok (acc ++ map ref_pair sq, rest).
Proof.
  induction sq as [|m sq IH]; intros rs H WF fuel acc rest HF ND; cbn [write_all] in H.
  - apply Some_inj in H. subst rs. cbn [Bam.Record.lenN]. destruct fuel; cbn [read_bam_refs];
      change (0 =? 0) with true; cbv iota; cbn [concat app map]; now rewrite app_nil_r.
  - destruct (write_bam_ref m) as [b|] eqn:EB; [|discriminate].
    destruct (write_all write_bam_ref sq) as [rs'|] eqn:ER; [|discriminate].
    apply Some_inj in H. subst rs. inversion WF as [|m0 sq0 Wm Wsq]; subst.
    destruct fuel as [|fuel]; [cbn [length] in HF; lia|].
    cbn [Bam.Record.lenN read_bam_refs].
    assert (E0 : (1 + Bam.Record.lenN sq =? 0) = false) by lia. rewrite E0.
    cbn [concat]. rewrite <- app_assoc.
    destruct Wm as [L1 _].
    destruct (read_bam_ref_written m b (concat rs' ++ rest) L1 EB) as [-> _].
    unfold ref_pair at 1. replace (1 + Bam.Record.lenN sq - 1) with (Bam.Record.lenN sq) by lia.
    cbn [map] in ND.
    assert (NI : ~ In (sq_name m) (map fst acc)).
    { intro HI. apply NoDup_remove_2 in ND. apply ND. apply in_or_app. now left. }
    rewrite ref_insert_fresh by exact NI.
    rewrite (IH rs' eq_refl Wsq fuel (acc ++ [(sq_name m, sq_len m)]) rest).
    + rewrite <- app_assoc. reflexivity.
    + cbn [length] in HF. lia.
    + rewrite map_app. cbn [map fst]. rewrite <- app_assoc. exact ND.
Qed.

Lemma write_all_length {A} (w : A -> option bytes) : (forall x b, w x = Some b -> (1 <= length b)%nat) ->
  forall l rs, write_all w l = Some rs -> (length l <= length (concat rs))%nat.
Proof.
  intros Hw. induction l as [|x l IH]; intros rs H; cbn [write_all] in H.
  - apply Some_inj in H. subst rs. cbn. lia.
  - destruct (w x) as [b|] eqn:EB; [|discriminate]. destruct (write_all w l) as [rs'|] eqn:ER; [|discriminate].
    apply Some_inj in H. subst rs. cbn [concat length]. rewrite app_length.
    specialize (Hw x b EB). specialize (IH rs' eq_refl). lia.
Qed.

Lemma bytes_eqb_refl a : bytes_eqb a a = true.
Proof. now apply bytes_eqb_eq. Qed.

Lemma refs_eq_refl sq : refs_eq sq (map ref_pair sq) = true.
Proof.
  induction sq as [|m sq IH]; [reflexivity|]. cbn [map refs_eq ref_pair].
  rewrite bytes_eqb_refl, N.eqb_refl, IH. reflexivity.
Qed.

Lemma reconcile_same h : reconcile h (map ref_pair (h_sq h)) = Ok h.
Proof.
  unfold reconcile. destruct (h_sq h) as [|m sq] eqn:E.
  - cbn [map]. destruct h. cbn in *. now subst.
  - now rewrite refs_eq_refl.
Qed.

(* ---- the block *)
Theorem bam_header_roundtrip h bs rest :
  wf_header h -> write_bam_header h = Some bs -> read_bam_header (bs ++ rest) = Ok (h, rest).
Proof.
  intros W H. unfold write_bam_header in H.
  destruct (write_header h) as [text|] eqn:ET; [|discriminate].
  destruct (Bam.Record.lenN text <=? I32_MAX) eqn:EL; [|discriminate].
  unfold write_bam_refs in H.
  destruct (Bam.Record.lenN (h_sq h) <=? I32_MAX) eqn:EN; [|discriminate].
  destruct (write_all write_bam_ref (h_sq h)) as [rs|] eqn:ER; [|discriminate].
  cbn [option_map] in H. apply Some_inj in H. subst bs.
  unfold read_bam_header, read_magic, MAGIC. cbn [app].
  change (takeN 4 (66 :: 65 :: 77 :: 1 :: ?x)) with (Some ([66; 65; 77; 1], x)).
  cbv beta iota. change (bytes_eqb [66; 65; 77; 1] [66; 65; 77; 1]) with true. cbv iota.
  rewrite <- !app_assoc.
  rewrite rd4_le by (unfold I32_MAX, U32_MAXN in *; lia).
  rewrite Bam.CodecProofs.firstnN_app.
  rewrite (read_bam_text_written h text W ET).
  replace (Bam.Record.lenN text) with (Bam.Record.lenN text + 0) at 1 by lia.
  rewrite Bam.CodecProofs.skipN_app_len, Bam.CodecProofs.skipN_0.
  rewrite rd4_le by (unfold I32_MAX, U32_MAXN in *; lia).
  destruct W as (WH & WS & NS & WRest).
  rewrite (read_bam_refs_written (h_sq h) rs ER WS).
  - cbn [app]. rewrite reconcile_same. reflexivity.
  - rewrite app_length.
    assert (HL : (length (h_sq h) <= length (concat rs))%nat).
    { apply (write_all_length write_bam_ref); [|exact ER].
      intros m b Hb. unfold write_bam_ref in Hb.
      destruct (has_nul (sq_name m)); [discriminate|].
      destruct (Bam.Record.lenN (sq_name m) + 1 <=? U32_MAXN); [|discriminate].
      destruct (sq_len m <=? I32_MAX); [|discriminate].
      apply Some_inj in Hb. subst b. rewrite app_length. cbn [leW length]. lia. }
    lia.
  - cbn [map app]. exact NS.
Qed.

(* the reference loop never runs out of the fuel read_bam_header gives it: every iteration
   consumes at least the four bytes of l_name *)
Lemma takeN_rest_le : forall t n c r2, takeN n t = Some (c, r2) -> (length r2 <= length t)%nat.
Proof.
  induction t as [|x t IH]; intros n c r2 ET.
  - cbn [Bam.Record.takeN] in ET. destruct (n =? 0); [|discriminate]. inversion ET; subst. cbn. lia.
  - cbn [Bam.Record.takeN] in ET. destruct (n =? 0); [inversion ET; subst; lia|].
    destruct (takeN (n - 1) t) as [[a c']|] eqn:E; [|discriminate]. inversion ET; subst.
    specialize (IH _ _ _ E). cbn [length]. lia.
Qed.

Lemma read_bam_ref_consumes bs p r : read_bam_ref bs = Ok (p, r) -> (length r < length bs)%nat.
Proof.
  unfold read_bam_ref, rd4. destruct bs as [|b0 [|b1 [|b2 [|b3 t]]]]; cbn [rdW]; try discriminate.
  cbv beta iota.
  set (l_name := b0 + 256 * (b1 + 256 * (b2 + 256 * (b3 + 256 * 0)))).
  destruct (takeN l_name t) as [[c r2]|] eqn:ET; [|discriminate].
  destruct (cstr c); [|discriminate].
  assert (HT : (length r2 <= length t)%nat) by (eapply takeN_rest_le; exact ET).
  destruct r2 as [|c0 [|c1 [|c2 [|c3 t2]]]]; cbn [rdW]; try discriminate.
  cbv beta iota. destruct (_ =? 0); [discriminate|]. intro H. inversion H; subst.
  cbn [length] in *. lia.
Qed.

Lemma read_refs_fuel : forall fuel cnt bs acc, (length bs < fuel)%nat ->
  forall fuel', (length bs < fuel')%nat -> read_bam_refs fuel cnt bs acc = read_bam_refs fuel' cnt bs acc.
Proof.
  induction fuel as [|f IH]; intros cnt bs acc H fuel' H'; [lia|].
  destruct fuel' as [|f']; [lia|]. cbn [read_bam_refs].
  destruct (cnt =? 0); [reflexivity|].
  destruct (read_bam_ref bs) as [[[nm l] r]|e] eqn:E; [|reflexivity].
  apply read_bam_ref_consumes in E. apply IH; lia.
Qed.
