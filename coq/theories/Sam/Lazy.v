(* The lazy SAM record: sam::io::Reader::read_record (noodles-sam io/reader/record.rs: the field
   splitter that fills one buffer and eleven end offsets) and the accessors of sam::Record
   (record.rs, record/fields.rs, record/fields/bounds.rs, record/cigar.rs,
   record/quality_scores.rs, record/sequence.rs).  Definitions only.

   The buffer holds the eleven mandatory columns without their separators, then the raw
   optional-field text; [ends] are Bounds::*_end.  An accessor slices the buffer with
   [bounds(i-1) .. bounds(i)]; a slice whose start exceeds its end or whose end exceeds the
   buffer is a Rust panic (APanic).  As repaired in /repo 3506cd5, read_field and read_line strip
   a CR before the LF only when it was read by the same call (before that commit they popped it
   from the end of the whole buffer, so a CR belonging to an earlier column could be removed
   after that column's end offset was recorded, and the accessors panicked). *)
From Coq Require Import List NArith ZArith Bool.
From NV Require Import Base.Decimal Sam.Fields Sam.Record.
Import ListNotations.
Open Scope N_scope.

(* memchr2(TAB, LF): the bytes before the first TAB or LF, which of the two it was, the rest *)
Fixpoint scan (s : bytes) : bytes * option N * bytes :=
  match s with
  | [] => ([], None, [])
  | c :: t => if (c =? 9) || (c =? 10) then ([], Some c, t)
              else let '(f, m, r) := scan t in (c :: f, m, r)
  end.

(* read_field: append to dst; is_eol = the match was LF; then
   `if is_eol && dst.len() > start && dst.ends_with(CR) pop` *)
Definition read_field (s buf : bytes) : bytes * bool * bytes :=
  let '(f, m, r) := scan s in
  let eol := match m with Some c => c =? 10 | None => false end in
  (buf ++ (if eol then strip_last 13 f else f), eol, r).

(* read_required_field x n: an EOL is an error, the end of input is not *)
Fixpoint read_required (n : nat) (s buf : bytes) (ends : list N) : option (bytes * bytes * list N) :=
  match n with
  | O => Some (s, buf, ends)
  | S k =>
      let '(b, eol, r) := read_field s buf in
      if eol : bool then None else read_required k r b (ends ++ [len b])
  end.

Inductive lread := LEof | LBad | LRec (buf : bytes) (ends : list N).

(* read_record on a reader holding [text]: Ok(0) (nothing consumed), Err(InvalidData), or the
   record's buffer and bounds *)
Definition lazy_read (text : bytes) : lread :=
  match text with
  | [] => LEof
  | _ =>
      match read_required 10 text [] [] with
      | None => LBad
      | Some (s, buf, ends) =>
          let '(b, eol, r) := read_field s buf in
          let ends' := ends ++ [len b] in
          if eol : bool then LRec b ends'
          else match r with
               | [] => LRec b ends'         (* read_until returns 0: nothing is popped *)
               | _ => let '(l, lf) := take_line r in
                      LRec (b ++ (if lf : bool then strip_last 13 l else l)) ends'
               end
      end
  end.

Inductive acc (A : Type) : Type := AOk (a : A) | AErr | APanic.
Arguments AOk {A} a.
Arguments AErr {A}.
Arguments APanic {A}.

(* &buf[a..b] *)
Definition slice (buf : bytes) (a b : N) : acc bytes :=
  if (a <=? b) && (b <=? len buf)
  then AOk (firstn (N.to_nat (b - a)) (skipn (N.to_nat a) buf)) else APanic.
(* &buf[a..] *)
Definition slice_from (buf : bytes) (a : N) : acc bytes :=
  if a <=? len buf then AOk (skipn (N.to_nat a) buf) else APanic.

Definition bound (ends : list N) (i : nat) : N := nth i ends 0.
Definition col (buf : bytes) (ends : list N) (i : nat) : acc bytes :=
  slice buf (match i with O => 0 | S j => bound ends j end) (bound ends i).

Definition of_opt {A} (o : option A) : acc A := match o with Some a => AOk a | None => AErr end.
Definition abind {A B} (x : acc A) (f : A -> acc B) : acc B :=
  match x with AOk a => f a | AErr => AErr | APanic => APanic end.

(* Fields::name: "*" is None, anything else (the empty string included) is the name *)
Definition lz_name (f : bytes) : option bytes := if is_star f then None else Some f.

(* Fields::alignment_start: the text "0" is None; otherwise parse usize, Position::try_from
   rejects 0 *)
Definition lz_pos (f : bytes) : option N :=
  match f with
  | [48] => Some 0
  | _ => match parse_pos f with
         | Some n => if n =? 0 then None else Some n
         | None => None
         end
  end.

(* record::Cigar::iter: parse_op until the buffer is empty ("*" is the empty buffer) *)
Definition lz_cigar (f : bytes) : option (list op) :=
  if is_star f then Some [] else parse_ops (length f) f.

(* record::QualityScores::iter: checked_sub('!') *)
Fixpoint lz_scores (f : bytes) : option bytes :=
  match f with
  | [] => Some []
  | b :: t => if b <? 33 then None
              else match lz_scores t with Some r => Some (b - 33 :: r) | None => None end
  end.
Definition lz_qual (f : bytes) : option bytes := if is_star f then Some [] else lz_scores f.

Definition lz_seq (f : bytes) : bytes := if is_star f then [] else f.

(* the view: every accessor in column order; the first one that fails decides *)
Inductive lres :=
| LOk (r : sam_rec) (data : bytes)      (* r_data = []; [data] = Record::data().as_ref() *)
| LErr (c : N) | LPanic (c : N) | LREof | LRBad.

Definition step {A} (c : N) (x : acc A) (k : A -> lres) : lres :=
  match x with AOk a => k a | AErr => LErr c | APanic => LPanic c end.

Definition lazy_cols (refs : list bytes) (buf : bytes) (ends : list N) : lres :=
  let rname := abind (col buf ends 2) (fun f => of_opt (parse_rname refs f)) in
  step 0 (col buf ends 0) (fun f0 =>
  step 1 (abind (col buf ends 1) (fun f => of_opt (parse_flags f))) (fun flags =>
  step 2 rname (fun rid =>
  step 3 (abind (col buf ends 3) (fun f => of_opt (lz_pos f))) (fun pos =>
  step 4 (abind (col buf ends 4) (fun f => of_opt (parse_mapq f))) (fun mapq =>
  step 5 (abind (col buf ends 5) (fun f => of_opt (lz_cigar f))) (fun cigar =>
  step 6 (abind (col buf ends 6) (fun f =>
            if is_star f then AOk None
            else if is_eq f then rname
            else of_opt (match index_of f refs 0 with Some i => Some (Some i) | None => None end))) (fun mrid =>
  step 7 (abind (col buf ends 7) (fun f => of_opt (lz_pos f))) (fun mpos =>
  step 8 (abind (col buf ends 8) (fun f => of_opt (parse_tlen f))) (fun tlen =>
  step 9 (col buf ends 9) (fun f9 =>
  step 10 (abind (col buf ends 10) (fun f => of_opt (lz_qual f))) (fun qual =>
  step 11 (slice_from buf (bound ends 10)) (fun data =>
    LOk (mkRec (lz_name f0) flags rid pos mapq cigar mrid mpos tlen (lz_seq f9) qual []) data)))))))))))).

Definition lazy_view (refs : list bytes) (text : bytes) : lres :=
  match lazy_read text with
  | LEof => LREof
  | LBad => LRBad
  | LRec buf ends => lazy_cols refs buf ends
  end.
