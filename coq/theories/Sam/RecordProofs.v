(* Record-level round trip for Sam/Record.v. *)
From Coq Require Import List NArith ZArith Bool Lia.
From Coq Require Import ZifyBool ZifyNat ZifyN.
From NV Require Import Base.Decimal Base.DecimalProofs Sam.Fields Sam.FieldsProofs Sam.Record.
Import ListNotations.
Open Scope N_scope.

Lemma Some_inj {A} (a b : A) : Some a = Some b -> a = b.
Proof. congruence. Qed.

Lemma PR_no c : printable c = true -> c <> 9 /\ c <> 10 /\ c <> 13.
Proof. unfold printable. lia. Qed.

(* ---- tabs *)
Lemma split_tab_app f rest : PR f -> split_tab (f ++ 9 :: rest) = f :: split_tab rest.
Proof.
  induction 1 as [|c f Hc _ IH]; cbn [app split_tab].
  - reflexivity.
  - apply PR_no in Hc. assert (E : (c =? 9) = false) by lia. rewrite E, IH. reflexivity.
Qed.

Lemma split_tab_notab f : PR f -> split_tab f = [f].
Proof.
  induction 1 as [|c f Hc _ IH]; cbn [split_tab]; [reflexivity|].
  apply PR_no in Hc. assert (E : (c =? 9) = false) by lia. rewrite E, IH. reflexivity.
Qed.

Lemma split_join fs : Forall PR fs -> fs <> [] -> split_tab (join_tab fs) = fs.
Proof.
  induction 1 as [|f t Hf Ht IH]; intro NE; [contradiction|].
  destruct t as [|g t].
  - cbn [join_tab]. now apply split_tab_notab.
  - change (join_tab (f :: g :: t)) with (f ++ 9 :: join_tab (g :: t)).
    rewrite split_tab_app by exact Hf. f_equal. apply IH. discriminate.
Qed.

Definition LN (l : bytes) : Prop := Forall (fun c => c <> 10 /\ c <> 13) l.

Lemma join_LN fs : Forall PR fs -> LN (join_tab fs).
Proof.
  induction 1 as [|f t Hf Ht IH]; [constructor|].
  assert (Lf : LN f) by (eapply Forall_impl; [|exact Hf]; intros c Hc; apply PR_no in Hc; tauto).
  destruct t as [|g t]; [exact Lf|].
  change (join_tab (f :: g :: t)) with (f ++ 9 :: join_tab (g :: t)).
  apply Forall_app. split; [exact Lf|]. constructor; [lia|exact IH].
Qed.

Lemma take_line_lf l : LN l -> take_line (l ++ [10]) = (l, true).
Proof.
  induction 1 as [|c l [H1 _] _ IH]; cbn [app take_line]; [reflexivity|].
  assert (E : (c =? 10) = false) by lia. now rewrite E, IH.
Qed.

Lemma strip_last_id l : LN l -> strip_last 13 l = l.
Proof.
  intro H. unfold strip_last. destruct (rev l) as [|x t] eqn:E; [reflexivity|].
  assert (Hx : In x l) by (apply in_rev; rewrite E; now left).
  unfold LN in H. rewrite Forall_forall in H. destruct (H x Hx) as [_ H13].
  assert (E2 : (x =? 13) = false) by lia. now rewrite E2.
Qed.

Lemma line_of_written l : LN l -> line_of (l ++ [10]) = l.
Proof. intro H. unfold line_of. rewrite take_line_lf by exact H. now apply strip_last_id. Qed.

(* ---- data *)
Definition normf (f : (N * N) * aux) := (fst f, norm_aux (snd f)).

Lemma mem_tag_cons t u a acc : t <> u -> mem_tag t ((u, a) :: acc) = mem_tag t acc.
Proof.
  intro H. destruct t as [t0 t1], u as [u0 u1]. cbn [mem_tag fst snd].
  assert (E : (t0 =? u0) && (t1 =? u1) = false).
  { destruct (t0 =? u0) eqn:E0; [|reflexivity]. destruct (t1 =? u1) eqn:E1; [|reflexivity].
    exfalso. apply H. f_equal; lia. }
  now rewrite E.
Qed.

Section FloatOracle.
  Variable fmt32 : N -> bytes.
  Variable fmtd32 : N -> bytes.
  Variable parse32 : bytes -> option N.
  Variable parse32p : bytes -> option (N * bytes).
  Hypothesis H_f : forall b, finite32 b = true -> parse32 (fmt32 b) = Some b.
  Hypothesis H_fc : forall b, PR (fmt32 b).
  Hypothesis H_d : forall b rest, finite32 b = true -> (rest = [] \/ exists r, rest = 44 :: r) ->
                                  parse32p (fmtd32 b ++ rest) = Some (b, rest).
  Hypothesis H_dc : forall b, PR (fmtd32 b).

  Lemma write_data_fields d : forall fs, write_data fmt32 fmtd32 d = Some fs ->
    Forall (fun f => wf_aux (snd f)) d ->
    Forall PR fs /\ Forall (fun f => (5 <= length f)%nat) fs /\ length fs = length d.
  Proof.
    induction d as [|[t a] d IH]; intros fs H W; cbn [write_data] in H.
    - inversion H; subst. repeat split; constructor.
    - destruct (write_field fmt32 fmtd32 (t, a)) as [x|] eqn:E; [|discriminate].
      destruct (write_data fmt32 fmtd32 d) as [xs|] eqn:E2; [|discriminate].
      inversion H; subst. inversion W; subst. cbn [snd] in *.
      destruct (field_rt fmt32 fmtd32 parse32 parse32p H_f H_fc H_d H_dc t a x H2 E) as (_ & P & L).
      destruct (IH xs eq_refl H3) as (A & B & C).
      repeat split; try constructor; auto. cbn [length]. now rewrite C.
  Qed.

  Lemma parse_data_write d : forall fs acc, write_data fmt32 fmtd32 d = Some fs ->
    Forall (fun f => wf_aux (snd f)) d -> NoDup (map fst d) ->
    (forall f, In f d -> mem_tag (fst f) acc = false) ->
    parse_data parse32 parse32p fs acc = Some (rev acc ++ map normf d).
  Proof.
    induction d as [|[t a] d IH]; intros fs acc H W ND FR; cbn [write_data] in H.
    - inversion H; subst. cbn. now rewrite app_nil_r.
    - destruct (write_field fmt32 fmtd32 (t, a)) as [x|] eqn:E; [|discriminate].
      destruct (write_data fmt32 fmtd32 d) as [xs|] eqn:E2; [|discriminate].
      inversion H; subst. inversion W; subst. cbn [snd map fst] in *. inversion ND; subst.
      destruct (field_rt fmt32 fmtd32 parse32 parse32p H_f H_fc H_d H_dc t a x H2 E) as (P & _ & _).
      cbn [parse_data]. rewrite P.
      pose proof (FR (t, a) (or_introl eq_refl)) as FR0. cbn [fst] in FR0. rewrite FR0.
      destruct (write_data_fields d xs E2 H3) as (_ & L5 & _).
      assert (G : parse_data parse32 parse32p xs ((t, norm_aux a) :: acc)
                  = Some (rev ((t, norm_aux a) :: acc) ++ map normf d)).
      { apply IH; auto. intros f Hf. rewrite mem_tag_cons.
        - apply FR. now right.
        - intro Eq. apply H4. rewrite <- Eq. apply in_map. exact Hf. }
      cbn [rev] in G. rewrite <- app_assoc in G. cbn [app] in G.
      destruct xs as [|y ys].
      + destruct d; [|cbn in E2; destruct (write_field fmt32 fmtd32 p); [destruct (write_data fmt32 fmtd32 d)|]; discriminate].
        cbn [parse_data] in *. exact G.
      + destruct y as [|y0 y].
        * inversion L5; subst. cbn in H6. lia.
        * exact G.
  Qed.

  Lemma parse_data_top_write d fs : write_data fmt32 fmtd32 d = Some fs ->
    Forall (fun f => wf_aux (snd f)) d -> NoDup (map fst d) ->
    parse_data_top parse32 parse32p fs = Some (map normf d).
  Proof.
    intros H W ND. destruct (write_data_fields d fs H W) as (_ & L5 & LL).
    assert (G := parse_data_write d fs [] H W ND (fun _ _ => eq_refl)). cbn [rev app] in G.
    unfold parse_data_top. destruct fs as [|y ys].
    - destruct d; [reflexivity|discriminate].
    - destruct y as [|y0 y]; [inversion L5; subst; cbn in H2; lia|]. exact G.
  Qed.

  (* ---- the record *)
  Definition wf_rec (r : sam_rec) : Prop :=
    r_flags r < 4096 /\ r_mapq r <= 255 /\ Forall wf_op (r_cigar r)
    /\ (-2147483648 <= r_tlen r <= 2147483647)%Z
    /\ Forall (fun f => wf_aux (snd f)) (r_data r) /\ NoDup (map fst (r_data r)).

  Definition wf_refs (refs : list bytes) : Prop := NoDup refs /\ Forall refname_ok refs.

  Lemma parse_line_nonempty refs l :
    parse_line parse32 parse32p refs (l ++ [10]) = parse_fields parse32 parse32p refs (split_tab (line_of (l ++ [10]))).
  Proof. unfold parse_line. destruct l; reflexivity. Qed.

  Theorem record_roundtrip refs r t :
    wf_refs refs -> wf_rec r ->
    write_record fmt32 fmtd32 refs r = Some t ->
    parse_line parse32 parse32p refs t = POk (norm_rec r).
  Proof.
    intros [ND OK] (Wf & Wq & Wc & Wt & Wd & Wn). unfold write_record.
    destruct (write_name (r_name r)) as [f_name|] eqn:E0; [|discriminate].
    destruct (ref_name refs (r_rid r)) as [nm|] eqn:E2; [|discriminate].
    destruct (write_pos (r_pos r)) as [f_pos|] eqn:E3; [|discriminate].
    destruct (ref_name refs (r_mrid r)) as [mnm|] eqn:E6; [|discriminate].
    destruct (write_pos (r_mpos r)) as [f_mpos|] eqn:E7; [|discriminate].
    destruct (write_seq (read_length (r_cigar r)) (r_seq r)) as [f_seq|] eqn:E9; [|discriminate].
    destruct (write_qual (len (r_seq r)) (r_qual r)) as [f_qual|] eqn:E10; [|discriminate].
    destruct (write_data fmt32 fmtd32 (r_data r)) as [f_data|] eqn:E11; [|discriminate].
    intro H. apply Some_inj in H. subst t.
    destruct (name_rt _ _ E0) as [P0 Q0].
    destruct (rname_rt refs _ _ ND OK E2) as [P2 Q2].
    destruct (pos_rt _ _ E3) as [P3 Q3].
    destruct (cigar_rt _ Wc) as [P5 Q5].
    destruct (rnext_rt refs _ _ _ _ ND OK E2 E6) as [P6 Q6].
    destruct (pos_rt _ _ E7) as [P7 Q7].
    destruct (seq_rt _ _ _ E9) as [P9 Q9].
    destruct (qual_rt _ _ _ E10) as [P10 Q10].
    destruct (write_data_fields _ _ E11 Wd) as (Q11 & _ & _).
    set (L := [f_name; write_flags (r_flags r); write_rname nm; f_pos; write_mapq (r_mapq r);
               write_cigar (r_cigar r); write_rnext nm mnm; f_mpos; write_tlen (r_tlen r); f_seq; f_qual]).
    assert (QL : Forall PR (L ++ f_data)).
    { apply Forall_app. split; [|exact Q11]. unfold L.
      repeat constructor; auto; try apply fmt_N_PR; try apply fmt_dec_PR. }
    assert (LNL : LN (join_tab (L ++ f_data))) by (apply join_LN; exact QL).
    rewrite parse_line_nonempty. rewrite (line_of_written _ LNL).
    rewrite (split_join _ QL) by (unfold L; discriminate).
    unfold L, parse_fields, fld. cbn [app nth skipn].
    rewrite P0, (flags_rt _ Wf), P2, P3, (mapq_rt _ Wq), P5, P6, P7, (tlen_rt _ Wt), P9, P10.
    rewrite (parse_data_top_write _ _ E11 Wd Wn).
    reflexivity.
  Qed.

  (* writing what was read gives the same text *)
  Lemma write_data_norm d : write_data fmt32 fmtd32 (map normf d) = write_data fmt32 fmtd32 d.
  Proof.
    induction d as [|[t a] d IH]; [reflexivity|]. cbn [map write_data normf fst snd].
    rewrite IH. unfold write_field, normf. cbn [fst snd]. destruct (write_value_norm fmt32 fmtd32 a) as [A B].
    now rewrite A, B.
  Qed.

  Lemma write_qual_norm bc q f : write_qual bc q = Some f -> write_qual bc (norm_qual q) = Some f.
  Proof.
    destruct q as [|c [|d q]]; cbn [norm_qual]; auto.
    destruct (c =? 9) eqn:E; auto. assert (c = 9) by lia. subst c.
    cbn [write_qual]. destruct (len [9] =? bc); [|discriminate]. cbn. auto.
  Qed.

  Theorem write_norm refs r t :
    write_record fmt32 fmtd32 refs r = Some t -> write_record fmt32 fmtd32 refs (norm_rec r) = Some t.
  Proof.
    unfold write_record. cbn [norm_rec norm_i r_name r_flags r_rid r_pos r_mapq r_cigar r_mrid r_mpos r_tlen r_seq r_qual r_data].
    destruct (write_name (r_name r)); [|discriminate].
    destruct (ref_name refs (r_rid r)); [|discriminate].
    destruct (write_pos (r_pos r)); [|discriminate].
    destruct (ref_name refs (r_mrid r)); [|discriminate].
    destruct (write_pos (r_mpos r)); [|discriminate].
    destruct (write_seq (read_length (r_cigar r)) (r_seq r)); [|discriminate].
    destruct (write_qual (len (r_seq r)) (r_qual r)) as [fq|] eqn:EQ; [|discriminate].
    rewrite (write_qual_norm _ _ _ EQ).
    change (map (fun f => (fst f, norm_aux (snd f))) (r_data r)) with (map normf (r_data r)).
    rewrite write_data_norm. auto.
  Qed.

  Theorem fixed_point refs r t r' :
    wf_refs refs -> wf_rec r ->
    write_record fmt32 fmtd32 refs r = Some t ->
    parse_line parse32 parse32p refs t = POk r' ->
    write_record fmt32 fmtd32 refs r' = Some t.
  Proof.
    intros WR W H P. rewrite (record_roundtrip refs r t WR W H) in P. injection P as <-.
    now apply write_norm.
  Qed.

End FloatOracle.

Lemma norm_rec_id r : norm_qual (r_qual r) = r_qual r -> norm_rec r = norm_i r.
Proof. intro H. unfold norm_rec. cbn. rewrite H. reflexivity. Qed.

Lemma norm_qual_not9 q : q <> [9] -> norm_qual q = q.
Proof.
  destruct q as [|c [|d q]]; cbn; auto. intro H. destruct (c =? 9) eqn:E; auto.
  exfalso. apply H. f_equal. lia.
Qed.
