(* The optional fields of the lazy sam::Record: sam::record::Data::iter (noodles-sam
   record/data.rs), parse_field (record/data/field.rs: tag.rs, ty.rs), the per-type lazy value
   parsers (record/data/field/value.rs, value/integer.rs, value/array.rs, array/subtype.rs), the
   lazily parsed array values (array/values.rs), the conversion of a lazy value to an owned one
   (alignment/record/data/field/value.rs, value/array.rs: TryFrom) and
   RecordBuf::try_from_alignment_record (alignment/record_buf/convert.rs) applied to a lazy
   sam::Record.  Definitions only; proofs in Sam/LazyDataProofs.v.

   All parsers work on `src: &mut &[u8]`, the not yet consumed rest of Record::data(); a result is
   the value and the new rest.  Errors are the io::ErrorKind of the Rust (UnexpectedEof /
   InvalidData).  The code has no partial operation other than `&src[i..]` with the index returned
   by lexical_core::parse_partial, so there is no panic outcome; the iteration is a loop
   (iter::from_fn until src is empty), modelled with fuel and the out-of-fuel result DFuel, which
   lazy_data_total excludes. *)
From Coq Require Import List NArith ZArith Bool.
From NV Require Import Base.Decimal Sam.Fields Sam.Record Sam.Lazy.
Import ListNotations.
Open Scope N_scope.

Inductive derr := DEof | DInv | DFuel.
Inductive dres (A : Type) : Type := DOk (a : A) | DErr (e : derr).
Arguments DOk {A} a.
Arguments DErr {A} e.

(* a lazy value: scalars are parsed, strings are slices, an array keeps its raw text *)
Inductive lval :=
| LChar (c : N)
| LI32 (v : Z)
| LU32 (v : Z)
| LFloat (b : N)
| LStr (s : bytes)
| LHex (s : bytes)
| LArrI (t : ity) (buf : bytes)
| LArrF (buf : bytes).

(* parse_string: `find_byte(TAB).unwrap_or(len)`, split_at: (before the TAB, from the TAB on) *)
Fixpoint take_tab (s : bytes) : bytes * bytes :=
  match s with
  | [] => ([], [])
  | c :: t => if c =? 9 then ([], s) else let '(f, r) := take_tab t in (c :: f, r)
  end.

(* `src.split(|b| b == ',')`: at least one piece *)
Fixpoint split_comma (s : bytes) : list bytes :=
  match s with
  | [] => [[]]
  | c :: t =>
      if c =? 44 then [] :: split_comma t
      else match split_comma t with
           | f :: fs => (c :: f) :: fs
           | [] => [[c]]
           end
  end.

(* lexical_core::parse_partial for an integer target before its range check: Empty input and a
   lone sign are errors, otherwise the (possibly empty) digit run is read *)
Definition partial_raw (signed : bool) (s : bytes) : option (Z * bytes) :=
  match s with
  | [] => None
  | c :: t =>
      let '(neg, body) :=
        if c =? 43 then (false, t)
        else if (c =? 45) && signed then (true, t)
        else (false, s) in
      match body with
      | [] => None
      | _ =>
          let '(v, _, rest) := take_digits body 0 O in
          Some (if neg : bool then (- Z.of_N v)%Z else Z.of_N v, rest)
      end
  end.

(* value/integer.rs parse_integer_value: parse_partial::<i32>; on Error::Overflow (only)
   parse_partial::<u32> of the same text; Underflow and every other error are InvalidData *)
Definition lz_int (src : bytes) : dres (lval * bytes) :=
  match partial_raw true src with
  | None => DErr DInv
  | Some (z, rest) =>
      if (z <? -2147483648)%Z then DErr DInv
      else if (z <=? 2147483647)%Z then DOk (LI32 z, rest)
      else match parse_partial_int false 0 4294967295 src with
           | Some (u, rest') => DOk (LU32 u, rest')
           | None => DErr DInv
           end
  end.

Section FloatOracle.
  (* parse32 = lexical_core::parse::<f32> (array elements), parse32p = lexical_core::parse_partial::<f32>
     (scalar `f`): the same oracles as in Sam/Fields.v *)
  Variable parse32 : bytes -> option N.
  Variable parse32p : bytes -> option (N * bytes).

  (* value/array.rs parse_array: subtype, maybe_consume_delimiter (',' is consumed, a TAB is left,
     the end is fine, anything else is InvalidData), then the text up to the next TAB *)
  Definition lz_array (src : bytes) : dres (lval * bytes) :=
    match src with
    | [] => DErr DEof
    | c :: r =>
        let sub := if c =? 102 then Some None
                   else match char_sub c with Some t => Some (Some t) | None => None end in
        match sub with
        | None => DErr DInv
        | Some st =>
            let after :=
              match r with
              | [] => Some r
              | d :: r' => if d =? 44 then Some r' else if d =? 9 then Some r else None
              end in
            match after with
            | None => DErr DInv
            | Some a =>
                let '(buf, rest) := take_tab a in
                DOk (match st with Some t => LArrI t buf | None => LArrF buf end, rest)
            end
        end
    end.

  (* value.rs parse_value *)
  Definition lz_value (ty : N) (src : bytes) : dres (lval * bytes) :=
    match ty with
    | 65 => match src with c :: r => DOk (LChar c, r) | [] => DErr DEof end
    | 105 => lz_int src
    | 102 => match parse32p src with Some (b, r) => DOk (LFloat b, r) | None => DErr DInv end
    | 90 => let '(s, r) := take_tab src in DOk (LStr s, r)
    | 72 => let '(s, r) := take_tab src in DOk (LHex s, r)
    | _ => lz_array src      (* 66 *)
    end.

  Definition is_type (c : N) : bool :=
    (c =? 65) || (c =? 105) || (c =? 102) || (c =? 90) || (c =? 72) || (c =? 66).

  (* field.rs parse_field: tag (split_first_chunk::<2>), ':', type, ':', value, then
     maybe_consume_terminator (a TAB is consumed, the end is fine, anything else is InvalidData) *)
  Definition lz_field (src : bytes) : dres ((N * N) * lval * bytes) :=
    match src with
    | t0 :: t1 :: r1 =>
        match r1 with
        | [] => DErr DEof
        | c1 :: r2 =>
            if negb (c1 =? 58) then DErr DInv
            else match r2 with
                 | [] => DErr DEof
                 | ty :: r3 =>
                     if negb (is_type ty) then DErr DInv
                     else match r3 with
                          | [] => DErr DEof
                          | c2 :: r4 =>
                              if negb (c2 =? 58) then DErr DInv
                              else match lz_value ty r4 with
                                   | DErr e => DErr e
                                   | DOk (v, r5) =>
                                       match r5 with
                                       | [] => DOk ((t0, t1), v, [])
                                       | x :: r6 => if x =? 9 then DOk ((t0, t1), v, r6) else DErr DInv
                                       end
                                   end
                          end
                 end
        end
    | _ => DErr DEof
    end.

  (* Data::iter().collect::<io::Result<Vec<_>>>(): the fields up to the first error *)
  Fixpoint lz_fields (fuel : nat) (src : bytes) : dres (list ((N * N) * lval)) :=
    match src with
    | [] => DOk []
    | _ =>
        match fuel with
        | O => DErr DFuel
        | S k =>
            match lz_field src with
            | DErr e => DErr e
            | DOk (t, v, rest) =>
                match lz_fields k rest with
                | DOk l => DOk ((t, v) :: l)
                | DErr e => DErr e
                end
            end
        end
    end.

  (* array/values.rs Values::iter: nothing for the empty text, otherwise every comma-separated
     piece through lexical_core::parse (complete, with the target's range) *)
  Definition lz_arr_elems (buf : bytes) : list bytes :=
    match buf with [] => [] | _ => split_comma buf end.

  Definition lz_elem_i (t : ity) (e : bytes) : option Z := parse_int (ity_signed t) (ity_lo t) (ity_hi t) e.

  Fixpoint mapM {A B : Type} (f : A -> option B) (l : list A) : option (list B) :=
    match l with
    | [] => Some []
    | x :: t => match f x with
                | Some y => option_map (cons y) (mapM f t)
                | None => None
                end
    end.

  (* TryFrom<Value<'_>> for record_buf Value: scalars and strings are copied (no validation of
     Z / H text), an array is collected, the first bad element is InvalidData *)
  Definition lval_to_aux (v : lval) : option aux :=
    match v with
    | LChar c => Some (AChar c)
    | LI32 z => Some (AInt I32 z)
    | LU32 z => Some (AInt U32 z)
    | LFloat b => Some (AFloat b)
    | LStr s => Some (AStr s)
    | LHex s => Some (AHex s)
    | LArrI t buf => option_map (AArrI t) (mapM (lz_elem_i t) (lz_arr_elems buf))
    | LArrF buf => option_map AArrF (mapM parse32 (lz_arr_elems buf))
    end.

  Definition tag_eqb (t u : N * N) : bool := (fst t =? fst u) && (snd t =? snd u).

  (* record_buf::Data::insert: a repeated tag replaces the field in place *)
  Fixpoint data_insert (d : list ((N * N) * aux)) (t : N * N) (a : aux) : list ((N * N) * aux) :=
    match d with
    | [] => [(t, a)]
    | (u, b) :: r => if tag_eqb t u then (t, a) :: r else (u, b) :: data_insert r t a
    end.

  (* convert.rs: `for result in record.data().iter() { let (tag, value) = result?;
     data.insert(tag, value.try_into()?) }` *)
  Fixpoint lz_conv (fuel : nat) (src : bytes) (acc : list ((N * N) * aux)) : dres (list ((N * N) * aux)) :=
    match src with
    | [] => DOk acc
    | _ =>
        match fuel with
        | O => DErr DFuel
        | S k =>
            match lz_field src with
            | DErr e => DErr e
            | DOk (t, v, rest) =>
                match lval_to_aux v with
                | None => DErr DInv
                | Some a => lz_conv k rest (data_insert acc t a)
                end
            end
        end
    end.

  Definition lazy_data (data : bytes) : dres (list ((N * N) * lval)) := lz_fields (length data) data.
  Definition lazy_data_conv (data : bytes) : dres (list ((N * N) * aux)) := lz_conv (length data) data [].

  (* RecordBuf::try_from_alignment_record(header, &lazy record) on a reader holding [text]:
     read_record, the accessors of the eleven columns in order, then the data loop *)
  Inductive cres := COk (r : sam_rec) | CErr (c : N) | CPanic (c : N) | CEof | CBad.

  Definition set_data (r : sam_rec) (d : list ((N * N) * aux)) : sam_rec :=
    mkRec (r_name r) (r_flags r) (r_rid r) (r_pos r) (r_mapq r) (r_cigar r) (r_mrid r) (r_mpos r)
          (r_tlen r) (r_seq r) (r_qual r) d.

  Definition lazy_convert (refs : list bytes) (text : bytes) : cres :=
    match lazy_view refs text with
    | LOk r data =>
        match lazy_data_conv data with
        | DOk d => COk (set_data r d)
        | DErr _ => CErr 11
        end
    | LErr c => CErr c
    | LPanic c => CPanic c
    | LREof => CEof
    | LRBad => CBad
    end.

End FloatOracle.
