(* The BAM header block: writer (noodles-bam io/writer/header.rs) and reader
   (io/reader/header.rs, header/magic_number.rs, header/sam_header.rs,
   header/reference_sequences.rs, reference_sequences/reference_sequence.rs).  Definitions only.

   block = "BAM\1" l_text:u32 text[l_text] n_ref:u32 { l_name:u32 name[l_name] (NUL-terminated) l_ref:u32 }*

   The text is the SAM header text (NV.Sam.Header), but read with the BAM reader's own line
   discipline: sam_header::Reader delivers the l_text bytes up to the first NUL that stands at
   the start of a line (NUL padding), EVERY delivered line goes to Parser::parse_partial (there
   is no "first non-@ line ends the header" rule as in sam::io::Reader), LF and one CR before it
   are stripped.  Then the binary reference dictionary is read into an IndexMap (a repeated name
   replaces the earlier length) and reconciled with the @SQ lines of the text: taken over when
   the text has none, otherwise names and lengths must agree pairwise.
   Writers return None where the Rust returns Err(InvalidInput). *)
From Coq Require Import List NArith ZArith Bool.
From NV Require Import Base.Decimal Sam.Fields Sam.Record Sam.Header.
From NV Require Bam.Record Bam.Decode.
Import ListNotations.
Open Scope N_scope.

Notation res := Bam.Record.res.
Notation Ok := Bam.Record.Ok.
Notation Err := Bam.Record.Err.
Notation InvalidData := Bam.Record.InvalidData.
Notation UnexpectedEof := Bam.Record.UnexpectedEof.
Notation leW := Bam.Record.leW.
Notation rdW := Bam.Record.rdW.
Notation takeN := Bam.Record.takeN.
Notation firstnN := Bam.Record.firstnN.
Notation lenN := Bam.Record.lenN.
Notation skipN := Bam.Decode.skipN.

Definition MAGIC : bytes := [66; 65; 77; 1].
Definition I32_MAX : N := 2147483647.
Definition U32_MAXN : N := 4294967295.

Definition has_nul (s : bytes) : bool := existsb (N.eqb 0) s.

(* ------------------------------------------------------------------ writer *)

(* write_reference_sequence: CString::new rejects an interior NUL; l_name = len + 1 as u32;
   l_ref = i32::try_from(length) *)
Definition write_bam_ref (m : sq_map) : option bytes :=
  if has_nul (sq_name m) then None
  else if lenN (sq_name m) + 1 <=? U32_MAXN then
    if sq_len m <=? I32_MAX then
      Some (leW 4 (lenN (sq_name m) + 1) ++ sq_name m ++ 0 :: leW 4 (sq_len m))
    else None
  else None.

Definition write_bam_refs (sq : list sq_map) : option bytes :=
  if lenN sq <=? I32_MAX then option_map (@concat N) (write_all write_bam_ref sq) else None.

(* write_header = write_raw_header (magic, l_text as i32, text of sam::io::Writer) then
   write_reference_sequences *)
Definition write_bam_header (h : header) : option bytes :=
  match write_header h with
  | None => None
  | Some text =>
      if lenN text <=? I32_MAX then
        match write_bam_refs (h_sq h) with
        | Some rs => Some (MAGIC ++ leW 4 (lenN text) ++ text ++ leW 4 (lenN (h_sq h)) ++ rs)
        | None => None
        end
      else None
  end.

(* ------------------------------------------------------------------ reader *)

Definition rd4 (bs : bytes) : res (N * bytes) :=
  match rdW 4 bs with Some p => Ok p | None => Err UnexpectedEof end.

(* read_magic_number (read_exact) then magic_number::validate *)
Definition read_magic (bs : bytes) : res bytes :=
  match takeN 4 bs with
  | None => Err UnexpectedEof
  | Some (m, r) => if bytes_eqb m MAGIC then Ok r else Err InvalidData
  end.

(* sam_header::Reader::fill_buf: at the start of a line a NUL byte (or the end) is the end of the
   text; otherwise bytes are delivered up to and including the next LF *)
Fixpoint visible (bol : bool) (s : bytes) : bytes :=
  match s with
  | [] => []
  | c :: t => if bol && (c =? 0) then [] else c :: visible (c =? 10) t
  end.

(* read_sam_header: read_line (strip LF, then one CR) + Parser::parse_partial on every line *)
Fixpoint run_lines_bam (ls : list (bytes * bool)) (st : pstate) : option pstate :=
  match ls with
  | [] => Some st
  | (l, lf) :: r =>
      match parse_partial (if lf : bool then strip_last 13 l else l) st with
      | Some st' => run_lines_bam r st'
      | None => None
      end
  end.

Definition read_bam_text (text : bytes) : option header :=
  option_map snd (run_lines_bam (split_lf (visible true text)) init_pstate).

(* CStr::from_bytes_with_nul: the last byte is the only NUL *)
Definition cstr (c_name : bytes) : option bytes :=
  match Bam.Decode.split_last c_name with
  | Some (nm, z) => if (z =? 0) && negb (has_nul nm) then Some nm else None
  | None => None
  end.

(* read_reference_sequence: read_name (l_name, take(l_name).read_to_end, short -> UnexpectedEof,
   CStr) then read_length (u32, NonZero) *)
Definition read_bam_ref (bs : bytes) : res ((bytes * N) * bytes) :=
  match rd4 bs with
  | Err e => Err e
  | Ok (l_name, r) =>
      match takeN l_name r with
      | None => Err UnexpectedEof
      | Some (c_name, r2) =>
          match cstr c_name with
          | None => Err InvalidData
          | Some nm =>
              match rd4 r2 with
              | Err e => Err e
              | Ok (l_ref, r3) => if l_ref =? 0 then Err InvalidData else Ok ((nm, l_ref), r3)
              end
          end
      end
  end.

(* IndexMap::insert: an existing key keeps its position and gets the new value *)
Fixpoint ref_insert (nm : bytes) (l : N) (acc : list (bytes * N)) : list (bytes * N) :=
  match acc with
  | [] => [(nm, l)]
  | (n', l') :: t => if bytes_eqb n' nm then (n', l) :: t else (n', l') :: ref_insert nm l t
  end.

(* `for _ in 0..n_ref`; every iteration consumes at least 9 bytes or fails, so fuel
   S (length bs) is never exhausted (BamHeaderProofs.read_refs_fuel) *)
Fixpoint read_bam_refs (fuel : nat) (cnt : N) (bs : bytes) (acc : list (bytes * N))
  : res (list (bytes * N) * bytes) :=
  if cnt =? 0 then Ok (acc, bs)
  else match fuel with
       | O => Err UnexpectedEof
       | S f =>
           match read_bam_ref bs with
           | Err e => Err e
           | Ok ((nm, l), r) => read_bam_refs f (cnt - 1) r (ref_insert nm l acc)
           end
       end.

(* reference_sequences_eq: same count, names and lengths pairwise equal (other @SQ fields are
   not compared) *)
Fixpoint refs_eq (hs : list sq_map) (bs : list (bytes * N)) : bool :=
  match hs, bs with
  | [], [] => true
  | m :: hs', (n, l) :: bs' => bytes_eqb (sq_name m) n && (sq_len m =? l) && refs_eq hs' bs'
  | _, _ => false
  end.

Definition reconcile (h : header) (brefs : list (bytes * N)) : res header :=
  match h_sq h with
  | [] => Ok (mkHeader (h_hd h) (map (fun p => mkSq (fst p) (snd p) []) brefs) (h_rg h) (h_pg h) (h_co h))
  | _ => if refs_eq (h_sq h) brefs then Ok h else Err InvalidData
  end.

(* bam::io::Reader::read_header on a stream holding [bs]; also returns what is left of the
   stream (the records) *)
Definition read_bam_header (bs : bytes) : res (header * bytes) :=
  match read_magic bs with
  | Err e => Err e
  | Ok r =>
      match rd4 r with
      | Err e => Err e
      | Ok (l_text, r1) =>
          (* Take(l_text): a short stream just ends the text early *)
          match read_bam_text (firstnN l_text r1) with
          | None => Err InvalidData
          | Some h =>
              match rd4 (skipN l_text r1) with
              | Err e => Err e
              | Ok (n_ref, r3) =>
                  match read_bam_refs (S (length r3)) n_ref r3 [] with
                  | Err e => Err e
                  | Ok (brefs, r4) =>
                      match reconcile h brefs with
                      | Err e => Err e
                      | Ok h' => Ok (h', r4)
                      end
                  end
              end
          end
      end
  end.
