(* SAM header text: writer (noodles-sam io/writer/header.rs and below) and reader
   (io/reader/header.rs line splitting + header/parser.rs and below).  Definitions only.

   A header is the ordered content of sam::Header: optional @HD map (version + other fields),
   ordered @SQ / @RG / @PG maps (key + typed standard fields + ordered other fields), comments.
   Writers return None where the Rust returns Err; the reader returns None for any ParseError. *)
From Coq Require Import List NArith ZArith Bool.
From NV Require Import Base.Decimal Sam.Fields Sam.Record.
Import ListNotations.
Open Scope N_scope.

Definition tag := (N * N)%type.
Definition tagv := (tag * bytes)%type.

Definition tag_eqb (a b : tag) : bool := (fst a =? fst b) && (snd a =? snd b).

Record hd_map := mkHd { hd_major : N; hd_minor : N; hd_other : list tagv }.
Record sq_map := mkSq { sq_name : bytes; sq_len : N; sq_other : list tagv }.
Record id_map := mkId { im_id : bytes; im_other : list tagv }.   (* @RG and @PG *)

Record header := mkHeader {
  h_hd : option hd_map;
  h_sq : list sq_map;
  h_rg : list id_map;
  h_pg : list id_map;
  h_co : list bytes
}.

Definition empty_header : header := mkHeader None [] [] [] [].

(* ------------------------------------------------------------------ writer *)

(* value/map/tag.rs::is_valid and value/map.rs::is_valid_value *)
Definition value_valid (v : bytes) : bool :=
  match v with [] => false | _ => forallb printable v end.

Definition enc_field (f : tagv) : bytes := fst (fst f) :: snd (fst f) :: 58 :: snd f.

Definition write_other_field (f : tagv) : option bytes :=
  if tag_valid (fst f) && value_valid (snd f) then Some (enc_field f) else None.

Fixpoint write_others (l : list tagv) : option (list bytes) :=
  match l with
  | [] => Some []
  | f :: t =>
      match write_other_field f, write_others t with
      | Some x, Some xs => Some (x :: xs)
      | _, _ => None
      end
  end.

(* reference_sequence/name.rs::is_valid_name *)
Definition rname_char (b : N) : bool :=
  graphic b && negb (existsb (N.eqb b) [92; 44; 34; 96; 39; 40; 41; 91; 93; 123; 125; 60; 62]).
Definition rname_valid (n : bytes) : bool :=
  match n with
  | [] => false
  | b :: t => negb (b =? 42) && negb (b =? 61) && rname_char b && forallb rname_char t
  end.

Definition VN : tag := (86, 78).
Definition SN : tag := (83, 78).
Definition LN : tag := (76, 78).
Definition ID : tag := (73, 68).

(* one header line = '@' kind, then TAB-prefixed fields *)
Definition mk_line (k0 k1 : N) (fields : list bytes) : bytes :=
  64 :: k0 :: k1 :: concat (map (cons 9) fields).

Definition write_hd (m : hd_map) : option bytes :=
  match write_others (hd_other m) with
  | Some fs => Some (mk_line 72 68 (enc_field (VN, fmt_N (hd_major m) ++ 46 :: fmt_N (hd_minor m)) :: fs))
  | None => None
  end.

Definition write_sq (m : sq_map) : option bytes :=
  if rname_valid (sq_name m) then
    if sq_len m <=? 2147483647 then
      match write_others (sq_other m) with
      | Some fs => Some (mk_line 83 81 (enc_field (SN, sq_name m) :: enc_field (LN, fmt_N (sq_len m)) :: fs))
      | None => None
      end
    else None
  else None.

Definition write_idmap (k0 k1 : N) (m : id_map) : option bytes :=
  match write_other_field (ID, im_id m), write_others (im_other m) with
  | Some f, Some fs => Some (mk_line k0 k1 (f :: fs))
  | _, _ => None
  end.

(* the text of a comment line; since /repo 9bfd7d2 write_comment refuses (InvalidInput) a comment
   that contains a line feed or ends in a carriage return (co_valid), everything else is written
   verbatim *)
Definition write_co (c : bytes) : bytes := 64 :: 67 :: 79 :: 9 :: c.
Definition co_valid (c : bytes) : bool := negb (existsb (N.eqb 10) c) && negb (last c 0 =? 13).
Definition write_co_chk (c : bytes) : option bytes := if co_valid c then Some (write_co c) else None.

Fixpoint write_all {A} (w : A -> option bytes) (l : list A) : option (list bytes) :=
  match l with
  | [] => Some []
  | x :: t => match w x, write_all w t with Some a, Some b => Some (a :: b) | _, _ => None end
  end.

Definition write_header_lines (h : header) : option (list bytes) :=
  match (match h_hd h with None => Some [] | Some m => option_map (fun l => [l]) (write_hd m) end),
        write_all write_sq (h_sq h), write_all (write_idmap 82 71) (h_rg h),
        write_all (write_idmap 80 71) (h_pg h), write_all write_co_chk (h_co h) with
  | Some a, Some b, Some c, Some d, Some e => Some (a ++ b ++ c ++ d ++ e)
  | _, _, _, _, _ => None
  end.

Definition write_header (h : header) : option bytes :=
  option_map (fun ls => concat (map (fun l => l ++ [10]) ls)) (write_header_lines h).

(* ------------------------------------------------------------------ parser *)

(* split at the first [sep] *)
Fixpoint split_once (sep : N) (s : bytes) : option (bytes * bytes) :=
  match s with
  | [] => None
  | c :: t => if c =? sep then Some ([], t)
              else match split_once sep t with Some (a, b) => Some (c :: a, b) | None => None end
  end.

Definition U32_MAX : Z := 4294967295%Z.

Definition parse_version (v : bytes) : option (N * N) :=
  match split_once 46 v with
  | Some (a, b) =>
      match parse_int false 0 U32_MAX a, parse_int false 0 U32_MAX b with
      | Some x, Some y => Some (Z.to_N x, Z.to_N y)
      | _, _ => None
      end
  | None => None
  end.

(* reference_sequence/length.rs: parse_partial::<usize>, then the next byte must be TAB/end; non-zero *)
Definition parse_length (v : bytes) : option N :=
  match parse_partial_int false 0 USIZE_MAX v with
  | Some (n, []) => if (n =? 0)%Z then None else Some (Z.to_N n)
  | _ => None
  end.

(* the field loop shared by the four map parsers: consume TAB, two raw tag bytes (whatever they
   are -- a TAB can end up inside a tag), ':', then a non-empty value up to the next TAB *)
Fixpoint span_tab (s : bytes) : bytes * bytes :=
  match s with
  | [] => ([], [])
  | c :: t => if c =? 9 then ([], s) else let '(a, b) := span_tab t in (c :: a, b)
  end.

Fixpoint raw_fields (fuel : nat) (src : bytes) : option (list tagv) :=
  match src with
  | [] => Some []
  | _ =>
      match fuel with
      | O => None
      | S f =>
          match src with
          | d :: t0 :: t1 :: c :: r =>
              if (d =? 9) && (c =? 58) then
                let '(v, rest) := span_tab r in
                match v with
                | [] => None
                | _ => option_map (cons ((t0, t1), v)) (raw_fields f rest)
                end
              else None
          | _ => None
          end
      end
  end.

Fixpoint find_idx (t : tag) (l : list tag) (i : nat) : option nat :=
  match l with
  | [] => None
  | u :: r => if tag_eqb t u then Some i else find_idx t r (S i)
  end.

Fixpoint set_nth {A} (i : nat) (x : A) (l : list A) : list A :=
  match l, i with
  | [], _ => []
  | _ :: r, O => x :: r
  | y :: r, S j => y :: set_nth j x r
  end.

Fixpoint assoc_mem (t : tag) (l : list tagv) : bool :=
  match l with [] => false | (u, _) :: r => tag_eqb t u || assoc_mem t r end.

(* IndexMap::insert on an existing key keeps the position and replaces the value *)
Fixpoint assoc_replace (t : tag) (v : bytes) (l : list tagv) : list tagv :=
  match l with
  | [] => []
  | (u, w) :: r => if tag_eqb t u then (u, v) :: r else (u, w) :: assoc_replace t v r
  end.

Definition mstate := (list (option bytes) * list tagv)%type.

Definition is_some {A} (o : option A) : bool := match o with Some _ => true | None => false end.

(* one iteration of the `while !src.is_empty()` loop of parse_header / parse_reference_sequence /
   parse_read_group / parse_program; [stds] = the kind's standard tags, [vstd i v] = the typed
   parser of the i-th standard tag accepts v; allow_dup = Context::allow_duplicate_tags *)
Definition mstep (allow_dup : bool) (stds : list tag) (vstd : nat -> bytes -> bool)
           (st : mstate) (f : tagv) : option mstate :=
  let '(sv, others) := st in
  let '(t, v) := f in
  match find_idx t stds 0 with
  | Some i =>
      if vstd i v then
        if is_some (nth i sv None) && negb allow_dup then None
        else Some (set_nth i (Some v) sv, others)
      else None
  | None =>
      if assoc_mem t others then
        if allow_dup then Some (sv, assoc_replace t v others) else None
      else Some (sv, others ++ [(t, v)])
  end.

Fixpoint mfold (allow_dup : bool) (stds : list tag) (vstd : nat -> bytes -> bool)
         (fs : list tagv) (st : mstate) : option mstate :=
  match fs with
  | [] => Some st
  | tv :: r =>
      match mstep allow_dup stds vstd st tv with
      | Some st' => mfold allow_dup stds vstd r st'
      | None => None
      end
  end.

(* [body] = the text after the two kind letters *)
Definition parse_map (allow_dup : bool) (stds : list tag) (vstd : nat -> bytes -> bool) (body : bytes)
  : option mstate :=
  match raw_fields (length body) body with
  | Some fs => mfold allow_dup stds vstd fs (map (fun _ => None) stds, [])
  | None => None
  end.

Definition parse_hd (allow_dup : bool) (body : bytes) : option hd_map :=
  match parse_map allow_dup [VN] (fun _ v => is_some (parse_version v)) body with
  | Some ([Some v], others) =>
      match parse_version v with Some (a, b) => Some (mkHd a b others) | None => None end
  | _ => None
  end.

Definition parse_sq (allow_dup : bool) (body : bytes) : option sq_map :=
  match parse_map allow_dup [SN; LN]
          (fun i v => match i with 1%nat => is_some (parse_length v) | _ => true end) body with
  | Some ([Some n; Some l], others) =>
      match parse_length l with Some len => Some (mkSq n len others) | None => None end
  | _ => None
  end.

Definition parse_idmap (allow_dup : bool) (body : bytes) : option id_map :=
  match parse_map allow_dup [ID] (fun _ _ => true) body with
  | Some ([Some i], others) => Some (mkId i others)
  | _ => None
  end.

(* parser.rs::extract_version: only for a line starting "@HD\t"; the first "VN:" field decides *)
Fixpoint first_vn (fs : list bytes) : option (N * N) :=
  match fs with
  | [] => None
  | f :: r => match f with
              | 86 :: 78 :: 58 :: v => parse_version v
              | _ => first_vn r
              end
  end.

Definition extract_version (line : bytes) : option (N * N) :=
  match line with
  | 64 :: 72 :: 68 :: 9 :: raw => first_vn (split_tab raw)
  | _ => None
  end.

(* Version < 1.6 (derived lexicographic order) *)
Definition version_allows_dup (v : N * N) : bool :=
  (fst v <? 1) || ((fst v =? 1) && (snd v <? 6)).

Definition header_is_empty (h : header) : bool :=
  match h_hd h, h_sq h, h_rg h, h_pg h, h_co h with
  | None, [], [], [], [] => true
  | _, _, _, _, _ => false
  end.

Definition pstate := (bool * header)%type.   (* Context::allow_duplicate_tags, header so far *)

Definition init_pstate : pstate := (false, empty_header).   (* default version 1.6 *)

(* Parser::parse_partial *)
Definition parse_partial (line : bytes) (st : pstate) : option pstate :=
  let '(c0, h) := st in
  let c := if header_is_empty h
           then match extract_version line with Some v => version_allows_dup v | None => c0 end
           else c0 in
  match line with
  | 64 :: k0 :: k1 :: body =>
      if (k0 =? 72) && (k1 =? 68) then
        match parse_hd c body with
        | Some m => if header_is_empty h
                    then Some (c, mkHeader (Some m) (h_sq h) (h_rg h) (h_pg h) (h_co h)) else None
        | None => None
        end
      else if (k0 =? 83) && (k1 =? 81) then
        match parse_sq c body with
        | Some m => if existsb (fun x => bytes_eqb (sq_name x) (sq_name m)) (h_sq h) then None
                    else Some (c, mkHeader (h_hd h) (h_sq h ++ [m]) (h_rg h) (h_pg h) (h_co h))
        | None => None
        end
      else if (k0 =? 82) && (k1 =? 71) then
        match parse_idmap c body with
        | Some m => if existsb (fun x => bytes_eqb (im_id x) (im_id m)) (h_rg h) then None
                    else Some (c, mkHeader (h_hd h) (h_sq h) (h_rg h ++ [m]) (h_pg h) (h_co h))
        | None => None
        end
      else if (k0 =? 80) && (k1 =? 71) then
        match parse_idmap c body with
        | Some m => if existsb (fun x => bytes_eqb (im_id x) (im_id m)) (h_pg h) then None
                    else Some (c, mkHeader (h_hd h) (h_sq h) (h_rg h) (h_pg h ++ [m]) (h_co h))
        | None => None
        end
      else if (k0 =? 67) && (k1 =? 79) then
        match body with
        | 9 :: cm => Some (c, mkHeader (h_hd h) (h_sq h) (h_rg h) (h_pg h) (h_co h ++ [cm]))
        | _ => None
        end
      else None
  | _ => None
  end.

(* io/reader/header.rs: lines are cut at LF; a line that does not start with '@' ends the header *)
Fixpoint split_lf (s : bytes) : list (bytes * bool) :=
  match s with
  | [] => []
  | c :: t =>
      if c =? 10 then ([], true) :: split_lf t
      else match split_lf t with
           | (l, b) :: r => (c :: l, b) :: r
           | [] => [([c], false)]
           end
  end.

Fixpoint run_lines (ls : list (bytes * bool)) (st : pstate) : option pstate :=
  match ls with
  | [] => Some st
  | (l, lf) :: r =>
      match l with
      | 64 :: _ =>
          match parse_partial (if lf : bool then strip_last 13 l else l) st with
          | Some st' => run_lines r st'
          | None => None
          end
      | _ => Some st
      end
  end.

(* sam::io::Reader::read_header on a buffer holding [text] *)
Definition read_header (text : bytes) : option header :=
  option_map snd (run_lines (split_lf text) init_pstate).
