(* Header text round trip for Sam/Header.v. *)
From Coq Require Import List NArith ZArith Bool Lia.
From Coq Require Import ZifyBool ZifyNat ZifyN.
From NV Require Import Base.Decimal Base.DecimalProofs Sam.Fields Sam.FieldsProofs Sam.Record Sam.RecordProofs Sam.Header.
Import ListNotations.
Open Scope N_scope.

Lemma tag_eqb_eq a b : tag_eqb a b = true <-> a = b.
Proof.
  destruct a as [a0 a1], b as [b0 b1]. unfold tag_eqb. cbn [fst snd]. split.
  - intro H. f_equal; lia.
  - intro H. inversion H; subst. lia.
Qed.

Lemma tag_eqb_refl a : tag_eqb a a = true.
Proof. now apply tag_eqb_eq. Qed.

Lemma tag_eqb_neq a b : a <> b -> tag_eqb a b = false.
Proof. intro H. destruct (tag_eqb a b) eqn:E; [|reflexivity]. apply tag_eqb_eq in E. contradiction. Qed.

(* ---- one field *)
Definition field_ok (f : tagv) : Prop := PR (snd f) /\ snd f <> [].

Lemma value_valid_ok v : value_valid v = true -> PR v /\ v <> [].
Proof.
  destruct v as [|c v]; [discriminate|]. unfold value_valid. intro H. split; [|discriminate].
  apply Forall_forall. now apply forallb_forall.
Qed.

Lemma span_tab_app v rest : PR v -> (rest = [] \/ exists r, rest = 9 :: r) ->
  span_tab (v ++ rest) = (v, rest).
Proof.
  intros Hv Hr. induction Hv as [|c v Hc _ IH]; cbn [app span_tab].
  - destruct Hr as [->|[r ->]]; reflexivity.
  - apply PR_no in Hc. assert (E : (c =? 9) = false) by lia. now rewrite E, IH.
Qed.

Definition enc_all (fs : list tagv) : bytes := concat (map (fun f => 9 :: enc_field f) fs).

Lemma enc_all_shape fs : enc_all fs = [] \/ exists r, enc_all fs = 9 :: r.
Proof. destruct fs; [now left|right]. cbn. eauto. Qed.

Lemma raw_fields_write fs : Forall field_ok fs -> forall fuel, (length fs <= fuel)%nat ->
  raw_fields fuel (enc_all fs) = Some fs.
Proof.
  induction 1 as [|[[t0 t1] v] fs [Hp Hn] _ IH]; intros fuel Hf.
  - destruct fuel; reflexivity.
  - destruct fuel as [|f]; [cbn in Hf; lia|]. cbn [snd] in *.
    change (enc_all (((t0, t1), v) :: fs)) with (9 :: t0 :: t1 :: 58 :: v ++ enc_all fs).
    cbn [raw_fields N.eqb Pos.eqb andb].
    rewrite span_tab_app by (auto; apply enc_all_shape).
    destruct v as [|c v]; [contradiction|]. rewrite IH by (cbn in Hf; lia). reflexivity.
Qed.

Lemma enc_all_length fs : (length fs <= length (enc_all fs))%nat.
Proof.
  induction fs as [|f fs IH]; [cbn; lia|].
  change (enc_all (f :: fs)) with ((9 :: enc_field f) ++ enc_all fs). rewrite app_length. cbn [length]. lia.
Qed.

Lemma enc_all_map fs : concat (map (cons 9) (map enc_field fs)) = enc_all fs.
Proof. unfold enc_all. now rewrite map_map. Qed.

Lemma parse_map_write c stds vstd fs : Forall field_ok fs ->
  parse_map c stds vstd (enc_all fs) = mfold c stds vstd fs (map (fun _ => None) stds, []).
Proof.
  intro H. unfold parse_map. rewrite raw_fields_write; [reflexivity|exact H|apply enc_all_length].
Qed.

(* ---- other fields *)
Lemma write_others_spec l xs : write_others l = Some xs ->
  xs = map enc_field l /\ Forall field_ok l /\ Forall (fun f => tag_valid (fst f) = true) l.
Proof.
  revert xs. induction l as [|f l IH]; intros xs H; cbn [write_others] in H.
  - inversion H. repeat split; constructor.
  - unfold write_other_field in H.
    destruct (tag_valid (fst f) && value_valid (snd f)) eqn:V; [|discriminate].
    destruct (write_others l) as [ys|]; [|discriminate]. inversion H; subst.
    destruct (IH ys eq_refl) as (A & B & C). apply andb_prop in V as [V1 V2].
    repeat split; [now rewrite A| |]; constructor; auto. now apply value_valid_ok.
Qed.

Lemma assoc_mem_app t a b : assoc_mem t (a ++ b) = assoc_mem t a || assoc_mem t b.
Proof. induction a as [|[u w] a IH]; cbn; [reflexivity|]. now rewrite IH, orb_assoc. Qed.

Lemma mfold_others c stds vstd others : forall sv acc,
  Forall (fun f => find_idx (fst f) stds 0 = None) others ->
  NoDup (map fst others) ->
  (forall f, In f others -> assoc_mem (fst f) acc = false) ->
  mfold c stds vstd others (sv, acc) = Some (sv, acc ++ others).
Proof.
  induction others as [|[t v] others IH]; intros sv acc HS ND FR.
  - cbn. now rewrite app_nil_r.
  - inversion HS; subst. inversion ND; subst. cbn [fst snd map] in *.
    cbn [mfold mstep]. rewrite H1. pose proof (FR (t, v) (or_introl eq_refl)) as FR0. cbn [fst] in FR0. rewrite FR0.
    rewrite IH; auto.
    + now rewrite <- app_assoc.
    + intros f Hf. rewrite assoc_mem_app. rewrite (FR f (or_intror Hf)). cbn [assoc_mem].
      rewrite tag_eqb_neq; [reflexivity|]. intro E. apply H3. rewrite <- E. now apply in_map.
Qed.

(* ---- version *)
Lemma split_once_app a b : all_digits a -> split_once 46 (a ++ 46 :: b) = Some (a, b).
Proof.
  induction 1 as [|c a Hc _ IH]; cbn [app split_once].
  - reflexivity.
  - apply is_digit_iff in Hc. assert (E : (c =? 46) = false) by lia. now rewrite E, IH.
Qed.

Lemma parse_version_write a b : (Z.of_N a <= U32_MAX)%Z -> (Z.of_N b <= U32_MAX)%Z ->
  parse_version (fmt_N a ++ 46 :: fmt_N b) = Some (a, b).
Proof.
  intros Ha Hb. unfold parse_version. rewrite split_once_app by apply fmt_N_digits.
  rewrite <- (fmt_dec_of_N a), <- (fmt_dec_of_N b).
  rewrite !parse_int_fmt_unsigned by lia. now rewrite !Znat.N2Z.id.
Qed.

Lemma version_PR a b : PR (fmt_N a ++ 46 :: fmt_N b).
Proof. apply PR_app; [apply fmt_N_PR|]. constructor; [reflexivity|apply fmt_N_PR]. Qed.

Lemma parse_length_write n : 1 <= n -> (Z.of_N n <= USIZE_MAX)%Z -> parse_length (fmt_N n) = Some n.
Proof.
  intros H1 H2. unfold parse_length. rewrite <- (app_nil_r (fmt_N n)).
  rewrite (parse_partial_fmt_N false 0 USIZE_MAX n []); [|exact I|lia].
  assert (E : (Z.of_N n =? 0)%Z = false) by lia. rewrite E. now rewrite Znat.N2Z.id.
Qed.

(* ---- the four map kinds *)
Definition others_ok (stds : list tag) (l : list tagv) : Prop :=
  NoDup (map fst l) /\ Forall (fun f => find_idx (fst f) stds 0 = None) l.

Definition wf_hd (m : hd_map) : Prop :=
  (Z.of_N (hd_major m) <= U32_MAX)%Z /\ (Z.of_N (hd_minor m) <= U32_MAX)%Z /\ others_ok [VN] (hd_other m).
Definition wf_sq (m : sq_map) : Prop := 1 <= sq_len m /\ others_ok [SN; LN] (sq_other m).
Definition wf_id (m : id_map) : Prop := others_ok [ID] (im_other m).

Lemma rname_valid_PR n : rname_valid n = true -> PR n /\ n <> [].
Proof.
  destruct n as [|b t]; [discriminate|]. unfold rname_valid. intro H.
  apply andb_prop in H as [H H4]. apply andb_prop in H as [H H3]. split; [|discriminate].
  assert (G : forall c, rname_char c = true -> printable c = true).
  { intros c Hc. unfold rname_char in Hc. apply andb_prop in Hc as [Hc _]. unfold graphic, printable in *. lia. }
  constructor; [now apply G|]. apply Forall_forall. intros c Hc. apply G.
  rewrite forallb_forall in H4. now apply H4.
Qed.

Lemma mk_line_body k0 k1 fs : mk_line k0 k1 (map enc_field fs) = 64 :: k0 :: k1 :: enc_all fs.
Proof. unfold mk_line. now rewrite enc_all_map. Qed.

Definition tag_ok (f : tagv) : Prop := tag_valid (fst f) = true.

Lemma hd_rt m l : wf_hd m -> write_hd m = Some l ->
  exists fs, l = 64 :: 72 :: 68 :: enc_all fs /\ Forall field_ok fs /\ Forall tag_ok fs
             /\ forall c, parse_hd c (enc_all fs) = Some m.
Proof.
  intros (Ha & Hb & ND & NS) H. unfold write_hd in H.
  destruct (write_others (hd_other m)) as [xs|] eqn:E; [|discriminate].
  destruct (write_others_spec _ _ E) as (-> & FO & FT). inversion H; subst l. clear H.
  set (v := fmt_N (hd_major m) ++ 46 :: fmt_N (hd_minor m)).
  exists ((VN, v) :: hd_other m).
  assert (FA : Forall field_ok ((VN, v) :: hd_other m)).
  { constructor; [|exact FO]. split; [apply version_PR|]. unfold v. cbn [snd].
    destruct (fmt_N_head (hd_major m)) as (c0 & t & E0 & _). rewrite E0. discriminate. }
  split; [|split; [exact FA|split; [constructor; [reflexivity|exact FT]|intro c]]].
  - change (enc_field (VN, v) :: map enc_field (hd_other m)) with (map enc_field ((VN, v) :: hd_other m)).
    apply mk_line_body.
  - unfold parse_hd. rewrite parse_map_write by exact FA.
    assert (PV : parse_version v = Some (hd_major m, hd_minor m)) by now apply parse_version_write.
    cbn [mfold mstep map find_idx VN tag_eqb fst snd N.eqb Pos.eqb andb nth is_some set_nth].
    rewrite PV. cbn [is_some andb].
    rewrite (mfold_others c [VN] _ (hd_other m) [Some v] [] NS ND (fun _ _ => eq_refl)).
    cbn [app]. rewrite PV. destruct m; reflexivity.
Qed.

Lemma sq_rt m l : wf_sq m -> write_sq m = Some l ->
  exists fs, l = 64 :: 83 :: 81 :: enc_all fs /\ Forall field_ok fs /\ Forall tag_ok fs
             /\ forall c, parse_sq c (enc_all fs) = Some m.
Proof.
  intros (H1 & ND & NS) H. unfold write_sq in H.
  destruct (rname_valid (sq_name m)) eqn:RV; [|discriminate].
  destruct (sq_len m <=? 2147483647) eqn:LE; [|discriminate].
  destruct (write_others (sq_other m)) as [xs|] eqn:E; [|discriminate].
  destruct (write_others_spec _ _ E) as (-> & FO & FT). inversion H; subst l. clear H.
  destruct (rname_valid_PR _ RV) as [PN NN].
  exists ((SN, sq_name m) :: (LN, fmt_N (sq_len m)) :: sq_other m).
  assert (FA : Forall field_ok ((SN, sq_name m) :: (LN, fmt_N (sq_len m)) :: sq_other m)).
  { constructor; [split; assumption|]. constructor; [|exact FO]. split; [apply fmt_N_PR|apply fmt_N_nonempty]. }
  split; [|split; [exact FA|split; [constructor; [reflexivity|constructor; [reflexivity|exact FT]]|intro c]]].
  - change (enc_field (SN, sq_name m) :: enc_field (LN, fmt_N (sq_len m)) :: map enc_field (sq_other m))
      with (map enc_field ((SN, sq_name m) :: (LN, fmt_N (sq_len m)) :: sq_other m)).
    apply mk_line_body.
  - unfold parse_sq. rewrite parse_map_write by exact FA.
    assert (PL : parse_length (fmt_N (sq_len m)) = Some (sq_len m)).
    { apply parse_length_write; [exact H1|unfold USIZE_MAX; lia]. }
    cbn [mfold mstep map find_idx SN LN tag_eqb fst snd N.eqb Pos.eqb andb nth is_some set_nth].
    rewrite PL. cbn [is_some andb nth set_nth].
    rewrite (mfold_others c [SN; LN] _ (sq_other m) [Some (sq_name m); Some (fmt_N (sq_len m))] [] NS ND (fun _ _ => eq_refl)).
    cbn [app]. rewrite PL. destruct m; reflexivity.
Qed.

Lemma id_rt k0 k1 m l : wf_id m -> write_idmap k0 k1 m = Some l ->
  exists fs, l = 64 :: k0 :: k1 :: enc_all fs /\ Forall field_ok fs /\ Forall tag_ok fs
             /\ forall c, parse_idmap c (enc_all fs) = Some m.
Proof.
  intros (ND & NS) H. unfold write_idmap in H.
  destruct (write_other_field (ID, im_id m)) as [f|] eqn:EF; [|discriminate].
  destruct (write_others (im_other m)) as [xs|] eqn:E; [|discriminate].
  destruct (write_others_spec _ _ E) as (-> & FO & FT). inversion H; subst l. clear H.
  unfold write_other_field in EF. cbn [fst snd] in EF.
  destruct (tag_valid ID && value_valid (im_id m)) eqn:V; [|discriminate]. inversion EF; subst f.
  apply andb_prop in V as [_ V]. apply value_valid_ok in V.
  exists ((ID, im_id m) :: im_other m).
  assert (FA : Forall field_ok ((ID, im_id m) :: im_other m)) by (constructor; [exact V|exact FO]).
  split; [|split; [exact FA|split; [constructor; [reflexivity|exact FT]|intro c]]].
  - change (enc_field (ID, im_id m) :: map enc_field (im_other m)) with (map enc_field ((ID, im_id m) :: im_other m)).
    apply mk_line_body.
  - unfold parse_idmap. rewrite parse_map_write by exact FA.
    cbn [mfold mstep map find_idx ID tag_eqb fst snd N.eqb Pos.eqb andb nth is_some set_nth].
    rewrite (mfold_others c [ID] _ (im_other m) [Some (im_id m)] [] NS ND (fun _ _ => eq_refl)).
    cbn [app]. destruct m; reflexivity.
Qed.

(* ---- lines *)
Definition line_ok (l : bytes) : Prop :=
  (exists r, l = 64 :: r) /\ Forall (fun c => c <> 10) l /\ strip_last 13 l = l.

Lemma LN_line_ok r : RecordProofs.LN (64 :: r) -> line_ok (64 :: r).
Proof.
  intro H. split; [eauto|]. split; [|now apply strip_last_id].
  unfold RecordProofs.LN in H. eapply Forall_impl; [|exact H]. intros c [Hc _]. exact Hc.
Qed.

Lemma enc_all_LN fs : Forall field_ok fs -> Forall tag_ok fs -> RecordProofs.LN (enc_all fs).
Proof.
  induction 1 as [|[[t0 t1] v] fs [Hp _] _ IH]; intro HT; [constructor|]. inversion HT; subst.
  change (enc_all (((t0, t1), v) :: fs)) with (9 :: t0 :: t1 :: 58 :: v ++ enc_all fs).
  unfold tag_ok, tag_valid, is_alpha, is_alnum, is_alpha, is_digit in H1. cbn [fst snd] in *.
  repeat (constructor; [lia|]). apply Forall_app. split; [|now apply IH].
  eapply Forall_impl; [|exact Hp]. intros c Hc. apply PR_no in Hc. tauto.
Qed.

Lemma map_line_ok k0 k1 fs : k0 <> 10 -> k0 <> 13 -> k1 <> 10 -> k1 <> 13 ->
  Forall field_ok fs -> Forall tag_ok fs -> line_ok (64 :: k0 :: k1 :: enc_all fs).
Proof.
  intros. apply LN_line_ok. repeat (constructor; [lia|]). now apply enc_all_LN.
Qed.

Lemma split_lf_app l rest : Forall (fun c => c <> 10) l ->
  split_lf (l ++ 10 :: rest) = (l, true) :: split_lf rest.
Proof.
  induction 1 as [|c l Hc _ IH]; cbn [app split_lf]; [reflexivity|].
  assert (E : (c =? 10) = false) by lia. now rewrite E, IH.
Qed.

Lemma split_lf_lines ls : Forall line_ok ls ->
  split_lf (concat (map (fun l => l ++ [10]) ls)) = map (fun l => (l, true)) ls.
Proof.
  induction 1 as [|l ls (_ & H10 & _) _ IH]; [reflexivity|].
  cbn [map concat]. rewrite <- app_assoc. cbn [app]. rewrite split_lf_app by exact H10. now rewrite IH.
Qed.

Lemma run_lines_step l rest st : line_ok l ->
  run_lines ((l, true) :: rest) st =
    match parse_partial l st with Some st' => run_lines rest st' | None => None end.
Proof. intros ((r & ->) & _ & S). cbn [run_lines]. now rewrite S. Qed.

(* ---- phases *)
Fixpoint chain_ok {A} (ok : A -> header -> Prop) (upd : header -> A -> header) (ms : list A) (h : header) : Prop :=
  match ms with
  | [] => True
  | m :: r => ok m h /\ chain_ok ok upd r (upd h m)
  end.

Lemma phase {A} (w : A -> option bytes) (ok : A -> header -> Prop) (upd : header -> A -> header) :
  (forall c h m l, w m = Some l -> ok m h ->
     line_ok l /\ exists c', parse_partial l (c, h) = Some (c', upd h m)) ->
  forall ms ls, write_all w ms = Some ls -> forall c h rest, chain_ok ok upd ms h ->
    Forall line_ok ls /\
    exists c', run_lines (map (fun l => (l, true)) ls ++ rest) (c, h) = run_lines rest (c', fold_left upd ms h).
Proof.
  intros HW. induction ms as [|m ms IH]; intros ls H c h rest CO; cbn [write_all] in H.
  - inversion H; subst. split; [constructor|]. exists c. reflexivity.
  - destruct (w m) as [l|] eqn:E; [|discriminate]. destruct (write_all w ms) as [ls'|] eqn:E2; [|discriminate].
    inversion H; subst. destruct CO as [O1 O2].
    destruct (HW c h m l E O1) as (LO & c1 & P1).
    destruct (IH ls' eq_refl c1 (upd h m) rest O2) as (LS & c2 & P2).
    split; [now constructor|]. exists c2.
    cbn [map app]. rewrite run_lines_step by exact LO. rewrite P1. exact P2.
Qed.

Lemma existsb_names {A} (key : A -> bytes) (k : bytes) (l : list A) :
  ~ In k (map key l) -> existsb (fun x => bytes_eqb (key x) k) l = false.
Proof.
  induction l as [|x l IH]; intro H; [reflexivity|]. cbn [existsb map] in *.
  destruct (bytes_eqb (key x) k) eqn:E.
  - apply bytes_eqb_eq in E. exfalso. apply H. now left.
  - cbn. apply IH. intro HI. apply H. now right.
Qed.

Definition upd_sq (h : header) (m : sq_map) := mkHeader (h_hd h) (h_sq h ++ [m]) (h_rg h) (h_pg h) (h_co h).
Definition upd_rg (h : header) (m : id_map) := mkHeader (h_hd h) (h_sq h) (h_rg h ++ [m]) (h_pg h) (h_co h).
Definition upd_pg (h : header) (m : id_map) := mkHeader (h_hd h) (h_sq h) (h_rg h) (h_pg h ++ [m]) (h_co h).
Definition upd_co (h : header) (c : bytes) := mkHeader (h_hd h) (h_sq h) (h_rg h) (h_pg h) (h_co h ++ [c]).

Definition ok_sq (m : sq_map) (h : header) := wf_sq m /\ ~ In (sq_name m) (map sq_name (h_sq h)).
Definition ok_rg (m : id_map) (h : header) := wf_id m /\ ~ In (im_id m) (map im_id (h_rg h)).
Definition ok_pg (m : id_map) (h : header) := wf_id m /\ ~ In (im_id m) (map im_id (h_pg h)).

Lemma pp_hd c m l : wf_hd m -> write_hd m = Some l ->
  line_ok l /\ exists c', parse_partial l (c, empty_header) = Some (c', mkHeader (Some m) [] [] [] []).
Proof.
  intros W H. destruct (hd_rt m l W H) as (fs & -> & FO & FT & HP).
  split; [apply map_line_ok; auto; lia|].
  unfold parse_partial. cbn [header_is_empty empty_header h_hd h_sq h_rg h_pg h_co N.eqb Pos.eqb andb].
  rewrite HP. eexists. reflexivity.
Qed.

Lemma pp_sq c h m l : write_sq m = Some l -> ok_sq m h ->
  line_ok l /\ exists c', parse_partial l (c, h) = Some (c', upd_sq h m).
Proof.
  intros H [W NI]. destruct (sq_rt m l W H) as (fs & -> & FO & FT & HP).
  split; [apply map_line_ok; auto; lia|].
  unfold parse_partial. cbn [N.eqb Pos.eqb andb]. rewrite HP.
  rewrite (existsb_names sq_name _ _ NI). eexists. reflexivity.
Qed.

Lemma pp_rg c h m l : write_idmap 82 71 m = Some l -> ok_rg m h ->
  line_ok l /\ exists c', parse_partial l (c, h) = Some (c', upd_rg h m).
Proof.
  intros H [W NI]. destruct (id_rt 82 71 m l W H) as (fs & -> & FO & FT & HP).
  split; [apply map_line_ok; auto; lia|].
  unfold parse_partial. cbn [N.eqb Pos.eqb andb]. rewrite HP.
  rewrite (existsb_names im_id _ _ NI). eexists. reflexivity.
Qed.

Lemma pp_pg c h m l : write_idmap 80 71 m = Some l -> ok_pg m h ->
  line_ok l /\ exists c', parse_partial l (c, h) = Some (c', upd_pg h m).
Proof.
  intros H [W NI]. destruct (id_rt 80 71 m l W H) as (fs & -> & FO & FT & HP).
  split; [apply map_line_ok; auto; lia|].
  unfold parse_partial. cbn [N.eqb Pos.eqb andb]. rewrite HP.
  rewrite (existsb_names im_id _ _ NI). eexists. reflexivity.
Qed.

(* comments: co_ok is what the writer checks since /repo 9bfd7d2 (co_valid); it stays a conjunct
   of wf_header (older statements use it) and follows from write_header succeeding
   (write_header_co_ok below) *)
Definition co_ok (c : bytes) : Prop := Forall (fun x => x <> 10) c /\ last c 0 <> 13.

Lemma co_valid_ok c : co_valid c = true <-> co_ok c.
Proof.
  unfold co_valid, co_ok. rewrite andb_true_iff, !negb_true_iff. split.
  - intros [A B]. split; [|intro E; rewrite E in B; discriminate].
    apply Forall_forall. intros x Hx E. subst x.
    assert (T : existsb (N.eqb 10) c = true) by (apply existsb_exists; exists 10; split; [exact Hx|reflexivity]).
    rewrite T in A. discriminate.
  - intros [A B]. split.
    + destruct (existsb (N.eqb 10) c) eqn:E; [|reflexivity].
      apply existsb_exists in E as (x & Hx & Ex). apply N.eqb_eq in Ex. subst x.
      rewrite Forall_forall in A. exfalso. exact (A 10 Hx eq_refl).
    + apply N.eqb_neq. exact B.
Qed.

Lemma write_co_chk_all l : forall le, write_all write_co_chk l = Some le ->
  le = map write_co l /\ Forall co_ok l.
Proof.
  induction l as [|c l IH]; intros le H; cbn [write_all] in H.
  - injection H as H. subst le. split; constructor.
  - unfold write_co_chk at 1 in H. destruct (co_valid c) eqn:V; [|discriminate].
    destruct (write_all write_co_chk l) as [b|] eqn:E; [|discriminate].
    injection H as H. subst le. destruct (IH b eq_refl) as [E1 E2]. subst b.
    split; [reflexivity|]. constructor; [apply co_valid_ok, V|exact E2].
Qed.

Lemma write_co_chk_ok l : Forall co_ok l -> write_all write_co_chk l = Some (map write_co l).
Proof.
  induction 1 as [|c l Hc _ IH]; [reflexivity|]. cbn [write_all map].
  unfold write_co_chk at 1. apply co_valid_ok in Hc. rewrite Hc, IH. reflexivity.
Qed.

Lemma strip_last_last l : last l 0 <> 13 -> strip_last 13 l = l.
Proof.
  intro H. unfold strip_last. destruct (rev l) as [|x t] eqn:E; [reflexivity|].
  assert (L : l = rev t ++ [x]) by (rewrite <- (rev_involutive l), E; reflexivity).
  rewrite L, last_last in H. assert (E2 : (x =? 13) = false) by lia. now rewrite E2.
Qed.

Lemma last_cons_ne {A} (a : A) l d : l <> [] -> last (a :: l) d = last l d.
Proof. destruct l; [contradiction|reflexivity]. Qed.

Lemma co_line_ok c : co_ok c -> line_ok (write_co c).
Proof.
  intros [H10 HL]. unfold write_co. split; [eauto|]. split.
  - repeat (constructor; [lia|]). exact H10.
  - apply strip_last_last. destruct c as [|x c]; [cbn; lia|].
    rewrite !last_cons_ne by discriminate. exact HL.
Qed.

Lemma phase_co cs : Forall co_ok cs -> forall c h rest,
  exists c', run_lines (map (fun l => (l, true)) (map write_co cs) ++ rest) (c, h)
             = run_lines rest (c', fold_left upd_co cs h).
Proof.
  induction 1 as [|x cs Hx _ IH]; intros c h rest.
  - exists c. reflexivity.
  - cbn [map app]. rewrite run_lines_step by now apply co_line_ok.
    assert (P : exists c1, parse_partial (write_co x) (c, h) = Some (c1, upd_co h x)).
    { unfold parse_partial, write_co. cbn [N.eqb Pos.eqb andb]. eexists. reflexivity. }
    destruct P as (c1 & P). rewrite P. cbn [fold_left]. apply IH.
Qed.

(* chain conditions from key uniqueness *)
Lemma chain_keys {A} (key : A -> bytes) (wf : A -> Prop) (get : header -> list A) (upd : header -> A -> header) :
  (forall h m, map key (get (upd h m)) = map key (get h) ++ [key m]) ->
  forall ms h, Forall wf ms -> NoDup (map key (get h) ++ map key ms) ->
    chain_ok (fun m h => wf m /\ ~ In (key m) (map key (get h))) upd ms h.
Proof.
  intros HU. induction ms as [|m ms IH]; intros h W ND; [exact I|].
  inversion W; subst. cbn [chain_ok map] in *. split.
  - split; [assumption|]. apply NoDup_remove_2 in ND. intro HI. apply ND. apply in_or_app. now left.
  - apply IH; [assumption|]. rewrite HU, <- app_assoc. exact ND.
Qed.

Lemma fold_sq ms : forall h, fold_left upd_sq ms h = mkHeader (h_hd h) (h_sq h ++ ms) (h_rg h) (h_pg h) (h_co h).
Proof.
  induction ms as [|m ms IH]; intro h; cbn [fold_left]; [rewrite app_nil_r; now destruct h|].
  rewrite IH. unfold upd_sq. cbn. now rewrite <- app_assoc.
Qed.
Lemma fold_rg ms : forall h, fold_left upd_rg ms h = mkHeader (h_hd h) (h_sq h) (h_rg h ++ ms) (h_pg h) (h_co h).
Proof.
  induction ms as [|m ms IH]; intro h; cbn [fold_left]; [rewrite app_nil_r; now destruct h|].
  rewrite IH. unfold upd_rg. cbn. now rewrite <- app_assoc.
Qed.
Lemma fold_pg ms : forall h, fold_left upd_pg ms h = mkHeader (h_hd h) (h_sq h) (h_rg h) (h_pg h ++ ms) (h_co h).
Proof.
  induction ms as [|m ms IH]; intro h; cbn [fold_left]; [rewrite app_nil_r; now destruct h|].
  rewrite IH. unfold upd_pg. cbn. now rewrite <- app_assoc.
Qed.
Lemma fold_co ms : forall h, fold_left upd_co ms h = mkHeader (h_hd h) (h_sq h) (h_rg h) (h_pg h) (h_co h ++ ms).
Proof.
  induction ms as [|m ms IH]; intro h; cbn [fold_left]; [rewrite app_nil_r; now destruct h|].
  rewrite IH. unfold upd_co. cbn. now rewrite <- app_assoc.
Qed.

(* ---- the header *)
Definition wf_header (h : header) : Prop :=
  match h_hd h with Some m => wf_hd m | None => True end
  /\ Forall wf_sq (h_sq h) /\ NoDup (map sq_name (h_sq h))
  /\ Forall wf_id (h_rg h) /\ NoDup (map im_id (h_rg h))
  /\ Forall wf_id (h_pg h) /\ NoDup (map im_id (h_pg h))
  /\ Forall co_ok (h_co h).

Theorem header_roundtrip h t : wf_header h -> write_header h = Some t -> read_header t = Some h.
Proof.
  intros (WH & WS & NS & WR & NR & WP & NP & WC) H.
  unfold write_header, write_header_lines in H.
  destruct (match h_hd h with None => Some [] | Some m => option_map (fun l => [l]) (write_hd m) end) as [la|] eqn:EA; [|discriminate].
  destruct (write_all write_sq (h_sq h)) as [lb|] eqn:EB; [|discriminate].
  destruct (write_all (write_idmap 82 71) (h_rg h)) as [lc|] eqn:EC; [|discriminate].
  destruct (write_all (write_idmap 80 71) (h_pg h)) as [ld|] eqn:ED; [|discriminate].
  destruct (write_all write_co_chk (h_co h)) as [le|] eqn:EE; [|discriminate].
  destruct (write_co_chk_all _ _ EE) as [EE' _]. subst le.
  cbn [option_map] in H. apply Some_inj in H. subst t.
  (* the @HD phase *)
  assert (PA : Forall line_ok la /\ forall rest, exists c1,
             run_lines (map (fun l => (l, true)) la ++ rest) init_pstate
             = run_lines rest (c1, mkHeader (h_hd h) [] [] [] [])).
  { destruct (h_hd h) as [m|].
    - destruct (write_hd m) as [l|] eqn:E; [|discriminate]. cbn in EA. apply Some_inj in EA. subst la.
      destruct (pp_hd false m l WH E) as (LO & c1 & P). split; [now constructor|].
      intro rest. exists c1. cbn [map app]. rewrite run_lines_step by exact LO.
      unfold init_pstate. now rewrite P.
    - apply Some_inj in EA. subst la. split; [constructor|]. intro rest. exists false. reflexivity. }
  destruct PA as (LA & PA).
  set (h1 := mkHeader (h_hd h) [] [] [] []).
  assert (CS : chain_ok ok_sq upd_sq (h_sq h) h1).
  { apply (chain_keys sq_name wf_sq h_sq upd_sq); auto.
    intros h0 m. unfold upd_sq. cbn. now rewrite map_app. }
  set (h2 := fold_left upd_sq (h_sq h) h1).
  assert (E2 : h2 = mkHeader (h_hd h) (h_sq h) [] [] []) by (unfold h2; rewrite fold_sq; reflexivity).
  assert (CR : chain_ok ok_rg upd_rg (h_rg h) h2).
  { apply (chain_keys im_id wf_id h_rg upd_rg); auto.
    - intros h0 m. unfold upd_rg. cbn. now rewrite map_app.
    - rewrite E2. exact NR. }
  set (h3 := fold_left upd_rg (h_rg h) h2).
  assert (E3 : h3 = mkHeader (h_hd h) (h_sq h) (h_rg h) [] []) by (unfold h3; rewrite fold_rg, E2; reflexivity).
  assert (CP : chain_ok ok_pg upd_pg (h_pg h) h3).
  { apply (chain_keys im_id wf_id h_pg upd_pg); auto.
    - intros h0 m. unfold upd_pg. cbn. now rewrite map_app.
    - rewrite E3. exact NP. }
  set (h4 := fold_left upd_pg (h_pg h) h3).
  assert (E4 : h4 = mkHeader (h_hd h) (h_sq h) (h_rg h) (h_pg h) []) by (unfold h4; rewrite fold_pg, E3; reflexivity).
  pose proof (phase write_sq ok_sq upd_sq (fun c h m l => pp_sq c h m l) (h_sq h) lb EB) as PB.
  pose proof (phase (write_idmap 82 71) ok_rg upd_rg (fun c h m l => pp_rg c h m l) (h_rg h) lc EC) as PC.
  pose proof (phase (write_idmap 80 71) ok_pg upd_pg (fun c h m l => pp_pg c h m l) (h_pg h) ld ED) as PD.
  assert (LB : Forall line_ok lb) by (apply (PB false h1 [] CS)).
  assert (LC : Forall line_ok lc) by (apply (PC false h2 [] CR)).
  assert (LD : Forall line_ok ld) by (apply (PD false h3 [] CP)).
  assert (LE : Forall line_ok (map write_co (h_co h))).
  { apply Forall_forall. intros l Hl. apply in_map_iff in Hl as (x & <- & Hx).
    apply co_line_ok. rewrite Forall_forall in WC. now apply WC. }
  unfold read_header. rewrite split_lf_lines by (repeat (apply Forall_app; split); assumption).
  rewrite !map_app.
  destruct (PA (map (fun l => (l, true)) lb ++ map (fun l => (l, true)) lc ++ map (fun l => (l, true)) ld
                ++ map (fun l => (l, true)) (map write_co (h_co h)))) as (c1 & ->).
  fold h1.
  destruct (PB c1 h1 (map (fun l => (l, true)) lc ++ map (fun l => (l, true)) ld
                ++ map (fun l => (l, true)) (map write_co (h_co h))) CS) as (_ & c2 & ->).
  fold h2.
  destruct (PC c2 h2 (map (fun l => (l, true)) ld ++ map (fun l => (l, true)) (map write_co (h_co h))) CR) as (_ & c3 & ->).
  fold h3.
  destruct (PD c3 h3 (map (fun l => (l, true)) (map write_co (h_co h))) CP) as (_ & c4 & ->).
  fold h4.
  destruct (phase_co (h_co h) WC c4 h4 []) as (c5 & P5). rewrite app_nil_r in P5.
  rewrite P5. cbn [run_lines option_map snd]. rewrite fold_co, E4. cbn. destruct h; reflexivity.
Qed.

(* the same proof with anything after the header lines: the lines the writer emits are well
   formed, and running them from the initial state over ANY continuation arrives at the header *)
Theorem header_lines_spec h ls : wf_header h -> write_header_lines h = Some ls ->
  Forall line_ok ls /\
  forall rest, exists c, run_lines (map (fun l => (l, true)) ls ++ rest) init_pstate = run_lines rest (c, h).
Proof.
  intros (WH & WS & NS & WR & NR & WP & NP & WC) H.
  unfold write_header_lines in H.
  destruct (match h_hd h with None => Some [] | Some m => option_map (fun l => [l]) (write_hd m) end) as [la|] eqn:EA; [|discriminate].
  destruct (write_all write_sq (h_sq h)) as [lb|] eqn:EB; [|discriminate].
  destruct (write_all (write_idmap 82 71) (h_rg h)) as [lc|] eqn:EC; [|discriminate].
  destruct (write_all (write_idmap 80 71) (h_pg h)) as [ld|] eqn:ED; [|discriminate].
  destruct (write_all write_co_chk (h_co h)) as [le|] eqn:EE; [|discriminate].
  destruct (write_co_chk_all _ _ EE) as [EE' _]. subst le.
  apply Some_inj in H. subst ls.
  (* the @HD phase *)
  assert (PA : Forall line_ok la /\ forall rest, exists c1,
             run_lines (map (fun l => (l, true)) la ++ rest) init_pstate
             = run_lines rest (c1, mkHeader (h_hd h) [] [] [] [])).
  { destruct (h_hd h) as [m|].
    - destruct (write_hd m) as [l|] eqn:E; [|discriminate]. cbn in EA. apply Some_inj in EA. subst la.
      destruct (pp_hd false m l WH E) as (LO & c1 & P). split; [now constructor|].
      intro rest. exists c1. cbn [map app]. rewrite run_lines_step by exact LO.
      unfold init_pstate. now rewrite P.
    - apply Some_inj in EA. subst la. split; [constructor|]. intro rest. exists false. reflexivity. }
  destruct PA as (LA & PA).
  set (h1 := mkHeader (h_hd h) [] [] [] []).
  assert (CS : chain_ok ok_sq upd_sq (h_sq h) h1).
  { apply (chain_keys sq_name wf_sq h_sq upd_sq); auto.
    intros h0 m. unfold upd_sq. cbn. now rewrite map_app. }
  set (h2 := fold_left upd_sq (h_sq h) h1).
  assert (E2 : h2 = mkHeader (h_hd h) (h_sq h) [] [] []) by (unfold h2; rewrite fold_sq; reflexivity).
  assert (CR : chain_ok ok_rg upd_rg (h_rg h) h2).
  { apply (chain_keys im_id wf_id h_rg upd_rg); auto.
    - intros h0 m. unfold upd_rg. cbn. now rewrite map_app.
    - rewrite E2. exact NR. }
  set (h3 := fold_left upd_rg (h_rg h) h2).
  assert (E3 : h3 = mkHeader (h_hd h) (h_sq h) (h_rg h) [] []) by (unfold h3; rewrite fold_rg, E2; reflexivity).
  assert (CP : chain_ok ok_pg upd_pg (h_pg h) h3).
  { apply (chain_keys im_id wf_id h_pg upd_pg); auto.
    - intros h0 m. unfold upd_pg. cbn. now rewrite map_app.
    - rewrite E3. exact NP. }
  set (h4 := fold_left upd_pg (h_pg h) h3).
  assert (E4 : h4 = mkHeader (h_hd h) (h_sq h) (h_rg h) (h_pg h) []) by (unfold h4; rewrite fold_pg, E3; reflexivity).
  pose proof (phase write_sq ok_sq upd_sq (fun c h m l => pp_sq c h m l) (h_sq h) lb EB) as PB.
  pose proof (phase (write_idmap 82 71) ok_rg upd_rg (fun c h m l => pp_rg c h m l) (h_rg h) lc EC) as PC.
  pose proof (phase (write_idmap 80 71) ok_pg upd_pg (fun c h m l => pp_pg c h m l) (h_pg h) ld ED) as PD.
  assert (LB : Forall line_ok lb) by (apply (PB false h1 [] CS)).
  assert (LC : Forall line_ok lc) by (apply (PC false h2 [] CR)).
  assert (LD : Forall line_ok ld) by (apply (PD false h3 [] CP)).
  assert (LE : Forall line_ok (map write_co (h_co h))).
  { apply Forall_forall. intros l Hl. apply in_map_iff in Hl as (x & <- & Hx).
    apply co_line_ok. rewrite Forall_forall in WC. now apply WC. }
  split; [repeat (apply Forall_app; split); assumption|]. intro rest.
  rewrite !map_app, <- !app_assoc.
  destruct (PA (map (fun l => (l, true)) lb ++ map (fun l => (l, true)) lc ++ map (fun l => (l, true)) ld
                ++ map (fun l => (l, true)) (map write_co (h_co h)) ++ rest)) as (c1 & ->).
  fold h1.
  destruct (PB c1 h1 (map (fun l => (l, true)) lc ++ map (fun l => (l, true)) ld
                ++ map (fun l => (l, true)) (map write_co (h_co h)) ++ rest) CS) as (_ & c2 & ->).
  fold h2.
  destruct (PC c2 h2 (map (fun l => (l, true)) ld ++ map (fun l => (l, true)) (map write_co (h_co h)) ++ rest) CR) as (_ & c3 & ->).
  fold h3.
  destruct (PD c3 h3 (map (fun l => (l, true)) (map write_co (h_co h)) ++ rest) CP) as (_ & c4 & ->).
  fold h4.
  destruct (phase_co (h_co h) WC c4 h4 rest) as (c5 & P5).
  rewrite P5. exists c5. rewrite fold_co, E4. cbn. destruct h; reflexivity.
Qed.

Lemma split_lf_lines_app ls rest : Forall line_ok ls ->
  split_lf (concat (map (fun l => l ++ [10]) ls) ++ rest) = map (fun l => (l, true)) ls ++ split_lf rest.
Proof.
  induction 1 as [|l ls (_ & H10 & _) _ IH]; [reflexivity|].
  cbn [map concat]. rewrite <- !app_assoc. cbn [app]. rewrite split_lf_app by exact H10. now rewrite IH.
Qed.

(* fixed point: immediate from the round trip, parsing gives back the same header *)
Theorem header_fixed_point h t h' : wf_header h -> write_header h = Some t ->
  read_header t = Some h' -> write_header h' = Some t.
Proof.
  intros W H R. rewrite (header_roundtrip h t W H) in R. apply Some_inj in R. now subst h'.
Qed.

Lemma nodup1 {A} (a : A) : NoDup [a].
Proof. constructor; [intros []|constructor]. Qed.
