(* C16 -- the async BCF record framing over every poll script = C13's sync framing on the data. *)
From Coq Require Import List NArith Arith Bool Lia.
From NV Require Import Io.Source Io.ReadExact Io.ReadExactProofs Io.Run Io.RunProofs.
From NV Require Import Async.ReadExact Async.ReadExactProofs Async.BcfFraming.
From NV Require Base.LE Trunc.Stream Trunc.StreamProofs.
Import ListNotations.

Lemma le_val_le_dec : forall l, le_val l = LE.le_dec l.
Proof. induction l as [|b t IH]; [reflexivity|]. cbn [le_val LE.le_dec]. rewrite IH. reflexivity. Qed.

(* C13's [take] in firstn / skipn vocabulary *)
Lemma take_nat : forall (n : N) bs,
  Stream.take n bs = if N.to_nat n <=? length bs then Some (firstn (N.to_nat n) bs, skipn (N.to_nat n) bs) else None.
Proof.
  intros n bs. rewrite StreamProofs.take_spec.
  destruct (Nat.leb_spec (N.to_nat n) (length bs)) as [H|H].
  - assert (E : (N.of_nat (length bs) <? n)%N = false) by (apply N.ltb_ge; lia). rewrite E. reflexivity.
  - assert (E : (N.of_nat (length bs) <? n)%N = true) by (apply N.ltb_lt; lia). rewrite E. reflexivity.
Qed.

Definition bres_of (x : Stream.step (list N * list N)) : bres :=
  match x with
  | Stream.Item (a, b) _ => BItem a b
  | Stream.Stop s => BStop s
  end.

Section Generic.
  Context {S : Type}.
  Variable rd : reader S.
  Variable Rep : S -> list N -> nat -> Prop.
  Hypothesis Hsim : simulates rd Rep.
  Variable req : nat -> nat.
  Variable site_ok : list N -> option Stream.ekind.
  Variable fuelf : S -> nat -> nat.
  Hypothesis Hfuel : forall s d m n, Rep s d m -> m + n < fuelf s n.

  Lemma a_bcf_read_record_spec : forall s d m, Rep s d m ->
    exists s', a_bcf_read_record rd req site_ok fuelf s = (bres_of (Stream.bcf_read_record site_ok Stream.Eof d), s')
      /\ match Stream.bcf_read_record site_ok Stream.Eof d with
         | Stream.Item _ rest => exists m', Rep s' rest m' /\ m' <= m
         | Stream.Stop _ => True
         end.
  Proof.
    intros s d m HR. unfold a_bcf_read_record, Stream.bcf_read_record.
    destruct (read_exact_or_eof_spec rd Rep Hsim (fuelf s 4) s d m 4 HR (Hfuel s d m 4 HR))
      as [s1 [m1 [E1 [HR1 Hm1]]]].
    rewrite E1. unfold eof_class.
    destruct d as [|x0 d0]; [exists s1; cbn [Nat.leb length]; split; [reflexivity|exact I]|].
    set (d := x0 :: d0) in *.
    rewrite (take_nat 4 d). change (N.to_nat 4) with 4.
    destruct (4 <=? length d) eqn:H4.
    2:{ exists s1. unfold d. cbn [bres_of Stream.short]. split; [reflexivity|exact I]. }
    rewrite (le_val_le_dec (firstn 4 d)).
    destruct (LE.le_dec (firstn 4 d) =? 0)%N eqn:Hz; [exists s1; split; [reflexivity|exact I]|].
    destruct (read_exact_spec rd Rep Hsim (fuelf s1 4) s1 (skipn 4 d) m1 4 HR1 (Hfuel s1 _ m1 4 HR1))
      as [s2 [m2 [E2 [HR2 Hm2]]]].
    rewrite E2. rewrite (take_nat 4 (skipn 4 d)). change (N.to_nat 4) with 4.
    destruct (4 <=? length (skipn 4 d)); [|exists s2; split; [reflexivity|exact I]].
    rewrite (le_val_le_dec (firstn 4 (skipn 4 d))).
    set (ls := LE.le_dec (firstn 4 d)). set (li := LE.le_dec (firstn 4 (skipn 4 d))).
    set (d2 := skipn 4 (skipn 4 d)) in *.
    destruct (drain_loop_spec rd Rep Hsim req (fuelf s2 (N.to_nat ls)) s2 d2 m2 (N.to_nat ls) [] HR2
                (Hfuel s2 _ m2 _ HR2)) as [s3 [m3 [E3 [HR3 Hm3]]]].
    rewrite E3. cbn [app]. rewrite (take_nat ls d2).
    destruct (N.to_nat ls <=? length d2); [|exists s3; split; [reflexivity|exact I]].
    destruct (site_ok (firstn (N.to_nat ls) d2)) as [e|]; [exists s3; split; [reflexivity|exact I]|].
    set (d3 := skipn (N.to_nat ls) d2) in *.
    destruct (drain_loop_spec rd Rep Hsim req (fuelf s3 (N.to_nat li)) s3 d3 m3 (N.to_nat li) [] HR3
                (Hfuel s3 _ m3 _ HR3)) as [s4 [m4 [E4 [HR4 Hm4]]]].
    rewrite E4. cbn [app]. rewrite (take_nat li d3).
    destruct (N.to_nat li <=? length d3); [|exists s4; split; [reflexivity|exact I]].
    exists s4. split; [reflexivity|]. exists m4. split; [exact HR4|lia].
  Qed.

  Theorem a_bcf_read_records_spec : forall k s d m, Rep s d m ->
    exists s', a_bcf_read_records rd req site_ok fuelf k s
               = (Stream.read_all (Stream.bcf_read_record site_ok Stream.Eof) k d, s').
  Proof.
    induction k as [|k IH]; intros s d m HR.
    - exists s. reflexivity.
    - cbn [a_bcf_read_records Stream.read_all].
      destruct (a_bcf_read_record_spec s d m HR) as [s1 [E1 H1]]. rewrite E1.
      destruct (Stream.bcf_read_record site_ok Stream.Eof d) as [[a b] rest|st].
      + cbn [bres_of]. destruct H1 as [m1 [HR1 Hm1]].
        destruct (IH s1 rest m1 HR1) as [s2 E2]. rewrite E2.
        destruct (Stream.read_all (Stream.bcf_read_record site_ok Stream.Eof) k rest) as [xs st].
        exists s2. reflexivity.
      + cbn [bres_of]. exists s1. reflexivity.
  Qed.
End Generic.

(* for every poll script, every read_to_end request size and every site indexer: the records and
   the ending of the async reader are those of C13's sync framing model on the data *)
Theorem async_bcf_records_equal_sync : forall polls req site_ok data,
  fst (a_bcf_read_records aread req site_ok a_fuel (Datatypes.S (length data)) (mkASource data polls))
  = Stream.read_stream (Stream.bcf_read_record site_ok Stream.Eof) data.
Proof.
  intros polls req site_ok data.
  destruct (a_bcf_read_records_spec aread rep_a aread_simulates req site_ok a_fuel rep_a_fuel
              (Datatypes.S (length data)) (mkASource data polls) data 0 (rep_a_mk data polls)) as [s' E].
  rewrite E. reflexivity.
Qed.
