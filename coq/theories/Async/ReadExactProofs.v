(* Proofs about NV.Async.ReadExact: awaited reads over any poll script are a reader in the sense
   of C12's [simulates], so tokio's read_exact, the BAM/BCF async read_exact_or_eof and the
   take + read_to_end body read return what their sync counterparts return, whatever the script. *)
From Coq Require Import List NArith Arith Bool Lia.
From NV Require Import Io.Source Io.ReadExact Io.ReadExactProofs Io.Run Io.RunProofs Async.ReadExact.
Import ListNotations.

Definition rep_a (s : asource) (d : list N) (m : nat) : Prop := a_data s = d /\ m = 0.

Lemma await_simulates : forall polls d n,
  match await_read polls d n with
  | (RInt, _) => False
  | (ROk bs, s') => ok_step d n bs /\ a_data s' = skipn (length bs) d
  end.
Proof.
  induction polls as [|e polls IH]; intros d n; cbn [await_read].
  - split.
    + repeat split.
      * apply firstn_length_le_id.
      * rewrite firstn_length. lia.
      * intros Hn Hne. rewrite firstn_length. destruct d; [congruence|cbn [length]; lia].
    + cbn [a_data]. rewrite firstn_length.
      destruct (Nat.le_ge_cases n (length d)) as [H|H].
      * rewrite Nat.min_l by exact H. reflexivity.
      * rewrite Nat.min_r by exact H. rewrite !skipn_all2; auto.
  - destruct e as [|k]; [apply IH|]. split.
    + repeat split.
      * apply firstn_length_le_id.
      * rewrite firstn_length. lia.
      * intros Hn Hne. rewrite firstn_length. destruct d; [congruence|cbn [length]; lia].
    + cbn [a_data]. rewrite firstn_length.
      set (q := Nat.min (Nat.max k 1) n).
      destruct (Nat.le_ge_cases q (length d)) as [H|H].
      * rewrite Nat.min_l by exact H. reflexivity.
      * rewrite Nat.min_r by exact H. rewrite !skipn_all2; auto.
Qed.

Lemma aread_simulates : simulates aread rep_a.
Proof.
  intros s d m n [Hd Hm]. unfold aread. rewrite Hd.
  pose proof (await_simulates (a_polls s) d n) as H.
  destruct (await_read (a_polls s) d n) as [[bs|] s']; [|contradiction].
  destruct H as [H1 H2]. split; [exact H1|]. exists 0. split; [lia|]. split; [exact H2|reflexivity].
Qed.

Lemma rep_a_fuel : forall s d m n, rep_a s d m -> m + n < a_fuel s n.
Proof. intros s d m n [_ Hm]. unfold a_fuel. lia. Qed.

Section GenericDrain.
  Context {S : Type}.
  Variable rd : reader S.
  Variable Rep : S -> list N -> nat -> Prop.
  Hypothesis Hsim : simulates rd Rep.
  Variable req : nat -> nat.

  (* take(n).read_to_end: n bytes or everything left, whatever sizes the reads ask for *)
  Lemma drain_loop_spec : forall fuel s d m n acc,
    Rep s d m -> m + n < fuel ->
    exists s' m',
      drain_loop rd req fuel s n acc
        = (acc ++ firstn n d, if n <=? length d then Filled else HitEof, s')
      /\ Rep s' (skipn n d) m' /\ m' <= m.
  Proof.
    induction fuel as [|fuel IH]; intros s d m n acc HR Hf; [lia|].
    destruct n as [|n].
    - cbn [drain_loop firstn skipn]. rewrite app_nil_r. exists s, m.
      cbn [Nat.leb]. auto.
    - cbn [drain_loop].
      set (q := Nat.min (Datatypes.S n) (Nat.max 1 (req (Datatypes.S fuel)))).
      assert (Hq : 0 < q <= Datatypes.S n) by (unfold q; lia).
      pose proof (Hsim s d m q HR) as Hs.
      destruct (rd s q) as [[bs|] s'].
      + destruct Hs as [[Hpre [Hle Hpos]] [m' [Hm' HR']]].
        destruct bs as [|b bs].
        * assert (Hd : d = []).
          { destruct d as [|x d]; [reflexivity|]. exfalso.
            assert (0 < @length N []) by (apply Hpos; [lia|congruence]). cbn [length] in *; lia. }
          subst d. cbn [length skipn] in HR'. exists s', m'.
          rewrite firstn_nil, app_nil_r, skipn_nil. cbn [length Nat.leb]. auto.
        * set (k := length (b :: bs)) in *.
          assert (Hk1 : 0 < k) by (unfold k; cbn [length]; lia).
          assert (Hkn : k <= Datatypes.S n) by lia.
          assert (Hkd : k <= length d).
          { unfold k at 1. rewrite Hpre. rewrite firstn_length. lia. }
          destruct (IH s' (skipn k d) m' (Datatypes.S n - k) (acc ++ b :: bs) HR' ltac:(lia))
            as [s'' [m'' [E [HR'' Hm'']]]].
          exists s'', m''. rewrite E. split; [|split; [|lia]].
          -- assert (E1 : (acc ++ b :: bs) ++ firstn (Datatypes.S n - k) (skipn k d)
                          = acc ++ firstn (Datatypes.S n) d).
             { rewrite <- app_assoc. f_equal.
               rewrite (firstn_split_at N k (Datatypes.S n) d Hkn). f_equal. exact Hpre. }
             assert (E2 : (Datatypes.S n - k <=? length (skipn k d)) = (Datatypes.S n <=? length d)).
             { rewrite skipn_length.
               destruct (Nat.leb_spec (Datatypes.S n - k) (length d - k));
               destruct (Nat.leb_spec (Datatypes.S n) (length d)); try reflexivity; lia. }
             rewrite E1, E2. reflexivity.
          -- rewrite skipn_skipn_add in HR''.
             replace (k + (Datatypes.S n - k)) with (Datatypes.S n) in HR'' by lia. exact HR''.
      + destruct Hs as [m' [Hm' HR']].
        destruct (IH s' d m' (Datatypes.S n) acc HR' ltac:(lia)) as [s'' [m'' [E [HR'' Hm'']]]].
        exists s'', m''. rewrite E. split; [reflexivity|]. split; [exact HR''|lia].
  Qed.

  Variable fuelf : S -> nat -> nat.
  Hypothesis Hfuel : forall s d m n, Rep s d m -> m + n < fuelf s n.

  (* the async record framing has the closed form of the sync one *)
  Lemma a_bam_read_record_spec : forall s d m, Rep s d m ->
    exists s' m', a_bam_read_record rd req fuelf s = (fst (bam_record_closed d), s')
                  /\ Rep s' (snd (bam_record_closed d)) m' /\ m' <= m.
  Proof.
    intros s d m HR. unfold a_bam_read_record, bam_record_closed.
    destruct (read_exact_or_eof_spec rd Rep Hsim (fuelf s 4) s d m 4 HR (Hfuel s d m 4 HR))
      as [s1 [m1 [E1 [HR1 Hm1]]]].
    rewrite E1. unfold eof_class.
    destruct (4 <=? length d) eqn:H4.
    - destruct (le_val (firstn 4 d) =? 0)%N eqn:Hz.
      + exists s1, m1. auto.
      + set (k := N.to_nat (le_val (firstn 4 d))).
        destruct (drain_loop_spec (fuelf s1 k) s1 (skipn 4 d) m1 k [] HR1 (Hfuel s1 _ m1 k HR1))
          as [s2 [m2 [E2 [HR2 Hm2]]]].
        rewrite E2. cbn [app].
        destruct (k <=? length (skipn 4 d)); exists s2, m2; cbn [fst snd]; split; auto; split; auto; lia.
    - destruct d as [|x d']; exists s1, m1; auto.
  Qed.

  Lemma a_bam_read_records_spec : forall k s d m, Rep s d m ->
    exists s' m', a_bam_read_records rd req fuelf k s = (fst (bam_records_closed k d), s')
                  /\ Rep s' (snd (bam_records_closed k d)) m' /\ m' <= m.
  Proof.
    induction k as [|k IH]; intros s d m HR.
    - cbn [a_bam_read_records bam_records_closed fst snd]. exists s, m. auto.
    - cbn [a_bam_read_records bam_records_closed].
      destruct (a_bam_read_record_spec s d m HR) as [s1 [m1 [E1 [HR1 Hm1]]]]. rewrite E1.
      destruct (bam_record_closed d) as [r d1]. cbn [fst snd] in *.
      destruct r as [n| |]; try solve [exists s1, m1; cbn [fst snd]; auto].
      destruct (n =? 0)%N; [exists s1, m1; cbn [fst snd]; auto|].
      destruct (IH s1 d1 m1 HR1) as [s2 [m2 [E2 [HR2 Hm2]]]]. rewrite E2.
      destruct (bam_records_closed k d1) as [l d2]. cbn [fst snd] in *.
      exists s2, m2. split; [reflexivity|]. split; [exact HR2|lia].
  Qed.
End GenericDrain.

Lemma rep_a_mk : forall data polls, rep_a (mkASource data polls) data 0.
Proof. intros. split; reflexivity. Qed.
Lemma rep_src_self : forall t, rep_src t (s_data t) (n_interrupted (s_script t)).
Proof. intros. split; reflexivity. Qed.

(* ---- the statements used by props/C16.v --------------------------------------------------- *)

(* tokio read_exact over any poll script = the closed form = std read_exact over any sync script *)
Theorem async_read_exact_closed : forall polls data n,
  exists s', read_exact aread (a_fuel (mkASource data polls) n) (mkASource data polls) n
             = (firstn n data, if n <=? length data then XOk else XUnexpectedEof, s')
             /\ a_data s' = skipn n data.
Proof.
  intros polls data n.
  destruct (read_exact_spec aread rep_a aread_simulates (a_fuel (mkASource data polls) n)
              (mkASource data polls) data 0 n (rep_a_mk data polls)
              (rep_a_fuel _ data 0 n (rep_a_mk data polls))) as [s' [m' [E [[HR _] _]]]].
  exists s'. split; [exact E|exact HR].
Qed.

Theorem async_read_exact_equals_sync : forall polls (t : source) n,
  let a := mkASource (s_data t) polls in
  let '(ab, ax, a') := read_exact aread (a_fuel a n) a n in
  let '(sb, sx, t') := read_exact src_read (src_fuel t n) t n in
  ab = sb /\ ax = sx /\ a_data a' = s_data t'.
Proof.
  intros polls t n. cbn zeta.
  destruct (async_read_exact_closed polls (s_data t) n) as [a' [Ea Ha]]. rewrite Ea.
  destruct (read_exact_spec src_read rep_src src_simulates (src_fuel t n) t (s_data t)
              (n_interrupted (s_script t)) n (rep_src_self t)
              (rep_src_fuel t _ _ n (rep_src_self t))) as [t' [m' [Es [[Ht _] _]]]].
  rewrite Es. repeat split. rewrite Ha, Ht. reflexivity.
Qed.

(* async BAM record framing over any poll script and any read_to_end request sizes = the sync
   record framing over any sync delivery script *)
Theorem async_bam_records_equal_sync : forall polls req (t : source) k,
  fst (a_bam_read_records aread req a_fuel k (mkASource (s_data t) polls))
  = fst (bam_read_records k t).
Proof.
  intros polls req t k.
  destruct (a_bam_read_records_spec aread rep_a aread_simulates req a_fuel rep_a_fuel k
              (mkASource (s_data t) polls) (s_data t) 0 (rep_a_mk _ _)) as [a' [m1 [Ea _]]].
  destruct (bam_read_records_spec k t (s_data t) (n_interrupted (s_script t)) (rep_src_self t))
    as [t' [m2 [Es _]]].
  rewrite Ea, Es. reflexivity.
Qed.
