(* C16 -- the binary index readers (GZI, BAI), sync and async, as read programs.

   The reads an index costs are written as a read program (C19's [prog]: PRead n = read_exact /
   read_u32_le / read_u64_le of n bytes, UnexpectedEof when fewer are left; PTake n = up to n
   bytes, fewer when the source ends) and run
     * over C16's awaited source under a poll script     ([run_rd aread], tokio AsyncReadExt)
     * over C12's scripted source                         ([run_rd src_read], std Read)
     * over the bytes that are left                       ([run_pure]).

   GZI   noodles-bgzf/src/gzi/async/io/reader/index.rs  vs  gzi/io/reader/index.rs
         read_u64_le (count), count x (read_u64_le, read_u64_le), then read_u8: a byte =
         InvalidData "unexpected trailing data", UnexpectedEof = the index.  The two perform the
         same reads and (since /repo f641783: the async reader no longer pre-allocates
         `Vec::with_capacity(count)`) nothing else: one program, [p_gzi].
   BAI   noodles-bam/src/bai/async/io/reader/index/** vs bai/io/reader/index/** (the sync reader
         takes read_chunks / read_metadata from noodles-csi/src/io/reader/index/reference_sequences).
         read_exact 4 (magic), read_u32_le n_ref, per reference: read_u32_le n_bin, per bin
         read_u32_le id, then the metadata pseudo-bin (id 37450: read_u32_le n_chunk = 2, four
         read_u64_le) or read_i32_le n_chunk (negative = InvalidData) + n_chunk x two read_u64_le;
         a second metadata bin / a repeated bin id is InvalidData at once; read_u32_le n_intv +
         n_intv x read_u64_le; at the end read_u64_le n_no_coor where UnexpectedEof means None.
         Same reads on both sides.  Since /repo d76b74b the sync reader keeps the kind of an
         underlying io::Error of read_chunks / read_metadata (it used to relabel every error as
         InvalidData) and the async reader reads n_chunk as an i32 like the sync one (it used to
         read a u32 and loop): the flag [sy] (true = the sync reader) no longer changes anything
         ([ix_rd] never wraps, the i32 test is on both sides) and [p_bai true] = [p_bai false].
   A read_exact whose UnexpectedEof is caught by the caller is written PTake n + a length test
   (the trailing n_no_coor, the GZI read_u8): read_exact stores what arrives until the buffer is
   full or the source ends, which is what PTake n returns.
   Loops over a count of the file are iterated on the BINARY count ([ix_iter]) so that a count
   of 2^64 - 1 costs nothing before the data runs out.  64-bit target (usize::try_from of a u32 /
   u64 never fails).  Values are C17's index types (NV.Index.Layout).  Definitions only. *)
From Coq Require Import List NArith Arith Bool.
From NV Require Import Base.LE Io.Source Io.ReadExact Io.Run Async.ReadExact.
From NV Require Import Trunc.Stream Trunc.Cram CramIdx.AsyncQuery.
From NV Require Index.Layout.
Import ListNotations.
Open Scope N_scope.

(* ---- building blocks ---------------------------------------------------------------------- *)

(* read_uN_le *)
Definition ix_le {A : Type} (n : nat) (k : N -> prog A) : prog A :=
  PRead n (fun b => k (le_dec b)).

(* read_uN_le whose error is reported as [e] by the caller *)
Definition ix_le_as {A : Type} (e : ekind) (n : nat) (k : N -> prog A) : prog A :=
  PTake n (fun b => if (length b <? n)%nat then PFail e else k (le_dec b)).

(* a field read inside a bin: the sync reader's map_err keeps the kind of an I/O error (d76b74b),
   so neither side re-labels; [wrap] is kept for the call sites only *)
Definition ix_rd {A : Type} (wrap : bool) (n : nat) (k : N -> prog A) : prog A := ix_le n k.

(* `for _ in 0..n { s = body(s)? }`, n a count of the file *)
Fixpoint ix_iter_pos {St : Type} (body : St -> prog St) (p : positive) (s : St) : prog St :=
  match p with
  | xH => body s
  | xO q => p_bind (ix_iter_pos body q s) (fun s1 => ix_iter_pos body q s1)
  | xI q => p_bind (body s) (fun s0 => p_bind (ix_iter_pos body q s0) (fun s1 => ix_iter_pos body q s1))
  end.

Definition ix_iter {St : Type} (body : St -> prog St) (n : N) (s : St) : prog St :=
  match n with N0 => PRet s | Npos p => ix_iter_pos body p s end.

(* the same loop on a unary count (for the proofs) *)
Fixpoint ix_iter_nat {St : Type} (body : St -> prog St) (k : nat) (s : St) : prog St :=
  match k with
  | O => PRet s
  | S k' => p_bind (body s) (fun s1 => ix_iter_nat body k' s1)
  end.

Fixpoint bytes_eqb (a b : list N) : bool :=
  match a, b with
  | [], [] => true
  | x :: a', y :: b' => (x =? y) && bytes_eqb a' b'
  | _, _ => false
  end.

(* ---- GZI ---------------------------------------------------------------------------------- *)

Inductive gzi_out := GIndex (l : list Layout.chunkp).

Definition gzi_pair_body (acc : list Layout.chunkp) : prog (list Layout.chunkp) :=
  ix_le 8 (fun c => ix_le 8 (fun u => PRet (acc ++ [(c, u)]))).

(* read_u8: Ok = trailing data, UnexpectedEof = done *)
Definition gzi_tail (l : list Layout.chunkp) : prog gzi_out :=
  PTake 1 (fun b => match b with [] => PRet (GIndex l) | _ :: _ => PFail InvalidData end).

Definition p_gzi (asy : bool) : prog gzi_out :=
  ix_le 8 (fun n => p_bind (ix_iter gzi_pair_body n []) gzi_tail).

(* ---- BAI ---------------------------------------------------------------------------------- *)

Definition bai_chunk_body (sy : bool) (acc : list Layout.chunkp) : prog (list Layout.chunkp) :=
  ix_rd sy 8 (fun a => ix_rd sy 8 (fun b => PRet (acc ++ [(a, b)]))).

Definition bai_chunks (sy : bool) : prog (list Layout.chunkp) :=
  ix_rd sy 4 (fun n =>
    if negb (n <? 2147483648) then PFail InvalidData
    else ix_iter (bai_chunk_body sy) n []).

Definition bai_metadata (sy : bool) : prog Layout.metadata :=
  ix_rd sy 4 (fun n =>
    if negb (n =? 2) then PFail InvalidData
    else ix_rd sy 8 (fun a => ix_rd sy 8 (fun b => ix_rd sy 8 (fun c => ix_rd sy 8 (fun d =>
           PRet (Layout.mkmeta a b c d)))))).

Definition bins_state := (list Layout.binp * option Layout.metadata)%type.

(* the state holds the bins in reverse order of insertion (IndexMap keeps insertion order) *)
Definition bai_bin_body (sy : bool) (st : bins_state) : prog bins_state :=
  ix_le 4 (fun id =>
    if id =? Layout.bai_metadata_id then
      p_bind (bai_metadata sy) (fun m =>
        match snd st with
        | Some _ => PFail InvalidData
        | None => PRet (fst st, Some m)
        end)
    else
      p_bind (bai_chunks sy) (fun cs =>
        if existsb (fun b => fst b =? id) (fst st) then PFail InvalidData
        else PRet ((id, cs) :: fst st, snd st))).

Definition bai_bins (sy : bool) : prog bins_state :=
  ix_le 4 (fun n =>
    p_bind (ix_iter (bai_bin_body sy) n ([], None)) (fun st => PRet (rev (fst st), snd st))).

Definition bai_interval_body (acc : list N) : prog (list N) :=
  ix_le 8 (fun v => PRet (acc ++ [v])).

Definition bai_intervals : prog (list N) :=
  ix_le 4 (fun n => ix_iter bai_interval_body n []).

Definition bai_ref (sy : bool) : prog Layout.bai_ref :=
  p_bind (bai_bins sy) (fun bm =>
    p_bind bai_intervals (fun iv => PRet (Layout.mkbref (fst bm) (snd bm) iv))).

Definition bai_ref_body (sy : bool) (acc : list Layout.bai_ref) : prog (list Layout.bai_ref) :=
  p_bind (bai_ref sy) (fun r => PRet (acc ++ [r])).

(* read_u64_le where UnexpectedEof (0..7 bytes left) is None *)
Definition bai_unplaced : prog (option N) :=
  PTake 8 (fun b => PRet (if (length b <? 8)%nat then None else Some (le_dec b))).

Definition p_bai (sy : bool) : prog Layout.bai_index :=
  PRead 4 (fun m =>
    if negb (bytes_eqb m Layout.bai_magic) then PFail InvalidData
    else ix_le 4 (fun n =>
      p_bind (ix_iter (bai_ref_body sy) n []) (fun refs =>
        p_bind bai_unplaced (fun u => PRet (Layout.mkbai refs u))))).

(* ---- entry points of the correspondence driver ---------------------------------------------- *)
(* codes: 0 = Pending, k+1 = Ready k (polls_of); chunk = the size the PTake reads ask for.
   The observation type has its own constructor names and only tuples / lists / N inside, so that
   the OCaml printer does not depend on how extraction renames shared constructors and fields.
   Error codes: 1 = UnexpectedEof, 2 = InvalidData, 3 = out of fuel (never). *)

Inductive ix_obs (A : Type) : Type := IxVal (a : A) | IxErrKind (code : N) | IxPanic.
Arguments IxVal {A} a.
Arguments IxErrKind {A} code.
Arguments IxPanic {A}.

Definition ix_err_code (e : ekind) : N :=
  match e with UnexpectedEof => 1 | InvalidData => 2 | OutOfFuel => 3 end.

Definition gzi_obs (r : rr gzi_out) : ix_obs (list (N * N)) :=
  match r with
  | RVal (GIndex l) => IxVal l
  | RErr e => IxErrKind (ix_err_code e)
  end.

(* (bins, metadata (beg, end, mapped, unmapped), intervals) per reference, n_no_coor *)
Definition bai_flat : Type :=
  (list (list (N * list (N * N)) * option (N * N * N * N) * list N) * option N)%type.

Definition bai_flatten (i : Layout.bai_index) : bai_flat :=
  (map (fun r => (Layout.br_bins r,
                  match Layout.br_meta r with
                  | Some m => Some (Layout.m_beg m, Layout.m_end m, Layout.m_mapped m, Layout.m_unmapped m)
                  | None => None
                  end,
                  Layout.br_intervals r)) (Layout.bi_refs i),
   Layout.bi_unplaced i).

Definition bai_obs (r : rr Layout.bai_index) : ix_obs bai_flat :=
  match r with
  | RVal i => IxVal (bai_flatten i)
  | RErr e => IxErrKind (ix_err_code e)
  end.

Definition async_gzi_run (codes : list nat) (chunk : nat) (data : list N) : rr gzi_out :=
  fst (run_rd aread (fun _ => chunk) a_fuel (p_gzi true) (mkASource data (polls_of codes))).
Definition sync_gzi_run (data : list N) : rr gzi_out :=
  fst (run_rd src_read (fun _ => 32%nat) src_fuel (p_gzi false) (mkSource data [])).

Definition async_bai_run (codes : list nat) (chunk : nat) (data : list N) : rr Layout.bai_index :=
  fst (run_rd aread (fun _ => chunk) a_fuel (p_bai false) (mkASource data (polls_of codes))).
Definition sync_bai_run (data : list N) : rr Layout.bai_index :=
  fst (run_rd src_read (fun _ => 32%nat) src_fuel (p_bai true) (mkSource data [])).

Definition async_gzi_case (codes : list nat) (chunk : nat) (data : list N) := gzi_obs (async_gzi_run codes chunk data).
Definition sync_gzi_case (data : list N) := gzi_obs (sync_gzi_run data).
Definition async_bai_case (codes : list nat) (chunk : nat) (data : list N) := bai_obs (async_bai_run codes chunk data).
Definition sync_bai_case (data : list N) := bai_obs (sync_bai_run data).
