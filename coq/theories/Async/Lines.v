(* C16 -- the async line-based readers (noodles-{gff,fastq,fasta,sam,vcf}/src/async/io/reader ...)
   over a poll-scripted source behind tokio::io::BufReader.

   The async source is NV.Async.ReadExact.aread (an awaited poll_read over a poll script: Pending
   polls transfer nothing, a Ready poll transfers 1..k bytes).  It is a [reader] of C12's
   NV.Io.Source, so C12's BufReader model runs on it unchanged:

     tokio::io::BufReader::poll_fill_buf   if pos >= cap { one poll_read of the inner reader into the
                                           whole buffer } ; return buffer[pos..cap]
                                           = br_fill_buf aread cap          (tokio-1.x io/util/buf_reader.rs)
     consume                               = br_consume
     BufReader::poll_read                  empty buffer and request >= capacity: bypass; else fill_buf+copy
                                           = br_read aread cap
     AsyncBufReadExt::read_until           loop { available = ready!(poll_fill_buf)?; memchr; extend;
                                           consume(used); read += used; if done || used == 0 { return } }
                                           = read_until aread cap (std's loop; its Interrupted-retry arm
                                           is dead code here: an async source never yields RInt)
     AsyncReadExt::read_u8                 poll_read into a 1-byte buffer until it is full, 0 bytes ->
                                           UnexpectedEof = d_read_u8 aread cap (C12's read_exact of 1 byte)

   The per-format async helpers that are TEXTUALLY the sync helper (read_until(LF), pop LF, pop CR:
   async sam / vcf / fasta / fastq / gff `read_line`; gff line::read_line's blank-line loop) are C12's
   functions instantiated at aread.  The ones that are written DIFFERENTLY from their sync twins are
   modelled here:

     fastq  async read_record: read_name = read_u8 + read_line(whole line) + memchr2(SP, HT) split
            (sync: memchr3 window scanner), read_description = read_u8 + read_line (sync: consume_line)
     fasta  async read_sequence: one loop over fill_buf windows with (n, has_pending_cr, is_bol)
            (sync: sequence::Reader as a BufRead + read_to_end); see [fasta_bol_cr_fixed]
     sam / vcf  async lazy read_record: read_until(LF) of the whole line, then the SYNC field
            scanner over the line as a slice reader (sync: the scanner runs on the source itself) *)
From Coq Require Import List NArith Arith Bool.
From NV Require Import Io.Source Io.ReadExact Io.BufReader Io.FastaScan Io.FastqRead Io.HeaderRead Io.Run.
From NV Require Import Async.ReadExact.
From NV Require Fasta.Layout Fasta.Fastq.
Import ListNotations.

Definition abuf : Type := bstate asource.

(* every awaited read ends (Pending polls are finite in a script), so the loops need fuel only for
   the data: bytes still to come + 2 *)
Definition ab_fuel (st : abuf) : nat := length (fst st) + length (a_data (snd st)) + 2.
Definition ab_left (st : abuf) : nat := length (fst st) + length (a_data (snd st)).
Definition ab_start (data : list N) (codes : list nat) : abuf := ([], mkASource data (polls_of codes)).

(* =========================================================================================== *)
(* generic over the reader, so that the same text serves the sync side (src_read) in the proofs *)
Section Lines.
  Context {S : Type}.
  Variable rd : reader S.
  Variable cap : nat.
  Variable fuelf : bstate S -> nat.
  Variable leftf : bstate S -> nat.

  (* ---- gff: Reader::read_line until it returns 0 (async and sync: the same loop) *)
  Fixpoint g_gff_lines (k : nat) (st : bstate S) : list (nat * list N) * bstate S :=
    match k with
    | 0 => ([], st)
    | Datatypes.S k' =>
      match gff_read_line rd cap (Datatypes.S (leftf st)) (fuelf st) st with
      | (0, _, _, st') => ([], st')
      | (n, l, _, st') => let '(ls, st'') := g_gff_lines k' st' in ((n, l) :: ls, st'')
      end
    end.

  (* ---- fastq, async reader.rs *)
  (* memchr2(SP, HT, name): name.split_off(i + 1) is the description, name.pop() drops the delimiter *)
  Fixpoint split2 (l : list N) : list N * list N :=
    match l with
    | [] => ([], [])
    | b :: t =>
        if N.eqb b Layout.SP || N.eqb b Fastq.HT then ([], t)
        else let '(n, d) := split2 t in (b :: n, d)
    end.

  (* read_name: inr None = Ok(0) *)
  Definition a_read_name (fuel : nat) (st : bstate S)
    : (Fastq.qerr + option (list N * list N * nat)) * bstate S :=
    match d_read_u8 rd cap fuel st with
    | (U8NoFuel, st1) => (inl Fastq.QOutOfFuel, st1)
    | (U8Eof, st1) => (inr None, st1)
    | (U8 b, st1) =>
      if negb (N.eqb b Fastq.AT) then (inl Fastq.QInvalidData, st1)
      else
        match read_line rd cap fuel st1 with
        | (_, _, UNoFuel, st2) => (inl Fastq.QOutOfFuel, st2)
        | (k, line, UOk, st2) =>
            let '(n, d) := split2 line in (inr (Some (n, d, Datatypes.S k)), st2)
        end
    end.

  (* read_description: read_u8()? -- UnexpectedEof is an error here *)
  Definition a_read_description (fuel : nat) (st : bstate S) : (Fastq.qerr + nat) * bstate S :=
    match d_read_u8 rd cap fuel st with
    | (U8NoFuel, st1) => (inl Fastq.QOutOfFuel, st1)
    | (U8Eof, st1) => (inl Fastq.QUnexpectedEof, st1)
    | (U8 b, st1) =>
      if N.eqb b Fastq.PLUS then
        match read_line rd cap fuel st1 with
        | (_, _, UNoFuel, st2) => (inl Fastq.QOutOfFuel, st2)
        | (k, _, UOk, st2) => (inr (Datatypes.S k), st2)
        end
      else (inl Fastq.QInvalidData, st1)
    end.

  (* read_record: (record, byte count returned); inr None = Ok(0) *)
  Definition a_read_qrec (fuel : nat) (st : bstate S)
    : (Fastq.qerr + option (Fastq.qrec * nat)) * bstate S :=
    match a_read_name fuel st with
    | (inl e, st1) => (inl e, st1)
    | (inr None, st1) => (inr None, st1)
    | (inr (Some (n, d, len0)), st1) =>
      match read_line rd cap fuel st1 with
      | (_, _, UNoFuel, st2) => (inl Fastq.QOutOfFuel, st2)
      | (k1, sq, UOk, st2) =>
        match a_read_description fuel st2 with
        | (inl e, st3) => (inl e, st3)
        | (inr k2, st3) =>
          match read_line rd cap fuel st3 with
          | (_, _, UNoFuel, st4) => (inl Fastq.QOutOfFuel, st4)
          | (k3, ql, UOk, st4) => (inr (Some (Fastq.mkqrec n d sq ql, len0 + k1 + k2 + k3)), st4)
          end
        end
      end
    end.

  (* Reader::records(): read_record until Ok(0) or the first error *)
  Fixpoint a_read_qrecs (j : nat) (st : bstate S) : (list Fastq.qrec * option Fastq.qerr) * bstate S :=
    match j with
    | 0 => (([], Some Fastq.QOutOfFuel), st)
    | Datatypes.S j' =>
      match a_read_qrec (fuelf st) st with
      | (inl e, st1) => (([], Some e), st1)
      | (inr None, st1) => (([], None), st1)
      | (inr (Some (r, _)), st1) =>
        let '((rs, e), st2) := a_read_qrecs j' st1 in ((r :: rs, e), st2)
      end
    end.

  (* ---- fasta, async reader/sequence.rs::read_sequence
       loop { src = fill_buf().await?;
              if src.first().map(|&b| is_bol && b == '>').unwrap_or(true) { break }
              [repaired code only: if is_bol && src[0] == CR { consume(1); n += 1; continue }]
              if has_pending_cr && src[0] != LF { buf.push(CR) }
              (line, len) = match memchr(LF, src) { Some(i) => (src[..i], i+1), None => (src, src.len()) };
              is_bol = len > line.len();  has_pending_cr = !is_bol && line.ends_with([CR]);
              buf.extend(line minus one trailing CR); consume(len); n += len }
     [fx] = the async reader skips CRs at the beginning of a line like the sync reader does
     (the pinned /repo does not: finding async-fasta-bol-cr-kept). *)
  Fixpoint a_seq_loop (fx : bool) (fuel : nat) (is_bol pending : bool) (st : bstate S)
    (acc : list N) (n : nat) : sres * list N * nat * bstate S :=
    match fuel with
    | 0 => (SNoFuel, acc, n, st)
    | Datatypes.S fuel' =>
      match br_fill_buf rd cap st with
      | (RInt, st1) => a_seq_loop fx fuel' is_bol pending st1 acc n
      | (ROk [], st1) => (SOk, acc, n, st1)
      | (ROk (b :: w), st1) =>
        let src := b :: w in
        if is_bol && N.eqb b GT then (SOk, acc, n, st1)
        else if fx && is_bol && N.eqb b CR then
          a_seq_loop fx fuel' true false (br_consume 1 st1) acc (Datatypes.S n)
        else
          let acc1 := if pending && negb (N.eqb b LF) then acc ++ [CR] else acc in
          let line := until_lf src in
          let haslf := has_byte LF src in
          let len := if haslf then Datatypes.S (length line) else length src in
          a_seq_loop fx fuel' haslf (negb haslf && last_cr line) (br_consume len st1)
            (acc1 ++ strip_cr line) (n + len)
      end
    end.

  Definition a_read_sequence (fx : bool) (st : bstate S) : sres * list N * nat * bstate S :=
    a_seq_loop fx (fuelf st) true false st [] 0.
End Lines.

(* the state of /repo: false = CRs at the beginning of a sequence line are kept by the async reader *)
Definition fasta_bol_cr_fixed : bool := true.

(* closed form of the async sequence reader on the flat data; with fx = true it is C12's seq_out *)
Fixpoint aseq_out (fx : bool) (st : lstate) (d : list N) : list N :=
  match d with
  | [] => []
  | x :: r =>
    if N.eqb x LF then aseq_out fx BOL r
    else
      let cr_rule :=
        if N.eqb x CR then
          match r with
          | [] => []
          | y :: _ => if N.eqb y LF then aseq_out fx MID r else x :: aseq_out fx MID r
          end
        else x :: aseq_out fx MID r in
      match st with
      | BOL => if N.eqb x GT then []
               else if fx && N.eqb x CR then aseq_out fx BOL r
               else cr_rule
      | MID => cr_rule
      end
  end.

(* an input on which the unrepaired async reader and the sync reader agree: no line of the
   sequence starts with a CR that is followed by a byte other than LF (scanning stops at the next
   definition; a CR LF pair or a final CR at the beginning of a line is dropped by both) *)
Fixpoint no_bol_cr (st : lstate) (d : list N) : bool :=
  match d with
  | [] => true
  | x :: r =>
    if N.eqb x LF then no_bol_cr BOL r
    else match st with
         | BOL => if N.eqb x GT then true
                  else (negb (N.eqb x CR) || match r with [] => true | y :: _ => N.eqb y LF end)
                       && no_bol_cr MID r
         | MID => no_bol_cr MID r
         end
  end.

(* ---- entry points of the correspondence driver (kinds agff, afq, afa) ----------------------- *)
Definition async_gff_case (cap : nat) (codes : list nat) (data : list N) : list (nat * list N) * nat :=
  let '(ls, st) := g_gff_lines aread cap ab_fuel ab_left 64 (ab_start data codes) in
  (ls, length data - ab_left st).

Definition async_fastq_case (cap : nat) (codes : list nat) (data : list N)
  : list Fastq.qrec * option Fastq.qerr * nat :=
  let '(r, st) := a_read_qrecs aread cap ab_fuel (Datatypes.S (length data)) (ab_start data codes) in
  (r, length data - ab_left st).

(* (status, sequence, n returned, bytes consumed from the source) *)
Definition async_fasta_seq_case (cap : nat) (codes : list nat) (data : list N)
  : sres * list N * nat * nat :=
  match a_read_sequence aread cap ab_fuel fasta_bol_cr_fixed (ab_start data codes) with
  | (r, out, n, st) => (r, out, n, length data - ab_left st)
  end.

(* the sync readers on the same data, delivered whole (C12's runners; C12 proves that the delivery
   does not matter) *)
Definition sync_gff_case (data : list N) : list (nat * list N) * nat :=
  let '(ls, st) := gff_lines 64 64 ([], mkSource data []) in (ls, length data - b_left st).

Definition sync_fastq_case (data : list N) : list Fastq.qrec * option Fastq.qerr * nat :=
  let '(r, st) := run_fastq 64 (mkSource data []) in (r, length data - b_left st).

Definition sync_fasta_seq_case (data : list N) : sres * list N :=
  fst (run_read_sequence 64 (mkSource data [])).

(* ---- sam / vcf async header::Reader (async/io/reader/header.rs): the adapter's poll_fill_buf /
   consume are, statement for statement, those of the sync adapter (C12's h_fill_buf); driven by
   read_until(LF) until it returns 0 (header_reader(), and read_header's read_line loop):
   (raw header lines, status, bytes consumed) *)
Definition async_header_case (prefix : N) (cap : nat) (codes : list nat) (data : list N)
  : list (list N) * ures * nat :=
  match h_raw_lines aread cap prefix (Datatypes.S (length data)) (ab_fuel (ab_start data codes)) true
          (ab_start data codes) with
  | (hl, r, _, st1) => (hl, r, length data - ab_left st1)
  end.

Definition sync_header_case (prefix : N) (data : list N) : list (list N) * ures * nat :=
  match run_header prefix 64 (mkSource data []) with
  | (hl, r, pos, _, _) => (hl, r, pos)
  end.
