(* Proofs about NV.Async.IndexRead (C16):
   1. [async_prog_equals_sync]: ANY read program run over the awaited source under ANY poll
      script and over the scripted sync source under ANY delivery script returns what it returns
      on the bytes ([run_pure]) and leaves the same bytes behind (C19's run_rd_spec, twice).
   2. the binary-count loops are the unary loops; the GZI / BAI programs against C17's
      whole-buffer parsers (NV.Index.Layout.read_gzi / read_bai): [gzi_link], [bai_link].
   3. sync vs async (repaired /repo f641783, d76b74b): GZI equal for every count, BAI the same
      index AND the same error kind, for every byte string; the former counter-examples are
      kept as witnesses of equality. *)
From Coq Require Import List PArith NArith Arith Bool Lia ZifyBool ZifyNat ZifyN.
From NV Require Import Base.LE Io.Source Io.ReadExact Io.ReadExactProofs Io.Run Io.RunProofs.
From NV Require Import Async.ReadExact Async.ReadExactProofs.
From NV Require Import Trunc.Stream Trunc.Cram CramIdx.AsyncQuery CramIdx.AsyncQueryProofs.
From NV Require Index.Layout.
From NV Require Import Async.IndexRead.
Import ListNotations.
Local Open Scope nat_scope.

(* ---- 1. programs over the two sources ------------------------------------------------------- *)

Theorem async_prog_equals_sync : forall (A : Type) (p : prog A) polls req req' script d,
  exists a' t',
    run_rd aread req a_fuel p (mkASource d polls) = (rr_of (run_pure p d), a')
    /\ run_rd src_read req' src_fuel p (mkSource d script) = (rr_of (run_pure p d), t')
    /\ (forall v rest, run_pure p d = POk v rest -> a_data a' = rest /\ s_data t' = rest).
Proof.
  intros A p polls req req' script d.
  destruct (run_rd_spec aread rep_a aread_simulates req a_fuel rep_a_fuel A p
              (mkASource d polls) d 0 (rep_a_mk d polls)) as [a' [d1 [m1 [Ea [[Ha _] H1]]]]].
  destruct (run_rd_spec src_read rep_src src_simulates req' src_fuel rep_src_fuel A p
              (mkSource d script) d (n_interrupted script) ltac:(split; reflexivity))
    as [t' [d2 [m2 [Es [[Ht _] H2]]]]].
  exists a', t'. split; [exact Ea|]. split; [exact Es|].
  intros v rest E. split.
  - rewrite Ha. apply (H1 v rest E).
  - rewrite Ht. apply (H2 v rest E).
Qed.

Corollary async_prog_result_equals_sync : forall (A : Type) (p : prog A) polls req req' script d,
  fst (run_rd aread req a_fuel p (mkASource d polls))
  = fst (run_rd src_read req' src_fuel p (mkSource d script)).
Proof.
  intros A p polls req req' script d.
  destruct (async_prog_equals_sync A p polls req req' script d) as [a' [t' [Ea [Es _]]]].
  rewrite Ea, Es. reflexivity.
Qed.

(* two programs, one per side *)
Lemma async_progs_equal_sync : forall (A : Type) (pa ps : prog A) polls req req' script d,
  run_pure pa d = run_pure ps d ->
  fst (run_rd aread req a_fuel pa (mkASource d polls))
  = fst (run_rd src_read req' src_fuel ps (mkSource d script)).
Proof.
  intros A pa ps polls req req' script d E.
  destruct (async_prog_equals_sync A pa polls req req' script d) as [a' [_ [Ea _]]].
  destruct (async_prog_equals_sync A ps polls req req' script d) as [_ [t' [_ [Es _]]]].
  rewrite Ea, Es, E. reflexivity.
Qed.

(* ---- 2a. building blocks --------------------------------------------------------------------- *)

Lemma firstn_short_test : forall (n : nat) (d : list N),
  (length (firstn n d) <? n) = negb (n <=? length d).
Proof.
  intros n d. rewrite firstn_length.
  destruct (Nat.leb_spec n (length d)); destruct (Nat.ltb_spec (Nat.min n (length d)) n); cbn; lia.
Qed.

(* a read_exact whose UnexpectedEof is handed on unchanged is a plain read_exact *)
Lemma ix_le_as_eof : forall (A : Type) n (k : N -> prog A), peq (ix_le_as UnexpectedEof n k) (ix_le n k).
Proof.
  intros A n k d. unfold ix_le_as, ix_le. cbn [run_pure]. rewrite firstn_short_test.
  destruct (n <=? length d); reflexivity.
Qed.

Lemma run_pure_bind_assoc : forall (A B C : Type) (p : prog A) (f : A -> prog B) (g : B -> prog C) d,
  run_pure (p_bind (p_bind p f) g) d = run_pure (p_bind p (fun a => p_bind (f a) g)) d.
Proof.
  intros A B C p f g d. rewrite !run_pure_bind.
  destruct (run_pure p d) as [a r|e]; [rewrite run_pure_bind|]; reflexivity.
Qed.

Lemma ix_iter_nat_add : forall (St : Type) (body : St -> prog St) a b s d,
  run_pure (ix_iter_nat body (a + b) s) d
  = run_pure (p_bind (ix_iter_nat body a s) (fun s1 => ix_iter_nat body b s1)) d.
Proof.
  intros St body a b. induction a as [|a IH]; intros s d; [reflexivity|].
  cbn [Nat.add ix_iter_nat]. rewrite run_pure_bind_assoc, !run_pure_bind.
  destruct (run_pure (body s) d) as [s1 r|e]; [|reflexivity].
  rewrite IH, run_pure_bind. reflexivity.
Qed.

Lemma ix_iter_pos_nat : forall (St : Type) (body : St -> prog St) p s,
  peq (ix_iter_pos body p s) (ix_iter_nat body (Pos.to_nat p) s).
Proof.
  intros St body p. induction p as [q IH|q IH|]; intros s d.
  - rewrite Pos2Nat.inj_xI.
    replace (2 * Pos.to_nat q) with (Pos.to_nat q + Pos.to_nat q) by lia.
    cbn [ix_iter_pos ix_iter_nat]. rewrite !run_pure_bind.
    destruct (run_pure (body s) d) as [s0 r|e]; [|reflexivity].
    rewrite ix_iter_nat_add, !run_pure_bind, IH.
    destruct (run_pure (ix_iter_nat body (Pos.to_nat q) s0) r) as [s1 r1|e]; [apply IH|reflexivity].
  - rewrite Pos2Nat.inj_xO.
    replace (2 * Pos.to_nat q) with (Pos.to_nat q + Pos.to_nat q) by lia.
    cbn [ix_iter_pos]. rewrite ix_iter_nat_add, !run_pure_bind, IH.
    destruct (run_pure (ix_iter_nat body (Pos.to_nat q) s) d) as [s1 r1|e]; [apply IH|reflexivity].
  - cbn [ix_iter_pos]. change (Pos.to_nat 1) with 1. cbn [ix_iter_nat]. rewrite run_pure_bind.
    destruct (run_pure (body s) d); reflexivity.
Qed.

(* the loop on the binary count = `for _ in 0..n` *)
Theorem ix_iter_nat_eq : forall (St : Type) (body : St -> prog St) n s,
  peq (ix_iter body n s) (ix_iter_nat body (N.to_nat n) s).
Proof.
  intros St body n s. destruct n as [|p]; [intros d; reflexivity|].
  cbn [ix_iter N.to_nat]. apply ix_iter_pos_nat.
Qed.

(* ---- 2b. against C17's parsers --------------------------------------------------------------- *)

Definition to_opt {A : Type} (x : pres A) : option (A * list N) :=
  match x with POk a r => Some (a, r) | PErr _ => None end.

Lemma ix_le_opt : forall (A : Type) n (k : N -> prog A) d,
  run_pure (ix_le n k) d
  = match Layout.p_le n d with
    | Some (v, r) => run_pure (k v) r
    | None => PErr UnexpectedEof
    end.
Proof.
  intros A n k d. unfold ix_le, Layout.p_le. cbn [run_pure]. destruct (n <=? length d); reflexivity.
Qed.

Lemma ix_rd_opt : forall (A : Type) (sy : bool) n (k : N -> prog A) d,
  run_pure (ix_rd sy n k) d
  = match Layout.p_le n d with
    | Some (v, r) => run_pure (k v) r
    | None => PErr UnexpectedEof
    end.
Proof. intros A sy n k d. unfold ix_rd. apply ix_le_opt. Qed.

(* a loop that appends one parsed item per round = C17's p_repeat *)
Lemma iter_nat_repeat : forall (A : Type) (body : list A -> prog (list A)) (P : Layout.parser A),
  (forall acc d, to_opt (run_pure (body acc) d)
                 = match P d with Some (x, r) => Some (acc ++ [x], r) | None => None end) ->
  forall k acc d,
    to_opt (run_pure (ix_iter_nat body k acc) d)
    = match Layout.p_repeat k P d with Some (xs, r) => Some (acc ++ xs, r) | None => None end.
Proof.
  intros A body P H k. induction k as [|k IH]; intros acc d.
  - cbn. rewrite app_nil_r. reflexivity.
  - cbn [ix_iter_nat Layout.p_repeat]. rewrite run_pure_bind. pose proof (H acc d) as Hb.
    destruct (run_pure (body acc) d) as [s1 r1|e]; destruct (P d) as [[x r]|]; cbn [to_opt] in Hb;
      try discriminate Hb; [|reflexivity].
    inversion Hb; subst s1 r1. rewrite IH.
    destruct (Layout.p_repeat k P r) as [[xs r']|]; [|reflexivity].
    rewrite <- app_assoc. reflexivity.
Qed.

Lemma iter_repeat : forall (A : Type) (body : list A -> prog (list A)) (P : Layout.parser A),
  (forall acc d, to_opt (run_pure (body acc) d)
                 = match P d with Some (x, r) => Some (acc ++ [x], r) | None => None end) ->
  forall n d,
    to_opt (run_pure (ix_iter body n []) d) = Layout.p_repeat (N.to_nat n) P d.
Proof.
  intros A body P H n d. rewrite ix_iter_nat_eq, (iter_nat_repeat A body P H).
  destruct (Layout.p_repeat (N.to_nat n) P d) as [[xs r]|]; reflexivity.
Qed.

Lemma pair_body_opt : forall sy acc d,
  to_opt (run_pure (bai_chunk_body sy acc) d)
  = match Layout.p_chunk d with Some (x, r) => Some (acc ++ [x], r) | None => None end.
Proof.
  intros sy acc d. unfold bai_chunk_body, Layout.p_chunk. rewrite ix_rd_opt.
  destruct (Layout.p_le 8 d) as [[a r1]|]; [|reflexivity]. rewrite ix_rd_opt.
  destruct (Layout.p_le 8 r1) as [[b r2]|]; reflexivity.
Qed.

Lemma gzi_pair_body_opt : forall acc d,
  to_opt (run_pure (gzi_pair_body acc) d)
  = match Layout.p_chunk d with Some (x, r) => Some (acc ++ [x], r) | None => None end.
Proof. intros acc d. exact (pair_body_opt false acc d). Qed.

(* GZI: the sync reader accepts exactly what C17's read_gzi accepts, with the same index *)
Theorem gzi_link : forall d,
  match run_pure (p_gzi false) d with
  | POk (GIndex l) r => Layout.read_gzi d = Some l /\ r = []
  | PErr _ => Layout.read_gzi d = None
  end.
Proof.
  intros d. unfold p_gzi, Layout.read_gzi. rewrite ix_le_opt.
  destruct (Layout.p_le 8 d) as [[n r]|]; [|reflexivity].
  rewrite run_pure_bind. pose proof (iter_repeat Layout.chunkp gzi_pair_body Layout.p_chunk gzi_pair_body_opt n r) as H.
  destruct (run_pure (ix_iter gzi_pair_body n []) r) as [l r'|e]; cbn [to_opt] in H; rewrite <- H; [|reflexivity].
  unfold gzi_tail. cbn [run_pure]. destruct r' as [|x r']; cbn; auto.
Qed.

Lemma bai_chunks_opt : forall d, to_opt (run_pure (bai_chunks true) d) = Layout.p_chunks d.
Proof.
  intros d. unfold bai_chunks, Layout.p_chunks. rewrite ix_rd_opt.
  destruct (Layout.p_le 4 d) as [[n r]|]; [|reflexivity].
  destruct (n <? 2147483648)%N; cbn [negb]; [|reflexivity].
  apply (iter_repeat _ (bai_chunk_body true) Layout.p_chunk (pair_body_opt true)).
Qed.

Lemma bai_metadata_opt : forall d, to_opt (run_pure (bai_metadata true) d) = Layout.p_metadata_body d.
Proof.
  intros d. unfold bai_metadata, Layout.p_metadata_body. rewrite ix_rd_opt.
  destruct (Layout.p_le 4 d) as [[n r0]|]; [|reflexivity].
  destruct (n =? 2)%N; cbn [negb]; [|reflexivity].
  rewrite ix_rd_opt. destruct (Layout.p_le 8 r0) as [[a r1]|]; [|reflexivity].
  rewrite ix_rd_opt. destruct (Layout.p_le 8 r1) as [[b r2]|]; [|reflexivity].
  rewrite ix_rd_opt. destruct (Layout.p_le 8 r2) as [[c r3]|]; [|reflexivity].
  rewrite ix_rd_opt. destruct (Layout.p_le 8 r3) as [[e r4]|]; reflexivity.
Qed.

Definition bins_fin (st : bins_state) : prog bins_state := PRet (rev (fst st), snd st).

Lemma bai_bins_loop_opt : forall k acc m d,
  to_opt (run_pure (p_bind (ix_iter_nat (bai_bin_body true) k (acc, m)) bins_fin) d)
  = Layout.p_bins_loop k acc m d.
Proof.
  induction k as [|k IH]; intros acc m d; [reflexivity|].
  cbn [ix_iter_nat Layout.p_bins_loop]. rewrite run_pure_bind_assoc, run_pure_bind.
  unfold bai_bin_body at 1. rewrite ix_le_opt. cbn [fst snd].
  destruct (Layout.p_le 4 d) as [[id r]|]; [|reflexivity].
  destruct (id =? Layout.bai_metadata_id)%N.
  - rewrite run_pure_bind. pose proof (bai_metadata_opt r) as Hm.
    destruct (run_pure (bai_metadata true) r) as [md r'|e]; cbn [to_opt] in Hm; rewrite <- Hm; [|reflexivity].
    destruct m as [m0|]; [reflexivity|]. cbn [run_pure]. apply IH.
  - rewrite run_pure_bind. pose proof (bai_chunks_opt r) as Hc.
    destruct (run_pure (bai_chunks true) r) as [cs r'|e]; cbn [to_opt] in Hc; rewrite <- Hc; [|reflexivity].
    destruct (existsb (fun b => (fst b =? id)%N) acc); [reflexivity|]. cbn [run_pure]. apply IH.
Qed.

Lemma bai_bins_opt : forall d, to_opt (run_pure (bai_bins true) d) = Layout.p_bins d.
Proof.
  intros d. unfold bai_bins, Layout.p_bins. rewrite ix_le_opt.
  destruct (Layout.p_le 4 d) as [[n r]|]; [|reflexivity].
  rewrite <- bai_bins_loop_opt. rewrite !run_pure_bind, ix_iter_nat_eq. reflexivity.
Qed.

Lemma bai_interval_body_opt : forall acc d,
  to_opt (run_pure (bai_interval_body acc) d)
  = match Layout.p_le 8 d with Some (x, r) => Some (acc ++ [x], r) | None => None end.
Proof.
  intros acc d. unfold bai_interval_body. rewrite ix_le_opt.
  destruct (Layout.p_le 8 d) as [[v r]|]; reflexivity.
Qed.

Lemma bai_intervals_opt : forall d, to_opt (run_pure bai_intervals d) = Layout.p_intervals d.
Proof.
  intros d. unfold bai_intervals, Layout.p_intervals. rewrite ix_le_opt.
  destruct (Layout.p_le 4 d) as [[n r]|]; [|reflexivity].
  apply (iter_repeat _ bai_interval_body (Layout.p_le 8) bai_interval_body_opt).
Qed.

Lemma bai_ref_opt : forall d, to_opt (run_pure (bai_ref true) d) = Layout.p_bai_ref d.
Proof.
  intros d. unfold bai_ref, Layout.p_bai_ref. rewrite run_pure_bind.
  pose proof (bai_bins_opt d) as Hb.
  destruct (run_pure (bai_bins true) d) as [[bins m] r|e]; cbn [to_opt] in Hb; rewrite <- Hb; [|reflexivity].
  rewrite run_pure_bind. pose proof (bai_intervals_opt r) as Hi.
  destruct (run_pure bai_intervals r) as [iv r'|e]; cbn [to_opt] in Hi; rewrite <- Hi; reflexivity.
Qed.

Lemma bai_ref_body_opt : forall acc d,
  to_opt (run_pure (bai_ref_body true acc) d)
  = match Layout.p_bai_ref d with Some (x, r) => Some (acc ++ [x], r) | None => None end.
Proof.
  intros acc d. unfold bai_ref_body. rewrite run_pure_bind. pose proof (bai_ref_opt d) as H.
  destruct (run_pure (bai_ref true) d) as [x r|e]; cbn [to_opt] in H; rewrite <- H; reflexivity.
Qed.

Lemma bytes_eqb_eq : forall a b, bytes_eqb a b = true <-> a = b.
Proof.
  induction a as [|x a IH]; intros [|y b]; cbn [bytes_eqb]; split; intros H; try discriminate H; auto.
  - apply andb_prop in H. destruct H as [H1 H2]. apply N.eqb_eq in H1. apply IH in H2. subst. reflexivity.
  - inversion H; subst. rewrite N.eqb_refl. cbn [andb]. apply IH. reflexivity.
Qed.

(* after the magic: the rest of the BAI file, in C17's shape *)
Definition bai_after_magic (r0 : list N) : option Layout.bai_index :=
  match Layout.p_le 4 r0 with
  | None => None
  | Some (n, r1) =>
    match Layout.p_repeat (N.to_nat n) Layout.p_bai_ref r1 with
    | None => None
    | Some (refs, r2) =>
      match Layout.p_le 8 r2 with
      | Some (c, _) => Some (Layout.mkbai refs (Some c))
      | None => Some (Layout.mkbai refs None)
      end
    end
  end.

Lemma read_bai_magic : forall d,
  Layout.read_bai d
  = if (4 <=? length d) && bytes_eqb (firstn 4 d) Layout.bai_magic then bai_after_magic (skipn 4 d) else None.
Proof.
  intros d. unfold Layout.read_bai, bai_after_magic.
  destruct d as [|b0 [|b1 [|b2 [|b3 r0]]]]; try reflexivity;
    try (destruct b0 as [|p0]; [reflexivity|]; do 7 (try destruct p0 as [p0|p0|]); reflexivity).
  - destruct b0 as [|p0]; [reflexivity|]; do 7 (try destruct p0 as [p0|p0|]); try reflexivity.
    destruct b1 as [|p1]; [reflexivity|]; do 7 (try destruct p1 as [p1|p1|]); reflexivity.
  - destruct b0 as [|p0]; [reflexivity|]; do 7 (try destruct p0 as [p0|p0|]); try reflexivity.
    destruct b1 as [|p1]; [reflexivity|]; do 7 (try destruct p1 as [p1|p1|]); try reflexivity.
    destruct b2 as [|p2]; [reflexivity|]; do 7 (try destruct p2 as [p2|p2|]); reflexivity.
  - destruct b0 as [|p0]; [reflexivity|]; do 7 (try destruct p0 as [p0|p0|]); try reflexivity.
    destruct b1 as [|p1]; [reflexivity|]; do 7 (try destruct p1 as [p1|p1|]); try reflexivity.
    destruct b2 as [|p2]; [reflexivity|]; do 7 (try destruct p2 as [p2|p2|]); try reflexivity.
    destruct b3 as [|p3]; [reflexivity|]; do 2 (try destruct p3 as [p3|p3|]); reflexivity.
Qed.

(* BAI: the sync reader accepts exactly what C17's read_bai accepts, with the same index *)
Theorem bai_link : forall d,
  Layout.read_bai d = match run_pure (p_bai true) d with POk i _ => Some i | PErr _ => None end.
Proof.
  intros d. rewrite read_bai_magic. unfold p_bai. cbn [run_pure].
  destruct (4 <=? length d); [|reflexivity]. cbn [andb].
  destruct (bytes_eqb (firstn 4 d) Layout.bai_magic); cbn [negb]; [|reflexivity].
  unfold bai_after_magic. rewrite ix_le_opt.
  destruct (Layout.p_le 4 (skipn 4 d)) as [[n r1]|]; [|reflexivity].
  rewrite run_pure_bind.
  pose proof (iter_repeat _ (bai_ref_body true) Layout.p_bai_ref bai_ref_body_opt n r1) as H.
  destruct (run_pure (ix_iter (bai_ref_body true) n []) r1) as [refs r2|e]; cbn [to_opt] in H; rewrite <- H; [|reflexivity].
  unfold bai_unplaced. cbn [p_bind run_pure]. unfold Layout.p_le. rewrite firstn_short_test.
  destruct (8 <=? length r2); reflexivity.
Qed.

(* ---- 3a. GZI: async = sync, for every count ---------------------------------------------------- *)

(* one program for both readers (since /repo f641783) *)
Lemma gzi_sides_equal : p_gzi true = p_gzi false.
Proof. reflexivity. Qed.

Theorem async_gzi_reader_equals_sync : forall polls req req' script d,
  fst (run_rd aread req a_fuel (p_gzi true) (mkASource d polls))
  = fst (run_rd src_read req' src_fuel (p_gzi false) (mkSource d script)).
Proof.
  intros polls req req' script d. apply async_progs_equal_sync. reflexivity.
Qed.

(* the former counter-example (a count of 2^59 and nothing else: the async reader used to panic in
   Vec::with_capacity): UnexpectedEof on both sides now *)
Theorem async_gzi_reader_huge_count_now_equal : forall polls req req' script,
  fst (run_rd aread req a_fuel (p_gzi true) (mkASource [0; 0; 0; 0; 0; 0; 0; 8]%N polls)) = RErr UnexpectedEof
  /\ fst (run_rd src_read req' src_fuel (p_gzi false) (mkSource [0; 0; 0; 0; 0; 0; 0; 8]%N script)) = RErr UnexpectedEof.
Proof.
  intros polls req req' script.
  destruct (async_prog_equals_sync _ (p_gzi true) polls req req' script [0; 0; 0; 0; 0; 0; 0; 8]%N)
    as [a' [_ [Ea _]]].
  destruct (async_prog_equals_sync _ (p_gzi false) polls req req' script [0; 0; 0; 0; 0; 0; 0; 8]%N)
    as [_ [t' [_ [Es _]]]].
  rewrite Ea, Es. split; vm_compute; reflexivity.
Qed.

(* ---- 3b. BAI: async = sync, same index AND same error kind ------------------------------------- *)

(* the two flavours are one program (since /repo d76b74b) *)
Lemma bai_sides_equal : p_bai true = p_bai false.
Proof. reflexivity. Qed.

Theorem async_bai_reader_equals_sync : forall polls req req' script d,
  fst (run_rd aread req a_fuel (p_bai false) (mkASource d polls))
  = fst (run_rd src_read req' src_fuel (p_bai true) (mkSource d script)).
Proof.
  intros polls req req' script d. apply async_progs_equal_sync. reflexivity.
Qed.

(* whenever either reader returns an index, so does the other: the same one *)
Theorem async_bai_index_equals_sync : forall polls req req' script d i,
  (fst (run_rd aread req a_fuel (p_bai false) (mkASource d polls)) = RVal i
   <-> fst (run_rd src_read req' src_fuel (p_bai true) (mkSource d script)) = RVal i).
Proof.
  intros polls req req' script d i. rewrite (async_bai_reader_equals_sync polls req req' script d). tauto.
Qed.

(* ... and it is the index C17's whole-buffer parser returns *)
Theorem async_bai_reader_link : forall polls req d i,
  (fst (run_rd aread req a_fuel (p_bai false) (mkASource d polls)) = RVal i <-> Layout.read_bai d = Some i).
Proof.
  intros polls req d i.
  rewrite (async_bai_index_equals_sync polls req req [] d i).
  destruct (async_prog_equals_sync _ (p_bai true) polls req req [] d) as [_ [t' [_ [Es _]]]].
  rewrite Es, bai_link. cbn [fst]. destruct (run_pure (p_bai true) d) as [j r|e]; cbn [rr_of].
  - split; intros X; inversion X; reflexivity.
  - split; intros X; discriminate X.
Qed.

Theorem async_gzi_reader_link : forall polls req d l,
  (fst (run_rd aread req a_fuel (p_gzi true) (mkASource d polls)) = RVal (GIndex l) <-> Layout.read_gzi d = Some l).
Proof.
  intros polls req d l.
  destruct (async_prog_equals_sync _ (p_gzi true) polls req req [] d) as [a' [_ [Ea _]]].
  rewrite Ea, gzi_sides_equal. cbn [fst]. pose proof (gzi_link d) as H.
  destruct (run_pure (p_gzi false) d) as [[j] r|e]; cbn [rr_of].
  - destruct H as [H _]. rewrite H. split; intros X; inversion X; reflexivity.
  - rewrite H. split; intros X; discriminate X.
Qed.

(* the former counter-examples: a file cut inside a bin's n_chunk (sync used to say InvalidData)
   and a negative n_chunk (async used to say UnexpectedEof) *)
Definition bai_cut_in_bin : list N := [66; 65; 73; 1; 1; 0; 0; 0; 1; 0; 0; 0; 5; 0; 0; 0; 1; 0]%N.
Definition bai_negative_n_chunk : list N :=
  [66; 65; 73; 1; 1; 0; 0; 0; 1; 0; 0; 0; 5; 0; 0; 0; 0; 0; 0; 128]%N.

Theorem async_bai_reader_former_differences_now_equal : forall polls req req' script,
  fst (run_rd aread req a_fuel (p_bai false) (mkASource bai_cut_in_bin polls)) = RErr UnexpectedEof
  /\ fst (run_rd src_read req' src_fuel (p_bai true) (mkSource bai_cut_in_bin script)) = RErr UnexpectedEof
  /\ fst (run_rd aread req a_fuel (p_bai false) (mkASource bai_negative_n_chunk polls)) = RErr InvalidData
  /\ fst (run_rd src_read req' src_fuel (p_bai true) (mkSource bai_negative_n_chunk script)) = RErr InvalidData.
Proof.
  intros polls req req' script.
  destruct (async_prog_equals_sync _ (p_bai false) polls req req' script bai_cut_in_bin) as [a1 [_ [Ea1 _]]].
  destruct (async_prog_equals_sync _ (p_bai true) polls req req' script bai_cut_in_bin) as [_ [t1 [_ [Es1 _]]]].
  destruct (async_prog_equals_sync _ (p_bai false) polls req req' script bai_negative_n_chunk) as [a2 [_ [Ea2 _]]].
  destruct (async_prog_equals_sync _ (p_bai true) polls req req' script bai_negative_n_chunk) as [_ [t2 [_ [Es2 _]]]].
  rewrite Ea1, Es1, Ea2, Es2. repeat split; vm_compute; reflexivity.
Qed.
