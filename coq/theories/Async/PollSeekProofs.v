(* Proofs about NV.Async.PollSeek: for every poll script of AsyncSeek::poll_complete the polled
   seek moves the source to the requested offset, hence equals `async fn seek` and the sync seek. *)
From Coq Require Import List NArith PeanoNat Lia Bool.
From NV Require Import Bgzf.Vpos Bgzf.Gzi Bgzf.ReaderOps Io.Sched Io.SchedProofs.
From NV Require Import Async.Reader Async.ReaderProofs Async.PollSeek.
Import ListNotations.
Open Scope N_scope.

(* a seek is in flight: only the post-seek poll_complete remains *)
Lemma infl_seek_flight : forall sc fuel pos c, (length sc < fuel)%nat ->
  infl_seek fuel (mkInfl (mkSrc pos (Some c)) true) c sc = Some (mkInfl (mkSrc c None) false).
Proof.
  induction sc as [|b sc IH]; intros fuel pos c Hf; (destruct fuel as [|k]; [cbn in Hf; lia|]).
  - reflexivity.
  - cbn [length] in Hf. destruct b.
    + cbn [infl_seek infl_poll_seek i_seeking next_ev src_poll_complete i_src]. apply IH. lia.
    + reflexivity.
Qed.

(* MAIN: from an idle source at ANY offset, under ANY poll script, the polled seek ends with the
   source at the requested offset, no seek in flight, is_seeking cleared *)
Lemma infl_seek_lands : forall sc fuel pos c, (length sc < fuel)%nat ->
  infl_seek fuel (mkInfl (mkSrc pos None) false) c sc = Some (mkInfl (mkSrc c None) false).
Proof.
  induction sc as [|b sc IH]; intros fuel pos c Hf; (destruct fuel as [|k]; [cbn in Hf; lia|]).
  - reflexivity.
  - cbn [length] in Hf. destruct b.
    + (* the pre-seek poll_complete is Pending: nothing has happened, is_seeking stays false *)
      cbn [infl_seek infl_poll_seek i_seeking next_ev src_poll_complete i_src]. apply IH. lia.
    + cbn [infl_seek infl_poll_seek i_seeking next_ev src_poll_complete i_src sp_target sp_pos src_start_seek].
      destruct sc as [|b2 sc2].
      * reflexivity.
      * cbn [next_ev]. destruct b2.
        -- cbn [src_poll_complete i_src i_seeking]. apply infl_seek_flight. cbn [length] in Hf. lia.
        -- reflexivity.
Qed.

Section Sim.
  Variables (W P : nat) (sch : nat -> list act).
  Hypothesis HW : (0 < W)%nat.
  Hypothesis HP : (0 < P)%nat.

  Lemma a_seek_at_target : forall f s v, a_seek_at W P sch f s v (vcomp v) = a_seek W P sch f s v.
  Proof. reflexivity. Qed.

  Theorem poll_seek_equals_seek : forall f s v src_at sc,
    a_poll_seek W P sch f s v src_at sc = a_seek W P sch f s v.
  Proof.
    clear HW HP. intros f s v src_at sc. unfold a_poll_seek.
    rewrite (infl_seek_lands sc (S (length sc)) src_at (vcomp v)) by lia.
    cbn [i_src sp_pos]. apply a_seek_at_target.
  Qed.

  Lemma xstep_sim : forall f idx s st o, small f -> R s st ->
    sim (a_xstep W P sch f idx s o) (ReaderOps.step true f idx st (erase o)).
  Proof.
    intros f idx s st o Hf H. destruct o as [o|v sc]; cbn [a_xstep erase].
    - apply step_sim; assumption.
    - rewrite poll_seek_equals_seek. cbn [ReaderOps.step].
      destruct (seek_sim W P sch HW HP f s st v Hf H) as [H1 H2].
      destruct (a_seek W P sch f s v), (seek true f st v). cbn [fst snd] in *. subst.
      split; [exact H1|reflexivity].
  Qed.

  Lemma xrun_sim : forall f idx ops s st, small f -> R s st ->
    a_xrun W P sch f idx s ops = ReaderOps.run true f idx st (map erase ops).
  Proof.
    induction ops as [|o ops IH]; intros s st Hf H; cbn [a_xrun ReaderOps.run map]; [reflexivity|].
    destruct (xstep_sim f idx s st o Hf H) as [H1 H2].
    destruct (a_xstep W P sch f idx s o) as [s1 x].
    destruct (ReaderOps.step true f idx st (erase o)) as [st1 y].
    cbn [fst snd] in H1, H2. subst y. rewrite (vpos_R _ _ H1). f_equal. apply IH; assumption.
  Qed.

  Theorem async_reader_with_poll_seek_equals_sync : forall f idx ops, small f ->
    a_xrun W P sch f idx (a_init f) ops
    = ReaderOps.run true f idx (ReaderOps.init f) (map erase ops).
  Proof. intros f idx ops Hf. apply xrun_sim; [exact Hf|apply init_R; exact Hf]. Qed.
End Sim.

(* The defect class this model separates: a seek that reports success while the source has NOT
   moved (Inflater::poll_seek setting is_seeking before the pre-seek poll_complete: after one
   Pending it skips start_seek).  Then the reader continues from the old source offset: *)
Example stale_source_differs :
  let f := [mkFrame 30 [1; 2; 3]; mkFrame 31 [4; 5; 6; 7]; mkFrame 28 []]%N in
  let s := a_init f in
  snd (a_poll_seek 1 1 (fun _ => []) f s (pack 0 0) 61 [true]) = Ok (pack 0 0) /\
  a_virtual_position (cs (fst (a_poll_seek 1 1 (fun _ => []) f s (pack 0 0) 61 [true]))) = Ok (pack 0 0) /\
  (* what the flawed variant does: success, but the pipeline restarts at offset 61 (the EOF marker) *)
  a_virtual_position (cs (fst (a_seek_at 1 1 (fun _ => []) f s (pack 0 0) 61))) = Ok (pack 28 0).
Proof. vm_compute. repeat split. Qed.
