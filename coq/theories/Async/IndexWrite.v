(* C16 -- the async index writers, as the list of buffers they hand to the sink.

   Every async index writer of noodles is a straight-line sequence of tokio write calls on the
   sink (`write_all(&buf).await`, `write_u32_le(x).await`, `write_i32_le`, `write_u64_le`,
   `write_u8`): each one is a `write_all` of the value's little-endian bytes, so a run of the
   writer is a list of buffers (one element per call, in order) plus the way it ends:
     SOk     every call was made, the writer returns Ok(())
     SErr    a conversion failed (`u32::try_from(id)`, `i32::try_from(len)`, ...) or a field is
             invalid: the writer returns io::Error InvalidInput; the calls made BEFORE the failing
             statement have already reached the sink
     SPanic  a statement panics (`i.checked_add(1).expect(..)` of the tabix header columns,
             `Bin::metadata_id(depth)` for depth > 10)
   (`wstatus` is C17's NV.Index.CsiLayout.wstatus.)  The input types are C17's index values
   (NV.Index.Layout / NV.Index.CsiLayout), so the result can be compared with C17's byte layouts
   w_gzi / w_bai / w_csi_bytes / w_tbi_bytes, which C17 ties to the SYNC writers.

   Sources (async | sync):
     gzi    noodles-bgzf/src/gzi/async/io/writer/index.rs        | gzi/io/writer/index.rs
     BAI    noodles-bam/src/bai/async/io/writer/index/**         | bai/io/writer/index/**
     CSI    noodles-csi/src/async/io/writer/index/**             | src/io/writer/index/**
     tabix  noodles-tabix/src/async/io/writer/index/**           | src/io/writer/index/**
   For CSI and tabix the "sink" of these calls is the async BGZF writer: the buffers below are the
   uncompressed payload handed to it (the BGZF layer is NV.Async.Writer's business).

   Where the async writers are built differently from the sync ones:
     * gzi/BAI/CSI/tabix sync writers format each integer into a stack array and call
       `Write::write_all`; the async ones call tokio's `write_u32_le` etc. (a future that loops
       `poll_write` over the same 4/8 bytes).  Same bytes per call.
     * CSI: both writers serialise the aux (tabix header) with the SYNC header writer into a
       temporary Vec first (async/io/writer/index/header.rs::write_aux calls
       crate::io::writer::index::header::write_header), so an invalid header fails before l_aux
       is written; then `write_i32_le(l_aux)` and `write_all(&aux)` -- with no header that is a
       write_all of the empty buffer (no poll_write at all).
     * CSI n_bin: the sync writer does `n_bin += 1` (an overflow panic at i32::MAX bins under
       overflow-checks), the async one `checked_add(1)` -> InvalidInput.  Both need 2^31 - 1 bins
       in one reference sequence; the model follows the async code (SErr) and the theorems that
       compare statuses assume the counts fit.
     * CSI per-bin loffset: both call io::writer::index::reference_sequences::bins::
       first_record_start_position (the minimum over the ancestor chain; C17's stored_loffset) --
       the async writer used the bin's own entry and omitted n_ref before repair e9d48db.
     * tabix: the async writer has its own copy of the header writer (one tokio call per field;
       `write_all(name)` then `write_u8(NUL)` per name), the sync one uses noodles-csi's
       write_header.  Same order of validation and writing: each field is validated immediately
       before it is written, a missing header is reported after magic and n_ref were written.
     * the optional trailing unplaced-unmapped count (n_no_coor) is written by all eight writers
       exactly when the index has one.
   Definitions only; proofs in IndexWriteProofs.v. *)
From Coq Require Import List Arith NArith Bool.
From NV Require Import Base.LE Index.Bins Index.Chunks Index.Indexer Index.CsiLoffset Index.Layout
  Index.CsiLayout.
Import ListNotations.
Open Scope N_scope.

(* ---------- runs of an async writer ---------- *)
Definition aw := (list (list N) * wstatus)%type.

Definition aw_ret (bufs : list (list N)) : aw := (bufs, SOk).
Definition aw_fail (s : wstatus) : aw := ([], s).
(* `a.await?; b` *)
Definition aw_seq (a b : aw) : aw :=
  match snd a with SOk => (fst a ++ fst b, snd b) | s => (fst a, s) end.
Infix "+>" := aw_seq (at level 60, right associativity).
(* `for x in l { f(x).await?; }` *)
Fixpoint aw_each {A : Type} (f : A -> aw) (l : list A) : aw :=
  match l with
  | [] => aw_ret []
  | x :: r => f x +> aw_each f r
  end.
(* `let n = T::try_from(..).map_err(InvalidInput)?; rest` *)
Definition aw_guard (fits : bool) (a : aw) : aw := if fits then a else aw_fail SErr.

Definition aw_calls (a : aw) : list (list N) := fst a.
Definition aw_end (a : aw) : wstatus := snd a.
Definition aw_bytes (a : aw) : list N := concat (fst a).
Definition aw_lens (a : aw) : list nat := map (@length N) (fst a).

(* write_u32_le / write_i32_le (of a value that fits) and write_u64_le: one call each *)
Definition a_u32 (n : N) : aw := aw_ret [le32 n].
Definition a_u64 (n : N) : aw := aw_ret [le64 n].
Definition a_opt_u64 (u : option N) : aw := match u with Some n => a_u64 n | None => aw_ret [] end.

Definition u32_lim : N := 4294967296.
Definition i32_lim : N := 2147483648.
(* `T::try_from(len)` for a count field whose type has `lim` values >= 0 *)
Definition len_fits (lim : N) (n : nat) : bool := N.of_nat n <? lim.
Definition id_fits (id : N) : bool := negb (u32_lim <=? id).

(* ---------- gzi ---------- *)
(* len: u64::try_from(usize) cannot fail *)
Definition a_chunk (c : chunkp) : aw := a_u64 (fst c) +> a_u64 (snd c).
Definition async_gzi (idx : list (N * N)) : aw :=
  a_u64 (N.of_nat (length idx)) +> aw_each a_chunk idx.

(* ---------- BAI and tabix reference sequences (count fields: u32 for BAI, i32 for tabix) ------- *)
Definition a_chunks (lim : N) (cs : list chunkp) : aw :=
  aw_guard (len_fits lim (length cs)) (a_u32 (N.of_nat (length cs)) +> aw_each a_chunk cs).

Definition a_lin_bin (lim : N) (b : binp) : aw :=
  aw_guard (id_fits (fst b)) (a_u32 (fst b) +> a_chunks lim (snd b)).

(* metadata pseudo-bin of BAI / tabix: id 37450 and chunk count 2 as u32 (constants), 4 x u64 *)
Definition a_lin_metadata (m : metadata) : aw :=
  a_u32 bai_metadata_id +> a_u32 2 +> a_u64 (m_beg m) +> a_u64 (m_end m)
  +> a_u64 (m_mapped m) +> a_u64 (m_unmapped m).

Definition a_opt_lin_metadata (m : option metadata) : aw :=
  match m with Some md => a_lin_metadata md | None => aw_ret [] end.

Definition n_bin_of (n : nat) (m : option metadata) : N :=
  N.of_nat n + match m with Some _ => 1 | None => 0 end.

(* n_bin = T::try_from(len) and then checked_add(1) when there is metadata: both InvalidInput *)
Definition a_lin_bins (lim : N) (bins : list binp) (m : option metadata) : aw :=
  aw_guard (len_fits lim (length bins) && (n_bin_of (length bins) m <? lim))
    (a_u32 (n_bin_of (length bins) m) +> aw_each (a_lin_bin lim) bins
     +> a_opt_lin_metadata m).

Definition a_intervals (lim : N) (l : list N) : aw :=
  aw_guard (len_fits lim (length l)) (a_u32 (N.of_nat (length l)) +> aw_each a_u64 l).

Definition a_lin_ref (lim : N) (r : bai_ref) : aw :=
  a_lin_bins lim (br_bins r) (br_meta r) +> a_intervals lim (br_intervals r).

(* ---------- BAI ---------- *)
Definition async_bai (i : bai_index) : aw :=
  aw_ret [bai_magic]
  +> aw_guard (len_fits u32_lim (length (bi_refs i)))
       (a_u32 (N.of_nat (length (bi_refs i))) +> aw_each (a_lin_ref u32_lim) (bi_refs i)
        +> a_opt_u64 (bi_unplaced i)).

(* the sync BAI writer's result (C17's w_bai has no status: it models indexes whose bin ids are
   u32): InvalidInput at the first bin id that is not a u32 -- C17's tbi_ref_status, the tabix
   bins being BAI bins *)
Definition bai_status (i : bai_index) : wstatus :=
  fold_right (fun r s => sseq (tbi_ref_status r) s) SOk (bi_refs i).

(* no count reaches the limit of its field *)
Definition lin_ref_fits (lim : N) (r : bai_ref) : bool :=
  len_fits lim (length (br_bins r)) && (n_bin_of (length (br_bins r)) (br_meta r) <? lim)
  && forallb (fun b => len_fits lim (length (snd b))) (br_bins r)
  && len_fits lim (length (br_intervals r)).
Definition bai_fits (i : bai_index) : bool :=
  len_fits u32_lim (length (bi_refs i)) && forallb (lin_ref_fits u32_lim) (bi_refs i).

(* ---------- CSI ---------- *)
(* write_aux: the SYNC tabix-header writer into a Vec (C17: header_status / w_header), then
   l_aux as i32 and one write_all of the Vec *)
Definition a_csi_aux (h : option header) : aw :=
  match h with
  | None => a_u32 0 +> aw_ret [[]]
  | Some hd =>
    match header_status hd with
    | SOk => aw_guard (len_fits i32_lim (length (w_header hd)))
               (a_u32 (N.of_nat (length (w_header hd))) +> aw_ret [w_header hd])
    | s => aw_fail s
    end
  end.

Definition a_csi_bin (lm : loffmap) (b : N * list chunk) : aw :=
  aw_guard (id_fits (fst b))
    (a_u32 (fst b) +> a_u64 (stored_loffset lm (fst b)) +> a_chunks i32_lim (snd b)).

(* Bin::metadata_id(depth) panics for depth > 10 before anything of the pseudo-bin is written *)
Definition a_csi_metadata (d : nat) (m : metadata) : aw :=
  if (10 <? d)%nat then aw_fail SPanic
  else a_u32 (metadata_id d) +> a_u64 0 +> a_u32 2 +> a_u64 (m_beg m) +> a_u64 (m_end m)
       +> a_u64 (m_mapped m) +> a_u64 (m_unmapped m).

Definition a_opt_csi_metadata (d : nat) (m : option metadata) : aw :=
  match m with Some md => a_csi_metadata d md | None => aw_ret [] end.

Definition a_csi_ref (d : nat) (r : csi_ref) : aw :=
  aw_guard (len_fits i32_lim (length (cr_bins r)) && (n_bin_of (length (cr_bins r)) (cr_meta r) <? i32_lim))
    (a_u32 (n_bin_of (length (cr_bins r)) (cr_meta r)) +> aw_each (a_csi_bin (cr_loffs r)) (cr_bins r)
     +> a_opt_csi_metadata d (cr_meta r)).

Definition async_csi (i : csi_index) : aw :=
  aw_ret [csi_magic] +> a_u32 (ci_ms i) +> a_u32 (N.of_nat (ci_depth i)) +> a_csi_aux (ci_header i)
  +> aw_guard (len_fits i32_lim (length (ci_refs i)))
       (a_u32 (N.of_nat (length (ci_refs i))) +> aw_each (a_csi_ref (ci_depth i)) (ci_refs i)
        +> a_opt_u64 (ci_unplaced i)).

Definition csi_ref_fits (r : csi_ref) : bool :=
  len_fits i32_lim (length (cr_bins r)) && (n_bin_of (length (cr_bins r)) (cr_meta r) <? i32_lim)
  && forallb (fun b => len_fits i32_lim (length (snd b))) (cr_bins r).
Definition csi_fits (i : csi_index) : bool :=
  match ci_header i with Some hd => len_fits i32_lim (length (w_header hd)) | None => true end
  && len_fits i32_lim (length (ci_refs i)) && forallb csi_ref_fits (ci_refs i).

(* ---------- tabix ---------- *)
(* i.checked_add(1).expect(..), i32::try_from, write_i32_le *)
Definition a_col (i : N) : aw :=
  match col_status i with SOk => a_u32 (i + 1) | s => aw_fail s end.
Definition a_tbx_end (h : header) : aw :=
  if is_samvcf (h_format h)
  then match h_end h with Some _ => aw_fail SErr | None => a_u32 0 end
  else a_col (end_col h).
(* per name: is_valid, write_all(name), write_u8(NUL) *)
Definition a_tbx_name (n : list N) : aw := aw_guard (negb (has_nul n)) (aw_ret [n; [0]]).
Definition a_tbx_names (names : list (list N)) : aw :=
  aw_guard (negb (i32_max <? names_len names))
    (a_u32 (names_len names) +> aw_each a_tbx_name names).
Definition a_tbx_header (h : header) : aw :=
  a_u32 (format_code (h_format h)) +> a_col (h_seq h) +> a_col (h_beg h) +> a_tbx_end h
  +> a_u32 (h_meta h) +> aw_guard (negb (i32_max <? h_skip h)) (a_u32 (h_skip h))
  +> a_tbx_names (h_names h).

Definition async_tbi (i : tbi_index) : aw :=
  aw_ret [tbi_magic]
  +> aw_guard (len_fits i32_lim (length (ti_refs i)))
       (a_u32 (N.of_nat (length (ti_refs i)))
        +> match ti_header i with
           | None => aw_fail SErr
           | Some h => a_tbx_header h +> aw_each (a_lin_ref i32_lim) (ti_refs i)
                       +> a_opt_u64 (ti_unplaced i)
           end).

Definition tbi_fits (i : tbi_index) : bool :=
  len_fits i32_lim (length (ti_refs i)) && forallb (lin_ref_fits i32_lim) (ti_refs i).

(* ---------- what "the async writer hands the sink the sync writer's bytes" means ----------
   ok: exactly the layout; otherwise: the calls made before the failure are a prefix of it *)
Definition aw_refines (a : aw) (full : list N) : Prop :=
  (snd a = SOk -> aw_bytes a = full) /\ exists rest, full = aw_bytes a ++ rest.

(* ---------- entry points of the correspondence driver (kinds wgzi wbai wcsi wtbi) ---------- *)
(* statuses as numbers: 0 Ok, 1 io::Error InvalidInput, 2 panic (the driver only prints; a
   number keeps it independent of how extraction renames the constructors of wstatus, which
   clash with other C16 models' in one model.ml) *)
Definition status_code (s : wstatus) : N := match s with SOk => 0 | SErr => 1 | SPanic => 2 end.
Record idxw_obs := mkIdxwObs {
  io_calls : list nat;      (* lengths of the async writer's write calls *)
  io_bytes : list N;        (* their concatenation *)
  io_end : N;               (* how the async writer ends *)
  io_sync_end : N;          (* C17: how the sync writer ends *)
  io_sync : list N          (* C17: the sync writer's bytes (meaningful when it ends Ok) *)
}.
Definition idxw_obs_of (a : aw) (s : wstatus) (bs : list N) : idxw_obs :=
  mkIdxwObs (aw_lens a) (aw_bytes a) (status_code (snd a)) (status_code s) bs.

Definition idxw_gzi_case (idx : list (N * N)) : idxw_obs := idxw_obs_of (async_gzi idx) SOk (w_gzi idx).
Definition idxw_bai_case (i : bai_index) : idxw_obs := idxw_obs_of (async_bai i) (bai_status i) (w_bai i).
Definition idxw_csi_case (i : csi_index) : idxw_obs := idxw_obs_of (async_csi i) (csi_status i) (w_csi_bytes i).
Definition idxw_tbi_case (i : tbi_index) : idxw_obs := idxw_obs_of (async_tbi i) (tbi_status i) (w_tbi_bytes i).
