(* C16 -- the async FASTA reader as a RECORD stream: read_definition (async/io/reader/definition.rs:
   read_line + the sync parse_definition on the line) and read_sequence (async/io/reader/sequence.rs,
   modelled in NV.Async.Lines) alternately, until read_definition returns 0 or an error -- what the
   sync Records iterator (io/reader/records.rs) does with the sync twins.

   C12 proves what a read_sequence call RETURNS under every delivery but has no closed form for
   where it leaves the reader; [seq_rest] is that closed form: the data from the first '>' that
   stands at the beginning of a line (after any CRs), or nothing.  With it the whole stream has a
   closed form on the flat data, [fasta_records_closed]; C11's line-driven model of the sync reader
   is NV.Fasta.Reader.read_file.  Definitions only; proofs in FastaRecordsProofs.v. *)
From Coq Require Import List NArith Arith Bool.
From NV Require Import Io.Source Io.ReadExact Io.BufReader Io.FastaScan Io.Run.
From NV Require Import Async.ReadExact Async.Lines.
From NV Require Fasta.Layout Fasta.Reader.
Import ListNotations.

(* where a read_sequence call leaves the reader *)
Fixpoint seq_rest (st : lstate) (d : list N) : list N :=
  match d with
  | [] => []
  | x :: r =>
    if N.eqb x LF then seq_rest BOL r
    else match st with
         | BOL => if N.eqb x GT then d else seq_rest (if N.eqb x CR then BOL else MID) r
         | MID => seq_rest MID r
         end
  end.

Inductive fend := FEnd | FInvalidData | FNoFuel.

Definition mk_frec (nm ds sq : list N) : Reader.frec :=
  Reader.mkfrec nm (match ds with [] => None | _ :: _ => Some ds end) sq.

Section Recs.
  Context {S : Type}.
  Variable rd : reader S.
  Variable cap : nat.
  Variable fuelf : bstate S -> nat.

  Fixpoint a_fasta_records (k : nat) (st : bstate S) : list Reader.frec * fend * bstate S :=
    match k with
    | 0 => ([], FNoFuel, st)
    | Datatypes.S k' =>
      match read_line rd cap (fuelf st) st with
      | (_, _, UNoFuel, st1) => ([], FNoFuel, st1)
      | (0, _, UOk, st1) => ([], FEnd, st1)
      | (_, line, UOk, st1) =>
        match Layout.parse_def line with
        | None => ([], FInvalidData, st1)
        | Some (nm, ds) =>
          match a_read_sequence rd cap fuelf fasta_bol_cr_fixed st1 with
          | (SNoFuel, _, _, st2) => ([], FNoFuel, st2)
          | (SOk, sq, _, st2) =>
            let '(rs, e, st3) := a_fasta_records k' st2 in (mk_frec nm ds sq :: rs, e, st3)
          end
        end
      end
    end.
End Recs.

(* the closed form on the flat data *)
Fixpoint fasta_records_closed (k : nat) (d : list N) : list Reader.frec * fend :=
  match k with
  | 0 => ([], FNoFuel)
  | Datatypes.S k' =>
    match d with
    | [] => ([], FEnd)
    | _ :: _ =>
      let l := take_line LF d in
      match Layout.parse_def (strip_eol l) with
      | None => ([], FInvalidData)
      | Some (nm, ds) =>
        let d1 := skipn (length l) d in
        let '(rs, e) := fasta_records_closed k' (seq_rest BOL d1) in
        (mk_frec nm ds (seq_out BOL d1) :: rs, e)
      end
    end
  end.

(* ---- entry points of the correspondence driver (kind afar) ----------------------------------- *)
Definition async_fasta_records_case (cap : nat) (codes : list nat) (data : list N)
  : list Reader.frec * fend * nat :=
  let '(rs, e, st) := a_fasta_records aread cap ab_fuel (Datatypes.S (length data)) (ab_start data codes) in
  (rs, e, length data - ab_left st).

(* the sync reader: C11's line-driven model of Reader::records() *)
Definition sync_fasta_records_case (data : list N) : list Reader.frec * option Reader.rerr :=
  Reader.read_file data.

Definition closed_fasta_records_case (data : list N) : list Reader.frec * fend :=
  fasta_records_closed (Datatypes.S (length data)) data.
