(* C16 -- the async FASTA record stream has, for EVERY poll script and every BufReader capacity, the
   closed form [fasta_records_closed] on the flat data: in particular a read_sequence call leaves
   the reader at [seq_rest] (the next definition line, or the end). *)
From Coq Require Import List NArith Arith Bool Lia.
From NV Require Import Io.Source Io.ReadExact Io.ReadExactProofs Io.BufReader Io.BufReaderProofs
  Io.FastaScan Io.FastaScanProofs Io.Run Io.RunProofs.
From NV Require Import Async.ReadExact Async.ReadExactProofs Async.Lines Async.LinesProofs Async.FastaRecords.
From NV Require Fasta.Layout Fasta.Reader.
Import ListNotations.

Lemma rest_mid_run : forall l d2, has_byte LF l = false -> seq_rest MID (l ++ d2) = seq_rest MID d2.
Proof.
  induction l as [|x l IH]; intros d2 Hb; [reflexivity|].
  cbn [has_byte existsb] in Hb. apply orb_false_iff in Hb. destruct Hb as [Hx Hb'].
  rewrite N.eqb_sym in Hx. cbn [app seq_rest]. rewrite Hx. apply IH. exact Hb'.
Qed.

(* entering the middle of a line *)
Lemma rest_enter : forall ib b r,
  N.eqb b LF = false -> (ib && N.eqb b GT) = false -> (ib && N.eqb b CR) = false ->
  seq_rest (lst ib) (b :: r) = seq_rest MID r.
Proof.
  intros ib b r Hl Hg Hc. destruct ib; unfold lst; cbn [seq_rest andb] in *; rewrite Hl; [|reflexivity].
  rewrite Hg, Hc. reflexivity.
Qed.

Section Generic.
  Context {S : Type}.
  Variable rd : reader S.
  Variable Rep : S -> list N -> nat -> Prop.
  Hypothesis Hsim : simulates rd Rep.
  Variable cap : nat.
  Hypothesis Hcap : 1 <= cap.

  Notation repb st d m := (rep_buf Rep st d m).

  (* where the (repaired) async sequence loop stops *)
  Theorem a_seq_loop_rest : forall fuel ib p st d m acc n,
    repb st d m -> (p = true -> ib = false) -> m + length d + 1 < fuel ->
    exists r acc' n' st' m',
      a_seq_loop rd cap true fuel ib p st acc n = (r, acc', n', st')
      /\ repb st' (seq_rest (lst ib) d) m' /\ m' <= m.
  Proof.
    induction fuel as [|fuel IH]; intros ib p st d m acc n HR Hinv Hf; [lia|].
    cbn [a_seq_loop].
    pose proof (br_fill_buf_spec rd Rep Hsim cap Hcap st d m HR) as Hfb.
    destruct (br_fill_buf rd cap st) as [[src|] st1].
    2:{ destruct Hfb as [m1 [Hm1 HR1]].
        destruct (IH ib p st1 d m1 acc n HR1 Hinv ltac:(lia)) as [r [a' [n' [st' [m' [E [HR' Hm']]]]]]].
        exists r, a', n', st', m'. split; [exact E|]. split; [exact HR'|lia]. }
    destruct Hfb as [Hpre [Hne [Hfst [m1 [Hm1 HR1]]]]].
    destruct src as [|b w].
    - assert (d = []) by (destruct d; [reflexivity|exfalso; apply Hne; [discriminate|reflexivity]]).
      subst d. exists SOk, acc, n, st1, m1. split; [reflexivity|]. split; [|exact Hm1].
      destruct ib; exact HR1.
    - destruct (prefix_cons b w d Hpre) as [r Hd]. subst d.
      set (src := b :: w) in *.
      destruct (ib && N.eqb b GT) eqn:Hgt.
      { apply andb_true_iff in Hgt. destruct Hgt as [Hib Hg]. subst ib.
        apply N.eqb_eq in Hg. subst b. exists SOk, acc, n, st1, m1. split; [reflexivity|].
        split; [|exact Hm1]. unfold lst. cbn [seq_rest]. change (N.eqb GT LF) with false. cbv iota.
        change (N.eqb GT GT) with true. cbv iota. exact HR1. }
      cbn [andb].
      destruct (ib && N.eqb b CR) eqn:Hbc.
      { apply andb_true_iff in Hbc. destruct Hbc as [Hib Hc]. subst ib. apply N.eqb_eq in Hc. subst b.
        assert (HR2 : repb (br_consume 1 st1) r m1).
        { change r with (skipn 1 (CR :: r)). apply br_consume_spec; [exact HR1|].
          rewrite Hfst. unfold src. cbn [length]. lia. }
        destruct (IH true false _ r m1 acc (Datatypes.S n) HR2 ltac:(intros H; discriminate)
                    ltac:(cbn [length] in *; lia)) as [r0 [a' [n' [st' [m' [E [HR' Hm']]]]]]].
        exists r0, a', n', st', m'. split; [exact E|]. split; [|lia].
        unfold lst in *. cbn [seq_rest]. change (N.eqb CR LF) with false. cbv iota.
        change (N.eqb CR GT) with false. cbv iota. change (N.eqb CR CR) with true. cbv iota. exact HR'. }
      pose proof (window_is_prefix src (b :: r) Hpre) as Hsplit.
      destruct (has_byte LF src) eqn:Hlf.
      + pose proof (until_lf_split src Hlf) as Hus.
        set (line := until_lf src) in *.
        assert (Hd : b :: r = line ++ LF :: skipn (Datatypes.S (length line)) (b :: r)).
        { rewrite Hsplit at 1. rewrite Hus at 1. rewrite <- app_assoc. cbn [app]. f_equal. f_equal.
          rewrite Hsplit at 2. rewrite skipn_app_le.
          2:{ pose proof (f_equal (@length N) Hus) as HL. rewrite app_length in HL. cbn [length] in HL. lia. }
          reflexivity. }
        assert (Hlen : Datatypes.S (length line) <= length src).
        { pose proof (f_equal (@length N) Hus) as HL. rewrite app_length in HL. cbn [length] in HL.
          cbn [length]. lia. }
        assert (HR2 : repb (br_consume (Datatypes.S (length line)) st1)
                        (skipn (Datatypes.S (length line)) (b :: r)) m1).
        { apply br_consume_spec; [exact HR1|]. rewrite Hfst. exact Hlen. }
        set (d3 := skipn (Datatypes.S (length line)) (b :: r)) in *.
        assert (Hd3 : length d3 < length (b :: r)).
        { unfold d3. rewrite skipn_length. cbn [length]. lia. }
        destruct (IH true false _ d3 m1
                    ((if p && negb (N.eqb b LF) then acc ++ [CR] else acc) ++ strip_cr line)
                    (n + Datatypes.S (length line)) HR2 ltac:(intros H; discriminate) ltac:(lia))
          as [r0 [a' [n' [st' [m' [E [HR' Hm']]]]]]].
        exists r0, a', n', st', m'. split; [exact E|]. split; [|lia].
        assert (Hrest : seq_rest (lst ib) (b :: r) = seq_rest BOL d3).
        { assert (Hnolf : has_byte LF line = false) by apply until_lf_no_lf.
          destruct (N.eqb b LF) eqn:Hl.
          - assert (Hline : line = []) by (unfold line, src; cbn [until_lf]; rewrite Hl; reflexivity).
            rewrite Hd, Hline. cbn [app]. destruct ib; unfold lst; cbn [seq_rest];
              change (N.eqb LF LF) with true; reflexivity.
          - assert (Hline : line = b :: until_lf w) by (unfold line, src; cbn [until_lf]; rewrite Hl; reflexivity).
            rewrite Hd at 1. rewrite Hline. cbn [app]. rewrite (rest_enter ib b _ Hl Hgt Hbc).
            rewrite rest_mid_run.
            2:{ rewrite Hline in Hnolf. cbn [has_byte existsb] in Hnolf. apply orb_false_iff in Hnolf. exact (proj2 Hnolf). }
            cbn [seq_rest]. change (N.eqb LF LF) with true. reflexivity. }
        rewrite Hrest. exact HR'.
      + assert (Hul : until_lf src = src) by (apply until_lf_all; exact Hlf).
        rewrite Hul.
        assert (Hl : N.eqb b LF = false).
        { unfold src in Hlf. cbn [has_byte existsb] in Hlf. apply orb_false_iff in Hlf.
          rewrite N.eqb_sym. exact (proj1 Hlf). }
        assert (HR2 : repb (br_consume (length src) st1) (skipn (length src) (b :: r)) m1).
        { apply br_consume_spec; [exact HR1|]. rewrite Hfst. lia. }
        set (d2 := skipn (length src) (b :: r)) in *.
        assert (Hd2 : length d2 < length (b :: r)).
        { unfold d2. rewrite skipn_length. unfold src. cbn [length]. lia. }
        destruct (IH false (last_cr src) _ d2 m1
                    ((if p && negb (N.eqb b LF) then acc ++ [CR] else acc) ++ strip_cr src)
                    (n + length src) HR2 ltac:(intros _; reflexivity) ltac:(lia))
          as [r0 [a' [n' [st' [m' [E [HR' Hm']]]]]]].
        exists r0, a', n', st', m'. split; [exact E|]. split; [|lia].
        assert (Hrest : seq_rest (lst ib) (b :: r) = seq_rest MID d2).
        { rewrite Hsplit at 1. fold d2. unfold src at 1. cbn [app].
          rewrite (rest_enter ib b _ Hl Hgt Hbc). apply rest_mid_run.
          unfold src in Hlf. cbn [has_byte existsb] in Hlf. apply orb_false_iff in Hlf. exact (proj2 Hlf). }
        rewrite Hrest. exact HR'.
  Qed.

  Variable fuelf : bstate S -> nat.
  Hypothesis Hfuel : forall st d m, repb st d m -> m + length d + 1 < fuelf st.

  (* one read_sequence call: the sequence AND where it leaves the reader *)
  Theorem a_read_sequence_full_spec : forall st d m, repb st d m ->
    exists n st' m', a_read_sequence rd cap fuelf true st = (SOk, seq_out BOL d, n, st')
                     /\ repb st' (seq_rest BOL d) m' /\ m' <= m.
  Proof.
    intros st d m HR. unfold a_read_sequence.
    destruct (a_seq_loop_spec rd Rep Hsim cap Hcap true (fuelf st) true false st d m [] 0 HR
                ltac:(intros H; discriminate) (Hfuel st d m HR)) as [n [st' E]].
    destruct (a_seq_loop_rest (fuelf st) true false st d m [] 0 HR
                ltac:(intros H; discriminate) (Hfuel st d m HR)) as [r0 [a' [n' [st'' [m' [E' [HR' Hm']]]]]]].
    rewrite E in E'. injection E' as _ _ _ Hst. subst st''.
    exists n, st', m'. split; [|split; [exact HR'|exact Hm']].
    rewrite E. unfold aspec, lst. cbn [app]. rewrite aseq_fixed_is_sync. reflexivity.
  Qed.

  (* the record stream *)
  Theorem a_fasta_records_spec : forall k st d m, repb st d m ->
    exists st', a_fasta_records rd cap fuelf k st = (fasta_records_closed k d, st').
  Proof.
    induction k as [|k IH]; intros st d m HR; [exists st; reflexivity|].
    cbn [a_fasta_records fasta_records_closed].
    destruct (read_line_spec rd Rep Hsim cap Hcap (fuelf st) st d m HR (Hfuel st d m HR))
      as [st1 [m1 [E1 [HR1 Hm1]]]].
    rewrite E1. destruct d as [|x d'].
    - cbn [take_line length]. exists st1. reflexivity.
    - set (d := x :: d') in *.
      assert (Hn : length (take_line LF d) <> 0).
      { unfold d. cbn [take_line]. destruct (N.eqb x LF); cbn [length]; lia. }
      destruct (length (take_line LF d)) as [|n0] eqn:En; [congruence|].
      destruct (Layout.parse_def (strip_eol (take_line LF d))) as [[nm ds]|]; [|exists st1; reflexivity].
      rewrite <- En in HR1.
      unfold fasta_bol_cr_fixed.
      destruct (a_read_sequence_full_spec st1 _ m1 HR1) as [n [st2 [m2 [E2 [HR2 Hm2]]]]].
      rewrite E2. rewrite <- En.
      destruct (IH st2 _ m2 HR2) as [st3 E3]. rewrite E3.
      destruct (fasta_records_closed k (seq_rest BOL (skipn (length (take_line LF d)) d))) as [rs e].
      exists st3. reflexivity.
  Qed.
End Generic.

(* ---- the async instance: every poll script, every capacity ------------------------------------ *)
Theorem async_fasta_records_closed : forall cap codes data, 1 <= cap ->
  fst (async_fasta_records_case cap codes data) = closed_fasta_records_case data.
Proof.
  intros cap codes data Hcap. unfold async_fasta_records_case, closed_fasta_records_case.
  destruct (a_fasta_records_spec aread rep_a aread_simulates cap Hcap ab_fuel ab_fuel_ok
              (Datatypes.S (length data)) (ab_start data codes) data 0 (rep_a_buf_start data codes)) as [st' E].
  rewrite E. destruct (fasta_records_closed (Datatypes.S (length data)) data) as [rs e]. reflexivity.
Qed.

(* one async read_sequence: the sync sequence, and the reader is left at seq_rest *)
Theorem async_fasta_sequence_rest : forall cap codes data, 1 <= cap ->
  exists n st', a_read_sequence aread cap ab_fuel true (ab_start data codes) = (SOk, seq_out BOL data, n, st')
                /\ rep_buf rep_a st' (seq_rest BOL data) 0.
Proof.
  intros cap codes data Hcap.
  destruct (a_read_sequence_full_spec aread rep_a aread_simulates cap Hcap ab_fuel ab_fuel_ok
              (ab_start data codes) data 0 (rep_a_buf_start data codes)) as [n [st' [m' [E [HR Hm]]]]].
  exists n, st'. split; [exact E|]. replace 0 with m' by lia. exact HR.
Qed.

(* the stream never runs out of fuel: every record consumes at least its definition line *)
Lemma seq_rest_length : forall d st, length (seq_rest st d) <= length d.
Proof.
  induction d as [|x r IH]; intros st; [cbn; lia|].
  cbn [seq_rest]. destruct (N.eqb x LF); [specialize (IH BOL); cbn [length]; lia|].
  destruct st.
  - destruct (N.eqb x GT); [lia|]. destruct (N.eqb x CR); [specialize (IH BOL)|specialize (IH MID)]; cbn [length]; lia.
  - specialize (IH MID). cbn [length]. lia.
Qed.

Theorem fasta_records_closed_fuel : forall k d, length d < k ->
  snd (fasta_records_closed k d) <> FNoFuel.
Proof.
  induction k as [|k IH]; intros d Hk; [lia|].
  cbn [fasta_records_closed]. destruct d as [|x d']; [cbn; discriminate|].
  set (d := x :: d') in *.
  destruct (Layout.parse_def (strip_eol (take_line LF d))) as [[nm ds]|]; [|cbn; discriminate].
  assert (Hn : 1 <= length (take_line LF d)).
  { unfold d. cbn [take_line]. destruct (N.eqb x LF); cbn [length]; lia. }
  pose proof (seq_rest_length (skipn (length (take_line LF d)) d) BOL) as Hr.
  rewrite skipn_length in Hr.
  specialize (IH (seq_rest BOL (skipn (length (take_line LF d)) d)) ltac:(unfold d in *; cbn [length] in *; lia)).
  destruct (fasta_records_closed k (seq_rest BOL (skipn (length (take_line LF d)) d))) as [rs e].
  cbn [snd] in *. exact IH.
Qed.
