(* Proofs about NV.Async.Framing. *)
From Coq Require Import List Arith NArith Bool Lia.
From NV Require Import Async.Framing.
Import ListNotations.

(* ---------------------------------------------------------------------------------------- *)
(* basic facts about decode                                                                  *)

Lemma block_size_pos : forall b, 1 <= block_size b.
Proof. intros b. unfold block_size. lia. Qed.

Lemma byte_at_app : forall b x i, i < length b -> byte_at (b ++ x) i = byte_at b i.
Proof. intros b x i Hi. unfold byte_at. apply app_nth1. exact Hi. Qed.

Lemma block_size_app : forall b x, HDR <= length b -> block_size (b ++ x) = block_size b.
Proof.
  intros b x Hb. unfold HDR in Hb. unfold block_size.
  rewrite !byte_at_app by lia. reflexivity.
Qed.

Global Opaque block_size.

Lemma decode_some : forall b fr rest,
  decode b = Some (fr, rest) ->
  HDR <= length b /\ block_size b <= length b /\ fr = firstn (block_size b) b /\
  rest = skipn (block_size b) b /\ b = fr ++ rest /\ length fr = block_size b /\
  length rest < length b.
Proof.
  intros b fr rest H. unfold decode in H.
  destruct (length b <? HDR) eqn:E1; [discriminate|].
  destruct (length b <? block_size b) eqn:E2; [discriminate|].
  apply Nat.ltb_ge in E1. apply Nat.ltb_ge in E2.
  injection H as Hfr Hrest. subst fr rest.
  pose proof (block_size_pos b) as Hp.
  repeat split; try assumption.
  - symmetry. apply firstn_skipn.
  - rewrite firstn_length. lia.
  - rewrite skipn_length. lia.
Qed.

Lemma decode_none : forall b,
  decode b = None -> length b < HDR \/ (HDR <= length b /\ length b < block_size b).
Proof.
  intros b H. unfold decode in H.
  destruct (length b <? HDR) eqn:E1.
  - left. apply Nat.ltb_lt. exact E1.
  - destruct (length b <? block_size b) eqn:E2; [|discriminate].
    right. split; [apply Nat.ltb_ge; exact E1 | apply Nat.ltb_lt; exact E2].
Qed.

Lemma decode_app : forall b x fr rest,
  decode b = Some (fr, rest) -> decode (b ++ x) = Some (fr, rest ++ x).
Proof.
  intros b x fr rest H.
  destruct (decode_some _ _ _ H) as (Hh & Hn & Hfr & Hrest & _ & _ & _).
  unfold decode. rewrite app_length.
  destruct (length b + length x <? HDR) eqn:E1; [apply Nat.ltb_lt in E1; lia|].
  rewrite block_size_app by exact Hh.
  destruct (length b + length x <? block_size b) eqn:E2; [apply Nat.ltb_lt in E2; lia|].
  f_equal. f_equal.
  - rewrite firstn_app. replace (block_size b - length b) with 0 by lia.
    cbn [firstn]. rewrite app_nil_r. symmetry. exact Hfr.
  - rewrite skipn_app. replace (block_size b - length b) with 0 by lia.
    cbn [skipn]. rewrite Hrest. reflexivity.
Qed.

(* ---------------------------------------------------------------------------------------- *)
(* drain: fuel does not matter; unfolding equation                                           *)

Lemma drain_fuel : forall f1 f2 b, length b <= f1 -> length b <= f2 -> drain f1 b = drain f2 b.
Proof.
  induction f1 as [|f1 IH]; intros f2 b H1 H2.
  - destruct b as [|x b]; [|cbn [length] in H1; lia].
    destruct f2; reflexivity.
  - destruct f2 as [|f2].
    + destruct b as [|x b]; [|cbn [length] in H2; lia]. reflexivity.
    + cbn [drain]. destruct (decode b) as [[fr rest]|] eqn:E; [|reflexivity].
      destruct (decode_some _ _ _ E) as (_ & _ & _ & _ & _ & _ & Hlt).
      rewrite (IH f2 rest) by lia. reflexivity.
Qed.

Lemma drain_all_eq : forall b,
  drain_all b =
  match decode b with
  | None => ([], b)
  | Some (fr, rest) => let '(fs, r) := drain_all rest in (fr :: fs, r)
  end.
Proof.
  intros b. unfold drain_all at 1.
  destruct (decode b) as [[fr rest]|] eqn:E.
  - destruct (decode_some _ _ _ E) as (Hh & _ & _ & _ & _ & _ & Hlt).
    destruct (length b) as [|n] eqn:El; [unfold HDR in Hh; lia|].
    cbn [drain]. rewrite E. unfold drain_all.
    rewrite (drain_fuel n (length rest) rest) by lia. reflexivity.
  - destruct (length b) as [|n]; cbn [drain]; [reflexivity|]. rewrite E. reflexivity.
Qed.

Lemma drain_all_nil : drain_all [] = ([], []).
Proof. reflexivity. Qed.

(* strong induction on the length of the buffer *)
Lemma buf_ind : forall (P : list N -> Prop),
  (forall b, (forall b', length b' < length b -> P b') -> P b) -> forall b, P b.
Proof.
  intros P H b. remember (length b) as n eqn:Hn. revert b Hn.
  induction n as [n IH] using lt_wf_ind. intros b Hn. apply H. intros b' Hlt.
  apply (IH (length b')); [lia|reflexivity].
Qed.

(* the remainder left by drain is stuck, and frames ++ remainder is the buffer *)
Lemma drain_all_spec : forall b fs r,
  drain_all b = (fs, r) -> decode r = None /\ b = concat fs ++ r.
Proof.
  induction b as [b IH] using buf_ind. intros fs r H.
  rewrite drain_all_eq in H.
  destruct (decode b) as [[fr rest]|] eqn:E.
  - destruct (decode_some _ _ _ E) as (_ & _ & _ & _ & Hb & _ & Hlt).
    destruct (drain_all rest) as [fs' r'] eqn:E'.
    injection H as Hfs Hr. subst fs r.
    destruct (IH rest Hlt fs' r' E') as (Hs & Hc).
    split; [exact Hs|].
    cbn [concat]. rewrite <- app_assoc, <- Hc. exact Hb.
  - injection H as Hfs Hr. subst fs r. split; [exact E|reflexivity].
Qed.

Lemma drain_all_stuck : forall r, decode r = None -> drain_all r = ([], r).
Proof. intros r H. rewrite drain_all_eq, H. reflexivity. Qed.

(* appending more input to a buffer = draining what is there, then continuing on the remainder *)
Lemma drain_all_app : forall b x fs r,
  drain_all b = (fs, r) ->
  drain_all (b ++ x) = let '(fs', r') := drain_all (r ++ x) in (fs ++ fs', r').
Proof.
  induction b as [b IH] using buf_ind. intros x fs r H.
  rewrite drain_all_eq in H.
  destruct (decode b) as [[fr rest]|] eqn:E.
  - destruct (decode_some _ _ _ E) as (_ & _ & _ & _ & _ & _ & Hlt).
    destruct (drain_all rest) as [fs0 r0] eqn:E0.
    injection H as Hfs Hr. subst fs r.
    rewrite (drain_all_eq (b ++ x)), (decode_app _ x _ _ E).
    rewrite (IH rest Hlt x fs0 r0 E0).
    destruct (drain_all (r0 ++ x)) as [fs' r']. reflexivity.
  - injection H as Hfs Hr. subst fs r.
    destruct (drain_all (b ++ x)) as [fs' r']. reflexivity.
Qed.

Lemma flat_frames_eq : forall b,
  flat_frames b =
  match decode b with
  | None => eof_tail b
  | Some (fr, rest) => fr :: flat_frames rest
  end.
Proof.
  intros b. unfold flat_frames. rewrite drain_all_eq.
  destruct (decode b) as [[fr rest]|]; [|reflexivity].
  destruct (drain_all rest) as [fs r]. reflexivity.
Qed.

Lemma flat_frames_app : forall b x fs r,
  drain_all b = (fs, r) -> flat_frames (b ++ x) = fs ++ flat_frames (r ++ x).
Proof.
  intros b x fs r H. unfold flat_frames. rewrite (drain_all_app b x fs r H).
  destruct (drain_all (r ++ x)) as [fs' r']. rewrite app_assoc. reflexivity.
Qed.

Lemma concat_eof_tail : forall r, concat (eof_tail r) = r.
Proof. intros [|x r]; [reflexivity|]. cbn [eof_tail concat]. apply app_nil_r. Qed.

(* nothing is lost or invented by the framing: the frames, concatenated, are the input *)
Lemma flat_frames_concat : forall b, concat (flat_frames b) = b.
Proof.
  intros b. unfold flat_frames. destruct (drain_all b) as [fs r] eqn:E.
  destruct (drain_all_spec _ _ _ E) as (_ & Hb).
  rewrite concat_app, concat_eof_tail. symmetry. exact Hb.
Qed.

Lemma feed_flat : forall chunks buf, feed buf chunks = flat_frames (buf ++ concat chunks).
Proof.
  induction chunks as [|c cs IH]; intros buf; cbn [feed concat].
  - rewrite app_nil_r. reflexivity.
  - destruct (drain_all (buf ++ c)) as [fs r] eqn:E.
    rewrite IH, app_assoc. symmetry. apply flat_frames_app. exact E.
Qed.

(* MAIN 1: the frames the async reader's codec yields do not depend on the poll script *)
Theorem async_frames_poll_indep : forall chunks,
  async_frames chunks = flat_frames (concat chunks).
Proof. intros chunks. unfold async_frames. rewrite feed_flat. reflexivity. Qed.

Corollary async_frames_same_file : forall c1 c2,
  concat c1 = concat c2 -> async_frames c1 = async_frames c2.
Proof. intros c1 c2 H. rewrite !async_frames_poll_indep, H. reflexivity. Qed.

Lemma chunks_of_concat : forall sizes file, concat (chunks_of sizes file) = file.
Proof.
  induction sizes as [|k ks IH]; intros file.
  - destruct file as [|x file]; [reflexivity|]. cbn [chunks_of concat]. apply app_nil_r.
  - destruct file as [|x file]; [reflexivity|].
    cbn [chunks_of concat]. rewrite IH. apply firstn_skipn.
Qed.

(* ---------------------------------------------------------------------------------------- *)
(* sync framing                                                                              *)

Lemma sync_fuel : forall f1 f2 file,
  length file < f1 -> length file < f2 -> sync_frames f1 file = sync_frames f2 file.
Proof.
  induction f1 as [|f1 IH]; intros f2 file H1 H2; [lia|].
  destruct f2 as [|f2]; [lia|].
  cbn [sync_frames].
  destruct (length file <? HDR) eqn:E1; [reflexivity|].
  destruct (block_size file <? MIN_FRAME) eqn:E2; [reflexivity|].
  destruct (length file <? block_size file) eqn:E3; [reflexivity|].
  apply Nat.ltb_ge in E1, E2, E3. unfold HDR in E1. unfold MIN_FRAME in E2.
  rewrite (IH f2 (skipn (block_size file) file)); [reflexivity| |];
    rewrite skipn_length; lia.
Qed.

Lemma sync_all_eq : forall file,
  sync_all file =
  if length file <? HDR then ([], Eof)
  else
    let n := block_size file in
    if n <? MIN_FRAME then ([], Err InvalidData)
    else if length file <? n then ([], Err UnexpectedEof)
    else let '(fs, e) := sync_all (skipn n file) in (firstn n file :: fs, e).
Proof.
  intros file. unfold sync_all at 1. cbn [sync_frames].
  destruct (length file <? HDR) eqn:E1; [reflexivity|].
  cbv zeta.
  destruct (block_size file <? MIN_FRAME) eqn:E2; [reflexivity|].
  destruct (length file <? block_size file) eqn:E3; [reflexivity|].
  apply Nat.ltb_ge in E1, E2, E3. unfold HDR in E1. unfold MIN_FRAME in E2.
  unfold sync_all.
  rewrite (sync_fuel (length file) (S (length (skipn (block_size file) file)))); [reflexivity| |];
    rewrite ?skipn_length; lia.
Qed.

(* MAIN 2 (complete classification): the async framing always starts with the sync frames; what
   follows is nothing exactly when the sync reader consumed the whole file, and otherwise is
   determined by the way the sync framing stopped.  The three non-empty cases are the three
   classes in which the two readers report different outcomes. *)
Theorem sync_vs_async_framing : forall file fs e,
  sync_all file = (fs, e) ->
  exists rest, flat_frames file = fs ++ rest /\
    match e with
    | Eof => rest = [] \/ exists s, rest = [s] /\ 0 < length s < HDR
    | Err InvalidData => exists s rest', rest = s :: rest' /\ 0 < length s < MIN_FRAME
    | Err UnexpectedEof => exists s, rest = [s] /\ HDR <= length s < block_size s
    end.
Proof.
  induction file as [file IH] using buf_ind. intros fs e H.
  rewrite sync_all_eq in H. rewrite flat_frames_eq. unfold decode.
  destruct (length file <? HDR) eqn:E1.
  - injection H as Hfs He. subst fs e. exists (eof_tail file). split; [reflexivity|].
    apply Nat.ltb_lt in E1.
    destruct file as [|x file]; [left; reflexivity|].
    right. exists (x :: file). split; [reflexivity|]. cbn [length] in *. lia.
  - cbv zeta in H. apply Nat.ltb_ge in E1.
    destruct (block_size file <? MIN_FRAME) eqn:E2.
    + injection H as Hfs He. subst fs e. apply Nat.ltb_lt in E2.
      pose proof (block_size_pos file) as Hp.
      destruct (length file <? block_size file) eqn:E3.
      * apply Nat.ltb_lt in E3. exists (eof_tail file). split; [reflexivity|].
        destruct file as [|x file]; [unfold HDR in E1; cbn [length] in E1; lia|].
        exists (x :: file), []. split; [reflexivity|]. cbn [length] in *. lia.
      * apply Nat.ltb_ge in E3.
        exists (firstn (block_size file) file :: flat_frames (skipn (block_size file) file)).
        split; [reflexivity|].
        exists (firstn (block_size file) file), (flat_frames (skipn (block_size file) file)).
        split; [reflexivity|]. rewrite firstn_length. lia.
    + apply Nat.ltb_ge in E2.
      destruct (length file <? block_size file) eqn:E3.
      * injection H as Hfs He. subst fs e. apply Nat.ltb_lt in E3.
        exists (eof_tail file). split; [reflexivity|].
        destruct file as [|x file]; [unfold HDR in E1; cbn [length] in E1; lia|].
        exists (x :: file). split; [reflexivity|]. split; [exact E1|exact E3].
      * apply Nat.ltb_ge in E3.
        destruct (sync_all (skipn (block_size file) file)) as [fs' e'] eqn:E'.
        injection H as Hfs He. subst fs e.
        assert (Hlt : length (skipn (block_size file) file) < length file).
        { rewrite skipn_length. unfold MIN_FRAME in E2. unfold HDR in E1. lia. }
        destruct (IH _ Hlt fs' e' E') as (rest & Hflat & Hcls).
        exists rest. split; [|exact Hcls].
        rewrite Hflat. reflexivity.
Qed.

(* a well-formed frame: at least MIN_FRAME bytes and its BSIZE field says its own length *)
Definition wf_frame (fr : list N) : Prop := MIN_FRAME <= length fr /\ block_size fr = length fr.

Lemma firstn_app_exact : forall (a b : list N), firstn (length a) (a ++ b) = a.
Proof.
  intros a b. rewrite firstn_app, Nat.sub_diag, firstn_all. cbn [firstn]. apply app_nil_r.
Qed.

Lemma skipn_app_exact : forall (a b : list N), skipn (length a) (a ++ b) = b.
Proof.
  intros a b. rewrite skipn_app, Nat.sub_diag, skipn_all. reflexivity.
Qed.

Lemma sync_all_wf : forall frs, Forall wf_frame frs -> sync_all (concat frs) = (frs, Eof).
Proof.
  induction frs as [|fr frs IH]; intros Hall.
  - reflexivity.
  - inversion Hall as [|? ? [Hmin Hbs] Hrest]; subst.
    rewrite sync_all_eq. cbn [concat]. rewrite app_length.
    unfold MIN_FRAME in Hmin.
    assert (Hb : block_size (fr ++ concat frs) = length fr).
    { rewrite block_size_app; [exact Hbs|unfold HDR; lia]. }
    destruct (length fr + length (concat frs) <? HDR) eqn:E1;
      [apply Nat.ltb_lt in E1; unfold HDR in E1; lia|].
    cbv zeta. rewrite Hb.
    destruct (length fr <? MIN_FRAME) eqn:E2; [apply Nat.ltb_lt in E2; unfold MIN_FRAME in E2; lia|].
    destruct (length fr + length (concat frs) <? length fr) eqn:E3; [apply Nat.ltb_lt in E3; lia|].
    rewrite skipn_app_exact, firstn_app_exact, (IH Hrest). reflexivity.
Qed.

Lemma flat_frames_wf : forall frs, Forall wf_frame frs -> flat_frames (concat frs) = frs.
Proof.
  intros frs Hall.
  destruct (sync_vs_async_framing _ _ _ (sync_all_wf frs Hall)) as (rest & Hflat & Hcls).
  pose proof (flat_frames_concat (concat frs)) as Hc.
  rewrite Hflat, concat_app in Hc.
  assert (Hr : concat rest = []).
  { apply (app_inv_head (concat frs)). rewrite app_nil_r. exact Hc. }
  destruct Hcls as [Hnil|(s & Hs & Hlen)].
  - rewrite Hflat, Hnil. apply app_nil_r.
  - subst rest. cbn [concat] in Hr. rewrite app_nil_r in Hr. subst s. cbn [length] in Hlen. lia.
Qed.

(* MAIN 3: on a file made of well-formed frames the async framing, under every poll script,
   and the sync framing agree: the same frames, clean end *)
Theorem async_framing_equals_sync_wf : forall frs chunks,
  Forall wf_frame frs -> concat chunks = concat frs ->
  async_frames chunks = frs /\ sync_all (concat chunks) = (frs, Eof).
Proof.
  intros frs chunks Hall Hc. split.
  - rewrite async_frames_poll_indep, Hc. apply flat_frames_wf. exact Hall.
  - rewrite Hc. apply sync_all_wf. exact Hall.
Qed.

(* the same, with the known class excluded instead of a well-formedness premise: whenever the
   sync framing consumes the whole file (no bytes are left when it stops), it stopped cleanly and
   the async framing under every poll script yields exactly the same frames *)
Theorem async_framing_equals_sync_consumed : forall file chunks fs e,
  concat chunks = file -> sync_all file = (fs, e) -> concat fs = file ->
  e = Eof /\ async_frames chunks = fs.
Proof.
  intros file chunks fs e Hc Hs Hall.
  destruct (sync_vs_async_framing _ _ _ Hs) as (rest & Hflat & Hcls).
  pose proof (flat_frames_concat file) as Hcc.
  rewrite Hflat, concat_app, Hall in Hcc.
  assert (Hr : concat rest = []).
  { apply (app_inv_head file). rewrite app_nil_r. exact Hcc. }
  assert (Hrest : e = Eof /\ rest = []).
  { destruct e as [|[|]].
    - split; [reflexivity|]. destruct Hcls as [Hnil|(s & Hs' & Hlen)]; [exact Hnil|].
      subst rest. cbn [concat] in Hr. rewrite app_nil_r in Hr. subst s. cbn [length] in Hlen. lia.
    - destruct Hcls as (s & Hs' & Hlen1 & Hlen2). subst rest. cbn [concat] in Hr.
      rewrite app_nil_r in Hr. subst s. unfold HDR in Hlen1. cbn [length] in Hlen1. lia.
    - destruct Hcls as (s & rest' & Hs' & Hlen). subst rest. cbn [concat] in Hr.
      apply app_eq_nil in Hr. destruct Hr as [Hs0 _]. subst s. cbn [length] in Hlen. lia. }
  destruct Hrest as [He Hnil]. split; [exact He|].
  rewrite async_frames_poll_indep, Hc, Hflat, Hnil. apply app_nil_r.
Qed.

(* ---------------------------------------------------------------------------------------- *)
(* block transcripts                                                                         *)

Theorem async_obs_poll_indep : forall io c1 c2,
  concat c1 = concat c2 -> async_obs io c1 = async_obs io c2.
Proof. intros io c1 c2 H. unfold async_obs. rewrite (async_frames_same_file c1 c2 H). reflexivity. Qed.

Theorem async_obs_equals_sync_obs : forall io file chunks fs e,
  concat chunks = file -> sync_all file = (fs, e) -> concat fs = file ->
  async_obs io chunks = sync_obs io file.
Proof.
  intros io file chunks fs e Hc Hs Hall.
  destruct (async_framing_equals_sync_consumed file chunks fs e Hc Hs Hall) as [He Ha].
  unfold async_obs, sync_obs. rewrite Hs, Ha, He. reflexivity.
Qed.

(* ---------------------------------------------------------------------------------------- *)
(* the three classes in which the two readers differ (candidate finding F16), as witnesses     *)

Definition eof_block : list N :=
  [31; 139; 8; 4; 0; 0; 0; 0; 0; 255; 6; 0; 66; 67; 2; 0; 27; 0; 3; 0; 0; 0; 0; 0; 0; 0; 0; 0]%N.

Definition all_ok : nat -> list N -> bool := fun _ _ => true.

(* (a) 1..17 stray bytes after the last frame: clean end in sync, UnexpectedEof in async *)
Lemma async_equals_sync_trailing_partial_refuted :
  exists file, sync_obs all_ok file = ([], 28%N, Eof) /\
               async_obs all_ok [file] = ([], 28%N, Err UnexpectedEof).
Proof. exists (eof_block ++ [31; 139]%N). vm_compute. split; reflexivity. Qed.

(* (b) BSIZE + 1 < 26: InvalidData in sync, UnexpectedEof in async *)
Lemma async_equals_sync_undersized_bsize_refuted :
  exists file, sync_obs all_ok file = ([], 0%N, Err InvalidData) /\
               async_obs all_ok [file] = ([], 0%N, Err UnexpectedEof).
Proof.
  exists (firstn 16 eof_block ++ [17; 0; 237; 242]%N). vm_compute. split; reflexivity.
Qed.

(* (c) last frame cut inside its body with >= 26 bytes left: UnexpectedEof in sync; the async
   codec hands the fragment to parse_block, which fails with InvalidData (here already in the
   ISIZE check, before inflate) *)
Lemma async_equals_sync_truncated_frame_refuted :
  exists file, sync_obs all_ok file = ([], 0%N, Err UnexpectedEof) /\
               async_obs all_ok [file] = ([], 0%N, Err InvalidData).
Proof.
  exists (firstn 16 eof_block ++ [40; 0; 1; 2; 3; 4; 5; 6; 7; 8; 255; 255; 255; 255]%N).
  vm_compute. split; reflexivity.
Qed.
