(* Proofs about NV.Async.Framing (repaired async framing): for ALL byte strings and ALL poll
   scripts the async frame stream equals the sync frame stream, including how it ends. *)
From Coq Require Import List Arith NArith Bool Lia.
From NV Require Import Async.Framing.
Import ListNotations.

(* ---------------------------------------------------------------------------------------- *)
(* basic facts about decode                                                                  *)

Lemma block_size_pos : forall b, 1 <= block_size b.
Proof. intros b. unfold block_size. lia. Qed.

Lemma byte_at_app : forall b x i, i < length b -> byte_at (b ++ x) i = byte_at b i.
Proof. intros b x i Hi. unfold byte_at. apply app_nth1. exact Hi. Qed.

Lemma block_size_app : forall b x, HDR <= length b -> block_size (b ++ x) = block_size b.
Proof.
  intros b x Hb. unfold HDR in Hb. unfold block_size.
  rewrite !byte_at_app by lia. reflexivity.
Qed.

Global Opaque block_size.

Lemma decode_frame : forall b fr rest,
  decode b = Frame fr rest ->
  HDR <= length b /\ MIN_FRAME <= block_size b /\ block_size b <= length b /\
  fr = firstn (block_size b) b /\ rest = skipn (block_size b) b /\ length rest < length b.
Proof.
  intros b fr rest H. unfold decode in H.
  destruct (length b <? HDR) eqn:E1; [discriminate|].
  destruct (block_size b <? MIN_FRAME) eqn:E0; [discriminate|].
  destruct (length b <? block_size b) eqn:E2; [discriminate|].
  apply Nat.ltb_ge in E1, E0, E2.
  injection H as Hfr Hrest. subst fr rest.
  repeat split; try assumption.
  rewrite skipn_length. unfold MIN_FRAME in E0. lia.
Qed.

Lemma decode_bad : forall b, decode b = Bad -> HDR <= length b /\ block_size b < MIN_FRAME.
Proof.
  intros b H. unfold decode in H.
  destruct (length b <? HDR) eqn:E1; [discriminate|].
  destruct (block_size b <? MIN_FRAME) eqn:E0.
  - split; [apply Nat.ltb_ge; exact E1 | apply Nat.ltb_lt; exact E0].
  - destruct (length b <? block_size b); discriminate.
Qed.

Lemma decode_more : forall b,
  decode b = More ->
  length b < HDR \/ (HDR <= length b /\ MIN_FRAME <= block_size b /\ length b < block_size b).
Proof.
  intros b H. unfold decode in H.
  destruct (length b <? HDR) eqn:E1.
  - left. apply Nat.ltb_lt. exact E1.
  - destruct (block_size b <? MIN_FRAME) eqn:E0; [discriminate|].
    destruct (length b <? block_size b) eqn:E2; [|discriminate].
    right. apply Nat.ltb_ge in E1, E0. apply Nat.ltb_lt in E2. auto.
Qed.

(* ---------------------------------------------------------------------------------------- *)
(* drain: fuel does not matter; unfolding equation                                           *)

Lemma drain_fuel : forall f1 f2 b, length b <= f1 -> length b <= f2 -> drain f1 b = drain f2 b.
Proof.
  induction f1 as [|f1 IH]; intros f2 b H1 H2.
  - destruct b as [|x b]; [|cbn [length] in H1; lia].
    destruct f2; reflexivity.
  - destruct f2 as [|f2].
    + destruct b as [|x b]; [|cbn [length] in H2; lia]. reflexivity.
    + cbn [drain]. destruct (decode b) as [| |fr rest] eqn:E; [reflexivity|reflexivity|].
      destruct (decode_frame _ _ _ E) as (_ & _ & _ & _ & _ & Hlt).
      rewrite (IH f2 rest) by lia. reflexivity.
Qed.

Lemma drain_all_eq : forall b,
  drain_all b =
  match decode b with
  | More => ([], Stuck, b)
  | Bad => ([], Failed, b)
  | Frame fr rest => let '(fs, st, r) := drain_all rest in (fr :: fs, st, r)
  end.
Proof.
  intros b. unfold drain_all at 1.
  destruct (decode b) as [| |fr rest] eqn:E.
  - destruct (length b) as [|n]; cbn [drain]; [reflexivity|]. rewrite E. reflexivity.
  - destruct (decode_bad _ E) as [Hh _].
    destruct (length b) as [|n] eqn:El; [unfold HDR in Hh; lia|].
    cbn [drain]. rewrite E. reflexivity.
  - destruct (decode_frame _ _ _ E) as (Hh & _ & _ & _ & _ & Hlt).
    destruct (length b) as [|n] eqn:El; [unfold HDR in Hh; lia|].
    cbn [drain]. rewrite E. unfold drain_all.
    rewrite (drain_fuel n (length rest) rest) by lia. reflexivity.
Qed.

(* strong induction on the length of the buffer *)
Lemma buf_ind : forall (P : list N -> Prop),
  (forall b, (forall b', length b' < length b -> P b') -> P b) -> forall b, P b.
Proof.
  intros P H b. remember (length b) as n eqn:Hn. revert b Hn.
  induction n as [n IH] using lt_wf_ind. intros b Hn. apply H. intros b' Hlt.
  apply (IH (length b')); [lia|reflexivity].
Qed.

(* ---------------------------------------------------------------------------------------- *)
(* sync framing                                                                              *)

Lemma sync_fuel : forall f1 f2 file,
  length file < f1 -> length file < f2 -> sync_frames f1 file = sync_frames f2 file.
Proof.
  induction f1 as [|f1 IH]; intros f2 file H1 H2; [lia|].
  destruct f2 as [|f2]; [lia|].
  cbn [sync_frames].
  destruct (length file <? HDR) eqn:E1; [reflexivity|].
  destruct (block_size file <? MIN_FRAME) eqn:E2; [reflexivity|].
  destruct (length file <? block_size file) eqn:E3; [reflexivity|].
  apply Nat.ltb_ge in E1, E2, E3. unfold HDR in E1. unfold MIN_FRAME in E2.
  rewrite (IH f2 (skipn (block_size file) file)); [reflexivity| |];
    rewrite skipn_length; lia.
Qed.

Lemma sync_all_eq : forall file,
  sync_all file =
  if length file <? HDR then ([], Eof)
  else
    let n := block_size file in
    if n <? MIN_FRAME then ([], Err InvalidData)
    else if length file <? n then ([], Err UnexpectedEof)
    else let '(fs, e) := sync_all (skipn n file) in (firstn n file :: fs, e).
Proof.
  intros file. unfold sync_all at 1. cbn [sync_frames].
  destruct (length file <? HDR) eqn:E1; [reflexivity|].
  cbv zeta.
  destruct (block_size file <? MIN_FRAME) eqn:E2; [reflexivity|].
  destruct (length file <? block_size file) eqn:E3; [reflexivity|].
  apply Nat.ltb_ge in E1, E2, E3. unfold HDR in E1. unfold MIN_FRAME in E2.
  unfold sync_all.
  rewrite (sync_fuel (length file) (S (length (skipn (block_size file) file)))); [reflexivity| |];
    rewrite ?skipn_length; lia.
Qed.

(* a buffer on which decode asks for more input, at the end of the input: what decode_eof says
   is what the sync reader says about the same bytes *)
Lemma sync_all_stuck : forall r, decode r = More -> sync_all r = ([], eof_ending r).
Proof.
  intros r H. rewrite sync_all_eq. unfold eof_ending.
  destruct (decode_more _ H) as [Hlt|(Hh & Hmin & Hlt)].
  - apply Nat.ltb_lt in Hlt. rewrite Hlt. reflexivity.
  - destruct (length r <? HDR) eqn:E1; [apply Nat.ltb_lt in E1; lia|].
    cbv zeta.
    destruct (block_size r <? MIN_FRAME) eqn:E2; [apply Nat.ltb_lt in E2; lia|].
    destruct (length r <? block_size r) eqn:E3; [reflexivity|apply Nat.ltb_ge in E3; lia].
Qed.

Lemma firstn_app_le : forall (a b : list N) n, n <= length a -> firstn n (a ++ b) = firstn n a.
Proof.
  intros a b n H. rewrite firstn_app. replace (n - length a) with 0 by lia.
  cbn [firstn]. apply app_nil_r.
Qed.

Lemma skipn_app_le : forall (a b : list N) n, n <= length a -> skipn n (a ++ b) = skipn n a ++ b.
Proof.
  intros a b n H. rewrite skipn_app. replace (n - length a) with 0 by lia. reflexivity.
Qed.

(* KEY: draining a buffer, then letting the sync reader loose on the remainder followed by more
   input, is the sync reader on buffer followed by more input *)
Lemma drain_sync : forall b x fs st r,
  drain_all b = (fs, st, r) ->
  match st with
  | Failed => sync_all (b ++ x) = (fs, Err InvalidData)
  | Stuck => decode r = More /\
             sync_all (b ++ x) = let '(fs', e) := sync_all (r ++ x) in (fs ++ fs', e)
  end.
Proof.
  induction b as [b IH] using buf_ind. intros x fs st r H.
  rewrite drain_all_eq in H.
  destruct (decode b) as [| |fr rest] eqn:E.
  - injection H as Hfs Hst Hr. subst fs st r. split; [exact E|].
    destruct (sync_all (b ++ x)) as [fs' e]. reflexivity.
  - injection H as Hfs Hst Hr. subst fs st r.
    destruct (decode_bad _ E) as [Hh Hbad].
    rewrite sync_all_eq, app_length.
    destruct (length b + length x <? HDR) eqn:E1; [apply Nat.ltb_lt in E1; lia|].
    cbv zeta. rewrite (block_size_app b x Hh).
    apply Nat.ltb_lt in Hbad. rewrite Hbad. reflexivity.
  - destruct (decode_frame _ _ _ E) as (Hh & Hmin & Hn & Hfr & Hrest & Hlt).
    destruct (drain_all rest) as [[fs0 st0] r0] eqn:E0.
    injection H as Hfs Hst Hr. subst fs st r.
    pose proof (IH rest Hlt x fs0 st0 r0 E0) as IHr.
    assert (Hs : sync_all (b ++ x) = let '(fs', e) := sync_all (rest ++ x) in (fr :: fs', e)).
    { rewrite sync_all_eq, app_length.
      destruct (length b + length x <? HDR) eqn:E1; [apply Nat.ltb_lt in E1; lia|].
      cbv zeta. rewrite (block_size_app b x Hh).
      destruct (block_size b <? MIN_FRAME) eqn:E2; [apply Nat.ltb_lt in E2; lia|].
      destruct (length b + length x <? block_size b) eqn:E3; [apply Nat.ltb_lt in E3; lia|].
      rewrite (firstn_app_le b x _ Hn), (skipn_app_le b x _ Hn), <- Hfr, <- Hrest. reflexivity. }
    destruct st0.
    + destruct IHr as [Hmore IHs]. split; [exact Hmore|].
      rewrite Hs, IHs. destruct (sync_all (r0 ++ x)) as [fs' e]. reflexivity.
    + rewrite Hs, IHr. reflexivity.
Qed.

Lemma feed_sync : forall chunks buf, feed buf chunks = sync_all (buf ++ concat chunks).
Proof.
  induction chunks as [|c cs IH]; intros buf; cbn [feed concat].
  - destruct (drain_all buf) as [[fs st] r] eqn:E.
    pose proof (drain_sync buf [] fs st r E) as H.
    destruct st.
    + destruct H as [Hmore Hs]. rewrite Hs, (app_nil_r r), (sync_all_stuck r Hmore), app_nil_r.
      reflexivity.
    + symmetry. exact H.
  - destruct (drain_all (buf ++ c)) as [[fs st] r] eqn:E.
    pose proof (drain_sync (buf ++ c) (concat cs) fs st r E) as H.
    rewrite <- app_assoc in H.
    destruct st.
    + destruct H as [_ Hs]. rewrite Hs, IH. reflexivity.
    + symmetry. exact H.
Qed.

(* MAIN: for every byte string and every poll script the async frame stream -- frames and ending --
   is the sync reader's *)
Theorem async_framing_equals_sync : forall chunks,
  async_frames chunks = sync_all (concat chunks).
Proof. intros chunks. unfold async_frames. rewrite feed_sync. reflexivity. Qed.

Corollary async_frames_poll_indep : forall c1 c2,
  concat c1 = concat c2 -> async_frames c1 = async_frames c2.
Proof. intros c1 c2 H. rewrite !async_framing_equals_sync, H. reflexivity. Qed.

Theorem async_obs_equals_sync_obs : forall io file chunks,
  concat chunks = file -> async_obs io chunks = sync_obs io file.
Proof.
  intros io file chunks Hc. unfold async_obs, sync_obs.
  rewrite async_framing_equals_sync, Hc. reflexivity.
Qed.

Theorem async_obs_poll_indep : forall io c1 c2,
  concat c1 = concat c2 -> async_obs io c1 = async_obs io c2.
Proof.
  intros io c1 c2 H.
  rewrite (async_obs_equals_sync_obs io (concat c1) c1 eq_refl).
  rewrite (async_obs_equals_sync_obs io (concat c1) c2 (eq_sym H)). reflexivity.
Qed.

Lemma chunks_of_concat : forall sizes file, concat (chunks_of sizes file) = file.
Proof.
  induction sizes as [|k ks IH]; intros file.
  - destruct file as [|x file]; [reflexivity|]. cbn [chunks_of concat]. apply app_nil_r.
  - destruct file as [|x file]; [reflexivity|].
    cbn [chunks_of concat]. rewrite IH. apply firstn_skipn.
Qed.

(* the frames of the sync reader are a prefix of the file: nothing is invented *)
Lemma sync_all_prefix : forall file fs e,
  sync_all file = (fs, e) -> exists rest, file = concat fs ++ rest /\ (e = Eof -> length rest < HDR).
Proof.
  induction file as [file IH] using buf_ind. intros fs e H.
  rewrite sync_all_eq in H.
  destruct (length file <? HDR) eqn:E1.
  - injection H as Hfs He. subst fs e. exists file. split; [reflexivity|].
    intros _. apply Nat.ltb_lt. exact E1.
  - cbv zeta in H. apply Nat.ltb_ge in E1.
    destruct (block_size file <? MIN_FRAME) eqn:E2.
    + injection H as Hfs He. subst fs e. exists file. split; [reflexivity|discriminate].
    + destruct (length file <? block_size file) eqn:E3.
      * injection H as Hfs He. subst fs e. exists file. split; [reflexivity|discriminate].
      * apply Nat.ltb_ge in E2, E3.
        destruct (sync_all (skipn (block_size file) file)) as [fs' e'] eqn:E'.
        injection H as Hfs He. subst fs e.
        assert (Hlt : length (skipn (block_size file) file) < length file).
        { rewrite skipn_length. unfold MIN_FRAME in E2. unfold HDR in E1. lia. }
        destruct (IH _ Hlt fs' e' E') as (rest & Hc & Hr).
        exists rest. split; [|exact Hr].
        cbn [concat]. rewrite <- app_assoc, <- Hc. symmetry. apply firstn_skipn.
Qed.

(* a well-formed frame: at least MIN_FRAME bytes and its BSIZE field says its own length *)
Definition wf_frame (fr : list N) : Prop := MIN_FRAME <= length fr /\ block_size fr = length fr.

Lemma firstn_app_exact : forall (a b : list N), firstn (length a) (a ++ b) = a.
Proof.
  intros a b. rewrite firstn_app, Nat.sub_diag, firstn_all. cbn [firstn]. apply app_nil_r.
Qed.

Lemma skipn_app_exact : forall (a b : list N), skipn (length a) (a ++ b) = b.
Proof.
  intros a b. rewrite skipn_app, Nat.sub_diag, skipn_all. reflexivity.
Qed.

Lemma sync_all_wf : forall frs, Forall wf_frame frs -> sync_all (concat frs) = (frs, Eof).
Proof.
  induction frs as [|fr frs IH]; intros Hall.
  - reflexivity.
  - inversion Hall as [|? ? [Hmin Hbs] Hrest]; subst.
    rewrite sync_all_eq. cbn [concat]. rewrite app_length.
    unfold MIN_FRAME in Hmin.
    assert (Hb : block_size (fr ++ concat frs) = length fr).
    { rewrite block_size_app; [exact Hbs|unfold HDR; lia]. }
    destruct (length fr + length (concat frs) <? HDR) eqn:E1;
      [apply Nat.ltb_lt in E1; unfold HDR in E1; lia|].
    cbv zeta. rewrite Hb.
    destruct (length fr <? MIN_FRAME) eqn:E2; [apply Nat.ltb_lt in E2; unfold MIN_FRAME in E2; lia|].
    destruct (length fr + length (concat frs) <? length fr) eqn:E3; [apply Nat.ltb_lt in E3; lia|].
    rewrite skipn_app_exact, firstn_app_exact, (IH Hrest). reflexivity.
Qed.

(* on a file made of well-formed frames both readers yield exactly those frames and end cleanly *)
Theorem async_frames_wf : forall frs chunks,
  Forall wf_frame frs -> concat chunks = concat frs -> async_frames chunks = (frs, Eof).
Proof.
  intros frs chunks Hall Hc. rewrite async_framing_equals_sync, Hc. apply sync_all_wf. exact Hall.
Qed.

(* ---------------------------------------------------------------------------------------- *)
(* the three input classes on which the two readers differed before the repair (F16): now equal *)

Definition eof_block : list N :=
  [31; 139; 8; 4; 0; 0; 0; 0; 0; 255; 6; 0; 66; 67; 2; 0; 27; 0; 3; 0; 0; 0; 0; 0; 0; 0; 0; 0]%N.

Definition all_ok : nat -> list N -> bool := fun _ _ => true.

Lemma trailing_partial_frame_example :
  let file := (eof_block ++ [31; 139])%N in
  sync_obs all_ok file = ([], 28%N, Eof) /\ async_obs all_ok [file] = ([], 28%N, Eof).
Proof. vm_compute. split; reflexivity. Qed.

Lemma undersized_bsize_example :
  let file := (firstn 16 eof_block ++ [17; 0; 237; 242])%N in
  sync_obs all_ok file = ([], 0%N, Err InvalidData) /\
  async_obs all_ok [file] = ([], 0%N, Err InvalidData).
Proof. vm_compute. split; reflexivity. Qed.

Lemma truncated_frame_example :
  let file := (eof_block ++ firstn 16 eof_block ++ [40; 0; 1; 2; 3; 4; 5; 6; 7; 8; 255; 255; 255; 255])%N in
  sync_obs all_ok file = ([], 28%N, Err UnexpectedEof) /\
  async_obs all_ok [firstn 40 file; skipn 40 file] = ([], 28%N, Err UnexpectedEof).
Proof. vm_compute. split; reflexivity. Qed.
