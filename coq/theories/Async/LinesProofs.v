(* C16 -- the async line-based readers return, for EVERY poll script and every BufReader capacity,
   the closed forms that C12 proved for the sync readers under every delivery. *)
From Coq Require Import List NArith Arith Bool Lia.
From NV Require Import Io.Source Io.ReadExact Io.ReadExactProofs Io.BufReader Io.BufReaderProofs
  Io.FastaScan Io.FastaScanProofs Io.FastqRead Io.FastqReadProofs Io.HeaderRead Io.HeaderReadProofs
  Io.Run Io.RunProofs.
From NV Require Import Async.ReadExact Async.ReadExactProofs Async.Lines.
From NV Require Fasta.Layout Fasta.Fastq.
Import ListNotations.

(* =========================================================================================== *)
(* FASTA: closed-form lemmas *)

(* what the async loop still has to produce from (is_bol, has_pending_cr) and remaining data d *)
Definition aspec (fx ib p : bool) (d : list N) : list N :=
  if p then
    match d with
    | [] => []
    | y :: _ => if N.eqb y LF then aseq_out fx MID d else CR :: aseq_out fx MID d
    end
  else aseq_out fx (lst ib) d.

Lemma aseq_mid_cons : forall fx x y r, N.eqb x LF = false -> N.eqb y LF = false ->
  aseq_out fx MID (x :: y :: r) = x :: aseq_out fx MID (y :: r).
Proof.
  intros fx x y r Hx Hy. cbn [aseq_out]. rewrite Hx, Hy. destruct (N.eqb x CR); reflexivity.
Qed.

Lemma aseq_mid_run : forall fx l d2, has_byte LF l = false ->
  aseq_out fx MID (l ++ d2) = strip_cr l ++ aspec fx false (last_cr l) d2.
Proof.
  intros fx l. induction l as [|x l IH]; intros d2 Hb; [reflexivity|].
  cbn [has_byte existsb] in Hb. apply orb_false_iff in Hb. destruct Hb as [Hx Hb'].
  rewrite N.eqb_sym in Hx.
  destruct l as [|z l'].
  - cbn [app strip_cr last_cr aseq_out]. rewrite Hx.
    destruct (N.eqb x CR) eqn:Hc.
    + apply N.eqb_eq in Hc. subst x. unfold aspec. cbn [app].
      destruct d2 as [|y d2']; [reflexivity|]. destruct (N.eqb y LF); reflexivity.
    + unfold aspec, lst. reflexivity.
  - change (strip_cr (x :: z :: l')) with (x :: strip_cr (z :: l')).
    change (last_cr (x :: z :: l')) with (last_cr (z :: l')).
    assert (Hz : N.eqb z LF = false).
    { cbn [has_byte existsb] in Hb'. apply orb_false_iff in Hb'. rewrite N.eqb_sym. exact (proj1 Hb'). }
    change ((x :: z :: l') ++ d2) with (x :: z :: (l' ++ d2)).
    rewrite (aseq_mid_cons fx x z (l' ++ d2) Hx Hz).
    change (z :: l' ++ d2) with ((z :: l') ++ d2). rewrite (IH d2 Hb'). reflexivity.
Qed.

(* entering the middle of a line: the first byte is neither LF, nor (at BOL) '>' / a skipped CR *)
Lemma aspec_enter : forall fx ib p b r,
  (p = true -> ib = false) -> N.eqb b LF = false ->
  (ib && N.eqb b GT) = false -> (fx && ib && N.eqb b CR) = false ->
  aspec fx ib p (b :: r) = (if p then [CR] else []) ++ aseq_out fx MID (b :: r).
Proof.
  intros fx ib p b r Hinv Hl Hg Hc. unfold aspec. destruct p.
  - rewrite Hl. reflexivity.
  - cbn [app]. destruct ib; [|reflexivity]. unfold lst. cbn [andb] in Hg, Hc.
    cbn [aseq_out]. rewrite Hl, Hg.
    destruct fx; cbn [andb] in Hc |- *; [rewrite Hc|]; reflexivity.
Qed.

Lemma aseq_fixed_is_sync : forall st d, aseq_out true st d = seq_out st d.
Proof.
  intros st d. revert st. induction d as [|x r IH]; intros st; [reflexivity|].
  cbn [aseq_out seq_out andb]. destruct (N.eqb x LF); [apply IH|].
  destruct st.
  - destruct (N.eqb x CR) eqn:Hc.
    + apply N.eqb_eq in Hc. subst x. change (N.eqb CR GT) with false. cbv iota. apply IH.
    + destruct (N.eqb x GT); [reflexivity|]. f_equal. apply IH.
  - destruct (N.eqb x CR).
    + destruct r as [|y r']; [reflexivity|]. destruct (N.eqb y LF); [apply IH|]. f_equal. apply IH.
    + f_equal. apply IH.
Qed.

Lemma aseq_unfixed_no_bol_cr : forall d st, no_bol_cr st d = true -> aseq_out false st d = seq_out st d.
Proof.
  induction d as [|x r IH]; intros st H; [reflexivity|].
  cbn [aseq_out seq_out no_bol_cr andb] in *. destruct (N.eqb x LF); [apply IH; exact H|].
  destruct st.
  - destruct (N.eqb x GT) eqn:Hg.
    + apply N.eqb_eq in Hg. subst x. reflexivity.
    + apply andb_true_iff in H. destruct H as [Hc H].
      destruct (N.eqb x CR) eqn:Hcr.
      * cbn [negb orb] in Hc. destruct r as [|y r']; [reflexivity|]. rewrite Hc.
        pose proof (IH MID H) as Hr. cbn [aseq_out seq_out] in Hr. rewrite Hc in Hr.
        cbn [seq_out aseq_out]. rewrite Hc. exact Hr.
      * f_equal. apply IH. exact H.
  - destruct (N.eqb x CR).
    + destruct r as [|y r']; [reflexivity|].
      assert (Hr : aseq_out false MID (y :: r') = seq_out MID (y :: r')) by (apply IH; exact H).
      destruct (N.eqb y LF); [exact Hr|]. f_equal. exact Hr.
    + f_equal. apply IH. exact H.
Qed.

(* =========================================================================================== *)
(* FASTQ: the async name line (whole line, then memchr2 split) has the closed form of the sync
   window scanner (C11's Fastq.read_definition) *)
Local Open Scope N_scope.

Definition clean (n : list N) : bool :=
  forallb (fun c => negb ((c =? Layout.SP) || (c =? Fastq.HT) || (c =? Layout.LF))) n.

Lemma scan_name_clean : forall w n dl r, Fastq.scan_name w = (n, dl, r) ->
  clean n = true /\
  match dl with Some b => ((b =? Layout.SP) || (b =? Fastq.HT) || (b =? Layout.LF)) = true | None => True end.
Proof.
  induction w as [|c t IH]; intros n dl r H.
  - cbn [Fastq.scan_name] in H. injection H as <- <- <-. split; [reflexivity|exact I].
  - cbn [Fastq.scan_name] in H.
    destruct ((c =? Layout.SP) || (c =? Fastq.HT) || (c =? Layout.LF)) eqn:Hd.
    + injection H as <- <- <-. split; [reflexivity|exact Hd].
    + destruct (Fastq.scan_name t) as [[n1 dl1] r1] eqn:E. injection H as <- <- <-.
      destruct (IH n1 dl1 r1 eq_refl) as [Hc Hdl]. split; [|exact Hdl].
      unfold clean. cbn [forallb]. rewrite Hd. exact Hc.
Qed.

Lemma take_line_clean_app : forall n q, clean n = true ->
  Fastq.take_line (n ++ q) = (n ++ fst (Fastq.take_line q), snd (Fastq.take_line q)).
Proof.
  induction n as [|c n IH]; intros q H.
  - cbn [app]. destruct (Fastq.take_line q); reflexivity.
  - unfold clean in H. cbn [forallb] in H. apply andb_true_iff in H. destruct H as [Hc Hn].
    apply negb_true_iff in Hc. apply orb_false_iff in Hc. destruct Hc as [_ Hl].
    cbn [app Fastq.take_line]. rewrite Hl. rewrite (IH q Hn). reflexivity.
Qed.

Lemma ends_with_app : forall c p l, l <> [] -> Layout.ends_with c (p ++ l) = Layout.ends_with c l.
Proof.
  induction p as [|x p IH]; intros l Hl; [reflexivity|].
  cbn [app]. destruct (p ++ l) eqn:E.
  - destruct p; [cbn [app] in E; congruence|discriminate].
  - change (Layout.ends_with c (x :: n :: l0)) with (Layout.ends_with c (n :: l0)).
    rewrite <- E. exact (IH l Hl).
Qed.

Lemma strip_last_app : forall c p l, l <> [] -> Layout.strip_last c (p ++ l) = p ++ Layout.strip_last c l.
Proof.
  induction p as [|x p IH]; intros l Hl; [reflexivity|].
  cbn [app]. destruct (p ++ l) eqn:E.
  - destruct p; [cbn [app] in E; congruence|discriminate].
  - change (Layout.strip_last c (x :: n :: l0)) with (x :: Layout.strip_last c (n :: l0)).
    rewrite <- E. f_equal. exact (IH l Hl).
Qed.

Lemma strip_last_cons_ne : forall c d l, (d =? c) = false ->
  Layout.strip_last c (d :: l) = d :: Layout.strip_last c l.
Proof. intros c d l H. destruct l; cbn [Layout.strip_last]; [rewrite H|]; reflexivity. Qed.

Lemma ends_with_cons_ne : forall c d l, (d =? c) = false ->
  Layout.ends_with c (d :: l) = Layout.ends_with c l.
Proof. intros c d l H. destruct l; cbn [Layout.ends_with]; [exact H|reflexivity]. Qed.

Lemma def_content_snoc_lf : forall n, Layout.def_content (n ++ [Layout.LF]) = Layout.strip_last Layout.CR n.
Proof.
  intros n. unfold Layout.def_content.
  rewrite ends_with_app by discriminate. rewrite strip_last_app by discriminate.
  cbn [Layout.ends_with Layout.strip_last]. change (Layout.LF =? Layout.LF) with true. cbv iota.
  rewrite app_nil_r. reflexivity.
Qed.

Lemma def_content_mid : forall n d l, (d =? Layout.LF) = false -> (d =? Layout.CR) = false ->
  Layout.def_content (n ++ d :: l) = n ++ d :: Layout.def_content l.
Proof.
  intros n d l Hl Hc. unfold Layout.def_content.
  rewrite ends_with_app by discriminate. rewrite (ends_with_cons_ne _ _ _ Hl).
  destruct (Layout.ends_with Layout.LF l); [|reflexivity].
  rewrite strip_last_app by discriminate. rewrite (strip_last_cons_ne _ _ _ Hl).
  rewrite strip_last_app by discriminate. rewrite (strip_last_cons_ne _ _ _ Hc). reflexivity.
Qed.

Lemma clean_no_lf_end : forall n, clean n = true -> Layout.ends_with Layout.LF n = false.
Proof.
  induction n as [|c n IH]; intros H; [reflexivity|].
  unfold clean in H. cbn [forallb] in H. apply andb_true_iff in H. destruct H as [Hc Hn].
  apply negb_true_iff in Hc. apply orb_false_iff in Hc. destruct Hc as [_ Hl].
  destruct n as [|y n']; [cbn [Layout.ends_with]; exact Hl|].
  change (Layout.ends_with Layout.LF (c :: y :: n')) with (Layout.ends_with Layout.LF (y :: n')).
  exact (IH Hn).
Qed.

Lemma clean_strip_last : forall c n, clean n = true -> clean (Layout.strip_last c n) = true.
Proof.
  intros c. induction n as [|x n IH]; intros H; [reflexivity|].
  unfold clean in H. cbn [forallb] in H. apply andb_true_iff in H. destruct H as [Hx Hn].
  destruct n as [|y n'].
  - cbn [Layout.strip_last]. destruct (x =? c); [reflexivity|]. unfold clean. cbn [forallb].
    rewrite Hx. reflexivity.
  - change (Layout.strip_last c (x :: y :: n')) with (x :: Layout.strip_last c (y :: n')).
    unfold clean. cbn [forallb]. rewrite Hx. exact (IH Hn).
Qed.

Lemma split2_clean : forall n, clean n = true -> split2 n = (n, []).
Proof.
  induction n as [|c n IH]; intros H; [reflexivity|].
  unfold clean in H. cbn [forallb] in H. apply andb_true_iff in H. destruct H as [Hc Hn].
  apply negb_true_iff in Hc. apply orb_false_iff in Hc. destruct Hc as [Hs _].
  cbn [split2]. change (N.eqb c Layout.SP || N.eqb c Fastq.HT)%bool with ((c =? Layout.SP) || (c =? Fastq.HT))%bool.
  rewrite Hs. rewrite (IH Hn). reflexivity.
Qed.

Lemma split2_clean_app : forall n b x, clean n = true -> ((b =? Layout.SP) || (b =? Fastq.HT)) = true ->
  split2 (n ++ b :: x) = (n, x).
Proof.
  induction n as [|c n IH]; intros b x H Hb.
  - cbn [app split2]. change (N.eqb b Layout.SP || N.eqb b Fastq.HT)%bool with ((b =? Layout.SP) || (b =? Fastq.HT))%bool.
    rewrite Hb. reflexivity.
  - unfold clean in H. cbn [forallb] in H. apply andb_true_iff in H. destruct H as [Hc Hn].
    apply negb_true_iff in Hc. apply orb_false_iff in Hc. destruct Hc as [Hs _].
    cbn [app split2]. change (N.eqb c Layout.SP || N.eqb c Fastq.HT)%bool with ((c =? Layout.SP) || (c =? Fastq.HT))%bool.
    rewrite Hs. rewrite (IH b x Hn Hb). reflexivity.
Qed.

(* the async name line on the flat data *)
Definition a_def_closed (t : list N) : list N * list N * list N :=
  let '(line, r) := Fastq.read_line t in let '(n, d) := split2 line in (n, d, r).

Theorem a_def_closed_is_sync : forall t,
  Fastq.read_definition (Fastq.AT :: t) = inr (Some (a_def_closed t)).
Proof.
  intros t. unfold Fastq.read_definition, a_def_closed, Fastq.read_line.
  change (Fastq.AT =? Fastq.AT) with true. cbn [negb].
  destruct (Fastq.scan_name t) as [[n dl] r] eqn:Esc.
  destruct (scan_name_clean t n dl r Esc) as [Hcl Hdl].
  destruct dl as [b|].
  - destruct (scan_some t n b r Esc) as [Hw _]. subst t.
    rewrite (take_line_clean_app n (b :: r) Hcl).
    destruct (b =? Layout.LF) eqn:Hl.
    + apply N.eqb_eq in Hl. subst b. cbn [Fastq.take_line]. change (Layout.LF =? Layout.LF) with true.
      cbv iota. cbn [fst snd]. rewrite def_content_snoc_lf.
      rewrite (split2_clean _ (clean_strip_last Layout.CR n Hcl)). reflexivity.
    + rewrite orb_false_r in Hdl.
      assert (Hc : (b =? Layout.CR) = false).
      { apply orb_true_iff in Hdl. destruct Hdl as [H|H]; apply N.eqb_eq in H; subst b; reflexivity. }
      cbn [Fastq.take_line]. rewrite Hl.
      destruct (Fastq.take_line r) as [l' r'] eqn:Etl. cbn [fst snd].
      rewrite (def_content_mid n b l' Hl Hc).
      rewrite (split2_clean_app n b _ Hcl Hdl). reflexivity.
  - destruct (scan_none t n r Esc) as [Hn [Hr _]]. subst n r.
    pose proof (take_line_clean_app t [] Hcl) as Htl. rewrite app_nil_r in Htl. rewrite Htl.
    cbn [Fastq.take_line fst snd]. rewrite app_nil_r.
    unfold Layout.def_content. rewrite (clean_no_lf_end t Hcl).
    rewrite (split2_clean t Hcl). reflexivity.
Qed.
Local Close Scope N_scope.

(* =========================================================================================== *)
Section Generic.
  Context {S : Type}.
  Variable rd : reader S.
  Variable Rep : S -> list N -> nat -> Prop.
  Hypothesis Hsim : simulates rd Rep.
  Variable cap : nat.
  Hypothesis Hcap : 1 <= cap.

  Notation repb st d m := (rep_buf Rep st d m).

  Lemma window_is_prefix : forall (w d : list N), w = firstn (length w) d -> d = w ++ skipn (length w) d.
  Proof.
    intros w d Hp. pose proof (firstn_skipn (length w) d) as Hx. rewrite <- Hp in Hx. symmetry. exact Hx.
  Qed.

  (* ---- fasta: the async sequence loop produces the closed form, for every delivery *)
  Theorem a_seq_loop_spec : forall fx fuel ib p st d m acc n,
    repb st d m -> (p = true -> ib = false) -> m + length d + 1 < fuel ->
    exists n' st', a_seq_loop rd cap fx fuel ib p st acc n = (SOk, acc ++ aspec fx ib p d, n', st').
  Proof.
    intros fx. induction fuel as [|fuel IH]; intros ib p st d m acc n HR Hinv Hf; [lia|].
    cbn [a_seq_loop].
    pose proof (br_fill_buf_spec rd Rep Hsim cap Hcap st d m HR) as Hfb.
    destruct (br_fill_buf rd cap st) as [[src|] st1].
    2:{ destruct Hfb as [m1 [Hm1 HR1]]. apply (IH ib p st1 d m1 acc n HR1 Hinv). lia. }
    destruct Hfb as [Hpre [Hne [Hfst [m1 [Hm1 HR1]]]]].
    destruct src as [|b w].
    - assert (d = []) by (destruct d; [reflexivity|exfalso; apply Hne; [discriminate|reflexivity]]).
      subst d. exists n, st1. f_equal. f_equal. f_equal.
      unfold aspec. destruct p; [rewrite app_nil_r; reflexivity|]. destruct ib; rewrite app_nil_r; reflexivity.
    - destruct (prefix_cons b w d Hpre) as [r Hd]. subst d.
      set (src := b :: w) in *.
      destruct (ib && N.eqb b GT) eqn:Hgt.
      { apply andb_true_iff in Hgt. destruct Hgt as [Hib Hg]. subst ib.
        apply N.eqb_eq in Hg. subst b. exists n, st1.
        assert (Hp : p = false) by (destruct p; [specialize (Hinv eq_refl); discriminate|reflexivity]).
        subst p. unfold aspec, lst. cbn [aseq_out]. change (N.eqb GT LF) with false. cbv iota.
        change (N.eqb GT GT) with true. cbv iota. rewrite app_nil_r. reflexivity. }
      destruct (fx && ib && N.eqb b CR) eqn:Hbc.
      { apply andb_true_iff in Hbc. destruct Hbc as [Hfi Hc]. apply andb_true_iff in Hfi.
        destruct Hfi as [Hfx Hib]. subst fx ib. apply N.eqb_eq in Hc. subst b.
        assert (Hp : p = false) by (destruct p; [specialize (Hinv eq_refl); discriminate|reflexivity]).
        subst p.
        assert (HR2 : repb (br_consume 1 st1) r m1).
        { change r with (skipn 1 (CR :: r)). apply br_consume_spec; [exact HR1|].
          rewrite Hfst. unfold src. cbn [length]. lia. }
        destruct (IH true false _ r m1 acc (Datatypes.S n) HR2 ltac:(intros H; discriminate)
                    ltac:(cbn [length] in *; lia)) as [n' [st' E]].
        exists n', st'. rewrite E. unfold aspec, lst. cbn [aseq_out andb].
        change (N.eqb CR LF) with false. cbv iota. change (N.eqb CR GT) with false. cbv iota.
        change (N.eqb CR CR) with true. cbv iota. reflexivity. }
      (* the general step *)
      pose proof (window_is_prefix src (b :: r) Hpre) as Hsplit.
      destruct (has_byte LF src) eqn:Hlf.
      + (* the window holds the end of the line *)
        pose proof (until_lf_split src Hlf) as Hus.
        set (line := until_lf src) in *.
        assert (Hd : b :: r = line ++ LF :: skipn (Datatypes.S (length line)) (b :: r)).
        { rewrite Hsplit at 1. rewrite Hus at 1. rewrite <- app_assoc. cbn [app]. f_equal. f_equal.
          rewrite Hsplit at 2. rewrite skipn_app_le.
          2:{ pose proof (f_equal (@length N) Hus) as HL. rewrite app_length in HL. cbn [length] in HL. lia. }
          reflexivity. }
        assert (Hlen : Datatypes.S (length line) <= length src).
        { pose proof (f_equal (@length N) Hus) as HL. rewrite app_length in HL. cbn [length] in HL.
          cbn [length]. lia. }
        assert (HR2 : repb (br_consume (Datatypes.S (length line)) st1)
                        (skipn (Datatypes.S (length line)) (b :: r)) m1).
        { apply br_consume_spec; [exact HR1|]. rewrite Hfst. exact Hlen. }
        set (d3 := skipn (Datatypes.S (length line)) (b :: r)) in *.
        assert (Hd3 : length d3 < length (b :: r)).
        { unfold d3. rewrite skipn_length. cbn [length]. lia. }
        destruct (IH true false _ d3 m1
                    ((if p && negb (N.eqb b LF) then acc ++ [CR] else acc) ++ strip_cr line)
                    (n + Datatypes.S (length line)) HR2 ltac:(intros H; discriminate) ltac:(lia))
          as [n' [st' E]].
        exists n', st'. cbn [negb andb]. rewrite E. f_equal. f_equal. f_equal.
        (* closed form *)
        assert (Hnolf : has_byte LF line = false) by apply until_lf_no_lf.
        destruct (N.eqb b LF) eqn:Hl.
        * (* the window starts with the LF *)
          assert (Hline : line = []).
          { unfold line, src. cbn [until_lf]. rewrite Hl. reflexivity. }
          rewrite Hline in *. cbn [strip_cr app length] in *. rewrite andb_false_r.
          rewrite app_nil_r. f_equal.
          apply N.eqb_eq in Hl. subst b. unfold aspec at 2.
          destruct p.
          -- change (N.eqb LF LF) with true. cbv iota. cbn [aseq_out]. change (N.eqb LF LF) with true.
             cbv iota. unfold aspec, lst, d3. reflexivity.
          -- cbn [aseq_out]. change (N.eqb LF LF) with true. cbv iota.
             unfold aspec, lst, d3. destruct ib; reflexivity.
        * rewrite andb_true_r.
          rewrite (aspec_enter fx ib p b r Hinv Hl Hgt Hbc).
          rewrite Hd at 1. rewrite (aseq_mid_run fx line _ Hnolf).
          assert (Htail : aspec fx false (last_cr line) (LF :: d3) = aspec fx true false d3).
          { unfold aspec. destruct (last_cr line).
            - change (N.eqb LF LF) with true. cbv iota. cbn [aseq_out].
              change (N.eqb LF LF) with true. cbv iota. reflexivity.
            - unfold lst. cbn [aseq_out]. change (N.eqb LF LF) with true. cbv iota. reflexivity. }
          fold d3. rewrite Htail.
          destruct p; cbn [app]; rewrite <- ?app_assoc; reflexivity.
      + (* no LF in the window: everything is consumed *)
        assert (Hul : until_lf src = src) by (apply until_lf_all; exact Hlf).
        rewrite Hul.
        assert (Hl : N.eqb b LF = false).
        { unfold src in Hlf. cbn [has_byte existsb] in Hlf. apply orb_false_iff in Hlf.
          rewrite N.eqb_sym. exact (proj1 Hlf). }
        assert (HR2 : repb (br_consume (length src) st1) (skipn (length src) (b :: r)) m1).
        { apply br_consume_spec; [exact HR1|]. rewrite Hfst. lia. }
        set (d2 := skipn (length src) (b :: r)) in *.
        assert (Hd2 : length d2 < length (b :: r)).
        { unfold d2. rewrite skipn_length. unfold src. cbn [length]. lia. }
        destruct (IH false (last_cr src) _ d2 m1
                    ((if p && negb (N.eqb b LF) then acc ++ [CR] else acc) ++ strip_cr src)
                    (n + length src) HR2 ltac:(intros _; reflexivity) ltac:(lia))
          as [n' [st' E]].
        exists n', st'. cbn [negb andb]. rewrite E. f_equal. f_equal. f_equal.
        rewrite Hl. cbn [negb]. rewrite andb_true_r.
        rewrite (aspec_enter fx ib p b r Hinv Hl Hgt Hbc).
        rewrite Hsplit at 1. fold d2. rewrite (aseq_mid_run fx src d2 Hlf).
        destruct p; cbn [app]; rewrite <- ?app_assoc; reflexivity.
  Qed.

  (* ---- fastq: the async record reader = C11's read_qrec on the data *)
  Lemma a_read_name_spec : forall fuel st d m, repb st d m -> m + length d + 1 < fuel ->
    match Fastq.read_definition d with
    | inl e => exists st', a_read_name rd cap fuel st = (inl e, st')
    | inr None => exists st', a_read_name rd cap fuel st = (inr None, st')
    | inr (Some (n, desc, rest)) =>
        exists st' m', a_read_name rd cap fuel st = (inr (Some (n, desc, length d - length rest)), st')
                       /\ repb st' rest m' /\ m' <= m /\ length rest < length d
    end.
  Proof.
    intros fuel st d m HR Hf. unfold a_read_name.
    destruct (d_read_u8_spec rd Rep Hsim cap Hcap fuel st d m HR ltac:(lia)) as [st1 [m1 [E1 [HR1 Hm1]]]].
    rewrite E1. destruct d as [|b t].
    - exists st1. reflexivity.
    - cbn [skipn] in HR1. cbn [length] in Hf.
      destruct (N.eqb b Fastq.AT) eqn:Hb.
      + apply N.eqb_eq in Hb. subst b. rewrite a_def_closed_is_sync. unfold a_def_closed.
        rewrite qread_line. cbn [negb].
        destruct (read_line_spec rd Rep Hsim cap Hcap fuel st1 t m1 HR1 ltac:(lia))
          as [st2 [m2 [E2 [HR2 Hm2]]]].
        rewrite E2. destruct (split2 (strip_eol (take_line LF t))) as [n dsc].
        exists st2, m2. pose proof (take_line_length_le cap Hcap LF t) as Htl.
        split; [rewrite skipn_length; cbn [length]; repeat (f_equal; try lia)|].
        split; [exact HR2|]. rewrite skipn_length. cbn [length]. split; lia.
      + unfold Fastq.read_definition. change (b =? Fastq.AT)%N with (N.eqb b Fastq.AT).
        rewrite Hb. cbn [negb]. exists st1. reflexivity.
  Qed.

  Lemma a_read_description_spec : forall fuel st d m, repb st d m -> m + length d + 1 < fuel ->
    match Fastq.consume_plus_line d with
    | inl e => exists st', a_read_description rd cap fuel st = (inl e, st')
    | inr rest => exists k st' m', a_read_description rd cap fuel st = (inr k, st')
                                   /\ repb st' rest m' /\ m' <= m /\ length rest <= length d
    end.
  Proof.
    intros fuel st d m HR Hf. unfold a_read_description, Fastq.consume_plus_line.
    destruct (d_read_u8_spec rd Rep Hsim cap Hcap fuel st d m HR ltac:(lia)) as [st1 [m1 [E1 [HR1 Hm1]]]].
    rewrite E1. destruct d as [|b t].
    - exists st1. reflexivity.
    - cbn [skipn] in HR1. change (b =? Fastq.PLUS)%N with (N.eqb b Fastq.PLUS).
      destruct (N.eqb b Fastq.PLUS); [|exists st1; reflexivity].
      cbn [length] in Hf.
      destruct (read_line_spec rd Rep Hsim cap Hcap fuel st1 t m1 HR1 ltac:(lia))
        as [st2 [m2 [E2 [HR2 Hm2]]]].
      rewrite E2. rewrite qtake_line. cbn [snd]. eexists; exists st2, m2. split; [reflexivity|].
      split; [exact HR2|]. rewrite skipn_length. cbn [length]. split; lia.
  Qed.

  Lemma a_read_qrec_spec : forall fuel st d m, repb st d m -> m + length d + 1 < fuel ->
    match Fastq.read_qrec d with
    | inl e => exists st', a_read_qrec rd cap fuel st = (inl e, st')
    | inr None => exists st', a_read_qrec rd cap fuel st = (inr None, st')
    | inr (Some (r, rest)) =>
        exists k st' m', a_read_qrec rd cap fuel st = (inr (Some (r, k)), st')
                         /\ repb st' rest m' /\ m' <= m /\ length rest < length d
    end.
  Proof.
    intros fuel st d m HR Hf. unfold a_read_qrec, Fastq.read_qrec.
    pose proof (a_read_name_spec fuel st d m HR Hf) as HD.
    destruct (Fastq.read_definition d) as [e|[[[n desc] r1]|]].
    - destruct HD as [st1 E]. rewrite E. exists st1. reflexivity.
    - destruct HD as [st1 [m1 [E1 [HR1 [Hm1 Hl1]]]]]. rewrite E1.
      destruct (read_line_spec rd Rep Hsim cap Hcap fuel st1 r1 m1 HR1 ltac:(lia))
        as [st2 [m2 [E2 [HR2 Hm2]]]].
      rewrite E2. rewrite qread_line.
      set (r2 := skipn (length (take_line LF r1)) r1) in *.
      assert (Hl2 : length r2 <= length r1) by (unfold r2; rewrite skipn_length; lia).
      pose proof (a_read_description_spec fuel st2 r2 m2 HR2 ltac:(lia)) as HP.
      destruct (Fastq.consume_plus_line r2) as [e|r3].
      + destruct HP as [st3 E3]. rewrite E3. exists st3. reflexivity.
      + destruct HP as [k2 [st3 [m3 [E3 [HR3 [Hm3 Hl3]]]]]]. rewrite E3.
        destruct (read_line_spec rd Rep Hsim cap Hcap fuel st3 r3 m3 HR3 ltac:(lia))
          as [st4 [m4 [E4 [HR4 Hm4]]]].
        rewrite E4. rewrite qread_line. eexists; exists st4, m4. split; [reflexivity|].
        split; [exact HR4|]. rewrite skipn_length. split; lia.
    - destruct HD as [st1 E]. rewrite E. exists st1. reflexivity.
  Qed.

  Variable fuelf : bstate S -> nat.
  Hypothesis Hfuel : forall st d m, repb st d m -> m + length d + 1 < fuelf st.
  Variable leftf : bstate S -> nat.
  Hypothesis Hleft : forall st d m, repb st d m -> leftf st = length d.

  Theorem a_read_qrecs_spec : forall j st d m, repb st d m ->
    exists st', a_read_qrecs rd cap fuelf j st = (Fastq.read_qrecs j d, st').
  Proof.
    induction j as [|j IH]; intros st d m HR.
    - exists st. reflexivity.
    - cbn [a_read_qrecs Fastq.read_qrecs].
      pose proof (a_read_qrec_spec (fuelf st) st d m HR (Hfuel st d m HR)) as HS.
      destruct (Fastq.read_qrec d) as [e|[[r rest]|]].
      + destruct HS as [st1 E]. rewrite E. exists st1. reflexivity.
      + destruct HS as [k [st1 [m1 [E [HR1 [Hm1 Hl1]]]]]]. rewrite E.
        destruct (IH st1 rest m1 HR1) as [st2 E2]. rewrite E2.
        destruct (Fastq.read_qrecs j rest) as [rs e]. exists st2. reflexivity.
      + destruct HS as [st1 E]. rewrite E. exists st1. reflexivity.
  Qed.

  (* ---- gff: read_line until it returns 0 *)
  Fixpoint gff_all_closed (k : nat) (d : list N) : list (nat * list N) :=
    match k with
    | 0 => []
    | Datatypes.S k' =>
      match gff_closed (Datatypes.S (length d)) d with
      | Some (Datatypes.S n, l, rest) => (Datatypes.S n, l) :: gff_all_closed k' rest
      | _ => []
      end
    end.

  Lemma gff_closed_total : forall lines d, length d < lines -> exists r, gff_closed lines d = Some r.
  Proof.
    induction lines as [|lines IH]; intros d Hl; [lia|].
    cbn [gff_closed].
    destruct ((length (take_line LF d) =? 0) || negb (forallb is_ascii_ws (strip_eol (take_line LF d)))) eqn:Hc.
    - eexists. reflexivity.
    - apply orb_false_iff in Hc. destruct Hc as [Hn _]. apply Nat.eqb_neq in Hn.
      pose proof (take_line_length_le cap Hcap LF d) as Htl.
      apply IH. rewrite skipn_length. lia.
  Qed.

  Theorem g_gff_lines_spec : forall k st d m, repb st d m ->
    exists st', g_gff_lines rd cap fuelf leftf k st = (gff_all_closed k d, st').
  Proof.
    induction k as [|k IH]; intros st d m HR.
    - exists st. reflexivity.
    - cbn [g_gff_lines gff_all_closed]. rewrite (Hleft st d m HR).
      destruct (gff_closed_total (Datatypes.S (length d)) d ltac:(lia)) as [[[n l] rest] Hc].
      rewrite Hc.
      destruct (gff_read_line_spec rd Rep Hsim cap Hcap (Datatypes.S (length d)) (fuelf st) st d m n l rest
                  HR (Hfuel st d m HR) Hc) as [st1 [m1 [E [HR1 Hm1]]]].
      rewrite E. destruct n as [|n].
      + exists st1. reflexivity.
      + destruct (IH st1 rest m1 HR1) as [st2 E2]. rewrite E2. exists st2. reflexivity.
  Qed.
End Generic.

(* =========================================================================================== *)
(* the async source and the scripted sync source as instances *)
Lemma rep_a_buf_start : forall data codes,
  rep_buf rep_a (ab_start data codes) data 0.
Proof.
  intros data codes. exists data. cbn [fst snd app ab_start]. split; [reflexivity|]. apply rep_a_mk.
Qed.

Lemma ab_fuel_ok : forall st d m, rep_buf rep_a st d m -> m + length d + 1 < ab_fuel st.
Proof.
  intros [buf s] d m [d' [Hd [Hs Hm]]]. cbn [fst snd] in *. subst d m d'. unfold ab_fuel. cbn [fst snd].
  rewrite app_length. lia.
Qed.

Lemma ab_left_ok : forall st d m, rep_buf rep_a st d m -> ab_left st = length d.
Proof.
  intros [buf s] d m [d' [Hd [Hs Hm]]]. cbn [fst snd] in *. subst d m d'. unfold ab_left. cbn [fst snd].
  rewrite app_length. reflexivity.
Qed.

Definition sb_fuel (st : bsrc) : nat := b_fuel st 0.

Lemma rep_src_buf_start : forall data sc,
  rep_buf rep_src ([], mkSource data sc) data (n_interrupted sc).
Proof.
  intros data sc. exists data. cbn [fst snd app]. split; [reflexivity|]. split; reflexivity.
Qed.

Lemma sb_fuel_ok : forall st d m, rep_buf rep_src st d m -> m + length d + 1 < sb_fuel st.
Proof.
  intros [buf s] d m [d' [Hd [Hs Hm]]]. cbn [fst snd] in *. subst d m d'.
  unfold sb_fuel, b_fuel, src_fuel. cbn [fst snd]. rewrite app_length. lia.
Qed.

Lemma b_left_ok : forall st d m, rep_buf rep_src st d m -> b_left st = length d.
Proof.
  intros [buf s] d m [d' [Hd [Hs Hm]]]. cbn [fst snd] in *. subst d m d'. unfold b_left. cbn [fst snd].
  rewrite app_length. reflexivity.
Qed.

Lemma g_gff_lines_is_sync : forall cap k st,
  g_gff_lines src_read cap sb_fuel b_left k st = gff_lines cap k st.
Proof.
  intros cap. induction k as [|k IH]; intros st; [reflexivity|].
  cbn [g_gff_lines gff_lines]. unfold sb_fuel.
  destruct (gff_read_line src_read cap (Datatypes.S (b_left st)) (b_fuel st 0) st) as [[[n l] u] st'].
  destruct n; [reflexivity|]. rewrite IH. reflexivity.
Qed.

(* ---- GFF: every poll script / capacity of the async reader, every delivery script / capacity of the
   sync reader: the same (byte count, line) sequence *)
Theorem async_gff_lines_closed : forall cap codes data, 1 <= cap ->
  fst (async_gff_case cap codes data) = gff_all_closed 64 data.
Proof.
  intros cap codes data Hcap. unfold async_gff_case.
  destruct (g_gff_lines_spec aread rep_a aread_simulates cap Hcap ab_fuel ab_fuel_ok ab_left ab_left_ok
              64 (ab_start data codes) data 0 (rep_a_buf_start data codes)) as [st' E].
  rewrite E. reflexivity.
Qed.

Theorem async_gff_lines_equal_sync : forall cap cap' codes sc data, 1 <= cap -> 1 <= cap' ->
  fst (async_gff_case cap codes data) = fst (gff_lines cap' 64 ([], mkSource data sc)).
Proof.
  intros cap cap' codes sc data Hcap Hcap'. rewrite (async_gff_lines_closed cap codes data Hcap).
  rewrite <- g_gff_lines_is_sync.
  destruct (g_gff_lines_spec src_read rep_src src_simulates cap' Hcap' sb_fuel sb_fuel_ok b_left b_left_ok
              64 ([], mkSource data sc) data (n_interrupted sc) (rep_src_buf_start data sc)) as [st' E].
  rewrite E. reflexivity.
Qed.

(* ---- FASTQ: records and final error of the async reader = C11's read_qfile = the sync reader's *)
Theorem async_fastq_closed : forall cap codes data, 1 <= cap ->
  fst (async_fastq_case cap codes data) = Fastq.read_qfile data.
Proof.
  intros cap codes data Hcap. unfold async_fastq_case, Fastq.read_qfile.
  destruct (a_read_qrecs_spec aread rep_a aread_simulates cap Hcap ab_fuel ab_fuel_ok
              (Datatypes.S (length data)) (ab_start data codes) data 0 (rep_a_buf_start data codes)) as [st' E].
  rewrite E. reflexivity.
Qed.

Theorem async_fastq_equals_sync : forall cap cap' codes sc data, 1 <= cap -> 1 <= cap' ->
  fst (async_fastq_case cap codes data) = fst (run_fastq cap' (mkSource data sc)).
Proof.
  intros cap cap' codes sc data Hcap Hcap'. rewrite (async_fastq_closed cap codes data Hcap).
  destruct (run_fastq_spec data sc cap' Hcap') as [st' E]. rewrite E. reflexivity.
Qed.

(* ---- FASTA read_sequence *)
Theorem async_fasta_sequence_closed : forall fx cap codes data, 1 <= cap ->
  exists n st', a_read_sequence aread cap ab_fuel fx (ab_start data codes)
                = (SOk, aseq_out fx BOL data, n, st').
Proof.
  intros fx cap codes data Hcap. unfold a_read_sequence.
  destruct (a_seq_loop_spec aread rep_a aread_simulates cap Hcap fx (ab_fuel (ab_start data codes))
              true false (ab_start data codes) data 0 [] 0 (rep_a_buf_start data codes)
              ltac:(intros H; discriminate) (ab_fuel_ok _ _ _ (rep_a_buf_start data codes)))
    as [n [st' E]].
  exists n, st'. exact E.
Qed.

(* the repaired loop (CRs at the beginning of a line skipped): the sync sequence for ALL data *)
Theorem async_fasta_sequence_fixed_equals_sync : forall cap cap' codes sc data, 1 <= cap -> 1 <= cap' ->
  snd (fst (fst (a_read_sequence aread cap ab_fuel true (ab_start data codes))))
  = snd (fst (run_read_sequence cap' (mkSource data sc))).
Proof.
  intros cap cap' codes sc data Hcap Hcap'.
  destruct (async_fasta_sequence_closed true cap codes data Hcap) as [n [st' E]]. rewrite E.
  destruct (read_sequence_spec src_read rep_src src_simulates cap' Hcap'
              (s_fuel ([], mkSource data sc)) true false ([], mkSource data sc) data
              (n_interrupted sc) []) as [s' E'].
  - apply rep_src_buf_start.
  - intros H; discriminate.
  - unfold mu, s_fuel, b_fuel, src_fuel. cbn [fst snd s_data s_script length]. lia.
  - assert (E'' : run_read_sequence cap' (mkSource data sc) = (SOk, [] ++ spec true false data, s')) by exact E'.
    rewrite E''. cbn [fst snd app]. unfold spec, lst. apply aseq_fixed_is_sync.
Qed.

(* the loop of the pinned /repo: equal to sync on every input without a CR at the beginning of a
   sequence line, whatever the poll script *)
Theorem async_fasta_sequence_equals_sync : forall cap cap' codes sc data, 1 <= cap -> 1 <= cap' ->
  no_bol_cr BOL data = true ->
  snd (fst (fst (a_read_sequence aread cap ab_fuel false (ab_start data codes))))
  = snd (fst (run_read_sequence cap' (mkSource data sc))).
Proof.
  intros cap cap' codes sc data Hcap Hcap' Hn.
  destruct (async_fasta_sequence_closed false cap codes data Hcap) as [n [st' E]]. rewrite E.
  destruct (read_sequence_spec src_read rep_src src_simulates cap' Hcap'
              (s_fuel ([], mkSource data sc)) true false ([], mkSource data sc) data
              (n_interrupted sc) []) as [s' E'].
  - apply rep_src_buf_start.
  - intros H; discriminate.
  - unfold mu, s_fuel, b_fuel, src_fuel. cbn [fst snd s_data s_script length]. lia.
  - assert (E'' : run_read_sequence cap' (mkSource data sc) = (SOk, [] ++ spec true false data, s')) by exact E'.
    rewrite E''. cbn [fst snd app]. unfold spec, lst. apply aseq_unfixed_no_bol_cr. exact Hn.
Qed.

(* ... and different from sync on "\rA\n" (finding async-fasta-bol-cr-kept) *)
Theorem async_fasta_bol_cr_refuted : exists data,
  snd (fst (fst (a_read_sequence aread 8 ab_fuel false (ab_start data []))))
  <> snd (fst (run_read_sequence 8 (mkSource data []))).
Proof. exists [13; 65; 10]%N. vm_compute. discriminate. Qed.

(* ---- sam / vcf header adapter: for every prefix, data, poll script and capacity the raw header
   lines and the position where the header ends are the closed form hdr_closed = the sync adapter's *)
Theorem async_header_lines_closed : forall prefix cap codes data, 1 <= cap ->
  async_header_case prefix cap codes data
  = (fst (hdr_closed (Datatypes.S (length data)) prefix data), UOk,
     length data - length (snd (hdr_closed (Datatypes.S (length data)) prefix data))).
Proof.
  intros prefix cap codes data Hcap. unfold async_header_case.
  destruct (h_raw_lines_spec aread rep_a aread_simulates cap Hcap prefix (Datatypes.S (length data))
              (ab_fuel (ab_start data codes)) true (ab_start data codes) data 0
              (rep_a_buf_start data codes) ltac:(lia) (ab_fuel_ok _ _ _ (rep_a_buf_start data codes))
              (or_introl eq_refl)) as [st' [m' [e [E [HR _]]]]].
  rewrite E. rewrite (ab_left_ok st' _ m' HR). reflexivity.
Qed.

Theorem async_header_lines_equal_sync : forall prefix cap cap' codes sc data, 1 <= cap -> 1 <= cap' ->
  fst (fst (async_header_case prefix cap codes data))
  = fst (fst (fst (fst (run_header prefix cap' (mkSource data sc))))).
Proof.
  intros prefix cap cap' codes sc data Hcap Hcap'. rewrite (async_header_lines_closed prefix cap codes data Hcap).
  unfold run_header. cbn [s_data].
  destruct (run_header_lines_spec prefix data sc cap' Hcap') as [st' [m' [e [E _]]]]. rewrite E.
  destruct (read_until_all cap' (Datatypes.S (length data)) st') as [ls st2]. reflexivity.
Qed.

(* ---- the read_line helper shared (textually) by the async sam / vcf / fasta / fastq / gff readers
   (fasta read_definition and sam read_record_buf are this + a pure parser): for every data, poll
   script and capacity it returns the byte count and the stripped first line, and leaves the source
   right after that line -- exactly like the sync helper under every delivery *)
Theorem async_read_line_closed : forall cap codes data, 1 <= cap ->
  exists st', read_line aread cap (ab_fuel (ab_start data codes)) (ab_start data codes)
              = (length (take_line LF data), strip_eol (take_line LF data), UOk, st')
    /\ ab_left st' = length data - length (take_line LF data).
Proof.
  intros cap codes data Hcap.
  destruct (read_line_spec aread rep_a aread_simulates cap Hcap (ab_fuel (ab_start data codes))
              (ab_start data codes) data 0 (rep_a_buf_start data codes)
              (ab_fuel_ok _ _ _ (rep_a_buf_start data codes))) as [st' [m' [E [HR _]]]].
  exists st'. split; [exact E|]. rewrite (ab_left_ok st' _ m' HR). apply skipn_length.
Qed.

Theorem async_read_line_equals_sync : forall cap cap' codes sc data, 1 <= cap -> 1 <= cap' ->
  fst (read_line aread cap (ab_fuel (ab_start data codes)) (ab_start data codes))
  = fst (read_line src_read cap' (sb_fuel ([], mkSource data sc)) ([], mkSource data sc)).
Proof.
  intros cap cap' codes sc data Hcap Hcap'.
  destruct (async_read_line_closed cap codes data Hcap) as [st' [E _]]. rewrite E.
  destruct (read_line_spec src_read rep_src src_simulates cap' Hcap' (sb_fuel ([], mkSource data sc))
              ([], mkSource data sc) data (n_interrupted sc) (rep_src_buf_start data sc)
              (sb_fuel_ok _ _ _ (rep_src_buf_start data sc))) as [st2 [m2 [E2 _]]].
  rewrite E2. reflexivity.
Qed.
