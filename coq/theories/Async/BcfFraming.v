(* C16 -- noodles-bcf/src/async/io/reader/record.rs::read_record over an awaited source:
     l_shared = read_site_length:   read_exact_or_eof(4 bytes) (nothing read -> the zeroed buffer
                                    decodes to 0 -> Ok(0); 1..3 bytes -> UnexpectedEof); 0 -> Ok(0)
     l_indiv  = read_samples_length: read_u32_le (tokio read_exact: short -> UnexpectedEof)
     read_buf_exact(site_buf, l_shared):  reader.take(l_shared).read_to_end(buf) < l_shared -> UnexpectedEof
     record.fields_mut().index()?        (the site-buffer indexer: parameter [site_ok], as in C13)
     read_buf_exact(samples_buf, l_indiv)
   The sync twin (io/reader/record.rs, the same statements over std::io::Read) is C13's whole-buffer
   model NV.Trunc.Stream.bcf_read_record with the source ending cleanly (after = Eof). *)
From Coq Require Import List NArith Arith Bool.
From NV Require Import Io.Source Io.ReadExact Io.Run Async.ReadExact.
From NV Require Trunc.Stream.
Import ListNotations.

Inductive bres := BItem (site samples : list N) | BStop (s : Stream.stop).

Section BcfFraming.
  Context {S : Type}.
  Variable rd : reader S.
  Variable req : nat -> nat.
  Variable site_ok : list N -> option Stream.ekind.
  Variable fuelf : S -> nat -> nat.

  Definition a_bcf_read_record (s : S) : bres * S :=
    match read_exact_or_eof rd (fuelf s 4) s 4 with
    | (_, ENoFuel, s1) => (BStop (Stream.Err Stream.OutOfFuel), s1)
    | (_, EPartial, s1) => (BStop (Stream.Err Stream.UnexpectedEof), s1)
    | (_, ENothing, s1) => (BStop Stream.Eof, s1)
    | (b4, EFull, s1) =>
      let l_shared := le_val b4 in
      if (l_shared =? 0)%N then (BStop Stream.Eof, s1)
      else
        match read_exact rd (fuelf s1 4) s1 4 with
        | (_, XNoFuel, s2) => (BStop (Stream.Err Stream.OutOfFuel), s2)
        | (_, XUnexpectedEof, s2) => (BStop (Stream.Err Stream.UnexpectedEof), s2)
        | (c4, XOk, s2) =>
          let l_indiv := le_val c4 in
          match drain_loop rd req (fuelf s2 (N.to_nat l_shared)) s2 (N.to_nat l_shared) [] with
          | (_, OutOfFuel, s3) => (BStop (Stream.Err Stream.OutOfFuel), s3)
          | (_, HitEof, s3) => (BStop (Stream.Err Stream.UnexpectedEof), s3)
          | (site, Filled, s3) =>
            match site_ok site with
            | Some e => (BStop (Stream.Err e), s3)
            | None =>
              match drain_loop rd req (fuelf s3 (N.to_nat l_indiv)) s3 (N.to_nat l_indiv) [] with
              | (_, OutOfFuel, s4) => (BStop (Stream.Err Stream.OutOfFuel), s4)
              | (_, HitEof, s4) => (BStop (Stream.Err Stream.UnexpectedEof), s4)
              | (samples, Filled, s4) => (BItem site samples, s4)
              end
            end
          end
        end
    end.

  (* read_record until Ok(0) or an error: (number of records, how it ended) *)
  Fixpoint a_bcf_read_records (k : nat) (s : S) : list (list N * list N) * Stream.stop * S :=
    match k with
    | 0 => ([], Stream.Err Stream.OutOfFuel, s)
    | Datatypes.S k' =>
      match a_bcf_read_record s with
      | (BStop st, s') => ([], st, s')
      | (BItem x y, s') => let '(l, st, s'') := a_bcf_read_records k' s' in ((x, y) :: l, st, s'')
      end
    end.
End BcfFraming.

(* ---- entry points of the correspondence driver (kind abcf): the site indexer accepts (the
   harness only generates site buffers that Fields::index accepts) *)
Definition async_bcf_case (codes : list nat) (chunk : nat) (data : list N) : N * N :=
  let '(l, st, _) := a_bcf_read_records aread (fun _ => chunk) (fun _ => None) a_fuel
                       (Datatypes.S (length data)) (mkASource data (polls_of codes)) in
  (N.of_nat (length l), Stream.stop_code st).

Definition sync_bcf_case (data : list N) : N * N := Stream.obs_bcf (length data) data.
