(* C16 -- the async lazy SAM record reader (whole line first, then the sync field scanner over the
   line as a slice) yields, for every poll script and BufReader capacity, what C12's closed form of
   the sync reader yields on the data: the scanner never looks past the first LF. *)
From Coq Require Import List NArith Arith Bool Lia.
From NV Require Import Io.Source Io.ReadExact Io.ReadExactProofs Io.BufReader Io.BufReaderProofs
  Io.FastaScan Io.FastaScanProofs Io.FastaIndexProofs Io.HeaderReadProofs Io.BedRead Io.BedReadProofs
  Io.TabRead Io.TabReadProofs Io.Run Io.RunProofs.
From NV Require Import Async.ReadExact Async.ReadExactProofs Async.Lines Async.LinesProofs Async.Tab.
From NV Require Text.TextBase Text.BedRec Fasta.Fastq.
Import ListNotations.

Definition lfree (p : list N) : Prop := has_byte LF p = false.

Lemma lfree_cons : forall b p, lfree (b :: p) -> N.eqb b 10 = false /\ lfree p.
Proof.
  intros b p H. unfold lfree in *. cbn [has_byte existsb] in H. apply orb_false_iff in H.
  destruct H as [Hb Hp]. split; [rewrite N.eqb_sym; exact Hb|exact Hp].
Qed.

Lemma skipn_len_app : forall (a b : list N), skipn (length a) (a ++ b) = b.
Proof. induction a as [|x a IH]; intros b; [reflexivity|]. cbn [length app skipn]. apply IH. Qed.

Lemma take_line_lf : forall p R, lfree p -> take_line LF (p ++ 10%N :: R) = p ++ [10%N].
Proof.
  induction p as [|b p IH]; intros R H.
  - reflexivity.
  - destruct (lfree_cons b p H) as [Hb Hp]. cbn [app take_line]. change (N.eqb b LF) with (N.eqb b 10).
    rewrite Hb. f_equal. apply IH. exact Hp.
Qed.

Lemma line_split : forall d, has_byte LF d = true ->
  exists p R, lfree p /\ d = p ++ 10%N :: R.
Proof.
  induction d as [|x d IH]; intros H; [discriminate|].
  cbn [has_byte existsb] in H. destruct (N.eqb LF x) eqn:Hx.
  - apply N.eqb_eq in Hx. subst x. exists [], d. split; reflexivity.
  - cbn [orb] in H. destruct (IH H) as [p [R [Hp Hd]]]. exists (x :: p), R. split.
    + unfold lfree. cbn [has_byte existsb]. rewrite Hx. exact Hp.
    + cbn [app]. f_equal. exact Hd.
Qed.

(* ---- memchr2(TAB, LF) never looks past the first LF *)
Lemma scan_lf : forall p R, lfree p ->
  exists f d s, BedRec.scan_field (p ++ [10%N]) = (f, Some d, s)
    /\ BedRec.scan_field (p ++ 10%N :: R) = (f, Some d, s ++ R)
    /\ ((d = 10%N /\ s = []) \/ (d = 9%N /\ exists p', s = p' ++ [10%N] /\ lfree p')).
Proof.
  induction p as [|b p IH]; intros R H.
  - exists [], 10%N, []. cbn. split; [reflexivity|]. split; [reflexivity|]. left. split; reflexivity.
  - destruct (lfree_cons b p H) as [Hb Hp]. cbn [app BedRec.scan_field].
    change (b =? 10)%N with (N.eqb b 10). rewrite Hb. rewrite orb_false_r.
    destruct (b =? 9)%N eqn:H9.
    + apply N.eqb_eq in H9. subst b. exists [], 9%N, (p ++ [10%N]).
      split; [reflexivity|]. split; [rewrite <- app_assoc; reflexivity|].
      right. split; [reflexivity|]. exists p. split; [reflexivity|exact Hp].
    + destruct (IH R Hp) as [f [d [s [E1 [E2 Hs]]]]]. rewrite E1, E2.
      exists (b :: f), d, s. split; [reflexivity|]. split; [reflexivity|exact Hs].
Qed.

Lemma scan_nolf : forall p, lfree p ->
  exists f d s, BedRec.scan_field p = (f, d, s) /\ lfree s /\ d <> Some 10%N.
Proof.
  induction p as [|b p IH]; intros H.
  - exists [], None, []. split; [reflexivity|]. split; [reflexivity|discriminate].
  - destruct (lfree_cons b p H) as [Hb Hp]. cbn [BedRec.scan_field].
    change (b =? 10)%N with (N.eqb b 10). rewrite Hb. rewrite orb_false_r.
    destruct (b =? 9)%N eqn:H9.
    + apply N.eqb_eq in H9. subst b. exists [], (Some 9%N), p.
      split; [reflexivity|]. split; [exact Hp|discriminate].
    + destruct (IH Hp) as [f [d [s [E [Hs Hd]]]]]. rewrite E. exists (b :: f), d, s.
      split; [reflexivity|]. split; assumption.
Qed.

(* ---- SAM (and BED) read_field *)
Lemma w_read_field_lf : forall p R dst, lfree p ->
  exists dst' n eol s, w_read_field (p ++ [10%N]) dst = (dst', n, eol, s)
    /\ w_read_field (p ++ 10%N :: R) dst = (dst', n, eol, s ++ R)
    /\ ((eol = true /\ s = []) \/ (eol = false /\ exists p', s = p' ++ [10%N] /\ lfree p')).
Proof.
  intros p R dst Hp. unfold w_read_field.
  destruct (scan_lf p R Hp) as [f [d [s [E1 [E2 Hs]]]]]. rewrite E1, E2.
  destruct Hs as [[Hd Hs]|[Hd [p' [Hs Hp']]]]; subst d s.
  - do 4 eexists. split; [reflexivity|]. split; [reflexivity|]. left. split; reflexivity.
  - do 4 eexists. split; [reflexivity|]. split; [reflexivity|]. right. split; [reflexivity|].
    exists p'. split; [reflexivity|exact Hp'].
Qed.

Lemma w_read_field_nolf : forall p dst, lfree p ->
  exists dst' n s, w_read_field p dst = (dst', n, false, s) /\ lfree s.
Proof.
  intros p dst Hp. unfold w_read_field. destruct (scan_nolf p Hp) as [f [d [s [E [Hs Hd]]]]]. rewrite E.
  destruct d as [c|].
  - assert (Hc : N.eqb c 10 = false).
    { apply N.eqb_neq. intros Hx. apply Hd. subst c. reflexivity. }
    rewrite Hc. cbn [andb]. do 3 eexists. split; [reflexivity|exact Hs].
  - do 3 eexists. split; [reflexivity|exact Hs].
Qed.

Lemma w_read_required_lf : forall k p R dst ends len, lfree p ->
  exists ok s dst' ends' len', w_read_required k (p ++ [10%N]) dst ends len = (ok, s, dst', ends', len')
    /\ w_read_required k (p ++ 10%N :: R) dst ends len = (ok, s ++ R, dst', ends', len')
    /\ ((ok = false /\ s = []) \/ (ok = true /\ exists p', s = p' ++ [10%N] /\ lfree p')).
Proof.
  induction k as [|k IH]; intros p R dst ends len Hp.
  - cbn [w_read_required]. exists true, (p ++ [10%N]), dst, ends, len.
    split; [reflexivity|]. split; [rewrite <- app_assoc; reflexivity|].
    right. split; [reflexivity|]. exists p. split; [reflexivity|exact Hp].
  - cbn [w_read_required].
    destruct (w_read_field_lf p R dst Hp) as [dst1 [n1 [eol [s1 [E1 [E2 Hs]]]]]]. rewrite E1, E2.
    destruct Hs as [[He Hs]|[He [p' [Hs Hp']]]]; subst eol s1.
    + exists false, [], dst1, ends, len. split; [reflexivity|]. split; [reflexivity|].
      left. split; reflexivity.
    + rewrite <- app_assoc. cbn [app]. apply IH. exact Hp'.
Qed.

Lemma w_read_required_nolf : forall k p dst ends len, lfree p ->
  exists s dst' ends' len', w_read_required k p dst ends len = (true, s, dst', ends', len') /\ lfree s.
Proof.
  induction k as [|k IH]; intros p dst ends len Hp.
  - exists p, dst, ends, len. split; [reflexivity|exact Hp].
  - cbn [w_read_required]. destruct (w_read_field_nolf p dst Hp) as [dst1 [n1 [s1 [E Hs]]]]. rewrite E.
    apply IH. exact Hs.
Qed.

Lemma w_sam_lf : forall p R, lfree p ->
  exists r b e, w_sam_read_record (p ++ [10%N]) = (r, b, e, [])
             /\ w_sam_read_record (p ++ 10%N :: R) = (r, b, e, R).
Proof.
  intros p R Hp. unfold w_sam_read_record.
  destruct (w_read_required_lf 10 p R [] [] 0 Hp) as [ok [s [dst1 [ends [len [E1 [E2 Hs]]]]]]].
  rewrite E1, E2.
  destruct Hs as [[Hok Hs]|[Hok [p' [Hs Hp']]]]; subst ok s; cbn [negb].
  - do 3 eexists. split; reflexivity.
  - rewrite <- app_assoc. cbn [app].
    destruct (w_read_field_lf p' R dst1 Hp') as [dst2 [n2 [eol [s2 [F1 [F2 Hs2]]]]]]. rewrite F1, F2.
    destruct Hs2 as [[He Hs2]|[He [p2 [Hs2 Hp2]]]]; subst eol s2.
    + do 3 eexists. split; reflexivity.
    + rewrite <- app_assoc. cbn [app]. unfold w_tab_tail.
      rewrite (take_line_lf p2 R Hp2). rewrite (take_line_lf p2 [] Hp2).
      replace (p2 ++ 10%N :: R) with ((p2 ++ [10%N]) ++ R) by (rewrite <- app_assoc; reflexivity).
      rewrite skipn_len_app.
      replace (skipn (length (p2 ++ [10%N])) (p2 ++ [10%N])) with (@nil N)
        by (symmetry; apply skipn_all).
      do 3 eexists. split; reflexivity.
Qed.

Lemma w_sam_nolf : forall p, lfree p -> snd (w_sam_read_record p) = [].
Proof.
  intros p Hp. unfold w_sam_read_record.
  destruct (w_read_required_nolf 10 p [] [] 0 Hp) as [s [dst1 [ends [len [E Hs]]]]]. rewrite E.
  cbn [negb]. destruct (w_read_field_nolf s dst1 Hs) as [dst2 [n2 [s2 [F Hs2]]]]. rewrite F.
  cbn [snd]. rewrite (take_line_no_lf s2 Hs2). apply skipn_all.
Qed.

(* the closed form of the sync reader only depends on the first line, and leaves what follows it *)
Theorem w_sam_local : forall d,
  w_sam_read_record d
  = (fst (fst (fst (w_sam_read_record (take_line LF d)))), snd (fst (fst (w_sam_read_record (take_line LF d)))),
     snd (fst (w_sam_read_record (take_line LF d))), skipn (length (take_line LF d)) d).
Proof.
  intros d. destruct (has_byte LF d) eqn:Hb.
  - destruct (line_split d Hb) as [p [R [Hp Hd]]]. subst d.
    rewrite (take_line_lf p R Hp).
    destruct (w_sam_lf p R Hp) as [r [b [e [E1 E2]]]]. rewrite E1, E2. cbn [fst snd].
    replace (p ++ 10%N :: R) with ((p ++ [10%N]) ++ R) by (rewrite <- app_assoc; reflexivity).
    rewrite skipn_len_app. reflexivity.
  - rewrite (take_line_no_lf d Hb). pose proof (w_sam_nolf d Hb) as Hs.
    destruct (w_sam_read_record d) as [[[r b] e] s]. cbn [fst snd] in *. subst s.
    rewrite skipn_all. reflexivity.
Qed.

(* ---- VCF read_field / read_record: the same locality *)
Lemma w_vcf_read_field_lf : forall p R dst, lfree p ->
  exists dst' n eol s, w_vcf_read_field (p ++ [10%N]) dst = (dst', n, eol, s)
    /\ w_vcf_read_field (p ++ 10%N :: R) dst = (dst', n, eol, s ++ R)
    /\ ((eol = true /\ s = []) \/ (eol = false /\ exists p', s = p' ++ [10%N] /\ lfree p')).
Proof.
  intros p R dst Hp. unfold w_vcf_read_field.
  destruct (scan_lf p R Hp) as [f [d [s [E1 [E2 Hs]]]]]. rewrite E1, E2.
  destruct Hs as [[Hd Hs]|[Hd [p' [Hs Hp']]]]; subst d s.
  - do 4 eexists. split; [reflexivity|]. split; [reflexivity|]. left. split; reflexivity.
  - do 4 eexists. split; [reflexivity|]. split; [reflexivity|]. right. split; [reflexivity|].
    exists p'. split; [reflexivity|exact Hp'].
Qed.

Lemma w_vcf_read_field_nolf : forall p dst, lfree p ->
  exists dst' n s, w_vcf_read_field p dst = (dst', n, false, s) /\ lfree s.
Proof.
  intros p dst Hp. unfold w_vcf_read_field. destruct (scan_nolf p Hp) as [f [d [s [E [Hs Hd]]]]]. rewrite E.
  destruct d as [c|].
  - assert (Hc : N.eqb c 10 = false).
    { apply N.eqb_neq. intros Hx. apply Hd. subst c. reflexivity. }
    rewrite Hc. do 3 eexists. split; [reflexivity|exact Hs].
  - do 3 eexists. split; [reflexivity|exact Hs].
Qed.

Lemma w_vcf_read_required_lf : forall k p R dst ends len, lfree p ->
  exists ok s dst' ends' len', w_vcf_read_required k (p ++ [10%N]) dst ends len = (ok, s, dst', ends', len')
    /\ w_vcf_read_required k (p ++ 10%N :: R) dst ends len = (ok, s ++ R, dst', ends', len')
    /\ ((ok = false /\ s = []) \/ (ok = true /\ exists p', s = p' ++ [10%N] /\ lfree p')).
Proof.
  induction k as [|k IH]; intros p R dst ends len Hp.
  - cbn [w_vcf_read_required]. exists true, (p ++ [10%N]), dst, ends, len.
    split; [reflexivity|]. split; [rewrite <- app_assoc; reflexivity|].
    right. split; [reflexivity|]. exists p. split; [reflexivity|exact Hp].
  - cbn [w_vcf_read_required].
    destruct (w_vcf_read_field_lf p R dst Hp) as [dst1 [n1 [eol [s1 [E1 [E2 Hs]]]]]]. rewrite E1, E2.
    destruct Hs as [[He Hs]|[He [p' [Hs Hp']]]]; subst eol s1.
    + exists false, [], dst1, ends, len. split; [reflexivity|]. split; [reflexivity|].
      left. split; reflexivity.
    + rewrite <- app_assoc. cbn [app]. apply IH. exact Hp'.
Qed.

Lemma w_vcf_read_required_nolf : forall k p dst ends len, lfree p ->
  exists s dst' ends' len', w_vcf_read_required k p dst ends len = (true, s, dst', ends', len') /\ lfree s.
Proof.
  induction k as [|k IH]; intros p dst ends len Hp.
  - exists p, dst, ends, len. split; [reflexivity|exact Hp].
  - cbn [w_vcf_read_required]. destruct (w_vcf_read_field_nolf p dst Hp) as [dst1 [n1 [s1 [E Hs]]]]. rewrite E.
    apply IH. exact Hs.
Qed.

Lemma w_vcf_lf : forall p R, lfree p ->
  exists r b e, w_vcf_read_record (p ++ [10%N]) = (r, b, e, [])
             /\ w_vcf_read_record (p ++ 10%N :: R) = (r, b, e, R).
Proof.
  intros p R Hp. unfold w_vcf_read_record.
  destruct (w_vcf_read_required_lf 7 p R [] [] 0 Hp) as [ok [s [dst1 [ends [len [E1 [E2 Hs]]]]]]].
  rewrite E1, E2.
  destruct Hs as [[Hok Hs]|[Hok [p' [Hs Hp']]]]; subst ok s; cbn [negb].
  - do 3 eexists. split; reflexivity.
  - rewrite <- app_assoc. cbn [app].
    destruct (w_vcf_read_field_lf p' R dst1 Hp') as [dst2 [n2 [eol [s2 [F1 [F2 Hs2]]]]]]. rewrite F1, F2.
    destruct Hs2 as [[He Hs2]|[He [p2 [Hs2 Hp2]]]]; subst eol s2.
    + do 3 eexists. split; reflexivity.
    + rewrite <- app_assoc. cbn [app]. unfold w_tab_tail.
      rewrite (take_line_lf p2 R Hp2). rewrite (take_line_lf p2 [] Hp2).
      replace (p2 ++ 10%N :: R) with ((p2 ++ [10%N]) ++ R) by (rewrite <- app_assoc; reflexivity).
      rewrite skipn_len_app.
      replace (skipn (length (p2 ++ [10%N])) (p2 ++ [10%N])) with (@nil N)
        by (symmetry; apply skipn_all).
      do 3 eexists. split; reflexivity.
Qed.

Lemma w_vcf_nolf : forall p, lfree p -> snd (w_vcf_read_record p) = [].
Proof.
  intros p Hp. unfold w_vcf_read_record.
  destruct (w_vcf_read_required_nolf 7 p [] [] 0 Hp) as [s [dst1 [ends [len [E Hs]]]]]. rewrite E.
  cbn [negb]. destruct (w_vcf_read_field_nolf s dst1 Hs) as [dst2 [n2 [s2 [F Hs2]]]]. rewrite F.
  cbn [snd]. rewrite (take_line_no_lf s2 Hs2). apply skipn_all.
Qed.

Theorem w_vcf_local : forall d,
  w_vcf_read_record d
  = (fst (fst (fst (w_vcf_read_record (take_line LF d)))), snd (fst (fst (w_vcf_read_record (take_line LF d)))),
     snd (fst (w_vcf_read_record (take_line LF d))), skipn (length (take_line LF d)) d).
Proof.
  intros d. destruct (has_byte LF d) eqn:Hb.
  - destruct (line_split d Hb) as [p [R [Hp Hd]]]. subst d.
    rewrite (take_line_lf p R Hp).
    destruct (w_vcf_lf p R Hp) as [r [b [e [E1 E2]]]]. rewrite E1, E2. cbn [fst snd].
    replace (p ++ 10%N :: R) with ((p ++ [10%N]) ++ R) by (rewrite <- app_assoc; reflexivity).
    rewrite skipn_len_app. reflexivity.
  - rewrite (take_line_no_lf d Hb). pose proof (w_vcf_nolf d Hb) as Hs.
    destruct (w_vcf_read_record d) as [[[r b] e] s]. cbn [fst snd] in *. subst s.
    rewrite skipn_all. reflexivity.
Qed.

(* ---- the slice reader *)
Definition rep_null (s : unit) (d : list N) (m : nat) : Prop := d = [] /\ m = 0.

Lemma null_simulates : simulates null_rd rep_null.
Proof.
  intros s d m n [Hd Hm]. subst d m. unfold null_rd. split.
  - repeat split; [cbn [length]; lia|]. intros _ H. congruence.
  - exists 0. split; [lia|]. split; reflexivity.
Qed.

Lemma slice_rep : forall line, rep_buf rep_null (line, tt) line 0.
Proof. intros line. exists []. cbn [fst snd]. rewrite app_nil_r. repeat split. Qed.

Section Generic.
  Context {S : Type}.
  Variable rd : reader S.
  Variable Rep : S -> list N -> nat -> Prop.
  Hypothesis Hsim : simulates rd Rep.
  Variable cap : nat.
  Hypothesis Hcap : 1 <= cap.

  Notation repb st d m := (rep_buf Rep st d m).

  Theorem a_sam_read_record_spec : forall fuel st d m, repb st d m -> m + length d + 1 < fuel ->
    exists st' m',
      a_sam_read_record rd cap fuel st
        = (match d with
           | [] => (TextBase.Ok 0, [], [])
           | _ => (fst (fst (fst (w_sam_read_record d))), snd (fst (fst (w_sam_read_record d))),
                   snd (fst (w_sam_read_record d)))
           end, st')
      /\ repb st' (snd (w_sam_read_record d)) m' /\ m' <= m.
  Proof.
    intros fuel st d m HR Hf. unfold a_sam_read_record.
    destruct (read_until_spec rd Rep Hsim cap Hcap LF fuel st d m HR Hf) as [st1 [m1 [E [HR1 Hm1]]]].
    rewrite E. rewrite (w_sam_local d). cbn [fst snd].
    destruct d as [|x t].
    - cbn [take_line]. exists st1, m1. split; [reflexivity|]. split; [exact HR1|exact Hm1].
    - destruct (take_line_head x t) as [t' Ht]. rewrite Ht in *.
      destruct (d_sam_read_record_spec null_rd rep_null null_simulates 1 (le_n 1)
                  (slice_fuel (x :: t')) (x :: t', tt) (x :: t') 0 (slice_rep (x :: t'))
                  ltac:(unfold slice_fuel; lia)) as [st2 [m2 [E2 _]]].
      rewrite E2. exists st1, m1. split; [reflexivity|]. split; [exact HR1|exact Hm1].
  Qed.

  Variable fuelf : bstate S -> nat.
  Hypothesis Hfuel : forall st d m, repb st d m -> m + length d + 1 < fuelf st.

  Lemma w_sam_rest_shorter : forall d, length (snd (w_sam_read_record d)) <= length d.
  Proof. intros d. rewrite (w_sam_local d). cbn [snd]. rewrite skipn_length. lia. Qed.

  Theorem a_sam_records_spec : forall j st d m, repb st d m ->
    map tab_norm (fst (tab_loop (fun s => a_sam_read_record rd cap (fuelf s) s) j st))
    = map tab_norm (fst (tab_loop w_sam_read_record j d)).
  Proof.
    induction j as [|j IH]; intros st d m HR; [reflexivity|].
    cbn [tab_loop].
    destruct (a_sam_read_record_spec (fuelf st) st d m HR (Hfuel st d m HR)) as [st1 [m1 [E [HR1 Hm1]]]].
    rewrite E. destruct d as [|x t].
    - reflexivity.
    - set (d := x :: t) in *.
      destruct (w_sam_read_record d) as [[[r b] e] rest] eqn:Ew. cbn [fst snd] in *.
      destruct r as [[|n]|err|]; try reflexivity.
      specialize (IH st1 rest m1 HR1).
      destruct (tab_loop (fun s => a_sam_read_record rd cap (fuelf s) s) j st1) as [l1 s1].
      destruct (tab_loop w_sam_read_record j rest) as [l2 s2]. cbn [fst map] in *.
      f_equal. exact IH.
  Qed.

  (* ---- VCF, ASCII input (outside C12's class vcf-record-field-utf8-split-capacity-dependent) *)
  Theorem a_vcf_read_record_spec : forall fuel st d m, repb st d m -> m + length d + 1 < fuel ->
    ascii d = true ->
    exists st' m',
      a_vcf_read_record rd cap fuel st
        = (match d with
           | [] => (TextBase.Ok 0, [], [])
           | _ => (fst (fst (fst (w_vcf_read_record d))), snd (fst (fst (w_vcf_read_record d))),
                   snd (fst (w_vcf_read_record d)))
           end, st')
      /\ repb st' (snd (w_vcf_read_record d)) m' /\ m' <= m.
  Proof.
    intros fuel st d m HR Hf Ha. unfold a_vcf_read_record.
    destruct (read_until_spec rd Rep Hsim cap Hcap LF fuel st d m HR Hf) as [st1 [m1 [E [HR1 Hm1]]]].
    rewrite E. rewrite (w_vcf_local d). cbn [fst snd].
    pose proof (ascii_take_line d Ha) as Hal.
    destruct d as [|x t].
    - cbn [take_line]. exists st1, m1. split; [reflexivity|]. split; [exact HR1|exact Hm1].
    - destruct (take_line_head x t) as [t' Ht]. rewrite Ht in *.
      rewrite (utf8_valid_ascii _ Hal).
      destruct (d_vcf_read_record_ascii_spec null_rd rep_null null_simulates 1 (le_n 1)
                  (slice_fuel (x :: t')) (x :: t', tt) (x :: t') 0 (slice_rep (x :: t'))
                  ltac:(unfold slice_fuel; lia) Hal) as [st2 [m2 [E2 _]]].
      rewrite E2. exists st1, m1. split; [reflexivity|]. split; [exact HR1|exact Hm1].
  Qed.

  Lemma w_vcf_rest_ascii : forall d, ascii d = true -> ascii (snd (w_vcf_read_record d)) = true.
  Proof. intros d Ha. rewrite (w_vcf_local d). cbn [snd]. apply ascii_skipn. exact Ha. Qed.

  Theorem a_vcf_records_spec : forall j st d m, repb st d m -> ascii d = true ->
    map tab_norm (fst (tab_loop (fun s => a_vcf_read_record rd cap (fuelf s) s) j st))
    = map tab_norm (fst (tab_loop w_vcf_read_record j d)).
  Proof.
    induction j as [|j IH]; intros st d m HR Ha; [reflexivity|].
    cbn [tab_loop].
    destruct (a_vcf_read_record_spec (fuelf st) st d m HR (Hfuel st d m HR) Ha) as [st1 [m1 [E [HR1 Hm1]]]].
    rewrite E. pose proof (w_vcf_rest_ascii d Ha) as Har. destruct d as [|x t].
    - reflexivity.
    - set (d := x :: t) in *.
      destruct (w_vcf_read_record d) as [[[r b] e] rest] eqn:Ew. cbn [fst snd] in *.
      destruct r as [[|n]|err|]; try reflexivity.
      specialize (IH st1 rest m1 HR1 Har).
      destruct (tab_loop (fun s => a_vcf_read_record rd cap (fuelf s) s) j st1) as [l1 s1].
      destruct (tab_loop w_vcf_read_record j rest) as [l2 s2]. cbn [fst map] in *.
      f_equal. exact IH.
  Qed.

  (* the sync reader, record after record, under the same hypotheses (C12 states the single call) *)
  Theorem d_vcf_records_spec : forall fuel j st d m, repb st d m -> ascii d = true ->
    m + length d + 2 < fuel ->
    fst (tab_loop (d_vcf_read_record rd cap fuel) j st) = fst (tab_loop w_vcf_read_record j d).
  Proof.
    intros fuel. induction j as [|j IH]; intros st d m HR Ha Hf; [reflexivity|].
    cbn [tab_loop].
    destruct (d_vcf_read_record_ascii_spec rd Rep Hsim cap Hcap fuel st d m HR Hf Ha)
      as [st1 [m1 [E [HR1 [Hm1 Hl1]]]]].
    rewrite E. pose proof (w_vcf_rest_ascii d Ha) as Har.
    destruct (w_vcf_read_record d) as [[[r b] e] rest]. cbn [fst snd] in *.
    destruct r as [[|n]|err|]; try reflexivity.
    specialize (IH st1 rest m1 HR1 Har ltac:(lia)).
    destruct (tab_loop (d_vcf_read_record rd cap fuel) j st1) as [l1 s1].
    destruct (tab_loop w_vcf_read_record j rest) as [l2 s2]. cbn [fst] in *. f_equal. exact IH.
  Qed.
End Generic.

(* for every poll script and capacities: the async lazy SAM record stream (result, buffer, field
   ends of every call; the record of the final Ok(0) call excepted) = the sync one under every
   delivery script *)
Theorem async_sam_records_equal_sync : forall cap cap' codes sc data, 1 <= cap -> 1 <= cap' ->
  map tab_norm (fst (a_run_sam_records cap (ab_start data codes)))
  = map tab_norm (fst (run_sam_records cap' (mkSource data sc))).
Proof.
  intros cap cap' codes sc data Hcap Hcap'. unfold a_run_sam_records.
  etransitivity.
  - exact (a_sam_records_spec aread rep_a aread_simulates cap Hcap ab_fuel ab_fuel_ok
             (Datatypes.S (ab_left (ab_start data codes))) (ab_start data codes) data 0
             (rep_a_buf_start data codes)).
  - destruct (run_sam_records_spec data sc cap' Hcap') as [st' E]. rewrite E. cbn [fst].
    unfold ab_left, ab_start. cbn [fst snd length a_data Nat.add]. reflexivity.
Qed.

Theorem async_vcf_records_equal_sync : forall cap cap' codes sc data, 1 <= cap -> 1 <= cap' ->
  ascii data = true ->
  map tab_norm (fst (a_run_vcf_records cap (ab_start data codes)))
  = map tab_norm (fst (run_vcf_records cap' (mkSource data sc))).
Proof.
  intros cap cap' codes sc data Hcap Hcap' Ha. unfold a_run_vcf_records, run_vcf_records.
  etransitivity.
  - exact (a_vcf_records_spec aread rep_a aread_simulates cap Hcap ab_fuel ab_fuel_ok
             (Datatypes.S (ab_left (ab_start data codes))) (ab_start data codes) data 0
             (rep_a_buf_start data codes) Ha).
  - rewrite (d_vcf_records_spec src_read rep_src src_simulates cap' Hcap' sb_fuel sb_fuel_ok
               (b_fuel ([], mkSource data sc) 1) (Datatypes.S (length (s_data (mkSource data sc))))
               ([], mkSource data sc) data (n_interrupted sc) (rep_src_buf_start data sc) Ha).
    + unfold ab_left, ab_start. cbn [fst snd length a_data s_data Nat.add]. reflexivity.
    + unfold b_fuel, src_fuel. cbn [fst snd s_data s_script length]. lia.
Qed.
