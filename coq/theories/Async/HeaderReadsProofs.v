(* C16 -- proofs about NV.Async.HeaderReads: the async header adapter read through AsyncRead with
   buffers of any sizes delivers the header text hdr_text (C12's closed form of the sync adapter),
   piece by piece, for every poll script and capacity: a partial copy never loses the rest of a line. *)
From Coq Require Import List NArith Arith Bool Lia.
From NV Require Import Io.Source Io.ReadExact Io.ReadExactProofs Io.BufReader Io.BufReaderProofs
  Io.HeaderRead Io.HeaderAdapter Io.HeaderAdapterProofs.
From NV Require Import Async.ReadExact Async.ReadExactProofs Async.Lines Async.LinesProofs
  Async.HeaderReads.
Import ListNotations.

Lemma ah_reads_deliver : forall cap prefix, 1 <= cap -> forall sizes hs dH,
  rep_hdr rep_a prefix hs dH 0 ->
  reads_deliver dH sizes (fst (ah_reads cap prefix sizes hs)).
Proof.
  intros cap prefix Hcap sizes. induction sizes as [|n ts IH]; intros hs dH Hrep.
  - cbn [ah_reads fst reads_deliver]. exact I.
  - cbn [ah_reads].
    pose proof (h_read_simulates aread rep_a aread_simulates cap Hcap prefix hs dH 0 n Hrep) as Hs.
    destruct (h_read aread cap prefix hs n) as [r hs1] eqn:Er.
    destruct r as [bs|].
    + destruct Hs as [Hok [m' [Hm' Hrep1]]].
      assert (Em : m' = 0) by lia. subst m'.
      specialize (IH hs1 _ Hrep1).
      destruct (ah_reads cap prefix ts hs1) as [l hs2] eqn:El.
      cbn [fst reads_deliver]. cbn [fst] in IH. split; [exact Hok | exact IH].
    + destruct Hs as [m' [Hm' _]]. lia.
Qed.

Lemma rep_hdr_start : forall prefix data codes,
  rep_hdr rep_a prefix (true, ab_start data codes)
    (hdr_text (Datatypes.S (length data)) prefix true data) 0.
Proof.
  intros prefix data codes. exists data. cbn [fst snd]. split.
  - exact (rep_a_buf_start data codes).
  - reflexivity.
Qed.

(* kind ahrd: for every prefix, data, poll script, capacity and list of buffer sizes, the reads
   deliver the header text of the sync adapter (hdr_text from a line start), in order, without
   loss: each read returns a non-empty prefix of what is left unless its buffer is empty or the
   header text is exhausted *)
Theorem async_header_reads_deliver : forall prefix cap codes sizes data, 1 <= cap ->
  reads_deliver (hdr_text (Datatypes.S (length data)) prefix true data) sizes
    (fst (async_header_reads_case prefix cap codes sizes data)).
Proof.
  intros prefix cap codes sizes data Hcap. unfold async_header_reads_case.
  pose proof (ah_reads_deliver cap prefix Hcap sizes _ _ (rep_hdr_start prefix data codes)) as H.
  destruct (ah_reads cap prefix sizes (true, ab_start data codes)) as [l hs]. exact H.
Qed.

(* non-vacuity / the class: "@A\n@B\nr\n" read with 1-byte buffers through a 1-byte poll script
   delivers all six header bytes, one per call, then 0 *)
Example async_header_reads_small :
  async_header_reads_case 64%N 4 [2; 2; 2; 2; 2; 2; 2; 2] [1; 1; 1; 1; 1; 1; 1] [64; 65; 10; 64; 66; 10; 114; 10]%N
  = ([ROk [64%N]; ROk [65%N]; ROk [10%N]; ROk [64%N]; ROk [66%N]; ROk [10%N]; ROk []], 6).
Proof. vm_compute. reflexivity. Qed.
