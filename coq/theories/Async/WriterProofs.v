(* Proofs about NV.Async.Writer: the async BGZF writer hands the sink the same blocks as the sync
   writer model NV.Bgzf.Writer (C01) cuts for the same script, and the pipeline delivers them in
   that order for every schedule. *)
From Coq Require Import List NArith PeanoNat Lia Bool ZifyBool ZifyNat ZifyN.
From NV Require Import Base.LE Bgzf.Crc32 Bgzf.Frame Bgzf.Writer Io.Sched Io.SchedProofs Async.Writer.
Import ListNotations.
Open Scope N_scope.
Arguments N.add : simpl never.
Arguments N.sub : simpl never.
Arguments N.mul : simpl never.
Arguments N.min : simpl never.
Arguments N.ltb : simpl never.
Arguments N.leb : simpl never.
Arguments N.eqb : simpl never.
Arguments N.to_nat : simpl never.
Arguments N.of_nat : simpl never.
Arguments firstn : simpl never.
Arguments skipn : simpl never.
Arguments crc32 : simpl never.

Lemma lenN_app : forall A (a b : list A), lenN (a ++ b) = lenN a + lenN b.
Proof. intros. unfold lenN. rewrite app_length. lia. Qed.

Lemma lenN_firstn : forall A (l : list A) n, n <= lenN l -> lenN (firstn (N.to_nat n) l) = n.
Proof. intros A l n H. unfold lenN in *. rewrite firstn_length. lia. Qed.

Lemma lenN_nil : forall A, @lenN A [] = 0.
Proof. reflexivity. Qed.

Lemma lenN_pos_cons : forall A (l : list A), 0 < lenN l -> exists x r, l = x :: r.
Proof. intros A [|x r] H; [unfold lenN in H; cbn in H; lia|]. exists x, r. reflexivity. Qed.

Section WriterSim.
  Variable deflate : N -> list N -> list N.
  Variable lvl : N.
  (* level 0 (stored blocks) never expands a staging buffer by more than 15 bytes (the premise
     of C01's writer theorems; it makes deflate.rs's unreachable!() unreachable) *)
  Hypothesis H_l0 : forall x, lenN x <= MAX_BUF_SIZE -> lenN (deflate 0 x) <= MAX_COMPRESSED_SIZE.

  (* the compressed data encode settles on, and the frame a block becomes *)
  Definition enc (x : list N) : list N :=
    if lenN (deflate lvl x) <=? MAX_COMPRESSED_SIZE then deflate lvl x else deflate 0 x.
  Definition fr (x : list N) : list N := frame_bytes (enc x) (crc32 x) (lenN x).
  Definition bytes (bs : list (list N)) : list N := concat (map fr bs).

  Lemma bytes_snoc : forall bs b, bytes (bs ++ [b]) = bytes bs ++ fr b.
  Proof. intros. unfold bytes. rewrite map_app, concat_app. cbn [map concat]. rewrite app_nil_r. reflexivity. Qed.

  Lemma enc_bound : forall x, lenN x <= MAX_BUF_SIZE -> lenN (enc x) <= MAX_COMPRESSED_SIZE.
  Proof.
    intros x Hx. unfold enc.
    destruct (lenN (deflate lvl x) <=? MAX_COMPRESSED_SIZE) eqn:E; [lia|]. apply H_l0. exact Hx.
  Qed.

  Lemma encode_ok : forall x, lenN x <= MAX_BUF_SIZE -> encode deflate lvl x = Ok (enc x, crc32 x).
  Proof.
    intros x Hx. unfold encode, enc.
    destruct (lenN (deflate lvl x) <=? MAX_COMPRESSED_SIZE) eqn:E; [reflexivity|].
    pose proof (H_l0 x Hx) as H0.
    destruct (lenN (deflate 0 x) <=? MAX_COMPRESSED_SIZE) eqn:E0; [reflexivity|lia].
  Qed.

  Lemma flush_block_ok : forall st, lenN (w_staging st) <= MAX_BUF_SIZE ->
    exists p, flush_block deflate lvl st
              = (mk_wstate p [] (w_sink st ++ fr (w_staging st)) (w_inner st) false, Ok tt).
  Proof.
    intros st H. unfold flush_block. rewrite (encode_ok _ H).
    pose proof (enc_bound _ H) as Hb. unfold write_frame.
    unfold MAX_COMPRESSED_SIZE, MAX_BUF_SIZE, BGZF_HEADER_SIZE, TRAILER_SIZE in *.
    destruct (N.leb_spec (18 + lenN (enc (w_staging st)) + 8 - 1) 65535); [|lia].
    destruct (N.leb_spec (lenN (w_staging st)) 4294967295); [|lia].
    eexists. reflexivity.
  Qed.

  Lemma flush_ok : forall st, 0 < lenN (w_staging st) -> lenN (w_staging st) <= MAX_BUF_SIZE ->
    exists p, flush deflate lvl st
              = (mk_wstate p [] (w_sink st ++ fr (w_staging st)) (w_inner st) false, Ok tt).
  Proof.
    intros st Hp Hl. unfold flush. destruct (w_staging st) as [|x r] eqn:E.
    - rewrite lenN_nil in Hp. lia.
    - rewrite <- E. apply flush_block_ok. rewrite E. exact Hl.
  Qed.

  (* the lazy flush made explicit *)
  Definition norm (a : awr) : awr := if a_has_room a then a else a_poll_flush a.

  Record Rw (st : wstate) (a : awr) : Prop := mkRw {
    Rw_fin : w_finished st = false;
    Rw_len : lenN (a_buf a) <= MAX_BUF_SIZE;
    Rw_stg : w_staging st = a_buf (norm a);
    Rw_sink : w_sink st = bytes (a_sent (norm a));
    Rw_room : lenN (a_buf (norm a)) < MAX_BUF_SIZE
  }.

  Lemma max_pos : 0 < MAX_BUF_SIZE. Proof. reflexivity. Qed.

  Lemma room_norm : forall a, a_has_room a = true -> norm a = a.
  Proof. intros a H. unfold norm. rewrite H. reflexivity. Qed.

  Lemma flush_nonempty : forall a, 0 < lenN (a_buf a) ->
    a_poll_flush a = mkAwr [] (a_sent a ++ [a_buf a]).
  Proof. intros a H. unfold a_poll_flush. destruct (lenN_pos_cons _ _ H) as (x & r & E). rewrite E. reflexivity. Qed.

  Lemma noroom_norm : forall a, a_has_room a = false -> norm a = mkAwr [] (a_sent a ++ [a_buf a]).
  Proof.
    intros a H. unfold norm. rewrite H. apply flush_nonempty.
    unfold a_has_room in H. pose proof max_pos. lia.
  Qed.

  Lemma norm_flush : forall a, norm (a_poll_flush a) = a_poll_flush a.
  Proof.
    intros a. apply room_norm. unfold a_has_room, a_poll_flush.
    destruct (a_buf a) eqn:E; [rewrite E|]; reflexivity.
  Qed.

  Lemma Rw_init : Rw w_init aw_init.
  Proof. constructor; try reflexivity. vm_compute. discriminate. Qed.

  Lemma write_sim : forall st a buf, Rw st a ->
    exists st', write deflate lvl st buf = (st', Ok (snd (a_poll_write a buf))) /\
                Rw st' (fst (a_poll_write a buf)).
  Proof.
    intros st a buf H. unfold write, a_poll_write. fold (norm a). cbn [fst snd].
    pose proof (Rw_room _ _ H) as Hroom. rewrite (Rw_stg _ _ H).
    destruct (N.ltb_spec MAX_BUF_SIZE (lenN (a_buf (norm a)))); [lia|].
    set (amt := N.min (MAX_BUF_SIZE - lenN (a_buf (norm a))) (lenN buf)).
    set (nb := a_buf (norm a) ++ firstn (N.to_nat amt) buf).
    assert (Hnb : lenN nb = lenN (a_buf (norm a)) + amt).
    { unfold nb. rewrite lenN_app, lenN_firstn; [reflexivity|]. unfold amt. lia. }
    cbn [w_staging].
    destruct (N.ltb_spec (lenN nb) MAX_BUF_SIZE) as [Hlt|Hge].
    - eexists. split; [reflexivity|].
      assert (Hr : a_has_room (mkAwr nb (a_sent (norm a))) = true).
      { unfold a_has_room. cbn [a_buf]. apply N.ltb_lt. exact Hlt. }
      constructor; rewrite ?(room_norm _ Hr); cbn [w_finished w_staging w_sink a_buf a_sent];
        try reflexivity; try (apply H); lia.
    - assert (Hpos : 0 < lenN nb) by (pose proof max_pos; lia).
      assert (Hle : lenN nb <= MAX_BUF_SIZE) by (unfold amt in Hnb; lia).
      destruct (flush_ok (mk_wstate (w_pos st) nb (w_sink st) (w_inner st) (w_finished st)) Hpos Hle) as [p Hfb].
      rewrite Hfb. cbn [w_staging w_sink w_inner].
      eexists. split; [reflexivity|].
      assert (Hr : a_has_room (mkAwr nb (a_sent (norm a))) = false).
      { unfold a_has_room. cbn [a_buf]. apply N.ltb_ge. exact Hge. }
      constructor; rewrite ?(noroom_norm _ Hr); cbn [w_finished w_staging w_sink a_buf a_sent];
        try reflexivity.
      + exact Hle.
      + rewrite bytes_snoc, (Rw_sink _ _ H). reflexivity.
  Qed.

  Lemma flush_sim : forall st a, Rw st a ->
    exists st', flush deflate lvl st = (st', Ok tt) /\ Rw st' (a_poll_flush a).
  Proof.
    intros st a H. destruct (a_has_room a) eqn:Hr.
    - pose proof (Rw_stg _ _ H) as Hs. pose proof (Rw_sink _ _ H) as Hk. rewrite (room_norm _ Hr) in Hs, Hk.
      unfold flush, a_poll_flush. rewrite Hs. destruct (a_buf a) as [|x r] eqn:Eb.
      + exists st. split; [reflexivity|]. exact H.
      + assert (Hle : lenN (w_staging st) <= MAX_BUF_SIZE) by (rewrite Hs, <- Eb; apply H).
        destruct (flush_block_ok st Hle) as [p Hfb]. rewrite Hfb. eexists. split; [reflexivity|].
        constructor; rewrite ?room_norm by reflexivity; cbn [w_finished w_staging w_sink a_buf a_sent];
          try reflexivity.
        * rewrite lenN_nil. pose proof max_pos. lia.
        * rewrite bytes_snoc, Hk, Hs. reflexivity.
    - pose proof (Rw_stg _ _ H) as Hs. pose proof (Rw_sink _ _ H) as Hk.
      rewrite (noroom_norm _ Hr) in Hs, Hk. cbn [a_buf a_sent] in Hs, Hk.
      unfold flush. rewrite Hs. exists st. split; [reflexivity|].
      assert (Hf : a_poll_flush a = mkAwr [] (a_sent a ++ [a_buf a])).
      { apply flush_nonempty. unfold a_has_room in Hr. pose proof max_pos. lia. }
      rewrite Hf.
      constructor; rewrite ?room_norm by reflexivity; cbn [a_buf a_sent]; try assumption.
      * apply H.
      * rewrite lenN_nil. pose proof max_pos. lia.
      * rewrite lenN_nil. exact max_pos.
  Qed.

  Lemma write_all_sim : forall fuel st a buf, Rw st a ->
    exists st', write_all deflate fuel lvl st buf = (st', snd (a_write_all fuel a buf)) /\
                Rw st' (fst (a_write_all fuel a buf)).
  Proof.
    induction fuel as [|k IH]; intros st a buf H; destruct buf as [|x r]; cbn [write_all a_write_all fst snd].
    - exists st. split; [reflexivity|exact H].
    - exists st. split; [reflexivity|exact H].
    - exists st. split; [reflexivity|exact H].
    - destruct (write_sim st a (x :: r) H) as (st1 & Hw & H1). rewrite Hw.
      destruct (a_poll_write a (x :: r)) as [a1 amt]. cbn [fst snd] in *.
      destruct (amt =? 0); [exists st1; split; [reflexivity|exact H1]|]. apply IH. exact H1.
  Qed.

  Lemma a_poll_write_amt : forall a x r, lenN (a_buf a) <= MAX_BUF_SIZE ->
    0 < snd (a_poll_write a (x :: r)) <= lenN (x :: r) /\
    lenN (a_buf (fst (a_poll_write a (x :: r)))) <= MAX_BUF_SIZE.
  Proof.
    intros a x r Hl. unfold a_poll_write. cbn [fst snd a_buf]. fold (norm a).
    assert (Hn : lenN (a_buf (norm a)) < MAX_BUF_SIZE).
    { destruct (a_has_room a) eqn:Hr.
      - rewrite (room_norm _ Hr). unfold a_has_room in Hr. lia.
      - rewrite (noroom_norm _ Hr). cbn [a_buf]. exact max_pos. }
    assert (Hp : 0 < lenN (x :: r)) by (unfold lenN; cbn [length]; lia).
    rewrite lenN_app, lenN_firstn by lia. lia.
  Qed.

  Lemma write_all_no_panic : forall fuel a buf, (length buf < fuel)%nat -> lenN (a_buf a) <= MAX_BUF_SIZE ->
    snd (a_write_all fuel a buf) <> Panic.
  Proof.
    induction fuel as [|k IH]; intros a buf Hf Hl; [lia|].
    destruct buf as [|x r]; cbn [a_write_all]; [discriminate|].
    destruct (a_poll_write_amt a x r Hl) as [Ha Hb].
    destruct (a_poll_write a (x :: r)) as [a1 amt]. cbn [fst snd] in *.
    destruct (N.eqb_spec amt 0); [discriminate|]. apply IH; [|exact Hb].
    rewrite skipn_length. unfold lenN in Ha. cbn [length] in *. lia.
  Qed.

  Lemma step_sim : forall st a o, Rw st a ->
    exists st', Bgzf.Writer.step deflate lvl st (sync_op o) = (st', snd (a_wstep a o)) /\ Rw st' (fst (a_wstep a o)) /\
                snd (a_wstep a o) <> Panic.
  Proof.
    intros st a o H. destruct o as [buf|buf|]; cbn [sync_op Bgzf.Writer.step a_wstep].
    - destruct (write_sim st a buf H) as (st1 & Hw & H1). rewrite Hw.
      destruct (a_poll_write a buf) as [a1 amt]. cbn [fst snd] in *.
      exists st1. split; [reflexivity|]. split; [exact H1|discriminate].
    - destruct (write_all_sim (S (length buf)) st a buf H) as (st1 & Hw & H1). rewrite Hw.
      pose proof (write_all_no_panic (S (length buf)) a buf (Nat.lt_succ_diag_r _) (Rw_len _ _ H)) as Hnp.
      destruct (a_write_all (S (length buf)) a buf) as [a1 r]. cbn [fst snd] in *.
      destruct r as [u|e|]; [| |contradiction]; exists st1; (split; [reflexivity|]); (split; [exact H1|discriminate]).
    - destruct (flush_sim st a H) as (st1 & Hw & H1). rewrite Hw.
      exists st1. split; [reflexivity|]. split; [exact H1|discriminate].
  Qed.

  Lemma run_sim : forall ops st a, Rw st a ->
    exists st' obs, run_ops deflate lvl st (map sync_op ops) = (st', obs, false) /\
                    map fst obs = snd (a_wrun a ops) /\ Rw st' (fst (a_wrun a ops)).
  Proof.
    induction ops as [|o ops IH]; intros st a H; cbn [map run_ops a_wrun].
    - exists st, []. split; [reflexivity|]. split; [reflexivity|exact H].
    - destruct (step_sim st a o H) as (st1 & Hs & H1 & Hnp). rewrite Hs.
      destruct (a_wstep a o) as [a1 x]. cbn [fst snd] in *.
      destruct (IH st1 a1 H1) as (st2 & obs & Hr & Hm & H2). rewrite Hr.
      destruct (a_wrun a1 ops) as [a2 xs]. cbn [fst snd] in *.
      destruct x as [v|e|]; [| |contradiction];
        (eexists; eexists; split; [reflexivity|]); cbn [map fst]; (split; [rewrite Hm; reflexivity|exact H2]).
  Qed.

  (* MAIN, sync side: the sync writer's file for the script + finish() is the frames of exactly the
     blocks the async writer hands to its sink, then the EOF marker; the per-call results agree *)
  Theorem sync_writer_blocks : forall ops,
    let o := run_script deflate lvl (map sync_op ops) EFinish in
    o_sink o = bytes (a_blocks ops) ++ eof_block /\
    map fst (o_results o) = a_results ops /\ o_end o = Ok tt.
  Proof.
    intros ops. cbn zeta. unfold run_script, a_blocks, a_results.
    destruct (run_sim ops w_init aw_init Rw_init) as (st & obs & Hr & Hm & H). rewrite Hr.
    cbn [run_ending]. unfold try_finish.
    destruct (flush_sim st _ H) as (st1 & Hf & H1). rewrite Hf. rewrite (Rw_fin _ _ H1).
    cbn [take_inner o_sink o_results o_end w_sink].
    rewrite (Rw_sink _ _ H1), norm_flush. repeat split. exact Hm.
  Qed.

  (* pipeline side: whatever the schedule, once the queue has been emptied the inner writer
     holds the frames of the blocks in submission order *)
  Lemma consume_all : forall (rs : list (list N)) c,
    Sched.st_consume (fun sink x => sink ++ x) (fun _ : list N => false) c rs = c ++ concat rs.
  Proof.
    induction rs as [|r rs IH]; intros c; cbn [Sched.st_consume concat]; [rewrite app_nil_r; reflexivity|].
    rewrite IH, app_assoc. reflexivity.
  Qed.

  Theorem pipeline_in_order : forall W P blocks sched,
    w_final (w_run fr W P blocks sched) = true ->
    cs (w_run fr W P blocks sched) = bytes blocks.
  Proof.
    intros W P blocks sched Hf. unfold w_run, w_final in *.
    rewrite (pipeline_output_is_submission_order _ _ _ _ _ _ _ _ _ _ _ _ Hf).
    rewrite consume_all. reflexivity.
  Qed.

  (* MAIN: same bytes in the sink, for every worker count, pool size and complete schedule *)
  Theorem async_writer_equals_sync : forall W P ops sched,
    w_final (w_run fr W P (a_blocks ops) sched) = true ->
    a_sink fr W P ops sched = o_sink (run_script deflate lvl (map sync_op ops) EFinish).
  Proof.
    intros W P ops sched Hf. unfold a_sink. rewrite (pipeline_in_order _ _ _ _ Hf).
    destruct (sync_writer_blocks ops) as [Hs _]. rewrite Hs. reflexivity.
  Qed.
End WriterSim.
