(* C16 -- the async BGZF reader above the framing layer
   (noodles-bgzf/src/async/io/reader.rs, reader/inflater.rs, reader/inflate.rs, with
   futures::stream::TryBuffered) as an instance of the generic ticket pipeline NV.Io.Sched, next
   to the sync reader model NV.Bgzf.ReaderOps (property C02, the reader after its repair).

   Like ReaderOps the model works on an ALREADY PARSED well-formed file: a list of frames, each
   with its compressed size and inflated data (framing is NV.Async.Framing; inflate + CRC are
   external).  What is mirrored:

     Inflater::poll_next     a frame decoded by FramedRead becomes an Inflate future at once:
                             tokio::task::spawn_blocking(parse_block)          = Submit (+ queued task)
     blocking pool           tasks start FIFO on at most P threads              = Start
                             and finish in ANY order                            = Complete t
     TryBuffered::poll_next  polls the Inflater while in_progress_queue.len() < worker_count
                             (window W = worker_count), only while the reader itself is being
                             polled for a block (= the consumer is not `stopped`);
                             FuturesOrdered yields results in submission order  = Take, Emit
     Reader::poll_fill_buf   when the block has no data left: take blocks from the stream,
                             block.set_position(position); position += block.size(); the block
                             becomes current; stop at the first block with data (empty blocks are
                             skipped), or at the end of the stream              = consumer [cstep]
     Reader::consume, poll_read, virtual_position (Block::virtual_position, Data::consume)
     tokio AsyncReadExt::read_exact   poll_read until the buffer is full; 0 bytes -> UnexpectedEof
     Reader::seek            stream.into_inner() drops every in-flight inflate task; the source
                             seeks, FramedRead's buffer is cleared; a new TryBuffered is built;
                             blocks are taken until one has data; when there is none an empty
                             block is left at the position reached; Data::set_position clamps.
                             (poll_seek does the same and starts a new seek on every call.)
     Reader::seek_by_uncompressed_position = gzi query + seek

   A pending poll of the source (AsyncRead returning Pending / a partial transfer that does not
   complete a frame) is a point where Submit is simply not scheduled yet, so the schedules below
   subsume the poll scripts of the source.

   SCHEDULES.  Every time the reader needs a block ("pull") the scheduler plays an arbitrary list
   of pipeline actions [sch k] (k = number of the pull; disabled actions are no-ops) and then the
   canonical strategy Sched.default_pick until the pull is over (a block with data has arrived,
   or the stream has ended).  Any complete schedule is of this form with an empty canonical part
   (ReaderProofs.pull_complete_schedule), so quantifying over [sch] quantifies over all of them.
   Pool tasks that start or finish while the reader is not being polled are not lost: the
   reader observes the pipeline only during a pull, so such a step is the same step played at
   the beginning of the next pull's segment. *)
From Coq Require Import List NArith Bool Arith.
From NV Require Import Bgzf.Vpos Bgzf.Gzi Bgzf.ReaderOps Io.Sched.
Import ListNotations.
Open Scope N_scope.

(* Block { pos, size, data: Data { buf[..len], pos } } *)
Record blk := mkBlk { k_pos : N; k_size : N; k_data : list N; k_cur : N }.

(* the consumer: Reader { position, block }, whether it is currently waiting for a block, and a
   ghost counter of the pulls made so far (selects the schedule segment) *)
Record rdr := mkRdr { want : bool; r_position : N; r_blk : blk; pulls : nat }.

Definition blk0 : blk := mkBlk 0 0 [] 0.

(* poll_fill_buf's loop body for one delivered block *)
Definition rd_step (c : rdr) (b : frame) : rdr :=
  mkRdr (flen b =? 0) (r_position c + csize b)
        (mkBlk (r_position c) (csize b) (fdata b) 0) (pulls c).

Definition rd_stopped (c : rdr) : bool := negb (want c).

Definition pst := Sched.st frame rdr.

Definition act_of_nat (n : nat) : act :=
  match n with
  | O => Submit | 1%nat => Start | 2%nat => Take | 3%nat => Emit
  | S (S (S (S t))) => Complete t
  end.

(* frames not yet delivered to the reader: in flight, then not yet decoded *)
Definition remaining (s : pst) : list frame :=
  map snd (olist (hold s)) ++ map snd (chan s) ++ todo s.

Section AsyncReader.
  Variable W : nat.                    (* worker_count *)
  Variable P : nat.                    (* threads of the blocking pool *)
  Variable sch : nat -> list act.      (* scheduler: the actions played during pull number k *)

  Definition can_sub (n : nat) (h : bool) : bool := (n + (if h then 1 else 0) <? W)%nat.

  Definition pstep : pst -> act -> pst :=
    Sched.step (fun b : frame => b) (fun _ => false) rd_step rd_stopped can_sub P.
  Definition pfinal : pst -> bool := Sched.final rd_stopped.
  Definition pcomplete (s : pst) : pst :=
    Sched.iter (fun b : frame => b) (fun _ => false) rd_step rd_stopped can_sub P
               (Sched.default_pick rd_stopped can_sub P) (Sched.measure s) s.

  Definition with_rdr (s : pst) (c : rdr) : pst :=
    Sched.mk (todo s) (next s) (chan s) (hold s) (pending s) (running s) (done s) (Sched.cons s) c.

  (* the reader starts waiting for a block (the ghost list of consumed items restarts) *)
  Definition start_pull (s : pst) : pst :=
    Sched.mk (todo s) (next s) (chan s) (hold s) (pending s) (running s) (done s) []
             (mkRdr true (r_position (cs s)) (r_blk (cs s)) (S (pulls (cs s)))).

  (* one pull under an explicit schedule segment, completed canonically *)
  Definition pull_with (seg : list act) (s : pst) : pst :=
    pcomplete (fold_left pstep seg (start_pull s)).

  Definition pull (s : pst) : pst := pull_with (sch (pulls (cs s))) s.

  Definition a_has_remaining (c : rdr) : bool := k_cur (r_blk c) <? len (k_data (r_blk c)).

  (* Data::as_ref *)
  Definition a_as_ref (c : rdr) : list N := skipn (N.to_nat (k_cur (r_blk c))) (k_data (r_blk c)).

  Definition a_fill_buf (s : pst) : pst * res (list N) :=
    let s1 := if a_has_remaining (cs s) then s else pull s in
    (s1, Ok (a_as_ref (cs s1))).

  Definition a_consume (s : pst) (n : N) : pst :=
    let c := cs s in
    let b := r_blk c in
    with_rdr s (mkRdr (want c) (r_position c)
                      (mkBlk (k_pos b) (k_size b) (k_data b) (N.min (k_cur b + n) (len (k_data b))))
                      (pulls c)).

  (* poll_read with a buffer of n bytes *)
  Definition a_read (s : pst) (n : N) : pst * res (list N) :=
    match a_fill_buf s with
    | (s1, Ok src) => let out := firstn (N.to_nat n) src in (a_consume s1 (len out), Ok out)
    | (s1, r) => (s1, r)
    end.

  (* tokio::io::util::read_exact::ReadExact *)
  Fixpoint a_read_exact_loop (fuel : nat) (s : pst) (rem : N) (acc : list N)
    : pst * res (list N) :=
    match fuel with
    | O => (s, OutOfFuel)
    | S k =>
        if rem =? 0 then (s, Ok acc)
        else match a_read s rem with
             | (s', Ok bs) =>
                 if len bs =? 0 then (s', Err UnexpectedEof)
                 else a_read_exact_loop k s' (rem - len bs) (acc ++ bs)
             | (s', r) => (s', r)
             end
    end.

  Definition a_read_exact (s : pst) (n : N) : pst * res (list N) :=
    a_read_exact_loop (S (N.to_nat n)) s n [].

  (* the caller-side read-to-end loop with an n-byte buffer (cf. ReaderOps.read_all):
       loop { let k = r.read(&mut buf[..n]).await?; if k == 0 { break } out.extend(&buf[..k]) } *)
  Fixpoint a_read_all_loop (fuel : nat) (s : pst) (n : N) (acc : list N) : pst * res (list N) :=
    match fuel with
    | O => (s, OutOfFuel)
    | S k =>
        match a_read s n with
        | (s', Ok bs) =>
            if len bs =? 0 then (s', Ok acc) else a_read_all_loop k s' n (acc ++ bs)
        | (s', r) => (s', r)
        end
    end.

  Definition a_data_ahead (s : pst) : nat :=
    (N.to_nat (len (k_data (r_blk (cs s)))) + length (concat (map fdata (remaining s))))%nat.

  Definition a_read_all (s : pst) (n : N) : pst * res (list N) :=
    a_read_all_loop (S (a_data_ahead s)) s n [].

  Definition a_seek (f : file) (s : pst) (v : N) : pst * res N :=
    let c := vcomp v in
    let u := vuncomp v in
    match drop_to f 0 c with
    | None => (s, Unmodelled)
    | Some r =>
        (* a new TryBuffered over the repositioned Inflater; self.position = cpos *)
        let s0 : pst := Sched.init (mkRdr false c (r_blk (cs s)) (pulls (cs s))) r in
        let s1 := pull s0 in
        let c1 := cs s1 in
        (* still waiting: the stream ended without a block that has data *)
        let b := if want c1 then mkBlk (r_position c1) 0 [] 0 else r_blk c1 in
        let b' := mkBlk (k_pos b) (k_size b) (k_data b) (N.min u (len (k_data b))) in
        (with_rdr s1 (mkRdr false (r_position c1) b' (pulls c1)), Ok v)
    end.

  Definition a_seek_by_uncompressed_position (f : file) (idx : gzi_index) (s : pst) (pos : N)
    : pst * res N :=
    match gzi_query idx pos with
    | Ok v => match a_seek f s v with
              | (s', Ok _) => (s', Ok pos)
              | r => r
              end
    | Err e => (s, Err e)
    | Panic => (s, Panic)
    | OutOfFuel => (s, OutOfFuel)
    | Unmodelled => (s, Unmodelled)
    end.

  (* Block::virtual_position with its asserts *)
  Definition a_virtual_position (c : rdr) : res N :=
    let b := r_blk c in
    if a_has_remaining c then
      if (k_pos b <=? MAX_COMPRESSED_POSITION) && (k_cur b <=? MAX_UNCOMPRESSED_POSITION)
      then Ok (pack (k_pos b) (k_cur b)) else Panic
    else
      if k_pos b + k_size b <=? MAX_COMPRESSED_POSITION
      then Ok (pack (k_pos b + k_size b) 0) else Panic.

  (* the ops of ReaderOps; the async reader has one read_exact (tokio's), used for both
     ReadExact and ReadExactStd *)
  Definition a_step (f : file) (idx : gzi_index) (s : pst) (o : op) : pst * out :=
    match o with
    | Read n => let '(s', r) := a_read s n in (s', OBytes r)
    | ReadExact n => let '(s', r) := a_read_exact s n in (s', OBytes r)
    | ReadExactStd n => let '(s', r) := a_read_exact s n in (s', OBytes r)
    | FillBuf => let '(s', r) := a_fill_buf s in (s', OBytes r)
    | Consume n => (a_consume s n, OUnit)
    | Seek v => let '(s', r) := a_seek f s v in (s', OPos r)
    | SeekU p => let '(s', r) := a_seek_by_uncompressed_position f idx s p in (s', OPos r)
    | ReadAll n => let '(s', r) := a_read_all s n in (s', OBytes r)
    end.

  Fixpoint a_run (f : file) (idx : gzi_index) (s : pst) (ops : list op) : list (out * res N) :=
    match ops with
    | [] => []
    | o :: r =>
        let '(s', x) := a_step f idx s o in
        (x, a_virtual_position (cs s')) :: a_run f idx s' r
    end.

  Definition a_init (f : file) : pst := Sched.init (mkRdr false 0 blk0 0) f.
End AsyncReader.

(* ---- entry points of the correspondence driver ------------------------------------------ *)

Definition sch_of (segs : list (list nat)) : nat -> list act :=
  fun k => map act_of_nat (nth k segs []).

Definition async_reader_case (W P : nat) (segs : list (list nat)) (f : file) (idx : gzi_index)
  (ops : list op) : list (out * res N) :=
  a_run W P (sch_of segs) f idx (a_init f) ops.

Definition sync_reader_case (f : file) (idx : gzi_index) (ops : list op) : list (out * res N) :=
  ReaderOps.run true f idx (ReaderOps.init f) ops.
