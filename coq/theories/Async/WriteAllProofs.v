(* C16 -- whatever the sink's partial-write / Pending script, the write loops hand the sink exactly
   the bytes they were given, in order, and never fail. *)
From Coq Require Import List NArith Arith Bool Lia.
From NV Require Import Async.WriteAll.
Import ListNotations.

Lemma await_write_bounds : forall script n, 0 < n ->
  0 < fst (await_write script n) <= n.
Proof.
  induction script as [|e p IH]; intros n Hn.
  - cbn [await_write fst]. lia.
  - destruct e as [|k]; cbn [await_write]; [apply IH; exact Hn|]. cbn [fst]. lia.
Qed.

Theorem write_all_loop_spec : forall fuel s buf, length buf < fuel ->
  exists p lg, write_all_loop fuel s buf = (WOk, mkASink (k_bytes s ++ buf) p (k_log s ++ lg))
    /\ fold_right (fun x acc => snd x + acc) 0 lg = length buf
    /\ Forall (fun x => 0 < snd x <= fst x) lg.
Proof.
  induction fuel as [|fuel IH]; intros s buf Hf; [lia|].
  destruct buf as [|b buf'].
  - cbn [write_all_loop]. exists (k_script s), []. rewrite !app_nil_r. destruct s. cbn.
    split; [reflexivity|]. split; [reflexivity|constructor].
  - cbn [write_all_loop]. set (buf := b :: buf') in *.
    pose proof (await_write_bounds (k_script s) (length buf) ltac:(unfold buf; cbn [length]; lia)) as Hb.
    destruct (await_write (k_script s) (length buf)) as [n p]. cbn [fst] in Hb.
    destruct (Nat.eqb_spec n 0) as [Hz|Hz]; [lia|].
    destruct (IH (mkASink (k_bytes s ++ firstn n buf) p (k_log s ++ [(length buf, n)])) (skipn n buf))
      as [p' [lg [E [Hsum Hall]]]].
    { rewrite skipn_length. cbn [length] in *. lia. }
    exists p', ((length buf, n) :: lg). rewrite E. cbn [k_bytes k_log].
    rewrite <- !app_assoc. rewrite firstn_skipn. cbn [app].
    split; [reflexivity|]. split.
    + cbn [fold_right snd]. rewrite Hsum. rewrite skipn_length. lia.
    + constructor; [cbn [fst snd]; lia|exact Hall].
Qed.

Theorem write_all_spec : forall s buf,
  exists p lg, write_all s buf = (WOk, mkASink (k_bytes s ++ buf) p (k_log s ++ lg)).
Proof.
  intros s buf. destruct (write_all_loop_spec (S (length buf)) s buf ltac:(lia)) as [p [lg [E _]]].
  exists p, lg. exact E.
Qed.

(* a whole run of an async text writer: the sink holds the concatenation of the buffers *)
Theorem write_calls_spec : forall bufs s,
  exists p lg, write_calls s bufs = (WOk, mkASink (k_bytes s ++ concat bufs) p (k_log s ++ lg)).
Proof.
  induction bufs as [|b r IH]; intros s.
  - exists (k_script s), []. cbn [write_calls concat]. rewrite !app_nil_r. destruct s. reflexivity.
  - cbn [write_calls concat]. destruct (write_all_spec s b) as [p [lg E]]. rewrite E.
    destruct (IH (mkASink (k_bytes s ++ b) p (k_log s ++ lg))) as [p' [lg' E']]. rewrite E'.
    cbn [k_bytes k_log]. exists p', (lg ++ lg'). rewrite <- !app_assoc. reflexivity.
Qed.

Lemma concat_split_by : forall sizes data, concat (split_by sizes data) = data.
Proof.
  induction sizes as [|n r IH]; intros data.
  - destruct data; cbn [split_by concat]; [reflexivity|]. rewrite app_nil_r. reflexivity.
  - cbn [split_by concat]. rewrite IH. apply firstn_skipn.
Qed.

(* ---- FramedWrite *)
Lemma fw_flush_spec : forall st,
  exists p lg, fw_flush st
    = (WOk, mkFw [] (mkASink (k_bytes (fw_sink st) ++ fw_buf st) p (k_log (fw_sink st) ++ lg))).
Proof.
  intros st. unfold fw_flush. destruct (write_all_spec (fw_sink st) (fw_buf st)) as [p [lg E]].
  rewrite E. exists p, lg. reflexivity.
Qed.

(* invariant of a run: sink bytes ++ buffer = everything sent so far *)
Theorem fw_run_spec : forall boundary ops st,
  exists st', fw_run boundary st ops = (WOk, st')
    /\ k_bytes (fw_sink st') ++ fw_buf st' = k_bytes (fw_sink st) ++ fw_buf st ++ frames_of ops.
Proof.
  intros boundary. induction ops as [|o r IH]; intros st.
  - exists st. cbn [fw_run frames_of]. rewrite app_nil_r. split; reflexivity.
  - destruct o as [f|]; cbn [fw_run frames_of].
    + unfold fw_send. destruct (boundary <=? length (fw_buf st)).
      * destruct (fw_flush_spec st) as [p [lg E]]. rewrite E. cbn [fw_buf fw_sink app].
        destruct (IH (mkFw f (mkASink (k_bytes (fw_sink st) ++ fw_buf st) p (k_log (fw_sink st) ++ lg))))
          as [st' [E' H']].
        exists st'. split; [exact E'|]. rewrite H'. cbn [fw_buf fw_sink k_bytes].
        rewrite <- !app_assoc. reflexivity.
      * destruct (IH (mkFw (fw_buf st ++ f) (fw_sink st))) as [st' [E' H']].
        exists st'. split; [exact E'|]. rewrite H'. cbn [fw_buf fw_sink]. rewrite <- !app_assoc. reflexivity.
    + destruct (fw_flush_spec st) as [p [lg E]]. rewrite E.
      destruct (IH (mkFw [] (mkASink (k_bytes (fw_sink st) ++ fw_buf st) p (k_log (fw_sink st) ++ lg))))
        as [st' [E' H']].
      exists st'. split; [exact E'|]. rewrite H'. cbn [fw_buf fw_sink k_bytes app].
      rewrite <- !app_assoc. reflexivity.
Qed.

Theorem fw_close_spec : forall boundary ops st,
  exists st', fw_close boundary st ops = (WOk, st') /\ fw_buf st' = []
    /\ k_bytes (fw_sink st') = k_bytes (fw_sink st) ++ fw_buf st ++ frames_of ops.
Proof.
  intros boundary ops st. unfold fw_close.
  destruct (fw_run_spec boundary ops st) as [st1 [E1 H1]]. rewrite E1.
  destruct (fw_flush_spec st1) as [p [lg E2]]. rewrite E2.
  eexists. split; [reflexivity|]. cbn [fw_buf fw_sink k_bytes]. split; [reflexivity|exact H1].
Qed.
