(* C16 -- the write loops between the async writers and their sink.

   An async sink is the bytes it has received plus a poll script; each poll of
   AsyncWrite::poll_write consumes one event (harness/src/shared/c16_adversary.rs::AdvWriter):
     WPending    the poll returns Pending (the task is woken and polls again)
     WAccept k   the poll accepts min (max k 1) (buffer length) bytes
   With the script exhausted a poll accepts the whole buffer.

   tokio::io::AsyncWriteExt::write_all (tokio io/util/write_all.rs), used by every async text
   writer of noodles (sam / vcf / fasta / fastq / gff: one call per field or separator):
     while !buf.is_empty() { n = ready!(poll_write(buf))?; buf = &buf[n..];
                             if n == 0 { return Err(WriteZero) } }

   tokio_util::codec::FramedWrite (framed_impl.rs), used by the async BGZF writer (the encoder of
   BlockCodec copies the compressed frame into the buffer):
     poll_ready : if buffer.len() >= backpressure_boundary { poll_flush } else { Ready }
     start_send : encoder.encode(item, &mut buffer)            (appends the frame)
     poll_flush : while !buffer.is_empty() { n = ready!(poll_write(&buffer))?;
                                             if n == 0 { return Err(WriteZero) }; buffer.advance(n) }
                  ready!(inner.poll_flush)
     poll_close : poll_flush, then inner.poll_shutdown
   The log records (offered, accepted) of every Ready poll. *)
From Coq Require Import List NArith Arith Bool.
Import ListNotations.

Inductive wevent := WPending | WAccept (k : nat).

Record asink := mkASink { k_bytes : list N; k_script : list wevent; k_log : list (nat * nat) }.

Inductive wres := WOk | WWriteZero | WNoFuel.

(* poll_write(buf) polled until Ready: (bytes accepted, script left) *)
Fixpoint await_write (script : list wevent) (n : nat) : nat * list wevent :=
  match script with
  | [] => (n, [])
  | WPending :: p => await_write p n
  | WAccept k :: p => (Nat.min (Nat.max k 1) n, p)
  end.

Fixpoint write_all_loop (fuel : nat) (s : asink) (buf : list N) : wres * asink :=
  match buf with
  | [] => (WOk, s)
  | _ :: _ =>
    match fuel with
    | 0 => (WNoFuel, s)
    | S fuel' =>
      let '(n, p) := await_write (k_script s) (length buf) in
      let s' := mkASink (k_bytes s ++ firstn n buf) p (k_log s ++ [(length buf, n)]) in
      if n =? 0 then (WWriteZero, s') else write_all_loop fuel' s' (skipn n buf)
    end
  end.

Definition write_all (s : asink) (buf : list N) : wres * asink :=
  write_all_loop (S (length buf)) s buf.

(* a sequence of write_all calls (one async text writer run); stops at the first error *)
Fixpoint write_calls (s : asink) (bufs : list (list N)) : wres * asink :=
  match bufs with
  | [] => (WOk, s)
  | b :: r => match write_all s b with
              | (WOk, s') => write_calls s' r
              | other => other
              end
  end.

(* ---- FramedWrite *)
Record fwstate := mkFw { fw_buf : list N; fw_sink : asink }.

Inductive fwop := FwSend (frame : list N) | FwFlush.

Definition fw_flush (st : fwstate) : wres * fwstate :=
  match write_all (fw_sink st) (fw_buf st) with
  | (WOk, s') => (WOk, mkFw [] s')
  | (e, s') => (e, mkFw (fw_buf st) s')
  end.

Definition fw_send (boundary : nat) (st : fwstate) (frame : list N) : wres * fwstate :=
  if boundary <=? length (fw_buf st) then
    match fw_flush st with
    | (WOk, st') => (WOk, mkFw (fw_buf st' ++ frame) (fw_sink st'))
    | other => other
    end
  else (WOk, mkFw (fw_buf st ++ frame) (fw_sink st)).

Fixpoint fw_run (boundary : nat) (st : fwstate) (ops : list fwop) : wres * fwstate :=
  match ops with
  | [] => (WOk, st)
  | FwSend f :: r => match fw_send boundary st f with
                     | (WOk, st') => fw_run boundary st' r
                     | other => other
                     end
  | FwFlush :: r => match fw_flush st with
                    | (WOk, st') => fw_run boundary st' r
                    | other => other
                    end
  end.

(* SinkExt::close: everything sent so far reaches the sink *)
Definition fw_close (boundary : nat) (st : fwstate) (ops : list fwop) : wres * fwstate :=
  match fw_run boundary st ops with
  | (WOk, st') => fw_flush st'
  | other => other
  end.

Fixpoint frames_of (ops : list fwop) : list N :=
  match ops with
  | [] => []
  | FwSend f :: r => f ++ frames_of r
  | FwFlush :: r => frames_of r
  end.

(* ---- entry point of the correspondence driver (kind awl) *)
Definition wevents_of (codes : list nat) : list wevent :=
  map (fun c => match c with O => WPending | S k => WAccept k end) codes.

Fixpoint split_by (sizes : list nat) (data : list N) : list (list N) :=
  match sizes with
  | [] => match data with [] => [] | _ => [data] end
  | n :: r => firstn n data :: split_by r (skipn n data)
  end.

Definition async_write_case (codes : list nat) (calls : list nat) (data : list N)
  : wres * list N * list (nat * nat) :=
  match write_calls (mkASink [] (wevents_of codes) []) (split_by calls data) with
  | (r, s) => (r, k_bytes s, k_log s)
  end.
