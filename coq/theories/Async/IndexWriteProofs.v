(* C16 -- the async index writers hand the sink exactly the bytes of the sync index writers.

   For X in gzi, BAI, CSI, tabix (NV.Async.IndexWrite models the async writer as its list of write
   calls, C17's NV.Index.Layout / CsiLayout give the sync writer's bytes w_X and status X_status):
     async_X_refines   the concatenation of the async writer's calls IS w_X when the writer ends
                       Ok, and is a prefix of w_X when it ends with an error or a panic (the bytes
                       handed over before the failing statement)                  [unconditional]
     async_X_status    the async writer ends the way the sync one does (Ok / InvalidInput / panic),
                       for indexes none of whose element counts reaches the limit of its count
                       field (2^32 for BAI, 2^31 for CSI / tabix: X_fits)
     async_X_writer_sink_equals_sync_bytes   with NV.Async.WriteAll: for EVERY partial-write /
                       Pending script of the sink, running the calls through tokio's write_all
                       loops never fails and leaves exactly those bytes in the sink. *)
From Coq Require Import List Arith NArith Bool Lia.
From NV Require Import Base.LE Index.Bins Index.Chunks Index.Indexer Index.CsiLoffset Index.Layout
  Index.CsiLayout.
From NV Require Import Async.WriteAll Async.WriteAllProofs Async.IndexWrite.
Import ListNotations.
Open Scope N_scope.

(* ---------- the combinators ---------- *)
Lemma aw_seq_end : forall a b, snd (a +> b) = sseq (snd a) (snd b).
Proof. intros a b. unfold aw_seq. destruct (snd a); reflexivity. Qed.

Lemma aw_guard_end : forall c a, snd (aw_guard c a) = if c then snd a else SErr.
Proof. intros c a. destruct c; reflexivity. Qed.

Lemma aw_each_end : forall (A : Type) (f : A -> aw) l,
  snd (aw_each f l) = fold_right (fun x s => sseq (snd (f x)) s) SOk l.
Proof.
  intros A f l. induction l as [|x r IH]; [reflexivity|].
  cbn [aw_each fold_right]. rewrite aw_seq_end, IH. reflexivity.
Qed.

Lemma sseq_ok_r : forall s, sseq s SOk = s.
Proof. intros s. destruct s; reflexivity. Qed.

Lemma fold_sseq_ext : forall (A : Type) (f g : A -> wstatus) l,
  (forall x, In x l -> f x = g x) ->
  fold_right (fun x s => sseq (f x) s) SOk l = fold_right (fun x s => sseq (g x) s) SOk l.
Proof.
  intros A f g l. induction l as [|x r IH]; intros H; [reflexivity|].
  cbn [fold_right]. rewrite (H x (or_introl eq_refl)), IH; [reflexivity|].
  intros y Hy. apply H. right. exact Hy.
Qed.

Lemma fold_sseq_ok : forall (A : Type) (f : A -> wstatus) l,
  (forall x, In x l -> f x = SOk) -> fold_right (fun x s => sseq (f x) s) SOk l = SOk.
Proof.
  intros A f l. induction l as [|x r IH]; intros H; [reflexivity|].
  cbn [fold_right]. rewrite (H x (or_introl eq_refl)). cbn [sseq]. apply IH.
  intros y Hy. apply H. right. exact Hy.
Qed.

Lemma aw_refines_eq : forall a f f', aw_refines a f -> f = f' -> aw_refines a f'.
Proof. intros a f f' H E. subst f'. exact H. Qed.

Lemma aw_refines_ret : forall bufs, aw_refines (aw_ret bufs) (concat bufs).
Proof.
  intros bufs. split; [intros _; reflexivity|]. exists []. unfold aw_bytes, aw_ret. cbn [fst].
  rewrite app_nil_r. reflexivity.
Qed.

Lemma aw_refines_fail : forall s full, s <> SOk -> aw_refines (aw_fail s) full.
Proof.
  intros s full Hs. split; [intros E; cbn [aw_fail snd] in E; contradiction|].
  exists full. reflexivity.
Qed.

Lemma aw_refines_seq : forall a b fa fb,
  aw_refines a fa -> aw_refines b fb -> aw_refines (a +> b) (fa ++ fb).
Proof.
  intros [ca sa] [cb sb] fa fb [Ha [ra Ra]] [Hb [rb Rb]]. unfold aw_refines, aw_seq, aw_bytes in *.
  cbn [fst snd] in *. destruct sa.
  - cbn [fst snd]. rewrite concat_app. rewrite (Ha eq_refl). split.
    + intros E. rewrite (Hb E). reflexivity.
    + exists rb. rewrite Rb, app_assoc. reflexivity.
  - cbn [fst snd]. split; [discriminate|]. exists (ra ++ fb). rewrite Ra, app_assoc. reflexivity.
  - cbn [fst snd]. split; [discriminate|]. exists (ra ++ fb). rewrite Ra, app_assoc. reflexivity.
Qed.

Lemma aw_refines_guard : forall c a f, aw_refines a f -> aw_refines (aw_guard c a) f.
Proof. intros c a f H. destruct c; [exact H|]. apply aw_refines_fail. discriminate. Qed.

Lemma aw_refines_each : forall (A : Type) (f : A -> aw) (g : A -> list N) l,
  (forall x, aw_refines (f x) (g x)) -> aw_refines (aw_each f l) (concat (map g l)).
Proof.
  intros A f g l H. induction l as [|x r IH].
  - exact (aw_refines_ret []).
  - cbn [aw_each map concat]. apply aw_refines_seq; [apply H|exact IH].
Qed.

Lemma aw_refines_one : forall b, aw_refines (aw_ret [b]) b.
Proof.
  intros b. apply (aw_refines_eq _ _ _ (aw_refines_ret [b])). cbn [concat]. apply app_nil_r.
Qed.

Lemma aw_refines_u32 : forall n, aw_refines (a_u32 n) (le32 n).
Proof. intros n. apply aw_refines_one. Qed.
Lemma aw_refines_u64 : forall n, aw_refines (a_u64 n) (le64 n).
Proof. intros n. apply aw_refines_one. Qed.

Lemma aw_refines_opt_u64 : forall u, aw_refines (a_opt_u64 u) (w_unplaced u).
Proof.
  intros [n|]; [apply aw_refines_u64|exact (aw_refines_ret [])].
Qed.

(* ---------- gzi ---------- *)
Lemma a_chunk_refines : forall c, aw_refines (a_chunk c) (w_chunk c).
Proof. intros c. apply aw_refines_seq; apply aw_refines_u64. Qed.

Lemma a_chunk_end : forall c, snd (a_chunk c) = SOk.
Proof. intros c. reflexivity. Qed.

Theorem async_gzi_refines : forall idx, aw_refines (async_gzi idx) (w_gzi idx).
Proof.
  intros idx. apply aw_refines_seq; [apply aw_refines_u64|].
  apply aw_refines_each. exact a_chunk_refines.
Qed.

Theorem async_gzi_end : forall idx, aw_end (async_gzi idx) = SOk.
Proof.
  intros idx. unfold aw_end, async_gzi. rewrite aw_seq_end, aw_each_end. cbn [a_u64 aw_ret snd sseq].
  apply fold_sseq_ok. intros c _. reflexivity.
Qed.

Theorem async_gzi_bytes : forall idx, aw_bytes (async_gzi idx) = w_gzi idx.
Proof. intros idx. apply (proj1 (async_gzi_refines idx)). apply async_gzi_end. Qed.

(* ---------- BAI / tabix reference sequences ---------- *)
Lemma a_chunks_refines : forall lim cs, aw_refines (a_chunks lim cs) (w_chunks cs).
Proof.
  intros lim cs. apply aw_refines_guard. apply aw_refines_seq; [apply aw_refines_u32|].
  apply aw_refines_each. exact a_chunk_refines.
Qed.

Lemma a_chunks_end : forall lim cs, len_fits lim (length cs) = true -> snd (a_chunks lim cs) = SOk.
Proof.
  intros lim cs H. unfold a_chunks. rewrite aw_guard_end, H, aw_seq_end, aw_each_end.
  cbn [a_u32 aw_ret snd sseq]. apply fold_sseq_ok. intros c _. reflexivity.
Qed.

Lemma a_lin_bin_refines : forall lim b, aw_refines (a_lin_bin lim b) (w_bin b).
Proof.
  intros lim b. apply aw_refines_guard. apply aw_refines_seq; [apply aw_refines_u32|].
  apply a_chunks_refines.
Qed.

Lemma a_lin_bin_end : forall lim b, len_fits lim (length (snd b)) = true ->
  snd (a_lin_bin lim b) = tbi_bin_status b.
Proof.
  intros lim b H. unfold a_lin_bin, tbi_bin_status, id_fits, u32_lim. rewrite aw_guard_end.
  destruct (4294967296 <=? fst b); [reflexivity|]. cbn [negb].
  rewrite aw_seq_end, (a_chunks_end _ _ H). reflexivity.
Qed.

Lemma a_lin_metadata_refines : forall m,
  aw_refines (a_lin_metadata m) (le32 bai_metadata_id ++ w_metadata_body m).
Proof.
  intros m. unfold a_lin_metadata, w_metadata_body.
  repeat (apply aw_refines_seq; [first [apply aw_refines_u32|apply aw_refines_u64]|]).
  apply aw_refines_u64.
Qed.

Lemma a_lin_bins_refines : forall lim bins m, aw_refines (a_lin_bins lim bins m) (w_bins bins m).
Proof.
  intros lim bins m. apply aw_refines_guard. unfold w_bins, n_bin_of.
  apply aw_refines_seq; [apply aw_refines_u32|].
  apply aw_refines_seq; [apply aw_refines_each; apply a_lin_bin_refines|].
  destruct m as [md|]; [apply a_lin_metadata_refines|exact (aw_refines_ret [])].
Qed.

Lemma a_intervals_refines : forall lim l, aw_refines (a_intervals lim l) (w_intervals l).
Proof.
  intros lim l. apply aw_refines_guard. apply aw_refines_seq; [apply aw_refines_u32|].
  apply aw_refines_each. exact aw_refines_u64.
Qed.

Lemma a_lin_ref_refines : forall lim r, aw_refines (a_lin_ref lim r) (w_bai_ref r).
Proof.
  intros lim r. apply aw_refines_seq; [apply a_lin_bins_refines|apply a_intervals_refines].
Qed.

Lemma a_lin_ref_end : forall lim r, lin_ref_fits lim r = true ->
  snd (a_lin_ref lim r) = tbi_ref_status r.
Proof.
  intros lim r H. unfold lin_ref_fits in H.
  apply andb_prop in H as [H Hiv]. apply andb_prop in H as [H Hcs]. apply andb_prop in H as [Hn Hn1].
  unfold a_lin_ref, a_lin_bins, a_intervals, tbi_ref_status.
  rewrite aw_seq_end, !aw_guard_end, Hn, Hn1, Hiv. cbn [andb].
  rewrite !aw_seq_end, !aw_each_end. cbn [a_u32 aw_ret snd sseq].
  rewrite (fold_sseq_ok _ (fun x => snd (a_u64 x))); [|intros x _; reflexivity].
  rewrite ?sseq_ok_r.
  replace (snd (a_opt_lin_metadata (br_meta r))) with SOk by (destruct (br_meta r); reflexivity).
  rewrite ?sseq_ok_r. apply fold_sseq_ext. intros b Hb. apply a_lin_bin_end.
  exact (proj1 (forallb_forall _ _) Hcs b Hb).
Qed.

Lemma a_opt_u64_end : forall u, snd (a_opt_u64 u) = SOk.
Proof. intros [n|]; reflexivity. Qed.

(* ---------- BAI ---------- *)
Theorem async_bai_refines : forall i, aw_refines (async_bai i) (w_bai i).
Proof.
  intros i. unfold async_bai, w_bai. apply aw_refines_seq; [apply aw_refines_one|].
  apply aw_refines_guard. apply aw_refines_seq; [apply aw_refines_u32|].
  apply aw_refines_seq; [apply aw_refines_each; apply a_lin_ref_refines|].
  exact (aw_refines_opt_u64 (bi_unplaced i)).
Qed.

Theorem async_bai_status : forall i, bai_fits i = true -> aw_end (async_bai i) = bai_status i.
Proof.
  intros i H. unfold bai_fits in H. apply andb_prop in H as [Hn Hr].
  unfold aw_end, async_bai, bai_status. rewrite aw_seq_end, aw_guard_end, Hn, !aw_seq_end, aw_each_end.
  rewrite a_opt_u64_end, sseq_ok_r. cbn [a_u32 aw_ret snd sseq].
  apply fold_sseq_ext. intros r Hin. apply a_lin_ref_end.
  exact (proj1 (forallb_forall _ _) Hr r Hin).
Qed.

(* ---------- CSI ---------- *)
Lemma a_csi_aux_refines : forall h, aw_refines (a_csi_aux h) (w_aux h).
Proof.
  intros [hd|]; unfold a_csi_aux, w_aux.
  - destruct (header_status hd).
    + apply aw_refines_guard. apply aw_refines_seq; [apply aw_refines_u32|apply aw_refines_one].
    + apply aw_refines_fail. discriminate.
    + apply aw_refines_fail. discriminate.
  - apply (aw_refines_eq _ (le32 0 ++ [])); [|apply app_nil_r].
    apply aw_refines_seq; [apply aw_refines_u32|exact (aw_refines_ret [[]])].
Qed.

Lemma a_csi_aux_end : forall h,
  match h with Some hd => len_fits i32_lim (length (w_header hd)) | None => true end = true ->
  snd (a_csi_aux h) = match h with Some hd => header_status hd | None => SOk end.
Proof.
  intros [hd|] H; unfold a_csi_aux; [|reflexivity].
  destruct (header_status hd); [|reflexivity|reflexivity].
  rewrite aw_guard_end, H. reflexivity.
Qed.

Lemma a_csi_bin_refines : forall lm b, aw_refines (a_csi_bin lm b) (w_csi_bin lm b).
Proof.
  intros lm b. apply aw_refines_guard. unfold w_csi_bin.
  apply aw_refines_seq; [apply aw_refines_u32|].
  apply aw_refines_seq; [apply aw_refines_u64|apply a_chunks_refines].
Qed.

Lemma a_csi_bin_end : forall lm b, len_fits i32_lim (length (snd b)) = true ->
  snd (a_csi_bin lm b) = bin_status b.
Proof.
  intros lm b H. unfold a_csi_bin, bin_status, id_fits, u32_lim. rewrite aw_guard_end.
  destruct (4294967296 <=? fst b); [reflexivity|]. cbn [negb].
  rewrite !aw_seq_end, (a_chunks_end _ _ H). reflexivity.
Qed.

Lemma a_csi_metadata_refines : forall d m,
  aw_refines (a_csi_metadata d m) (w_csi_meta d (Some m)).
Proof.
  intros d m. unfold a_csi_metadata, w_csi_meta, w_metadata_body.
  destruct (10 <? d)%nat; [apply aw_refines_fail; discriminate|].
  repeat (apply aw_refines_seq; [first [apply aw_refines_u32|apply aw_refines_u64]|]).
  apply aw_refines_u64.
Qed.

Lemma a_csi_ref_refines : forall d r, aw_refines (a_csi_ref d r) (w_csi_ref d r).
Proof.
  intros d r. apply aw_refines_guard. unfold w_csi_ref, n_bin_of.
  apply aw_refines_seq; [apply aw_refines_u32|].
  apply aw_refines_seq; [apply aw_refines_each; apply a_csi_bin_refines|].
  destruct (cr_meta r) as [md|]; [apply a_csi_metadata_refines|exact (aw_refines_ret [])].
Qed.

Lemma a_csi_ref_end : forall d r, csi_ref_fits r = true -> snd (a_csi_ref d r) = ref_status d r.
Proof.
  intros d r H. unfold csi_ref_fits in H.
  apply andb_prop in H as [H Hcs]. apply andb_prop in H as [Hn Hn1].
  unfold a_csi_ref, ref_status. rewrite aw_guard_end, Hn, Hn1. cbn [andb].
  rewrite !aw_seq_end, aw_each_end. cbn [a_u32 aw_ret snd sseq].
  replace (snd (a_opt_csi_metadata d (cr_meta r)))
    with (match cr_meta r with Some _ => if (10 <? d)%nat then SPanic else SOk | None => SOk end).
  2:{ destruct (cr_meta r); [|reflexivity]. unfold a_opt_csi_metadata, a_csi_metadata. destruct (10 <? d)%nat; reflexivity. }
  f_equal. apply fold_sseq_ext. intros b Hb. apply a_csi_bin_end.
  exact (proj1 (forallb_forall _ _) Hcs b Hb).
Qed.

Theorem async_csi_refines : forall i, aw_refines (async_csi i) (w_csi_bytes i).
Proof.
  intros i. unfold async_csi, w_csi_bytes. apply aw_refines_seq; [apply aw_refines_one|].
  apply aw_refines_seq; [apply aw_refines_u32|]. apply aw_refines_seq; [apply aw_refines_u32|].
  apply aw_refines_seq; [apply a_csi_aux_refines|].
  apply aw_refines_guard. apply aw_refines_seq; [apply aw_refines_u32|].
  apply aw_refines_seq; [apply aw_refines_each; apply a_csi_ref_refines|].
  exact (aw_refines_opt_u64 (ci_unplaced i)).
Qed.

Theorem async_csi_status : forall i, csi_fits i = true -> aw_end (async_csi i) = csi_status i.
Proof.
  intros i H. unfold csi_fits in H. apply andb_prop in H as [H Hr]. apply andb_prop in H as [Hh Hn].
  unfold aw_end, async_csi, csi_status.
  rewrite !aw_seq_end, aw_guard_end, Hn, !aw_seq_end, aw_each_end, (a_csi_aux_end _ Hh).
  rewrite a_opt_u64_end, sseq_ok_r. cbn [a_u32 aw_ret snd sseq]. f_equal.
  apply fold_sseq_ext. intros r Hin. apply a_csi_ref_end.
  exact (proj1 (forallb_forall _ _) Hr r Hin).
Qed.

(* ---------- tabix ---------- *)
Lemma a_col_refines : forall i, aw_refines (a_col i) (le32 (i + 1)).
Proof.
  intros i. unfold a_col. destruct (col_status i);
    [apply aw_refines_u32|apply aw_refines_fail; discriminate|apply aw_refines_fail; discriminate].
Qed.

Lemma a_col_end : forall i, snd (a_col i) = col_status i.
Proof. intros i. unfold a_col. destruct (col_status i); reflexivity. Qed.

Lemma a_tbx_end_refines : forall h,
  aw_refines (a_tbx_end h) (le32 (if is_samvcf (h_format h) then 0 else end_col h + 1)).
Proof.
  intros h. unfold a_tbx_end. destruct (is_samvcf (h_format h)); [|apply a_col_refines].
  destruct (h_end h); [apply aw_refines_fail; discriminate|apply aw_refines_u32].
Qed.

Lemma a_tbx_end_end : forall h, snd (a_tbx_end h) = end_status h.
Proof.
  intros h. unfold a_tbx_end, end_status. destruct (is_samvcf (h_format h)); [|apply a_col_end].
  destruct (h_end h); reflexivity.
Qed.

Lemma a_tbx_name_refines : forall n, aw_refines (a_tbx_name n) (w_name n).
Proof.
  intros n. apply aw_refines_guard. apply (aw_refines_eq _ _ _ (aw_refines_ret [n; [0]])).
  cbn [concat]. rewrite app_nil_r. reflexivity.
Qed.

Lemma a_tbx_names_refines : forall names, aw_refines (a_tbx_names names) (w_names names).
Proof.
  intros names. apply aw_refines_guard. apply aw_refines_seq; [apply aw_refines_u32|].
  apply aw_refines_each. exact a_tbx_name_refines.
Qed.

Lemma a_tbx_names_end : forall names, snd (a_tbx_names names) = names_status names.
Proof.
  intros names. unfold a_tbx_names, names_status. rewrite aw_guard_end.
  destruct (i32_max <? names_len names); [reflexivity|]. cbn [negb].
  rewrite aw_seq_end, aw_each_end. cbn [a_u32 aw_ret snd sseq].
  induction names as [|n r IH]; [reflexivity|].
  cbn [fold_right existsb]. unfold a_tbx_name at 1. rewrite aw_guard_end.
  destruct (has_nul n); [reflexivity|]. cbn [negb orb aw_ret snd sseq]. exact IH.
Qed.

Lemma a_tbx_header_refines : forall h, aw_refines (a_tbx_header h) (w_header h).
Proof.
  intros h. unfold a_tbx_header, w_header.
  apply aw_refines_seq; [apply aw_refines_u32|].
  apply aw_refines_seq; [apply a_col_refines|]. apply aw_refines_seq; [apply a_col_refines|].
  apply aw_refines_seq; [apply a_tbx_end_refines|]. apply aw_refines_seq; [apply aw_refines_u32|].
  apply aw_refines_seq; [apply aw_refines_guard; apply aw_refines_u32|].
  apply a_tbx_names_refines.
Qed.

Lemma a_tbx_header_end : forall h, snd (a_tbx_header h) = header_status h.
Proof.
  intros h. unfold a_tbx_header, header_status.
  rewrite !aw_seq_end, !a_col_end, a_tbx_end_end, a_tbx_names_end, aw_guard_end.
  cbn [a_u32 aw_ret snd sseq]. destruct (i32_max <? h_skip h); reflexivity.
Qed.

Theorem async_tbi_refines : forall i, aw_refines (async_tbi i) (w_tbi_bytes i).
Proof.
  intros i. unfold async_tbi, w_tbi_bytes. apply aw_refines_seq; [apply aw_refines_one|].
  apply aw_refines_guard. apply aw_refines_seq; [apply aw_refines_u32|].
  destruct (ti_header i) as [h|]; [|apply aw_refines_fail; discriminate].
  apply aw_refines_seq; [apply a_tbx_header_refines|].
  apply aw_refines_seq; [apply aw_refines_each; apply a_lin_ref_refines|].
  exact (aw_refines_opt_u64 (ti_unplaced i)).
Qed.

Theorem async_tbi_status : forall i, tbi_fits i = true -> aw_end (async_tbi i) = tbi_status i.
Proof.
  intros i H. unfold tbi_fits in H. apply andb_prop in H as [Hn Hr].
  unfold aw_end, async_tbi, tbi_status. rewrite aw_seq_end, aw_guard_end, Hn, aw_seq_end.
  cbn [a_u32 aw_ret snd sseq]. destruct (ti_header i) as [h|]; [|reflexivity].
  rewrite !aw_seq_end, aw_each_end, a_tbx_header_end, a_opt_u64_end, sseq_ok_r. f_equal.
  apply fold_sseq_ext. intros r Hin. apply a_lin_ref_end.
  exact (proj1 (forallb_forall _ _) Hr r Hin).
Qed.

(* ---------- over a sink with an arbitrary partial-write / Pending script ---------- *)
Theorem aw_sink_spec : forall a script,
  exists p lg, write_calls (mkASink [] script []) (aw_calls a)
               = (WriteAll.WOk, mkASink (aw_bytes a) p lg).
Proof.
  intros a script. destruct (write_calls_spec (aw_calls a) (mkASink [] script [])) as [p [lg E]].
  exists p, lg. exact E.
Qed.

(* the general shape: the write loops never fail; the sink holds the layout when the writer ends
   Ok and a prefix of it otherwise *)
Lemma aw_sink_refines : forall a full script, aw_refines a full ->
  exists sink p lg,
    write_calls (mkASink [] script []) (aw_calls a) = (WriteAll.WOk, mkASink sink p lg)
    /\ (aw_end a = SOk -> sink = full)
    /\ (exists rest, full = sink ++ rest).
Proof.
  intros a full script [Hok Hpre]. destruct (aw_sink_spec a script) as [p [lg E]].
  exists (aw_bytes a), p, lg. split; [exact E|]. split; [exact Hok|exact Hpre].
Qed.

Theorem async_gzi_writer_sink_equals_sync_bytes : forall idx script,
  exists p lg,
    write_calls (mkASink [] script []) (aw_calls (async_gzi idx)) = (WriteAll.WOk, mkASink (w_gzi idx) p lg)
    /\ aw_end (async_gzi idx) = SOk.
Proof.
  intros idx script. destruct (aw_sink_spec (async_gzi idx) script) as [p [lg E]].
  rewrite async_gzi_bytes in E. exists p, lg. split; [exact E|apply async_gzi_end].
Qed.

Theorem async_bai_writer_sink_equals_sync_bytes : forall i script,
  exists sink p lg,
    write_calls (mkASink [] script []) (aw_calls (async_bai i)) = (WriteAll.WOk, mkASink sink p lg)
    /\ (aw_end (async_bai i) = SOk -> sink = w_bai i)
    /\ (exists rest, w_bai i = sink ++ rest)
    /\ (bai_fits i = true -> aw_end (async_bai i) = bai_status i).
Proof.
  intros i script.
  destruct (aw_sink_refines _ _ script (async_bai_refines i)) as [sink [p [lg [E [Hok Hpre]]]]].
  exists sink, p, lg. repeat split; [exact E|exact Hok|exact Hpre|apply async_bai_status].
Qed.

Theorem async_csi_writer_sink_equals_sync_bytes : forall i script,
  exists sink p lg,
    write_calls (mkASink [] script []) (aw_calls (async_csi i)) = (WriteAll.WOk, mkASink sink p lg)
    /\ (aw_end (async_csi i) = SOk -> sink = w_csi_bytes i)
    /\ (exists rest, w_csi_bytes i = sink ++ rest)
    /\ (csi_fits i = true -> aw_end (async_csi i) = csi_status i).
Proof.
  intros i script.
  destruct (aw_sink_refines _ _ script (async_csi_refines i)) as [sink [p [lg [E [Hok Hpre]]]]].
  exists sink, p, lg. repeat split; [exact E|exact Hok|exact Hpre|apply async_csi_status].
Qed.

Theorem async_tbi_writer_sink_equals_sync_bytes : forall i script,
  exists sink p lg,
    write_calls (mkASink [] script []) (aw_calls (async_tbi i)) = (WriteAll.WOk, mkASink sink p lg)
    /\ (aw_end (async_tbi i) = SOk -> sink = w_tbi_bytes i)
    /\ (exists rest, w_tbi_bytes i = sink ++ rest)
    /\ (tbi_fits i = true -> aw_end (async_tbi i) = tbi_status i).
Proof.
  intros i script.
  destruct (aw_sink_refines _ _ script (async_tbi_refines i)) as [sink [p [lg [E [Hok Hpre]]]]].
  exists sink, p, lg. repeat split; [exact E|exact Hok|exact Hpre|apply async_tbi_status].
Qed.

(* in C17's terms: when C17's sync writer result is `WOk bs` (w_csi / w_tbi) and the counts fit,
   the async writer ends Ok and the sink holds exactly bs *)
Corollary async_csi_writer_ok_sink : forall i script bs,
  csi_fits i = true -> w_csi i = CsiLayout.WOk bs ->
  exists p lg, write_calls (mkASink [] script []) (aw_calls (async_csi i)) = (WriteAll.WOk, mkASink bs p lg).
Proof.
  intros i script bs Hf Hw. unfold w_csi in Hw.
  destruct (async_csi_writer_sink_equals_sync_bytes i script) as [sink [p [lg [E [Hok [_ Hst]]]]]].
  rewrite (Hst Hf) in Hok. destruct (csi_status i) eqn:Es; cbn [mkres] in Hw; try discriminate.
  injection Hw as Hw. exists p, lg. rewrite <- Hw, <- (Hok eq_refl). exact E.
Qed.

Corollary async_tbi_writer_ok_sink : forall i script bs,
  tbi_fits i = true -> w_tbi i = CsiLayout.WOk bs ->
  exists p lg, write_calls (mkASink [] script []) (aw_calls (async_tbi i)) = (WriteAll.WOk, mkASink bs p lg).
Proof.
  intros i script bs Hf Hw. unfold w_tbi in Hw.
  destruct (async_tbi_writer_sink_equals_sync_bytes i script) as [sink [p [lg [E [Hok [_ Hst]]]]]].
  rewrite (Hst Hf) in Hok. destruct (tbi_status i) eqn:Es; cbn [mkres] in Hw; try discriminate.
  injection Hw as Hw. exists p, lg. rewrite <- Hw, <- (Hok eq_refl). exact E.
Qed.

(* the entry points of the correspondence driver are these very objects *)
Lemma idxw_bai_case_spec : forall i,
  io_bytes (idxw_bai_case i) = aw_bytes (async_bai i) /\ io_end (idxw_bai_case i) = status_code (aw_end (async_bai i))
  /\ io_calls (idxw_bai_case i) = map (@length N) (aw_calls (async_bai i))
  /\ io_sync (idxw_bai_case i) = w_bai i /\ io_sync_end (idxw_bai_case i) = status_code (bai_status i).
Proof. intros i. repeat split. Qed.
