(* C16 -- the sync FASTA record stream has, for every delivery script, the closed form of the async
   one: the sync read_sequence (C12's scanner) also leaves the reader at [seq_rest]. *)
From Coq Require Import List NArith Arith Bool Lia.
From NV Require Import Io.Source Io.ReadExact Io.ReadExactProofs Io.BufReader Io.BufReaderProofs
  Io.FastaScan Io.FastaScanProofs Io.Run Io.RunProofs.
From NV Require Import Async.ReadExact Async.ReadExactProofs Async.Lines Async.LinesProofs
  Async.FastaRecords Async.FastaRecordsProofs Async.FastaRecordsSync.
From NV Require Fasta.Layout Fasta.Reader.
Import ListNotations.

Lemma rest_skip_nolf : forall k d, has_byte LF (firstn k d) = false -> seq_rest MID d = seq_rest MID (skipn k d).
Proof.
  induction k as [|k IH]; intros d H; [reflexivity|].
  destruct d as [|x d]; [reflexivity|]. cbn [firstn has_byte existsb] in H.
  apply orb_false_iff in H. destruct H as [Hx Hd]. rewrite N.eqb_sym in Hx.
  cbn [skipn seq_rest]. rewrite Hx. apply IH. exact Hd.
Qed.

Lemma has_byte_firstn : forall k l, has_byte LF l = false -> has_byte LF (firstn k l) = false.
Proof.
  induction k as [|k IH]; intros l H; [reflexivity|]. destruct l as [|x l]; [reflexivity|].
  cbn [firstn has_byte existsb] in *. apply orb_false_iff in H. destruct H as [Hx Hl].
  rewrite Hx. cbn [orb]. apply IH. exact Hl.
Qed.

Lemma firstn_prefix_le : forall (l d : list N) k, l = firstn (length l) d -> k <= length l -> firstn k d = firstn k l.
Proof.
  intros l d k Hp Hk. rewrite Hp. rewrite firstn_firstn. f_equal. lia.
Qed.

Section Generic.
  Context {S : Type}.
  Variable rd : reader S.
  Variable Rep : S -> list N -> nat -> Prop.
  Hypothesis Hsim : simulates rd Rep.
  Variable cap : nat.
  Hypothesis Hcap : 1 <= cap.

  Notation repb st d m := (rep_buf Rep st d m).

  (* one fill_buf followed by consume(whole slice): where the reader stands *)
  Lemma step_rest : forall fuel ib p st d m,
    repb st d m -> (p = true -> ib = false) -> mu m d p < fuel ->
    exists piece s' ib2 p2 st2 d2 m2,
      seq_fill_buf rd cap fuel ib p st = (SOk, piece, s')
      /\ seq_consume (length piece) s' = (ib2, p2, st2)
      /\ repb st2 d2 m2 /\ (p2 = true -> ib2 = false) /\ m2 <= m
      /\ seq_rest (lst ib) d = seq_rest (lst ib2) d2
      /\ (piece = [] -> d2 = seq_rest (lst ib) d)
      /\ (piece <> [] -> mu m2 d2 p2 < mu m d p).
  Proof.
    induction fuel as [|fuel IH]; intros ib p st d m HR Hinv Hf; [lia|].
    cbn [seq_fill_buf].
    pose proof (br_fill_buf_spec rd Rep Hsim cap Hcap st d m HR) as Hfb.
    destruct (br_fill_buf rd cap st) as [[src|] st1].
    2:{ destruct Hfb as [m1 [Hm1 HR1]].
        destruct (IH ib p st1 d m1 HR1 Hinv ltac:(unfold mu in *; lia))
          as [piece [s' [ib2 [p2 [st2 [d2 [m2 [E [Ec [HR2 [Hi2 [Hm2 [Hs [Hfin Hmu]]]]]]]]]]]]]].
        exists piece, s', ib2, p2, st2, d2, m2.
        split; [exact E|]. split; [exact Ec|]. split; [exact HR2|]. split; [exact Hi2|]. split; [lia|].
        split; [exact Hs|]. split; [exact Hfin|].
        intros Hne. specialize (Hmu Hne). unfold mu in *. lia. }
    destruct Hfb as [Hpre [Hne [Hfst [m1 [Hm1 HR1]]]]].
    destruct (p && match src with x :: _ => negb (N.eqb x LF) | [] => false end) eqn:Hpend.
    - apply andb_true_iff in Hpend. destruct Hpend as [Hp Hx]. subst p.
      rewrite (Hinv eq_refl) in *.
      destruct src as [|x w']; [discriminate|].
      destruct (prefix_cons x w' d Hpre) as [r Hd]. subst d.
      exists [CR], (false, true, st1), false, false, st1, (x :: r), m1.
      split; [reflexivity|]. split; [reflexivity|]. split; [exact HR1|].
      split; [intros H; discriminate|]. split; [exact Hm1|]. split; [reflexivity|].
      split; [intros H; discriminate|]. intros _. unfold mu. lia.
    - destruct src as [|b w'].
      + assert (d = []) by (destruct d; [reflexivity|exfalso; apply Hne; [discriminate|reflexivity]]).
        subst d. exists [], (ib, false, st1), ib, false, st1, [], m1.
        split; [reflexivity|]. split; [reflexivity|]. split; [exact HR1|].
        split; [intros H; discriminate|]. split; [exact Hm1|]. split; [reflexivity|].
        split; [intros _; destruct ib; reflexivity|]. intros H; congruence.
      + destruct (prefix_cons b w' d Hpre) as [r Hd]. subst d.
        set (src := b :: w') in *.
        destruct (N.eqb b LF || (ib && N.eqb b CR)) eqn:Hnl.
        * assert (HR2 : repb (br_consume 1 st1) r m1).
          { change r with (skipn 1 (b :: r)). apply (consume_k Rep st1 src); auto. unfold src. cbn [length]. lia. }
          destruct (IH true false _ r m1 HR2 ltac:(intros H; discriminate)
                      ltac:(unfold mu in *; cbn [length] in *; destruct p; lia))
            as [piece [s' [ib2 [p2 [st2 [d2 [m2 [E [Ec [HR3 [Hi2 [Hm2 [Hs [Hfin Hmu]]]]]]]]]]]]]].
          assert (Hr : seq_rest (lst ib) (b :: r) = seq_rest BOL r).
          { cbn [seq_rest]. destruct (N.eqb b LF) eqn:Hl; [destruct ib; reflexivity|].
            cbn [orb] in Hnl. apply andb_true_iff in Hnl. destruct Hnl as [Hib Hc].
            subst ib. unfold lst. apply N.eqb_eq in Hc. subst b.
            change (N.eqb CR GT) with false. cbv iota. change (N.eqb CR CR) with true. reflexivity. }
          exists piece, s', ib2, p2, st2, d2, m2.
          split; [exact E|]. split; [exact Ec|]. split; [exact HR3|]. split; [exact Hi2|]. split; [lia|].
          split; [rewrite Hr; exact Hs|]. split; [rewrite Hr; exact Hfin|].
          intros Hn. specialize (Hmu Hn). unfold mu in *. cbn [length] in *. destruct p; lia.
        * apply orb_false_iff in Hnl. destruct Hnl as [Hl Hbc].
          destruct (ib && N.eqb b GT) eqn:Hgt.
          -- apply andb_true_iff in Hgt. destruct Hgt as [Hib Hg]. subst ib.
             apply N.eqb_eq in Hg. subst b.
             exists [], (true, false, st1), true, false, st1, (GT :: r), m1.
             split; [reflexivity|]. split; [reflexivity|]. split; [exact HR1|].
             split; [intros H; discriminate|]. split; [exact Hm1|]. split; [reflexivity|].
             split; [|intros H; congruence].
             intros _. unfold lst. cbn [seq_rest]. change (N.eqb GT LF) with false. cbv iota.
             change (N.eqb GT GT) with true. reflexivity.
          -- assert (Hline : until_lf src <> []).
             { unfold src. cbn [until_lf]. rewrite Hl. discriminate. }
             pose proof (until_lf_prefix src (b :: r) Hpre) as Hlp.
             pose proof (until_lf_no_lf src) as Hnolf.
             assert (Hmid : seq_rest (lst ib) (b :: r) = seq_rest MID (b :: r)).
             { rewrite (rest_enter ib b r Hl Hgt Hbc). cbn [seq_rest]. rewrite Hl. reflexivity. }
             destruct (strip_cr (until_lf src)) as [|q piece'] eqn:Hsc.
             ++ pose proof (strip_cr_nil _ Hline Hsc) as Hcr.
                assert (Hb : b = CR).
                { unfold src in Hcr. cbn [until_lf] in Hcr. rewrite Hl in Hcr. injection Hcr as Hb _. exact Hb. }
                subst b.
                assert (Hib : ib = false).
                { destruct ib; [|reflexivity]. cbn [andb] in Hbc. discriminate. }
                subst ib.
                assert (HR2 : repb (br_consume 1 st1) r m1).
                { change r with (skipn 1 (CR :: r)). apply (consume_k Rep st1 src); auto. unfold src. cbn [length]. lia. }
                destruct (IH false true _ r m1 HR2 ltac:(auto)
                            ltac:(unfold mu in *; cbn [length] in *; destruct p; lia))
                  as [piece [s' [ib2 [p2 [st2 [d2 [m2 [E [Ec [HR3 [Hi2 [Hm2 [Hs [Hfin Hmu]]]]]]]]]]]]]].
                assert (Hr : seq_rest (lst false) (CR :: r) = seq_rest (lst false) r).
                { unfold lst. cbn [seq_rest]. change (N.eqb CR LF) with false. reflexivity. }
                exists piece, s', ib2, p2, st2, d2, m2.
                split; [exact E|]. split; [exact Ec|]. split; [exact HR3|]. split; [exact Hi2|]. split; [lia|].
                split; [rewrite Hr; exact Hs|]. split; [rewrite Hr; exact Hfin|].
                intros Hn. specialize (Hmu Hn). unfold mu in *. cbn [length] in *. destruct p; lia.
             ++ set (piece := q :: piece') in *.
                assert (Hplen : length piece <= length (until_lf src)).
                { rewrite <- Hsc. apply strip_cr_length. }
                assert (Hplen2 : length piece <= length src).
                { pose proof (until_lf_length src). lia. }
                exists piece, (ib, false, st1), false, false, (br_consume (length piece) st1),
                       (skipn (length piece) (b :: r)), m1.
                split; [reflexivity|]. split; [reflexivity|].
                split; [apply (consume_k Rep st1 src); auto|]. split; [intros H; discriminate|].
                split; [exact Hm1|]. split.
                ** rewrite Hmid. unfold lst. apply rest_skip_nolf.
                   rewrite (firstn_prefix_le (until_lf src) (b :: r) (length piece) Hlp Hplen).
                   apply has_byte_firstn. exact Hnolf.
                ** split; [intros H; discriminate|].
                   intros _. unfold mu. rewrite skipn_length.
                   unfold piece. cbn [length]. destruct p; lia.
  Qed.

  (* the sync read_sequence: the sequence (C12) AND where it leaves the reader *)
  Theorem read_sequence_rest : forall fuel ib p st d m acc,
    repb st d m -> (p = true -> ib = false) -> mu m d p < fuel ->
    exists ib' p' st' m',
      read_sequence rd cap fuel (ib, p, st) acc = (SOk, acc ++ spec ib p d, (ib', p', st'))
      /\ repb st' (seq_rest (lst ib) d) m' /\ m' <= m.
  Proof.
    induction fuel as [|fuel IH]; intros ib p st d m acc HR Hinv Hf; [lia|].
    destruct (read_sequence_spec rd Rep Hsim cap Hcap (Datatypes.S fuel) ib p st d m acc HR Hinv Hf) as [sf Esf].
    cbn [read_sequence] in *.
    destruct (step_rest (Datatypes.S fuel) ib p st d m HR Hinv ltac:(lia))
      as [piece [s' [ib2 [p2 [st2 [d2 [m2 [E [Ec [HR2 [Hi2 [Hm2 [Hs [Hfin Hmu]]]]]]]]]]]]]].
    rewrite E in *. destruct piece as [|q piece'].
    - cbn [length seq_consume] in Ec. subst s'. injection Esf as Eacc Es.
      exists ib2, p2, st2, m2. split; [rewrite <- Eacc; reflexivity|]. split; [|exact Hm2].
      rewrite <- (Hfin eq_refl). exact HR2.
    - rewrite Ec in *.
      destruct (IH ib2 p2 st2 d2 m2 (acc ++ q :: piece') HR2 Hi2) as [ib' [p' [st' [m' [Ef [HR' Hm']]]]]].
      { assert (mu m2 d2 p2 < mu m d p) by (apply Hmu; discriminate). lia. }
      rewrite Ef in Esf. injection Esf as Hacc _. exists ib', p', st', m'.
      split; [|split; [rewrite Hs; exact HR'|lia]].
      rewrite Ef, Hacc. reflexivity.
  Qed.

  Variable fuelf : bstate S -> nat.
  Hypothesis Hfuel : forall st d m, repb st d m -> m + 2 * length d + 1 < fuelf st.

  Theorem s_fasta_records_spec : forall k st d m, repb st d m ->
    exists st', s_fasta_records rd cap fuelf k st = (fasta_records_closed k d, st').
  Proof.
    induction k as [|k IH]; intros st d m HR; [exists st; reflexivity|].
    cbn [s_fasta_records fasta_records_closed].
    destruct (read_line_spec rd Rep Hsim cap Hcap (fuelf st) st d m HR ltac:(pose proof (Hfuel st d m HR); lia))
      as [st1 [m1 [E1 [HR1 Hm1]]]].
    rewrite E1. destruct d as [|x d'].
    - cbn [take_line length]. exists st1. reflexivity.
    - set (d := x :: d') in *.
      assert (Hn : length (take_line LF d) <> 0).
      { unfold d. cbn [take_line]. destruct (N.eqb x LF); cbn [length]; lia. }
      destruct (length (take_line LF d)) as [|n0] eqn:En; [congruence|].
      destruct (Layout.parse_def (strip_eol (take_line LF d))) as [[nm ds]|]; [|exists st1; reflexivity].
      rewrite <- En in HR1.
      destruct (read_sequence_rest (fuelf st1) true false st1 _ m1 [] HR1 ltac:(intros H; discriminate)
                  ltac:(pose proof (Hfuel st1 _ m1 HR1); unfold mu; lia))
        as [ib' [p' [st2 [m2 [E2 [HR2 Hm2]]]]]].
      rewrite E2. cbn [app]. unfold spec, lst in *. rewrite <- En.
      destruct (IH st2 _ m2 HR2) as [st3 E3]. rewrite E3.
      destruct (fasta_records_closed k (seq_rest BOL (skipn (length (take_line LF d)) d))) as [rs e].
      exists st3. reflexivity.
  Qed.
End Generic.

Lemma sb_fuel2_ok : forall st d m, rep_buf rep_src st d m -> m + 2 * length d + 1 < sb_fuel2 st.
Proof.
  intros [buf s] d m [d' [Hd [Hs Hm]]]. cbn [fst snd] in *. subst d m d'.
  unfold sb_fuel2. cbn [fst snd]. rewrite app_length. lia.
Qed.

(* the sync record stream under EVERY delivery script and capacity = the closed form *)
Theorem sync_fasta_records_closed : forall cap sc data, 1 <= cap ->
  sync_fasta_records_run cap (mkSource data sc) = closed_fasta_records_case data.
Proof.
  intros cap sc data Hcap. unfold sync_fasta_records_run, closed_fasta_records_case. cbn [s_data].
  destruct (s_fasta_records_spec src_read rep_src src_simulates cap Hcap sb_fuel2 sb_fuel2_ok
              (Datatypes.S (length data)) ([], mkSource data sc) data (n_interrupted sc)
              (rep_src_buf_start data sc)) as [st' E].
  rewrite E. reflexivity.
Qed.

(* async = sync: names, descriptions, sequences and the ending, for every poll script and capacity
   of the async reader and every delivery script and capacity of the sync reader *)
Theorem async_fasta_records_equal_sync : forall cap cap' codes sc data, 1 <= cap -> 1 <= cap' ->
  fst (async_fasta_records_case cap codes data) = sync_fasta_records_run cap' (mkSource data sc).
Proof.
  intros cap cap' codes sc data Hcap Hcap'.
  rewrite (async_fasta_records_closed cap codes data Hcap).
  rewrite (sync_fasta_records_closed cap' sc data Hcap'). reflexivity.
Qed.
