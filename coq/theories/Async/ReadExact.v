(* C16 -- awaited reads over a poll script, and the async read_exact family built on them.

   An async source is the data still to be delivered plus a poll script; each poll of
   AsyncRead::poll_read consumes one event (harness/src/shared/c16_adversary.rs::AdvReader):
     PPending   the poll returns Pending (the task is woken and polls again)
     PReady k   the poll transfers min (max k 1) (buffer length) (remaining) bytes
   With the script exhausted a poll transfers everything asked for.  `reader.read(buf).await`
   polls until a poll is Ready: [aread].  It is a [reader] in the sense of NV.Io.Source (C12), so
   C12's loops run on it unchanged:
     fill_loop / read_exact       = tokio's read_exact (poll_read until the buffer is full;
                                    0 bytes -> UnexpectedEof)
     read_exact_or_eof            = noodles-bam / noodles-bcf async/io/reader/record.rs::read_exact_or_eof
   and [drain_loop] is `reader.take(n).read_to_end(buf)` (the record body): reads of ANY sizes
   [req] between 1 and the bytes still allowed, until n bytes have arrived or the source ends. *)
From Coq Require Import List NArith Arith Bool.
From NV Require Import Io.Source Io.ReadExact Io.Run.
Import ListNotations.

Inductive pevent := PPending | PReady (k : nat).

Record asource := mkASource { a_data : list N; a_polls : list pevent }.

Fixpoint await_read (polls : list pevent) (data : list N) (n : nat) : rres * asource :=
  match polls with
  | [] => (ROk (firstn n data), mkASource (skipn n data) [])
  | PPending :: p => await_read p data n
  | PReady k :: p =>
      let m := Nat.min (Nat.max k 1) n in
      (ROk (firstn m data), mkASource (skipn m data) p)
  end.

Definition aread : reader asource := fun s n => await_read (a_polls s) (a_data s) n.

Section Drain.
  Context {S : Type}.
  Variable rd : reader S.
  Variable req : nat -> nat.   (* the size read_to_end asks for at each step (capped by the limit) *)

  Fixpoint drain_loop (fuel : nat) (s : S) (n : nat) (acc : list N) : list N * fill_end * S :=
    match n with
    | 0 => (acc, Filled, s)
    | _ =>
      match fuel with
      | 0 => (acc, OutOfFuel, s)
      | Datatypes.S fuel' =>
        match rd s (Nat.min n (Nat.max 1 (req fuel))) with
        | (RInt, s') => drain_loop fuel' s' n acc
        | (ROk [], s') => (acc, HitEof, s')
        | (ROk bs, s') => drain_loop fuel' s' (n - length bs) (acc ++ bs)
        end
      end
    end.

  (* noodles-bam async/io/reader/record.rs::read_record over an uncompressed record stream *)
  Definition a_bam_read_record (fuelf : S -> nat -> nat) (s : S) : rec_res * S :=
    match read_exact_or_eof rd (fuelf s 4) s 4 with
    | (_, ENoFuel, s1) => (RecNoFuel, s1)
    | (_, EPartial, s1) => (RecUnexpectedEof, s1)
    | (_, ENothing, s1) => (RecOk 0, s1)
    | (b4, EFull, s1) =>
        let n := le_val b4 in
        if (n =? 0)%N then (RecOk 0, s1)
        else
          match drain_loop (fuelf s1 (N.to_nat n)) s1 (N.to_nat n) [] with
          | (body, Filled, s2) => (if bam_validate body then RecOk n else RecUnexpectedEof, s2)
          | (_, HitEof, s2) => (RecUnexpectedEof, s2)
          | (_, OutOfFuel, s2) => (RecNoFuel, s2)
          end
    end.

  Fixpoint a_bam_read_records (fuelf : S -> nat -> nat) (k : nat) (s : S) : list rec_res * S :=
    match k with
    | 0 => ([], s)
    | Datatypes.S k' =>
      match a_bam_read_record fuelf s with
      | (RecOk n, s') =>
          if (n =? 0)%N then ([RecOk n], s')
          else let '(l, s'') := a_bam_read_records fuelf k' s' in (RecOk n :: l, s'')
      | (r, s') => ([r], s')
      end
    end.
End Drain.

Definition a_fuel (s : asource) (n : nat) : nat := n + 2.

(* ---- entry points of the correspondence driver ------------------------------------------ *)
Definition polls_of (codes : list nat) : list pevent :=
  map (fun c => match c with O => PPending | Datatypes.S k => PReady k end) codes.

(* a sequence of tokio read_exact calls *)
Definition async_rx_case (codes : list nat) (data : list N) (sizes : list nat) : list (list N * xres) :=
  fst (read_exact_seq aread a_fuel (mkASource data (polls_of codes)) sizes).

(* up to k records through the async BAM record framing; read_to_end asks for [chunk] bytes *)
Definition async_bam_case (codes : list nat) (chunk : nat) (data : list N) (k : nat) : list rec_res :=
  fst (a_bam_read_records aread (fun _ => chunk) a_fuel k (mkASource data (polls_of codes))).

Definition sync_bam_case (data : list N) (k : nat) : list rec_res :=
  fst (bam_read_records k (mkSource data [])).
