(* C16 -- the async lazy SAM / VCF record readers:
     noodles-sam/src/async/io/reader/record.rs::read_record
        buf.clear(); if reader.read_until(LF, buf).await? == 0 { return Ok(0) }
        let mut src = &buf[..]; crate::io::reader::read_record(&mut src, record)
     noodles-vcf/src/async/io/reader/record.rs::read_record
        buf.clear(); if reader.read_line(buf).await? == 0 { return Ok(0) }    (tokio read_line:
        read_until(LF) + from_utf8 of the line -> InvalidData)
        let mut buf = buf.as_bytes(); crate::io::reader::record::read_record(&mut buf, record)
   i.e. the whole line is fetched first and the SYNC field scanner (C12's d_sam_read_record /
   d_vcf_read_record) then runs over the line as a slice reader.  `&[u8]` as BufRead: fill_buf
   returns what is left, consume advances = C12's BufReader state (slice, _) over a reader that has
   nothing more to give ([null_rd]). *)
From Coq Require Import List NArith Arith Bool.
From NV Require Import Io.Source Io.ReadExact Io.BufReader Io.FastaScan Io.BedRead Io.TabRead Io.Run.
From NV Require Import Async.ReadExact Async.Lines.
From NV Require Text.TextBase Fasta.Fastq.
Import ListNotations.

Definition null_rd : reader unit := fun _ _ => (ROk [], tt).
Definition slice_fuel (line : list N) : nat := length line + 3.

Section ATab.
  Context {S : Type}.
  Variable rd : reader S.
  Variable cap : nat.

  Definition a_sam_read_record (fuel : nat) (st : bstate S)
    : TextBase.res nat * list N * list nat * bstate S :=
    match read_until rd cap LF fuel st with
    | (_, UNoFuel, st1) => (TextBase.Err TextBase.OutOfFuel, [], [], st1)
    | ([], UOk, st1) => (TextBase.Ok 0, [], [], st1)
    | (line, UOk, st1) =>
        match d_sam_read_record null_rd 1 (slice_fuel line) (line, tt) with
        | (r, b, e, _) => (r, b, e, st1)
        end
    end.

  Definition a_vcf_read_record (fuel : nat) (st : bstate S)
    : TextBase.res nat * list N * list nat * bstate S :=
    match read_until rd cap LF fuel st with
    | (_, UNoFuel, st1) => (TextBase.Err TextBase.OutOfFuel, [], [], st1)
    | ([], UOk, st1) => (TextBase.Ok 0, [], [], st1)
    | (line, UOk, st1) =>
        if Fastq.utf8_valid line then
          match d_vcf_read_record null_rd 1 (slice_fuel line) (line, tt) with
          | (r, b, e, _) => (r, b, e, st1)
          end
        else (TextBase.Err TextBase.InvalidData, [], [], st1)
    end.
End ATab.

(* read_record until Ok(0) or the first error, over the async source *)
Definition a_run_sam_records (cap : nat) (st : abuf) :=
  tab_loop (fun s => a_sam_read_record aread cap (ab_fuel s) s) (Datatypes.S (ab_left st)) st.
Definition a_run_vcf_records (cap : nat) (st : abuf) :=
  tab_loop (fun s => a_vcf_read_record aread cap (ab_fuel s) s) (Datatypes.S (ab_left st)) st.

(* what is compared: the record (buffer, field ends) of a call that returned Ok(0) is not looked at
   (sync clears it, async leaves the previous one) *)
Definition tab_norm (x : TextBase.res nat * list N * list nat) : TextBase.res nat * list N * list nat :=
  match fst (fst x) with
  | TextBase.Ok 0 => (TextBase.Ok 0, [], [])
  | _ => x
  end.

(* ---- entry points of the correspondence driver (kinds asam / avcf): the views of C12 *)
Definition a_tab_obs (total : nat) (x : list (TextBase.res nat * list N * list nat) * abuf)
  : list (cres nat * list N * list nat) * nat :=
  (map (fun e => (of_text_res (fst (fst e)), snd (fst e), snd e)) (fst x), total - ab_left (snd x)).

Definition async_sam_view_case (cap : nat) (codes : list nat) (data : list N) :=
  let '(l, pos) := a_tab_obs (length data) (a_run_sam_records cap (ab_start data codes)) in
  (map (fun x => (fst (fst x), sam_view (snd (fst x)) (snd x))) l, pos).
Definition async_vcf_view_case (cap : nat) (codes : list nat) (data : list N) :=
  let '(l, pos) := a_tab_obs (length data) (a_run_vcf_records cap (ab_start data codes)) in
  (map (fun x => (fst (fst x), vcf_view (snd (fst x)) (snd x))) l, pos).
Definition sync_sam_view_case (data : list N) := run_sam_view_obs 64 (mkSource data []).
Definition sync_vcf_view_case (data : list N) := run_vcf_view_obs 64 (mkSource data []).
