(* C16 -- the POLLED seek of the async BGZF reader (noodles-bgzf/src/async/io/reader.rs
   Reader::poll_seek, reader/inflater.rs Inflater::poll_seek), the path used by the async
   csi / tabix query readers of BAM, BCF, VCF and SAM, over a seekable source whose
   AsyncSeek::poll_complete may return Pending at EVERY call -- also at the call made before
   start_seek, when no seek is in flight (the source is still busy with an earlier operation,
   e.g. a tokio File with a read in flight).

     source      { pos, seek_to }:  start_seek(t) records the target;  poll_complete: Pending
                 changes nothing; Ready moves pos to the recorded target (if any) and returns pos
     Inflater::poll_seek(cpos), one poll:
                 if !is_seeking { ready!(poll_complete); start_seek(cpos); is_seeking = true }
                 ready!(poll_complete); is_seeking = false; clear FramedRead's buffer; Ready
     Reader::poll_seek   Init -> Seek(inflater): re-polled until Inflater::poll_seek is Ready;
                 position = cpos; new TryBuffered -> Finish: blocks are taken until one has data
                 (as in `async fn seek`, NV.Async.Reader.a_seek); next call starts a new seek.

   A poll script is a list of booleans, one per poll_complete call (true = Pending); when it is
   exhausted every call is Ready.  What matters for the reader is WHERE THE SOURCE IS when the new
   pipeline starts decoding frames: [a_seek_at] is a_seek with that offset explicit, so a seek
   that reports success without having moved the source is expressible (and refuted). *)
From Coq Require Import List NArith Bool Arith.
From NV Require Import Bgzf.Vpos Bgzf.Gzi Bgzf.ReaderOps Io.Sched Async.Reader.
Import ListNotations.
Open Scope N_scope.

Record src := mkSrc { sp_pos : N; sp_target : option N }.

Definition src_start_seek (s : src) (t : N) : src := mkSrc (sp_pos s) (Some t).

(* None = Pending *)
Definition src_poll_complete (s : src) (pending : bool) : option N * src :=
  if pending then (None, s)
  else match sp_target s with
       | Some t => (Some t, mkSrc t None)
       | None => (Some (sp_pos s), s)
       end.

Record infl := mkInfl { i_src : src; i_seeking : bool }.

Definition next_ev (sc : list bool) : bool * list bool :=
  match sc with [] => (false, []) | b :: r => (b, r) end.

(* one poll of Inflater::poll_seek: (Ready?, state, rest of the script) *)
Definition infl_poll_seek (i : infl) (c : N) (sc : list bool) : bool * infl * list bool :=
  let '(i1, sc1, go) :=
    if i_seeking i then (i, sc, true)
    else
      let '(p, sc') := next_ev sc in
      match src_poll_complete (i_src i) p with
      | (None, s') => (mkInfl s' false, sc', false)
      | (Some _, s') => (mkInfl (src_start_seek s' c) true, sc', true)
      end in
  if go then
    let '(p, sc2) := next_ev sc1 in
    match src_poll_complete (i_src i1) p with
    | (None, s2) => (false, mkInfl s2 (i_seeking i1), sc2)
    | (Some _, s2) => (true, mkInfl s2 false, sc2)
    end
  else (false, i1, sc1).

(* Reader::poll_seek in state Seek: the task polls again after every Pending *)
Fixpoint infl_seek (fuel : nat) (i : infl) (c : N) (sc : list bool) : option infl :=
  match fuel with
  | O => None
  | S k =>
      let '(rdy, i', sc') := infl_poll_seek i c sc in
      if rdy then Some i' else infl_seek k i' c sc'
  end.

Section PollSeek.
  Variables (W P : nat) (sch : nat -> list act).

  (* a_seek with the offset the source is at made explicit *)
  Definition a_seek_at (f : file) (s : pst) (v : N) (at_ : N) : pst * res N :=
    let c := vcomp v in
    let u := vuncomp v in
    match drop_to f 0 at_ with
    | None => (s, Unmodelled)
    | Some r =>
        let s0 : pst := Sched.init (mkRdr false c (r_blk (cs s)) (pulls (cs s))) r in
        let s1 := pull W P sch s0 in
        let c1 := cs s1 in
        let b := if want c1 then mkBlk (r_position c1) 0 [] 0 else r_blk c1 in
        let b' := mkBlk (k_pos b) (k_size b) (k_data b) (N.min u (len (k_data b))) in
        (with_rdr s1 (mkRdr false (r_position c1) b' (pulls c1)), Ok v)
    end.

  (* the polled seek from a source at offset [src_at] under poll script [sc] *)
  Definition a_poll_seek (f : file) (s : pst) (v : N) (src_at : N) (sc : list bool) : pst * res N :=
    match infl_seek (S (length sc)) (mkInfl (mkSrc src_at None) false) (vcomp v) sc with
    | None => (s, OutOfFuel)
    | Some i => a_seek_at f s v (sp_pos (i_src i))
    end.

  (* reader ops + the polled seek *)
  Inductive xop := XOp (o : op) | XPollSeek (v : N) (sc : list bool).

  Definition erase (o : xop) : op := match o with XOp o' => o' | XPollSeek v _ => Seek v end.

  (* where the source is before a seek: FramedRead has read ahead to some offset at or after the
     frames decoded so far; the value used here is immaterial (PollSeekProofs.infl_seek_lands
     holds for every starting offset) *)
  Definition src_offset (s : pst) : N := r_position (cs s).

  Definition a_xstep (f : file) (idx : gzi_index) (s : pst) (o : xop) : pst * out :=
    match o with
    | XOp o' => a_step W P sch f idx s o'
    | XPollSeek v sc => let '(s', r) := a_poll_seek f s v (src_offset s) sc in (s', OPos r)
    end.

  Fixpoint a_xrun (f : file) (idx : gzi_index) (s : pst) (ops : list xop) : list (out * res N) :=
    match ops with
    | [] => []
    | o :: r =>
        let '(s', x) := a_xstep f idx s o in
        (x, a_virtual_position (cs s')) :: a_xrun f idx s' r
    end.
End PollSeek.

(* ---- entry points of the correspondence driver ------------------------------------------ *)
Definition async_reader_xcase (W P : nat) (segs : list (list nat)) (f : file) (idx : gzi_index)
  (ops : list xop) : list (out * res N) :=
  a_xrun W P (sch_of segs) f idx (a_init f) ops.

Definition sync_reader_xcase (f : file) (idx : gzi_index) (ops : list xop) : list (out * res N) :=
  ReaderOps.run true f idx (ReaderOps.init f) (map erase ops).
