(* C16 -- the async BGZF writer (noodles-bgzf/src/async/io/writer.rs, writer/deflater.rs,
   writer/deflate.rs, with futures::sink::Buffer) next to the sync writer model NV.Bgzf.Writer
   (property C01).

     Writer { buf: BytesMut (staging, at most MAX_BUF_SIZE bytes), sink: Buffer<Deflater<W>, Deflate>,
              eof_buf, compression_level }
     poll_write     if the staging buffer is full: poll_flush first (LAZY: the sync writer flushes
                    as soon as the buffer becomes full); then copy min(remaining, |buf|) bytes
     poll_flush     empty staging buffer: nothing.  Otherwise wait until the Buffer sink has room
                    (fewer than worker_count queued tasks), split the staging buffer off and
                    start_send(Deflate::new(block)): the deflate task is spawned on the blocking
                    pool AT ONCE and queued.  Nothing is forced down to the inner writer here.
     tokio write_all   poll_write until the buffer is used up; 0 bytes accepted -> WriteZero
     poll_shutdown  poll_flush; sink.poll_close (Buffer empties its queue IN ORDER into
                    Deflater, which holds one task, waits for it, encodes the frame with
                    BlockCodec and writes it through FramedWrite); then the EOF marker is written
                    to the inner writer.

   So the script alone decides the sequence of blocks handed to the sink ([a_sent]); the
   pipeline (NV.Io.Sched: Submit = Deflate::new + start_send, Start/Complete = the blocking
   pool, Take = Buffer hands the oldest task to Deflater, Emit = Deflater gets the result and
   writes the frame) decides when -- and, as proved, not in which order -- they reach the sink.
   A full queue (poll_ready Pending) only delays the caller.  The inner writer accepts every
   byte (its partial writes / Pending are FramedWrite's and tokio's business). *)
From Coq Require Import List Arith NArith Bool.
From NV Require Import Base.LE Bgzf.Crc32 Bgzf.Frame Bgzf.Writer Io.Sched.
Import ListNotations.
Open Scope N_scope.

Record awr := mkAwr {
  a_buf : list N;             (* staging buffer *)
  a_sent : list (list N)      (* blocks handed to the sink (Deflate tasks created), oldest first *)
}.

Definition aw_init : awr := mkAwr [] [].

Inductive aop := AWrite (buf : list N) | AWriteAll (buf : list N) | AFlush.

Definition a_poll_flush (a : awr) : awr :=
  match a_buf a with
  | [] => a
  | _ :: _ => mkAwr [] (a_sent a ++ [a_buf a])
  end.

(* has_remaining: buf.len() < MAX_BUF_SIZE *)
Definition a_has_room (a : awr) : bool := lenN (a_buf a) <? MAX_BUF_SIZE.

Definition a_poll_write (a : awr) (buf : list N) : awr * N :=
  let a1 := if a_has_room a then a else a_poll_flush a in
  let amt := N.min (MAX_BUF_SIZE - lenN (a_buf a1)) (lenN buf) in
  (mkAwr (a_buf a1 ++ firstn (N.to_nat amt) buf) (a_sent a1), amt).

(* tokio::io::util::write_all::WriteAll *)
Fixpoint a_write_all (fuel : nat) (a : awr) (buf : list N) : awr * res unit :=
  match buf with
  | [] => (a, Ok tt)
  | _ :: _ =>
      match fuel with
      | O => (a, Panic)   (* out of fuel: excluded (fuel = S (length buf)) *)
      | S fuel' =>
          let '(a1, amt) := a_poll_write a buf in
          if amt =? 0 then (a1, Err WriteZero)
          else a_write_all fuel' a1 (skipn (N.to_nat amt) buf)
      end
  end.

Definition a_wstep (a : awr) (o : aop) : awr * res (option N) :=
  match o with
  | AWrite buf => let '(a1, amt) := a_poll_write a buf in (a1, Ok (Some amt))
  | AWriteAll buf =>
      match a_write_all (S (length buf)) a buf with
      | (a1, Ok _) => (a1, Ok None)
      | (a1, Err e) => (a1, Err e)
      | (a1, Panic) => (a1, Panic)
      end
  | AFlush => (a_poll_flush a, Ok None)
  end.

Fixpoint a_wrun (a : awr) (ops : list aop) : awr * list (res (option N)) :=
  match ops with
  | [] => (a, [])
  | o :: r => let '(a1, x) := a_wstep a o in let '(a2, xs) := a_wrun a1 r in (a2, x :: xs)
  end.

(* the blocks a script followed by shutdown() hands to the sink, and the per-call results *)
Definition a_blocks (ops : list aop) : list (list N) :=
  a_sent (a_poll_flush (fst (a_wrun aw_init ops))).
Definition a_results (ops : list aop) : list (res (option N)) := snd (a_wrun aw_init ops).

Definition sync_op (o : aop) : op :=
  match o with AWrite b => OWrite b | AWriteAll b => OWriteAll b | AFlush => OFlush end.

Section Pipeline.
  Variable frame_of : list N -> list N.   (* deflate task + BlockCodec::encode: block -> frame bytes *)
  Variable W : nat.                       (* worker_count = capacity of the Buffer sink *)
  Variable P : nat.                       (* blocking pool threads *)

  (* Buffer has room while fewer than W tasks are queued; the task Deflater holds does not count *)
  Definition w_can_sub (n : nat) (h : bool) : bool := (n <? W)%nat.

  (* the bytes the inner writer has received: frames in the order Deflater wrote them *)
  Definition w_run (blocks : list (list N)) (sched : list act) : st (list N) (list N) :=
    Sched.run frame_of (fun _ => false) (fun sink fr => sink ++ fr) (fun _ => false) w_can_sub P
              [] blocks sched.

  Definition w_final (s : st (list N) (list N)) : bool := Sched.final (fun _ : list N => false) s.

  (* the inner writer after shutdown() under schedule [sched] *)
  Definition a_sink (ops : list aop) (sched : list act) : list N :=
    cs (w_run (a_blocks ops) sched) ++ eof_block.
End Pipeline.

(* ---- entry point of the correspondence driver: blocks and results of a script ------------- *)
Definition async_writer_case (ops : list aop) : list (list N) * list (res (option N)) :=
  (a_blocks ops, a_results ops).
