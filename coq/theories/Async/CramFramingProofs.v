(* C16 -- proofs about NV.Async.CramFraming:
   (a) the i32 / i64 bit arithmetic of the async ITF8 / LTF8 readers computes, on bytes, exactly
       what the sync readers compute (NV.Cram.Itf8.read_itf8 / NV.Cram.Ltf8.read_ltf8);
   (b) hence the async container-header / container read programs return, on every byte string,
       what C19's programs for the sync reader return (which differ only in read granularity);
   (c) hence a stream of async read_container calls over ANY poll script yields the containers and
       the ending that the sync reader yields over any delivery script. *)
From Coq Require Import List NArith ZArith Arith Bool Lia.
From Coq Require Import ZifyBool ZifyNat ZifyN.
From NV Require Import Base.LE Io.Source Io.ReadExact Io.ReadExactProofs Io.Run Io.RunProofs.
From NV Require Import Async.ReadExact Async.ReadExactProofs.
From NV Require Import Cram.Bytes Cram.Itf8 Cram.Ltf8 Cram.IntProofs Trunc.Stream Trunc.Cram Trunc.CramProofs.
From NV Require Import CramIdx.AsyncQuery CramIdx.AsyncQueryProofs Async.CramFraming.
Import ListNotations.
Open Scope N_scope.
Ltac Zify.zify_post_hook ::= Z.div_mod_to_equations.

(* ---- `a | b` = a + b when the set bits are disjoint ------------------------------------------- *)
Lemma high_bits_zero : forall y n m, y < 2 ^ n -> n <= m -> N.testbit y m = false.
Proof.
  intros y n m Hy Hm. destruct (N.eq_dec y 0) as [Hz|Hz]; [rewrite Hz; apply N.bits_0|].
  apply N.bits_above_log2. apply N.lt_le_trans with n; [|exact Hm].
  apply N.log2_lt_pow2; [lia|exact Hy].
Qed.

Lemma lor_mul_add : forall k y n, y < 2 ^ n -> N.lor (k * 2 ^ n) y = k * 2 ^ n + y.
Proof.
  intros k y n Hy. rewrite <- N.shiftl_mul_pow2.
  assert (Hl : N.land (N.shiftl k n) y = 0).
  { apply N.bits_inj_0. intros m. rewrite N.land_spec.
    destruct (N.lt_ge_cases m n) as [H|H].
    - rewrite N.shiftl_spec_low by exact H. reflexivity.
    - rewrite (high_bits_zero y n m Hy H). apply andb_false_r. }
  rewrite <- (N.lxor_lor _ _ Hl). symmetry. apply N.add_nocarry_lxor. exact Hl.
Qed.

Lemma lor_add : forall n x y, x mod 2 ^ n = 0 -> y < 2 ^ n -> N.lor x y = x + y.
Proof.
  intros n x y Hx Hy.
  assert (Hp : 2 ^ n <> 0) by (apply N.pow_nonzero; lia).
  assert (E : x = (x / 2 ^ n) * 2 ^ n).
  { pose proof (N.div_mod x (2 ^ n) Hp) as H. rewrite Hx in H. rewrite N.mul_comm. rewrite N.add_0_r in H. exact H. }
  rewrite E. apply lor_mul_add. exact Hy.
Qed.

Lemma byte_all : forall (P : N -> bool),
  forallb P (map N.of_nat (seq 0 256)) = true -> forall b, b < 256 -> P b = true.
Proof.
  intros P H b Hb. rewrite forallb_forall in H. apply H.
  apply in_map_iff. exists (N.to_nat b). split; [lia|]. apply in_seq. lia.
Qed.

(* the bit tests of the async readers select the arm the sync comparisons select *)
Lemma a_itf8_class_ok : forall b0, b0 < 256 -> a_itf8_class b0 = itf8_extra b0.
Proof.
  intros b0 Hb.
  pose proof (byte_all (fun b => Nat.eqb (a_itf8_class b) (itf8_extra b)) ltac:(vm_compute; reflexivity) b0 Hb) as H.
  apply Nat.eqb_eq in H. exact H.
Qed.

Lemma a_ltf8_class_ok : forall b0, b0 < 256 -> a_ltf8_class b0 = ltf8_extra b0.
Proof.
  intros b0 Hb.
  pose proof (byte_all (fun b => Nat.eqb (a_ltf8_class b) (ltf8_extra b)) ltac:(vm_compute; reflexivity) b0 Hb) as H.
  apply Nat.eqb_eq in H. exact H.
Qed.

Lemma land127 b : N.land b 127 = b mod 128. Proof. exact (N.land_ones b 7). Qed.
Lemma land63 b : N.land b 63 = b mod 64. Proof. exact (N.land_ones b 6). Qed.
Lemma land31 b : N.land b 31 = b mod 32. Proof. exact (N.land_ones b 5). Qed.
Lemma land15 b : N.land b 15 = b mod 16. Proof. exact (N.land_ones b 4). Qed.
Lemma land7 b : N.land b 7 = b mod 8. Proof. exact (N.land_ones b 3). Qed.
Lemma land3 b : N.land b 3 = b mod 4. Proof. exact (N.land_ones b 2). Qed.
Lemma shl_mul a n : N.shiftl a n = a * 2 ^ n. Proof. apply N.shiftl_mul_pow2. Qed.

Definition bytes (d : list N) : Prop := Forall (fun b => b < 256) d.

Ltac norm_pows :=
  repeat match goal with
  | |- context [2 ^ ?k] => let c := eval vm_compute in (2 ^ k) in change (2 ^ k) with c
  | |- context [256 ^ ?k] => let c := eval vm_compute in (256 ^ k) in change (256 ^ k) with c
  end.
Ltac side := norm_pows; lia.
Ltac lor_at n := first [rewrite (lor_add n (_ * _)) by side | rewrite (lor_add n (_ + _)) by side].
Ltac inv_bytes :=
  repeat match goal with H : Forall _ (_ :: _) |- _ => inversion H; clear H; subst end.
Ltac tb := cbn [take_be nth N.of_nat Pos.of_succ_nat Pos.succ]; inv_bytes.

(* (a) ITF8 *)
Theorem a_itf8_is_itf8_dec : forall b0 t,
  b0 < 256 -> bytes t -> length t = a_itf8_class b0 ->
  itf8_dec (b0 :: t) = Some (a_itf8_u32 b0 t, []).
Proof.
  unfold bytes. intros b0 t Hb Ht Hl. unfold a_itf8_u32. rewrite (a_itf8_class_ok b0 Hb) in *.
  unfold itf8_dec, itf8_extra in *.
  destruct (b0 <? 128) eqn:H1.
  { destruct t; [reflexivity|discriminate]. }
  destruct (b0 <? 192) eqn:H2.
  { destruct t as [|b1 [|? ?]]; try discriminate. tb.
    rewrite land127, !shl_mul. norm_pows. lor_at 8. f_equal; f_equal; lia. }
  destruct (b0 <? 224) eqn:H3.
  { destruct t as [|b1 [|b2 [|? ?]]]; try discriminate. tb.
    rewrite land63, !shl_mul. norm_pows. lor_at 16. lor_at 8. f_equal; f_equal; lia. }
  destruct (b0 <? 240) eqn:H4.
  { destruct t as [|b1 [|b2 [|b3 [|? ?]]]]; try discriminate. tb.
    rewrite land31, !shl_mul. norm_pows. lor_at 24. lor_at 16. lor_at 8. f_equal; f_equal; lia. }
  destruct t as [|b1 [|b2 [|b3 [|b4 [|? ?]]]]]; try discriminate. tb.
  rewrite !land15, !shl_mul. norm_pows. lor_at 28. lor_at 20. lor_at 12. lor_at 4. f_equal; f_equal; lia.
Qed.

(* (a) LTF8 *)
Theorem a_ltf8_is_ltf8_dec : forall b0 t,
  b0 < 256 -> bytes t -> length t = a_ltf8_class b0 ->
  ltf8_dec (b0 :: t) = Some (a_ltf8_u64 b0 t, []).
Proof.
  unfold bytes. intros b0 t Hb Ht Hl. unfold a_ltf8_u64. rewrite (a_ltf8_class_ok b0 Hb) in *.
  unfold ltf8_dec, ltf8_extra, with_prefix in *.
  destruct (b0 <? 128) eqn:H1.
  { destruct t; [reflexivity|discriminate]. }
  destruct (b0 <? 192) eqn:H2.
  { destruct t as [|b1 [|? ?]]; try discriminate. tb.
    rewrite land127, !shl_mul. norm_pows. lor_at 8. f_equal; f_equal; lia. }
  destruct (b0 <? 224) eqn:H3.
  { destruct t as [|b1 [|b2 [|? ?]]]; try discriminate. tb.
    rewrite land63, !shl_mul. norm_pows. lor_at 16. lor_at 8. f_equal; f_equal; lia. }
  destruct (b0 <? 240) eqn:H4.
  { destruct t as [|b1 [|b2 [|b3 [|? ?]]]]; try discriminate. tb.
    rewrite land31, !shl_mul. norm_pows. lor_at 24. lor_at 16. lor_at 8. f_equal; f_equal; lia. }
  destruct (b0 <? 248) eqn:H5.
  { destruct t as [|b1 [|b2 [|b3 [|b4 [|? ?]]]]]; try discriminate. tb.
    rewrite land15, !shl_mul. norm_pows. lor_at 32. lor_at 24. lor_at 16. lor_at 8. f_equal; f_equal; lia. }
  destruct (b0 <? 252) eqn:H6.
  { destruct t as [|b1 [|b2 [|b3 [|b4 [|b5 [|? ?]]]]]]; try discriminate. tb.
    rewrite land7, !shl_mul. norm_pows. lor_at 40. lor_at 32. lor_at 24. lor_at 16. lor_at 8. f_equal; f_equal; lia. }
  destruct (b0 <? 254) eqn:H7.
  { destruct t as [|b1 [|b2 [|b3 [|b4 [|b5 [|b6 [|? ?]]]]]]]; try discriminate. tb.
    rewrite land3, !shl_mul. norm_pows. lor_at 48. lor_at 40. lor_at 32. lor_at 24. lor_at 16. lor_at 8.
    f_equal; f_equal; lia. }
  destruct (b0 <? 255) eqn:H8.
  { destruct t as [|b1 [|b2 [|b3 [|b4 [|b5 [|b6 [|b7 [|? ?]]]]]]]]; try discriminate. tb.
    rewrite !shl_mul. norm_pows. lor_at 48. lor_at 40. lor_at 32. lor_at 24. lor_at 16. lor_at 8.
    f_equal; f_equal; lia. }
  destruct t as [|b1 [|b2 [|b3 [|b4 [|b5 [|b6 [|b7 [|b8 [|? ?]]]]]]]]]; try discriminate.
  cbn [take_be nth N.of_nat Pos.of_succ_nat Pos.succ be_val fold_left]. norm_pows. f_equal; f_equal; lia.
Qed.

(* the async value = the sync value, whatever follows the coded integer *)
Theorem a_itf8_is_read_itf8 : forall b0 t ext,
  b0 < 256 -> bytes t -> length t = a_itf8_class b0 ->
  read_itf8 ((b0 :: t) ++ ext) = Some (i32_of_u32 (a_itf8_u32 b0 t), ext).
Proof.
  intros b0 t ext Hb Ht Hl. unfold read_itf8.
  rewrite (itf8_dec_stable _ _ _ ext (a_itf8_is_itf8_dec b0 t Hb Ht Hl)). reflexivity.
Qed.

Theorem a_ltf8_is_read_ltf8 : forall b0 t ext,
  b0 < 256 -> bytes t -> length t = a_ltf8_class b0 ->
  read_ltf8 ((b0 :: t) ++ ext) = Some (i64_of_u64 (a_ltf8_u64 b0 t), ext).
Proof.
  intros b0 t ext Hb Ht Hl. unfold read_ltf8.
  rewrite (ltf8_dec_stable _ _ _ ext (a_ltf8_is_ltf8_dec b0 t Hb Ht Hl)). reflexivity.
Qed.

(* ---- (b) programs that agree on byte strings --------------------------------------------------- *)
Lemma bytes_firstn : forall n d, bytes d -> bytes (firstn n d).
Proof.
  unfold bytes. induction n as [|n IH]; intros d H; [constructor|].
  destruct d as [|x d]; [constructor|]. inversion H; subst. cbn [firstn]. constructor; auto.
Qed.

Lemma bytes_skipn : forall n d, bytes d -> bytes (skipn n d).
Proof.
  unfold bytes. induction n as [|n IH]; intros d H; [exact H|].
  destruct d as [|x d]; [constructor|]. inversion H; subst. cbn [skipn]. auto.
Qed.

Lemma run_pure_rest_bytes : forall (A : Type) (p : prog A) d a r,
  bytes d -> run_pure p d = POk a r -> bytes r.
Proof.
  intros A p. induction p as [a0|e|n k IH|n k IH]; intros d a r Hd E; cbn [run_pure] in E.
  - injection E as _ Er. subst r. exact Hd.
  - discriminate E.
  - destruct (n <=? length d)%nat; [|discriminate E].
    exact (IH _ _ _ _ (bytes_skipn n d Hd) E).
  - exact (IH _ _ _ _ (bytes_skipn n d Hd) E).
Qed.

Definition peqb {A : Type} (p q : prog A) : Prop := forall d, bytes d -> run_pure p d = run_pure q d.

Lemma peqb_refl : forall (A : Type) (p : prog A), peqb p p.
Proof. intros A p d _. reflexivity. Qed.

Lemma peqb_of_peq : forall (A : Type) (p q : prog A), peq p q -> peqb p q.
Proof. intros A p q H d _. apply H. Qed.

Lemma peqb_trans : forall (A : Type) (p q r : prog A), peqb p q -> peqb q r -> peqb p r.
Proof. intros A p q r H1 H2 d Hd. rewrite (H1 d Hd). apply H2. exact Hd. Qed.

(* the continuations need to agree only on what the first program can return *)
Lemma peqb_bind_on : forall (A B : Type) (p q : prog A) (f h : A -> prog B),
  peqb p q ->
  (forall a d r, bytes d -> run_pure q d = POk a r -> run_pure (f a) r = run_pure (h a) r) ->
  peqb (p_bind p f) (p_bind q h).
Proof.
  intros A B p q f h Hp Hf d Hd. rewrite !run_pure_bind, (Hp d Hd).
  destruct (run_pure q d) as [a r|e] eqn:E; [|reflexivity]. exact (Hf a d r Hd E).
Qed.

Lemma peqb_bind : forall (A B : Type) (p q : prog A) (f h : A -> prog B),
  peqb p q -> (forall a, peqb (f a) (h a)) -> peqb (p_bind p f) (p_bind q h).
Proof.
  intros A B p q f h Hp Hf. apply peqb_bind_on; [exact Hp|].
  intros a d r Hd E. apply Hf. exact (run_pure_rest_bytes A q d a r Hd E).
Qed.

Lemma peqb_read : forall (A : Type) n (k k' : list N -> prog A),
  (forall bs, bytes bs -> length bs = n -> peqb (k bs) (k' bs)) -> peqb (PRead n k) (PRead n k').
Proof.
  intros A n k k' H d Hd. cbn [run_pure]. destruct (n <=? length d)%nat eqn:E; [|reflexivity].
  apply Nat.leb_le in E. apply H; [apply bytes_firstn; exact Hd|apply firstn_length_le; exact E|].
  apply bytes_skipn. exact Hd.
Qed.

Lemma peqb_take : forall (A : Type) n (k k' : list N -> prog A),
  (forall bs, peqb (k bs) (k' bs)) -> peqb (PTake n k) (PTake n k').
Proof. intros A n k k' H d Hd. cbn [run_pure]. apply H. apply bytes_skipn. exact Hd. Qed.

(* the async ITF8 reader = C19's byte-by-byte program, whose value is NV.Cram.Itf8.read_itf8 *)
Lemma ap_itf8_sync : peqb ap_itf8 (p_itf8 true).
Proof.
  unfold ap_itf8, p_itf8. apply peqb_read. intros h Hh Hlen.
  destruct h as [|b0 [|? ?]]; try discriminate Hlen. cbn [nth].
  assert (Hb : b0 < 256) by (inversion Hh; assumption).
  rewrite (a_itf8_class_ok b0 Hb). unfold p_bytes.
  apply peqb_bind_on; [apply peqb_refl|].
  intros t d r Hd E. rewrite p_each_pure in E.
  destruct (itf8_extra b0 <=? length d)%nat eqn:El; [|discriminate E].
  apply Nat.leb_le in El. injection E as Et Er. subst t r.
  pose proof (a_itf8_is_read_itf8 b0 (firstn (itf8_extra b0) d) [] Hb (bytes_firstn _ d Hd)) as R.
  rewrite app_nil_r in R. rewrite (a_itf8_class_ok b0 Hb) in R.
  specialize (R (firstn_length_le d El)).
  cbn [app] in *. rewrite R. reflexivity.
Qed.

Lemma p_read_ret_pure : forall n d,
  run_pure (PRead n (fun t => PRet t)) d
  = if (n <=? length d)%nat then POk (firstn n d) (skipn n d) else PErr UnexpectedEof.
Proof. reflexivity. Qed.

Lemma ap_ltf8_sync : peqb ap_ltf8 (p_ltf8 true).
Proof.
  unfold ap_ltf8, p_ltf8. apply peqb_read. intros h Hh Hlen.
  destruct h as [|b0 [|? ?]]; try discriminate Hlen. cbn [nth]. cbv zeta.
  assert (Hb : b0 < 256) by (inversion Hh; assumption).
  rewrite (a_ltf8_class_ok b0 Hb). unfold p_bytes.
  apply peqb_bind_on; [apply peqb_refl|].
  intros t d r Hd E.
  assert (Ht : bytes t /\ length t = ltf8_extra b0).
  { destruct (Nat.eqb (ltf8_extra b0) 8) eqn:E8.
    - apply Nat.eqb_eq in E8. rewrite p_read_ret_pure in E.
      destruct (8 <=? length d)%nat eqn:El; [|discriminate E]. apply Nat.leb_le in El.
      injection E as Et _. subst t. split; [exact (bytes_firstn 8 d Hd)|].
      rewrite E8. exact (firstn_length_le d El).
    - rewrite p_each_pure in E.
      destruct (ltf8_extra b0 <=? length d)%nat eqn:El; [|discriminate E]. apply Nat.leb_le in El.
      injection E as Et _. subst t. split; [apply bytes_firstn; exact Hd|].
      apply firstn_length_le. exact El. }
  destruct Ht as [Htb Htl].
  pose proof (a_ltf8_is_read_ltf8 b0 t [] Hb Htb) as R.
  rewrite app_nil_r in R. rewrite (a_ltf8_class_ok b0 Hb) in R. specialize (R Htl).
  cbn [app] in *. rewrite R. reflexivity.
Qed.

Lemma peqb_as : forall p q, peqb p q -> peqb (p_as p) (p_as q).
Proof. intros p q H. unfold p_as. apply peqb_bind; [exact H|intros a; apply peqb_refl]. Qed.

Lemma peqb_repeat : forall (A : Type) n (p q : prog (A * list N)), peqb p q -> peqb (p_repeat n p) (p_repeat n q).
Proof.
  intros A n p q H. induction n as [|n IH]; [apply peqb_refl|].
  cbn [p_repeat]. apply peqb_bind; [exact H|]. intros a. apply peqb_bind; [exact IH|intros b; apply peqb_refl].
Qed.

Lemma ap_dc_fields_sync : peqb ap_dc_fields (p_dc_fields true).
Proof.
  unfold ap_dc_fields, p_dc_fields. apply peqb_read. intros b4 _ _. cbv zeta.
  destruct (negb (le_dec b4 <? 2147483648)%N); [apply peqb_refl|].
  apply peqb_bind; [apply ap_itf8_sync|intros rid].
  apply peqb_bind; [apply ap_itf8_sync|intros start].
  apply peqb_bind; [apply ap_itf8_sync|intros span].
  destruct (negb (ctx_ok (fst rid) (fst start) (fst span))); [apply peqb_refl|].
  apply peqb_bind; [apply peqb_as, ap_itf8_sync|intros nrec].
  apply peqb_bind; [apply peqb_as, ap_ltf8_sync|intros counter].
  apply peqb_bind; [apply peqb_as, ap_ltf8_sync|intros bases].
  apply peqb_bind; [apply peqb_as, ap_itf8_sync|intros nblocks].
  apply peqb_bind; [apply peqb_as, ap_itf8_sync|intros nl].
  apply peqb_bind; [apply peqb_repeat, peqb_as, ap_itf8_sync|intros lms]. apply peqb_refl.
Qed.

(* on every byte string the async container reader (byte-by-byte integer reads, i32 / i64 bit
   arithmetic) frames the container the sync reader frames (grouped reads, masks on a
   big-endian integer) *)
Theorem ap_read_container_sync : forall crc, peqb (ap_read_container crc) (p_read_container crc false).
Proof.
  intros crc. apply peqb_trans with (p_read_container crc true).
  - unfold ap_read_container, p_read_container, ap_read_header, p_read_header.
    apply peqb_bind; [|intros a; apply peqb_refl].
    apply peqb_bind; [apply ap_dc_fields_sync|intros a; apply peqb_refl].
  - apply peqb_of_peq. apply p_read_container_gran.
Qed.

(* ---- (c) the container stream over a reader ---------------------------------------------------- *)
Section Stream.
  Context {S : Type}.
  Variable rd : reader S.
  Variable Rep : S -> list N -> nat -> Prop.
  Hypothesis Hsim : simulates rd Rep.
  Variable req : nat -> nat.
  Variable fuelf : S -> nat -> nat.
  Hypothesis Hfuel : forall s d m n, Rep s d m -> (m + n < fuelf s n)%nat.

  Lemma containers_rd_spec : forall p fuel s d m, Rep s d m ->
    exists s', containers_rd rd req fuelf p fuel s = (containers_pure p fuel d, s').
  Proof.
    intros p. induction fuel as [|fuel IH]; intros s d m HR; [eexists; reflexivity|].
    cbn [containers_rd containers_pure].
    destruct (run_rd_spec rd Rep Hsim req fuelf Hfuel _ p s d m HR) as [s1 [d1 [m1 [E [HR1 Hd1]]]]].
    rewrite E. destruct (run_pure p d) as [[[[h hl] body] eof] r|e]; cbn [rr_of].
    - destruct eof; [eexists; reflexivity|].
      specialize (Hd1 _ _ eq_refl). subst d1.
      destruct (IH s1 r m1 HR1) as [s2 E2]. rewrite E2.
      destruct (containers_pure p fuel r) as [l st]. eexists; reflexivity.
    - eexists; reflexivity.
  Qed.
End Stream.

Lemma containers_pure_peqb : forall p q, peqb p q ->
  forall fuel d, bytes d -> containers_pure p fuel d = containers_pure q fuel d.
Proof.
  intros p q H. induction fuel as [|fuel IH]; intros d Hd; [reflexivity|].
  cbn [containers_pure]. rewrite (H d Hd).
  destruct (run_pure q d) as [[[[h hl] body] eof] r|e] eqn:E; [|reflexivity].
  destruct eof; [reflexivity|].
  rewrite (IH r (run_pure_rest_bytes _ q d _ r Hd E)). reflexivity.
Qed.

(* the async container stream, for EVERY poll script and every read_to_end request size, is the
   closed form of the SYNC program on the data *)
Theorem async_cram_containers_closed : forall crc polls req data fuel, bytes data ->
  fst (containers_rd aread req a_fuel (ap_read_container crc) fuel (mkASource data polls))
  = containers_pure (p_read_container crc false) fuel data.
Proof.
  intros crc polls req data fuel Hd.
  destruct (containers_rd_spec aread rep_a aread_simulates req a_fuel rep_a_fuel
              (ap_read_container crc) fuel (mkASource data polls) data 0%nat (rep_a_mk _ _)) as [s' E].
  rewrite E. cbn [fst]. apply containers_pure_peqb; [apply ap_read_container_sync|exact Hd].
Qed.

Theorem sync_cram_containers_closed : forall crc req (t : source) fuel,
  fst (containers_rd src_read req src_fuel (p_read_container crc false) fuel t)
  = containers_pure (p_read_container crc false) fuel (s_data t).
Proof.
  intros crc req t fuel.
  destruct (containers_rd_spec src_read rep_src src_simulates req src_fuel rep_src_fuel
              (p_read_container crc false) fuel t (s_data t) _ (rep_src_self t)) as [s' E].
  rewrite E. reflexivity.
Qed.

(* async = sync: the same containers (header fields, body bytes) and the same ending, whatever the
   poll script of the async source and the delivery script (chunking, Interrupted) of the sync one *)
Theorem async_cram_containers_equal_sync : forall crc polls req req' (t : source) fuel, bytes (s_data t) ->
  fst (containers_rd aread req a_fuel (ap_read_container crc) fuel (mkASource (s_data t) polls))
  = fst (containers_rd src_read req' src_fuel (p_read_container crc false) fuel t).
Proof.
  intros crc polls req req' t fuel Hd.
  rewrite (async_cram_containers_closed crc polls req (s_data t) fuel Hd).
  rewrite sync_cram_containers_closed. reflexivity.
Qed.

(* one read_container call: result and the data left *)
Theorem async_cram_read_container_closed : forall crc polls req data, bytes data ->
  exists s',
    run_rd aread req a_fuel (ap_read_container crc) (mkASource data polls)
    = (rr_of (run_pure (p_read_container crc false) data), s')
    /\ (forall a r, run_pure (p_read_container crc false) data = POk a r -> a_data s' = r).
Proof.
  intros crc polls req data Hd.
  destruct (run_rd_spec aread rep_a aread_simulates req a_fuel rep_a_fuel _ (ap_read_container crc)
              (mkASource data polls) data 0%nat (rep_a_mk _ _)) as [s' [d' [m' [E [[HR _] Hr]]]]].
  rewrite (ap_read_container_sync crc data Hd) in E, Hr.
  exists s'. split; [exact E|]. intros a r X. rewrite HR. exact (Hr a r X).
Qed.
