(* C16 -- proofs about NV.Async.CsiRead:
   (a) any read program of C12's language without read_until, run over the awaited source under ANY
       poll script, returns what it returns on the bytes -- and so does the run over C12's scripted
       sync source ([async_ioprog_equals_sync]);
   (b) the async CSI reader program returns an index exactly when C17's whole-buffer model of the
       sync reader (CsiLayout.read_csi) does, the same one, on every payload whose aux block is
       complete and fully consumed by its header ([a_csi_is_read_csi]); on a padded aux block the two
       differ ([a_csi_padded_aux_differs]). *)
From Coq Require Import List NArith Arith Bool Lia ZifyBool ZifyNat ZifyN.
From NV Require Import Base.LE Io.Source Io.ReadExact Io.ReadExactProofs Io.Run Io.RunProofs Trunc.Stream.
From NV Require Import Io.Prog Io.ProgProofs Io.IndexProg Io.IndexProgProofs Io.CsiProg Io.CsiProgProofs.
From NV Require Import Async.ReadExact Async.ReadExactProofs Async.CsiRead.
From NV Require Index.Bins Index.Layout Index.CsiLayout.
Import ListNotations.
Local Open Scope N_scope.

(* ---- (a) poll-script independence -------------------------------------------------------------- *)
Theorem async_ioprog_equals_sync : forall (A : Type) (p : prog A), until_free p ->
  forall polls req req' script d,
    fst (run_raw aread req a_fuel p (mkASource d polls)) = fst (run_pure p d)
    /\ fst (run_raw src_read req' src_fuel p (mkSource d script)) = fst (run_pure p d).
Proof.
  intros A p Hp polls req req' script d. split.
  - destruct (run_raw_spec _ aread rep_a aread_simulates req a_fuel rep_a_fuel A p Hp
                (mkASource d polls) d 0%nat (rep_a_mk d polls)) as [s' [m' [E _]]].
    rewrite E. reflexivity.
  - destruct (run_raw_spec _ src_read rep_src src_simulates req' src_fuel rep_src_fuel A p Hp
                (mkSource d script) d (n_interrupted script) ltac:(split; reflexivity)) as [s' [m' [E _]]].
    rewrite E. reflexivity.
Qed.

(* ---- until_free ---------------------------------------------------------------------------------- *)
Lemma until_free_g_u8 : until_free g_u8.
Proof. unfold g_u8. apply until_free_bind; [apply until_free_p_le|]. intros n. destruct (256 <=? n); exact I. Qed.

Lemma until_free_hdr_on_slice : forall bs, until_free (hdr_on_slice bs).
Proof. intros bs. unfold hdr_on_slice. destruct (run_pure g_header bs) as [[h|e] r]; exact I. Qed.

Lemma until_free_a_aux : until_free a_aux.
Proof.
  unfold a_aux. apply until_free_bind; [apply until_free_g_i32_nonneg|]. intros l.
  destruct (0 <? l); [|exact I]. intros bs. destruct (length bs <? N.to_nat l)%nat; [exact I|].
  apply until_free_bind; [apply until_free_hdr_on_slice|]. intros h. exact I.
Qed.

Lemma until_free_a_csi_bin_step : forall mid st, until_free (a_csi_bin_step mid st).
Proof.
  intros mid st. unfold a_csi_bin_step. apply until_free_bind; [apply until_free_p_le|]. intros id.
  apply until_free_bind; [apply until_free_p_le|]. intros lo.
  destruct (id =? mid).
  - apply until_free_bind; [apply until_free_g_metadata|]. intros md. destruct (snd st); exact I.
  - apply until_free_bind; [apply until_free_g_chunks|]. intros cs. destruct (existsb _ _); exact I.
Qed.

Lemma until_free_a_csi_ref : forall d, until_free (a_csi_ref d).
Proof.
  intros d. unfold a_csi_ref. apply until_free_bind; [apply until_free_g_i32_nonneg|]. intros n.
  apply until_free_bind; [apply until_free_iter, until_free_a_csi_bin_step|]. intros st. exact I.
Qed.

Lemma until_free_a_csi : until_free a_csi.
Proof.
  unfold a_csi. apply until_free_bind; [apply until_free_p_exact|]. intros mg.
  destruct (bytes_eqb mg CsiLayout.csi_magic); [|exact I].
  apply until_free_bind; [apply until_free_g_u8|]. intros ms.
  apply until_free_bind; [apply until_free_g_u8|]. intros d.
  destruct (negb (CsiLayout.scheme_ok ms d)); [exact I|].
  apply until_free_bind; [apply until_free_a_aux|]. intros h.
  apply until_free_bind; [apply until_free_g_i32_nonneg|]. intros n.
  apply until_free_bind; [apply until_free_rep, until_free_a_csi_ref|]. intros refs.
  apply until_free_bind; [apply until_free_p_exact_opt|]. intros o. exact I.
Qed.

Lemma until_free_a_tbi_header : until_free a_tbi_header.
Proof.
  unfold a_tbi_header. apply until_free_bind; [apply until_free_p_exact|]. intros b24.
  apply until_free_bind; [apply until_free_p_exact|]. intros l4. cbv zeta.
  destruct (negb (le_dec l4 <? 2147483648)); [exact I|]. intros nm.
  destruct (length nm <? N.to_nat (le_dec l4))%nat; [exact I|apply until_free_hdr_on_slice].
Qed.

Lemma until_free_a_tbi_ref : until_free a_tbi_ref.
Proof.
  unfold a_tbi_ref. apply until_free_bind; [apply until_free_g_i32_nonneg|]. intros n.
  apply until_free_bind.
  - apply until_free_map_err. unfold g_bins_n.
    apply until_free_bind; [apply until_free_iter, until_free_g_bin_step|]. intros st. exact I.
  - intros bm. apply until_free_bind; [apply until_free_g_i32_nonneg|]. intros k.
    apply until_free_bind; [apply until_free_rep, until_free_p_le|]. intros iv. exact I.
Qed.

Lemma until_free_a_tbi : until_free a_tbi.
Proof.
  unfold a_tbi. apply until_free_bind; [apply until_free_p_exact|]. intros mg.
  destruct (bytes_eqb mg CsiLayout.tbi_magic); [|exact I].
  apply until_free_bind; [apply until_free_g_i32_nonneg|]. intros n.
  apply until_free_bind; [apply until_free_a_tbi_header|]. intros h.
  apply until_free_bind; [apply until_free_rep, until_free_a_tbi_ref|]. intros refs.
  apply until_free_bind; [apply until_free_p_exact_opt|]. intros o. exact I.
Qed.

(* the async readers: independent of the poll script; the same programs over the sync source *)
Theorem async_csi_case_closed : forall codes chunk payload,
  async_csi_case codes chunk payload = opt_rr (fst (run_pure a_csi payload)).
Proof.
  intros codes chunk payload. unfold async_csi_case.
  destruct (async_ioprog_equals_sync _ a_csi until_free_a_csi (polls_of codes) (fun _ => chunk) (fun _ => 0%nat) [] payload)
    as [E _]. rewrite E. reflexivity.
Qed.

Theorem async_tbi_case_closed : forall codes chunk payload,
  async_tbi_case codes chunk payload = opt_rr (fst (run_pure a_tbi payload)).
Proof.
  intros codes chunk payload. unfold async_tbi_case.
  destruct (async_ioprog_equals_sync _ a_tbi until_free_a_tbi (polls_of codes) (fun _ => chunk) (fun _ => 0%nat) [] payload)
    as [E _]. rewrite E. reflexivity.
Qed.

(* ---- (b) CSI against C17's read_csi ---------------------------------------------------------------- *)
Lemma agrees_u8 : agrees g_u8 (fun bs => match Layout.p_le 4 bs with
                                          | Some (n, r) => if 256 <=? n then None else Some (n, r)
                                          | None => None end).
Proof.
  eapply agrees_ext.
  - unfold g_u8. apply agrees_bind; [apply agrees_le|]. intros n.
    instantiate (1 := fun n r => if 256 <=? n then None else Some (n, r)). cbv beta.
    destruct (256 <=? n); [apply agrees_fail; discriminate|apply agrees_ret].
  - intros d. reflexivity.
Qed.

Lemma agrees_csi_bins_loop : forall mid n acc m,
  agrees (bind (p_iter_nat n (a_csi_bin_step mid) (acc, m)) (fun st => Ret (rev (fst st), snd st)))
         (CsiLayout.p_csi_bins_loop n mid acc m).
Proof.
  intros mid. induction n as [|n IH]; intros acc m d.
  - reflexivity.
  - cbn [p_iter_nat CsiLayout.p_csi_bins_loop].
    rewrite (bind_assoc _ _ _ (a_csi_bin_step mid (acc, m)) _ _ d). unfold a_csi_bin_step at 1. cbn [fst snd].
    rewrite (bind_assoc _ _ _ (Prog.p_le 4) _ _ d). rewrite run_pure_bind.
    pose proof (agrees_le 4 d) as H4. destruct (run_pure (Prog.p_le 4) d) as [[id|e] r0].
    2:{ destruct H4 as [H4 He]. rewrite H4. auto. }
    rewrite H4. rewrite (bind_assoc _ _ _ (Prog.p_le 8) _ _ r0). rewrite run_pure_bind.
    pose proof (agrees_le 8 r0) as H8. destruct (run_pure (Prog.p_le 8) r0) as [[lo|e] r].
    2:{ destruct H8 as [H8 He]. rewrite H8. auto. }
    rewrite H8. destruct (id =? mid).
    + rewrite (bind_assoc _ _ _ g_metadata _ _ r). rewrite run_pure_bind.
      pose proof (agrees_metadata r) as HM.
      destruct (run_pure g_metadata r) as [[md|e] r'].
      * rewrite HM. destruct m as [m0|].
        -- cbn [bind run_pure]. split; [reflexivity|discriminate].
        -- cbn [bind]. apply IH.
      * destruct HM as [HM He]. rewrite HM. auto.
    + rewrite (bind_assoc _ _ _ g_chunks _ _ r). rewrite run_pure_bind.
      pose proof (agrees_chunks r) as HC.
      destruct (run_pure g_chunks r) as [[cs|e] r'].
      * rewrite HC. destruct (existsb (fun b => fst (fst b) =? id) acc).
        -- cbn [bind run_pure]. split; [reflexivity|discriminate].
        -- cbn [bind]. apply IH.
      * destruct HC as [HC He]. rewrite HC. auto.
Qed.

Lemma agrees_csi_ref : forall d, agrees (a_csi_ref d) (CsiLayout.p_csi_ref d).
Proof.
  intros d x. unfold a_csi_ref, CsiLayout.p_csi_ref. rewrite run_pure_bind.
  pose proof (agrees_i32_nonneg x) as HN. destruct (run_pure g_i32_nonneg x) as [[n|e] r].
  2:{ destruct HN as [HN He]. rewrite HN. auto. }
  rewrite HN.
  pose proof (agrees_csi_bins_loop (NV.Index.Bins.metadata_id d) (N.to_nat n) [] None r) as HL.
  rewrite run_pure_bind in HL. rewrite run_pure_bind.
  rewrite (p_iter_nat_eq _ (a_csi_bin_step (NV.Index.Bins.metadata_id d)) n ([], None) r).
  destruct (run_pure (p_iter_nat (N.to_nat n) (a_csi_bin_step (NV.Index.Bins.metadata_id d)) ([], None)) r)
    as [[st|e] r'].
  - cbn [run_pure] in HL. rewrite HL. cbn [run_pure fst snd]. reflexivity.
  - cbn [run_pure] in HL. destruct HL as [HL He]. rewrite HL. auto.
Qed.

(* read_aux: the async program against C17's p_aux where the aux block is complete and tight *)
Lemma a_aux_is_p_aux : forall d, aux_ok d ->
  match run_pure a_aux d with
  | (RVal h, r) => CsiLayout.p_aux d = Some (h, r)
  | (RErr e, _) => CsiLayout.p_aux d = None /\ e <> OutOfFuel
  end.
Proof.
  intros d Hok. unfold a_aux, CsiLayout.p_aux. rewrite run_pure_bind.
  pose proof (agrees_i32_nonneg d) as HN. destruct (run_pure g_i32_nonneg d) as [[l|e] r].
  2:{ destruct HN as [HN He]. rewrite HN. auto. }
  rewrite HN. destruct (0 <? l) eqn:Hl; [|reflexivity].
  destruct (Hok l r HN ltac:(lia)) as [Hlen Htight].
  cbn [run_pure]. rewrite firstn_length_le by exact Hlen. rewrite Nat.ltb_irrefl.
  rewrite run_pure_bind. unfold hdr_on_slice.
  pose proof (agrees_header (firstn (N.to_nat l) r)) as HH.
  destruct (run_pure g_header (firstn (N.to_nat l) r)) as [[h|e] rr].
  - rewrite HH. rewrite (Htight h rr HH). cbn [run_pure app]. reflexivity.
  - destruct HH as [HH He]. rewrite HH. cbn [run_pure]. split; [reflexivity|discriminate].
Qed.

Lemma csi_magic_match : forall (X : Type) (d : list N) (y : list N -> X) (z : X),
  match d with 67 :: 83 :: 73 :: 1 :: r0 => y r0 | _ => z end
  = if prefix4 d 67 83 73 1 then y (skipn 4 d) else z.
Proof.
  intros X d y z.
  destruct d as [|a d]; [reflexivity|]. crush_byte a.
  destruct d as [|b d]; [reflexivity|]. crush_byte b.
  destruct d as [|c d]; [reflexivity|]. crush_byte c.
  destruct d as [|e d]; [reflexivity|]. crush_byte e.
Qed.

Lemma p_le_rest : forall k d v r, Layout.p_le k d = Some (v, r) -> r = skipn k d.
Proof.
  intros k d v r H. unfold Layout.p_le in H. destruct (k <=? length d)%nat; [|discriminate H].
  injection H as _ Hr. symmetry. exact Hr.
Qed.

(* the async CSI reader returns an index exactly when C17's model of the sync reader does, the same *)
Theorem a_csi_is_read_csi : forall d, csi_aux_ok d ->
  opt_rr (fst (run_pure a_csi d)) = CsiLayout.read_csi d.
Proof.
  intros d Hok. unfold CsiLayout.read_csi. rewrite csi_magic_match.
  unfold a_csi. rewrite run_pure_bind, p_exact_pure.
  destruct (4 <=? length d)%nat eqn:H4.
  2:{ assert (Hp : prefix4 d 67 83 73 1 = false).
      { destruct d as [|x1 [|x2 [|x3 [|x4 r]]]]; unfold prefix4; cbn [starts_with];
          rewrite ?andb_false_r; try reflexivity. cbn [length] in H4. discriminate H4. }
      rewrite Hp. reflexivity. }
  unfold CsiLayout.csi_magic. rewrite (bytes_eqb_firstn4 d 67 83 73 1 H4).
  destruct (prefix4 d 67 83 73 1); [|reflexivity].
  set (r0 := skipn 4 d). rewrite run_pure_bind.
  pose proof (agrees_u8 r0) as HM. destruct (run_pure g_u8 r0) as [[ms|e] r1].
  2:{ destruct HM as [HM _]. destruct (Layout.p_le 4 r0) as [[ms r1']|]; [|reflexivity].
      destruct (256 <=? ms); [reflexivity|discriminate HM]. }
  destruct (Layout.p_le 4 r0) as [[ms' r1']|] eqn:E0; [|discriminate HM].
  destruct (256 <=? ms') eqn:Hms; [discriminate HM|]. injection HM as -> ->.
  rewrite run_pure_bind.
  pose proof (agrees_u8 r1) as HD. destruct (run_pure g_u8 r1) as [[dp|e] r2].
  2:{ destruct HD as [HD _]. destruct (Layout.p_le 4 r1) as [[dp r2']|]; [|reflexivity].
      destruct (256 <=? dp); [reflexivity|discriminate HD]. }
  destruct (Layout.p_le 4 r1) as [[dp' r2']|] eqn:E1; [|discriminate HD].
  destruct (256 <=? dp') eqn:Hdp; [discriminate HD|]. injection HD as -> ->.
  destruct (negb (CsiLayout.scheme_ok ms dp)); [reflexivity|].
  assert (Hr2 : r2 = skipn 12 d).
  { rewrite (p_le_rest _ _ _ _ E1), (p_le_rest _ _ _ _ E0). unfold r0. rewrite !skipn_skipn_add. reflexivity. }
  rewrite run_pure_bind.
  pose proof (a_aux_is_p_aux r2 ltac:(rewrite Hr2; exact Hok)) as HA.
  destruct (run_pure a_aux r2) as [[h|e] r3].
  2:{ destruct HA as [HA _]. rewrite HA. reflexivity. }
  rewrite HA. rewrite run_pure_bind.
  pose proof (agrees_i32_nonneg r3) as HN. destruct (run_pure g_i32_nonneg r3) as [[n|e] r4].
  2:{ destruct HN as [HN _]. rewrite HN. reflexivity. }
  rewrite HN. rewrite run_pure_bind.
  pose proof (agrees_rep _ _ _ (agrees_csi_ref (N.to_nat dp)) n r4) as HR.
  destruct (run_pure (p_rep n (a_csi_ref (N.to_nat dp))) r4) as [[refs|e] r5].
  2:{ destruct HR as [HR _]. rewrite HR. reflexivity. }
  rewrite HR. rewrite run_pure_bind, p_exact_opt_pure. cbn [run_pure fst opt_rr].
  unfold CsiLayout.p_unplaced, Layout.p_le. destruct (8 <=? length r5)%nat; reflexivity.
Qed.

(* hence async (any poll script) = C17's sync model on such payloads *)
Theorem async_csi_reader_equals_sync : forall codes chunk payload, csi_aux_ok payload ->
  async_csi_case codes chunk payload = sync_csi_case payload.
Proof.
  intros codes chunk payload Hok. rewrite async_csi_case_closed. unfold sync_csi_case.
  apply a_csi_is_read_csi. exact Hok.
Qed.

(* an aux block five bytes longer than its header (padding 1 0 0 0 0), then n_ref = 0: the sync model
   takes the padding for n_ref = 1 and returns an index with one empty reference sequence, the async
   reader returns the index that was written, with none (finding async-csi-aux-trailing-bytes-differs) *)
Definition csi_padded_aux : list N :=
  [67; 83; 73; 1; 14; 0; 0; 0; 6; 0; 0; 0; 33; 0; 0; 0;
   2; 0; 0; 0; 1; 0; 0; 0; 2; 0; 0; 0; 0; 0; 0; 0; 35; 0; 0; 0; 0; 0; 0; 0; 0; 0; 0; 0;
   1; 0; 0; 0; 0; 0; 0; 0; 0].

Theorem a_csi_padded_aux_differs : forall codes chunk,
  async_csi_case codes chunk csi_padded_aux <> sync_csi_case csi_padded_aux.
Proof.
  intros codes chunk. rewrite async_csi_case_closed. vm_compute. intros H. discriminate H.
Qed.
