(* C16 -- the async sam / vcf header adapter used through AsyncRead
   (noodles-{sam,vcf}/src/async/io/reader/header.rs, `impl AsyncRead for Reader`):
       fn poll_read(self, cx, buf) { let src = ready!(self.poll_fill_buf(cx))?;
                                     let amt = src.len().min(buf.remaining()); buf.put_slice(&src[..amt]);
                                     if amt < src.len() { self.is_eol = false; }
                                     self.consume(amt); Ready(Ok(())) }
   This is, statement for statement, the sync adapter's `Read::read` (C12's NV.Io.HeaderAdapter.h_read:
   the window of h_fill_buf, the copy of min(n, len) bytes, the line-start flag dropped when only a
   part of the window was taken), over tokio's BufReader on the awaited poll-scripted source
   (NV.Async.ReadExact.aread), i.e. h_read instantiated at aread.
   A caller's `read(&mut buf[..n])` is one poll_read with remaining = n (Pending polls of the source
   are absorbed by the await: aread).  Definitions only; proofs in HeaderReadsProofs.v. *)
From Coq Require Import List NArith Arith Bool.
From NV Require Import Io.Source Io.ReadExact Io.BufReader Io.HeaderRead Io.HeaderAdapter.
From NV Require Import Async.ReadExact Async.Lines.
Import ListNotations.

(* a sequence of read calls with buffers of the given sizes: what each returns, the state after *)
Fixpoint ah_reads (cap : nat) (prefix : N) (sizes : list nat) (hs : hstate (S := asource))
  : list rres * hstate (S := asource) :=
  match sizes with
  | [] => ([], hs)
  | n :: t =>
      let '(r, hs1) := h_read aread cap prefix hs n in
      let '(l, hs2) := ah_reads cap prefix t hs1 in (r :: l, hs2)
  end.

(* kind ahrd: (what each read returned, bytes consumed from the source and handed on) *)
Definition async_header_reads_case (prefix : N) (cap : nat) (codes : list nat) (sizes : list nat)
  (data : list N) : list rres * nat :=
  let '(l, hs) := ah_reads cap prefix sizes (true, ab_start data codes) in
  (l, length data - ab_left (snd hs)).

(* what a sequence of reads with the given buffer sizes must return on the text dH still to come:
   each a prefix of what is left, no longer than its buffer, and non-empty unless the buffer is
   empty or the text is exhausted; never an interruption *)
Fixpoint reads_deliver (dH : list N) (sizes : list nat) (l : list rres) : Prop :=
  match sizes, l with
  | [], [] => True
  | n :: ts, ROk bs :: tl =>
      (bs = firstn (length bs) dH /\ length bs <= n /\ (0 < n -> dH <> [] -> 0 < length bs))
      /\ reads_deliver (skipn (length bs) dH) ts tl
  | _, _ => False
  end.
