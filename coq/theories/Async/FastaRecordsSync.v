(* C16 -- the SYNC FASTA record stream over a scripted source: Records::next (io/reader/records.rs) =
   read_definition (C12's read_line + parse_definition) then read_sequence (C12's NV.Io.FastaScan:
   a fresh sequence::Reader { is_bol: true, has_pending_cr: false } read to its end), until
   read_definition returns 0 or an error.  Definitions only. *)
From Coq Require Import List NArith Arith Bool.
From NV Require Import Io.Source Io.ReadExact Io.BufReader Io.FastaScan Io.Run.
From NV Require Import Async.FastaRecords.
From NV Require Fasta.Layout Fasta.Reader.
Import ListNotations.

Section Recs.
  Context {S : Type}.
  Variable rd : reader S.
  Variable cap : nat.
  Variable fuelf : bstate S -> nat.

  Fixpoint s_fasta_records (k : nat) (st : bstate S) : list Reader.frec * fend * bstate S :=
    match k with
    | 0 => ([], FNoFuel, st)
    | Datatypes.S k' =>
      match read_line rd cap (fuelf st) st with
      | (_, _, UNoFuel, st1) => ([], FNoFuel, st1)
      | (0, _, UOk, st1) => ([], FEnd, st1)
      | (_, line, UOk, st1) =>
        match Layout.parse_def line with
        | None => ([], FInvalidData, st1)
        | Some (nm, ds) =>
          match read_sequence rd cap (fuelf st1) (true, false, st1) [] with
          | (SNoFuel, _, (_, _, st2)) => ([], FNoFuel, st2)
          | (SOk, sq, (_, _, st2)) =>
            let '(rs, e, st3) := s_fasta_records k' st2 in (mk_frec nm ds sq :: rs, e, st3)
          end
        end
      end
    end.
End Recs.

(* fuel for the sync loops: twice the data (a held-back CR costs an extra step) + Interrupted results *)
Definition sb_fuel2 (st : bstate source) : nat :=
  2 * (length (fst st) + length (s_data (snd st))) + n_interrupted (s_script (snd st)) + 3.

Definition sync_fasta_records_run (cap : nat) (s : source) : list Reader.frec * fend :=
  fst (s_fasta_records src_read cap sb_fuel2 (Datatypes.S (length (s_data s))) ([], s)).
