(* C16 -- BGZF framing of the async reader versus the sync reader (repaired async side).

   Async side (noodles-bgzf/src/async/block_codec.rs, driven by tokio_util::codec::FramedRead in
   async/io/reader/inflater.rs): the source delivers the file in arbitrary chunks (one chunk per
   Ready poll; Pending polls deliver nothing and do not change the state, so a poll script is
   exactly a partition of the file into chunks).  FramedRead appends each chunk to its buffer and
   calls [BlockCodec::decode] until it answers None or fails; when the source reports end of input
   it calls [decode_eof].

     decode buf:      fewer than 18 bytes            -> None (need more)
                      block_size = le16(buf[16..18]) + 1
                      block_size < 26 (MIN_FRAME_SIZE) -> Err InvalidData
                      fewer than block_size bytes    -> None (need more)
                      otherwise split block_size bytes off the front
     decode_eof buf:  decode buf; when that is None: fewer than 18 bytes left (a partial header)
                      -> clean end of input, otherwise Err UnexpectedEof.

   A codec error ends the frame stream; the async reader queues it behind the blocks that precede
   it (Inflater::poll_next turns it into a failed inflate task), so it is observed after their
   data, like an inflate error.

   (Before the repair [decode] had no minimum-size check and [decode_eof] forwarded the remaining
   bytes as a last frame; that model and its three refutation witnesses are in the history of this
   file -- candidate finding F16.)

   Sync side (noodles-bgzf/src/io/reader/frame.rs read_frame_into):
     read_exact 18 header bytes; UnexpectedEof here (0..17 bytes left)  -> clean end of input
     block_size = le16 + 1;  block_size < 26 (MIN_FRAME_SIZE)           -> Err InvalidData
     read_exact block_size - 18 more bytes; too few                      -> Err UnexpectedEof

   Both readers hand each frame to [parse_block] (io/reader/frame.rs): split_frame (frame shorter
   than 26 bytes -> UnexpectedEof), header check (InvalidData), ISIZE <= 65536 (InvalidData), then
   inflate + CRC-32 (external: an oracle of this model, failing with InvalidData).

   Bytes are N (< 256 by invariant of the driver); lengths are nat. *)
From Coq Require Import List Arith NArith Bool.
Import ListNotations.

Inductive err := UnexpectedEof | InvalidData.
Inductive ending := Eof | Err (e : err).

Definition HDR : nat := 18.
Definition MIN_FRAME : nat := 26.

Definition byte_at (l : list N) (i : nat) : N := nth i l 0%N.

(* usize::from(u16::from_le_bytes(buf[16..18])) + 1 *)
Definition block_size (buf : list N) : nat :=
  S (N.to_nat (byte_at buf 16 + 256 * byte_at buf 17)).

(* ---------------------------------------------------------------------------------------- *)
(* async: BlockCodec::decode / FramedRead                                                    *)

Inductive dec := More | Bad | Frame (fr rest : list N).

Definition decode (buf : list N) : dec :=
  if length buf <? HDR then More
  else
    let n := block_size buf in
    if n <? MIN_FRAME then Bad
    else if length buf <? n then More else Frame (firstn n buf) (skipn n buf).

(* how a run of decode calls on one buffer ends: more input is needed, or the codec failed *)
Inductive dstate := Stuck | Failed.

(* FramedRead calls decode until None / Err; every frame has at least one byte, so [length buf]
   iterations suffice (FramingProofs.drain_fuel: the result does not depend on the fuel). *)
Fixpoint drain (fuel : nat) (buf : list N) : list (list N) * dstate * list N :=
  match fuel with
  | O => ([], Stuck, buf)
  | S f =>
      match decode buf with
      | More => ([], Stuck, buf)
      | Bad => ([], Failed, buf)
      | Frame fr rest => let '(fs, st, r) := drain f rest in (fr :: fs, st, r)
      end
  end.

Definition drain_all (buf : list N) : list (list N) * dstate * list N := drain (length buf) buf.

(* decode_eof on the bytes left when the source is at its end *)
Definition eof_ending (r : list N) : ending :=
  if length r <? HDR then Eof else Err UnexpectedEof.

(* state = buffer; one chunk per Ready poll; the empty chunk list = the source is at its end.
   Result: the frames yielded, in order, and how the frame stream ended. *)
Fixpoint feed (buf : list N) (chunks : list (list N)) : list (list N) * ending :=
  match chunks with
  | [] =>
      let '(fs, st, r) := drain_all buf in
      (fs, match st with Failed => Err InvalidData | Stuck => eof_ending r end)
  | c :: cs =>
      let '(fs, st, r) := drain_all (buf ++ c) in
      match st with
      | Failed => (fs, Err InvalidData)
      | Stuck => let '(fs', e) := feed r cs in (fs ++ fs', e)
      end
  end.

Definition async_frames (chunks : list (list N)) : list (list N) * ending := feed [] chunks.

(* ---------------------------------------------------------------------------------------- *)
(* sync: read_frame_into in a loop                                                           *)

Fixpoint sync_frames (fuel : nat) (file : list N) : list (list N) * ending :=
  match fuel with
  | O => ([], Eof)
  | S f =>
      if length file <? HDR then ([], Eof)
      else
        let n := block_size file in
        if n <? MIN_FRAME then ([], Err InvalidData)
        else if length file <? n then ([], Err UnexpectedEof)
        else let '(fs, e) := sync_frames f (skipn n file) in (firstn n file :: fs, e)
  end.

Definition sync_all (file : list N) : list (list N) * ending := sync_frames (S (length file)) file.

(* ---------------------------------------------------------------------------------------- *)
(* parse_block up to the inflate call, and the block transcript of a reader                  *)

Definition valid_header (fr : list N) : bool :=
  (byte_at fr 0 =? 31)%N && (byte_at fr 1 =? 139)%N && (byte_at fr 2 =? 8)%N && (byte_at fr 3 =? 4)%N
  && (byte_at fr 10 =? 6)%N && (byte_at fr 11 =? 0)%N && (byte_at fr 12 =? 66)%N && (byte_at fr 13 =? 67)%N
  && (byte_at fr 14 =? 2)%N && (byte_at fr 15 =? 0)%N.

Definition le32_at (l : list N) (i : nat) : N :=
  (byte_at l i + 256 * byte_at l (i + 1) + 65536 * byte_at l (i + 2) + 16777216 * byte_at l (i + 3))%N.

Definition isize (fr : list N) : N := le32_at fr (length fr - 4).

Definition parse_pre (fr : list N) : option err :=
  if length fr <? MIN_FRAME then Some UnexpectedEof
  else if negb (valid_header fr) then Some InvalidData
  else if (65536 <? isize fr)%N then Some InvalidData
  else None.

Section Transcript.
  (* oracle for DEFLATE + CRC-32 of frame number i (0-based, in delivery order) *)
  Variable inflate_ok : nat -> list N -> bool.

  (* what a caller that drains the reader with fill_buf/consume observes: (compressed offset,
     data length) of every non-empty block, the final [position()], and how the stream ended.
     [position] advances by the frame length after a successful parse; empty blocks are skipped. *)
  Fixpoint deliver (i : nat) (pos : N) (frs : list (list N)) (fin : ending)
    : list (N * N) * N * ending :=
    match frs with
    | [] => ([], pos, fin)
    | fr :: rest =>
        match parse_pre fr with
        | Some e => ([], pos, Err e)
        | None =>
            if inflate_ok i fr then
              let '(bs, p, e) := deliver (S i) (pos + N.of_nat (length fr))%N rest fin in
              ((if (isize fr =? 0)%N then bs else (pos, isize fr) :: bs), p, e)
            else ([], pos, Err InvalidData)
        end
    end.

  Definition async_obs (chunks : list (list N)) : list (N * N) * N * ending :=
    let '(fs, e) := async_frames chunks in deliver 0 0%N fs e.

  Definition sync_obs (file : list N) : list (N * N) * N * ending :=
    let '(fs, e) := sync_all file in deliver 0 0%N fs e.
End Transcript.

(* Cut a file into chunks of the given sizes (a size 0 is read as 1: a Ready poll of a source that
   is not at its end transfers at least one byte); what is left after the script goes in one chunk. *)
Fixpoint chunks_of (sizes : list nat) (file : list N) : list (list N) :=
  match sizes with
  | [] => match file with [] => [] | _ :: _ => [file] end
  | k :: ks =>
      match file with
      | [] => []
      | _ :: _ => firstn (Nat.max 1 k) file :: chunks_of ks (skipn (Nat.max 1 k) file)
      end
  end.

(* the oracle used by the correspondence driver: exactly the first [nvalid] frames inflate *)
Definition first_valid (nvalid : nat) : nat -> list N -> bool := fun i _ => i <? nvalid.

Definition async_obs_case (nvalid : nat) (sizes : list nat) (file : list N) :=
  async_obs (first_valid nvalid) (chunks_of sizes file).

Definition sync_obs_case (nvalid : nat) (file : list N) := sync_obs (first_valid nvalid) file.
