(* C16 -- the HEADER container's header reader of noodles-cram (a code path of its own, separate
   from the data container reader of CramFraming.v):
     sync   src/io/reader/header/container/header.rs        read_header / read_header_inner / read_landmarks
            src/io/reader/header.rs                         Reader::container_reader
            src/io/reader/header/container.rs               Reader::discard_to_end  (io::copy of the Take)
     async  src/async/io/reader/header/container/header.rs, src/async/io/reader/header.rs,
            src/async/io/reader/header/container.rs         the twins
   as READ PROGRAMS of C19's [prog] (PRead n = read_exact / read_u8 / read_i32_le / read_u32_le,
   PTake n = take(n) drained to its end).

   read_header_inner:   length = read_i32_le, negative -> InvalidData
                        read_itf8 x 4 (reference id, start, span, record count: NOT validated here,
                        unlike the data container header), read_ltf8 x 2, read_itf8 (block count),
                        read_landmarks: n = read_itf8_as::<usize> (negative -> InvalidData), n x read_itf8
                        (plain: negative landmarks pass), then the CRC32 of all bytes read so far
                        (CrcReader) against read_u32_le: mismatch -> InvalidData.  Result: length.
   container_reader() = read_header, then the inner reader wrapped in take(length);
   discard_to_end() drains the Take: the number of bytes discarded (short when the stream ends first:
   no error on either side).

   The sync side reads ITF8 / LTF8 with grouped reads + masks (p_itf8 false / p_ltf8 false of
   NV.CramIdx.AsyncQuery), the async side byte by byte with i32 / i64 shifts (ap_itf8 / ap_ltf8 of
   NV.Async.CramFraming). *)
From Coq Require Import List NArith ZArith Arith Bool.
From NV Require Import Base.LE Io.Source Io.ReadExact Io.ReadExactProofs Io.Run Io.RunProofs Async.ReadExact Async.ReadExactProofs.
From NV Require Import Cram.Itf8 Cram.Ltf8 Bgzf.Crc32 Trunc.Stream Trunc.Cram CramIdx.AsyncQuery CramIdx.AsyncQueryProofs.
From NV Require Import Async.CramFraming Async.CramFramingProofs.
Import ListNotations.
Open Scope N_scope.

Section Gen.
  Variable itf8 : prog (Z * list N).
  Variable ltf8 : prog (Z * list N).

  (* the fields up to the CRC: (length, the bytes the CrcReader has hashed) *)
  Definition hc_fields : prog (N * list N) :=
    PRead 4 (fun b4 =>
    let u := le_dec b4 in
    if negb (u <? 2147483648) then PFail InvalidData else
    p_bind itf8 (fun rid =>
    p_bind itf8 (fun start =>
    p_bind itf8 (fun span =>
    p_bind itf8 (fun nrec =>
    p_bind ltf8 (fun counter =>
    p_bind ltf8 (fun bases =>
    p_bind itf8 (fun nblocks =>
    p_bind (p_as itf8) (fun nl =>
    p_bind (p_repeat (N.to_nat (fst nl)) itf8) (fun lms =>
    PRet (u, b4 ++ snd rid ++ snd start ++ snd span ++ snd nrec ++ snd counter ++ snd bases ++ snd nblocks
               ++ snd nl ++ snd lms))))))))))).

  Variable crc : list N -> N.

  (* read_header: the declared length, or the error *)
  Definition hc_header : prog N :=
    p_bind hc_fields (fun lr =>
    PRead 4 (fun c4 => if crc (snd lr) =? le_dec c4 then PRet (fst lr) else PFail InvalidData)).

  (* container_reader() followed by discard_to_end(): (declared length, bytes discarded) *)
  Definition hc_open_discard : prog (N * N) :=
    p_bind hc_header (fun len => PTake (N.to_nat len) (fun b => PRet (len, N.of_nat (length b)))).
End Gen.

(* the two readers *)
Definition p_hc_open_discard (crc : list N -> N) (g : bool) : prog (N * N) := hc_open_discard (p_itf8 g) (p_ltf8 g) crc.
Definition ap_hc_open_discard (crc : list N -> N) : prog (N * N) := hc_open_discard ap_itf8 ap_ltf8 crc.

(* ---- proofs ---------------------------------------------------------------------------------- *)
Lemma hc_open_discard_peqb : forall i i' l l' crc, peqb i i' -> peqb l l' ->
  peqb (hc_open_discard i l crc) (hc_open_discard i' l' crc).
Proof.
  intros i i' l l' crc Hi Hl. unfold hc_open_discard, hc_header, hc_fields.
  apply peqb_bind; [|intros a; apply peqb_refl].
  apply peqb_bind; [|intros a; apply peqb_refl].
  apply peqb_read. intros b4 _ _. cbv zeta.
  destruct (negb (le_dec b4 <? 2147483648)%N); [apply peqb_refl|].
  apply peqb_bind; [exact Hi|intros rid].
  apply peqb_bind; [exact Hi|intros start].
  apply peqb_bind; [exact Hi|intros span].
  apply peqb_bind; [exact Hi|intros nrec].
  apply peqb_bind; [exact Hl|intros counter].
  apply peqb_bind; [exact Hl|intros bases].
  apply peqb_bind; [exact Hi|intros nblocks].
  apply peqb_bind; [apply peqb_as, Hi|intros nl].
  apply peqb_bind; [apply peqb_repeat, Hi|intros lms]. apply peqb_refl.
Qed.

(* on every byte string the async reader (byte-by-byte integer reads, i32 / i64 bit arithmetic)
   opens and discards the header container as the sync reader does (grouped reads, masks) *)
Theorem ap_hc_open_discard_sync : forall crc, peqb (ap_hc_open_discard crc) (p_hc_open_discard crc false).
Proof.
  intros crc. unfold ap_hc_open_discard, p_hc_open_discard.
  apply peqb_trans with (hc_open_discard (p_itf8 true) (p_ltf8 true) crc).
  - apply hc_open_discard_peqb; [apply ap_itf8_sync|apply ap_ltf8_sync].
  - apply hc_open_discard_peqb; apply peqb_of_peq; [apply p_itf8_gran|apply p_ltf8_gran].
Qed.

(* the async call over ANY poll script and any request sizes of the drain: result (length and
   bytes discarded, or the error kind) and the data left behind are those of the sync program *)
Theorem async_hc_open_discard_closed : forall crc polls req data, bytes data ->
  exists s',
    run_rd aread req a_fuel (ap_hc_open_discard crc) (mkASource data polls)
    = (rr_of (run_pure (p_hc_open_discard crc false) data), s')
    /\ (forall a r, run_pure (p_hc_open_discard crc false) data = POk a r -> a_data s' = r).
Proof.
  intros crc polls req data Hd.
  destruct (run_rd_spec aread rep_a aread_simulates req a_fuel rep_a_fuel _ (ap_hc_open_discard crc)
              (mkASource data polls) data 0%nat (rep_a_mk _ _)) as [s' [d' [m' [E [[HR _] Hr]]]]].
  rewrite (ap_hc_open_discard_sync crc data Hd) in E, Hr.
  exists s'. split; [exact E|]. intros a r X. rewrite HR. exact (Hr a r X).
Qed.

(* the sync call over every delivery script (chunking, Interrupted results) *)
Theorem sync_hc_open_discard_closed : forall crc req (t : source),
  exists s',
    run_rd src_read req src_fuel (p_hc_open_discard crc false) t
    = (rr_of (run_pure (p_hc_open_discard crc false) (s_data t)), s').
Proof.
  intros crc req t.
  destruct (run_rd_spec src_read rep_src src_simulates req src_fuel rep_src_fuel _ (p_hc_open_discard crc false)
              t (s_data t) _ (rep_src_self t)) as [s' [d' [m' [E _]]]].
  exists s'. exact E.
Qed.

(* ---- entry points of the correspondence driver (kind ahc) ------------------------------------ *)
(* (0 ok / stop code, declared length, bytes discarded, bytes left) *)
Definition hc_view {S : Type} (left : S -> N) (r : rr (N * N) * S) : N * N * N * N :=
  match fst r with
  | RVal (len, n) => (0, len, n, left (snd r))
  | RErr e => (stop_code (Err e), 0, 0, 0)
  end.

Definition async_hc_case (codes : list nat) (chunk : nat) (data : list N) : N * N * N * N :=
  hc_view (fun s => N.of_nat (length (a_data s)))
    (run_rd aread (fun _ => chunk) a_fuel (ap_hc_open_discard crc32) (mkASource data (polls_of codes))).

Definition sync_hc_case (data : list N) : N * N * N * N :=
  hc_view (fun s => N.of_nat (length (s_data s)))
    (run_rd src_read (fun _ => 32%nat) src_fuel (p_hc_open_discard crc32 false) (mkSource data [])).
