(* C16 -- the async CSI and tabix index readers as read programs over C12's NV.Io.Prog (run over the
   DECOMPRESSED payload: the BGZF layer below is NV.Async.Reader's).

   CSI    noodles-csi/src/async/io/reader/index.rs, index/{magic_number,header,reference_sequences}.rs,
          reference_sequences/{bins,metadata}.rs, bins/chunks.rs:
          read_exact 4 (magic), read_i32_le -> u8 (min_shift, depth), max_position check, read_aux,
          read_i32_le n_ref, per reference read_bins(depth): read_i32_le n_bin, per bin read_u32_le id,
          read_u64_le loffset, then the metadata pseudo-bin (id = Bin::metadata_id(depth): read_u32_le
          n_chunk = 2, four read_u64_le) or read_i32_le n_chunk + chunks; a repeated id / second
          metadata bin is InvalidData; index.insert(id, loffset) for EVERY ordinary bin (also a loffset
          of 0); at the end read_u64_le n_no_coor where UnexpectedEof means None.
          read_aux (the part written differently from the sync reader): read_i32_le l_aux >= 0; when
          positive the WHOLE block is read with take(l_aux).read_to_end (short = UnexpectedEof) and the
          sync header parser (noodles-csi io/reader/index/header.rs read_header = C12's g_header) runs on
          the slice, every error of it becoming InvalidData; bytes of the block after the header are
          DROPPED.  The sync read_aux runs read_header on `reader.take(l_aux)` and leaves the bytes
          of the block that the header parser does not consume IN THE STREAM (C17's p_aux): the two
          differ on an aux block that is longer than its header ([csi_aux_ok] excludes it; finding
          async-csi-aux-trailing-bytes-differs).
          Reader::read_index maps every error to InvalidData on both sides: the model is compared at
          the level index / error.
   tabix  noodles-tabix/src/async/io/reader/index.rs, index/header.rs, index/reference_sequences/**:
          magic, read_i32_le n_ref, header = read_exact 24 + read_i32_le l_nm + take(l_nm).read_to_end
          (short = UnexpectedEof), then the sync read_header on the 28 + l_nm bytes (errors InvalidData);
          per reference read_bins (read_i32_le n_bin; BAI-style bins with the metadata pseudo-bin 37450;
          errors of read_chunks / read_metadata re-labelled InvalidData) and read_intervals (read_i32_le
          n_intv, read_u64_le each); optional trailing n_no_coor.
   Value types: C17's NV.Index.CsiLayout.  Definitions only; proofs in CsiReadProofs.v. *)
From Coq Require Import List NArith Arith Bool.
From NV Require Import Base.LE Io.Source Io.ReadExact Io.Run Trunc.Stream Io.Prog Io.IndexProg Io.CsiProg.
From NV Require Import Async.ReadExact.
From NV Require Index.Bins Index.Layout Index.CsiLayout.
Import ListNotations.
Local Open Scope N_scope.

(* read_i32_le + u8::try_from *)
Definition g_u8 : prog N := bind (p_le 4) (fun n => if 256 <=? n then Fail InvalidData else Ret n).

(* the sync header parser on a byte slice *)
Definition hdr_on_slice (bs : list N) : prog CsiLayout.header :=
  match run_pure g_header bs with
  | (RVal h, _) => Ret h
  | (RErr _, _) => Fail InvalidData
  end.

Definition a_aux : prog (option CsiLayout.header) :=
  bind g_i32_nonneg (fun l =>
    if 0 <? l then
      Take (N.to_nat l) (fun bs =>
        if (length bs <? N.to_nat l)%nat then Fail UnexpectedEof
        else bind (hdr_on_slice bs) (fun h => Ret (Some h)))
    else Ret None).

(* one turn of read_bins; the bins (id, loffset, chunks) are kept in reverse order *)
Definition csi_bins_st : Type := (list CsiLayout.csi_bin * option Layout.metadata)%type.

Definition a_csi_bin_step (mid : N) (st : csi_bins_st) : prog csi_bins_st :=
  bind (p_le 4) (fun id =>
  bind (p_le 8) (fun lo =>
    if id =? mid then
      bind g_metadata (fun md =>
        match snd st with Some _ => Fail InvalidData | None => Ret (fst st, Some md) end)
    else
      bind g_chunks (fun cs =>
        if existsb (fun b => fst (fst b) =? id) (fst st) then Fail InvalidData
        else Ret ((id, lo, cs) :: fst st, snd st)))).

Definition a_csi_ref (d : nat) : prog CsiLayout.csi_ref :=
  bind g_i32_nonneg (fun n =>
  bind (p_iter n (a_csi_bin_step (NV.Index.Bins.metadata_id d)) ([], None)) (fun st =>
    let bins := rev (fst st) in
    Ret (CsiLayout.mkcref (map (fun b => (fst (fst b), snd b)) bins)
                          (map (fun b => (fst (fst b), snd (fst b))) bins) (snd st)))).

Definition a_csi : prog CsiLayout.csi_index :=
  bind (p_exact 4) (fun mg =>
    if bytes_eqb mg CsiLayout.csi_magic then
      bind g_u8 (fun ms =>
      bind g_u8 (fun d =>
      if negb (CsiLayout.scheme_ok ms d) then Fail InvalidData else
      bind a_aux (fun h =>
      bind g_i32_nonneg (fun n =>
      bind (p_rep n (a_csi_ref (N.to_nat d))) (fun refs =>
      bind (p_exact_opt 8) (fun o =>
        Ret (CsiLayout.mkcsi ms (N.to_nat d) h refs (option_map le_dec o))))))))
    else Fail InvalidData).

(* ---- tabix *)
Definition a_tbi_header : prog CsiLayout.header :=
  bind (p_exact 24) (fun b24 =>
  bind (p_exact 4) (fun l4 =>
    let l := le_dec l4 in
    if negb (l <? 2147483648) then Fail InvalidData else
    Take (N.to_nat l) (fun nm =>
      if (length nm <? N.to_nat l)%nat then Fail UnexpectedEof
      else hdr_on_slice (b24 ++ l4 ++ nm)))).

Definition a_tbi_ref : prog Layout.bai_ref :=
  bind g_i32_nonneg (fun n =>
  bind (map_err as_invalid (g_bins_n n)) (fun bm =>
  bind g_i32_nonneg (fun k =>
  bind (p_rep k (p_le 8)) (fun iv => Ret (Layout.mkbref (fst bm) (snd bm) iv))))).

Definition a_tbi : prog CsiLayout.tbi_index :=
  bind (p_exact 4) (fun mg =>
    if bytes_eqb mg CsiLayout.tbi_magic then
      bind g_i32_nonneg (fun n =>
      bind a_tbi_header (fun h =>
      bind (p_rep n a_tbi_ref) (fun refs =>
      bind (p_exact_opt 8) (fun o => Ret (CsiLayout.mktbi (Some h) refs (option_map le_dec o))))))
    else Fail InvalidData).

(* ---- entry points of the correspondence driver (kinds acsi, atbi) ------------------------------ *)
Definition opt_rr {A : Type} (r : rr A) : option A := match r with RVal a => Some a | RErr _ => None end.

(* the async reader over the payload under the poll script; read_to_end asks for [chunk] bytes *)
Definition async_csi_case (codes : list nat) (chunk : nat) (payload : list N) : option CsiLayout.csi_index :=
  opt_rr (fst (run_raw aread (fun _ => chunk) a_fuel a_csi (mkASource payload (polls_of codes)))).
Definition async_tbi_case (codes : list nat) (chunk : nat) (payload : list N) : option CsiLayout.tbi_index :=
  opt_rr (fst (run_raw aread (fun _ => chunk) a_fuel a_tbi (mkASource payload (polls_of codes)))).

(* the sync readers: C17's whole-buffer models *)
Definition sync_csi_case (payload : list N) : option CsiLayout.csi_index := CsiLayout.read_csi payload.
Definition sync_tbi_case (payload : list N) : option CsiLayout.tbi_index := CsiLayout.read_tbi payload.

(* the inputs on which the two read_aux agree: the aux block is complete and the header parser
   consumes all of it *)
Definition aux_ok (d : list N) : Prop :=
  forall l r, CsiLayout.p_i32_nonneg d = Some (l, r) -> 0 < l ->
    (N.to_nat l <= length r)%nat
    /\ (forall h rr, CsiLayout.p_header (firstn (N.to_nat l) r) = Some (h, rr) -> rr = []).
Definition csi_aux_ok (file : list N) : Prop := aux_ok (skipn 12 file).
