(* C16 -- the async CRAM container framing: noodles-cram src/async/io/reader/num/{itf8,ltf8}.rs,
   reader/container/header.rs, reader/container.rs, reader/crc_reader.rs, as READ PROGRAMS (C19's
   [prog]: PRead n = an awaited read_exact / read_u8 / read_i32_le / read_i64, PTake n =
   take(n).read_to_end) with the i32 / i64 bit arithmetic of the async decoders written out.

   async read_itf8 (i32 operands, every byte `read_u8().await.map(i32::from)`):
       b0 & 0x80 == 0                  b0
       b0 & 0x40 == 0   b1             (b0 & 0x7f) << 8 | b1
       b0 & 0x20 == 0   b1 b2          (b0 & 0x3f) << 16 | b1 << 8 | b2
       b0 & 0x10 == 0   b1 b2 b3       (b0 & 0x1f) << 24 | b1 << 16 | b2 << 8 | b3
       else             b1 b2 b3 b4    (b0 & 0x0f) << 28 | b1 << 20 | b2 << 12 | b3 << 4 | b4 & 0x0f
   (`<<` on an i32 does not check for lost bits: the 5-byte form lands in the sign bit; the value is
   the i32 with that 32-bit pattern = [i32_of_u32]).  The SYNC reader (io/reader/num/itf8.rs)
   reads the tail with ONE read_exact as a big-endian integer and masks: NV.Cram.Itf8.itf8_dec.
   async read_ltf8: the same with i64 operands and eight prefix classes, the 9-byte form is
   `read_i64()` (big endian).  Sync: NV.Cram.Ltf8.ltf8_dec.

   The bit operations are N.land / N.lor / N.shiftl on the 32/64-bit patterns (all operands are
   bytes, so no pattern exceeds 2^32 resp. 2^56 before the final reinterpretation).

   read_header_inner / read_container are the statements of the sync functions with these readers
   in place of the sync ones (and tokio's read_i32_le / read_u32_le / read_exact / take +
   read_to_end); the CrcReader hashes exactly the bytes the inner reader delivered to it, i.e. the
   bytes the programs consumed up to the CRC field.  Definitions only; proofs in
   CramFramingProofs.v. *)
From Coq Require Import List NArith ZArith Arith Bool.
From NV Require Import Base.LE Io.Source Io.ReadExact Io.Run Async.ReadExact.
From NV Require Import Cram.Itf8 Cram.Ltf8 Bgzf.Crc32 Trunc.Stream Trunc.Cram CramIdx.AsyncQuery.
Import ListNotations.
Open Scope N_scope.

(* `b & m == 0` *)
Definition bit_clear (b m : N) : bool := N.land b m =? 0.

(* ---- ITF8 ---------------------------------------------------------------------------------- *)
(* which arm of the if-chain: the number of bytes that follow the first *)
Definition a_itf8_class (b0 : N) : nat :=
  if bit_clear b0 128 then 0 else if bit_clear b0 64 then 1 else if bit_clear b0 32 then 2
  else if bit_clear b0 16 then 3 else 4.

(* the 32-bit pattern the arm computes from the first byte and the bytes that follow *)
Definition a_itf8_u32 (b0 : N) (t : list N) : N :=
  let b i := nth i t 0 in
  match a_itf8_class b0 with
  | 0%nat => b0
  | 1%nat => N.lor (N.shiftl (N.land b0 127) 8) (b 0%nat)
  | 2%nat => N.lor (N.lor (N.shiftl (N.land b0 63) 16) (N.shiftl (b 0%nat) 8)) (b 1%nat)
  | 3%nat => N.lor (N.lor (N.lor (N.shiftl (N.land b0 31) 24) (N.shiftl (b 0%nat) 16)) (N.shiftl (b 1%nat) 8)) (b 2%nat)
  | _ => N.lor (N.lor (N.lor (N.lor (N.shiftl (N.land b0 15) 28) (N.shiftl (b 0%nat) 20)) (N.shiftl (b 1%nat) 12))
                  (N.shiftl (b 2%nat) 4)) (N.land (b 3%nat) 15)
  end.

(* read_itf8: the value and the bytes consumed (what the CrcReader has hashed) *)
Definition ap_itf8 : prog (Z * list N) :=
  PRead 1 (fun h =>
    let b0 := nth 0 h 0 in
    p_bind (p_each (a_itf8_class b0)) (fun t => PRet (i32_of_u32 (a_itf8_u32 b0 t), h ++ t))).

(* ---- LTF8 ---------------------------------------------------------------------------------- *)
Definition a_ltf8_class (b0 : N) : nat :=
  if bit_clear b0 128 then 0 else if bit_clear b0 64 then 1 else if bit_clear b0 32 then 2
  else if bit_clear b0 16 then 3 else if bit_clear b0 8 then 4 else if bit_clear b0 4 then 5
  else if bit_clear b0 2 then 6 else if bit_clear b0 1 then 7 else 8.

(* i64::from_be_bytes as a 64-bit pattern *)
Definition be_val (t : list N) : N := fold_left (fun acc b => acc * 256 + b) t 0.

Definition a_ltf8_u64 (b0 : N) (t : list N) : N :=
  let b i := nth i t 0 in
  let shl := N.shiftl in
  let lor := N.lor in
  match a_ltf8_class b0 with
  | 0%nat => b0
  | 1%nat => lor (shl (N.land b0 127) 8) (b 0%nat)
  | 2%nat => lor (lor (shl (N.land b0 63) 16) (shl (b 0%nat) 8)) (b 1%nat)
  | 3%nat => lor (lor (lor (shl (N.land b0 31) 24) (shl (b 0%nat) 16)) (shl (b 1%nat) 8)) (b 2%nat)
  | 4%nat => lor (lor (lor (lor (shl (N.land b0 15) 32) (shl (b 0%nat) 24)) (shl (b 1%nat) 16)) (shl (b 2%nat) 8)) (b 3%nat)
  | 5%nat => lor (lor (lor (lor (lor (shl (N.land b0 7) 40) (shl (b 0%nat) 32)) (shl (b 1%nat) 24)) (shl (b 2%nat) 16))
                   (shl (b 3%nat) 8)) (b 4%nat)
  | 6%nat => lor (lor (lor (lor (lor (lor (shl (N.land b0 3) 48) (shl (b 0%nat) 40)) (shl (b 1%nat) 32)) (shl (b 2%nat) 24))
                   (shl (b 3%nat) 16)) (shl (b 4%nat) 8)) (b 5%nat)
  | 7%nat => lor (lor (lor (lor (lor (lor (shl (b 0%nat) 48) (shl (b 1%nat) 40)) (shl (b 2%nat) 32)) (shl (b 3%nat) 24))
                   (shl (b 4%nat) 16)) (shl (b 5%nat) 8)) (b 6%nat)
  | _ => be_val t
  end.

(* read_ltf8: seven awaited read_u8 at most; the 9-byte form reads its tail with read_i64 *)
Definition ap_ltf8 : prog (Z * list N) :=
  PRead 1 (fun h =>
    let b0 := nth 0 h 0 in
    let k := a_ltf8_class b0 in
    p_bind (if Nat.eqb k 8 then PRead 8 (fun t => PRet t) else p_each k) (fun t =>
      PRet (i64_of_u64 (a_ltf8_u64 b0 t), h ++ t))).

(* ---- container/header.rs::read_header_inner, container.rs::read_container --------------------- *)
Definition ap_dc_fields : prog (chdr * list N) :=
  PRead 4 (fun b4 =>
  let u := le_dec b4 in
  if negb (u <? 2147483648) then PFail InvalidData else
  p_bind ap_itf8 (fun rid =>
  p_bind ap_itf8 (fun start =>
  p_bind ap_itf8 (fun span =>
  if negb (ctx_ok (fst rid) (fst start) (fst span)) then PFail InvalidData else
  p_bind (p_as ap_itf8) (fun nrec =>
  p_bind (p_as ap_ltf8) (fun counter =>
  p_bind (p_as ap_ltf8) (fun bases =>
  p_bind (p_as ap_itf8) (fun nblocks =>
  p_bind (p_as ap_itf8) (fun nl =>
  p_bind (p_repeat (N.to_nat (fst nl)) (p_as ap_itf8)) (fun lms =>
  PRet (mkchdr u (fst rid) (fst start) (fst span) (fst nrec) (fst counter) (fst bases) (fst nblocks) (fst lms),
        b4 ++ snd rid ++ snd start ++ snd span ++ snd nrec ++ snd counter ++ snd bases ++ snd nblocks
           ++ snd nl ++ snd lms))))))))))).

Section CRC.
  Variable crc : list N -> N.

  Definition ap_read_header : prog (chdr * N * N) :=
    p_bind ap_dc_fields (fun hr =>
    PRead 4 (fun c4 =>
      let actual := crc (snd hr) in
      if actual =? le_dec c4
      then PRet (fst hr, N.of_nat (length (snd hr)) + 4, if is_eof (fst hr) actual then 0 else ch_len (fst hr))
      else PFail InvalidData)).

  (* (header, header length, body, true = EOF container) *)
  Definition ap_read_container : prog (chdr * N * list N * bool) :=
    p_bind ap_read_header (fun x =>
      let '(h, hl, len) := x in
      if len =? 0 then PRead (N.to_nat eof_length) (fun b => PRet (h, hl, b, true))
      else PTake (N.to_nat len) (fun b =>
             if N.of_nat (length b) <? len then PFail UnexpectedEof else PRet (h, hl, b, false))).

  (* ---- a stream of read_container calls (Records / the caller's loop): the containers up to
     the EOF container or the first error *)
  Definition cres : Type := (list (chdr * list N) * stop)%type.

  Fixpoint containers_pure (p : prog (chdr * N * list N * bool)) (fuel : nat) (d : list N) : cres :=
    match fuel with
    | O => ([], Err OutOfFuel)
    | Datatypes.S k =>
        match run_pure p d with
        | PErr e => ([], Err e)
        | POk (h, _, body, true) _ => ([], Eof)
        | POk (h, _, body, false) d' =>
            let '(l, s) := containers_pure p k d' in ((h, body) :: l, s)
        end
    end.

  Section Reader.
    Context {S : Type}.
    Variable rd : reader S.
    Variable req : nat -> nat.
    Variable fuelf : S -> nat -> nat.

    Fixpoint containers_rd (p : prog (chdr * N * list N * bool)) (fuel : nat) (s : S) : cres * S :=
      match fuel with
      | O => (([], Err OutOfFuel), s)
      | Datatypes.S k =>
          match run_rd rd req fuelf p s with
          | (RErr e, s1) => (([], Err e), s1)
          | (RVal (h, _, body, true), s1) => (([], Eof), s1)
          | (RVal (h, _, body, false), s1) =>
              let '((l, st), s2) := containers_rd p k s1 in (((h, body) :: l, st), s2)
          end
      end.
  End Reader.
End CRC.

(* ---- entry points of the correspondence driver (kind acram) ---------------------------------- *)
(* per container: the header fields and the body length; then the stop code *)
Definition cram_view (r : cres) : list (chdr * N) * N :=
  (map (fun hb => (fst hb, N.of_nat (length (snd hb)))) (fst r), stop_code (snd r)).

(* the async reader under the poll script; read_to_end asks for [chunk] bytes at a time *)
Definition async_cram_case (codes : list nat) (chunk : nat) (data : list N) : list (chdr * N) * N :=
  cram_view (fst (containers_rd aread (fun _ => chunk) a_fuel (ap_read_container crc32)
                    (Datatypes.S (length data)) (mkASource data (polls_of codes)))).

(* the sync reader (C19's program with the grouped reads) on the data delivered whole *)
Definition sync_cram_case (data : list N) : list (chdr * N) * N :=
  cram_view (fst (containers_rd src_read (fun _ => 32%nat) src_fuel (p_read_container crc32 false)
                    (Datatypes.S (length data)) (mkSource data []))).
