(* Proofs about NV.Bcf.Lazy, part 8: the CONVERSE on the site block.  LazySiteProofs shows that the lazy
   views return whatever read_site (NV.Bcf.Record.dec_head) decodes.  Here: when Fields::index and every
   lazy view of the site succeed, read_site succeeds too -- except on two classes, which are decidable
   predicates of the site block and on which read_site does fail: rlen < 0 (the lazy path never looks at
   the span) and a FILTER vector of length 0 with an integer type (read_string_map_indices rejects it,
   Filters::iter returns no filter).  So on the site block the lazy views accept EXACTLY what read_site
   accepts plus these two classes. *)
From Coq Require Import ZArith NArith List Bool Lia ZifyBool ZifyNat ZifyN.
From NV Require Import Bcf.Ints Bcf.IntsProofs Bcf.Typed Bcf.Strings Bcf.StringsProofs Bcf.Genotype Bcf.StringMap
  Bcf.StringMapProofs Bcf.Record Bcf.RecordTyped Bcf.NeverPanics Bcf.Lazy Bcf.LazyProofs Bcf.LazySiteProofs
  Bcf.LazyInfoProofs Bcf.LazyFmtProofs Bcf.LazyColProofs Bcf.LazyEagerProofs.
Import ListNotations.
Open Scope Z_scope.

(* ---------------------------------------------------------------- typed strings *)
(* what the eager reader makes of a typed string whose range index() stored and whose bytes are UTF-8 *)
Lemma dec_str_of_consume_string : forall sb off s e r, (off <= length sb)%nat ->
  consume_string (skipn off sb) off = Some (s, e, r) ->
  utf8_valid (firstn (e - s) (skipn s sb)) = true ->
  dec_str (skipn off sb) =
    Some ((if (e =? s)%nat then None else Some (firstn (e - s) (skipn s sb))), r).
Proof.
  intros sb off s e r Hoff H Hu. unfold consume_string in H. unfold dec_str.
  destruct (read_type (skipn off sb)) as [[[c l] r0]|] eqn:Er; [|discriminate].
  pose proof (read_type_nonneg _ _ _ _ Er) as Hl0.
  destruct (read_type_local _ _ _ _ Er) as [d0 [Hb [Hd _]]].
  assert (length (skipn off sb) = (length d0 + length r0)%nat) as Hsum by (rewrite Hb at 1; apply app_length).
  assert (r0 = skipn (off + length d0) sb) as Hr0.
  { rewrite <- skipn_skipn_add. rewrite Hb. symmetry. apply skipn_app_len. }
  destruct (c =? 7) eqn:E7; [|discriminate]. cbv zeta in H.
  remember (znat (S (length r0)) l) as n eqn:En0.
  assert (n = Nat.min (S (length r0)) (Z.to_nat l)) as En by (subst n; apply znat_min).
  destruct (n <=? length r0)%nat eqn:El; [|discriminate]. apply Nat.leb_le in El.
  injection H as Hs He Hr.
  assert (s = (off + length d0)%nat) as Hs' by lia. clear Hs.
  assert (e = (s + n)%nat) as He' by lia. clear He.
  destruct (l =? 0) eqn:E0.
  - assert (n = 0%nat) as Hn by lia.
    replace (e =? s)%nat with true by (symmetry; apply Nat.eqb_eq; lia).
    rewrite Hn in Hr. cbn [skipn] in Hr. subst r. reflexivity.
  - assert (n <> 0%nat) as Hn by lia.
    replace (e =? s)%nat with false by (symmetry; apply Nat.eqb_neq; lia).
    unfold take. destruct (n <=? length r0)%nat eqn:El2; [|apply Nat.leb_gt in El2; lia].
    replace (e - s)%nat with n in * by lia. rewrite Hs' in *. rewrite <- Hr0 in *.
    rewrite Hu. rewrite Hr. reflexivity.
Qed.

(* ---------------------------------------------------------------- alleles *)
Lemma skipn_firstn_split : forall {A} (a b : nat) (l : list A), (a <= b)%nat ->
  skipn a l = firstn (b - a) (skipn a l) ++ skipn b l.
Proof.
  intros A a b l H. rewrite <- (firstn_skipn (b - a) (skipn a l)) at 1. f_equal.
  rewrite skipn_skipn_add. f_equal. lia.
Qed.

Lemma alts_converse : forall sb n off e r l, (off <= length sb)%nat ->
  consume_alts n (skipn off sb) off = Some (e, r) ->
  lz_alt_values n (firstn (e - off) (skipn off sb)) = ROk l ->
  dec_alleles n (skipn off sb) = Some (l, r).
Proof.
  intros sb. induction n as [|n IH]; intros off e r l Hoff Hc Hv; cbn [consume_alts] in Hc; cbn [lz_alt_values] in Hv.
  - injection Hc as He Hr. injection Hv as Hl. subst. reflexivity.
  - destruct (consume_string (skipn off sb) off) as [[[s1 e1] b1]|] eqn:Ec; [|discriminate].
    pose proof (consume_string_bounds sb off s1 e1 b1 Hoff Ec) as [A1 [A2 [A3 A4]]]. subst b1.
    pose proof (consume_alts_bounds sb n e1 e r A3 Hc) as [C1 [C2 C3]].
    destruct (dec_str (firstn (e - off) (skipn off sb))) as [[o r1]|] eqn:Ed; [|discriminate].
    destruct (lz_alt_values n r1) as [l1| |] eqn:Ev; try discriminate. cbn [rbind] in Hv. injection Hv as Hl. subst l.
    destruct (dec_str_local _ _ _ Ed) as [d [Hb [Hd Hloc]]].
    assert (skipn off sb = d ++ (r1 ++ skipn e sb)) as Hsk.
    { rewrite (skipn_firstn_split off e sb) by lia. rewrite Hb. rewrite <- app_assoc. reflexivity. }
    assert (dec_str (skipn off sb) = Some (o, r1 ++ skipn e sb)) as Hds by (rewrite Hsk; apply Hloc).
    destruct (consume_string_of_dec_str sb off o _ Hoff Hds) as [s' [e' [Hc' _]]].
    rewrite Ec in Hc'. injection Hc' as _ _ Hrest.
    assert (r1 = firstn (e - e1) (skipn e1 sb)) as Hr1.
    { rewrite Hrest. assert (length (skipn e1 sb) = (length r1 + length (skipn e sb))%nat) as Hl by (rewrite Hrest; apply app_length).
      rewrite !skipn_length in Hl. replace (e - e1)%nat with (length r1) by lia. symmetry. apply firstn_app_len. }
    cbn [dec_alleles]. rewrite Hds. rewrite <- Hrest.
    rewrite Hr1 in Ev. rewrite (IH e1 e r l1 A3 Hc Ev). reflexivity.
Qed.

(* ---------------------------------------------------------------- filters *)
Lemma filter_entries_inv : forall w fuel bs fi, lz_filter_entries w fuel bs = ROk fi ->
  exists xs, bs = concat xs /\ Forall (fun x => length x = wbytes w) xs /\ fi = map (dec_int w) xs /\
             all_nonneg fi = true.
Proof.
  intros w. induction fuel as [|f IH]; intros bs fi H.
  - destruct bs; cbn [lz_filter_entries] in H; [|discriminate]. injection H as Hf. subst fi.
    exists []. repeat split. constructor.
  - destruct bs as [|b bs]; cbn [lz_filter_entries] in H.
    + injection H as Hf. subst fi. exists []. repeat split. constructor.
    + destruct (take (wbytes w) (b :: bs)) as [[x r]|] eqn:Et; [|discriminate].
      destruct (dec_int w x <? 0) eqn:En; [discriminate|].
      destruct (lz_filter_entries w f r) as [l| |] eqn:El; try discriminate. cbn [rbind] in H. injection H as Hf. subst fi.
      apply lz_take_len in Et. destruct Et as [Hb Hx].
      destruct (IH r l El) as [xs [Hr [Hall [Hl Hnn]]]].
      exists (x :: xs). cbn [concat map all_nonneg]. rewrite Hb, Hr, Hl. repeat split.
      * constructor; assumption.
      * rewrite <- Hl, Hnn. destruct (0 <=? dec_int w x) eqn:E; [reflexivity|lia].
Qed.

Lemma resolve_converse : forall m l ns, lz_resolve m l = ROk ns -> resolve_all m l = Some ns.
Proof.
  intros m. induction l as [|i l IH]; intros ns H; cbn [lz_resolve] in H; cbn [resolve_all].
  - injection H as Hn. subst ns. reflexivity.
  - destruct (get_index m (znat (length (entries m)) i)) as [n|]; [|discriminate].
    destruct (lz_resolve m l) as [ns1| |] eqn:E; try discriminate. cbn [rbind] in H. injection H as Hn. subst ns.
    rewrite (IH ns1 eq_refl). reflexivity.
Qed.

(* a FILTER value that is an integer vector of length 0 *)
Definition filter_len0 (bs : list N) : bool :=
  match read_type bs with
  | Some (c, l, _) => negb (c =? 0) && (l =? 0)
  | None => false
  end.

Lemma filters_converse : forall sb off e fi, (off <= length sb)%nat ->
  consume_integers (skipn off sb) off = Some e ->
  lz_filter_indices (firstn (e - off) (skipn off sb)) = ROk fi ->
  filter_len0 (skipn off sb) = false ->
  dec_indices (skipn off sb) = Some (fi, skipn e sb).
Proof.
  intros sb off e fi Hoff H Hf Hne. unfold consume_integers in H. unfold dec_indices. unfold filter_len0 in Hne.
  destruct (read_type (skipn off sb)) as [[[c l] r0]|] eqn:Er; [|discriminate].
  pose proof (read_type_nonneg _ _ _ _ Er) as Hl0.
  destruct (read_type_local _ _ _ _ Er) as [d0 [Hb [Hd Hloc]]].
  assert (length (skipn off sb) = (length d0 + length r0)%nat) as Hsum by (rewrite Hb at 1; apply app_length).
  assert (r0 = skipn (off + length d0) sb) as Hr0.
  { rewrite <- skipn_skipn_add. rewrite Hb. symmetry. apply skipn_app_len. }
  cbv zeta in H.
  match type of H with match ?o with _ => _ end = _ => destruct o as [pl|] eqn:Eo; [|discriminate] end.
  destruct (pl <=? length r0)%nat eqn:El; [|discriminate]. apply Nat.leb_le in El.
  injection H as He.
  assert (e = (off + length d0 + pl)%nat) as He' by lia. clear He.
  assert (firstn (e - off) (skipn off sb) = d0 ++ firstn pl r0) as Hslice.
  { rewrite Hb. rewrite firstn_app. rewrite firstn_all2 by lia. f_equal. f_equal. lia. }
  assert (skipn e sb = skipn pl r0) as Hrest.
  { rewrite Hr0. rewrite skipn_skipn_add. f_equal. lia. }
  rewrite Hslice in Hf. unfold lz_filter_indices in Hf. rewrite Hloc in Hf.
  destruct (c =? 0) eqn:E0.
  - injection Hf as Hfi. subst fi. injection Eo as Hpl. subst pl. rewrite Hrest. reflexivity.
  - cbn [negb andb] in Hne.
    destruct (width_of_code c) as [w|] eqn:Ew; [|discriminate].
    remember (znat (S (length r0)) l) as n eqn:En in *.
    rewrite (wbytes_code c w _ Ew) in Eo. injection Eo as Hpl.
    rewrite Hne.
    destruct (filter_entries_inv _ _ _ _ Hf) as [xs [Hcat [Hall [Hfi Hnn]]]].
    pose proof (lz_wbytes_pos w) as Hw.
    assert (length (concat xs) = (wbytes w * length xs)%nat) as Hcl.
    { clear -Hall. induction Hall as [|x xs Hx Hxs IH]; [cbn; lia|].
      cbn [concat length]. rewrite app_length, IH, Hx. lia. }
    assert (length (firstn pl r0) = pl) as Hfl by (apply firstn_length_le; exact El).
    rewrite Hcat in Hfl. rewrite Hcl in Hfl.
    assert (length xs = n) as Hlen by (apply (Nat.mul_cancel_l _ _ (wbytes w)); lia).
    assert (r0 = concat xs ++ skipn pl r0) as Hr0x by (rewrite <- Hcat; symmetry; apply firstn_skipn).
    assert (chunks n (wbytes w) r0 = Some (xs, skipn pl r0)) as Hch.
    { rewrite Hr0x at 1. apply chunks_app; assumption. }
    destruct (l =? 1) eqn:E1.
    + assert (n = 1%nat) as Hn1 by (rewrite En, znat_min; lia).
      destruct xs as [|x [|x2 xs]]; cbn [length] in Hlen; try lia.
      cbn [concat] in Hr0x. rewrite app_nil_r in Hr0x.
      inversion Hall as [|? ? Hx _]. subst.
      rewrite Hr0x at 1. rewrite lz_take_app by exact Hx.
      cbn [map all_nonneg] in Hnn. rewrite andb_true_r in Hnn.
      rewrite classify_value by (unfold min_value; destruct w; cbn [wmin]; lia).
      rewrite Hnn. rewrite Hrest. reflexivity.
    + rewrite Hch. rewrite <- Hfi. rewrite Hnn. rewrite Hrest. reflexivity.
Qed.

(* ---------------------------------------------------------------- read_site on a block of >= 24 bytes *)
(* the part of dec_head after the fixed fields *)
Definition head_tail (strings : smap) (cname : name) (pos : Z) (fq : fval) (ni na fs r3 : list N)
  : option (head * list N) :=
  match dec_str r3 with
  | Some (ids, r4) =>
    if le_val na =? 0 then None
    else match dec_alleles (Z.to_nat (le_val na)) r4 with
    | Some (ra :: alts, r5) =>
      match dec_indices r5 with
      | Some (fi, r6) =>
        match resolve_all strings fi with
        | Some fnames =>
          Some ({| h_chrom := cname;
                   h_pos := if pos =? -1 then None else Some (pos + 1);
                   h_qual := match fq with FValue b => Some b | _ => None end;
                   h_ids := match ids with Some s => split_on semicolon s | None => [] end;
                   h_ref := ra; h_alts := alts; h_filters := fnames;
                   h_n_info := le_val ni;
                   h_n_fmt := le_val fs / 16777216;
                   h_n_sample := le_val fs mod 16777216 |}, r6)
        | None => None
        end
      | None => None
      end
    | _ => None
    end
  | None => None
  end.

Lemma dec_head_24 : forall strings contigs sb, (24 <= length sb)%nat ->
  dec_head strings contigs sb =
    let chrom := dec_int W32 (firstn 4 sb) in
    let pos := dec_int W32 (firstn 4 (skipn 4 sb)) in
    if (chrom <? 0) || (pos <? -1) || (dec_int W32 (firstn 4 (skipn 8 sb)) <? 0) then None
    else match get_index contigs (znat (length (entries contigs)) chrom) with
    | None => None
    | Some cname =>
      match classify_f (le_val (firstn 4 (skipn 12 sb))) with
      | FEov | FReserved _ => None
      | fq => head_tail strings cname pos fq (firstn 2 (skipn 16 sb)) (firstn 2 (skipn 18 sb))
                (firstn 4 (skipn 20 sb)) (skipn 24 sb)
      end
    end.
Proof.
  intros strings contigs sb H.
  do 24 (destruct sb as [|? sb]; [cbn [length] in H; lia|]). reflexivity.
Qed.

Lemma le_val_nonneg : forall l, 0 <= le_val l.
Proof. induction l as [|b l IH]; cbn [le_val]; lia. Qed.

(* ---------------------------------------------------------------- the site as a whole *)
(* what read_site checks and the lazy views do not: the span, and the length of the FILTER vector *)
Definition site_lazy_only (sb : list N) : bool :=
  (dec_int W32 (firstn 4 (skipn 8 sb)) <? 0)
  || match index_bounds sb with
     | Some bd => filter_len0 (skipn (b_alt_end bd) sb)
     | None => false
     end.

Theorem site_converse : forall strings contigs sb bd c p q rf alts fs,
  lz_index sb = ROk bd -> lz_chrom contigs sb = ROk c -> lz_pos sb = ROk p -> lz_qual sb = ROk q ->
  lz_ref bd sb = ROk rf -> lz_alts bd sb = ROk alts -> lz_filters strings bd sb = ROk fs ->
  site_lazy_only sb = false ->
  exists h info_bytes, dec_head strings contigs sb = Some (h, info_bytes).
Proof.
  intros strings contigs sb bd c p q rf alts fs Hidx Hc Hp Hq Hr Ha Hf Hcls.
  unfold lz_index in Hidx. destruct (index_bounds sb) as [bd'|] eqn:Eib; [|discriminate].
  pose proof (index_bounds_ok _ _ Eib) as [H24 [Hac [I1 [I2 _]]]].
  rewrite lz_slice_ok in Hidx by assumption. cbn [rbind] in Hidx.
  destruct (utf8_valid (firstn (snd (b_ids bd') - fst (b_ids bd')) (skipn (fst (b_ids bd')) sb))) eqn:Eu; [|discriminate].
  injection Hidx as Hbd. subst bd'.
  unfold site_lazy_only in Hcls. rewrite Eib in Hcls. apply orb_false_iff in Hcls. destruct Hcls as [Hrl Hfl].
  unfold index_bounds in Eib.
  destruct (length sb <? 24)%nat; [discriminate|].
  destruct (allele_count sb =? 0) eqn:Eac; [discriminate|].
  destruct (consume_string (skipn 24 sb) 24) as [[[s1 e1] b1]|] eqn:E1; [|discriminate].
  pose proof (consume_string_bounds sb 24 s1 e1 b1 H24 E1) as [A1 [A2 [A3 A4]]]. subst b1.
  destruct (consume_string (skipn e1 sb) e1) as [[[s2 e2] b2]|] eqn:E2; [|discriminate].
  pose proof (consume_string_bounds sb e1 s2 e2 b2 A3 E2) as [B1 [B2 [B3 B4]]]. subst b2.
  destruct (consume_alts (Z.to_nat (allele_count sb - 1)) (skipn e2 sb) e2) as [[e3 b3]|] eqn:E3; [|discriminate].
  pose proof (consume_alts_bounds sb _ e2 e3 b3 B3 E3) as [C1 [C2 C3]]. subst b3.
  destruct (consume_integers (skipn e3 sb) e3) as [e4|] eqn:E4; [|discriminate].
  pose proof (consume_integers_bounds sb e3 e4 C2 E4) as [D1 [D2 _]].
  injection Eib as Hbd. subst bd. cbn [b_ids b_ref b_alt_end b_filters_end fst snd] in *.
  rewrite dec_head_24 by exact H24. cbv zeta.
  (* CHROM *)
  unfold lz_chrom in Hc. rewrite lz_slice_ok in Hc by lia. cbn [rbind Nat.sub skipn] in Hc.
  destruct (dec_int W32 (firstn 4 sb) <? 0) eqn:Ec0; [discriminate|].
  destruct (get_index contigs (znat (length (entries contigs)) (dec_int W32 (firstn 4 sb)))) as [cname|] eqn:Ecn; [|discriminate].
  (* POS *)
  unfold lz_pos in Hp. rewrite lz_slice_ok in Hp by lia. cbn [rbind] in Hp. change (8 - 4)%nat with 4%nat in Hp.
  assert (dec_int W32 (firstn 4 (skipn 4 sb)) <? -1 = false) as Ep0.
  { destruct (dec_int W32 (firstn 4 (skipn 4 sb)) =? -1) eqn:E; [lia|].
    destruct (dec_int W32 (firstn 4 (skipn 4 sb)) <? 0) eqn:E'; [discriminate|lia]. }
  rewrite Ep0, Hrl. cbn [orb].
  (* everything after QUAL *)
  assert (forall fq, exists h ib,
    head_tail strings cname (dec_int W32 (firstn 4 (skipn 4 sb))) fq (firstn 2 (skipn 16 sb))
      (firstn 2 (skipn 18 sb)) (firstn 4 (skipn 20 sb)) (skipn 24 sb) = Some (h, ib)) as Htail.
  { intros fq. unfold head_tail.
    rewrite (dec_str_of_consume_string sb 24 s1 e1 _ H24 E1 Eu).
    fold (allele_count sb). rewrite Eac.
    pose proof (le_val_nonneg (firstn 2 (skipn 18 sb))) as Hnn. fold (allele_count sb) in Hnn.
    replace (Z.to_nat (allele_count sb)) with (S (Z.to_nat (allele_count sb - 1))) by lia.
    cbn [dec_alleles].
    (* REF *)
    unfold lz_ref in Hr. cbn [b_ref fst snd] in Hr. rewrite lz_slice_ok in Hr by lia. cbn [rbind] in Hr. cbv zeta in Hr.
    assert (utf8_valid (firstn (e2 - s2) (skipn s2 sb)) = true) as Eur.
    { destruct (firstn (e2 - s2) (skipn s2 sb)) as [|x0 x]; [reflexivity|].
      destruct (utf8_valid (x0 :: x)); [reflexivity|discriminate]. }
    rewrite (dec_str_of_consume_string sb e1 s2 e2 _ A3 E2 Eur).
    (* ALT *)
    unfold lz_alts in Ha. cbn [b_ref b_alt_end fst snd] in Ha. rewrite lz_slice_ok in Ha by lia. cbn [rbind] in Ha.
    unfold lz_u16 in Ha. rewrite lz_slice_ok in Ha by lia. cbn [rbind] in Ha.
    change (18 + 2 - 18)%nat with 2%nat in Ha. fold (allele_count sb) in Ha. rewrite Eac in Ha.
    rewrite (alts_converse sb _ e2 e3 _ alts B3 E3 Ha).
    (* FILTER *)
    unfold lz_filters in Hf. cbn [b_alt_end b_filters_end] in Hf. rewrite lz_slice_ok in Hf by lia. cbn [rbind] in Hf.
    destruct (lz_filter_indices (firstn (e4 - e3) (skipn e3 sb))) as [fi| |] eqn:Efi; try discriminate.
    cbn [rbind] in Hf.
    rewrite (filters_converse sb e3 e4 fi C2 E4 Efi Hfl).
    rewrite (resolve_converse _ _ _ Hf). eexists. eexists. reflexivity. }
  (* QUAL *)
  unfold lz_qual in Hq. rewrite lz_slice_ok in Hq by lia. cbn [rbind] in Hq. change (16 - 12)%nat with 4%nat in Hq.
  destruct (classify_f (le_val (firstn 4 (skipn 12 sb)))) as [b| | |] eqn:Eq; try discriminate; apply Htail.
Qed.

(* ================================================================ the INFO block *)
(* An INFO Character (Number=1) that the lazy accessor accepts is one character; the eager MODEL wants
   one byte.  The walk below is that of lz_info_fields and checks that such a value is ASCII text. *)
Fixpoint lz_info_char_ascii (strings : smap) (ik : name -> option ikind) (n : nat) (bs : list N) : bool :=
  match n with
  | O => true
  | S n' =>
    match dec_index bs with
    | None => true
    | Some (i, r) =>
      match get_index strings (znat (length (entries strings)) i) with
      | None => true
      | Some k =>
        match split_typed false 1 r with
        | None => true
        | Some (vb, r') =>
          match ik k, dec_info_string vb with
          | Some (KChar false), ROk (Some s) => ascii_str s
          | _, _ => true
          end && lz_info_char_ascii strings ik n' r'
        end
      end
    end
  end.

(* the eager value reader accepts what the lazy one accepts *)
Lemma info_kind_converse : forall kd vb v, lz_info_kind kd vb = ROk v ->
  match kd, dec_info_string vb with KChar false, ROk (Some s) => ascii_str s | _, _ => true end = true ->
  exists v', dec_info_kind kd vb = ROk v'.
Proof.
  intros kd vb v H Ha.
  destruct kd as [a|a| |a|a]; try (exists v; exact H); destruct a; try (exists v; exact H).
  - (* Character array *)
    cbn [lz_info_kind] in H. unfold lz_info_chars in H. cbn [dec_info_kind]. unfold dec_info_chars.
    destruct (dec_info_string vb) as [o| |]; try discriminate H. cbn [rbind] in *.
    destruct o as [s|]; eexists; reflexivity.
  - (* Character *)
    cbn [lz_info_kind] in H. unfold lz_info_char in H. cbn [dec_info_kind]. unfold dec_info_char.
    destruct (dec_info_string vb) as [o| |]; try discriminate H. cbn [rbind] in *.
    destruct o as [s|]; [|eexists; reflexivity].
    rewrite (utf8_chars_ascii s Ha) in H.
    destruct s as [|c [|c2 s]]; try discriminate H. eexists. reflexivity.
Qed.

Lemma info_fields_converse : forall strings ik n bs l,
  lz_info_fields strings ik n bs = ROk l ->
  keys_distinct (map fst l) = true ->
  lz_info_char_ascii strings ik n bs = true ->
  exists infos r ivs, dec_fields_k strings 1 true n bs = Some (infos, r) /\ map fst infos = map fst l /\
    map_rres (fun kv : name * list N =>
                match ik (fst kv) with
                | None => RErr
                | Some k => rbind (dec_info_kind k (snd kv)) (fun v => ROk (fst kv, v))
                end) infos = ROk ivs.
Proof.
  intros strings ik. induction n as [|n IH]; intros bs l H Hd Ha; cbn [lz_info_fields] in H; cbn [lz_info_char_ascii] in Ha.
  - injection H as Hl. subst l. exists [], bs, []. repeat split.
  - destruct (dec_index bs) as [[i r0]|] eqn:E0; [|discriminate].
    destruct (get_index strings (znat (length (entries strings)) i)) as [k|] eqn:E1; [|discriminate].
    destruct (ik k) as [kd|] eqn:Ek; [|discriminate].
    destruct (split_typed false 1 r0) as [[vb r1]|] eqn:E2; [|discriminate].
    destruct (lz_info_kind kd vb) as [v| |] eqn:Ev; try discriminate. cbn [rbind] in H.
    destruct (lz_info_fields strings ik n r1) as [l1| |] eqn:El; try discriminate. cbn [rbind] in H.
    injection H as Hl. subst l.
    cbn [map fst keys_distinct] in Hd. apply andb_prop in Hd. destruct Hd as [Hk Hd].
    apply andb_prop in Ha. destruct Ha as [Ha1 Ha2].
    destruct (IH r1 l1 El Hd Ha2) as [infos [r [ivs [Hf [Hkeys Hm]]]]].
    assert (exists v', dec_info_kind kd vb = ROk v') as [v' Hv'].
    { apply (info_kind_converse kd vb v Ev). destruct kd as [a|a| |[|]|a]; try reflexivity. exact Ha1. }
    exists ((k, vb) :: infos), r, ((k, v') :: ivs). cbn [dec_fields_k]. rewrite E0, E1. cbn [negb andb]. rewrite E2, Hf.
    rewrite has_key_mem_name. rewrite Hkeys. apply negb_true_iff in Hk. rewrite Hk.
    split; [reflexivity|]. split; [cbn [map fst]; rewrite Hkeys; reflexivity|].
    cbn [map_rres fst snd]. rewrite Ek, Hv'. cbn [rbind]. rewrite Hm. reflexivity.
Qed.

(* ================================================================ the samples block *)
(* ---------------------------------------------------------------- cells *)
Lemma chunks_total : forall n k bs, (n * k <= length bs)%nat -> exists xs r, chunks n k bs = Some (xs, r).
Proof.
  induction n as [|n IH]; intros k bs H; [exists [], bs; reflexivity|].
  cbn [chunks]. unfold take. destruct (k <=? length bs)%nat eqn:E; [|apply Nat.leb_gt in E; lia].
  apply Nat.leb_le in E.
  destruct (IH k (skipn k bs)) as [xs [r Hc]]; [rewrite skipn_length; lia|].
  rewrite Hc. eexists. eexists. reflexivity.
Qed.

(* a block of exactly l entries of k bytes, followed by anything *)
Lemma chunks_exact_app : forall l k (x r1 : list N), length x = (k * l)%nat ->
  exists xs, chunks l k x = Some (xs, []) /\ chunks l k (x ++ r1) = Some (xs, r1) /\ concat xs = x.
Proof.
  intros l k x r1 Hx.
  destruct (chunks_total l k x) as [xs [r0 Hc]]; [lia|].
  destruct (chunks_concat _ _ _ _ _ Hc) as [Hcat [Hlen Hall]].
  pose proof (concat_length_k k xs Hall) as Hcl.
  assert (r0 = []) as Hr0.
  { assert (length x = (length (concat xs) + length r0)%nat) as Hl by (rewrite Hcat at 1; apply app_length).
    destruct r0; [reflexivity|cbn [length] in Hl; lia]. }
  subst r0. rewrite app_nil_r in Hcat. exists xs. split; [exact Hc|]. split; [|symmetry; exact Hcat].
  rewrite Hcat. apply chunks_app; assumption.
Qed.

Lemma map_rres_ok_in : forall {A B} (f : A -> rres B) l r, map_rres f l = ROk r ->
  forall x, In x l -> exists y, f x = ROk y.
Proof.
  intros A B f. induction l as [|a l IH]; intros r H x Hin; [contradiction|].
  cbn [map_rres] in H. destruct (f a) as [y| |] eqn:E; try discriminate. cbn [rbind] in H.
  destruct (map_rres f l) as [ys| |] eqn:E2; try discriminate.
  destruct Hin as [Hx|Hin]; [subst a; exists y; exact E|apply (IH ys eq_refl x Hin)].
Qed.

(* the indexed reads of a column succeed: the payload holds one cell per sample, and the column is the
   map over the cells *)
Lemma column_cells_inv : forall {B} (G : nat -> rres B) (F : list N -> rres B) ns k pay lcol,
  (forall i, (i < ns)%nat -> G i = match lz_get (i * k) k pay with Some x => F x | None => RErr end) ->
  map_rres G (seq 0 ns) = ROk lcol ->
  exists cells r, chunks ns k pay = Some (cells, r) /\ map_rres F cells = ROk lcol.
Proof.
  intros B G F ns k pay lcol HG H.
  assert (ns * k <= length pay)%nat as Hlen.
  { destruct ns as [|m]; [cbn; lia|].
    destruct (map_rres_ok_in _ _ _ H m) as [y Hy]; [apply in_seq; lia|].
    rewrite HG in Hy by lia. unfold lz_get in Hy.
    destruct (m * k + k <=? length pay)%nat eqn:E; [apply Nat.leb_le in E; lia|discriminate]. }
  destruct (chunks_total ns k pay Hlen) as [cells [r Hc]].
  exists cells, r. split; [exact Hc|].
  rewrite <- (column_by_cells G F ns k pay cells r Hc HG). exact H.
Qed.

(* ---------------------------------------------------------------- Integer / Float series *)
Lemma int_scalars_inv : forall w ns pay cells r l', chunks ns (wbytes w) pay = Some (cells, r) ->
  map_rres (lz_int_scalar w) cells = ROk l' -> exists l, dec_scalars w ns pay = ROk l.
Proof.
  intros w. induction ns as [|ns IH]; intros pay cells r l' Hc Hm; [eexists; reflexivity|].
  cbn [chunks] in Hc. destruct (take (wbytes w) pay) as [[x r1]|] eqn:Et; [|discriminate].
  destruct (chunks ns (wbytes w) r1) as [[xs r2]|] eqn:Ec; [|discriminate]. injection Hc as Hcs Hr. subst cells r2.
  cbn [map_rres] in Hm. destruct (lz_int_scalar w x) as [c| |] eqn:Ex; try discriminate. cbn [rbind] in Hm.
  destruct (map_rres (lz_int_scalar w) xs) as [cs| |] eqn:Em; try discriminate.
  destruct (IH r1 xs r cs Ec Em) as [l Hl].
  cbn [dec_scalars]. rewrite Et. unfold lz_int_scalar in Ex.
  destruct (classify w (dec_int w x)) as [n| | |]; try discriminate; rewrite Hl; eexists; reflexivity.
Qed.

Lemma float_scalars_inv : forall ns pay cells r l', chunks ns 4 pay = Some (cells, r) ->
  map_rres lz_float_scalar cells = ROk l' -> exists l, dec_fscalars ns pay = ROk l.
Proof.
  induction ns as [|ns IH]; intros pay cells r l' Hc Hm; [eexists; reflexivity|].
  cbn [chunks] in Hc. destruct (take 4 pay) as [[x r1]|] eqn:Et; [|discriminate].
  destruct (chunks ns 4 r1) as [[xs r2]|] eqn:Ec; [|discriminate]. injection Hc as Hcs Hr. subst cells r2.
  cbn [map_rres] in Hm. destruct (lz_float_scalar x) as [c| |] eqn:Ex; try discriminate. cbn [rbind] in Hm.
  destruct (map_rres lz_float_scalar xs) as [cs| |] eqn:Em; try discriminate.
  destruct (IH r1 xs r cs Ec Em) as [l Hl].
  cbn [dec_fscalars]. rewrite Et. unfold lz_float_scalar in Ex.
  destruct (classify_f (le_val x)) as [n| | |]; try discriminate; rewrite Hl; eexists; reflexivity.
Qed.

Lemma int_arrays_inv : forall w l ns pay cells r cs, chunks ns (wbytes w * l) pay = Some (cells, r) ->
  map_rres (lz_int_array w l) cells = ROk cs -> exists ss, dec_samples w ns l pay = ROk ss.
Proof.
  intros w l. induction ns as [|ns IH]; intros pay cells r cs Hc Hm; [eexists; reflexivity|].
  cbn [chunks] in Hc. destruct (take (wbytes w * l) pay) as [[x r1]|] eqn:Et; [|discriminate].
  destruct (chunks ns (wbytes w * l) r1) as [[xs r2]|] eqn:Ec; [|discriminate]. injection Hc as Hcs Hr. subst cells r2.
  cbn [map_rres] in Hm. destruct (lz_int_array w l x) as [c| |] eqn:Ex; try discriminate. cbn [rbind] in Hm.
  destruct (map_rres (lz_int_array w l) xs) as [cs'| |] eqn:Em; try discriminate.
  destruct (IH r1 xs r cs' Ec Em) as [ss Hss].
  apply lz_take_len in Et. destruct Et as [Hpay Hx].
  destruct (chunks_exact_app l (wbytes w) x r1 Hx) as [es [He1 [He2 _]]].
  unfold lz_int_array in Ex. rewrite He1 in Ex.
  destruct (sample_entries w es) as [vs| |] eqn:Ee; try discriminate.
  cbn [dec_samples]. rewrite Hpay, He2, Ee. cbn [rbind]. rewrite Hss. eexists. reflexivity.
Qed.

Lemma float_arrays_inv : forall l ns pay cells r cs, chunks ns (4 * l) pay = Some (cells, r) ->
  map_rres (lz_float_array l) cells = ROk cs -> exists ss, dec_fsamples ns l pay = ROk ss.
Proof.
  intros l. induction ns as [|ns IH]; intros pay cells r cs Hc Hm; [eexists; reflexivity|].
  cbn [chunks] in Hc. destruct (take (4 * l) pay) as [[x r1]|] eqn:Et; [|discriminate].
  destruct (chunks ns (4 * l) r1) as [[xs r2]|] eqn:Ec; [|discriminate]. injection Hc as Hcs Hr. subst cells r2.
  cbn [map_rres] in Hm. destruct (lz_float_array l x) as [c| |] eqn:Ex; try discriminate. cbn [rbind] in Hm.
  destruct (map_rres (lz_float_array l) xs) as [cs'| |] eqn:Em; try discriminate.
  destruct (IH r1 xs r cs' Ec Em) as [ss Hss].
  apply lz_take_len in Et. destruct Et as [Hpay Hx].
  destruct (chunks_exact_app l 4 x r1 Hx) as [es [He1 [He2 _]]].
  unfold lz_float_array in Ex. rewrite He1 in Ex.
  destruct (fsample_entries es) as [vs| |] eqn:Ee; try discriminate.
  cbn [dec_fsamples]. rewrite Hpay, He2, Ee. cbn [rbind]. rewrite Hss. eexists. reflexivity.
Qed.

(* ---------------------------------------------------------------- Character / String series *)
Lemma string_cells_valid : forall k cells cs, map_rres (lz_string_cell k) cells = ROk cs ->
  Forall (fun x => utf8_valid (until_nul x) = true) cells.
Proof.
  intros k. induction cells as [|x cells IH]; intros cs H; [constructor|].
  cbn [map_rres] in H. destruct (lz_string_cell k x) as [c| |] eqn:Ex; try discriminate. cbn [rbind] in H.
  destruct (map_rres (lz_string_cell k) cells) as [cs'| |] eqn:Em; try discriminate.
  constructor; [|apply (IH cs' eq_refl)].
  unfold lz_string_cell, lz_cell_string in Ex. destruct (utf8_valid (until_nul x)); [reflexivity|discriminate].
Qed.

Lemma str_cells_inv : forall ns l pay cells r, chunks ns l pay = Some (cells, r) ->
  Forall (fun x => utf8_valid (until_nul x) = true) cells -> dec_cells ns l pay = Some (map until_nul cells).
Proof.
  induction ns as [|ns IH]; intros l pay cells r Hc Hv; cbn [chunks] in Hc.
  - injection Hc as Hcs _. subst cells. reflexivity.
  - destruct (take l pay) as [[x r1]|] eqn:Et; [|discriminate].
    destruct (chunks ns l r1) as [[xs r2]|] eqn:Ec; [|discriminate]. injection Hc as Hcs Hr. subst cells r2.
    inversion Hv as [|? ? Hx Hxs]. subst.
    cbn [dec_cells map]. rewrite Et, Hx. rewrite (IH l r1 xs r Ec Hxs). reflexivity.
Qed.

Lemma first_char_inv : forall p o, lz_first_char p = ROk o -> exists o', first_char p = ROk o'.
Proof.
  intros p o H. destruct p as [|c r]; [discriminate|]. eexists. reflexivity.
Qed.

Lemma first_chars_inv : forall ps l, map_rres lz_first_char ps = ROk l -> exists l', map_rres first_char ps = ROk l'.
Proof.
  induction ps as [|p ps IH]; intros l H; [eexists; reflexivity|].
  cbn [map_rres] in H. destruct (lz_first_char p) as [o| |] eqn:Ep; try discriminate. cbn [rbind] in H.
  destruct (map_rres lz_first_char ps) as [l1| |] eqn:Em; try discriminate.
  destruct (first_char_inv p o Ep) as [o' Ho']. destruct (IH l1 eq_refl) as [l' Hl'].
  cbn [map_rres]. rewrite Ho'. cbn [rbind]. rewrite Hl'. eexists. reflexivity.
Qed.

Lemma fmt_chars_inv : forall cells cs, map_rres (lz_string_cell (FChar true)) cells = ROk cs ->
  exists l, map_rres first_char (map until_nul cells) = ROk l.
Proof.
  induction cells as [|x cells IH]; intros cs H; [eexists; reflexivity|].
  cbn [map_rres] in H. destruct (lz_string_cell (FChar true) x) as [c| |] eqn:Ex; try discriminate. cbn [rbind] in H.
  destruct (map_rres (lz_string_cell (FChar true)) cells) as [cs'| |] eqn:Em; try discriminate.
  destruct (IH cs' eq_refl) as [l Hl].
  unfold lz_string_cell, lz_cell_string in Ex. destruct (utf8_valid (until_nul x)); [|discriminate]. cbn [rbind] in Ex.
  destruct (lz_first_char (until_nul x)) as [o| |] eqn:Ef; try discriminate.
  destruct (first_char_inv _ _ Ef) as [o' Ho'].
  cbn [map map_rres]. rewrite Ho'. cbn [rbind]. rewrite Hl. eexists. reflexivity.
Qed.

Lemma fmt_char_arrays_inv : forall cells cs, map_rres (lz_string_cell (FChar false)) cells = ROk cs ->
  exists l, map_rres (fun s => rbind (map_rres first_char (split_on comma s)) (fun l => ROk (Some l)))
                     (map until_nul cells) = ROk l.
Proof.
  induction cells as [|x cells IH]; intros cs H; [eexists; reflexivity|].
  cbn [map_rres] in H. destruct (lz_string_cell (FChar false) x) as [c| |] eqn:Ex; try discriminate. cbn [rbind] in H.
  destruct (map_rres (lz_string_cell (FChar false)) cells) as [cs'| |] eqn:Em; try discriminate.
  destruct (IH cs' eq_refl) as [l Hl].
  unfold lz_string_cell, lz_cell_string in Ex. destruct (utf8_valid (until_nul x)); [|discriminate]. cbn [rbind] in Ex.
  destruct (map_rres lz_first_char (split_on comma (until_nul x))) as [os| |] eqn:Ef; try discriminate.
  destruct (first_chars_inv _ _ Ef) as [os' Ho'].
  cbn [map map_rres]. rewrite Ho'. cbn [rbind]. rewrite Hl. eexists. reflexivity.
Qed.

(* ---------------------------------------------------------------- genotypes *)
(* a GT cell that parse_genotype_values accepts: before the first end-of-vector byte (0x81) every byte is
   below 0x80.  (The lazy Genotype::iter stops at the first byte of 0x80..0x87 and takes every other byte
   for an allele.) *)
Fixpoint gt_cell_plain (cell : list N) : bool :=
  match cell with
  | [] => true
  | b :: r => if (b =? 129)%N then true else (b <? 128)%N && gt_cell_plain r
  end.

Lemma parse_gt_plain : forall cell, byte_list cell -> gt_cell_plain cell = true ->
  exists g, parse_gt (map (fun b => dec_int W8 [b]) cell) = ROk g.
Proof.
  induction cell as [|b cell IH]; intros Hb Hp; [eexists; reflexivity|].
  inversion Hb as [|? ? Hb1 Hb2]. subst. cbn [gt_cell_plain] in Hp. cbn [map parse_gt].
  rewrite (dec_int8_byte b Hb1).
  destruct (b =? 129)%N eqn:E129.
  - apply N.eqb_eq in E129. subst b. cbn. eexists. reflexivity.
  - apply andb_prop in Hp. destruct Hp as [Hlt Hp].
    replace (b <=? 127)%N with true by lia.
    rewrite classify_value by (unfold min_value; cbn [wmin]; lia).
    destruct (Z.of_N b / 2 - 1 <? -1) eqn:Ej; [lia|].
    destruct (IH Hb2 Hp) as [g Hg]. rewrite Hg. eexists. reflexivity.
Qed.

Lemma gt_samples_inv : forall ns l pay cells r, byte_list pay -> chunks ns (1 * l) pay = Some (cells, r) ->
  forallb gt_cell_plain cells = true -> exists gs, dec_gt_samples ns l pay = ROk gs.
Proof.
  induction ns as [|ns IH]; intros l pay cells r Hb Hc Hp; [eexists; reflexivity|].
  cbn [chunks] in Hc. destruct (take (1 * l) pay) as [[x r1]|] eqn:Et; [|discriminate].
  destruct (chunks ns (1 * l) r1) as [[xs r2]|] eqn:Ec; [|discriminate]. injection Hc as Hcs Hr. subst cells r2.
  cbn [forallb] in Hp. apply andb_prop in Hp. destruct Hp as [Hp1 Hp2].
  apply lz_take_len in Et. destruct Et as [Hpay Hx].
  rewrite Hpay in Hb. apply byte_list_app in Hb. destruct Hb as [Hbx Hbr].
  destruct (IH l r1 xs r Hbr Ec Hp2) as [gs Hgs].
  destruct (chunks_exact_app l 1 x r1 Hx) as [es [He1 [He2 Hcat]]].
  destruct (parse_gt_plain x Hbx Hp1) as [g Hg].
  cbn [dec_gt_samples]. rewrite Hpay, He2.
  rewrite (singles _ _ _ _ He1). rewrite map_map. rewrite Hcat. rewrite Hg. cbn [rbind]. rewrite Hgs.
  eexists. reflexivity.
Qed.

(* ---------------------------------------------------------------- one column *)
Definition is_some {A} (o : option A) : bool := match o with Some _ => true | None => false end.

(* what read_values / read_genotype_values (and the eager model's lookup of the key) check on a series
   BEFORE any sample is read.  The lazy Series::get makes the same checks, but only when a sample asks
   for a value: with n_sample = 0 it makes none of them.  (The FORMAT definition of GT is asked for by
   the eager MODEL only.) *)
Definition series_header_ok (fk : name -> option fkind) (nm : name) (s : series) : bool :=
  match fk nm with
  | None => false
  | Some k =>
    if name_eqb nm GT then se_code s =? 1
    else negb ((se_len s =? 0) && negb (se_code s =? 7)) &&
         match k with
         | FInt _ => is_some (width_of_code (se_code s))
         | FFloat _ => se_code s =? 5
         | FChar _ | FStr _ => se_code s =? 7
         end
  end.

Definition series_gt_ok (ns : nat) (nm : name) (s : series) : bool :=
  if name_eqb nm GT
  then cells_all gt_cell_plain ns (1 * znat (S (length (se_pay s))) (se_len s)) (se_pay s)
  else true.

Lemma column_converse : forall v44 fk ns nm id code len pay vb lcol,
  byte_list pay -> read_type vb = Some (code, len, pay) ->
  lz_column v44 fk ns nm (mk_series id code len pay) = ROk lcol ->
  series_header_ok fk nm (mk_series id code len pay) = true ->
  series_gt_ok ns nm (mk_series id code len pay) = true ->
  exists ecol, eager_column fk ns (nm, vb) = ROk ecol.
Proof.
  intros v44 fk ns nm id code len pay vb lcol Hb Hr Hl Hh Hg.
  unfold series_header_ok in Hh. unfold series_gt_ok in Hg. cbn [mk_series se_code se_len se_pay] in Hh, Hg.
  unfold eager_column. cbn [fst snd]. unfold lz_column in Hl.
  destruct (fk nm) as [kd|] eqn:Ek; [|discriminate].
  remember (znat (S (length pay)) len) as l eqn:El.
  destruct (name_eqb nm GT) eqn:Eg.
  - (* GT *)
    unfold dec_gt_col. rewrite Hr. rewrite Hh. cbn [andb].
    destruct (len =? 0) eqn:E0; [eexists; reflexivity|].
    unfold dec_gt. rewrite Hr, Hh, E0. rewrite <- El.
    assert (forall i, (i < ns)%nat -> lz_cell v44 true (Some kd) (mk_series id code len pay) i =
      match lz_get (i * (1 * l)) (1 * l) pay with Some x => ROk (CG (Some (lz_genotype v44 x))) | None => RErr end) as HG.
    { intros i Hi. unfold lz_cell. cbn [mk_series se_pay se_len se_code]. cbv zeta. rewrite <- El. rewrite Hh, E0.
      rewrite lz_get_mul. reflexivity. }
    destruct (column_cells_inv _ _ ns (1 * l)%nat pay lcol HG Hl) as [cells [r [Hc _]]].
    pose proof (cells_all_ok gt_cell_plain _ _ _ _ _ Hc Hg) as Hp.
    destruct (gt_samples_inv ns l pay cells r Hb Hc Hp) as [gs Hgs].
    rewrite Hgs. eexists. reflexivity.
  - apply andb_prop in Hh. destruct Hh as [Hz Hty]. apply negb_true_iff in Hz.
    destruct kd as [sc|sc|sc|sc]; cbn [dec_fmt_kind].
    + (* Integer *)
      destruct (width_of_code code) as [w|] eqn:Ew; [|discriminate].
      assert (code =? 0 = false) as E0 by (destruct (code =? 0) eqn:E; [|reflexivity]; replace code with 0 in Ew by lia; discriminate).
      unfold dec_fmt_int_gen. rewrite Hr, E0, Hz, Ew. rewrite <- El.
      destruct (sc && (len =? 1)) eqn:Esc.
      * assert (l = 1%nat) as Hl1 by (subst l; rewrite znat_min; lia).
        assert (forall i, (i < ns)%nat -> lz_cell v44 false (Some (FInt sc)) (mk_series id code len pay) i =
          match lz_get (i * (wbytes w * l)) (wbytes w * l) pay with Some x => lz_int_scalar w x | None => RErr end) as HG.
        { intros i Hi. unfold lz_cell. cbn [mk_series se_pay se_len se_code]. cbv zeta. rewrite <- El. rewrite Hz, Ew, Esc.
          rewrite lz_get_mul. reflexivity. }
        destruct (column_cells_inv _ _ ns (wbytes w * l)%nat pay lcol HG Hl) as [cells [r [Hc Hm]]].
        replace (wbytes w * l)%nat with (wbytes w) in Hc by lia.
        destruct (int_scalars_inv w ns pay cells r lcol Hc Hm) as [lv Hlv]. rewrite Hlv. eexists. reflexivity.
      * assert (forall i, (i < ns)%nat -> lz_cell v44 false (Some (FInt sc)) (mk_series id code len pay) i =
          match lz_get (i * (wbytes w * l)) (wbytes w * l) pay with Some x => lz_int_array w l x | None => RErr end) as HG.
        { intros i Hi. unfold lz_cell. cbn [mk_series se_pay se_len se_code]. cbv zeta. rewrite <- El. rewrite Hz, Ew, Esc.
          rewrite lz_get_mul. reflexivity. }
        destruct (column_cells_inv _ _ ns (wbytes w * l)%nat pay lcol HG Hl) as [cells [r [Hc Hm]]].
        destruct (int_arrays_inv w l ns pay cells r lcol Hc Hm) as [ss Hss]. rewrite Hss. eexists. reflexivity.
    + (* Float *)
      assert (code =? 0 = false) as E0 by lia.
      assert (width_of_code code = None) as Ew by (replace code with 5 by lia; reflexivity).
      unfold dec_fmt_float_gen. rewrite Hr, E0, Hz, Hty. rewrite <- El.
      destruct (sc && (len =? 1)) eqn:Esc.
      * assert (l = 1%nat) as Hl1 by (subst l; rewrite znat_min; lia).
        assert (forall i, (i < ns)%nat -> lz_cell v44 false (Some (FFloat sc)) (mk_series id code len pay) i =
          match lz_get (i * (4 * l)) (4 * l) pay with Some x => lz_float_scalar x | None => RErr end) as HG.
        { intros i Hi. unfold lz_cell. cbn [mk_series se_pay se_len se_code]. cbv zeta. rewrite <- El. rewrite Hz, Ew, Hty, Esc.
          rewrite lz_get_mul. reflexivity. }
        destruct (column_cells_inv _ _ ns (4 * l)%nat pay lcol HG Hl) as [cells [r [Hc Hm]]].
        replace (4 * l)%nat with 4%nat in Hc by lia.
        destruct (float_scalars_inv ns pay cells r lcol Hc Hm) as [lv Hlv]. rewrite Hlv. eexists. reflexivity.
      * assert (forall i, (i < ns)%nat -> lz_cell v44 false (Some (FFloat sc)) (mk_series id code len pay) i =
          match lz_get (i * (4 * l)) (4 * l) pay with Some x => lz_float_array l x | None => RErr end) as HG.
        { intros i Hi. unfold lz_cell. cbn [mk_series se_pay se_len se_code]. cbv zeta. rewrite <- El. rewrite Hz, Ew, Hty, Esc.
          rewrite lz_get_mul. reflexivity. }
        destruct (column_cells_inv _ _ ns (4 * l)%nat pay lcol HG Hl) as [cells [r [Hc Hm]]].
        destruct (float_arrays_inv l ns pay cells r lcol Hc Hm) as [ss Hss]. rewrite Hss. eexists. reflexivity.
    + (* Character *)
      assert (code =? 0 = false) as E0 by lia.
      assert (width_of_code code = None) as Ew by (replace code with 7 by lia; reflexivity).
      assert (forall i, (i < ns)%nat -> lz_cell v44 false (Some (FChar sc)) (mk_series id code len pay) i =
        match lz_get (i * (1 * l)) (1 * l) pay with Some x => lz_string_cell (FChar sc) x | None => RErr end) as HG.
      { intros i Hi. unfold lz_cell. cbn [mk_series se_pay se_len se_code]. cbv zeta. rewrite <- El. rewrite Hz, Ew, Hty.
        rewrite lz_get_mul. reflexivity. }
      destruct (column_cells_inv _ _ ns (1 * l)%nat pay lcol HG Hl) as [cells [r [Hc Hm]]].
      replace (1 * l)%nat with l in Hc by lia.
      pose proof (str_cells_inv ns l pay cells r Hc (string_cells_valid _ _ _ Hm)) as Hd.
      assert (dec_fmt_cells ns vb = ROk (map until_nul cells)) as Hcells.
      { unfold dec_fmt_cells. rewrite Hr, E0, Hz, Hty. rewrite <- El. rewrite Hd. reflexivity. }
      destruct sc.
      * unfold dec_fmt_chars. rewrite Hcells. cbn [rbind].
        destruct (fmt_chars_inv cells lcol Hm) as [lv Hlv]. rewrite Hlv. eexists. reflexivity.
      * unfold dec_fmt_char_arrays. rewrite Hcells. cbn [rbind].
        destruct (fmt_char_arrays_inv cells lcol Hm) as [lv Hlv]. rewrite Hlv. eexists. reflexivity.
    + (* String *)
      assert (code =? 0 = false) as E0 by lia.
      assert (width_of_code code = None) as Ew by (replace code with 7 by lia; reflexivity).
      assert (forall i, (i < ns)%nat -> lz_cell v44 false (Some (FStr sc)) (mk_series id code len pay) i =
        match lz_get (i * (1 * l)) (1 * l) pay with Some x => lz_string_cell (FStr sc) x | None => RErr end) as HG.
      { intros i Hi. unfold lz_cell. cbn [mk_series se_pay se_len se_code]. cbv zeta. rewrite <- El. rewrite Hz, Ew, Hty.
        rewrite lz_get_mul. reflexivity. }
      destruct (column_cells_inv _ _ ns (1 * l)%nat pay lcol HG Hl) as [cells [r [Hc Hm]]].
      replace (1 * l)%nat with l in Hc by lia.
      pose proof (str_cells_inv ns l pay cells r Hc (string_cells_valid _ _ _ Hm)) as Hd.
      assert (dec_fmt_cells ns vb = ROk (map until_nul cells)) as Hcells.
      { unfold dec_fmt_cells. rewrite Hr, E0, Hz, Hty. rewrite <- El. rewrite Hd. reflexivity. }
      destruct sc.
      * unfold dec_fmt_strings. rewrite Hcells. eexists. reflexivity.
      * unfold dec_fmt_str_arrays. rewrite Hcells. eexists. reflexivity.
Qed.

(* ---------------------------------------------------------------- the walk over the block *)
Lemma split_typed_of_series : forall sflag ns r0 code len r2 k pay rest,
  read_type r0 = Some (code, len, r2) ->
  sflag && ((code =? 0) || ((len =? 0) && negb (code =? 7))) = false ->
  value_payload (S (length r2)) code len = Some k -> take (ns * k) r2 = Some (pay, rest) ->
  exists vb, split_typed sflag ns r0 = Some (vb, rest) /\ read_type vb = Some (code, len, pay).
Proof.
  intros sflag ns r0 code len r2 k pay rest Hr Hs Hv Ht.
  destruct (read_type_local _ _ _ _ Hr) as [d [Hb [Hd Hloc]]].
  pose proof Ht as Ht'. apply lz_take_len in Ht'. destruct Ht' as [Hr2 Hp].
  exists (d ++ pay). split; [|apply Hloc].
  unfold split_typed. rewrite Hr, Hs, Hv, Ht.
  assert (r0 = (d ++ pay) ++ rest) as Hr0 by (rewrite Hb, Hr2, app_assoc; reflexivity).
  assert (length r0 = (length (d ++ pay) + length rest)%nat) as Hlen by (rewrite Hr0 at 1; apply app_length).
  replace (length r0 - length rest)%nat with (length (d ++ pay)) by lia.
  rewrite Hr0 at 1. apply lz_take_app. reflexivity.
Qed.

Fixpoint series_all (P : name -> series -> bool) (nms : list name) (ss : list series) : bool :=
  match nms, ss with
  | nm :: nr, s :: sr => P nm s && series_all P nr sr
  | _, _ => true
  end.

(* the zero-length Integer / Float descriptor of a series other than GT (read_values: InvalidLength) *)
Definition series_len_ok (nm : name) (s : series) : bool :=
  if name_eqb nm GT then true else negb ((se_len s =? 0) && negb (se_code s =? 7)).

Lemma fields_walk_converse : forall strings ns nf bs ss nms, byte_list bs ->
  lz_n_series ns nf bs = Some ss -> lz_names strings ss = ROk nms ->
  series_all series_len_ok nms ss = true ->
  exists fmts r, dec_fields_k strings ns false nf bs = Some (fmts, r) /\
    Forall2 (series_of strings) fmts ss /\ map fst fmts = nms.
Proof.
  intros strings ns. induction nf as [|nf IH]; intros bs ss nms Hb Hs Hn Ha; cbn [lz_n_series] in Hs.
  - injection Hs as Hss. subst ss. cbn [lz_names] in Hn. injection Hn as Hnm. subst nms.
    exists [], bs. repeat split. constructor.
  - destruct (lz_series ns bs) as [[s r1]|] eqn:Es; [|discriminate].
    destruct (lz_n_series ns nf r1) as [ss1|] eqn:Es1; [|discriminate]. injection Hs as Hss. subst ss.
    cbn [lz_names] in Hn.
    destruct (get_index strings (znat (length (entries strings)) (se_id s))) as [nm|] eqn:E1; [|discriminate].
    destruct (lz_names strings ss1) as [nms1| |] eqn:En1; try discriminate. cbn [rbind] in Hn. injection Hn as Hnm. subst nms.
    cbn [series_all] in Ha. apply andb_prop in Ha. destruct Ha as [Ha1 Ha2].
    unfold lz_series in Es.
    destruct (dec_index bs) as [[i r0]|] eqn:E0; [|discriminate].
    destruct (read_type r0) as [[[code len] r2]|] eqn:Er; [|discriminate].
    destruct (code =? 0) eqn:Ec0; [discriminate|].
    destruct (value_payload (S (length r2)) code len) as [k|] eqn:Ev; [|discriminate].
    destruct (take (ns * k) r2) as [[pay rest]|] eqn:Et; [|discriminate].
    injection Es as Hs Hr1. subst s r1. cbn [se_id se_code se_len se_pay] in *.
    (* bytes *)
    assert (byte_list r0) as Hb0.
    { unfold dec_index in E0. destruct (read_type bs) as [[[c0 l0] rr]|] eqn:Eb; [|discriminate].
      destruct (read_type_local _ _ _ _ Eb) as [d0 [Hbs _]].
      destruct (width_of_code c0) as [w0|]; [|discriminate]. destruct (l0 =? 1); [|discriminate].
      destruct (take (wbytes w0) rr) as [[x0 r'0]|] eqn:Et0; [|discriminate].
      apply lz_take_len in Et0. destruct Et0 as [Hrr _].
      lpeel_all E0. injection E0 as _ Hrr0. subst r'0.
      rewrite Hbs, Hrr in Hb. apply byte_list_app in Hb. destruct Hb as [_ Hb].
      apply byte_list_app in Hb. destruct Hb as [_ Hb]. exact Hb. }
    destruct (read_type_local _ _ _ _ Er) as [d [Hr0 _]].
    pose proof Et as Et'. apply lz_take_len in Et'. destruct Et' as [Hr2 _].
    rewrite Hr0, Hr2 in Hb0. apply byte_list_app in Hb0. destruct Hb0 as [_ Hb0].
    apply byte_list_app in Hb0. destruct Hb0 as [Hbp Hbr].
    destruct (IH rest ss1 nms1 Hbr Es1 En1 Ha2) as [fmts [r [Hf [Hf2 Hk]]]].
    assert (negb (name_eqb nm key_GT) && ((code =? 0) || ((len =? 0) && negb (code =? 7))) = false) as Hflag.
    { unfold series_len_ok in Ha1. cbn [se_len se_code] in Ha1. change key_GT with GT. rewrite Ec0. cbn [orb].
      destruct (name_eqb nm GT); [reflexivity|]. cbn [negb andb]. apply negb_true_iff in Ha1. exact Ha1. }
    destruct (split_typed_of_series _ ns r0 code len r2 k pay rest Er Hflag Ev Et) as [vb [Hst Hrv]].
    exists ((nm, vb) :: fmts), r. cbn [dec_fields_k]. rewrite E0, E1. cbn [negb andb]. rewrite Hst, Hf. cbn [andb].
    split; [reflexivity|]. split; [|cbn [map fst]; rewrite Hk; reflexivity].
    constructor; [|exact Hf2]. unfold series_of. cbn [se_id se_code se_len se_pay fst snd].
    split; [exact E1|]. split; [exact Hrv|exact Hbp].
Qed.

Lemma columns_converse : forall v44 strings fk ns fmts ss lcols,
  Forall2 (series_of strings) fmts ss ->
  lz_columns v44 fk ns (map fst fmts) ss = ROk lcols ->
  series_all (fun nm s => series_header_ok fk nm s && series_gt_ok ns nm s) (map fst fmts) ss = true ->
  exists cols, map_rres (eager_column fk ns) fmts = ROk cols.
Proof.
  intros v44 strings fk ns fmts ss lcols H. revert lcols.
  induction H as [|kv s fmts ss Hs Hf IH]; intros lcols Hl Ha; [eexists; reflexivity|].
  cbn [map lz_columns] in Hl.
  destruct (lz_column v44 fk ns (fst kv) s) as [c| |] eqn:Ec; try discriminate. cbn [rbind] in Hl.
  destruct (lz_columns v44 fk ns (map fst fmts) ss) as [cs| |] eqn:Ecs; try discriminate.
  cbn [map series_all] in Ha. apply andb_prop in Ha. destruct Ha as [Ha1 Ha2]. apply andb_prop in Ha1. destruct Ha1 as [Hh Hg].
  destruct (IH cs eq_refl Ha2) as [cols Hcols].
  destruct Hs as [_ [Hrt Hbp]]. destruct kv as [k vb]. destruct s as [id code len pay].
  cbn [se_code se_len se_pay fst snd] in *.
  destruct (column_converse v44 fk ns k id code len pay vb c Hbp Hrt Ec Hh Hg) as [ecol He].
  cbn [map_rres]. rewrite He. cbn [rbind]. rewrite Hcols. eexists. reflexivity.
Qed.

(* ================================================================ the whole record *)
(* the same INFO key twice (read_info: DuplicateKey; the lazy path collects into an IndexMap), or an INFO
   Character (Number=1) that is one character of several bytes (rejected by the eager MODEL only) *)
Definition info_lazy_only (strings : smap) (ik : name -> option ikind) (n : nat) (ib : list N) : bool :=
  negb (match lz_info_fields strings ik n ib with ROk l => keys_distinct (map fst l) | _ => true end)
  || negb (lz_info_char_ascii strings ik n ib).

(* a series whose descriptor read_samples rejects before it reads a sample (seen by the lazy path only
   when there is a sample), or a GT cell with a byte of 0x80, 0x82..0xff before its end *)
Definition fmt_lazy_only (strings : smap) (fk : name -> option fkind) (ns nf : nat) (ib : list N) : bool :=
  match lz_n_series ns nf ib with
  | Some ss =>
    match lz_names strings ss with
    | ROk nms => negb (series_all (fun nm s => series_header_ok fk nm s && series_gt_ok ns nm s) nms ss)
    | _ => false
    end
  | None => false
  end.

(* THE CLASS: records the lazy path may accept although read_record_buf rejects them.  A decidable
   predicate of the input, computed from the lazy walk of the same bytes.  (Since 30014e8 the lazy path
   rejects n_sample above the header's sample count as the eager reader does: that part is gone.) *)
Definition lazy_only (strings : smap) (ik : name -> option ikind) (fk : name -> option fkind)
  (bs : list N) : bool :=
  match dec_frame bs with
  | Some (sb, ib, _) =>
    site_lazy_only sb
    || match lz_index sb, lz_sample_count sb, lz_format_count sb, lz_u16 16 sb with
       | ROk bd, ROk nsz, ROk nf, ROk ni =>
         match lz_slice (b_filters_end bd) (length sb) sb with
         | ROk info_bytes => info_lazy_only strings ik (Z.to_nat ni) info_bytes
         | _ => false
         end
         || fmt_lazy_only strings fk (Z.to_nat nsz) (Z.to_nat nf) ib
       | _, _, _, _ => false
       end
  | None => false
  end.

Lemma series_len_of_header : forall fk ns nms ss,
  series_all (fun nm s => series_header_ok fk nm s && series_gt_ok ns nm s) nms ss = true ->
  series_all series_len_ok nms ss = true.
Proof.
  intros fk ns. induction nms as [|nm nms IH]; intros ss H; [reflexivity|].
  destruct ss as [|s ss]; [reflexivity|]. cbn [series_all] in *.
  apply andb_prop in H. destruct H as [H1 H2]. apply andb_prop in H1. destruct H1 as [Hh _].
  rewrite (IH ss H2), andb_true_r.
  unfold series_header_ok in Hh. unfold series_len_ok.
  destruct (fk nm); [|discriminate]. destruct (name_eqb nm GT); [reflexivity|].
  apply andb_prop in Hh. destruct Hh as [Hz _]. exact Hz.
Qed.

(* the eager reader accepts what the lazy path accepts, outside [lazy_only] *)
Theorem lazy_accepts_eager_accepts : forall v44 strings contigs ik fk hs bs t',
  byte_list bs ->
  lazy_read_hdr v44 strings contigs ik fk hs bs = ROk t' ->
  lazy_only strings ik fk bs = false ->
  exists t, dec_record_typed strings contigs ik fk hs bs = ROk t.
Proof.
  intros v44 strings contigs ik fk hs bs t' Hbytes H Hcls.
  unfold lazy_read_hdr, lazy_read_gen in H. unfold lazy_only in Hcls.
  destruct (dec_frame bs) as [[[sb ib] rest]|] eqn:Ef; [|discriminate].
  destruct (dec_frame_bytes _ _ _ _ Hbytes Ef) as [Hbs Hbi].
  destruct (lz_index sb) as [bd| |] eqn:Eidx; try discriminate. cbn [rbind] in H.
  destruct (lz_chrom contigs sb) as [chrom| |] eqn:Ec; try discriminate. cbn [rbind] in H.
  destruct (lz_pos sb) as [pos| |] eqn:Ep; try discriminate. cbn [rbind] in H.
  destruct (lz_ids bd sb) as [ids| |] eqn:Ei; try discriminate. cbn [rbind] in H.
  destruct (lz_ref bd sb) as [rf| |] eqn:Er; try discriminate. cbn [rbind] in H.
  destruct (lz_alts bd sb) as [alts| |] eqn:Ea; try discriminate. cbn [rbind] in H.
  destruct (lz_qual sb) as [qual| |] eqn:Eq; try discriminate. cbn [rbind] in H.
  destruct (lz_filters strings bd sb) as [filters| |] eqn:Efl; try discriminate. cbn [rbind] in H.
  destruct (lz_info strings ik bd sb) as [info| |] eqn:Einfo; try discriminate. cbn [rbind] in H.
  destruct (lz_samples v44 strings fk (Some hs) sb ib) as [kr| |] eqn:Esam; try discriminate. clear H.
  apply orb_false_iff in Hcls. destruct Hcls as [Hsite Hcls].
  (* the site *)
  destruct (site_converse strings contigs sb bd chrom pos qual rf alts filters Eidx Ec Ep Eq Er Ea Efl Hsite)
    as [h [info_bytes Eh]].
  destruct (site_agree strings contigs sb h info_bytes Hbs Eh) as [bd' Hsv].
  assert (bd' = bd) as Hbd by (pose proof (sv_index _ _ _ _ _ _ Hsv) as Hx; rewrite Eidx in Hx; injection Hx as Hx; symmetry; exact Hx).
  subst bd'.
  rewrite (sv_nsample _ _ _ _ _ _ Hsv), (sv_nfmt _ _ _ _ _ _ Hsv), (sv_ninfo _ _ _ _ _ _ Hsv), (sv_info _ _ _ _ _ _ Hsv) in Hcls.
  apply orb_false_iff in Hcls. destruct Hcls as [Hinfo Hfmt].
  (* INFO *)
  unfold lz_info in Einfo. rewrite (sv_info _ _ _ _ _ _ Hsv) in Einfo. cbn [rbind] in Einfo.
  rewrite (sv_ninfo _ _ _ _ _ _ Hsv) in Einfo. cbn [rbind] in Einfo.
  destruct (lz_info_fields strings ik (Z.to_nat (h_n_info h)) info_bytes) as [l| |] eqn:El; try discriminate.
  unfold info_lazy_only in Hinfo. rewrite El in Hinfo. apply orb_false_iff in Hinfo. destruct Hinfo as [Hdist Hasc].
  apply negb_false_iff in Hdist. apply negb_false_iff in Hasc.
  destruct (info_fields_converse strings ik _ _ l El Hdist Hasc) as [infos [r1 [ivs [Hfi [_ Hmi]]]]].
  (* samples *)
  unfold lz_samples in Esam. rewrite (sv_nsample _ _ _ _ _ _ Hsv) in Esam. cbn [rbind] in Esam.
  rewrite (sv_nfmt _ _ _ _ _ _ Hsv) in Esam. cbn [rbind] in Esam. cbv zeta in Esam.
  remember (Z.to_nat (h_n_sample h)) as ns eqn:Ens.
  destruct (lz_validate ns (Z.to_nat (h_n_fmt h)) ib); [|discriminate].
  cbn [too_many_samples] in Esam. destruct (hs <? h_n_sample h) eqn:Hhs; [discriminate|].
  destruct (lz_n_series ns (Z.to_nat (h_n_fmt h)) ib) as [ss|] eqn:Ess; [|discriminate].
  destruct (lz_names strings ss) as [nms| |] eqn:Enm; try discriminate. cbn [rbind] in Esam.
  destruct (lz_columns v44 fk ns nms ss) as [cols| |] eqn:Ecols; try discriminate.
  unfold fmt_lazy_only in Hfmt. rewrite Ess, Enm in Hfmt. apply negb_false_iff in Hfmt.
  destruct (fields_walk_converse strings ns _ ib ss nms Hbi Ess Enm (series_len_of_header _ _ _ _ Hfmt))
    as [fmts [r2 [Hff [Hf2 Hk]]]].
  rewrite <- Hk in Ecols, Hfmt.
  destruct (columns_converse v44 strings fk ns fmts ss cols Hf2 Ecols Hfmt) as [ecols Hec].
  (* assemble *)
  unfold dec_record_typed, dec_record_k. rewrite Ef, Eh. rewrite Hhs. rewrite Hfi. rewrite <- Ens. rewrite Hff.
  cbv zeta. rewrite Hmi. cbn [rbind]. rewrite <- Ens.
  change (map_rres (fun kv : name * list N =>
            match fk (fst kv) with
            | None => RErr
            | Some k => if name_eqb (fst kv) GT then dec_gt_col ns (snd kv) else dec_fmt_kind k ns (snd kv)
            end) fmts) with (map_rres (eager_column fk ns) fmts).
  rewrite Hec. cbn [rbind]. eexists. reflexivity.
Qed.

(* THE CONVERSE: on every input outside [lazy_only] (and inside [lazy_agree], the ASCII premise of the
   eager model) a record the lazy path accepts is accepted by the eager reader, with the same RecordBuf *)
Theorem lazy_converse : forall v44 strings contigs ik fk hs bs t',
  byte_list bs ->
  lazy_read_hdr v44 strings contigs ik fk hs bs = ROk t' ->
  lazy_only strings ik fk bs = false ->
  lazy_agree strings contigs ik fk hs bs = true ->
  exists t, dec_record_typed strings contigs ik fk hs bs = ROk t /\ trec_norm v44 t' = trec_norm v44 t.
Proof.
  intros v44 strings contigs ik fk hs bs t' Hb H Hcls Hag.
  destruct (lazy_accepts_eager_accepts v44 strings contigs ik fk hs bs t' Hb H Hcls) as [t Ht].
  exists t. split; [exact Ht|].
  destruct (lazy_hdr_eq_eager v44 strings contigs ik fk hs bs t Hb Ht Hag) as [t'' [Hl Hn]].
  rewrite H in Hl. injection Hl as Hl. subst t''. exact Hn.
Qed.

(* both directions together: outside the two classes the two readers accept the same records and build
   the same RecordBuf *)
Corollary lazy_iff_eager : forall v44 strings contigs ik fk hs bs,
  byte_list bs -> lazy_only strings ik fk bs = false -> lazy_agree strings contigs ik fk hs bs = true ->
  ((exists t', lazy_read_hdr v44 strings contigs ik fk hs bs = ROk t') <->
   (exists t, dec_record_typed strings contigs ik fk hs bs = ROk t)) /\
  (lazy_read_hdr v44 strings contigs ik fk hs bs = RErr <-> dec_record_typed strings contigs ik fk hs bs = RErr).
Proof.
  intros v44 strings contigs ik fk hs bs Hb Hcls Hag.
  assert ((exists t', lazy_read_hdr v44 strings contigs ik fk hs bs = ROk t') <->
          (exists t, dec_record_typed strings contigs ik fk hs bs = ROk t)) as Hiff.
  { split.
    - intros [t' H]. apply (lazy_accepts_eager_accepts v44 strings contigs ik fk hs bs t' Hb H Hcls).
    - intros [t H]. destruct (lazy_hdr_eq_eager v44 _ _ _ _ _ _ _ Hb H Hag) as [t' [Ht' _]]. exists t'. exact Ht'. }
  split; [exact Hiff|]. split.
  - intros E. destruct (dec_record_typed strings contigs ik fk hs bs) as [t| |] eqn:Ed; [|reflexivity|].
    + destruct (proj2 Hiff (ex_intro _ t eq_refl)) as [t' Ht']. rewrite E in Ht'. discriminate.
    + exfalso. exact (dec_record_typed_np _ _ _ _ _ _ Ed).
  - intros E. destruct (lazy_read_hdr v44 strings contigs ik fk hs bs) as [t'| |] eqn:El; [|reflexivity|].
    + destruct (proj1 Hiff (ex_intro _ t' eq_refl)) as [t Ht]. rewrite E in Ht. discriminate.
    + exfalso. exact (lazy_read_hdr_never_panics _ _ _ _ _ _ _ El).
Qed.

(* ================================================================ the class is exact *)
(* Every member of [lazy_only] is rejected by the eager reader: shown as "what the eager reader accepts is
   not in the class". *)

(* ---------------------------------------------------------------- genotypes *)
Lemma gt_plain_of_parse : forall cell g, byte_list cell ->
  parse_gt (map (fun b => dec_int W8 [b]) cell) = ROk g -> gt_cell_plain cell = true.
Proof.
  induction cell as [|b cell IH]; intros g Hb H; [reflexivity|].
  inversion Hb as [|? ? Hb1 Hb2]. subst. cbn [map parse_gt] in H. rewrite (dec_int8_byte b Hb1) in H.
  cbn [gt_cell_plain]. destruct (b =? 129)%N eqn:E129; [reflexivity|].
  destruct (b <=? 127)%N eqn:E.
  - rewrite classify_value in H by (unfold min_value; cbn [wmin]; lia).
    destruct (Z.of_N b / 2 - 1 <? -1); [discriminate|].
    destruct (parse_gt (map (fun b0 => dec_int W8 [b0]) cell)) as [l| |] eqn:Ep; try discriminate.
    rewrite (IH l Hb2 eq_refl). replace (b <? 128)%N with true by lia. reflexivity.
  - exfalso. assert ((Z.of_N b - 256) / 2 - 1 <? -1 = true) as Ej by lia.
    unfold classify in H. cbn [wmin] in H.
    destruct (Z.of_N b - 256 =? -128); [rewrite Ej in H; discriminate|].
    destruct (Z.of_N b - 256 =? -128 + 1) eqn:E1; [lia|].
    destruct (Z.of_N b - 256 <=? -128 + 7); rewrite Ej in H; discriminate.
Qed.

Lemma gt_samples_plain : forall ns l pay gs, byte_list pay -> dec_gt_samples ns l pay = ROk gs ->
  exists cells r, chunks ns (1 * l) pay = Some (cells, r) /\ forallb gt_cell_plain cells = true.
Proof.
  induction ns as [|ns IH]; intros l pay gs Hb H; cbn [dec_gt_samples] in H.
  - exists [], pay. split; reflexivity.
  - destruct (chunks l 1 pay) as [[xs r1]|] eqn:Ec; [|discriminate].
    destruct (parse_gt (map (dec_int W8) xs)) as [g| |] eqn:Ep; try discriminate. cbn [rbind] in H.
    destruct (dec_gt_samples ns l r1) as [rest| |] eqn:Ed; try discriminate.
    destruct (chunks_concat _ _ _ _ _ Ec) as [Hpay _].
    rewrite Hpay in Hb. apply byte_list_app in Hb. destruct Hb as [Hb1 Hb2].
    destruct (IH l r1 rest Hb2 Ed) as [cells [r [Hc Hp]]].
    destruct (chunks_cell _ _ _ _ _ Ec) as [Ht _].
    exists (concat xs :: cells), r. cbn [chunks]. rewrite Ht, Hc. split; [reflexivity|].
    cbn [forallb]. rewrite Hp, andb_true_r.
    rewrite (singles _ _ _ _ Ec) in Ep. rewrite map_map in Ep.
    apply (gt_plain_of_parse _ g Hb1 Ep).
Qed.

(* ---------------------------------------------------------------- one column *)
Lemma column_header_of_eager : forall fk ns k vb id code len pay ecol,
  byte_list pay -> read_type vb = Some (code, len, pay) ->
  eager_column fk ns (k, vb) = ROk ecol ->
  series_header_ok fk k (mk_series id code len pay) = true /\
  series_gt_ok ns k (mk_series id code len pay) = true.
Proof.
  intros fk ns k vb id code len pay ecol Hb Hr He.
  unfold eager_column in He. cbn [fst snd] in He.
  unfold series_header_ok, series_gt_ok. cbn [mk_series se_code se_len se_pay].
  destruct (fk k) as [kd|]; [|discriminate].
  destruct (name_eqb k GT) eqn:Eg.
  - unfold dec_gt_col in He. rewrite Hr in He.
    destruct (code =? 1) eqn:E1; [|cbn [andb] in He; unfold dec_gt in He; rewrite Hr, E1 in He; discriminate].
    split; [reflexivity|].
    destruct (len =? 0) eqn:E0; cbn [andb] in He.
    + assert (znat (S (length pay)) len = 0%nat) as Hl by (rewrite znat_min; lia). rewrite Hl.
      unfold cells_all. destruct (chunks ns (1 * 0) pay) as [[cells r]|] eqn:Ec; [|reflexivity].
      destruct (chunks_concat _ _ _ _ _ Ec) as [_ [_ Hall]].
      clear -Hall. induction Hall as [|x xs Hx Hxs IH]; [reflexivity|].
      cbn [forallb]. rewrite IH, andb_true_r. destruct x; [reflexivity|discriminate].
    + unfold dec_gt in He. rewrite Hr, E1, E0 in He.
      destruct (dec_gt_samples ns (znat (S (length pay)) len) pay) as [gs| |] eqn:Ed; try discriminate.
      destruct (gt_samples_plain _ _ _ _ Hb Ed) as [cells [r [Hc Hp]]].
      unfold cells_all. rewrite Hc. exact Hp.
  - split; [|reflexivity].
    destruct kd as [sc|sc|sc|sc]; cbn [dec_fmt_kind] in He.
    + unfold dec_fmt_int_gen in He. rewrite Hr in He.
      destruct (code =? 0); [discriminate|].
      destruct ((len =? 0) && negb (code =? 7)); [discriminate|].
      destruct (width_of_code code); [reflexivity|discriminate].
    + unfold dec_fmt_float_gen in He. rewrite Hr in He.
      destruct (code =? 0); [discriminate|].
      destruct ((len =? 0) && negb (code =? 7)); [discriminate|].
      destruct (code =? 5); [reflexivity|discriminate].
    + assert (rbind (dec_fmt_cells ns vb) (fun _ => ROk tt) = ROk tt) as Hc.
      { destruct sc; [unfold dec_fmt_chars in He|unfold dec_fmt_char_arrays in He];
          destruct (dec_fmt_cells ns vb); try discriminate; reflexivity. }
      unfold dec_fmt_cells in Hc. rewrite Hr in Hc.
      destruct (code =? 0); [discriminate|].
      destruct ((len =? 0) && negb (code =? 7)); [discriminate|].
      destruct (code =? 7); [reflexivity|discriminate].
    + assert (rbind (dec_fmt_cells ns vb) (fun _ => ROk tt) = ROk tt) as Hc.
      { destruct sc; [unfold dec_fmt_strings in He|unfold dec_fmt_str_arrays in He];
          destruct (dec_fmt_cells ns vb); try discriminate; reflexivity. }
      unfold dec_fmt_cells in Hc. rewrite Hr in Hc.
      destruct (code =? 0); [discriminate|].
      destruct ((len =? 0) && negb (code =? 7)); [discriminate|].
      destruct (code =? 7); [reflexivity|discriminate].
Qed.

Lemma columns_header_of_eager : forall strings fk ns fmts ss cols,
  Forall2 (series_of strings) fmts ss ->
  Forall2 (fun kv col => eager_column fk ns kv = ROk col) fmts cols ->
  series_all (fun nm s => series_header_ok fk nm s && series_gt_ok ns nm s) (map fst fmts) ss = true.
Proof.
  intros strings fk ns fmts ss cols H. revert cols.
  induction H as [|kv s fmts ss Hs Hf IH]; intros cols Hc; [reflexivity|].
  inversion Hc as [|? col ? cols' Hc1 Hc2]. subst. cbn [map series_all]. rewrite (IH cols' Hc2), andb_true_r.
  destruct Hs as [_ [Hrt Hbp]]. destruct kv as [k vb]. destruct s as [id code len pay].
  cbn [se_code se_len se_pay fst snd] in *.
  destruct (column_header_of_eager fk ns k vb id code len pay col Hbp Hrt Hc1) as [H1 H2].
  unfold mk_series in H1, H2. rewrite H1, H2. reflexivity.
Qed.

(* ---------------------------------------------------------------- INFO *)
Lemma info_char_ascii_of_eager : forall strings ik n bs infos r ivs,
  dec_fields_k strings 1 true n bs = Some (infos, r) ->
  map_rres (fun kv : name * list N =>
              match ik (fst kv) with
              | None => RErr
              | Some k => rbind (dec_info_kind k (snd kv)) (fun v => ROk (fst kv, v))
              end) infos = ROk ivs ->
  lz_info_char_ascii strings ik n bs = true.
Proof.
  intros strings ik. induction n as [|n IH]; intros bs infos r ivs H Hm; [reflexivity|].
  cbn [dec_fields_k] in H. cbn [lz_info_char_ascii].
  destruct (dec_index bs) as [[i r0]|] eqn:E0; [|discriminate].
  destruct (get_index strings (znat (length (entries strings)) i)) as [k|] eqn:E1; [|discriminate].
  cbn [negb andb] in H.
  destruct (split_typed false 1 r0) as [[vb r1]|] eqn:E2; [|discriminate].
  destruct (dec_fields_k strings 1 true n r1) as [[l r2]|] eqn:E3; [|discriminate].
  destruct (has_key k l); [discriminate|]. injection H as Hi Hr. subst infos r2.
  cbn [map_rres fst snd] in Hm.
  destruct (ik k) as [kd|] eqn:Ek; [|discriminate].
  destruct (dec_info_kind kd vb) as [v| |] eqn:Ev; try discriminate. cbn [rbind] in Hm.
  match type of Hm with rbind ?m _ = _ => destruct m as [ivs'| |] eqn:Em; try discriminate end.
  rewrite (IH r1 l r ivs' E3 Em), andb_true_r.
  destruct kd as [a|a| |[|]|a]; try reflexivity.
  cbn [dec_info_kind] in Ev. unfold dec_info_char in Ev.
  destruct (dec_info_string vb) as [o| |] eqn:Ed; try reflexivity.
  destruct o as [s|]; [|reflexivity]. cbn [rbind] in Ev.
  destruct s as [|c [|c2 s]]; try discriminate Ev.
  destruct (dec_info_string_some _ _ Ed) as [_ Hu]. apply utf8_valid_single in Hu.
  cbn [ascii_str forallb]. rewrite andb_true_r. lia.
Qed.

(* ---------------------------------------------------------------- the site *)
Lemma dec_head_len : forall strings contigs sb h ib, dec_head strings contigs sb = Some (h, ib) ->
  (24 <= length sb)%nat.
Proof.
  intros strings contigs sb h ib H. unfold dec_head in H.
  destruct (chunks 4 4 sb) as [[l0 r0]|] eqn:Ech; [|discriminate].
  apply chunks_concat in Ech. destruct Ech as [Hsb [Hl0 Hall]].
  pose proof (concat_length_k 4 l0 Hall) as Hcl.
  assert (length sb = (length (concat l0) + length r0)%nat) as Hlen by (rewrite Hsb at 1; apply app_length).
  destruct l0 as [|c [|p [|l [|q [|]]]]]; try discriminate H.
  destruct ((dec_int W32 c <? 0) || (dec_int W32 p <? -1) || (dec_int W32 l <? 0)); [discriminate|].
  destruct (get_index contigs (znat (length (entries contigs)) (dec_int W32 c))); [|discriminate].
  assert (exists ni r1 na r2 fs r3, take 2 r0 = Some (ni, r1) /\ take 2 r1 = Some (na, r2) /\ take 4 r2 = Some (fs, r3)) as Ht.
  { destruct (take 2 r0) as [[ni r1]|] eqn:T1; [|destruct (classify_f (le_val q)); discriminate H].
    destruct (take 2 r1) as [[na r2]|] eqn:T2; [|destruct (classify_f (le_val q)); discriminate H].
    destruct (take 4 r2) as [[fs r3]|] eqn:T3; [|destruct (classify_f (le_val q)); discriminate H].
    exists ni, r1, na, r2, fs, r3. repeat split; assumption. }
  destruct Ht as [ni [r1 [na [r2 [fs [r3 [T1 [T2 T3]]]]]]]].
  apply lz_take_len in T1. apply lz_take_len in T2. apply lz_take_len in T3.
  destruct T1 as [T1 L1]. destruct T2 as [T2 L2]. destruct T3 as [T3 L3].
  assert (length r0 = (2 + 2 + 4 + length r3)%nat) as Hr0.
  { rewrite T1, T2, T3. rewrite !app_length. lia. }
  cbn [length] in Hcl. lia.
Qed.

Lemma site_not_lazy_only : forall strings contigs sb h info_bytes,
  dec_head strings contigs sb = Some (h, info_bytes) -> site_lazy_only sb = false.
Proof.
  intros strings contigs sb h info_bytes H.
  pose proof (dec_head_len _ _ _ _ _ H) as H24.
  rewrite dec_head_24 in H by exact H24. cbv zeta in H.
  destruct ((dec_int W32 (firstn 4 sb) <? 0) || (dec_int W32 (firstn 4 (skipn 4 sb)) <? -1)
            || (dec_int W32 (firstn 4 (skipn 8 sb)) <? 0)) eqn:Eneg; [discriminate|].
  apply orb_false_iff in Eneg. destruct Eneg as [_ Hrl].
  destruct (get_index contigs (znat (length (entries contigs)) (dec_int W32 (firstn 4 sb)))) as [cname|]; [|discriminate].
  assert (exists fq, head_tail strings cname (dec_int W32 (firstn 4 (skipn 4 sb))) fq (firstn 2 (skipn 16 sb))
            (firstn 2 (skipn 18 sb)) (firstn 4 (skipn 20 sb)) (skipn 24 sb) = Some (h, info_bytes)) as [fq Ht].
  { destruct (classify_f (le_val (firstn 4 (skipn 12 sb)))) as [b| | |]; try discriminate; eexists; exact H. }
  clear H. unfold head_tail in Ht.
  destruct (dec_str (skipn 24 sb)) as [[ids r4]|] eqn:E4; [|discriminate].
  fold (allele_count sb) in Ht.
  destruct (allele_count sb =? 0) eqn:Eac; [discriminate|].
  destruct (dec_alleles (Z.to_nat (allele_count sb)) r4) as [[[|ra alts] r5]|] eqn:E5; try discriminate.
  destruct (dec_indices r5) as [[fi r6]|] eqn:E6; [|discriminate]. clear Ht.
  destruct (consume_string_of_dec_str sb 24 ids r4 H24 E4) as [s1 [e1 [Hc1 _]]].
  pose proof (consume_string_bounds sb 24 s1 e1 r4 H24 Hc1) as [A1 [A2 [A3 A4]]].
  pose proof (le_val_nonneg (firstn 2 (skipn 18 sb))) as Hnn. fold (allele_count sb) in Hnn.
  destruct (Z.to_nat (allele_count sb)) as [|na'] eqn:Ena'; [lia|].
  cbn [dec_alleles] in E5.
  destruct (dec_str r4) as [[o r4']|] eqn:E8; [|discriminate].
  destruct (dec_alleles na' r4') as [[alts' r5']|] eqn:E9; [|discriminate].
  injection E5 as _ Halts Hr5. subst alts' r5'.
  rewrite A4 in E8.
  destruct (consume_string_of_dec_str sb e1 o r4' A3 E8) as [s2 [e2 [Hc2 _]]].
  pose proof (consume_string_bounds sb e1 s2 e2 r4' A3 Hc2) as [B1 [B2 [B3 B4]]].
  rewrite B4 in E9.
  destruct (alts_agree sb na' e2 alts r5 B3 E9) as [e3 [Hc3 _]].
  pose proof (consume_alts_bounds sb na' e2 e3 r5 B3 Hc3) as [C1 [C2 C3]].
  rewrite C3 in E6.
  destruct (filters_agree sb e3 fi r6 C2 E6) as [e4 [Hc4 _]].
  unfold site_lazy_only. rewrite Hrl. cbn [orb].
  unfold index_bounds. destruct (length sb <? 24)%nat eqn:El; [apply Nat.ltb_lt in El; lia|].
  rewrite Eac, Hc1, A4, Hc2, B4.
  replace (Z.to_nat (allele_count sb - 1)) with na' by lia. rewrite Hc3, C3, Hc4. cbn [b_alt_end].
  unfold filter_len0. unfold dec_indices in E6.
  destruct (read_type (skipn e3 sb)) as [[[c l] r0]|]; [|reflexivity].
  destruct (c =? 0); [reflexivity|]. cbn [negb andb].
  destruct (width_of_code c); [|discriminate]. destruct (l =? 0); [discriminate|reflexivity].
Qed.

(* ---------------------------------------------------------------- the whole record *)
Theorem eager_accepts_not_lazy_only : forall strings contigs ik fk hs bs t,
  byte_list bs ->
  dec_record_typed strings contigs ik fk hs bs = ROk t ->
  lazy_agree strings contigs ik fk hs bs = true ->
  lazy_only strings ik fk bs = false.
Proof.
  intros strings contigs ik fk hs bs t Hbytes H Hag.
  unfold dec_record_typed in H. unfold lazy_agree in Hag.
  destruct (dec_record_k strings contigs hs bs) as [[[[h infos] fmts] rest]|] eqn:Erk; [|discriminate].
  pose proof Erk as Erk'. unfold dec_record_k in Erk'.
  destruct (dec_frame bs) as [[[sb ib] rest']|] eqn:Ef; [|discriminate].
  destruct (dec_frame_bytes _ _ _ _ Hbytes Ef) as [Hbs Hbi].
  destruct (dec_head strings contigs sb) as [[h' info_bytes]|] eqn:Eh; [|discriminate].
  destruct (hs <? h_n_sample h') eqn:Ehs; [discriminate|].
  destruct (dec_fields_k strings 1 true (Z.to_nat (h_n_info h')) info_bytes) as [[infos' r1]|] eqn:Ei; [|discriminate].
  destruct (dec_fields_k strings (Z.to_nat (h_n_sample h')) false (Z.to_nat (h_n_fmt h')) ib) as [[fmts' r2]|] eqn:Efm; [|discriminate].
  injection Erk' as Hh Hi Hfm Hr. subst h' infos' fmts' rest'.
  apply andb_prop in Hag. destruct Hag as [Hip Hfp].
  cbv zeta in H.
  match type of H with rbind ?m _ = _ => destruct m as [ivs| |] eqn:Em1; try discriminate end. cbn [rbind] in H.
  match type of H with rbind ?m _ = _ => destruct m as [cols| |] eqn:Em2; try discriminate end. clear H.
  destruct (site_agree strings contigs sb h info_bytes Hbs Eh) as [bd Hsv].
  destruct (info_fields_agree strings ik _ _ _ _ _ Ei Em1 Hip) as [Hlif [Hkeys Hdist]].
  remember (Z.to_nat (h_n_sample h)) as ns eqn:Ens.
  pose proof (map_rres_each _ _ _ Em2) as Hcols.
  assert (Forall (fun kv : name * list N => forall c l p, read_type (snd kv) = Some (c, l, p) -> c <> 0) fmts) as Hcode.
  { clear -Hcols. induction Hcols as [|kv col fmts cols Hc Hcs IH]; constructor; [|exact IH].
    intros c l p Hr. destruct kv as [k vb]. apply (eager_column_code fk ns k vb col c l p); [exact Hc|exact Hr]. }
  destruct (series_walk strings ns _ ib fmts r2 Hbi Efm Hcode) as [ss [_ [Hf2 Hall]]].
  unfold lazy_only. rewrite Ef. rewrite (site_not_lazy_only _ _ _ _ _ Eh). cbn [orb].
  rewrite (sv_index _ _ _ _ _ _ Hsv), (sv_nsample _ _ _ _ _ _ Hsv), (sv_nfmt _ _ _ _ _ _ Hsv),
          (sv_ninfo _ _ _ _ _ _ Hsv), (sv_info _ _ _ _ _ _ Hsv).
  unfold info_lazy_only. rewrite Hlif. rewrite Hkeys, Hdist. cbn [negb orb].
  rewrite (info_char_ascii_of_eager strings ik _ _ _ _ _ Ei Em1). cbn [negb orb].
  unfold fmt_lazy_only. rewrite <- Ens. rewrite Hall. rewrite (names_agree _ _ _ Hf2).
  rewrite (columns_header_of_eager strings fk ns fmts ss cols Hf2 Hcols). reflexivity.
Qed.

(* in the other words: every member of the class is rejected by the eager reader *)
Corollary lazy_only_eager_rejects : forall strings contigs ik fk hs bs,
  byte_list bs -> lazy_agree strings contigs ik fk hs bs = true ->
  lazy_only strings ik fk bs = true ->
  dec_record_typed strings contigs ik fk hs bs = RErr.
Proof.
  intros strings contigs ik fk hs bs Hb Ha Hc.
  destruct (dec_record_typed strings contigs ik fk hs bs) as [t| |] eqn:Ed; [|reflexivity|].
  - rewrite (eager_accepts_not_lazy_only strings contigs ik fk hs bs t Hb Ed Ha) in Hc. discriminate.
  - exfalso. exact (dec_record_typed_np _ _ _ _ _ _ Ed).
Qed.
