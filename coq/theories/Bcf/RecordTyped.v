(* The whole of read_record_buf with typed fields: NV.Bcf.Record.dec_record_k (frame, site head, the
   walks over the INFO and FORMAT blocks) followed by what decoder/info/field/value.rs read_value
   and decoder/samples.rs read_samples do with each block: the header's (Number, Type) of the key
   picks the value decoder; GT is decoded as a genotype series; the per-sample rows are filled
   column by column (`samples.iter_mut().zip(values)`; every column has one value per sample, also GT
   with length 0 since a1ba5e6); IDs, FILTERs and FORMAT
   keys are sets (first occurrence kept); n_sample may not exceed the header's sample count.
   Model: definitions only. *)
From Coq Require Import ZArith NArith List Bool.
From NV Require Import Bcf.Ints Bcf.Typed Bcf.Strings Bcf.Genotype Bcf.StringMap Bcf.Record.
Import ListNotations.
Open Scope Z_scope.

(* header.infos().get(key): Number = 1 / other, Type *)
Inductive ikind := KInt (array : bool) | KFloat (array : bool) | KFlag | KChar (array : bool) | KStr (array : bool).
(* header.formats().get(key) *)
Inductive fkind := FInt (scalar : bool) | FFloat (scalar : bool) | FChar (scalar : bool) | FStr (scalar : bool).

Inductive ival := IV (v : rvalue) | IS (v : sval) | IFlagV.

(* resolve_flag_value: the MISSING type or the Int8 value 1 *)
Definition dec_flag (vb : list N) : rres ival :=
  match read_type vb with
  | None => RErr
  | Some (code, len, r) =>
    if code =? 0 then ROk IFlagV
    else if (code =? 1) && (len =? 1) then
      match take 1 r with
      | Some (x, _) =>
        match classify W8 (dec_int W8 x) with
        | IValue n => if n =? 1 then ROk IFlagV else RErr
        | _ => RErr
        end
      | None => RErr
      end
    else RErr
  end.

Definition dec_info_kind (k : ikind) (vb : list N) : rres ival :=
  match k with
  | KInt a => rbind (dec_info_int_gen a vb) (fun v => ROk (IV v))
  | KFloat a => rbind (dec_info_float_gen a vb) (fun v => ROk (IV v))
  | KFlag => dec_flag vb
  | KChar false => rbind (dec_info_char vb) (fun v => ROk (IS v))
  | KChar true => rbind (dec_info_chars vb) (fun v => ROk (IS v))
  | KStr false => rbind (dec_info_str vb) (fun v => ROk (IS v))
  | KStr true => rbind (dec_info_strs vb) (fun v => ROk (IS v))
  end.

(* one sample's value of one key *)
Inductive cellv :=
| CI (o : option Z) | CIV (s : sample)
| CF (o : option Z) | CFV (s : sample)
| CC (o : option N) | CCV (o : option (list (option N)))
| CS (o : option str) | CSV (o : option (list (option str)))
| CG (o : option genotype).

Definition cells_of_back (float : bool) (b : fmt_back) : list cellv :=
  match b with
  | BScalars l => map (fun o => if float then CF o else CI o) l
  | BVectors l => map (fun s => if float then CFV s else CIV s) l
  end.

Definition dec_fmt_kind (k : fkind) (ns : nat) (vb : list N) : rres (list cellv) :=
  match k with
  | FInt sc => rbind (dec_fmt_int_gen sc ns vb) (fun b => ROk (cells_of_back false b))
  | FFloat sc => rbind (dec_fmt_float_gen sc ns vb) (fun b => ROk (cells_of_back true b))
  | FChar true => rbind (dec_fmt_chars ns vb) (fun l => ROk (map CC l))
  | FChar false => rbind (dec_fmt_char_arrays ns vb) (fun l => ROk (map CCV l))
  | FStr true => rbind (dec_fmt_strings ns vb) (fun l => ROk (map CS l))
  | FStr false => rbind (dec_fmt_str_arrays ns vb) (fun l => ROk (map CSV l))
  end.

Definition GT : name := [71; 84]%N.

(* read_genotype_values as a column: with length 0 (no sample has a genotype) every sample gets the
   missing value (a1ba5e6; before it ONE missing value was produced whatever the sample count and
   the following series moved one column to the left for the other samples) *)
Definition dec_gt_col (ns : nat) (vb : list N) : rres (list cellv) :=
  match read_type vb with
  | Some (code, len, _) =>
    if (code =? 1) && (len =? 0) then ROk (repeat (CG None) ns)
    else rbind (dec_gt ns vb) (fun l => ROk (map CG l))
  | None => RErr
  end.

(* for (sample, value) in samples.iter_mut().zip(values) { sample.push(value) } *)
Fixpoint push_col (rows : list (list cellv)) (vals : list cellv) : list (list cellv) :=
  match rows, vals with
  | r :: rs, v :: vs => (r ++ [v]) :: push_col rs vs
  | rs, _ => rs
  end.

Fixpoint mem_name (k : name) (l : list name) : bool :=
  match l with [] => false | x :: r => name_eqb k x || mem_name k r end.

(* an IndexSet collected from a sequence: the first occurrence is kept *)
Fixpoint dedup_from (seen : list name) (l : list name) : list name :=
  match l with
  | [] => []
  | x :: r => if mem_name x seen then dedup_from seen r else x :: dedup_from (x :: seen) r
  end.
Definition dedup (l : list name) : list name := dedup_from [] l.

Record trecord := {
  t_head : head;                          (* ids and filters as sets *)
  t_info : list (name * ival);
  t_keys : list name;
  t_rows : list (list cellv);
}.

Definition dec_record_typed (strings contigs : smap) (ik : name -> option ikind)
  (fk : name -> option fkind) (hdr_samples : Z) (bs : list N) : rres trecord :=
  match dec_record_k strings contigs hdr_samples bs with
  | None => RErr
  | Some (h, infos, fmts, _) =>
      let ns := Z.to_nat (h_n_sample h) in
      rbind (map_rres (fun kv : name * list N =>
               match ik (fst kv) with
               | None => RErr                                    (* MissingInfoMapEntry *)
               | Some k => rbind (dec_info_kind k (snd kv)) (fun v => ROk (fst kv, v))
               end) infos) (fun ivs =>
      rbind (map_rres (fun kv : name * list N =>
               match fk (fst kv) with
               | None => RErr                                    (* MissingKey *)
               | Some k =>
                 if name_eqb (fst kv) GT
                 then dec_gt_col ns (snd kv)
                 else dec_fmt_kind k ns (snd kv)
               end) fmts) (fun cols =>
      ROk {| t_head := {| h_chrom := h_chrom h; h_pos := h_pos h; h_qual := h_qual h;
                          h_ids := dedup (h_ids h); h_ref := h_ref h; h_alts := h_alts h;
                          h_filters := dedup (h_filters h); h_n_info := h_n_info h;
                          h_n_fmt := h_n_fmt h; h_n_sample := h_n_sample h |};
             t_info := ivs;
             t_keys := dedup (map fst fmts);
             t_rows := fold_left push_col cols (repeat [] ns) |}))
  end.
