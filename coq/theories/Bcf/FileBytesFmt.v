(* C10 -- the WRITTEN stream is a list of bytes: records WITH FORMAT keys and sample rows.
   Continues NV.Bcf.FileBytes (sites-only) with the per-sample encoders: enc_fmt_col (eight kinds),
   enc_gt_col, fmt_field, the FORMAT block of enc_record.  [rec_bytes_ok_all] adds the per-sample
   Character / String values and array elements to rec_bytes_ok. *)
From Coq Require Import ZArith NArith List Bool Lia.
From NV Require Import Text.TextBase Vcf.Values Vcf.Line Vcf.Header Vcf.HeaderProofs Vcf.HdrFrameProofs Vcf.File.
From NV Require Import Bcf.Ints Bcf.Typed Bcf.Strings Bcf.Genotype Bcf.StringMap Bcf.Record
  Bcf.RecordTyped Bcf.Bridge Bcf.Lazy Bcf.LazySiteProofs Bcf.LazyColProofs Bcf.LazyEagerProofs Bcf.File Bcf.FileProofs
  Bcf.FileLazyDomain Bcf.FileBytes.
Import ListNotations.

Definition rec_bytes_ok_all (r : vrec) : bool :=
  rec_bytes_ok r && forallb (forallb (optb value_bytes_ok)) (r_samples r).

Lemma bl_repeat : forall b n, (b < 256)%N -> byte_list (repeat b n).
Proof. intros b n H. induction n; cbn [repeat]; [apply bl_nil|apply bl_cons; assumption]. Qed.

Lemma bl_cell : forall m s, byte_list s -> byte_list (cell m s).
Proof. intros. unfold cell. apply bl_app; [assumption|apply bl_repeat; unfold nul; lia]. Qed.

(* ------------------------------------------------------------------ string series *)
Lemma bl_fmt_strings : forall vals b,
  Forall (fun o => match o with Some s => byte_list s | None => True end) vals ->
  enc_fmt_strings vals = Ok b -> byte_list b.
Proof.
  intros vals b Hv H. unfold enc_fmt_strings in H.
  destruct (present_lens vals) as [|n l]; [discriminate H|].
  remember (fold_left Nat.max (n :: l) 0%nat) as m eqn:Em. clear Em.
  destruct (enc_type 7 (Z.of_nat m)) as [d| | |] eqn:Ed; try discriminate H. cbn [bind] in H.
  match type of H with Ok ?x = Ok _ => assert (b = x) as -> by congruence end. clear H.
  apply bl_app; [apply (bl_enc_type 7 _ _ ltac:(lia) Ed)|].
  apply bl_flat_map. intros o Ho. rewrite Forall_forall in Hv. specialize (Hv o Ho).
  destruct o as [s|]; [apply bl_cell; exact Hv|].
  apply bl_cons; [unfold dot; lia|apply bl_repeat; unfold nul; lia].
Qed.

Lemma bl_fmt_str_arrays : forall vals b,
  Forall (fun o => match o with Some l => forallb (optb byte_listb) l = true | None => True end) vals ->
  enc_fmt_str_arrays vals = Ok b -> byte_list b.
Proof.
  intros vals b Hv H. unfold enc_fmt_str_arrays in H. destruct vals as [|v0 vt] eqn:Ev; [discriminate H|].
  rewrite <- Ev in *. clear Ev.
  remember (fold_left Nat.max (map (@length N) (map ser_strs vals)) 0%nat) as m eqn:Em. clear Em.
  destruct (enc_type 7 (Z.of_nat m)) as [d| | |] eqn:Ed; try discriminate H. cbn [bind] in H.
  match type of H with Ok ?x = Ok _ => assert (b = x) as -> by congruence end. clear H.
  apply bl_app; [apply (bl_enc_type 7 _ _ ltac:(lia) Ed)|].
  apply bl_flat_map. intros s Hs. apply in_map_iff in Hs. destruct Hs as (o & <- & Ho).
  rewrite Forall_forall in Hv. specialize (Hv o Ho). apply bl_cell.
  destruct o as [l|]; cbn [ser_strs].
  - apply bl_join; [apply comma_lt|apply bl_str_pieces; exact Hv].
  - apply bl_cons; [unfold dot; lia|apply bl_nil].
Qed.

(* ------------------------------------------------------------------ col_conv *)
Lemma col_conv_Forall : forall {A} (f : value -> option A) (P : A -> Prop) c l,
  (forall v a, In (Some v) c -> f v = Some a -> P a) ->
  col_conv f c = Ok l -> Forall (fun o => match o with Some a => P a | None => True end) l.
Proof.
  intros A f P. unfold col_conv. induction c as [|o t IH]; intros l Hp H; cbn [map_res] in H.
  - assert (l = []) as -> by congruence. constructor.
  - destruct o as [v|].
    + destruct (f v) as [a|] eqn:Ef; [|discriminate H]. cbn [bind] in H.
      destruct (map_res _ t) as [ys| | |] eqn:Ey; try discriminate H. cbn [bind] in H.
      assert (l = Some a :: ys) as -> by congruence. constructor.
      * apply (Hp v a); [left; reflexivity|exact Ef].
      * apply IH; [|reflexivity]. intros v' a' Hin. apply Hp. right. exact Hin.
    + cbn [bind] in H. destruct (map_res _ t) as [ys| | |] eqn:Ey; try discriminate H. cbn [bind] in H.
      assert (l = None :: ys) as -> by congruence. constructor; [exact I|].
      apply IH; [|reflexivity]. intros v' a' Hin. apply Hp. right. exact Hin.
Qed.

Definition col_ok (c : list (option value)) : Prop := forall v, In (Some v) c -> value_bytes_ok v = true.

Lemma bl_fmt_col : forall k c b, col_ok c -> enc_fmt_col k c = Ok b -> byte_list b.
Proof.
  intros k c b Hc H. destruct k as [[|]|[|]|[|]|[|]]; cbn [enc_fmt_col] in H;
    match type of H with bind ?x _ = _ => destruct x as [l| | |] eqn:El; try discriminate H; cbn [bind] in H end.
  - (* int *) unfold enc_fmt_int in H. destruct (select_minmax _ _) as [w|]; [|discriminate H].
    match type of H with Ok ?x = Ok _ => assert (b = x) as -> by congruence end.
    apply bl_cons; [apply desc_lt; apply wcode_rng|]. apply bl_flat_map. intros; apply bl_enc_int.
  - (* ints *) unfold enc_fmt_ints in H. destruct (select_minmax _ _) as [w|]; [|discriminate H].
    destruct (enc_type _ _) as [d| | |] eqn:Ed; try discriminate H. cbn [bind] in H.
    match type of H with Ok ?x = Ok _ => assert (b = x) as -> by congruence end.
    apply bl_app; [apply (bl_enc_type _ _ _ (wcode_rng w) Ed)|].
    apply bl_flat_map. intros. apply bl_flat_map. intros; apply bl_enc_int.
  - (* float *) unfold enc_fmt_float in H. destruct (map_res fentry l) as [raws| | |]; try discriminate H.
    cbn [bind] in H. match type of H with Ok ?x = Ok _ => assert (b = x) as -> by congruence end.
    apply bl_cons; [apply desc_lt; lia|]. apply bl_flat_map. intros; apply bl_enc_f32.
  - (* floats *) unfold enc_fmt_floats in H. destruct (has_vector l); [|discriminate H].
    destruct (enc_type _ _) as [d| | |] eqn:Ed; try discriminate H. cbn [bind] in H.
    destruct (map_res (fsample_raws (fmax_len l)) l) as [rl| | |]; try discriminate H. cbn [bind] in H.
    match type of H with Ok ?x = Ok _ => assert (b = x) as -> by congruence end.
    apply bl_app; [apply (bl_enc_type 5 _ _ ltac:(lia) Ed)|].
    apply bl_flat_map. intros. apply bl_flat_map. intros; apply bl_enc_f32.
  - (* chars *) unfold enc_fmt_chars in H. refine (bl_fmt_strings _ _ _ H).
    apply Forall_forall. intros o Ho. apply in_map_iff in Ho. destruct Ho as (oc & <- & Hin).
    destruct oc as [ch|]; cbn [option_map]; [|exact I].
    pose proof (col_conv_Forall as_char (fun ch => (ch < 256)%N) c l) as Hf.
    assert (Hall : Forall (fun o => match o with Some a => (a < 256)%N | None => True end) l).
    { apply Hf; [|exact El]. intros v a Hin' Ea. specialize (Hc v Hin'). destruct v; try discriminate Ea.
      cbn in Ea. inversion Ea; subst. cbn in Hc. apply N.ltb_lt. exact Hc. }
    rewrite Forall_forall in Hall. specialize (Hall _ Hin). cbn in Hall.
    apply bl_cons; [exact Hall|apply bl_nil].
  - (* char arrays *) unfold enc_fmt_char_arrays in H. refine (bl_fmt_strings _ _ _ H).
    apply Forall_forall. intros o Ho. apply in_map_iff in Ho. destruct Ho as (oc & <- & Hin).
    destruct oc as [cs|]; cbn [option_map]; [|exact I].
    assert (Hall : Forall (fun o => match o with Some a => forallb (optb byteb) a = true | None => True end) l).
    { apply (col_conv_Forall as_chars (fun a => forallb (optb byteb) a = true) c l); [|exact El].
      intros v a Hin' Ea. specialize (Hc v Hin'). destruct v; try discriminate Ea.
      cbn in Ea. inversion Ea; subst. exact Hc. }
    rewrite Forall_forall in Hall. specialize (Hall _ Hin). cbn in Hall.
    apply bl_join; [apply comma_lt|apply bl_char_pieces; exact Hall].
  - (* strings *) refine (bl_fmt_strings _ _ _ H).
    apply (col_conv_Forall as_str byte_list c l); [|exact El].
    intros v a Hin' Ea. specialize (Hc v Hin'). destruct v; try discriminate Ea.
    cbn in Ea. inversion Ea; subst. apply byte_listb_iff. exact Hc.
  - (* string arrays *) refine (bl_fmt_str_arrays _ _ _ H).
    apply (col_conv_Forall as_strs (fun a => forallb (optb byte_listb) a = true) c l); [|exact El].
    intros v a Hin' Ea. specialize (Hc v Hin'). destruct v; try discriminate Ea.
    cbn in Ea. inversion Ea; subst. exact Hc.
Qed.

(* ------------------------------------------------------------------ genotypes *)
Lemma bl_gt_sample_bytes : forall m raw b, Forall (fun z => (z < 256)%Z) raw ->
  gt_sample_bytes m raw = Ok b -> byte_list b.
Proof.
  intros m raw b Hr H. unfold gt_sample_bytes in H.
  match type of H with bind ?x _ = _ => destruct x as [bs| | |] eqn:Eb; try discriminate H; cbn [bind] in H end.
  match type of H with Ok ?x = Ok _ => assert (b = x) as -> by congruence end. clear H.
  apply bl_app; [|apply bl_repeat; lia].
  revert bs Eb. induction raw as [|z t IH]; intros bs Eb; cbn [map_res] in Eb.
  - assert (bs = []) as -> by congruence. apply bl_nil.
  - inversion Hr as [|? ? Hz Ht]; subst.
    destruct (z <? 0)%Z; [discriminate Eb|]. cbn [bind] in Eb.
    destruct (map_res _ t) as [ys| | |] eqn:Ey; try discriminate Eb. cbn [bind] in Eb.
    assert (bs = Z.to_N z :: ys) as -> by congruence.
    apply bl_cons; [lia|]. apply IH; [exact Ht|reflexivity].
Qed.

Lemma enc_allele_lt : forall a z, enc_allele a = Ok z -> (z < 256)%Z.
Proof.
  intros [p ph] z H. unfold enc_allele in H. cbn [fst snd] in H. destruct p as [p|].
  - destruct (127 <? p)%Z; [discriminate H|]. destruct (63 <=? p)%Z eqn:E; [discriminate H|].
    apply Z.leb_gt in E. destruct ph; inversion H; lia.
  - destruct ph; inversion H; lia.
Qed.

Lemma map_res_alleles_lt : forall g raw, map_res enc_allele g = Ok raw -> Forall (fun z => (z < 256)%Z) raw.
Proof.
  induction g as [|a t IH]; intros raw H; cbn [map_res] in H.
  - assert (raw = []) as -> by congruence. constructor.
  - destruct (enc_allele a) as [z| | |] eqn:Ez; try discriminate H. cbn [bind] in H.
    destruct (map_res enc_allele t) as [ys| | |] eqn:Ey; try discriminate H. cbn [bind] in H.
    assert (raw = z :: ys) as -> by congruence. constructor; [exact (enc_allele_lt _ _ Ez)|exact (IH _ eq_refl)].
Qed.

Lemma bl_gt_col : forall c b, enc_gt_col c = Ok b -> byte_list b.
Proof.
  intros c b H. unfold enc_gt_col in H.
  match type of H with bind ?x _ = _ => destruct x as [raws| | |] eqn:Er; try discriminate H; cbn [bind] in H end.
  destruct (enc_type 1 _) as [d| | |] eqn:Ed; try discriminate H. cbn [bind] in H.
  remember (gt_max_len raws) as m eqn:Em. clear Em.
  destruct (map_res (gt_sample_bytes m) raws) as [bl| | |] eqn:Eb; try discriminate H. cbn [bind] in H.
  match type of H with Ok ?x = Ok _ => assert (b = x) as -> by congruence end. clear H.
  apply bl_app; [apply (bl_enc_type 1 _ _ ltac:(lia) Ed)|].
  assert (Hraws : Forall (Forall (fun z => (z < 256)%Z)) raws).
  { clear Eb Ed. revert raws Er. induction c as [|o t IH]; intros raws Er; cbn [map_res] in Er.
    - assert (raws = []) as -> by congruence. constructor.
    - destruct o as [[| | | | | | | | |g]|]; try discriminate Er.
      destruct (map_res enc_allele (gz g)) as [raw| | |] eqn:Eg; try discriminate Er. cbn [bind] in Er.
      destruct (map_res _ t) as [ys| | |] eqn:Ey; try discriminate Er. cbn [bind] in Er.
      assert (raws = raw :: ys) as -> by congruence.
      constructor; [exact (map_res_alleles_lt _ _ Eg)|exact (IH _ eq_refl)]. }
  clear Er Ed. revert bl Eb. induction raws as [|raw t IH]; intros bl Eb; cbn [map_res] in Eb.
  - assert (bl = []) as -> by congruence. apply bl_nil.
  - inversion Hraws as [|? ? Hr Ht]; subst.
    destruct (gt_sample_bytes m raw) as [x| | |] eqn:Ex; try discriminate Eb. cbn [bind] in Eb.
    destruct (map_res _ t) as [ys| | |] eqn:Ey; try discriminate Eb. cbn [bind] in Eb.
    assert (bl = x :: ys) as -> by congruence. cbn [concat].
    apply bl_app; [exact (bl_gt_sample_bytes _ _ _ Hr Ex)|exact (IH Ht _ eq_refl)].
Qed.

(* ------------------------------------------------------------------ write_samples, write_record *)
Lemma column_ok : forall j rows, forallb (forallb (optb value_bytes_ok)) rows = true -> col_ok (column j rows).
Proof.
  intros j rows H v Hin. unfold column in Hin. apply in_map_iff in Hin. destruct Hin as (row & En & Hrow).
  rewrite forallb_forall in H. specialize (H row Hrow). rewrite forallb_forall in H.
  destruct (nth_in_or_default j row None) as [Hi|Hd]; [|rewrite Hd in En; discriminate En].
  specialize (H _ Hi). rewrite En in H. exact H.
Qed.

Lemma fmt_fields_bytes : forall hc r,
  forallb (forallb (optb value_bytes_ok)) (r_samples r) = true -> Forall field_bytes (fmt_fields hc r).
Proof.
  intros hc r H. unfold fmt_fields. apply Forall_forall. intros f Hf.
  apply in_map_iff in Hf. destruct Hf as (jk & <- & _). intros vb E. unfold fmt_field in E. cbn [snd] in E.
  destruct (fkw_of hc (snd jk)) as [kd|]; [|discriminate E].
  destruct (name_eqb (snd jk) GT).
  - exact (bl_gt_col _ _ E).
  - exact (bl_fmt_col _ _ _ (column_ok _ _ H) E).
Qed.

Lemma bl_enc_record : forall strings contigs s infos fmts hr b,
  Forall byte_list (s_ids s) -> byte_list (s_ref s) -> Forall byte_list (s_alts s) ->
  Forall field_bytes infos -> Forall field_bytes fmts ->
  enc_record strings contigs s infos fmts hr = Ok b -> byte_list b.
Proof.
  intros strings contigs s infos fmts hr b Hids Href Halts Hinf Hfm H. unfold enc_record in H.
  destruct (enc_site _ _ _ _ _) as [sb| | |] eqn:Es; try discriminate H. cbn [bind] in H.
  destruct (u32 (Z.of_nat (length sb))) as [l1| | |] eqn:E1; try discriminate H. cbn [bind] in H.
  destruct (if hr then enc_fields strings fmts else Ok []) as [ib| | |] eqn:Ei; try discriminate H. cbn [bind] in H.
  destruct (u32 (Z.of_nat (length ib))) as [l2| | |] eqn:E2; try discriminate H. cbn [bind] in H.
  match type of H with Ok ?x = Ok _ => assert (b = x) as -> by congruence end. clear H.
  apply bl_app; [exact (bl_u32 _ _ E1)|]. apply bl_app; [exact (bl_u32 _ _ E2)|].
  apply bl_app; [exact (bl_enc_site _ _ _ _ _ _ Hids Href Halts Hinf Es)|].
  destruct hr; [exact (bl_enc_fields _ _ _ Hfm Ei)|]. assert (ib = []) as -> by congruence. apply bl_nil.
Qed.

Theorem bcf_write_bytes : forall strings contigs hc rlen r b,
  rec_bytes_ok_all r = true ->
  bcf_write strings contigs hc rlen r = Ok b -> byte_list b.
Proof.
  intros strings contigs hc rlen r b Hb H. unfold rec_bytes_ok_all in Hb.
  apply andb_prop in Hb. destruct Hb as [Hb Hsm].
  unfold rec_bytes_ok in Hb. repeat (apply andb_prop in Hb; destruct Hb as [Hb ?]).
  unfold bcf_write, enc_record_w in H.
  eapply bl_enc_record; [| | | | |exact H]; cbn [site_of s_ids s_ref s_alts].
  - apply forallb_Forall_bl; assumption.
  - apply byte_listb_iff; assumption.
  - apply forallb_Forall_bl; assumption.
  - apply info_fields_bytes; assumption.
  - destruct (fix11_nfmt_zero_without_rows && negb (has_rows r)); [constructor|].
    apply fmt_fields_bytes. exact Hsm.
Qed.

Lemma write_records_bytes : forall s c hc rs b,
  forallb (fun x => rec_bytes_ok_all (snd x)) rs = true ->
  write_records s c hc rs = Ok b -> byte_list b.
Proof.
  intros s c hc. induction rs as [|[rlen r] t IH]; intros b Hrs H; cbn [write_records] in H.
  - assert (b = []) as -> by congruence. apply bl_nil.
  - cbn [forallb snd] in Hrs. apply andb_prop in Hrs. destruct Hrs as [Hr Ht].
    destruct (bcf_write s c hc rlen r) as [x| | |] eqn:Ex; try discriminate H. cbn [bind] in H.
    destruct (write_records s c hc t) as [y| | |] eqn:Ey; try discriminate H. cbn [bind] in H.
    assert (b = x ++ y) as -> by congruence.
    apply bl_app; [exact (bcf_write_bytes _ _ _ _ _ _ Hr Ex)|exact (IH _ Ht eq_refl)].
Qed.

(* the decidable input predicate of the file writer, records with samples included *)
Definition file_bytes_ok_all (h : vheader) (rs : list (Z * vrec)) : bool :=
  hdr_text_bytes h && forallb (fun x => rec_bytes_ok_all (snd x)) rs.

Theorem bcf_write_file_bytes_all : forall h rs bs,
  file_bytes_ok_all h rs = true -> bcf_write_file h rs = Ok bs -> byte_list bs.
Proof.
  intros h rs bs Hok H. unfold file_bytes_ok_all in Hok. apply andb_prop in Hok. destruct Hok as [Hh Hr].
  unfold bcf_write_file in H.
  destruct (write_prefix h) as [p|] eqn:Ep; [|discriminate H].
  destruct (maps_of_header h) as [[s c]|]; [|discriminate H].
  destruct (write_records s c (hctx_of_header h) rs) as [b| | |] eqn:Eb; try discriminate H.
  cbn [bind] in H. assert (bs = p ++ b) as -> by congruence. apply bl_app.
  - exact (write_prefix_bytes _ _ Hh Ep).
  - exact (write_records_bytes _ _ _ _ _ Hr Eb).
Qed.

Definition written_class_all (h : vheader) (rs : list (Z * vrec)) : bool * option bool :=
  (file_bytes_ok_all h rs, match bcf_write_file h rs with Ok bs => Some (byte_listb bs) | _ => None end).

Lemma written_class_all_sound : forall h rs o, written_class_all h rs = (true, o) -> o = None \/ o = Some true.
Proof.
  intros h rs o H. unfold written_class_all in H.
  assert (Hok : file_bytes_ok_all h rs = true) by congruence.
  destruct (bcf_write_file h rs) as [bs| | |] eqn:Ew; try (left; congruence).
  right. assert (Ho : o = Some (byte_listb bs)) by congruence. rewrite Ho. f_equal.
  apply byte_listb_iff. exact (bcf_write_file_bytes_all h rs bs Hok Ew).
Qed.

Theorem file_roundtrip_lazy_written_no_chars_all : forall hd rs backs bs,
  header_ok hd -> hdr_defs_ok hd = true -> hdr_vals_framed hd ->
  hdr_no_chars hd = true ->
  file_bytes_ok_all hd rs = true ->
  (forall s c, maps_of_header hd = Some (s, c) -> Forall2 (file_rec_dom s c (hctx_of_header hd)) rs backs) ->
  bcf_write_file hd rs = Ok bs ->
  exists lbacks, bcf_read_file_lazy bs = FOk (hd, (lbacks, EndEof)) /\
                 Forall2 (same_content (h_v44 (hctx_of_header hd))) lbacks backs.
Proof.
  intros hd rs backs bs Hok Hd Hfr Hn Hb Hrs Hw.
  exact (file_roundtrip_lazy_no_chars hd rs backs bs Hok Hd Hfr Hn Hrs Hw (bcf_write_file_bytes_all hd rs bs Hb Hw)).
Qed.
