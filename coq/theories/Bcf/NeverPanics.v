(* Totality of the BCF decoder models at the repaired tree: for EVERY byte string (and every sample
   count) the typed-value, string, genotype and record decoders return a value or an error, never
   the panic outcome.  (The models reproduce the real decoders on hostile bytes: kinds hx* of
   bin/check C10.) *)
From Coq Require Import ZArith NArith List Bool.
From NV Require Import Bcf.Ints Bcf.Typed Bcf.Strings Bcf.Genotype Bcf.StringMap Bcf.Record.
Import ListNotations.
Open Scope Z_scope.

Lemma rbind_np : forall {A B} (r : rres A) (f : A -> rres B),
  r <> RPanic -> (forall a, f a <> RPanic) -> rbind r f <> RPanic.
Proof. intros A B r f Hr Hf. destruct r; cbn [rbind]; [apply Hf|discriminate|contradiction]. Qed.

Lemma map_rres_np : forall {A B} (f : A -> rres B) l,
  (forall x, f x <> RPanic) -> map_rres f l <> RPanic.
Proof.
  intros A B f l H. induction l as [|x l IH]; cbn [map_rres]; [discriminate|].
  apply rbind_np; [apply H|]. intros y. apply rbind_np; [exact IH|]. intros ys. discriminate.
Qed.

Ltac np_step :=
  match goal with
  | |- ROk _ <> RPanic => discriminate
  | |- RErr <> RPanic => discriminate
  | |- rbind _ _ <> RPanic => apply rbind_np; [|intros]
  | |- map_rres _ _ <> RPanic => apply map_rres_np; intros
  | |- (if ?c then _ else _) <> RPanic => destruct c
  | |- (match ?x with _ => _ end) <> RPanic => destruct x
  | |- (let _ := _ in _) <> RPanic => cbv zeta
  end.
Ltac np := repeat np_step; try assumption; auto.

(* ---------------------------------------------------------------- entries *)
Lemma int_entry_np : forall w x, int_entry w x <> RPanic.
Proof. intros w x. unfold int_entry. np.
Qed.
#[local] Hint Resolve int_entry_np : core.

Lemma float_entry_np : forall x, float_entry x <> RPanic.
Proof. intros x. unfold float_entry. np.
Qed.
#[local] Hint Resolve float_entry_np : core.

Lemma sample_entries_np : forall w xs, sample_entries w xs <> RPanic.
Proof. intros w. induction xs as [|x xs IH]; cbn [sample_entries]; np.
Qed.
#[local] Hint Resolve sample_entries_np : core.

Lemma fsample_entries_np : forall xs, fsample_entries xs <> RPanic.
Proof. induction xs as [|x xs IH]; cbn [fsample_entries]; np.
Qed.
#[local] Hint Resolve fsample_entries_np : core.

Lemma dec_samples_np : forall w ns len bs, dec_samples w ns len bs <> RPanic.
Proof.
  intros w. induction ns as [|ns IH]; intros len bs; cbn [dec_samples]; np.
Qed.
#[local] Hint Resolve dec_samples_np : core.

Lemma dec_scalars_np : forall w ns bs, dec_scalars w ns bs <> RPanic.
Proof. intros w. induction ns as [|ns IH]; intros bs; cbn [dec_scalars]; np.
Qed.
#[local] Hint Resolve dec_scalars_np : core.

Lemma dec_fsamples_np : forall ns len bs, dec_fsamples ns len bs <> RPanic.
Proof.
  induction ns as [|ns IH]; intros len bs; cbn [dec_fsamples]; np.
Qed.
#[local] Hint Resolve dec_fsamples_np : core.

Lemma dec_fscalars_np : forall ns bs, dec_fscalars ns bs <> RPanic.
Proof. induction ns as [|ns IH]; intros bs; cbn [dec_fscalars]; np.
Qed.
#[local] Hint Resolve dec_fscalars_np : core.

(* ---------------------------------------------------------------- INFO values *)
Theorem dec_info_int_gen_np : forall array bs, dec_info_int_gen array bs <> RPanic.
Proof. intros array bs. unfold dec_info_int_gen. np.
Qed.
#[local] Hint Resolve dec_info_int_gen_np : core.

Theorem dec_info_float_gen_np : forall array bs, dec_info_float_gen array bs <> RPanic.
Proof. intros array bs. unfold dec_info_float_gen. np.
Qed.
#[local] Hint Resolve dec_info_float_gen_np : core.

Theorem dec_info_string_np : forall bs, dec_info_string bs <> RPanic.
Proof. intros bs. unfold dec_info_string. np.
Qed.
#[local] Hint Resolve dec_info_string_np : core.

Theorem dec_info_char_np : forall bs, dec_info_char bs <> RPanic.
Proof. intros bs. unfold dec_info_char. np.
Qed.
#[local] Hint Resolve dec_info_char_np : core.

Theorem dec_info_chars_np : forall bs, dec_info_chars bs <> RPanic.
Proof. intros bs. unfold dec_info_chars. np.
Qed.
#[local] Hint Resolve dec_info_chars_np : core.

Theorem dec_info_str_np : forall bs, dec_info_str bs <> RPanic.
Proof. intros bs. unfold dec_info_str. np.
Qed.
#[local] Hint Resolve dec_info_str_np : core.

Theorem dec_info_strs_np : forall bs, dec_info_strs bs <> RPanic.
Proof. intros bs. unfold dec_info_strs. np.
Qed.
#[local] Hint Resolve dec_info_strs_np : core.

(* ---------------------------------------------------------------- FORMAT series *)
Theorem dec_fmt_int_gen_np : forall scalar ns bs, dec_fmt_int_gen scalar ns bs <> RPanic.
Proof.
  intros scalar ns bs. unfold dec_fmt_int_gen. np.
Qed.
#[local] Hint Resolve dec_fmt_int_gen_np : core.

Theorem dec_fmt_float_gen_np : forall scalar ns bs, dec_fmt_float_gen scalar ns bs <> RPanic.
Proof.
  intros scalar ns bs. unfold dec_fmt_float_gen. np.
Qed.
#[local] Hint Resolve dec_fmt_float_gen_np : core.

Lemma dec_fmt_cells_np : forall ns bs, dec_fmt_cells ns bs <> RPanic.
Proof. intros ns bs. unfold dec_fmt_cells. np.
Qed.
#[local] Hint Resolve dec_fmt_cells_np : core.

Lemma first_char_np : forall s, first_char s <> RPanic.
Proof. intros s. unfold first_char. np.
Qed.
#[local] Hint Resolve first_char_np : core.

Theorem dec_fmt_chars_np : forall ns bs, dec_fmt_chars ns bs <> RPanic.
Proof. intros ns bs. unfold dec_fmt_chars. np.
Qed.
#[local] Hint Resolve dec_fmt_chars_np : core.

Theorem dec_fmt_char_arrays_np : forall ns bs, dec_fmt_char_arrays ns bs <> RPanic.
Proof. intros ns bs. unfold dec_fmt_char_arrays. np.
Qed.
#[local] Hint Resolve dec_fmt_char_arrays_np : core.

Theorem dec_fmt_strings_np : forall ns bs, dec_fmt_strings ns bs <> RPanic.
Proof. intros ns bs. unfold dec_fmt_strings. np.
Qed.
#[local] Hint Resolve dec_fmt_strings_np : core.

Theorem dec_fmt_str_arrays_np : forall ns bs, dec_fmt_str_arrays ns bs <> RPanic.
Proof. intros ns bs. unfold dec_fmt_str_arrays. np.
Qed.
#[local] Hint Resolve dec_fmt_str_arrays_np : core.

(* ---------------------------------------------------------------- genotypes *)
Lemma parse_gt_np : forall vs, parse_gt vs <> RPanic.
Proof. induction vs as [|v vs IH]; cbn [parse_gt]; np.
Qed.
#[local] Hint Resolve parse_gt_np : core.

Lemma dec_gt_samples_np : forall ns len bs, dec_gt_samples ns len bs <> RPanic.
Proof.
  induction ns as [|ns IH]; intros len bs; cbn [dec_gt_samples]; np.
Qed.
#[local] Hint Resolve dec_gt_samples_np : core.

Theorem dec_gt_np : forall ns bs, dec_gt ns bs <> RPanic.
Proof. intros ns bs. unfold dec_gt. np.
Qed.
#[local] Hint Resolve dec_gt_np : core.

(* ---------------------------------------------------------------- the whole record *)
From NV Require Import Bcf.RecordTyped.

Lemma dec_flag_np : forall vb, dec_flag vb <> RPanic.
Proof. intros vb. unfold dec_flag. np. Qed.
#[local] Hint Resolve dec_flag_np : core.

Theorem dec_info_kind_np : forall k vb, dec_info_kind k vb <> RPanic.
Proof. intros k vb. unfold dec_info_kind. np. Qed.
#[local] Hint Resolve dec_info_kind_np : core.

Theorem dec_fmt_kind_np : forall k ns vb, dec_fmt_kind k ns vb <> RPanic.
Proof. intros k ns vb. unfold dec_fmt_kind. np. Qed.
#[local] Hint Resolve dec_fmt_kind_np : core.

Lemma dec_gt_col_np : forall ns vb, dec_gt_col ns vb <> RPanic.
Proof. intros ns vb. unfold dec_gt_col. np. Qed.
#[local] Hint Resolve dec_gt_col_np : core.

(* read_record_buf as a whole, on EVERY byte string, for every dictionary, every header typing of
   the keys and every header sample count *)
Theorem dec_record_typed_np : forall strings contigs ik fk hs bs,
  dec_record_typed strings contigs ik fk hs bs <> RPanic.
Proof. intros strings contigs ik fk hs bs. unfold dec_record_typed. np. Qed.
